/- C14 helper lemmas: the block walker. -/
import YaraModel.Model.HashMath
import YaraModel.Spec.HashMath
namespace YaraModel.HM

theorem take_min_length {α : Type} (l : List α) (n : Nat) : l.take (min n l.length) = l.take n := by
  by_cases h : n ≤ l.length
  · rw [Nat.min_eq_left h]
  · have h' : l.length ≤ n := by omega
    rw [Nat.min_eq_right h', List.take_length, List.take_of_length_le h']

/-- The chunk taken from a block is the slice of its data. -/
theorem chunk_eq_slice (b : Block) (off len : Nat) :
    b.chunk off len = Spec.slice b.data (off - b.base) len := by
  unfold Block.chunk Block.dlen Spec.slice Block.size
  have : b.data.length - (off - b.base) = (b.data.drop (off - b.base)).length := by simp
  rw [this, take_min_length]

theorem walkLoop_single (b : Block) (off len : Nat) :
    walkLoop [b] off len false =
      if b.base ≤ off ∧ off < b.base + b.size then some [b.chunk off len] else none := by
  unfold walkLoop
  split
  · split
    · rfl
    · simp [walkLoop]
  · simp [walkLoop]

theorem dlen_le (b : Block) (off len : Nat) : b.dlen off len ≤ len := by
  unfold Block.dlen; omega

theorem off_len_inv (b : Block) (off len : Nat) :
    (off + b.dlen off len) + (len - b.dlen off len) = off + len := by
  have := dlen_le b off len; omega

/-- when the range runs past the end of the block, the whole rest of the block is consumed -/
theorem dlen_past (b : Block) (off len : Nat) (hin : b.base ≤ off ∧ off < b.base + b.size)
    (h : ¬ (b.base + b.size ≥ off + len)) :
    off + b.dlen off len = b.base + b.size ∧ len - b.dlen off len = off + len - (b.base + b.size) := by
  unfold Block.dlen; omega

/-- one step, offset inside the block -/
theorem walkLoop_in (b : Block) (bs : List Block) (off len : Nat) (past : Bool)
    (hin : b.base ≤ off ∧ off < b.base + b.size) :
    walkLoop (b :: bs) off len past =
      if b.base + b.size ≥ off + len then some [b.chunk off len]
      else (walkLoop bs (b.base + b.size) (off + len - (b.base + b.size)) true).map (b.chunk off len :: ·) := by
  rw [walkLoop, if_pos hin, off_len_inv]
  split
  · rfl
  · next h => rw [(dlen_past b off len hin h).1, (dlen_past b off len hin h).2]

/-- one step, offset outside the block: undefined after the first block, otherwise the block is
    skipped (the break test is not evaluated before a block has been entered) -/
theorem walkLoop_out (b : Block) (bs : List Block) (off len : Nat) (past : Bool)
    (hout : ¬ (b.base ≤ off ∧ off < b.base + b.size)) :
    walkLoop (b :: bs) off len past = if past then none else walkLoop bs off len false := by
  rw [walkLoop, if_neg hout]

/-! ### slice algebra for two adjacent blocks -/

def merge (b1 b2 : Block) : Block := ⟨b1.base, b1.data ++ b2.data⟩

theorem merge_size (b1 b2 : Block) : (merge b1 b2).size = b1.size + b2.size := by
  simp [merge, Block.size]

theorem chunk_merge_left (b1 b2 : Block) (off len : Nat) (h1 : b1.base ≤ off)
    (h2 : off + len ≤ b1.base + b1.size) : (merge b1 b2).chunk off len = b1.chunk off len := by
  rw [chunk_eq_slice, chunk_eq_slice]
  unfold Spec.slice merge Block.size at *
  simp only
  rw [List.drop_append_of_le_length (by omega), List.take_append_of_le_length (by simp; omega)]

theorem chunk_merge_right (b1 b2 : Block) (off len : Nat) (hc : b2.base = b1.base + b1.size)
    (h1 : b2.base ≤ off) : (merge b1 b2).chunk off len = b2.chunk off len := by
  rw [chunk_eq_slice, chunk_eq_slice]
  unfold Spec.slice merge Block.size at *
  simp only
  rw [List.drop_append]
  have h0 : List.drop (off - b1.base) b1.data = [] := List.drop_eq_nil_of_le (by omega)
  have h3 : off - b1.base - b1.data.length = off - b2.base := by omega
  rw [h0, h3, List.nil_append]

theorem chunk_merge_both (b1 b2 : Block) (off len : Nat) (hc : b2.base = b1.base + b1.size)
    (h1 : b1.base ≤ off) (h2 : off < b1.base + b1.size) (h3 : ¬ (b1.base + b1.size ≥ off + len)) :
    b1.chunk off len ++ b2.chunk (b1.base + b1.size) (off + len - (b1.base + b1.size)) =
      (merge b1 b2).chunk off len := by
  rw [chunk_eq_slice, chunk_eq_slice, chunk_eq_slice]
  unfold Spec.slice merge Block.size at *
  simp only
  rw [List.drop_append_of_le_length (by omega), List.take_append]
  have ha : List.take len (List.drop (off - b1.base) b1.data) = List.drop (off - b1.base) b1.data :=
    List.take_of_length_le (by simp; omega)
  have hb : b1.base + b1.data.length - b2.base = 0 := by omega
  have hl : off + len - (b1.base + b1.data.length) = len - (List.drop (off - b1.base) b1.data).length := by
    simp; omega
  rw [ha, hb, List.drop_zero, hl]

/-- flattening after consing chunks -/
theorem map_flatten_cons (c : Bytes) (o : Option (List Bytes)) :
    (o.map (c :: ·)).map List.flatten = (o.map List.flatten).map (c ++ ·) := by
  cases o <;> simp

/-- Two adjacent non-empty blocks at the head of the remaining list behave like their
    concatenation, for every loop state. -/
theorem walk_contig_step (b1 b2 : Block) (rest : List Block) (hc : b2.base = b1.base + b1.size)
    (hs1 : 0 < b1.size) (hs2 : 0 < b2.size) (off len : Nat) (past : Bool)
    (hpast : past = true → off ≤ b1.base) :
    (walkLoop (b1 :: b2 :: rest) off len past).map List.flatten =
      (walkLoop (merge b1 b2 :: rest) off len past).map List.flatten := by
  have hm : (merge b1 b2).base = b1.base := rfl
  have hms := merge_size b1 b2
  by_cases hin1 : b1.base ≤ off ∧ off < b1.base + b1.size
  · -- offset inside b1
    have hinm : (merge b1 b2).base ≤ off ∧ off < (merge b1 b2).base + (merge b1 b2).size := by
      rw [hm, hms]; omega
    rw [walkLoop_in b1 _ off len past hin1, walkLoop_in (merge b1 b2) _ off len past hinm]
    by_cases hb1 : b1.base + b1.size ≥ off + len
    · have hbm : (merge b1 b2).base + (merge b1 b2).size ≥ off + len := by rw [hm, hms]; omega
      rw [if_pos hb1, if_pos hbm, chunk_merge_left b1 b2 off len hin1.1 (by omega)]
    · rw [if_neg hb1]
      have hin2 : b2.base ≤ b1.base + b1.size ∧ b1.base + b1.size < b2.base + b2.size := by omega
      rw [walkLoop_in b2 rest _ _ true hin2]
      have hsum : b1.base + b1.size + (off + len - (b1.base + b1.size)) = off + len := by omega
      rw [hsum]
      have hcm := chunk_merge_both b1 b2 off len hc hin1.1 hin1.2 hb1
      by_cases hb2 : b2.base + b2.size ≥ off + len
      · have hbm : (merge b1 b2).base + (merge b1 b2).size ≥ off + len := by rw [hm, hms]; omega
        rw [if_pos hb2, if_pos hbm]
        simp only [Option.map_some, List.flatten_cons, List.flatten_nil, List.append_nil]
        rw [← hcm]
      · have hbm : ¬ ((merge b1 b2).base + (merge b1 b2).size ≥ off + len) := by rw [hm, hms]; omega
        rw [if_neg hb2, if_neg hbm]
        have e1 : (merge b1 b2).base + (merge b1 b2).size = b2.base + b2.size := by rw [hm, hms]; omega
        rw [e1]
        cases walkLoop rest (b2.base + b2.size) (off + len - (b2.base + b2.size)) true with
        | none => rfl
        | some cs => simp [← hcm]
  · -- offset outside b1
    rw [walkLoop_out b1 _ off len past hin1]
    cases past with
    | true =>
      have hle := hpast rfl
      have houtm : ¬ ((merge b1 b2).base ≤ off ∧ off < (merge b1 b2).base + (merge b1 b2).size) := by
        rw [hm, hms]; omega
      rw [walkLoop_out _ _ off len true houtm]; rfl
    | false =>
      simp only [Bool.false_eq_true, if_false]
      by_cases hin2 : b2.base ≤ off ∧ off < b2.base + b2.size
      · have hinm : (merge b1 b2).base ≤ off ∧ off < (merge b1 b2).base + (merge b1 b2).size := by
          rw [hm, hms]; omega
        rw [walkLoop_in b2 rest off len false hin2, walkLoop_in (merge b1 b2) _ off len false hinm]
        have e1 : (merge b1 b2).base + (merge b1 b2).size = b2.base + b2.size := by rw [hm, hms]; omega
        rw [e1, chunk_merge_right b1 b2 off len hc hin2.1]
      · have houtm : ¬ ((merge b1 b2).base ≤ off ∧ off < (merge b1 b2).base + (merge b1 b2).size) := by
          rw [hm, hms]; omega
        rw [walkLoop_out b2 rest off len false hin2, walkLoop_out _ _ off len false houtm]

/-- …also behind any prefix of blocks that end at or before `b1` (ascending layout). -/
theorem walk_contig_prefix (pre : List Block) (b1 b2 : Block) (rest : List Block)
    (hc : b2.base = b1.base + b1.size) (hs1 : 0 < b1.size) (hs2 : 0 < b2.size)
    (hpre : ∀ p ∈ pre, p.base + p.size ≤ b1.base) (off len : Nat) (past : Bool)
    (hpast : past = true → off ≤ b1.base) :
    (walkLoop (pre ++ b1 :: b2 :: rest) off len past).map List.flatten =
      (walkLoop (pre ++ merge b1 b2 :: rest) off len past).map List.flatten := by
  induction pre generalizing off len past with
  | nil => exact walk_contig_step b1 b2 rest hc hs1 hs2 off len past hpast
  | cons p pre ih =>
    have hp : p.base + p.size ≤ b1.base := hpre p (by simp)
    have hpre' : ∀ q ∈ pre, q.base + q.size ≤ b1.base := fun q hq => hpre q (by simp [hq])
    simp only [List.cons_append]
    by_cases hin : p.base ≤ off ∧ off < p.base + p.size
    · rw [walkLoop_in p _ off len past hin, walkLoop_in p _ off len past hin]
      split
      · rfl
      · next hb =>
        rw [map_flatten_cons, map_flatten_cons]
        rw [ih hpre' _ _ true (fun _ => hp)]
    · rw [walkLoop_out p _ off len past hin, walkLoop_out p _ off len past hin]
      cases past with
      | true => rfl
      | false =>
        simp only [Bool.false_eq_true, if_false]
        exact ih hpre' off len false (by simp)

/-- if the first consumed chunk is empty it is the only one (then `length` was 0 and the loop was
    left at once) -/
theorem chunk_length (b : Block) (off len : Nat) (hin : b.base ≤ off ∧ off < b.base + b.size) :
    (b.chunk off len).length = b.dlen off len := by
  unfold Block.chunk Block.dlen Block.size at *
  simp only [List.length_take, List.length_drop]; omega

theorem walkLoop_head_empty (bs : List Block) (off len : Nat) (past : Bool) (c : Bytes) (cs : List Bytes)
    (h : walkLoop bs off len past = some (c :: cs)) (hc : c = []) : cs = [] := by
  induction bs generalizing past with
  | nil => unfold walkLoop at h; split at h <;> simp at h
  | cons b bs ih =>
    by_cases hin : b.base ≤ off ∧ off < b.base + b.size
    · rw [walkLoop_in b bs off len past hin] at h
      split at h
      · simp only [Option.some.injEq, List.cons.injEq] at h; exact h.2.symm
      · next hb =>
        exfalso
        cases hw : walkLoop bs (b.base + b.size) (off + len - (b.base + b.size)) true with
        | none => rw [hw] at h; simp at h
        | some r =>
          rw [hw] at h
          simp only [Option.map_some, Option.some.injEq, List.cons.injEq] at h
          have hl := chunk_length b off len hin
          rw [h.1, hc] at hl
          unfold Block.dlen at hl
          simp only [List.length_nil] at hl
          omega
    · rw [walkLoop_out b bs off len past hin] at h
      cases past with
      | true => simp at h
      | false => exact ih false (by simpa using h)

/-! ### the memory-map specification on one region -/

theorem readFrom_single (base : Nat) (d : Bytes) (a n : Nat) (h1 : base ≤ a) (h2 : a + n ≤ base + d.length) :
    Spec.readFrom [(base, d)] a n = some ((d.drop (a - base)).take n) := by
  induction n generalizing a with
  | zero => simp [Spec.readFrom]
  | succ n ih =>
    have hlt : a - base < d.length := by omega
    have hm : Spec.memAt [(base, d)] a = some d[a - base] := by
      simp only [Spec.memAt]
      rw [if_pos (by omega)]
      exact List.getElem?_eq_getElem hlt
    have hr := ih (a + 1) (by omega) (by omega)
    simp only [Spec.readFrom, hm, hr]
    have e : a + 1 - base = a - base + 1 := by omega
    rw [e, List.drop_eq_getElem_cons hlt, List.take_succ_cons]

theorem memAt_single_none (base : Nat) (d : Bytes) (a : Nat) (h : ¬ (base ≤ a ∧ a < base + d.length)) :
    Spec.memAt [(base, d)] a = none := by
  simp only [Spec.memAt]; rw [if_neg h]

theorem memAt_single_some (base : Nat) (d : Bytes) (a : Nat) (h : base ≤ a ∧ a < base + d.length) :
    (Spec.memAt [(base, d)] a).isNone = false := by
  simp only [Spec.memAt]; rw [if_pos h]
  have hlt : a - base < d.length := by omega
  rw [List.getElem?_eq_getElem hlt]; rfl

theorem addressedMem_single_lemma (base : Nat) (data : Bytes) (off len : Int) :
    Spec.addressedMem [(base, data)] off len = Spec.addressed base data off len := by
  unfold Spec.addressedMem Spec.addressed
  by_cases h : off < 0 ∨ len < 0
  · have h2 : ¬ (0 ≤ len ∧ (base : Int) ≤ off ∧ off < (base : Int) + data.length) := by omega
    rw [if_pos h, if_neg h2]
  · rw [if_neg h]
    by_cases hin : base ≤ off.toNat ∧ off.toNat < base + data.length
    · have hsp : 0 ≤ len ∧ (base : Int) ≤ off ∧ off < (base : Int) + data.length := by omega
      rw [memAt_single_some base data _ hin, if_pos hsp]
      simp only [Bool.false_eq_true, if_false, Spec.memEnd]
      rw [readFrom_single base data _ _ hin.1 (by omega)]
      unfold Spec.slice
      have e : min (off.toNat + len.toNat) (max (base + data.length) 0) - off.toNat =
          min len.toNat (data.drop (off.toNat - base)).length := by
        simp only [List.length_drop]; omega
      rw [e, take_min_length]
    · have hsp : ¬ (0 ≤ len ∧ (base : Int) ≤ off ∧ off < (base : Int) + data.length) := by omega
      rw [memAt_single_none base data _ hin, if_neg hsp]
      rfl

end YaraModel.HM
