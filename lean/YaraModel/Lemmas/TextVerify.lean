/- helper lemmas for Thm/C01.lean: what the verifier accepts is a documented variant -/
import YaraModel.Lemmas.TextCover
namespace YaraModel.Text

theorem lower_swapCase (c : UInt8) : lower (swapCase c) = lower c := by
  have hc := c.toNat_lt
  simp only [lower, swapCase, UInt8.le_iff_toNat_le, ← UInt8.toNat_inj] at *
  (repeat' split) <;> simp only [UInt8.toNat_add, UInt8.toNat_sub, UInt8.toNat_ofNat] at * <;> omega

theorem caseCombos_lower : ∀ (bs bs' : Bytes), bs' ∈ caseCombos bs → bs'.map lower = bs.map lower
  | [], bs', h => by simp [caseCombos] at h; simp [h]
  | c :: t, bs', h => by
      simp only [caseCombos] at h
      split at h
      · simp only [List.mem_append, List.mem_map] at h
        rcases h with ⟨x, hx, rfl⟩ | ⟨x, hx, rfl⟩
        · simp [caseCombos_lower t x hx]
        · simp [caseCombos_lower t x hx, lower_swapCase]
      · simp only [List.mem_map] at h
        obtain ⟨x, hx, rfl⟩ := h
        simp [caseCombos_lower t x hx]

/-- how an atom's bytes relate to the encoded string `e` it was cut from (whole string for FITS) -/
def Rel (m : Mods) (x e : Bytes) : Prop :=
  if m.nocase then x.map lower = e.map lower
  else match m.xor with
    | none => x = e
    | some (lo, hi) => ∃ k, k ∈ keys lo hi ∧ x = e.map (· ^^^ k)

theorem mem_atomsOf_shape {w : Nat} {m : Mods} {s : Bytes} {a : Atom} (hleg : m.legal = true) (h : a ∈ atomsOf w m s) :
    ∃ a0 ∈ l0 w m s, a.backtrack = a0.backtrack ∧ Rel m a.bytes a0.bytes := by
  unfold atomsOf at h
  unfold Rel
  cases hn : m.nocase with
  | true =>
    have hx := legal_nocase_xor hleg hn
    simp only [hn, hx, if_true, List.mem_flatMap, List.mem_map] at h
    obtain ⟨a0, h0, bs', hb, rfl⟩ := h
    exact ⟨a0, h0, rfl, by simpa using caseCombos_lower _ _ hb⟩
  | false =>
    cases hx : m.xor with
    | none =>
      simp only [hn, hx] at h
      exact ⟨a, h, rfl, by simp⟩
    | some r =>
      obtain ⟨lo, hi⟩ := r
      simp only [hn, hx, List.mem_flatMap, List.mem_map] at h
      obtain ⟨a0, h0, k, hk, rfl⟩ := h
      exact ⟨a0, h0, rfl, ⟨k, hk, rfl⟩⟩


theorem xor_cancel (a k : UInt8) : a ^^^ (a ^^^ k) = k := by
  rw [← UInt8.xor_assoc, UInt8.xor_self, UInt8.zero_xor]

theorem xorKeyAt_of_window {e buf : Bytes} {o : Nat} {k : UInt8} (hne : e ≠ [])
    (h : window buf o e.length = some (e.map (· ^^^ k))) : xorKeyAt e buf o = some k := by
  cases e with
  | nil => exact absurd rfl hne
  | cons e0 et =>
    unfold xorKeyAt
    simp only [h, List.map_cons]
    simp [xor_cancel]


theorem window_head {buf : Bytes} {o n : Nat} {x : UInt8} {xs : Bytes} (h : window buf o n = some (x :: xs)) :
    buf[o]? = some x := by
  rw [window_eq_some] at h
  obtain ⟨hl, heq⟩ := h
  have : ((buf.drop o).take n)[0]? = some x := by rw [← heq]; rfl
  have hn : 0 < n := by
    cases n with
    | zero => simp at heq
    | succ n => omega
  simpa [List.getElem?_take, hn] using this

theorem xor_left_cancel {a k1 k2 : UInt8} (h : a ^^^ k1 = a ^^^ k2) : k1 = k2 := by
  have := congrArg (a ^^^ ·) h
  simpa [xor_cancel] using this

theorem head_key {p1 p2 buf : Bytes} {o : Nat} {k1 k2 : UInt8} (x : UInt8) (t1 t2 : Bytes)
    (hp1 : p1 = x :: t1) (hp2 : p2 = x :: t2)
    (h1 : xorKeyAt p1 buf o = some k1) (h2 : xorKeyAt p2 buf o = some k2) : k1 = k2 := by
  subst hp1; subst hp2
  have a1 := window_head (xorKeyAt_some h1)
  have a2 := window_head (xorKeyAt_some h2)
  simp only [List.map_cons] at a1 a2
  rw [a1] at a2
  exact xor_left_cancel (Option.some.inj a2)


theorem rel_length {m : Mods} {x e : Bytes} (h : Rel m x e) : x.length = e.length := by
  unfold Rel at h
  split at h
  · have := congrArg List.length h; simpa using this
  · split at h
    · rw [h]
    · obtain ⟨k, _, rfl⟩ := h; simp

theorem occ_of_rel {m : Mods} {e x buf : Bytes} {o : Nat} (hne : e ≠ []) (hrel : Rel m x e)
    (hwin : window buf o x.length = some x) :
    (m.nocase = true ∧ occursAt true e buf o = true) ∨
    (m.nocase = false ∧ m.xor = none ∧ occursAt false e buf o = true) ∨
    (m.nocase = false ∧ ∃ r k, m.xor = some r ∧ xorKeyAt e buf o = some k) := by
  have hl := rel_length hrel
  rw [hl] at hwin
  unfold Rel at hrel
  cases hn : m.nocase with
  | true =>
    simp only [hn, if_true] at hrel
    left; refine ⟨rfl, ?_⟩
    simp [occursAt, hwin, eqBytes, hrel]
  | false =>
    simp only [hn] at hrel
    right
    cases hx : m.xor with
    | none =>
      simp only [hx] at hrel
      left; refine ⟨rfl, rfl, ?_⟩
      subst hrel
      simp [occursAt, hwin, eqBytes]
    | some r =>
      obtain ⟨lo, hi⟩ := r
      simp only [hx] at hrel
      obtain ⟨k, _, rfl⟩ := hrel
      right
      exact ⟨rfl, (lo, hi), k, rfl, xorKeyAt_of_window hne hwin⟩

theorem l0_fits {w : Nat} {m : Mods} {s : Bytes} {a0 : Atom} (hf : fitsInAtom m s = true) (hw : ValidWindow w s)
    (h0 : a0 ∈ l0 w m s) :
    (a0 = ⟨s, 0⟩ ∧ (m.wide = false ∨ m.ascii = true)) ∨ (a0 = ⟨widen s, 0⟩ ∧ m.wide = true) := by
  have hlen : s.length ≤ 4 := by
    unfold fitsInAtom at hf; split at hf <;> simp at hf <;> omega
  have hw0 : w = 0 := by unfold ValidWindow at hw; omega
  subst hw0
  have hb : baseAtom 0 s = ⟨s, 0⟩ := by simp [baseAtom, List.take_of_length_le hlen]
  unfold l0 at h0
  rw [hb] at h0
  cases hwd : m.wide with
  | false => simp [hwd] at h0; left; exact ⟨h0, Or.inl rfl⟩
  | true =>
    have h2 : 2 * s.length ≤ 4 := by unfold fitsInAtom at hf; simpa [hwd] using hf
    have hwo : wideOf ⟨s, 0⟩ = ⟨widen s, 0⟩ := by
      simp [wideOf]; apply List.take_of_length_le; rw [widen_length]; exact h2
    rw [hwo] at h0
    cases ha : m.ascii with
    | false => simp [hwd, ha] at h0; right; exact ⟨h0, rfl⟩
    | true =>
      simp [hwd, ha] at h0
      rcases h0 with h0 | h0
      · left; exact ⟨h0, Or.inr rfl⟩
      · right; exact ⟨h0, rfl⟩

def anyKey (m : Mods) : Mods := { m with xor := m.xor.map fun _ => (0, 255) }

theorem inRange_full (k : UInt8) : inRange (0, 255) k = true := by
  simp only [inRange, UInt8.le_iff_toNat_le, Bool.and_eq_true, decide_eq_true_eq]
  have := k.toNat_lt
  constructor
  · exact Nat.zero_le _
  · show k.toNat ≤ 255; omega

theorem xorKeyAt_zero {pat buf : Bytes} {o : Nat} (h : xorKeyAt pat buf o = some 0) : occursAt false pat buf o = true := by
  have := xorKeyAt_some h
  rw [map_xor_zero] at this
  simp [occursAt, this, eqBytes]


theorem legal_enc {m : Mods} (hleg : m.legal = true) (h : m.wide = false) : m.ascii = true := by
  unfold Mods.legal at hleg
  cases ha : m.ascii <;> simp_all

theorem widen_cons_ne {s : Bytes} (hs : s ≠ []) : ∃ x t t', s = x :: t ∧ widen s = x :: t' := by
  cases s with
  | nil => exact absurd rfl hs
  | cons x t => exact ⟨x, t, 0 :: widen t, rfl, rfl⟩

theorem mem_variants_ascii {m : Mods} {s buf : Bytes} {o : Nat} {k : UInt8} (hs : s.isEmpty = false) (ha : m.ascii = true)
    (h : (m.xor = none ∧ k = 0 ∧ occursAt m.nocase s buf o = true) ∨
         (m.xor.isSome = true ∧ m.nocase = false ∧ xorKeyAt s buf o = some k)) :
    (s.length, k, false) ∈ variantsAt (anyKey m) s buf o := by
  unfold variantsAt anyKey
  simp only [hs, Bool.false_eq_true, if_false]
  rcases h with ⟨hx, rfl, hocc⟩ | ⟨hx, hn, hk⟩
  · simp [hx, ha, hocc]
  · obtain ⟨r, hr⟩ := Option.isSome_iff_exists.mp hx
    simp only [hr, Option.map_some, inRange_full, hn, ha]
    by_cases hk0 : k = 0
    · subst hk0; simp [xorKeyAt_zero hk]
    · simp [hk, hk0]

theorem mem_variants_wide {m : Mods} {s buf : Bytes} {o : Nat} {k : UInt8} (hs : s.isEmpty = false) (hw : m.wide = true)
    (h : (m.xor = none ∧ k = 0 ∧ occursAt m.nocase (widen s) buf o = true) ∨
         (m.xor.isSome = true ∧ m.nocase = false ∧ xorKeyAt (widen s) buf o = some k)) :
    (2 * s.length, k, true) ∈ variantsAt (anyKey m) s buf o := by
  unfold variantsAt anyKey
  simp only [hs, Bool.false_eq_true, if_false]
  rcases h with ⟨hx, rfl, hocc⟩ | ⟨hx, hn, hk⟩
  · simp [hx, hw, hocc]
  · obtain ⟨r, hr⟩ := Option.isSome_iff_exists.mp hx
    simp only [hr, Option.map_some, inRange_full, hn, hw]
    by_cases hk0 : k = 0
    · subst hk0; simp [xorKeyAt_zero hk]
    · simp [hk, hk0]


theorem fm_sound_fits (w : Nat) (m : Mods) (s buf : Bytes) (bt o fm : Nat) (k : UInt8)
    (hf : fitsInAtom m s = true) (hleg : m.legal = true) (hs : s.isEmpty = false) (hw : ValidWindow w s)
    (a : Atom) (ha : a ∈ atomsOf w m s) (hat : atomAt a buf o) (hbt : bt = a.bytes.length + a.backtrack)
    (h : forwardMatches m s bt buf o = (fm, k)) :
    (fm, k, fm == 2 * s.length) ∈ variantsAt (anyKey m) s buf o := by
  have hne : s ≠ [] := by cases s <;> simp_all
  have hslen : s.length > 0 := by cases s <;> simp_all
  obtain ⟨a0, h0, hb0, hrel⟩ := mem_atomsOf_shape hleg ha
  have hlen := rel_length hrel
  unfold atomAt at hat
  unfold forwardMatches at h
  simp only [hf, if_true] at h
  rcases l0_fits hf hw h0 with ⟨rfl, henc⟩ | ⟨rfl, hwd⟩
  · -- the atom is an ascii-encoded variant of the whole string
    have hasc : m.ascii = true := by
      rcases henc with h1 | h1
      · exact legal_enc hleg h1
      · exact h1
    simp only at hb0 hlen hrel
    rw [hb0, Nat.add_zero] at hat
    rw [hb0, hlen, Nat.add_zero] at hbt
    subst hbt
    have hflag : (s.length == 2 * s.length) = false := by simp; omega
    rcases occ_of_rel hne hrel hat with ⟨hn, hocc⟩ | ⟨hn, hx, hocc⟩ | ⟨hn, r, k', hx, hk⟩
    · have hx := legal_nocase_xor hleg hn
      simp only [hx, Option.isSome_none, Bool.false_eq_true, if_false, Prod.mk.injEq] at h
      obtain ⟨rfl, rfl⟩ := h
      rw [hflag]
      exact mem_variants_ascii hs hasc (Or.inl ⟨hx, rfl, by rw [hn]; exact hocc⟩)
    · simp only [hx, Option.isSome_none, Bool.false_eq_true, if_false, Prod.mk.injEq] at h
      obtain ⟨rfl, rfl⟩ := h
      rw [hflag]
      exact mem_variants_ascii hs hasc (Or.inl ⟨hx, rfl, by rw [hn]; exact hocc⟩)
    · simp only [hx, Option.isSome_some, if_true, hasc, xorCmp, hk, Prod.mk.injEq] at h
      simp only [hslen, if_true] at h
      obtain ⟨rfl, rfl⟩ := h
      rw [hflag]
      exact mem_variants_ascii hs hasc (Or.inr ⟨by simp [hx], hn, hk⟩)
  · -- the atom is a wide-encoded variant of the whole string
    simp only at hb0 hlen hrel
    rw [hb0, Nat.add_zero] at hat
    rw [hb0, hlen, Nat.add_zero, widen_length] at hbt
    subst hbt
    have hwne : widen s ≠ [] := by
      obtain ⟨x, t, t', _, h2⟩ := widen_cons_ne hne; rw [h2]; simp
    have hflag : (2 * s.length == 2 * s.length) = true := by simp
    rcases occ_of_rel hwne hrel hat with ⟨hn, hocc⟩ | ⟨hn, hx, hocc⟩ | ⟨hn, r, k', hx, hk⟩
    · have hx := legal_nocase_xor hleg hn
      simp only [hx, Option.isSome_none, Bool.false_eq_true, if_false, Prod.mk.injEq] at h
      obtain ⟨rfl, rfl⟩ := h
      rw [hflag]
      exact mem_variants_wide hs hwd (Or.inl ⟨hx, rfl, by rw [hn]; exact hocc⟩)
    · simp only [hx, Option.isSome_none, Bool.false_eq_true, if_false, Prod.mk.injEq] at h
      obtain ⟨rfl, rfl⟩ := h
      rw [hflag]
      exact mem_variants_wide hs hwd (Or.inl ⟨hx, rfl, by rw [hn]; exact hocc⟩)
    · obtain ⟨x, t, t', hs1, hs2⟩ := widen_cons_ne hne
      have hk2 : k = k' := by
        simp only [hx, Option.isSome_some, if_true, hwd, xorCmp, hk, widen_length, Prod.mk.injEq] at h
        have h2pos : 2 * s.length > 0 := by omega
        simp only [h2pos, if_true] at h
        obtain ⟨_, hkk⟩ := h
        cases hasc : m.ascii with
        | false => simp [hasc] at hkk; exact hkk.symm
        | true =>
          simp only [hasc, if_true] at hkk
          cases hka : xorKeyAt s buf o with
          | none => simp [hka] at hkk; exact hkk.symm
          | some ka =>
            simp only [hka, hslen, if_true] at hkk
            rw [← hkk]
            exact head_key x t t' hs1 hs2 hka hk
      have hfm : fm = 2 * s.length := by
        simp only [hx, Option.isSome_some, if_true, Prod.mk.injEq] at h
        exact h.1.symm
      subst hk2; subst hfm
      rw [hflag]
      exact mem_variants_wide hs hwd (Or.inr ⟨by simp [hx], hn, hk⟩)


theorem fm_sound_nonfits (m : Mods) (s buf : Bytes) (bt o fm : Nat) (k : UInt8)
    (hf : fitsInAtom m s = false) (hleg : m.legal = true) (hs : s.isEmpty = false)
    (h : forwardMatches m s bt buf o = (fm, k)) (hpos : fm > 0) :
    (fm, k, fm == 2 * s.length) ∈ variantsAt (anyKey m) s buf o := by
  have hslen : s.length > 0 := by cases s <;> simp_all
  have hne : s ≠ [] := by cases s <;> simp_all
  have hl1 : s.length ≠ 0 := by omega
  have hl2 : 2 * s.length ≠ 0 := by omega
  unfold forwardMatches at h
  simp only [hf] at h
  cases hn : m.nocase with
  | true =>
    have hx := legal_nocase_xor hleg hn
    simp only [hn, if_true, cmpLen] at h
    unfold variantsAt anyKey
    simp only [hs, hx, hn, Option.map_none]
    rw [widen_length] at h
    cases ha : m.ascii <;> cases hw : m.wide <;> cases hA : occursAt true s buf o <;>
      cases hB : occursAt true (widen s) buf o <;>
      simp [ha, hw, hA, hB, hne] at h ⊢ <;> (try omega) <;> (obtain ⟨h1, h2⟩ := h; subst h1; subst h2; (try simp [hne]); (try omega))
  | false =>
    simp only [hn, cmpLen, xorCmp, Bool.false_eq_true, if_false, widen_length] at h
    unfold variantsAt anyKey
    simp only [hs, hn, Bool.false_eq_true, if_false]
    cases hx : m.xor with
    | none =>
      simp only [hx, Option.isSome_none, Bool.false_and, Option.map_none] at h ⊢
      cases ha : m.ascii <;> cases hw : m.wide <;> cases hA : occursAt false s buf o <;>
        cases hB : occursAt false (widen s) buf o <;>
        simp [ha, hw, hA, hB, hne] at h ⊢ <;> (try omega) <;> (obtain ⟨h1, h2⟩ := h; subst h1; subst h2; (try simp [hne]); (try omega))
    | some r =>
      simp only [hx, Option.isSome_some, Bool.true_and, Option.map_some, inRange_full] at h ⊢
      have hA0 : ∀ ka, xorKeyAt s buf o = some ka → ka = 0 → occursAt false s buf o = true := by
        intro ka h1 h2; subst h2; exact xorKeyAt_zero h1
      have hB0 : ∀ kw, xorKeyAt (widen s) buf o = some kw → kw = 0 → occursAt false (widen s) buf o = true := by
        intro kw h1 h2; subst h2; exact xorKeyAt_zero h1
      cases ha : m.ascii <;> cases hw : m.wide <;> cases hA : occursAt false s buf o <;>
        cases hB : occursAt false (widen s) buf o <;>
        cases hKA : xorKeyAt s buf o <;> cases hKW : xorKeyAt (widen s) buf o <;>
        simp [ha, hw, hA, hB, hKA, hKW, hne, hl1, hl2] at h hA0 hB0 ⊢
      all_goals (try omega)
      all_goals (try (obtain ⟨h1, h2⟩ := h; subst h1; subst h2))
      all_goals (try simp [hne, hA0, hB0])
      all_goals (try omega)
      all_goals (try (exact ⟨_, ⟨rfl, by assumption⟩, rfl, by omega⟩))
      all_goals (try (exact ⟨_, ⟨rfl, by assumption⟩, rfl⟩))
end YaraModel.Text
