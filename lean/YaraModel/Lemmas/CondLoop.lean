/- the loop protocol of the VM (ITER_CONDITION / ADD_M / INCR_M / ITER_END with short-circuit exit) computes the
   specification's quantifier over the body results — pure list reasoning, no machine states -/
import YaraModel.Lemmas.CondExec
namespace YaraModel.CondCompile
open YaraModel YaraModel.C YaraModel.Cond YaraModel.CondVm YaraModel.Gen.VmOps

/-- what the loop leaves in M[0] (true count) and M[1] (iterations) after the body words `rs` -/
def loopGo (qw : Int) : List Int → Int → Int → Int × Int
  | [], t, n => (t, n)
  | r :: rs, t, n =>
    if contWord qw t r then loopGo qw rs (if isU r then t else C.add t r) (C.add n 1)
    else (if isU r then t else C.add t r, C.add n 1)

def ones (rs : List Int) : Nat := rs.countP (· == 1)

/-- body words are 0, 1 or undefined -/
def BoolWords (rs : List Int) : Prop := ∀ r ∈ rs, r = 0 ∨ r = 1 ∨ r = UNDEF

theorem add_small (a b : Int) (ha : -2305843009213693952 ≤ a ∧ a ≤ 2305843009213693952)
    (hb : -2305843009213693952 ≤ b ∧ b ≤ 2305843009213693952) : C.add a b = a + b := by
  unfold C.add C.wrap; omega

theorem ones_le (rs : List Int) : ones rs ≤ rs.length := List.countP_le_length

theorem isU_0 : isU (0 : Int) = false := by decide
theorem isU_1 : isU (1 : Int) = false := by decide
theorem isU_U : isU UNDEF = true := by decide

theorem add_nat1 (t : Nat) (h : t < 1152921504606846976) : C.add (t : Int) 1 = ((t + 1 : Nat) : Int) := by
  rw [add_small _ _ (by omega) (by omega)]; simp

theorem add_nat0 (t : Nat) (h : t < 1152921504606846976) : C.add (t : Int) 0 = (t : Int) := by
  rw [add_small _ _ (by omega) (by omega)]; simp

theorem ones_cons (r : Int) (rs : List Int) : ones (r :: rs) = ones rs + (if r = 1 then 1 else 0) := by
  unfold ones
  rw [List.countP_cons]
  by_cases h : r = 1 <;> simp [h]

theorem boolWords_tail {r : Int} {rs : List Int} (h : BoolWords (r :: rs)) : BoolWords rs :=
  fun x hx => h x (by simp [hx])

/-- quantifier `all` (word UNDEF): the loop stops at the first false body -/
theorem loopGo_all (rs : List Int) (hrs : BoolWords rs) (t n : Nat) (htn : t ≤ n)
    (hb : n + rs.length < 1152921504606846976) :
    ∃ t' n' : Nat, loopGo UNDEF rs t n = ((t' : Int), (n' : Int)) ∧ (n' = 0 ↔ n = 0 ∧ rs = []) ∧
      (t' = n' ↔ t = n ∧ ones rs = rs.length) := by
  induction rs generalizing t n with
  | nil => exact ⟨t, n, rfl, by simp, by simp [ones]⟩
  | cons r rs ih =>
    have hlen : (r :: rs).length = rs.length + 1 := rfl
    rw [hlen] at hb
    have hol := ones_le rs
    rcases hrs r (by simp) with rfl | rfl | rfl
    · refine ⟨t, n + 1, ?_, by simp, ?_⟩
      · simp only [loopGo, contWord, isU_U, if_true, isU_0]
        simp only [show ((0 : Int) != 0) = false by decide, Bool.false_eq_true, if_false]
        rw [add_nat0 t (by omega), add_nat1 n (by omega)]
      · rw [ones_cons]; simp; omega
    · obtain ⟨t', n', h1, h2, h3⟩ := ih (boolWords_tail hrs) (t + 1) (n + 1) (by omega) (by omega)
      refine ⟨t', n', ?_, ?_, ?_⟩
      · simp only [loopGo, contWord, isU_U, if_true, isU_1]
        simp only [show ((1 : Int) != 0) = true by decide, if_true, Bool.false_eq_true, if_false]
        rw [add_nat1 t (by omega), add_nat1 n (by omega)]
        exact h1
      · simp at h2 ⊢; omega
      · rw [ones_cons]; simp; omega
    · obtain ⟨t', n', h1, h2, h3⟩ := ih (boolWords_tail hrs) t (n + 1) (by omega) (by omega)
      refine ⟨t', n', ?_, ?_, ?_⟩
      · simp only [loopGo, contWord, isU_U, if_true]
        simp only [show (UNDEF != 0) = true by decide, if_true]
        rw [add_nat1 n (by omega)]
        exact h1
      · simp at h2 ⊢; omega
      · rw [ones_cons]
        have : (UNDEF : Int) ≠ 1 := by decide
        simp [this]; omega

/-- quantifier `none` (word 0): the loop stops at the first true body -/
theorem loopGo_none (rs : List Int) (hrs : BoolWords rs) (t n : Nat)
    (hb : n + rs.length < 1152921504606846976) (htn : t ≤ n) :
    ∃ t' n' : Nat, loopGo 0 rs t n = ((t' : Int), (n' : Int)) ∧ (n' = 0 ↔ n = 0 ∧ rs = []) ∧
      (t' = 0 ↔ t = 0 ∧ ones rs = 0) := by
  induction rs generalizing t n with
  | nil => exact ⟨t, n, rfl, by simp, by simp [ones]⟩
  | cons r rs ih =>
    have hlen : (r :: rs).length = rs.length + 1 := rfl
    rw [hlen] at hb
    rcases hrs r (by simp) with rfl | rfl | rfl
    · obtain ⟨t', n', h1, h2, h3⟩ := ih (boolWords_tail hrs) t (n + 1) (by omega) (by omega)
      refine ⟨t', n', ?_, ?_, ?_⟩
      · simp only [loopGo, contWord, isU_0, Bool.false_eq_true, if_false, beq_self_eq_true, if_true]
        simp only [show ((0 : Int) != 1) = true by decide, if_true]
        rw [add_nat0 t (by omega), add_nat1 n (by omega)]
        exact h1
      · simp at h2 ⊢; omega
      · rw [ones_cons]; simp; omega
    · refine ⟨t + 1, n + 1, ?_, by simp, ?_⟩
      · simp only [loopGo, contWord, isU_0, isU_1, Bool.false_eq_true, if_false, beq_self_eq_true, if_true]
        simp only [show ((1 : Int) != 1) = false by decide, Bool.false_eq_true, if_false]
        rw [add_nat1 t (by omega), add_nat1 n (by omega)]
      · rw [ones_cons]; simp
    · obtain ⟨t', n', h1, h2, h3⟩ := ih (boolWords_tail hrs) t (n + 1) (by omega) (by omega)
      refine ⟨t', n', ?_, ?_, ?_⟩
      · simp only [loopGo, contWord, isU_0, isU_U, Bool.false_eq_true, if_false, beq_self_eq_true, if_true]
        simp only [show (UNDEF != 1) = true by decide, if_true]
        rw [add_nat1 n (by omega)]
        exact h1
      · simp at h2 ⊢; omega
      · rw [ones_cons]
        have : (UNDEF : Int) ≠ 1 := by decide
        simp [this]; omega

/-- quantifier "at least k" (word k, k ≠ 0, k not the sentinel): the loop stops once k bodies were true -/
theorem loopGo_atLeast (k : Int) (hk0 : k ≠ 0) (hku : k ≠ UNDEF) (rs : List Int) (hrs : BoolWords rs) (t n : Nat)
    (hb : n + rs.length < 1152921504606846976) (htn : t ≤ n) :
    ∃ t' n' : Nat, loopGo k rs t n = ((t' : Int), (n' : Int)) ∧ (n' = 0 ↔ n = 0 ∧ rs = []) ∧
      ((t' : Int) ≥ k ↔ ((t + ones rs : Nat) : Int) ≥ k) := by
  have hiu : isU k = false := isUndef_of_ne hku
  have hk0' : (k == 0) = false := by simp [hk0]
  induction rs generalizing t n with
  | nil => exact ⟨t, n, rfl, by simp, by simp [ones]⟩
  | cons r rs ih =>
    have hlen : (r :: rs).length = rs.length + 1 := rfl
    rw [hlen] at hb
    have hol := ones_le rs
    rcases hrs r (by simp) with rfl | rfl | rfl
    · -- body false
      by_cases hc : ((t : Int) < k)
      · obtain ⟨t', n', h1, h2, h3⟩ := ih (boolWords_tail hrs) t (n + 1) (by omega) (by omega)
        refine ⟨t', n', ?_, ?_, ?_⟩
        · simp only [loopGo, contWord, hiu, hk0', isU_0, Bool.false_eq_true, if_false]
          rw [add_nat0 t (by omega), add_nat1 n (by omega)]
          simp only [hc, decide_true, if_true]
          exact h1
        · simp at h2 ⊢; omega
        · rw [ones_cons]; simpa using h3
      · refine ⟨t, n + 1, ?_, by simp, ?_⟩
        · simp only [loopGo, contWord, hiu, hk0', isU_0, Bool.false_eq_true, if_false]
          rw [add_nat0 t (by omega), add_nat1 n (by omega)]
          simp only [hc, decide_false, Bool.false_eq_true, if_false]
        · rw [ones_cons]; simp; omega
    · -- body true
      by_cases hc : ((t : Int) + 1 < k)
      · obtain ⟨t', n', h1, h2, h3⟩ := ih (boolWords_tail hrs) (t + 1) (n + 1) (by omega) (by omega)
        refine ⟨t', n', ?_, ?_, ?_⟩
        · simp only [loopGo, contWord, hiu, hk0', isU_1, Bool.false_eq_true, if_false]
          rw [add_nat1 t (by omega), add_nat1 n (by omega)]
          have : (((t + 1 : Nat) : Int) < k) := by omega
          simp only [this, decide_true, if_true]
          exact h1
        · simp at h2 ⊢; omega
        · rw [ones_cons]; simp; omega
      · refine ⟨t + 1, n + 1, ?_, by simp, ?_⟩
        · simp only [loopGo, contWord, hiu, hk0', isU_1, Bool.false_eq_true, if_false]
          rw [add_nat1 t (by omega), add_nat1 n (by omega)]
          have : ¬ (((t + 1 : Nat) : Int) < k) := by omega
          simp only [this, decide_false, Bool.false_eq_true, if_false]
        · rw [ones_cons]; simp; omega
    · -- body undefined: C.add t UNDEF = t + UNDEF (no wrap)
      have hadd : C.add (t : Int) UNDEF = (t : Int) + UNDEF := add_small _ _ (by omega) (by unfold UNDEF; omega)
      have hne : (UNDEF : Int) ≠ 1 := by decide
      by_cases hc : ((t : Int) + UNDEF < k)
      · obtain ⟨t', n', h1, h2, h3⟩ := ih (boolWords_tail hrs) t (n + 1) (by omega) (by omega)
        refine ⟨t', n', ?_, ?_, ?_⟩
        · simp only [loopGo, contWord, hiu, hk0', isU_U, Bool.false_eq_true, if_false, if_true, hadd]
          rw [add_nat1 n (by omega)]
          simp only [hc, decide_true, if_true]
          exact h1
        · simp at h2 ⊢; omega
        · rw [ones_cons]; simpa [hne] using h3
      · refine ⟨t, n + 1, ?_, by simp, ?_⟩
        · simp only [loopGo, contWord, hiu, hk0', isU_U, Bool.false_eq_true, if_false, if_true, hadd]
          rw [add_nat1 n (by omega)]
          simp only [hc, decide_false, Bool.false_eq_true, if_false]
        · rw [ones_cons]
          unfold UNDEF at hc
          simp [hne]; omega

theorem natCast_beq (a b : Nat) : (((a : Int) == (b : Int))) = (a == b) := by
  by_cases h : a = b
  · subst h; simp
  · have h' : (a : Int) ≠ (b : Int) := by omega
    rw [beq_eq_false_iff_ne.mpr h', beq_eq_false_iff_ne.mpr h]

theorem protocol_all (rs : List Int) (hrs : BoolWords rs) (hb : rs.length < 1152921504606846976) :
    endWord UNDEF (loopGo UNDEF rs 0 0).1 (loopGo UNDEF rs 0 0).2 = toVm (loopHolds .all (ones rs) rs.length) := by
  obtain ⟨t', n', h1, h2, h3⟩ := loopGo_all rs hrs 0 0 (by omega) (by omega)
  have h0 : ((0 : Nat) : Int) = 0 := rfl
  rw [h0] at h1
  rw [h1]
  simp only [endWord, isU_U, if_true, loopHolds]
  by_cases hn : rs.length = 0
  · have : rs = [] := List.eq_nil_of_length_eq_zero hn
    have hn' : n' = 0 := h2.mpr ⟨rfl, this⟩
    simp [hn', hn, toVm, b2i]
  · have hn' : n' ≠ 0 := fun h => hn (by have := (h2.mp h).2; simp [this])
    have e1 : (((n' : Int)) == 0) = false := by simp [hn']
    have e2 : (rs.length == 0) = false := by simp [hn]
    simp only [e1, e2, Bool.false_eq_true, if_false, quantHolds, toVm, natCast_beq]
    congr 1
    by_cases ht : t' = n'
    · rw [ht, (h3.mp ht).2]; simp
    · have : ¬ (ones rs = rs.length) := fun h => ht (h3.mpr ⟨rfl, h⟩)
      rw [beq_eq_false_iff_ne.mpr ht, beq_eq_false_iff_ne.mpr this]

theorem protocol_none (rs : List Int) (hrs : BoolWords rs) (hb : rs.length < 1152921504606846976) :
    endWord 0 (loopGo 0 rs 0 0).1 (loopGo 0 rs 0 0).2 = toVm (loopHolds .none (ones rs) rs.length) := by
  obtain ⟨t', n', h1, h2, h3⟩ := loopGo_none rs hrs 0 0 (by omega) (by omega)
  have h0 : ((0 : Nat) : Int) = 0 := rfl
  rw [h0] at h1
  rw [h1]
  simp only [endWord, isU_0, Bool.false_eq_true, if_false, beq_self_eq_true, if_true, loopHolds]
  by_cases hn : rs.length = 0
  · have : rs = [] := List.eq_nil_of_length_eq_zero hn
    have hn' : n' = 0 := h2.mpr ⟨rfl, this⟩
    simp [hn', hn, toVm, b2i]
  · have hn' : n' ≠ 0 := fun h => hn (by have := (h2.mp h).2; simp [this])
    have e1 : (((n' : Int)) == 0) = false := by simp [hn']
    have e2 : (rs.length == 0) = false := by simp [hn]
    simp only [e1, e2, Bool.false_eq_true, if_false, quantHolds, toVm]
    congr 1
    by_cases ht : t' = 0
    · rw [ht, (h3.mp ht).2]; simp
    · have : ¬ (ones rs = 0) := fun h => ht (h3.mpr ⟨rfl, h⟩)
      rw [beq_eq_false_iff_ne.mpr this]
      have ht' : (t' : Int) ≠ 0 := by omega
      rw [beq_eq_false_iff_ne.mpr ht']

theorem protocol_atLeast (k : Int) (hk0 : k ≠ 0) (hku : k ≠ UNDEF) (rs : List Int) (hrs : BoolWords rs)
    (hb : rs.length < 1152921504606846976) :
    endWord k (loopGo k rs 0 0).1 (loopGo k rs 0 0).2 = toVm (loopHolds (.atLeast k) (ones rs) rs.length) := by
  obtain ⟨t', n', h1, h2, h3⟩ := loopGo_atLeast k hk0 hku rs hrs 0 0 (by omega) (by omega)
  have h0 : ((0 : Nat) : Int) = 0 := rfl
  rw [h0] at h1
  rw [h1]
  have hiu : isU k = false := isUndef_of_ne hku
  have hk0' : (k == 0) = false := by simp [hk0]
  simp only [endWord, hiu, hk0', Bool.false_eq_true, if_false, loopHolds]
  by_cases hn : rs.length = 0
  · have : rs = [] := List.eq_nil_of_length_eq_zero hn
    have hn' : n' = 0 := h2.mpr ⟨rfl, this⟩
    simp [hn', hn, toVm, b2i]
  · have hn' : n' ≠ 0 := fun h => hn (by have := (h2.mp h).2; simp [this])
    have e1 : (((n' : Int)) == 0) = false := by simp [hn']
    have e2 : (rs.length == 0) = false := by simp [hn]
    simp only [e1, e2, Bool.false_eq_true, if_false, quantHolds, toVm]
    congr 1
    simp only [Nat.zero_add] at h3
    by_cases ht : (t' : Int) ≥ k
    · have := h3.mp ht; simp [ht, this]
    · have : ¬ (((ones rs : Nat) : Int) ≥ k) := fun h => ht (h3.mpr h)
      simp only [ge_iff_le] at ht this
      simp [ht, this]

/-- **the loop protocol computes the quantifier**: with 0/1/undefined body words `rs`, what ITER_END pushes after the
    (short-circuiting) ITER_CONDITION / ADD_M / INCR_M rounds is the specification's `loopHolds` over all the bodies -/
theorem loop_protocol (q : QKind) (vq : Val) (hq : q = .num → ValOk .int vq ∧ vq ≠ .undef)
    (rs : List Int) (hrs : BoolWords rs) (hb : rs.length < 1152921504606846976) :
    endWord (quantWord q (toVm vq)) (loopGo (quantWord q (toVm vq)) rs 0 0).1 (loopGo (quantWord q (toVm vq)) rs 0 0).2
      = toVm (loopHolds (quantOf q vq) (ones rs) rs.length) := by
  cases q with
  | all => exact protocol_all rs hrs hb
  | any => exact protocol_atLeast 1 (by decide) (by decide) rs hrs hb
  | none => exact protocol_none rs hrs hb
  | num =>
    obtain ⟨hv, hne⟩ := hq rfl
    rcases hv with rfl | ⟨k, rfl, hk⟩
    · exact absurd rfl hne
    · by_cases h0 : k = 0
      · subst h0
        simp only [quantWord, toVm, quantOf, beq_self_eq_true, if_true]
        exact protocol_none rs hrs hb
      · have : (k == 0) = false := by simp [h0]
        simp only [quantWord, toVm, quantOf, this, Bool.false_eq_true, if_false]
        exact protocol_atLeast k h0 hk rs hrs hb

end YaraModel.CondCompile
