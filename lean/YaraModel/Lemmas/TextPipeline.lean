/- helper lemmas for Thm/C01.lean: ordered insertion, the candidate fold, completeness of verification -/
import YaraModel.Lemmas.TextVerify
namespace YaraModel.Text

/-- strictly ascending offsets -/
def Asc (l : List Match) : Prop := List.Pairwise (fun a b => a.off < b.off) l

theorem mem_insertMatch {x y : Match} {l : List Match} :
    y ∈ insertMatch x l → y ∈ l ∨ y = x := by
  induction l with
  | nil => simp [insertMatch]
  | cons z t ih =>
    simp only [insertMatch]
    split
    · simp; intro h; rcases h with h | h | h <;> simp [h]
    · split
      · intro h; exact Or.inl h
      · simp; intro h
        rcases h with h | h
        · simp [h]
        · rcases ih h with h' | h' <;> simp [h']

theorem offs_insertMatch (x : Match) (l : List Match) (o : Nat) :
    o ∈ (insertMatch x l).map (·.off) ↔ o ∈ l.map (·.off) ∨ o = x.off := by
  induction l with
  | nil => simp [insertMatch]
  | cons z t ih =>
    simp only [insertMatch]
    split
    · simp only [List.map_cons, List.mem_cons]
      constructor
      · intro h; rcases h with h | h | h
        · exact Or.inr h
        · exact Or.inl (Or.inl h)
        · exact Or.inl (Or.inr h)
      · intro h; rcases h with (h | h) | h
        · exact Or.inr (Or.inl h)
        · exact Or.inr (Or.inr h)
        · exact Or.inl h
    · split
      · rename_i h1 h2
        have hxz : x.off = z.off := by simpa using h2
        constructor
        · intro h; exact Or.inl h
        · intro h; rcases h with h | h
          · exact h
          · rw [h, hxz]; simp
      · simp only [List.map_cons, List.mem_cons, ih]
        constructor
        · intro h; rcases h with h | h | h
          · exact Or.inl (Or.inl h)
          · exact Or.inl (Or.inr h)
          · exact Or.inr h
        · intro h; rcases h with (h | h) | h
          · exact Or.inl h
          · exact Or.inr (Or.inl h)
          · exact Or.inr (Or.inr h)

theorem asc_insertMatch (x : Match) (l : List Match) (h : Asc l) : Asc (insertMatch x l) := by
  induction l with
  | nil => simp [insertMatch, Asc]
  | cons z t ih =>
    unfold Asc at h ⊢
    rw [List.pairwise_cons] at h
    simp only [insertMatch]
    split
    · rename_i hlt
      rw [List.pairwise_cons]
      refine ⟨?_, List.pairwise_cons.mpr h⟩
      intro b hb
      rcases List.mem_cons.mp hb with rfl | hb
      · exact hlt
      · exact Nat.lt_trans hlt (h.1 b hb)
    · split
      · exact List.pairwise_cons.mpr h
      · rename_i h1 h2
        rw [List.pairwise_cons]
        refine ⟨?_, ih h.2⟩
        intro b hb
        rcases mem_insertMatch hb with hb | rfl
        · exact h.1 b hb
        · have : ¬ (b.off = z.off) := by simpa using h2
          omega


def pipeG (V : Nat × Nat → Option Match) (C : List (Nat × Nat)) (acc : List Match) : List Match :=
  C.foldl (fun acc c => match V c with | some x => insertMatch x acc | none => acc) acc

theorem pipeline_eq_pipeG (m : Mods) (s buf : Bytes) (C : List (Nat × Nat)) :
    pipeline m s buf C = pipeG (fun c => verifyCandidate m s c.2 buf c.1) C [] := rfl

theorem pipeG_spec (V : Nat × Nat → Option Match) (hV : ∀ c x, V c = some x → x.off = c.1)
    (C : List (Nat × Nat)) (acc : List Match) (hacc : Asc acc) :
    Asc (pipeG V C acc) ∧
    (∀ o, o ∈ (pipeG V C acc).map (·.off) ↔ o ∈ acc.map (·.off) ∨ ∃ c ∈ C, c.1 = o ∧ (V c).isSome = true) ∧
    (∀ x ∈ pipeG V C acc, x ∈ acc ∨ ∃ c ∈ C, V c = some x) := by
  induction C generalizing acc with
  | nil => simp [pipeG, hacc]
  | cons c t ih =>
    simp only [pipeG, List.foldl_cons]
    cases hv : V c with
    | none =>
      obtain ⟨h1, h2, h3⟩ := ih acc hacc
      refine ⟨h1, ?_, ?_⟩
      · intro o
        rw [show List.foldl _ acc t = pipeG V t acc from rfl, h2 o]
        constructor
        · rintro (h | ⟨c', hc', h⟩)
          · exact Or.inl h
          · exact Or.inr ⟨c', List.mem_cons_of_mem _ hc', h⟩
        · rintro (h | ⟨c', hc', h⟩)
          · exact Or.inl h
          · rcases List.mem_cons.mp hc' with rfl | hc'
            · simp [hv] at h
            · exact Or.inr ⟨c', hc', h⟩
      · intro x hx
        rcases h3 x hx with h | ⟨c', hc', h⟩
        · exact Or.inl h
        · exact Or.inr ⟨c', List.mem_cons_of_mem _ hc', h⟩
    | some y =>
      obtain ⟨h1, h2, h3⟩ := ih (insertMatch y acc) (asc_insertMatch y acc hacc)
      refine ⟨h1, ?_, ?_⟩
      · intro o
        rw [show List.foldl _ (insertMatch y acc) t = pipeG V t (insertMatch y acc) from rfl, h2 o, offs_insertMatch]
        have hy := hV c y hv
        constructor
        · rintro ((h | h) | ⟨c', hc', h⟩)
          · exact Or.inl h
          · exact Or.inr ⟨c, List.mem_cons_self, by rw [h, hy], by simp [hv]⟩
          · exact Or.inr ⟨c', List.mem_cons_of_mem _ hc', h⟩
        · rintro (h | ⟨c', hc', h⟩)
          · exact Or.inl (Or.inl h)
          · rcases List.mem_cons.mp hc' with rfl | hc'
            · exact Or.inl (Or.inr (by rw [← h.1, hy]))
            · exact Or.inr ⟨c', hc', h⟩
      · intro x hx
        rcases h3 x hx with h | ⟨c', hc', h⟩
        · rcases mem_insertMatch h with h | rfl
          · exact Or.inl h
          · exact Or.inr ⟨c, List.mem_cons_self, hv⟩
        · exact Or.inr ⟨c', List.mem_cons_of_mem _ hc', h⟩


theorem sorted_ext : ∀ (l1 l2 : List Nat), l1.Pairwise (· < ·) → l2.Pairwise (· < ·) →
    (∀ o, o ∈ l1 ↔ o ∈ l2) → l1 = l2
  | [], [], _, _, _ => rfl
  | [], b :: t2, _, _, h => by have := (h b).mpr List.mem_cons_self; simp at this
  | a :: t1, [], _, _, h => by have := (h a).mp List.mem_cons_self; simp at this
  | a :: t1, b :: t2, h1, h2, h => by
    rw [List.pairwise_cons] at h1 h2
    have hab : a = b := by
      have ha := (h a).mp List.mem_cons_self
      have hb := (h b).mpr List.mem_cons_self
      rcases List.mem_cons.mp ha with ha | ha
      · exact ha
      · rcases List.mem_cons.mp hb with hb | hb
        · exact hb.symm
        · have := h2.1 a ha; have := h1.1 b hb; omega
    subst hab
    congr 1
    apply sorted_ext t1 t2 h1.2 h2.2
    intro o
    constructor
    · intro ho
      have := (h o).mp (List.mem_cons_of_mem _ ho)
      rcases List.mem_cons.mp this with rfl | h'
      · have := h1.1 o ho; omega
      · exact h'
    · intro ho
      have := (h o).mpr (List.mem_cons_of_mem _ ho)
      rcases List.mem_cons.mp this with rfl | h'
      · have := h2.1 o ho; omega
      · exact h'

theorem occurrences_offs (m : Mods) (s buf : Bytes) :
    (occurrences m s buf).map (·.1) = (List.range (buf.length + 1)).filter (fun o => !(admissibleAt m s buf o).isEmpty) := by
  unfold occurrences
  generalize List.range (buf.length + 1) = L
  induction L with
  | nil => rfl
  | cons o t ih =>
    simp only [List.filterMap_cons, List.filter_cons]
    cases h : admissibleAt m s buf o with
    | nil => simpa using ih
    | cons x xs => simpa using ih


theorem occursAt_bounds {nocase : Bool} {pat buf : Bytes} {o : Nat} (h : occursAt nocase pat buf o = true) :
    o + pat.length ≤ buf.length := by
  obtain ⟨e', hw, _⟩ := occursAt_window h
  exact (window_eq_some.mp hw).1

theorem xorKeyAt_bounds {pat buf : Bytes} {o : Nat} {k : UInt8} (h : xorKeyAt pat buf o = some k) :
    o + pat.length ≤ buf.length := (window_eq_some.mp (xorKeyAt_some h)).1

theorem variant_inbounds {m : Mods} {s buf : Bytes} {o : Nat} {v : Nat × UInt8 × Bool} (hv : v ∈ variantsAt m s buf o) :
    o + v.1 ≤ buf.length := by
  unfold variantsAt at hv
  split at hv
  · cases hv
  · simp only [List.mem_append] at hv
    rcases hv with (hv | hv) | hv
    · obtain ⟨hc, rfl⟩ := mem_ite_singleton hv
      simp only [Bool.and_eq_true] at hc
      exact occursAt_bounds hc.2
    · obtain ⟨hc, rfl⟩ := mem_ite_singleton hv
      simp only [Bool.and_eq_true] at hc
      have := occursAt_bounds hc.2
      rw [widen_length] at this; exact this
    · cases hx : m.xor with
      | none => simp [hx] at hv
      | some r =>
        simp only [hx, List.mem_append] at hv
        rcases hv with hv | hv
        · cases ha : m.ascii with
          | false => simp [ha] at hv
          | true =>
            simp only [ha, if_true, List.mem_map, Option.mem_toList, Option.filter_eq_some_iff] at hv
            obtain ⟨k, ⟨hk, _⟩, rfl⟩ := hv
            exact xorKeyAt_bounds hk
        · cases hwd : m.wide with
          | false => simp [hwd] at hv
          | true =>
            simp only [hwd, if_true, List.mem_map, Option.mem_toList, Option.filter_eq_some_iff] at hv
            obtain ⟨k, ⟨hk, _⟩, rfl⟩ := hv
            have := xorKeyAt_bounds hk
            rw [widen_length] at this; exact this


theorem variants_facts {m : Mods} {s buf : Bytes} {o : Nat} {v : Nat × UInt8 × Bool} (hv : v ∈ variantsAt m s buf o) :
    (m.ascii = true ∧ occursAt m.nocase s buf o = true) ∨
    (m.wide = true ∧ occursAt m.nocase (widen s) buf o = true) ∨
    (m.xor.isSome = true ∧ m.ascii = true ∧ ∃ k, xorKeyAt s buf o = some k) ∨
    (m.xor.isSome = true ∧ m.wide = true ∧ ∃ k, xorKeyAt (widen s) buf o = some k) := by
  unfold variantsAt at hv
  split at hv
  · cases hv
  · simp only [List.mem_append] at hv
    rcases hv with (hv | hv) | hv
    · obtain ⟨hc, _⟩ := mem_ite_singleton hv
      simp only [Bool.and_eq_true] at hc
      exact Or.inl ⟨hc.1.1, hc.2⟩
    · obtain ⟨hc, _⟩ := mem_ite_singleton hv
      simp only [Bool.and_eq_true] at hc
      exact Or.inr (Or.inl ⟨hc.1.1, hc.2⟩)
    · cases hx : m.xor with
      | none => simp [hx] at hv
      | some r =>
        simp only [hx, List.mem_append] at hv
        rcases hv with hv | hv
        · cases ha : m.ascii with
          | false => simp [ha] at hv
          | true =>
            simp only [ha, if_true, List.mem_map, Option.mem_toList, Option.filter_eq_some_iff] at hv
            obtain ⟨k, ⟨hk, _⟩, _⟩ := hv
            exact Or.inr (Or.inr (Or.inl ⟨rfl, rfl, k, hk⟩))
        · cases hwd : m.wide with
          | false => simp [hwd] at hv
          | true =>
            simp only [hwd, if_true, List.mem_map, Option.mem_toList, Option.filter_eq_some_iff] at hv
            obtain ⟨k, ⟨hk, _⟩, _⟩ := hv
            exact Or.inr (Or.inr (Or.inr ⟨rfl, rfl, k, hk⟩))

theorem fm_complete_nonfits (m : Mods) (s buf : Bytes) (bt o : Nat) (v : Nat × UInt8 × Bool)
    (hf : fitsInAtom m s = false) (hleg : m.legal = true) (hs : s.isEmpty = false)
    (hv : v ∈ variantsAt (anyKey m) s buf o) : (forwardMatches m s bt buf o).1 > 0 := by
  have hslen : s.length > 0 := by cases s <;> simp_all
  have hl1 : s.length ≠ 0 := by omega
  have hl2 : 2 * s.length ≠ 0 := by omega
  have facts := variants_facts hv
  simp only [anyKey] at facts
  unfold forwardMatches
  simp only [hf, Bool.false_eq_true, if_false, cmpLen, xorCmp, widen_length]
  cases hn : m.nocase with
  | true =>
    have hx := legal_nocase_xor hleg hn
    simp only [hn, hx, Option.map_none, Option.isSome_none, Bool.false_eq_true, false_and, or_false] at facts
    simp only [if_true]
    rcases facts with ⟨ha, hA⟩ | ⟨hw, hB⟩
    · simp [ha, hA, hl1]; omega
    · cases ha : m.ascii <;> cases hA : occursAt true s buf o <;> simp [ha, hA, hw, hB, hl1, hl2] <;> omega
  | false =>
    simp only [hn] at facts
    simp only [Bool.false_eq_true, if_false]
    cases hx : m.xor with
    | none =>
      simp only [hx, Option.map_none, Option.isSome_none, Bool.false_eq_true, false_and, or_false] at facts
      simp only [Option.isSome_none, Bool.false_and, Bool.false_eq_true, if_false]
      rcases facts with ⟨ha, hA⟩ | ⟨hw, hB⟩
      · simp [ha, hA, hl1]; omega
      · cases ha : m.ascii <;> cases hA : occursAt false s buf o <;> simp [ha, hA, hw, hB, hl1, hl2] <;> omega
    | some r =>
      simp only [hx, Option.map_some, Option.isSome_some, true_and] at facts
      simp only [Option.isSome_some, Bool.true_and]
      cases ha : m.ascii <;> cases hw : m.wide <;> cases hA : occursAt false s buf o <;>
        cases hB : occursAt false (widen s) buf o <;>
        cases hKA : xorKeyAt s buf o <;> cases hKW : xorKeyAt (widen s) buf o <;>
        simp [ha, hw, hA, hB, hKA, hKW, hl1, hl2] at facts ⊢ <;> omega

end YaraModel.Text
