/- save: the pointer->reference pass followed by the reference->pointer pass is the identity on a
   well-formed arena, and none of the asserts of yr_arena_save_stream fires. -/
import YaraModel.Lemmas.ArenaLoad
namespace YaraModel.Arena
open YaraModel.Gen.ArenaLayout

theorem setSlot_getSlot_id' (a : Arena) (r : Ref) : setSlot a r (getSlot a r) = a := by
  by_cases h : InB a r
  · exact setSlot_getSlot_id h
  · refine Arena.ext' ?_ (by rfl) (by rfl) (by rfl)
    simp only [setSlot]
    by_cases hl : r.buf < a.bufs.length
    · have hoff : ¬ r.off + 8 ≤ (a.bufAt r.buf).data.length := fun hh => h ⟨hh, hl⟩
      apply List.ext_getElem?
      intro i
      simp only [List.getElem?_modify]
      by_cases hi : r.buf = i
      · subst hi
        simp only [bufAt_eq, List.getElem?_eq_getElem hl, Option.getD_some] at hoff
        simp only [if_true, List.getElem?_eq_getElem hl, Option.map_eq_map, Option.map_some]
        have : wr64 a.bufs[r.buf].data r.off (getSlot a r) = a.bufs[r.buf].data := by
          unfold wr64; rw [if_neg hoff]
        rw [this]
      · simp [hi]
    · exact List.modify_eq_self (by omega)

/-- what the last loop of save does to a slot value -/
def backVal (bufs : List Buf) (v : Nat) : Nat :=
  match refToPtr bufs (decRef v) with
  | .ok p => p
  | .error _ => v

theorem restoreStep_fst (bufs : List Buf) (x : Arena) (ok : Bool) (r : Ref) :
    (restoreStep bufs (x, ok) r).1 = setSlot x r (backVal bufs (getSlot x r)) := by
  unfold restoreStep backVal
  cases h : refToPtr bufs (decRef (getSlot x r)) with
  | ok p => rfl
  | error e => simp only [setSlot_getSlot_id']

theorem foldl_restoreStep_fst (bufs : List Buf) (rs : List Ref) (x : Arena) (ok : Bool) :
    (rs.foldl (restoreStep bufs) (x, ok)).1 = mapSlots (backVal bufs) rs x := by
  induction rs generalizing x ok with
  | nil => simp only [List.foldl_nil, mapSlots_nil]
  | cons r t ih =>
    rw [List.foldl_cons, mapSlots_cons, ← restoreStep_fst bufs x ok r]
    exact ih (restoreStep bufs (x, ok) r).1 (restoreStep bufs (x, ok) r).2

theorem restore_eq (x : Arena) : restore x = mapSlots (backVal x.bufs) x.relocs x := foldl_restoreStep_fst ..

theorem foldl_restoreStep_snd (bufs : List Buf) {rs : List Ref} {x : Arena} (h : SlotsOk x rs)
    (hv : ∀ r ∈ rs, ∃ p, refToPtr bufs (decRef (getSlot x r)) = .ok p) :
    (rs.foldl (restoreStep bufs) (x, true)).2 = true := by
  induction rs generalizing x with
  | nil => rfl
  | cons r t ih =>
    have ⟨hno, _⟩ := h.head
    obtain ⟨p, hp⟩ := hv r (List.mem_cons_self ..)
    simp only [List.foldl_cons, restoreStep, hp]
    apply ih (h.tail.setSlot r _)
    intro s hs
    rw [getSlot_setSlot_other _ (hno s hs)]
    exact hv s (List.mem_cons_of_mem _ hs)

theorem getD_of_keys {l l' : List Buf} (h : l.map key = l'.map key) (i : Nat) :
    (l.getD i {}).base = (l'.getD i {}).base ∧ (l.getD i {}).data.length = (l'.getD i {}).data.length := by
  have hi : (l.map key)[i]? = (l'.map key)[i]? := by rw [h]
  simp only [List.getElem?_map] at hi
  simp only [List.getD_eq_getElem?_getD]
  cases h1 : l[i]? <;> cases h2 : l'[i]? <;> simp [h1, h2, key] at hi ⊢
  exact hi

theorem refToPtr_congr {l l' : List Buf} (h : l.map key = l'.map key) (x : Option Ref) : refToPtr l x = refToPtr l' x := by
  have hl : l.length = l'.length := by simpa using congrArg List.length h
  cases x with
  | none => rfl
  | some r =>
    have := getD_of_keys h r.buf
    simp only [refToPtr, hl, this.1, this.2]

/-- pointer -> reference -> pointer is the identity on valid pointers -/
theorem back_of_toRef {bufs : List Buf} (hr : RangesOk bufs) (hn : bufs.length ≤ maxBuffers)
    (hs : ∀ b ∈ bufs, b.data.length < 2 ^ 32) {v : Nat} (hv : ValidPtr bufs v) :
    refToPtr bufs (decRef (encRef (ptrToRef bufs v).2)) = .ok v ∧ (ptrToRef bufs v).1 = true := by
  rcases hv with rfl | ⟨j, hj, hh⟩
  · rw [ptrToRef_zero]
    refine ⟨?_, rfl⟩
    show refToPtr bufs (decRef (encRef none)) = .ok 0
    rw [decRef_encRef_none, refToPtr_none]
  · rw [ptrToRef_hit hr hj hh]
    have hjn : j ≤ 16 := Nat.le_trans (Nat.le_of_lt hj) hn
    have hmem : bufs.getD j {} ∈ bufs := mem_iff_getD.2 ⟨j, hj, rfl⟩
    have hsz := hs _ hmem
    unfold Hits at hh
    refine ⟨?_, rfl⟩
    show refToPtr bufs (decRef (encRef (some ⟨j, v - (bufs.getD j {}).base⟩))) = .ok v
    rw [decRef_encRef_some (show j < 2 ^ 32 - 1 by omega) (show v - (bufs.getD j {}).base < 2 ^ 32 by omega)]
    rw [refToPtr_some hj (show v - (bufs.getD j {}).base ≤ (bufs.getD j {}).data.length by omega)]
    rw [if_neg hh.1]
    congr 1; omega

theorem afterSave_eq {a : Arena} (h : WF a) : afterSave a = a := by
  unfold afterSave
  rw [restore_eq, toRefs_eq]
  simp only [mapSlots_relocs]
  have hk := keys_mapSlots (fun v => encRef (ptrToRef a.bufs v).2) a.relocs a
  have hb : backVal (mapSlots (fun v => encRef (ptrToRef a.bufs v).2) a.relocs a).bufs = backVal a.bufs := by
    funext v; unfold backVal; rw [refToPtr_congr hk]
  rw [hb, mapSlots_comp _ _ h.slots (fun r _ => encRef_lt _)]
  apply mapSlots_id h.slots
  intro r hr
  show backVal a.bufs (encRef (ptrToRef a.bufs (getSlot a r)).2) = getSlot a r
  unfold backVal
  rw [(back_of_toRef h.ranges h.count h.sizes (h.valid r hr)).1]

theorem saveOk_of_wf {a : Arena} (h : WF a) : saveOk a = true := by
  unfold saveOk toRefsC
  exact foldl_toRefsStep_snd a.bufs h.slots
    (fun r hr => (back_of_toRef h.ranges h.count h.sizes (h.valid r hr)).2)

theorem restoreOk_of_wf {a : Arena} (h : WF a) : (restoreC (toRefs a)).2 = true := by
  unfold restoreC
  have hrel : (toRefs a).relocs = a.relocs := by rw [toRefs_eq]; simp
  rw [hrel]
  have hk : (toRefs a).bufs.map key = a.bufs.map key := by rw [toRefs_eq]; exact keys_mapSlots _ _ _
  apply foldl_restoreStep_snd
  · rw [toRefs_eq]; exact h.slots.mapSlots _ _
  · intro r hr
    refine ⟨getSlot a r, ?_⟩
    rw [refToPtr_congr hk, toRefs_eq, getSlot_mapSlots _ h.slots hr, Nat.mod_eq_of_lt (encRef_lt _)]
    exact (back_of_toRef h.ranges h.count h.sizes (h.valid r hr)).1

end YaraModel.Arena
