/- helper lemmas for the compile_correct theorems of Thm/C04.lean -/
import YaraModel.Lemmas.Cond
namespace YaraModel.CondCompile
end YaraModel.CondCompile
