/- helper lemmas for the compile_correct theorems of Thm/C04.lean: execution sequences, code placement -/
import YaraModel.Lemmas.CondVals
namespace YaraModel.CondCompile
open YaraModel YaraModel.C YaraModel.Cond YaraModel.CondVm YaraModel.Gen.VmOps

/-! ### execution sequences -/

def stepAt (env : Env) (code : List Instr) (s : St) : Option St :=
  match code[s.pc]? with
  | some i => step env i s
  | none => none

def runN (env : Env) (code : List Instr) : Nat → St → Option St
  | 0, s => some s
  | n + 1, s => (stepAt env code s).bind (runN env code n)

/-- `s` reaches `s'` in finitely many VM steps -/
def Steps (env : Env) (code : List Instr) (s s' : St) : Prop := ∃ n, runN env code n s = some s'

theorem runN_add (env : Env) (code : List Instr) (m n : Nat) (s : St) :
    runN env code (m + n) s = (runN env code m s).bind (runN env code n) := by
  induction m generalizing s with
  | zero => simp [runN]
  | succ m ih =>
    rw [Nat.succ_add]
    simp only [runN]
    cases stepAt env code s with
    | none => rfl
    | some s1 => simp [ih]

theorem Steps.refl (env : Env) (code : List Instr) (s : St) : Steps env code s s := ⟨0, rfl⟩

theorem Steps.trans {env : Env} {code : List Instr} {a b c : St}
    (h1 : Steps env code a b) (h2 : Steps env code b c) : Steps env code a c := by
  obtain ⟨m, hm⟩ := h1
  obtain ⟨n, hn⟩ := h2
  exact ⟨m + n, by rw [runN_add, hm]; exact hn⟩

theorem Steps.one {env : Env} {code : List Instr} {s s' : St} {i : Instr}
    (hi : code[s.pc]? = some i) (hs : step env i s = some s') : Steps env code s s' :=
  ⟨1, by simp [runN, stepAt, hi, hs]⟩

/-- the executable, fuel-bounded `run` follows the step relation to the end of the code -/
theorem run_of_runN (env : Env) (code : List Instr) (n : Nat) (s s' : St)
    (h : runN env code n s = some s') (hend : s'.pc = code.length) :
    run env code.toArray (n + 1) s = some s' := by
  induction n generalizing s with
  | zero =>
    simp only [runN, Option.some.injEq] at h
    subst h
    simp [run, hend]
  | succ n ih =>
    simp only [runN, stepAt] at h
    unfold run
    cases hc : code[s.pc]? with
    | none => simp [hc] at h
    | some i =>
      simp only [hc] at h
      have : code.toArray[s.pc]? = some i := by simpa using hc
      simp only [this]
      cases hs : step env i s with
      | none => simp [hs] at h
      | some s1 =>
        simp only [hs, Option.bind_some] at h
        exact ih s1 h

/-! ### code placement -/

/-- the fragment `frag` sits in `code` at instruction index `pc` -/
def CodeAt (code : List Instr) (pc : Nat) (frag : List Instr) : Prop :=
  ∃ pre post, code = pre ++ frag ++ post ∧ pre.length = pc

theorem CodeAt.left {code : List Instr} {pc : Nat} {f1 f2 : List Instr}
    (h : CodeAt code pc (f1 ++ f2)) : CodeAt code pc f1 := by
  obtain ⟨pre, post, hc, hl⟩ := h
  exact ⟨pre, f2 ++ post, by simp [hc], hl⟩

theorem CodeAt.right {code : List Instr} {pc : Nat} {f1 f2 : List Instr}
    (h : CodeAt code pc (f1 ++ f2)) : CodeAt code (pc + f1.length) f2 := by
  obtain ⟨pre, post, hc, hl⟩ := h
  exact ⟨pre ++ f1, post, by simp [hc], by simp [hl]⟩

theorem CodeAt.head {code : List Instr} {pc : Nat} {i : Instr} {rest : List Instr}
    (h : CodeAt code pc (i :: rest)) : code[pc]? = some i := by
  obtain ⟨pre, post, hc, hl⟩ := h
  subst hc; subst hl
  simp

theorem CodeAt.tail {code : List Instr} {pc : Nat} {i : Instr} {rest : List Instr}
    (h : CodeAt code pc (i :: rest)) : CodeAt code (pc + 1) rest := by
  have := CodeAt.right (f1 := [i]) (f2 := rest) (by simpa using h)
  simpa using this

theorem CodeAt.whole (code : List Instr) : CodeAt code 0 code := ⟨[], [], by simp, rfl⟩

/-! ### running code fragments

`Runs env code frag c l vs`: wherever `frag` is placed in `code`, started with the pc at its first instruction and a
loop memory that holds the loop variables of `l` (`MemInv c l`), the VM reaches the end of the fragment having
pushed `vs` (top first); the stack below is untouched and so are the memory slots of the enclosing loops
(slots below `4 * depth`) and the iterators that already exist; slots of deeper loops may have changed and new
iterators may have been appended. -/

/-- `m'` agrees with `m` on the slots below `lo` -/
def Agree (lo : Nat) (m' m : List Int) : Prop := (∀ k, k < lo → getM m' k = getM m k) ∧ m'.length = m.length

theorem Agree.refl (lo : Nat) (m : List Int) : Agree lo m m := ⟨fun _ _ => rfl, rfl⟩

theorem Agree.trans {lo : Nat} {a b c : List Int} (h1 : Agree lo a b) (h2 : Agree lo b c) : Agree lo a c :=
  ⟨fun k hk => (h1.1 k hk).trans (h2.1 k hk), h1.2.trans h2.2⟩

theorem Agree.mono {lo lo' : Nat} {a b : List Int} (h : Agree lo a b) (hle : lo' ≤ lo) : Agree lo' a b :=
  ⟨fun k hk => h.1 k (by omega), h.2⟩

theorem MemInv.stable {c : Ctx} {l : LEnv} {m m' : List Int} (h : MemInv c l m)
    (ha : Agree (4 * c.vars.length) m' m) : MemInv c l m' := by
  refine ⟨h.1, ?_, ?_⟩
  · intro k hk
    have hlt : k < c.vars.length := by
      apply Decidable.byContradiction
      intro hn
      exact hk (by simp [List.getD_eq_getElem?_getD, List.getElem?_eq_none (by omega : c.vars.length ≤ k)])
    rw [ha.1 (4 * k + 3) (by omega)]
    exact h.2.1 k hk
  · intro n hn
    obtain ⟨slot, h1, h2, h3⟩ := h.2.2 n hn
    exact ⟨slot, h1, h2, by rw [ha.1 slot h2]; exact h3⟩

def Runs (env : Env) (code : List Instr) (frag : List Instr) (c : Ctx) (l : LEnv) (pure : Bool) (vs : List Int) : Prop :=
  ∀ pc st mem its, CodeAt code pc frag → MemInv c l mem → mem.length = 20 →
    ∃ mem' ext, Steps env code ⟨pc, st, mem, its⟩ ⟨pc + frag.length, vs ++ st, mem', its ++ ext⟩ ∧
      Agree (4 * c.vars.length) mem' mem ∧ (pure = true → mem' = mem ∧ ext = [])

theorem Runs.weaken {env : Env} {code f : List Instr} {c : Ctx} {l : LEnv} {pure : Bool} {vs : List Int}
    (h : Runs env code f c l true vs) : Runs env code f c l pure vs := by
  intro pc st mem its hc hP hlen
  obtain ⟨m, e, s, a, hp⟩ := h pc st mem its hc hP hlen
  obtain ⟨rfl, rfl⟩ := hp rfl
  exact ⟨m, [], s, a, fun _ => ⟨rfl, rfl⟩⟩

theorem Runs.nil (env : Env) (code : List Instr) (c : Ctx) (l : LEnv) (pure : Bool) : Runs env code [] c l pure [] := by
  intro pc st mem its _ _ _
  exact ⟨mem, [], by simpa using Steps.refl env code _, Agree.refl _ _, fun _ => ⟨rfl, rfl⟩⟩

theorem Runs.seq {env : Env} {code f1 f2 : List Instr} {c : Ctx} {l : LEnv} {pure : Bool} {v1 v2 : List Int}
    (h1 : Runs env code f1 c l pure v1) (h2 : Runs env code f2 c l pure v2) :
    Runs env code (f1 ++ f2) c l pure (v2 ++ v1) := by
  intro pc st mem its hc hP hlen
  obtain ⟨m1, e1, s1, a1, p1⟩ := h1 pc st mem its hc.left hP hlen
  obtain ⟨m2, e2, s2, a2, p2⟩ := h2 (pc + f1.length) (v1 ++ st) m1 (its ++ e1) hc.right (hP.stable a1) (a1.2.trans hlen)
  refine ⟨m2, e1 ++ e2, ?_, a2.trans a1, ?_⟩
  · have := Steps.trans s1 s2
    simpa [Nat.add_assoc] using this
  · intro hp
    obtain ⟨rfl, rfl⟩ := p1 hp
    obtain ⟨rfl, rfl⟩ := p2 hp
    exact ⟨rfl, rfl⟩

theorem Runs.congr {env : Env} {code f f' : List Instr} {c : Ctx} {l : LEnv} {pure : Bool} {vs : List Int}
    (h : f = f') (hr : Runs env code f c l pure vs) : Runs env code f' c l pure vs := h ▸ hr

theorem Runs.val1 {env : Env} {code f : List Instr} {c : Ctx} {l : LEnv} {pure : Bool} {r r' : Int}
    (h : r = r') (hr : Runs env code f c l pure [r]) : Runs env code f c l pure [r'] := h ▸ hr

/-- an instruction that only pushes a word determined by the loop memory -/
theorem Runs.push1 {env : Env} {code : List Instr} {c : Ctx} {l : LEnv} {pure : Bool} (i : Instr) (v : Int)
    (h : ∀ pc st mem its, MemInv c l mem → step env i ⟨pc, st, mem, its⟩ = some ⟨pc + 1, v :: st, mem, its⟩) :
    Runs env code [i] c l pure [v] := by
  intro pc st mem its hc hP _
  exact ⟨mem, [], Steps.one (by simpa using hc.head) (by simpa using h pc st mem its hP), Agree.refl _ _,
    fun _ => ⟨rfl, rfl⟩⟩

/-- an instruction that replaces the words produced by `f` by one word -/
theorem Runs.op {env : Env} {code f : List Instr} {c : Ctx} {l : LEnv} {pure : Bool} (i : Instr) (args : List Int) (r : Int)
    (hf : Runs env code f c l pure args)
    (h : ∀ pc st mem its, step env i ⟨pc, args ++ st, mem, its⟩ = some ⟨pc + 1, r :: st, mem, its⟩) :
    Runs env code (f ++ [i]) c l pure [r] := by
  intro pc st mem its hc hP hlen
  obtain ⟨m1, e1, s1, a1, p1⟩ := hf pc st mem its hc.left hP hlen
  refine ⟨m1, e1, ?_, a1, p1⟩
  have s2 := Steps.one (s := ⟨pc + f.length, args ++ st, m1, its ++ e1⟩) (by simpa using hc.right.head) (h _ st m1 _)
  have := Steps.trans s1 s2
  simpa [Nat.add_assoc] using this

/-- an instruction that rewrites the words produced by `f` (same stack below, same memory): OP_INT_TO_DBL -/
theorem Runs.opL {env : Env} {code f : List Instr} {c : Ctx} {l : LEnv} {pure : Bool} (i : Instr) (args res : List Int)
    (hf : Runs env code f c l pure args)
    (h : ∀ pc st mem its, step env i ⟨pc, args ++ st, mem, its⟩ = some ⟨pc + 1, res ++ st, mem, its⟩) :
    Runs env code (f ++ [i]) c l pure res := by
  intro pc st mem its hc hP hlen
  obtain ⟨m1, e1, s1, a1, p1⟩ := hf pc st mem its hc.left hP hlen
  refine ⟨m1, e1, ?_, a1, p1⟩
  have s2 := Steps.one (s := ⟨pc + f.length, args ++ st, m1, its ++ e1⟩) (by simpa using hc.right.head) (h _ st m1 _)
  have := Steps.trans s1 s2
  simpa [Nat.add_assoc] using this

end YaraModel.CondCompile
