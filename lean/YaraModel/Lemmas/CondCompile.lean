/- helper lemmas for the compile_correct theorems of Thm/C04.lean: execution sequences, code placement -/
import YaraModel.Lemmas.CondVals
namespace YaraModel.CondCompile
open YaraModel YaraModel.C YaraModel.Cond YaraModel.CondVm YaraModel.Gen.VmOps

/-! ### execution sequences -/

def stepAt (env : Env) (code : List Instr) (s : St) : Option St :=
  match code[s.pc]? with
  | some i => step env i s
  | none => none

def runN (env : Env) (code : List Instr) : Nat → St → Option St
  | 0, s => some s
  | n + 1, s => (stepAt env code s).bind (runN env code n)

/-- `s` reaches `s'` in finitely many VM steps -/
def Steps (env : Env) (code : List Instr) (s s' : St) : Prop := ∃ n, runN env code n s = some s'

theorem runN_add (env : Env) (code : List Instr) (m n : Nat) (s : St) :
    runN env code (m + n) s = (runN env code m s).bind (runN env code n) := by
  induction m generalizing s with
  | zero => simp [runN]
  | succ m ih =>
    rw [Nat.succ_add]
    simp only [runN]
    cases stepAt env code s with
    | none => rfl
    | some s1 => simp [ih]

theorem Steps.refl (env : Env) (code : List Instr) (s : St) : Steps env code s s := ⟨0, rfl⟩

theorem Steps.trans {env : Env} {code : List Instr} {a b c : St}
    (h1 : Steps env code a b) (h2 : Steps env code b c) : Steps env code a c := by
  obtain ⟨m, hm⟩ := h1
  obtain ⟨n, hn⟩ := h2
  exact ⟨m + n, by rw [runN_add, hm]; exact hn⟩

theorem Steps.one {env : Env} {code : List Instr} {s s' : St} {i : Instr}
    (hi : code[s.pc]? = some i) (hs : step env i s = some s') : Steps env code s s' :=
  ⟨1, by simp [runN, stepAt, hi, hs]⟩

/-- the executable, fuel-bounded `run` follows the step relation to the end of the code -/
theorem run_of_runN (env : Env) (code : List Instr) (n : Nat) (s s' : St)
    (h : runN env code n s = some s') (hend : s'.pc = code.length) :
    run env code.toArray (n + 1) s = some s' := by
  induction n generalizing s with
  | zero =>
    simp only [runN, Option.some.injEq] at h
    subst h
    simp [run, hend]
  | succ n ih =>
    simp only [runN, stepAt] at h
    unfold run
    cases hc : code[s.pc]? with
    | none => simp [hc] at h
    | some i =>
      simp only [hc] at h
      have : code.toArray[s.pc]? = some i := by simpa using hc
      simp only [this]
      cases hs : step env i s with
      | none => simp [hs] at h
      | some s1 =>
        simp only [hs, Option.bind_some] at h
        exact ih s1 h

/-! ### code placement -/

/-- the fragment `frag` sits in `code` at instruction index `pc` -/
def CodeAt (code : List Instr) (pc : Nat) (frag : List Instr) : Prop :=
  ∃ pre post, code = pre ++ frag ++ post ∧ pre.length = pc

theorem CodeAt.left {code : List Instr} {pc : Nat} {f1 f2 : List Instr}
    (h : CodeAt code pc (f1 ++ f2)) : CodeAt code pc f1 := by
  obtain ⟨pre, post, hc, hl⟩ := h
  exact ⟨pre, f2 ++ post, by simp [hc], hl⟩

theorem CodeAt.right {code : List Instr} {pc : Nat} {f1 f2 : List Instr}
    (h : CodeAt code pc (f1 ++ f2)) : CodeAt code (pc + f1.length) f2 := by
  obtain ⟨pre, post, hc, hl⟩ := h
  exact ⟨pre ++ f1, post, by simp [hc], by simp [hl]⟩

theorem CodeAt.head {code : List Instr} {pc : Nat} {i : Instr} {rest : List Instr}
    (h : CodeAt code pc (i :: rest)) : code[pc]? = some i := by
  obtain ⟨pre, post, hc, hl⟩ := h
  subst hc; subst hl
  simp

theorem CodeAt.tail {code : List Instr} {pc : Nat} {i : Instr} {rest : List Instr}
    (h : CodeAt code pc (i :: rest)) : CodeAt code (pc + 1) rest := by
  have := CodeAt.right (f1 := [i]) (f2 := rest) (by simpa using h)
  simpa using this

theorem CodeAt.whole (code : List Instr) : CodeAt code 0 code := ⟨[], [], by simp, rfl⟩

/-! ### running code fragments

`Runs env code frag P vs`: wherever `frag` is placed in `code`, started with the pc at its first instruction and a
loop memory satisfying `P`, the VM reaches the end of the fragment having pushed `vs` (top first) and changed
nothing else. -/

def Runs (env : Env) (code : List Instr) (frag : List Instr) (P : List Int → Prop) (vs : List Int) : Prop :=
  ∀ pc s, CodeAt code pc frag → s.pc = pc → P s.mem →
    Steps env code s { s with pc := pc + frag.length, stack := vs ++ s.stack }

theorem Runs.nil (env : Env) (code : List Instr) (P : List Int → Prop) : Runs env code [] P [] := by
  intro pc s _ hpc _
  have : ({ s with pc := pc + ([] : List Instr).length, stack := [] ++ s.stack } : St) = s := by
    cases s; simp_all
  rw [this]; exact Steps.refl _ _ _

theorem Runs.seq {env : Env} {code f1 f2 : List Instr} {P : List Int → Prop} {v1 v2 : List Int}
    (h1 : Runs env code f1 P v1) (h2 : Runs env code f2 P v2) : Runs env code (f1 ++ f2) P (v2 ++ v1) := by
  intro pc s hc hpc hP
  have s1 := h1 pc s hc.left hpc hP
  have s2 := h2 (pc + f1.length) { s with pc := pc + f1.length, stack := v1 ++ s.stack } hc.right rfl hP
  have := Steps.trans s1 s2
  simpa [Nat.add_assoc] using this

/-- an instruction that only pushes a word determined by the loop memory -/
theorem Runs.push1 {env : Env} {code : List Instr} {P : List Int → Prop} (i : Instr) (v : Int)
    (h : ∀ s, P s.mem → step env i s = some { s with pc := s.pc + 1, stack := v :: s.stack }) :
    Runs env code [i] P [v] := by
  intro pc s hc hpc hP
  have hi : code[s.pc]? = some i := by rw [hpc]; exact hc.head
  have := Steps.one hi (h s hP)
  simpa [hpc] using this

/-- an instruction that replaces the `n` top words produced by `f` by one word -/
theorem Runs.op {env : Env} {code f : List Instr} {P : List Int → Prop} (i : Instr) (args : List Int) (r : Int)
    (hf : Runs env code f P args)
    (h : ∀ s : St, step env i { s with stack := args ++ s.stack } =
        some { s with pc := s.pc + 1, stack := r :: s.stack }) :
    Runs env code (f ++ [i]) P [r] := by
  intro pc s hc hpc hP
  have s1 := hf pc s hc.left hpc hP
  have hi : code[pc + f.length]? = some i := hc.right.head
  have h2 := h { s with pc := pc + f.length }
  have s2 : Steps env code { s with pc := pc + f.length, stack := args ++ s.stack }
      { s with pc := pc + f.length + 1, stack := r :: s.stack } := Steps.one (by simpa using hi) (by simpa using h2)
  have := Steps.trans s1 s2
  simpa [Nat.add_assoc] using this

end YaraModel.CondCompile
