/- C06 helper lemmas (D12): result range of the tail of `pe_rva_to_offset`, iteration count of its loop. -/
import YaraModel.Model.PeRva
namespace YaraModel.PeRva
open YaraModel.Gen.Bounds

/-- frozen copy of elf.c `is_valid_ptr` as of yara 4.5.2 (the live text is regenerated into Gen.Bounds) -/
def is_valid_ptr_v452 (base size ptr ptr_size : BitVec 64) : Bool :=
  ((decide (base ≤ ptr) && decide (ptr_size ≤ size)) && decide ((ptr + ptr_size) ≤ (base + size)))

/-- frozen copy of the arena.c relocation test as of yara 4.5.2 -/
def arena_reloc_reject_v452 (buffer_id num_buffers offset used bdata : BitVec 64) : Bool :=
  ((decide (num_buffers ≤ buffer_id) || decide ((used - (8#64)) < offset)) || (bdata == (0#64)))

/-- frozen copy of the arena.c relocation test with the explicit `used < sizeof(void*)` disjunct -/
def arena_reloc_reject_v2 (buffer_id num_buffers offset used bdata : BitVec 64) : Bool :=
  (decide (num_buffers ≤ buffer_id) || (((bdata == (0#64)) || decide (used < (8#64))) || decide ((used - (8#64)) < offset)))

theorem finishCore_bounded (dataSize rva r x y z : Nat) (h : finishCore dataSize rva x y z = some r) :
    r < dataSize := by
  simp only [finishCore] at h
  split at h
  · cases h
  · split at h
    · cases h
    · simp only [Option.some.injEq] at h; omega

theorem sectLoop_iterations (dataSize fa sa secOff rva fuel i : Nat) (secs : List Sect) (a a' : Acc) (n : Nat)
    (h : sectLoop dataSize fa sa secOff rva fuel i secs a = some (a', n)) : n ≤ i + fuel := by
  induction fuel generalizing i secs a with
  | zero => simp only [sectLoop] at h; injection h with h; injection h with _ h2; omega
  | succ f ih =>
    cases secs with
    | nil => simp [sectLoop] at h
    | cons s rest =>
      simp only [sectLoop] at h
      split at h
      · have := ih _ _ _ h; omega
      · cases h

end YaraModel.PeRva

