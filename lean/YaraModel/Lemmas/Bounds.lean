/- C06 helper lemmas (D12): result range of the tail of `pe_rva_to_offset`, iteration count of its loop. -/
import YaraModel.Model.PeRva
namespace YaraModel.PeRva
open YaraModel.Gen.Bounds

/-- frozen copy of elf.c `is_valid_ptr` as of yara 4.5.2 (the live text is regenerated into Gen.Bounds) -/
def is_valid_ptr_v452 (base size ptr ptr_size : BitVec 64) : Bool :=
  ((decide (base ≤ ptr) && decide (ptr_size ≤ size)) && decide ((ptr + ptr_size) ≤ (base + size)))

/-- frozen copy of the arena.c relocation test as of yara 4.5.2 -/
def arena_reloc_reject_v452 (buffer_id num_buffers offset used bdata : BitVec 64) : Bool :=
  ((decide (num_buffers ≤ buffer_id) || decide ((used - (8#64)) < offset)) || (bdata == (0#64)))

/-- frozen copy of the arena.c relocation test with the explicit `used < sizeof(void*)` disjunct -/
def arena_reloc_reject_v2 (buffer_id num_buffers offset used bdata : BitVec 64) : Bool :=
  (decide (num_buffers ≤ buffer_id) || (((bdata == (0#64)) || decide (used < (8#64))) || decide ((used - (8#64)) < offset)))

theorem toNat_w32 (x : BitVec 64) : (w32 x).toNat = x.toNat % 2 ^ 32 := by
  simp only [w32, BitVec.toNat_setWidth]
  omega

/-- frozen copy of the pe.c Rich-header offset test as of yara 4.5.2 + fixes up to 5a7d1fe -/
def pe_rich_nthdr_reject_v452 (data_size nthdr_offset : BitVec 64) : Bool :=
  (decide ((data_size + (4#64)) < nthdr_offset) || decide (nthdr_offset < (4#64)))

/-- F60 witness: a 100-byte file and e_lfanew = 104 pass the test, the 4-byte read at [100,104) is outside -/
theorem pe_rich_nthdr_v452_unsound_witness :
    ∃ sz off : BitVec 64, pe_rich_nthdr_reject_v452 sz off = false ∧ ¬ (off.toNat - 4) + 4 ≤ sz.toNat :=
  ⟨100#64, 104#64, by decide, by decide⟩

/-- frozen copy of the pe.c security-directory test (32-bit sum) -/
def pe_security_dir_reject_v452 (data_size sec_va sec_size : BitVec 64) : Bool :=
  ((((sec_va == (0#64)) || decide (data_size < sec_va)) || decide (data_size < sec_size)) || decide (data_size < (w32 (sec_va + sec_size))))

/-- F61 witness: 3 GiB file, VirtualAddress = Size = 0xA0000000: the 32-bit sum is 0x40000000 -/
theorem pe_security_dir_v452_unsound_witness :
    ∃ sz va n : BitVec 64, va.toNat < 2 ^ 32 ∧ n.toNat < 2 ^ 32 ∧ pe_security_dir_reject_v452 sz va n = false ∧ ¬ va.toNat + n.toNat ≤ sz.toNat :=
  ⟨0xC0000000#64, 0xA0000000#64, 0xA0000000#64, by decide, by decide, by decide, by decide⟩

theorem finishCore_bounded (dataSize rva r x y z : Nat) (h : finishCore dataSize rva x y z = some r) :
    r < dataSize := by
  simp only [finishCore] at h
  split at h
  · cases h
  · split at h
    · cases h
    · simp only [Option.some.injEq] at h; omega

theorem sectLoop_iterations (dataSize fa sa secOff rva fuel i : Nat) (secs : List Sect) (a a' : Acc) (n : Nat)
    (h : sectLoop dataSize fa sa secOff rva fuel i secs a = some (a', n)) : n ≤ i + fuel := by
  induction fuel generalizing i secs a with
  | zero => simp only [sectLoop] at h; injection h with h; injection h with _ h2; omega
  | succ f ih =>
    cases secs with
    | nil => simp [sectLoop] at h
    | cons s rest =>
      simp only [sectLoop] at h
      split at h
      · have := ih _ _ _ h; omega
      · cases h

end YaraModel.PeRva

