/-
  Splitting a pattern at its chaining points (Model/ReSplit.lean) preserves the language: the pattern matches [p, q) iff its
  pieces match one after the other with every gap inside [gap_min, gap_max] — the re-joining rule of chained strings
  (byte mode, jumps match any byte).
-/
import YaraModel.Model.ReSplit
import YaraModel.Lemmas.ReAlgebra
namespace YaraModel.ReSplit
open YaraModel.Re YaraModel.ReChain

/-- the pieces match one after the other, every gap within its bounds (and inside the data) -/
def ChainM (fl : Flags) (buf : Bytes) : Re → List (Gap × Re) → Nat → Nat → Prop
  | x, [], p, q => Re.Matches fl buf x p q
  | x, (g, y) :: t, p, q => ∃ e s, Re.Matches fl buf x p e ∧ e + g.gmin ≤ s ∧ s ≤ e + g.gmax ∧ (s = e ∨ s ≤ buf.size) ∧ ChainM fl buf y t s q

section
variable {fl : Flags} {buf : Bytes}

theorem unspine_cons (x : Re) {l : List Re} (h : l ≠ []) : unspine (x :: l) = .cat x (unspine l) := by
  cases l with
  | nil => exact absurd rfl h
  | cons y t => rfl

theorem unspine_append : ∀ {l1 l2 : List Re}, l1 ≠ [] → l2 ≠ [] → ∀ p q,
    (Re.Matches fl buf (unspine (l1 ++ l2)) p q ↔ ∃ t, Re.Matches fl buf (unspine l1) p t ∧ Re.Matches fl buf (unspine l2) t q)
  | [], _, h, _, _, _ => absurd rfl h
  | [x], l2, _, h2, p, q => by
    simp only [List.singleton_append]
    rw [unspine_cons x h2, cat_iff]; rfl
  | x :: y :: t, l2, _, h2, p, q => by
    have hne : (y :: t) ++ l2 ≠ [] := by simp
    have hne2 : (y :: t) ≠ [] := by simp
    simp only [List.cons_append] at hne ⊢
    rw [unspine_cons x hne, unspine_cons x hne2, cat_iff]
    constructor
    · rintro ⟨u, h1, h3⟩
      obtain ⟨t', k1, k2⟩ := (unspine_append hne2 h2 u q).1 h3
      exact ⟨t', (cat_iff _ _ _ _).2 ⟨u, h1, k1⟩, k2⟩
    · rintro ⟨t', h1, k2⟩
      obtain ⟨u, k0, k1⟩ := (cat_iff _ _ _ _).1 h1
      exact ⟨u, k0, (unspine_append hne2 h2 u q).2 ⟨t', k1, k2⟩⟩

theorem unspine_spine : ∀ (r : Re), unspine (spine r) = r ∧ spine r ≠ []
  | .cat a b => by
    have ih := unspine_spine b
    simp only [spine]
    exact ⟨by rw [unspine_cons a ih.2, ih.1], by simp⟩
  | .lit _ | .masked _ _ | .notLit _ | .maskedNot _ _ | .any | .cls _ _ | .wordCh | .nonWordCh | .space | .nonSpace | .digit
  | .nonDigit | .empty | .alt _ _ | .star _ _ | .plus _ _ | .range _ _ _ _ | .rangeAny _ _ _ | .bol | .eol | .wordB | .nonWordB => by
    simp [spine, unspine]

theorem chainPoint_inv {x : Re} (h : isChainPoint x = true) : ∃ lo hi, x = .rangeAny lo hi false := by
  cases x with
  | rangeAny lo hi g => cases g <;> simp [isChainPoint] at h ⊢
  | _ => simp [isChainPoint] at h

/-- the split of a list of children preserves the language -/
theorem splitGo_sem (hd : fl.dotall = true) (hw : fl.wide = false) : ∀ (t cur : List Re), cur ++ t ≠ [] → ∀ p q,
    (Re.Matches fl buf (unspine (cur ++ t)) p q ↔
      ChainM fl buf (unspine (splitGo cur t).1) ((splitGo cur t).2.map fun gp => (gp.1, unspine gp.2)) p q)
  | [], cur, _, p, q => by simp [splitGo, ChainM]
  | x :: t, cur, hne, p, q => by
    simp only [splitGo]
    by_cases hc : (isChainPoint x && !cur.isEmpty && !t.isEmpty) = true
    · simp only [hc, if_true, List.map_cons, ChainM]
      simp only [Bool.and_eq_true, Bool.not_eq_true', List.isEmpty_eq_false_iff] at hc
      obtain ⟨⟨hx, hcur⟩, ht⟩ := hc
      obtain ⟨lo, hi, rfl⟩ := chainPoint_inv hx
      have ih := splitGo_sem hd hw t [] (by simpa using ht)
      simp only [List.nil_append] at ih
      rw [unspine_append hcur (by simp)]
      constructor
      · rintro ⟨e, h1, h2⟩
        rw [unspine_cons _ ht, cat_iff] at h2
        obtain ⟨s, hj, h3⟩ := h2
        obtain ⟨k, a1, a2, rfl, a3⟩ := (rangeAny_iff hd hw lo hi false e s).1 hj
        exact ⟨e, e + k, h1, by simp only [gapOf]; omega, by simp only [gapOf]; omega, by omega, (ih _ _).1 h3⟩
      · rintro ⟨e, s, h1, a1, a2, a3, h3⟩
        simp only [gapOf] at a1 a2
        refine ⟨e, h1, ?_⟩
        rw [unspine_cons _ ht, cat_iff]
        refine ⟨s, (rangeAny_iff hd hw lo hi false e s).2 ⟨s - e, by omega, by omega, by omega, by omega⟩, (ih _ _).2 h3⟩
    · simp only [hc]
      have := splitGo_sem hd hw t (cur ++ [x]) (by simp) p q
      rw [List.append_assoc] at this
      simpa using this

/-- **The chain of a string denotes the string**: `r` matches [p, q) iff its head piece and the further pieces match one after
    the other with every gap within the bounds of the chaining jump (byte mode, `.` / `??` match any byte). -/
theorem chainSplit_sem (hd : fl.dotall = true) (hw : fl.wide = false) (r : Re) (p q : Nat) :
    Re.Matches fl buf r p q ↔ ChainM fl buf (chainSplit r).1 (chainSplit r).2 p q := by
  have h := splitGo_sem (fl := fl) (buf := buf) hd hw (spine r) [] (by simpa using (unspine_spine r).2) p q
  simp only [List.nil_append, (unspine_spine r).1] at h
  exact h

end

end YaraModel.ReSplit
