/- Soundness of the static handle check of Model/RulesFile.lean: a balanced program holds no FILE handle when it
   returns, whatever the library calls it makes answer. -/
import YaraModel.Model.RulesFile
namespace YaraModel.RulesFile

theorem balanced_sound (p : List Stmt) : ∀ (opened : Bool) (o : List Bool), balanced p opened = true → exec p opened o = 0 := by
  induction p with
  | nil => intro opened o h; simp [balanced] at h; simp [exec, h]
  | cons s t ih =>
    intro opened o h
    cases s with
    | fopen =>
      simp only [balanced, Bool.and_eq_true] at h
      simp only [exec]
      cases o.headD true with
      | true => exact ih true _ h.1
      | false => exact ih false _ h.2
    | retIfNull =>
      simp only [balanced] at h
      simp only [exec]
      cases opened with
      | true => exact ih true _ (by simpa using h)
      | false => rfl
    | call => exact ih opened _ (by simpa [balanced] using h)
    | failOnError =>
      simp only [balanced, Bool.and_eq_true, Bool.not_eq_true'] at h
      simp only [exec]
      cases o.headD true with
      | true => exact ih opened _ h.2
      | false => simp [h.1]
    | failClose =>
      simp only [exec]
      cases o.headD true with
      | true => exact ih opened _ (by simpa [balanced] using h)
      | false => rfl
    | fclose => exact ih false _ (by simpa [balanced] using h)
    | ret => simp [balanced] at h; simp [exec, h]

end YaraModel.RulesFile
