/-
  VM completeness for concatenations of single-byte nodes and jumps (hex strings without alternatives), forward code,
  byte mode: every match of the pattern from the start position gives an accepting path of stopped fibers through the
  emitted code (`AccU`, Lemmas/ReComplete.lean), hence its length is reported by the exhaustive run.
-/
import YaraModel.Lemmas.ReComplete
import YaraModel.Lemmas.ReEmit
namespace YaraModel.ReEmit
open YaraModel.Re YaraModel.ReVm

/-- bytes, masked bytes, their negations, `??`, jumps `[n-m]`, concatenation -/
inductive HexSeq : Re → Prop
  | byte (b : UInt8) : HexSeq (.lit b)
  | wild : HexSeq .any
  | mask (v m : UInt8) : HexSeq (.masked v m)
  | notByte (b : UInt8) : HexSeq (.notLit b)
  | notMask (v m : UInt8) : HexSeq (.maskedNot v m)
  | jump (lo hi : Nat) (g : Bool) : lo ≤ hi → hi < 65536 → HexSeq (.rangeAny lo hi g)
  | seq {a b} : HexSeq a → HexSeq b → HexSeq (.cat a b)

theorem HexSeq.wf {r : Re} (h : HexSeq r) : WF r := by
  induction h with
  | byte b => exact .lit b
  | wild => exact .any
  | mask v m => exact .masked v m
  | notByte b => exact .notLit b
  | notMask v m => exact .maskedNot v m
  | jump lo hi g h1 h2 => exact .rangeAny lo hi g h1 h2
  | seq _ _ ih1 ih2 => exact .cat ih1 ih2

/-! ### a consuming instruction accepts what the specification's test accepts -/
theorem maxBytes_fwd {e : Env} (h : FwdByte e) : e.maxBytes = min (e.buf.size - e.start) 1024 := by
  unfold Env.maxBytes Env.fwdSize
  simp only [h.notBack, Bool.false_eq_true, if_false, cs_one h, Nat.mod_one, Nat.sub_zero]

theorem consumeOk_fwd {e : Env} (h : FwdByte e) (bm : Nat) (f : Fiber) :
    consumeOk e bm f = (decide (bm < e.maxBytes) && consumeTest e.code e.fl f.ip e.buf 1 ((e.start + bm : Nat) : Int)) := by
  unfold consumeOk
  rw [cs_one h, inp_fwd h]
  have : decide (bm ≥ e.maxBytes) = !decide (bm < e.maxBytes) := by
    by_cases hh : bm < e.maxBytes <;> simp [hh] <;> omega
  simp [this]

/-- the specification's one-character test holds at position start + bm, inside the scan window: the instruction accepts -/
theorem consume_of_charOk {e : Env} (h : FwdByte e) {bm : Nat} {f : Fiber} {t : UInt8 → Bool} (hlt : bm < e.maxBytes)
    (hc : charOk (specFlags e.fl) e.buf t (e.start + bm) = true)
    (htest : consumeTest e.code e.fl f.ip e.buf 1 ((e.start + bm : Nat) : Int) = t (byteAt e.buf ((e.start + bm : Nat) : Int))) :
    consumeOk e bm f = true := by
  rw [consumeOk_fwd h, htest]
  rw [charOk_narrow rfl] at hc
  simp only [Bool.and_eq_true, decide_eq_true_eq] at hc ⊢
  exact ⟨hlt, hc.2⟩

theorem test_lit {e : Env} {ip : Nat} {b : UInt8} (hop : u8 e.code ip = OP_LITERAL) (harg : u8 e.code (ip + 1) = b.toNat) (p : Int) :
    consumeTest e.code e.fl ip e.buf 1 p = testLit (specFlags e.fl) b (byteAt e.buf p) := by
  unfold consumeTest testLit specFlags
  simp only [hop, harg, OP_LITERAL, OP_ANY, OP_REPEAT_ANY_GREEDY, OP_REPEAT_ANY_UNGREEDY]
  simp only [Nat.reduceEqDiff, or_self, if_false, if_true]
  split
  · rw [UInt8.ofNat_toNat]
  · rw [toNat_beq]

theorem test_notLit {e : Env} {ip : Nat} {b : UInt8} (hop : u8 e.code ip = OP_NOT_LITERAL) (harg : u8 e.code (ip + 1) = b.toNat) (p : Int) :
    consumeTest e.code e.fl ip e.buf 1 p = (fun c => c != b) (byteAt e.buf p) := by
  unfold consumeTest
  simp only [hop, harg, OP_NOT_LITERAL, OP_LITERAL, OP_ANY, OP_REPEAT_ANY_GREEDY, OP_REPEAT_ANY_UNGREEDY]
  simp only [Nat.reduceEqDiff, or_self, if_false, if_true]
  rw [Bool.eq_iff_iff]; simp [UInt8.toNat_inj]

theorem test_masked {e : Env} {ip : Nat} {v m : UInt8} (hop : u8 e.code ip = OP_MASKED_LITERAL) (h1 : u8 e.code (ip + 1) = v.toNat)
    (h2 : u8 e.code (ip + 2) = m.toNat) (p : Int) : consumeTest e.code e.fl ip e.buf 1 p = testMasked v m (byteAt e.buf p) := by
  unfold consumeTest testMasked
  simp only [hop, h1, h2, OP_MASKED_LITERAL, OP_NOT_LITERAL, OP_LITERAL, OP_ANY, OP_REPEAT_ANY_GREEDY, OP_REPEAT_ANY_UNGREEDY]
  simp only [Nat.reduceEqDiff, or_self, if_false, if_true]
  rw [toNat_and_beq]

theorem test_maskedNot {e : Env} {ip : Nat} {v m : UInt8} (hop : u8 e.code ip = OP_MASKED_NOT_LITERAL) (h1 : u8 e.code (ip + 1) = v.toNat)
    (h2 : u8 e.code (ip + 2) = m.toNat) (p : Int) :
    consumeTest e.code e.fl ip e.buf 1 p = (fun c => !testMasked v m c) (byteAt e.buf p) := by
  unfold consumeTest testMasked
  simp only [hop, h1, h2, OP_MASKED_NOT_LITERAL, OP_MASKED_LITERAL, OP_NOT_LITERAL, OP_LITERAL, OP_ANY, OP_REPEAT_ANY_GREEDY,
    OP_REPEAT_ANY_UNGREEDY]
  simp only [Nat.reduceEqDiff, or_self, if_false, if_true]
  rw [← toNat_and_beq]; rfl

theorem test_anyop {e : Env} {ip : Nat} (hop : u8 e.code ip = OP_ANY ∨ u8 e.code ip = OP_REPEAT_ANY_GREEDY ∨ u8 e.code ip = OP_REPEAT_ANY_UNGREEDY)
    (p : Int) : consumeTest e.code e.fl ip e.buf 1 p = testAny (specFlags e.fl) (byteAt e.buf p) := by
  unfold consumeTest testAny specFlags
  simp only [hop, if_true]


/-! ### `sync` on the instructions of a split-free code -/
theorem sync_plain_inv {code : Code} {f : Fiber} (h1 : ¬ isCtl (u8 code f.ip))
    (h2 : ¬ (u8 code f.ip = OP_REPEAT_ANY_GREEDY ∨ u8 code f.ip = OP_REPEAT_ANY_UNGREEDY)) {F : Nat} {ex : List Nat} {l : List Fiber}
    {a : Bool} {ex' : List Nat} (h : sync code F ex f = some (l, a, ex')) : l = [f] := by
  unfold isCtl at h1
  cases F with
  | zero => simp [sync] at h
  | succ F =>
    unfold sync at h
    simp only at h
    rw [if_neg (fun hh => h1 (by rcases hh with hh | hh <;> simp [hh])),
      if_neg (fun hh => h1 (by rcases hh with hh | hh <;> simp [hh])),
      if_neg (fun hh => h1 (by rcases hh with hh | hh <;> simp [hh])), if_neg h2,
      if_neg (fun hh => h1 (by simp [hh]))] at h
    simp only [Option.some.injEq, Prod.mk.injEq] at h
    exact h.1.symm

/-- the states of the fiber standing on a REPEAT_ANY instruction at `a`: `k` bytes consumed so far -/
def spinF (a k : Nat) : Fiber := { ip := a, rc := if k = 0 then -1 else (k : Int) }

theorem sync_spin_inv {code : Code} {a lo hi : Nat} (hop : u8 code a = OP_REPEAT_ANY_GREEDY ∨ u8 code a = OP_REPEAT_ANY_UNGREEDY)
    (hlo : u16 code (a + 1) = lo) (hhi : u16 code (a + 3) = hi) (k : Nat) {F : Nat} {ex : List Nat} {l : List Fiber}
    {b : Bool} {ex' : List Nat} (h : sync code F ex (spinF a k) = some (l, b, ex')) :
    (k < hi → spinF a (k + 1) ∈ l) ∧
    (lo ≤ k → ∃ F' ex0 l' b' ex1, sync code F' ex0 { ip := a + 5 } = some (l', b', ex1) ∧ ∀ g ∈ l', g ∈ l) := by
  have hne : ∀ n : Nat, ¬ ((n : Int) = -1) := fun n => by omega
  obtain ⟨f, hf⟩ : ∃ f, f = spinF a k := ⟨_, rfl⟩
  rw [← hf] at h
  have hip : f.ip = a := by rw [hf]; rfl
  have hrc0 : (if f.rc = -1 then (0 : Int) else f.rc) = (k : Int) := by
    rw [hf]; unfold spinF
    by_cases hk : k = 0
    · simp [hk]
    · simp only [if_neg hk, if_neg (hne k)]
  have hspin : ({ ip := a, stack := f.stack, rc := (k : Int) + 1 } : Fiber) = spinF a (k + 1) := by
    rw [hf]; unfold spinF; simp
  have hcont : ({ ip := a + 5, stack := f.stack, rc := -1 } : Fiber) = { ip := a + 5 } := by
    rw [hf]; rfl
  cases F with
  | zero => simp [sync] at h
  | succ F =>
    unfold sync at h
    simp only at h
    rw [hip] at h
    rw [if_neg (by rcases hop with hh | hh <;> rw [hh] <;> decide), if_neg (by rcases hop with hh | hh <;> rw [hh] <;> decide),
      if_neg (by rcases hop with hh | hh <;> rw [hh] <;> decide), if_pos hop, hlo, hhi] at h
    rw [hrc0, hspin, hcont] at h
    by_cases c1 : ((k : Int) < (lo : Int))
    · rw [if_pos c1] at h
      simp only [Option.some.injEq, Prod.mk.injEq] at h
      refine ⟨fun _ => by rw [← h.1]; simp, fun hh => by omega⟩
    · rw [if_neg c1] at h
      by_cases c2 : ((k : Int) < (hi : Int))
      · rw [if_pos c2] at h
        split at h
        · simp at h
        · rename_i l' b' ex1 hs
          refine ⟨fun _ => ?_, fun _ => ⟨F, [], l', b', ex1, hs, fun g hg => ?_⟩⟩
          · split at h <;> simp only [Option.some.injEq, Prod.mk.injEq] at h <;> rw [← h.1] <;> simp
          · split at h <;> simp only [Option.some.injEq, Prod.mk.injEq] at h <;> rw [← h.1] <;> simp [hg]
      · rw [if_neg c2] at h
        exact ⟨fun hh => by omega, fun _ => ⟨F, ex, l, b, ex', h, fun g hg => hg⟩⟩

/-! ### accepting paths through the code of a split-free pattern -/
section
variable {e : Env}

/-- a single-byte instruction that accepts the byte at start + q, followed by an accepting path -/
theorem acc_leaf (h : FwdByte e) {a len q n : Nat} (h1 : ¬ isCtl (u8 e.code a))
    (h2 : ¬ (u8 e.code a = OP_REPEAT_ANY_GREEDY ∨ u8 e.code a = OP_REPEAT_ANY_UNGREEDY)) (hc : isConsuming (u8 e.code a) = true)
    (hlen : sizeOfInstr (u8 e.code a) = len) (hok : consumeOk e q { ip := a } = true) (hK : AccU e n { ip := a + len } (q + 1)) :
    AccU e (n + 1) { ip := a } q := by
  intro F ex l b ex' hs
  have := sync_plain_inv (f := { ip := a }) h1 h2 hs
  subst this
  refine ⟨_, List.mem_singleton.2 rfl, hc, hok, ?_⟩
  have hadv : advance e.code { ip := a } = { ip := a + len } := by
    unfold advance
    rw [if_neg h2, hlen]
  rw [hadv, cs_one h]
  exact hK

theorem path_len {fl : Flags} (hw : fl.wide = false) {buf : Bytes} {t : UInt8 → Bool} : ∀ {j p q : Nat}, Path (step fl buf t) j p q → q = p + j
  | _, _, _, .nil => rfl
  | _, _, _, .cons hy hp => by
    have h1 := (mem_step.1 hy).2
    have h2 := path_len hw hp
    have : fl.cs = 1 := by simp [Flags.cs, hw]
    omega

/-- a jump: `j` more bytes are taken by the spinning fiber, then the continuing branch is an accepting path -/
theorem acc_jump (h : FwdByte e) {a lo hi : Nat} (hop : u8 e.code a = OP_REPEAT_ANY_GREEDY ∨ u8 e.code a = OP_REPEAT_ANY_UNGREEDY)
    (hlo : u16 e.code (a + 1) = lo) (hhi : u16 e.code (a + 3) = hi) {n t : Nat} (ht : t ≤ e.maxBytes)
    (hK : AccU e n { ip := a + 5 } t) : ∀ (j k q : Nat), k + j ≤ hi → lo ≤ k + j →
      Path (step (specFlags e.fl) e.buf (testAny (specFlags e.fl))) j (e.start + q) (e.start + t) → AccU e (n + j) (spinF a k) q
  | 0, k, q, h1, h2, hp => by
    have : q = t := by have := hp.zero_eq; omega
    subst this
    intro F ex l b ex' hs
    obtain ⟨F', ex0, l', b', ex1, hs', hsub⟩ := (sync_spin_inv hop hlo hhi k hs).2 h2
    obtain ⟨g, hg, hacc⟩ := hK F' ex0 l' b' ex1 hs'
    exact ⟨g, hsub g hg, hacc⟩
  | j + 1, k, q, h1, h2, hp => by
    intro F ex l b ex' hs
    have hmem := (sync_spin_inv hop hlo hhi k hs).1 (by omega)
    cases hp with
    | cons hy hp' =>
      obtain ⟨hch, hy'⟩ := mem_step.1 hy
      have hcs : (specFlags e.fl).cs = 1 := rfl
      rw [hy', hcs] at hp'
      have hlen := path_len (fl := specFlags e.fl) rfl hp'
      have hp2 : Path (step (specFlags e.fl) e.buf (testAny (specFlags e.fl))) j (e.start + (q + 1)) (e.start + t) := by
        rw [← Nat.add_assoc]; exact hp'
      have ih := acc_jump h hop hlo hhi ht hK j (k + 1) (q + 1) (by omega) (by omega) hp2
      refine ⟨_, hmem, ?_, ?_, ?_⟩
      · show isConsuming (u8 e.code a) = true
        rcases hop with hh | hh <;> rw [hh] <;> decide
      · exact consume_of_charOk h (f := spinF a (k + 1)) (by omega) hch (test_anyop (.inr hop) _)
      · have hadv : advance e.code (spinF a (k + 1)) = spinF a (k + 1) := by
          unfold advance
          rw [if_pos (show u8 e.code (spinF a (k + 1)).ip = _ ∨ u8 e.code (spinF a (k + 1)).ip = _ from hop)]
        rw [hadv, cs_one h]
        have : n + (j + 1) = (n + j) + 1 := by omega
        exact ih

theorem spinF_zero (a : Nat) : spinF a 0 = { ip := a } := rfl

/-- the path lemma: a match of a split-free pattern from start + q to start + t, followed by an accepting path from the
    end of its code at t, is an accepting path from the beginning of its code at q -/
theorem acc_seq (h : FwdByte e) {r : Re} (hr : HexSeq r) : ∀ {a b q t n : Nat}, Seg e.code (lower r) a b →
    Re.Matches (specFlags e.fl) e.buf r (e.start + q) (e.start + t) → t ≤ e.maxBytes → AccU e n { ip := b } t →
    AccU e (n + (t - q)) { ip := a } q := by
  have hcs : (specFlags e.fl).cs = 1 := rfl
  induction hr with
  | byte c =>
    intro a b q t n hseg hm ht hK
    cases hseg with | leaf hc =>
    obtain ⟨f1, f2, _, f4⟩ := leaf_facts hc
    cases hc with | lit hop harg =>
    have hm' := mem_step.1 ((ends_iff_Matches _ _ _ _ _).2 hm)
    obtain ⟨hch, hq⟩ := hm'
    rw [hcs] at hq
    have : t = q + 1 := by omega
    subst this
    rw [show q + 1 - q = 1 by omega]
    rcases f4 with ⟨g1, g2⟩ | ⟨g1, _⟩
    · exact acc_leaf h f1 f2 g1 g2 (consume_of_charOk h (f := { ip := a }) (by omega) hch (test_lit hop harg _)) hK
    · rw [hop] at g1; exact absurd g1 (by decide)
  | wild =>
    intro a b q t n hseg hm ht hK
    cases hseg with | leaf hc =>
    obtain ⟨f1, f2, _, f4⟩ := leaf_facts hc
    cases hc with | any hop =>
    have hm' := mem_step.1 ((ends_iff_Matches _ _ _ _ _).2 hm)
    obtain ⟨hch, hq⟩ := hm'
    rw [hcs] at hq
    have : t = q + 1 := by omega
    subst this
    rw [show q + 1 - q = 1 by omega]
    rcases f4 with ⟨g1, g2⟩ | ⟨g1, _⟩
    · exact acc_leaf h f1 f2 g1 g2 (consume_of_charOk h (f := { ip := a }) (by omega) hch (test_anyop (.inl hop) _)) hK
    · rw [hop] at g1; exact absurd g1 (by decide)
  | mask v m =>
    intro a b q t n hseg hm ht hK
    cases hseg with | leaf hc =>
    obtain ⟨f1, f2, _, f4⟩ := leaf_facts hc
    cases hc with | masked hop harg1 harg2 =>
    have hm' := mem_step.1 ((ends_iff_Matches _ _ _ _ _).2 hm)
    obtain ⟨hch, hq⟩ := hm'
    rw [hcs] at hq
    have : t = q + 1 := by omega
    subst this
    rw [show q + 1 - q = 1 by omega]
    rcases f4 with ⟨g1, g2⟩ | ⟨g1, _⟩
    · exact acc_leaf h f1 f2 g1 g2 (consume_of_charOk h (f := { ip := a }) (by omega) hch (test_masked hop harg1 harg2 _)) hK
    · rw [hop] at g1; exact absurd g1 (by decide)
  | notByte c =>
    intro a b q t n hseg hm ht hK
    cases hseg with | leaf hc =>
    obtain ⟨f1, f2, _, f4⟩ := leaf_facts hc
    cases hc with | notLit hop harg =>
    have hm' := mem_step.1 ((ends_iff_Matches _ _ _ _ _).2 hm)
    obtain ⟨hch, hq⟩ := hm'
    rw [hcs] at hq
    have : t = q + 1 := by omega
    subst this
    rw [show q + 1 - q = 1 by omega]
    rcases f4 with ⟨g1, g2⟩ | ⟨g1, _⟩
    · exact acc_leaf h f1 f2 g1 g2 (consume_of_charOk h (f := { ip := a }) (by omega) hch (test_notLit hop harg _)) hK
    · rw [hop] at g1; exact absurd g1 (by decide)
  | notMask v m =>
    intro a b q t n hseg hm ht hK
    cases hseg with | leaf hc =>
    obtain ⟨f1, f2, _, f4⟩ := leaf_facts hc
    cases hc with | maskedNot hop harg1 harg2 =>
    have hm' := mem_step.1 ((ends_iff_Matches _ _ _ _ _).2 hm)
    obtain ⟨hch, hq⟩ := hm'
    rw [hcs] at hq
    have : t = q + 1 := by omega
    subst this
    rw [show q + 1 - q = 1 by omega]
    rcases f4 with ⟨g1, g2⟩ | ⟨g1, _⟩
    · exact acc_leaf h f1 f2 g1 g2 (consume_of_charOk h (f := { ip := a }) (by omega) hch (test_maskedNot hop harg1 harg2 _)) hK
    · rw [hop] at g1; exact absurd g1 (by decide)
  | jump lo hi g _ _ =>
    intro a b q t n hseg hm ht hK
    cases hseg with | jump hop hlo hhi _ =>
    obtain ⟨k, k1, k2, hp⟩ := path_of_rangeAny hm lo hi rfl
    have hlen := path_len (fl := specFlags e.fl) rfl hp
    have : t - q = k := by omega
    rw [this, ← spinF_zero]
    exact acc_jump h hop hlo hhi ht hK k 0 q (by omega) (by omega) hp
  | @seq x y _ _ ih1 ih2 =>
    intro a b q t n hseg hm ht hK
    cases hseg with | cat s1 s2 =>
    obtain ⟨u, m1, m2⟩ := (cat_iff _ _ _ _).1 hm
    have b1 := Matches.bounds m1
    have b2 := Matches.bounds m2
    obtain ⟨u', rfl⟩ : ∃ u', u = e.start + u' := ⟨u - e.start, by omega⟩
    have := ih2 s2 m2 ht hK
    have := ih1 s1 m1 (by omega) this
    have e1 : n + (t - u') + (u' - q) = n + (t - q) := by omega
    rw [← e1]; exact this
end


/-- completeness of the VM on the forward code of a split-free hex pattern (byte mode, exhaustive, string verification):
    if the run returns without error, it reports the length of EVERY match of the pattern at the start position that
    lies within the scan window of 1024 bytes -/
theorem vm_complete_seq (r : Re) (hr : HexSeq r) (hsz : (emit false r 0).1.length < 32000) (buf : Bytes) (start : Nat) (hst : start ≤ buf.size)
    (fl : VmFlags) (hw : fl.wide = false) (hb : fl.backwards = false) (hsc : fl.scan = false) (hx : fl.exhaustive = true)
    (fuel : Nat) (m : Int) (c : List Nat)
    (h : exec { code := (emitCode false r).toArray, entry := 0, buf := buf, start := start, fl := fl, syncFuel := fuel } = .done m c)
    (L : Nat) (hL : L ≤ 1024) (hm : Re.Matches (specFlags fl) buf r start (start + L)) : L ∈ c := by
  have hwf := hr.wf
  obtain ⟨e, he⟩ : ∃ e : Env, e = envOf r buf start fl fuel := ⟨_, rfl⟩
  change exec (envOf r buf start fl fuel) = _ at h
  rw [← he] at h
  rw [emit_len hwf] at hsz
  have hfb : FwdByte e := by subst he; exact ⟨hw, hb, hst⟩
  have hsub : Sub e.code 0 ((emit false r 0).1 ++ [0xAD]) := by subst he; exact sub_whole _
  obtain ⟨h1, h2⟩ := sub_append hsub
  have hseg : Seg e.code (lower r) 0 (clen (lower r)) := by
    have := seg_of_emit hwf 0 e.code 0 hsz h1
    simpa using this
  have hmatch : u8 e.code (clen (lower r)) = OP_MATCH := by
    have := h2 0 (by simp)
    rw [emit_len hwf] at this
    simp at this
    rw [this]; rfl
  have hentry : e.entry = 0 := by subst he; rfl
  have hbuf : e.buf = buf := by subst he; rfl
  have hstart : e.start = start := by subst he; rfl
  have hfl : e.fl = fl := by subst he; rfl
  have hb := Matches.bounds hm
  have hmax : L ≤ e.maxBytes := by rw [maxBytes_fwd hfb, hbuf, hstart]; omega
  have hend : AccU e 0 { ip := clen (lower r) } L := by
    intro F ex l a ex' hs
    have := sync_plain_inv (f := { ip := clen (lower r) }) (by rw [show u8 e.code ({ ip := clen (lower r) } : Fiber).ip = OP_MATCH from hmatch]; unfold isCtl; decide)
      (by rw [show u8 e.code ({ ip := clen (lower r) } : Fiber).ip = OP_MATCH from hmatch]; decide) hs
    subst this
    exact ⟨_, List.mem_singleton.2 rfl, hmatch⟩
  have hm' : Re.Matches (specFlags e.fl) e.buf r (e.start + 0) (e.start + L) := by rw [hbuf, hstart, hfl]; exact hm
  have hacc : AccU e (0 + (L - 0)) { ip := e.entry } 0 := by rw [hentry]; exact acc_seq hfb hr hseg hm' hmax hend
  have := exec_complete e (by rw [hfl]; exact hx) (by rw [hfl]; exact hsc) m c h _ hacc
  rw [cs_one hfb] at this
  simpa using this

end YaraModel.ReEmit
