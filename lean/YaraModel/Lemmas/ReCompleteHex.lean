/-
  VM completeness for hex patterns (forward code, byte mode): every match of the pattern from the start position gives an
  accepting path of stopped fibers through the emitted code (`AccN`, Lemmas/ReComplete.lean), hence its length is
  reported by the exhaustive run.  Alternatives: the executed-split set of `_yr_re_fiber_sync` never kills a fiber of
  the path, because split ids are numbered in emission order, the code only branches forwards, and the first branch of
  an alternative stops (at a byte, or in a jump) before it leaves its own code.
-/
import YaraModel.Lemmas.ReComplete
import YaraModel.Lemmas.ReEmit
namespace YaraModel.ReEmit
open YaraModel.Re YaraModel.ReVm

/-- a pattern that cannot be entered without stopping inside it: it begins with a byte-like token or a jump that may
    skip a byte (recursively through alternatives) -/
inductive Hd : Re → Prop
  | byte (b : UInt8) : Hd (.lit b)
  | wild : Hd .any
  | mask (v m : UInt8) : Hd (.masked v m)
  | notByte (b : UInt8) : Hd (.notLit b)
  | notMask (v m : UInt8) : Hd (.maskedNot v m)
  | jump (lo hi : Nat) (g : Bool) : 1 ≤ hi → Hd (.rangeAny lo hi g)
  | seq {a : Re} (b : Re) : Hd a → Hd (.cat a b)
  | alt {a b} : Hd a → Hd b → Hd (.alt a b)

/-- hex ASTs whose alternatives have a first branch that begins with a byte-like token or a non-degenerate jump.
    The hex grammar only produces such ASTs (`tokens : token | token token | token token_sequence token`: a branch of an
    alternative begins and ends with a byte or a nested alternative). -/
inductive HexG : Re → Prop
  | byte (b : UInt8) : HexG (.lit b)
  | wild : HexG .any
  | mask (v m : UInt8) : HexG (.masked v m)
  | notByte (b : UInt8) : HexG (.notLit b)
  | notMask (v m : UInt8) : HexG (.maskedNot v m)
  | jump (lo hi : Nat) : lo ≤ hi → hi < 65536 → HexG (.rangeAny lo hi false)
  | seq {a b} : HexG a → HexG b → HexG (.cat a b)
  | alt {a b} : HexG a → HexG b → Hd a → HexG (.alt a b)

theorem HexG.hexAst {r : Re} (h : HexG r) : HexAst r := by
  induction h with
  | byte b => exact .byte b
  | wild => exact .wild
  | mask v m => exact .mask v m
  | notByte b => exact .notByte b
  | notMask v m => exact .notMask v m
  | jump lo hi h1 h2 => exact .jump lo hi h1 h2
  | seq _ _ ih1 ih2 => exact .seq ih1 ih2
  | alt _ _ _ ih1 ih2 => exact .alt ih1 ih2

/-! ### split ids of the emitted code: numbered in emission order -/
/-- number of splits of a hex pattern -/
def nsp : Re → Nat
  | .cat a b => nsp a + nsp b
  | .alt a b => 1 + nsp a + nsp b
  | _ => 0

/-- the splits of the code of `r` at `a` carry the ids `s, s+1, ..` in address order -/
def IdOK (code : Code) : Re → Nat → Nat → Prop
  | .cat x y, a, s => IdOK code x a s ∧ IdOK code y (a + clen (lower x)) (s + nsp x)
  | .alt x y, a, s => u8 code (a + 1) = s ∧ IdOK code x (a + 4) (s + 1) ∧ IdOK code y (a + 4 + clen (lower x) + 3) (s + 1 + nsp x)
  | _, _, _ => True

theorem emit_ids {r : Re} (h : HexAst r) : ∀ s, (emit false r s).2 = s + nsp r := by
  induction h with
  | byte _ | wild | mask _ _ | notByte _ | notMask _ _ | jump _ _ _ _ => intro s; simp [emit, nsp]
  | seq _ _ ih1 ih2 => intro s; simp only [emit, Bool.false_eq_true, if_false, ih1, ih2, nsp]; omega
  | alt _ _ ih1 ih2 => intro s; simp only [emit, ih1, ih2, nsp]; omega

theorem idOK_of_emit {r : Re} (h : HexAst r) : ∀ (s : Nat) (code : Code) (a : Nat), s + nsp r ≤ 256 →
    Sub code a (emit false r s).1 → IdOK code r a s := by
  induction h with
  | byte _ | wild | mask _ _ | notByte _ | notMask _ _ | jump _ _ _ _ => intro s code a _ _; simp [IdOK]
  | @seq x y hx hy ih1 ih2 =>
    intro s code a hs h
    simp only [nsp] at hs
    simp only [emit, Bool.false_eq_true, if_false] at h
    obtain ⟨h1, h2⟩ := sub_append h
    rw [emit_len hx.wf] at h2
    rw [emit_ids hx] at h2
    exact ⟨ih1 s code a (by omega) h1, ih2 _ code _ (by omega) h2⟩
  | @alt x y hx hy ih1 ih2 =>
    intro s code a hs h
    simp only [nsp] at hs
    simp only [emit] at h
    obtain ⟨h12, hcb⟩ := sub_append h
    obtain ⟨h123, hoff2⟩ := sub_append h12
    obtain ⟨h1234, hjmp⟩ := sub_append h123
    obtain ⟨h12', hca⟩ := sub_append h1234
    obtain ⟨hhead, hoff1⟩ := sub_append h12'
    simp only [List.length_append, List.length_cons, List.length_nil, leI16_length, emit_len hx.wf, emit_len hy.wf] at hcb hca
    rw [emit_ids hx] at hcb
    refine ⟨?_, ?_, ?_⟩
    · have := hhead 1 (by simp)
      simp at this
      rw [this]; exact Nat.mod_eq_of_lt (by omega)
    · apply ih1 (s + 1) code (a + 4) (by omega)
      have e1 : a + (0 + 1 + 1 + (0 + 1 + 1)) = a + 4 := by omega
      rw [e1] at hca; exact hca
    · apply ih2 _ code (a + 4 + clen (lower x) + 3) (by omega)
      have e1 : a + (0 + 1 + 1 + (0 + 1 + 1) + clen (lower x) + (0 + 1) + (0 + 1 + 1)) = a + 4 + clen (lower x) + 3 := by omega
      rw [e1] at hcb; exact hcb

/-! ### a consuming instruction accepts what the specification's test accepts -/
theorem maxBytes_fwd {e : Env} (h : FwdByte e) : e.maxBytes = min (e.buf.size - e.start) 1024 := by
  unfold Env.maxBytes Env.fwdSize
  simp only [h.notBack, Bool.false_eq_true, if_false, cs_one h, Nat.mod_one, Nat.sub_zero]

/-- a backward run in byte mode -/
structure BwdByte (e : Env) : Prop where
  notWide : e.fl.wide = false
  back : e.fl.backwards = true
  startIn : e.start ≤ e.buf.size

theorem cs_one_b {e : Env} (h : BwdByte e) : e.cs = 1 := by simp [Env.cs, h.notWide]

theorem maxBytes_bwd {e : Env} (h : BwdByte e) : e.maxBytes = min e.start 1024 := by
  unfold Env.maxBytes Env.bwdSize
  simp only [h.back, if_true, cs_one_b h, Nat.mod_one, Nat.sub_zero]

theorem inp_bwd {e : Env} (h : BwdByte e) {bm : Nat} (hlt : bm < e.maxBytes) : e.inp bm = ((e.start - 1 - bm : Nat) : Int) := by
  have := maxBytes_bwd h
  unfold Env.inp
  simp only [h.back, if_true, cs_one_b h]
  omega

/-- the specification's one-character test holds at the byte the fiber reads, inside the scan window: the instruction accepts -/
theorem consume_of_charOk {e : Env} (hcs : e.cs = 1) {bm P : Nat} (hinp : e.inp bm = (P : Int)) {f : Fiber} {t : UInt8 → Bool}
    (hlt : bm < e.maxBytes) (hc : charOk (specFlags e.fl) e.buf t P = true)
    (htest : consumeTest e.code e.fl f.ip e.buf 1 (P : Int) = t (byteAt e.buf (P : Int))) :
    consumeOk e bm f = true := by
  unfold consumeOk
  rw [hcs, hinp, htest]
  rw [charOk_narrow rfl] at hc
  simp only [Bool.and_eq_true, decide_eq_true_eq] at hc
  have : decide (bm ≥ e.maxBytes) = false := by simp; omega
  simp [this, hc.2]

theorem test_lit {e : Env} {ip : Nat} {b : UInt8} (hop : u8 e.code ip = OP_LITERAL) (harg : u8 e.code (ip + 1) = b.toNat) (p : Int) :
    consumeTest e.code e.fl ip e.buf 1 p = testLit (specFlags e.fl) b (byteAt e.buf p) := by
  unfold consumeTest testLit specFlags
  simp only [hop, harg, OP_LITERAL, OP_ANY, OP_REPEAT_ANY_GREEDY, OP_REPEAT_ANY_UNGREEDY]
  simp only [Nat.reduceEqDiff, or_self, if_false, if_true]
  split
  · rw [UInt8.ofNat_toNat]
  · rw [toNat_beq]

theorem test_notLit {e : Env} {ip : Nat} {b : UInt8} (hop : u8 e.code ip = OP_NOT_LITERAL) (harg : u8 e.code (ip + 1) = b.toNat) (p : Int) :
    consumeTest e.code e.fl ip e.buf 1 p = (fun c => c != b) (byteAt e.buf p) := by
  unfold consumeTest
  simp only [hop, harg, OP_NOT_LITERAL, OP_LITERAL, OP_ANY, OP_REPEAT_ANY_GREEDY, OP_REPEAT_ANY_UNGREEDY]
  simp only [Nat.reduceEqDiff, or_self, if_false, if_true]
  rw [Bool.eq_iff_iff]; simp [UInt8.toNat_inj]

theorem test_masked {e : Env} {ip : Nat} {v m : UInt8} (hop : u8 e.code ip = OP_MASKED_LITERAL) (h1 : u8 e.code (ip + 1) = v.toNat)
    (h2 : u8 e.code (ip + 2) = m.toNat) (p : Int) : consumeTest e.code e.fl ip e.buf 1 p = testMasked v m (byteAt e.buf p) := by
  unfold consumeTest testMasked
  simp only [hop, h1, h2, OP_MASKED_LITERAL, OP_NOT_LITERAL, OP_LITERAL, OP_ANY, OP_REPEAT_ANY_GREEDY, OP_REPEAT_ANY_UNGREEDY]
  simp only [Nat.reduceEqDiff, or_self, if_false, if_true]
  rw [toNat_and_beq]

theorem test_maskedNot {e : Env} {ip : Nat} {v m : UInt8} (hop : u8 e.code ip = OP_MASKED_NOT_LITERAL) (h1 : u8 e.code (ip + 1) = v.toNat)
    (h2 : u8 e.code (ip + 2) = m.toNat) (p : Int) :
    consumeTest e.code e.fl ip e.buf 1 p = (fun c => !testMasked v m c) (byteAt e.buf p) := by
  unfold consumeTest testMasked
  simp only [hop, h1, h2, OP_MASKED_NOT_LITERAL, OP_MASKED_LITERAL, OP_NOT_LITERAL, OP_LITERAL, OP_ANY, OP_REPEAT_ANY_GREEDY,
    OP_REPEAT_ANY_UNGREEDY]
  simp only [Nat.reduceEqDiff, or_self, if_false, if_true]
  rw [← toNat_and_beq]; rfl

theorem test_anyop {e : Env} {ip : Nat} (hop : u8 e.code ip = OP_ANY ∨ u8 e.code ip = OP_REPEAT_ANY_GREEDY ∨ u8 e.code ip = OP_REPEAT_ANY_UNGREEDY)
    (p : Int) : consumeTest e.code e.fl ip e.buf 1 p = testAny (specFlags e.fl) (byteAt e.buf p) := by
  unfold consumeTest testAny specFlags
  simp only [hop, if_true]


/-! ### `sync` on the instructions of hex code -/
theorem sync_plain_inv {code : Code} {f : Fiber} (h1 : ¬ isCtl (u8 code f.ip))
    (h2 : ¬ (u8 code f.ip = OP_REPEAT_ANY_GREEDY ∨ u8 code f.ip = OP_REPEAT_ANY_UNGREEDY)) {F : Nat} {ex : List Nat} {l : List Fiber}
    {a : Bool} {ex' : List Nat} (h : sync code F ex f = some (l, a, ex')) : l = [f] ∧ ex' = ex := by
  unfold isCtl at h1
  cases F with
  | zero => simp [sync] at h
  | succ F =>
    unfold sync at h
    simp only at h
    rw [if_neg (fun hh => h1 (by rcases hh with hh | hh <;> simp [hh])),
      if_neg (fun hh => h1 (by rcases hh with hh | hh <;> simp [hh])),
      if_neg (fun hh => h1 (by rcases hh with hh | hh <;> simp [hh])), if_neg h2,
      if_neg (fun hh => h1 (by simp [hh]))] at h
    simp only [Option.some.injEq, Prod.mk.injEq] at h
    exact ⟨h.1.symm, h.2.2.symm⟩

/-- the states of the fiber standing on a REPEAT_ANY instruction at `a`: `k` bytes consumed so far -/
def spinF (a k : Nat) : Fiber := { ip := a, rc := if k = 0 then -1 else (k : Int) }

theorem sync_spin_inv {code : Code} {a lo hi : Nat} (hop : u8 code a = OP_REPEAT_ANY_GREEDY ∨ u8 code a = OP_REPEAT_ANY_UNGREEDY)
    (hlo : u16 code (a + 1) = lo) (hhi : u16 code (a + 3) = hi) (k : Nat) {F : Nat} {ex : List Nat} {l : List Fiber}
    {b : Bool} {ex' : List Nat} (h : sync code F ex (spinF a k) = some (l, b, ex')) :
    (k < hi → spinF a (k + 1) ∈ l ∧ ex' = ex) ∧
    (lo ≤ k → ∃ F' ex0 l' b' ex1, (ex0 = [] ∨ ex0 = ex) ∧ sync code F' ex0 { ip := a + 5 } = some (l', b', ex1) ∧ ∀ g ∈ l', g ∈ l) := by
  have hne : ∀ n : Nat, ¬ ((n : Int) = -1) := fun n => by omega
  obtain ⟨f, hf⟩ : ∃ f, f = spinF a k := ⟨_, rfl⟩
  rw [← hf] at h
  have hip : f.ip = a := by rw [hf]; rfl
  have hrc0 : (if f.rc = -1 then (0 : Int) else f.rc) = (k : Int) := by
    rw [hf]; unfold spinF
    by_cases hk : k = 0
    · simp [hk]
    · simp only [if_neg hk, if_neg (hne k)]
  have hspin : ({ ip := a, stack := f.stack, rc := (k : Int) + 1 } : Fiber) = spinF a (k + 1) := by
    rw [hf]; unfold spinF; simp
  have hcont : ({ ip := a + 5, stack := f.stack, rc := -1 } : Fiber) = { ip := a + 5 } := by
    rw [hf]; rfl
  cases F with
  | zero => simp [sync] at h
  | succ F =>
    unfold sync at h
    simp only at h
    rw [hip] at h
    rw [if_neg (by rcases hop with hh | hh <;> rw [hh] <;> decide), if_neg (by rcases hop with hh | hh <;> rw [hh] <;> decide),
      if_neg (by rcases hop with hh | hh <;> rw [hh] <;> decide), if_pos hop, hlo, hhi] at h
    rw [hrc0, hspin, hcont] at h
    by_cases c1 : ((k : Int) < (lo : Int))
    · rw [if_pos c1] at h
      simp only [Option.some.injEq, Prod.mk.injEq] at h
      refine ⟨fun _ => ⟨by rw [← h.1]; simp, h.2.2.symm⟩, fun hh => by omega⟩
    · rw [if_neg c1] at h
      by_cases c2 : ((k : Int) < (hi : Int))
      · rw [if_pos c2] at h
        split at h
        · simp at h
        · rename_i l' b' ex1 hs
          refine ⟨fun _ => ?_, fun _ => ⟨F, [], l', b', ex1, .inl rfl, hs, fun g hg => ?_⟩⟩
          · split at h <;> simp only [Option.some.injEq, Prod.mk.injEq] at h <;> refine ⟨?_, h.2.2.symm⟩ <;> rw [← h.1] <;> simp
          · split at h <;> simp only [Option.some.injEq, Prod.mk.injEq] at h <;> rw [← h.1] <;> simp [hg]
      · rw [if_neg c2] at h
        exact ⟨fun hh => by omega, fun _ => ⟨F, ex, l, b, ex', .inr rfl, h, fun g hg => hg⟩⟩

theorem sync_split_inv {code : Code} {a : Nat} (hop : u8 code a = OP_SPLIT_A) {F : Nat} {ex : List Nat} {l : List Fiber}
    {b : Bool} {ex' : List Nat} (h : sync code F ex { ip := a } = some (l, b, ex')) :
    (ex.contains (u8 code (a + 1)) = true → ex' = ex) ∧
    (ex.contains (u8 code (a + 1)) = false → ∃ F' l1 b1 ex2 l2 b2,
      sync code F' (u8 code (a + 1) :: ex) { ip := a + 4 } = some (l1, b1, ex2) ∧
      sync code F' ex2 { ip := addOff a (i16 code (a + 2)) } = some (l2, b2, ex') ∧ l = l1 ++ l2) := by
  cases F with
  | zero => simp [sync] at h
  | succ F =>
    unfold sync at h
    simp only at h
    rw [if_pos (.inl hop)] at h
    by_cases hc : ex.contains (u8 code (a + 1)) = true
    · rw [if_pos hc] at h
      simp only [Option.some.injEq, Prod.mk.injEq] at h
      exact ⟨fun _ => h.2.2.symm, fun hh => by rw [hh] at hc; cases hc⟩
    · rw [if_neg hc] at h
      refine ⟨fun hh => absurd hh hc, fun _ => ?_⟩
      simp only [hop, if_true] at h
      split at h
      · cases h
      · rename_i l1 b1 ex2 h1
        split at h
        · cases h
        · rename_i l2 b2 ex3 h2
          simp only [Option.some.injEq, Prod.mk.injEq] at h
          obtain ⟨rfl, _, rfl⟩ := h
          exact ⟨F, l1, b1, ex2, l2, b2, h1, h2, rfl⟩

theorem sync_jump_inv {code : Code} {a : Nat} (hop : u8 code a = OP_JUMP) {F : Nat} {ex : List Nat} {R : List Fiber × Bool × List Nat}
    (h : sync code F ex { ip := a } = some R) : ∃ F', sync code F' ex { ip := addOff a (i16 code (a + 1)) } = some R := by
  cases F with
  | zero => simp [sync] at h
  | succ F =>
    unfold sync at h
    simp only at h
    rw [if_neg (by rw [hop]; decide), if_neg (by rw [hop]; decide), if_neg (by rw [hop]; decide), if_neg (by rw [hop]; decide),
      if_pos hop] at h
    exact ⟨F, h⟩

/-! ### the first branch of an alternative only executes its own splits -/
theorem sync_fresh {code : Code} {r : Re} (hr : Hd r) : ∀ {a b s F : Nat} {ex : List Nat} {l : List Fiber} {b' : Bool} {ex' : List Nat},
    Seg code (lower r) a b → IdOK code r a s → sync code F ex { ip := a } = some (l, b', ex') →
    ∀ i ∈ ex', i ∈ ex ∨ (s ≤ i ∧ i < s + nsp r) := by
  induction hr with
  | byte _ | wild | mask _ _ | notByte _ | notMask _ _ =>
    intro a b s F ex l b' ex' hseg _ hs i hi
    cases hseg with | leaf hc =>
    obtain ⟨f1, f2, _, _⟩ := leaf_facts hc
    rw [(sync_plain_inv (f := { ip := a }) f1 f2 hs).2] at hi
    exact .inl hi
  | jump lo hi g h1 =>
    intro a b s F ex l b' ex' hseg _ hs i hi
    cases hseg with | jump hop hlo hhi _ =>
    have := ((sync_spin_inv hop hlo hhi 0 (F := F) (ex := ex) hs).1 (by omega)).2
    rw [this] at hi
    exact .inl hi
  | @seq x y _ ih =>
    intro a b s F ex l b' ex' hseg hid hs i hi
    cases hseg with | cat s1 s2 =>
    simp only [IdOK] at hid
    rcases ih s1 hid.1 hs i hi with h1 | h1
    · exact .inl h1
    · simp only [nsp]; exact .inr (by omega)
  | @alt x y _ _ ih1 ih2 =>
    intro a b s F ex l b' ex' hseg hid hs i hi
    cases hseg with | alt hop hoff sx hj hoff2 sy =>
    simp only [IdOK] at hid
    obtain ⟨hid0, hidx, hidy⟩ := hid
    have hm := sx.len
    simp only [nsp]
    obtain ⟨c1, c2⟩ := sync_split_inv hop hs
    by_cases hc : ex.contains (u8 code (a + 1)) = true
    · rw [c1 hc] at hi; exact .inl hi
    · obtain ⟨F', l1, b1, ex2, l2, b2, h1, h2, _⟩ := c2 (by simpa using hc)
      rw [hoff] at h2
      rw [hm] at sy h2
      rcases ih2 sy hidy h2 i hi with k | k
      · rcases ih1 sx hidx h1 i k with k' | k'
        · rcases List.mem_cons.1 k' with k'' | k''
          · exact .inr (by omega)
          · exact .inl k''
        · exact .inr (by omega)
      · exact .inr (by omega)

/-! ### accepting paths through the code of a hex pattern -/
section
variable {e : Env}

/-- accepting path from a fiber that still has to be synced, by a sync call whose executed-split set only holds ids
    below `s` -/
def AccE (e : Env) (s n : Nat) (f : Fiber) (bm : Nat) : Prop :=
  ∀ F ex l a ex', (∀ i ∈ ex, i < s) → sync e.code F ex f = some (l, a, ex') → ∃ g, g ∈ l ∧ AccN e n g bm

theorem AccE.mono {s s' n : Nat} {f : Fiber} {bm : Nat} (h : AccE e s' n f bm) (hs : s ≤ s') : AccE e s n f bm :=
  fun F ex l a ex' hex => h F ex l a ex' (fun i hi => Nat.lt_of_lt_of_le (hex i hi) hs)

theorem AccE.top {s n : Nat} {f : Fiber} {bm : Nat} (h : AccE e s n f bm) : AccU e n f bm :=
  fun F l a ex' => h F [] l a ex' (fun i hi => by cases hi)

/-- what a way of reading the input (forwards from the start position / backwards from it) has to provide: `M r q t`,
    "r matches between q and t matched bytes", decomposes along the pattern, and a one-byte match inside the scan window
    makes the instruction accept -/
structure CDir (e : Env) where
  M : Re → Nat → Nat → Prop
  cs1 : e.cs = 1
  leaf : ∀ {r : Re} {a q t : Nat} {f : Fiber}, HexG r → LeafCode e.code r a → f.ip = a → M r q t → t ≤ e.maxBytes →
    t = q + 1 ∧ consumeOk e q f = true
  any : ∀ {q t : Nat} {f : Fiber}, (u8 e.code f.ip = OP_REPEAT_ANY_GREEDY ∨ u8 e.code f.ip = OP_REPEAT_ANY_UNGREEDY) → M .any q t →
    t ≤ e.maxBytes → t = q + 1 ∧ consumeOk e q f = true
  jump : ∀ {lo hi : Nat} {g : Bool} {q t : Nat}, M (.rangeAny lo hi g) q t →
    ∃ k, lo ≤ k ∧ k ≤ hi ∧ t = q + k ∧ ∀ i, i < k → M .any (q + i) (q + i + 1)
  cat : ∀ {x y : Re} {q t : Nat}, M (.cat x y) q t → ∃ u, q ≤ u ∧ u ≤ t ∧ M x q u ∧ M y u t
  alt : ∀ {x y : Re} {q t : Nat}, M (.alt x y) q t → M x q t ∨ M y q t

/-- a single-byte instruction that accepts the byte at q, followed by an accepting path -/
theorem acc_leaf (hcs : e.cs = 1) {a len q n s : Nat} (h1 : ¬ isCtl (u8 e.code a))
    (h2 : ¬ (u8 e.code a = OP_REPEAT_ANY_GREEDY ∨ u8 e.code a = OP_REPEAT_ANY_UNGREEDY)) (hc : isConsuming (u8 e.code a) = true)
    (hlen : sizeOfInstr (u8 e.code a) = len) (hok : consumeOk e q { ip := a } = true) (hK : AccE e s n { ip := a + len } (q + 1)) :
    AccE e s (n + 1) { ip := a } q := by
  intro F ex l b ex' _ hs
  have := (sync_plain_inv (f := { ip := a }) h1 h2 hs).1
  subst this
  refine ⟨_, List.mem_singleton.2 rfl, hc, hok, ?_⟩
  have hadv : advance e.code { ip := a } = { ip := a + len } := by
    unfold advance
    rw [if_neg h2, hlen]
  rw [hadv, hcs]
  exact hK.top

/-- a jump: `j` more bytes are taken by the spinning fiber, then the continuing branch is an accepting path -/
theorem acc_jump (D : CDir e) {a lo hi s : Nat} (hop : u8 e.code a = OP_REPEAT_ANY_GREEDY ∨ u8 e.code a = OP_REPEAT_ANY_UNGREEDY)
    (hlo : u16 e.code (a + 1) = lo) (hhi : u16 e.code (a + 3) = hi) {n t : Nat} (ht : t ≤ e.maxBytes)
    (hK : AccE e s n { ip := a + 5 } t) : ∀ (j k q : Nat), k + j ≤ hi → lo ≤ k + j → t = q + j →
      (∀ i, i < j → D.M .any (q + i) (q + i + 1)) → AccE e s (n + j) (spinF a k) q
  | 0, k, q, h1, h2, hq, _ => by
    have : q = t := by omega
    subst this
    intro F ex l b ex' hex hs
    obtain ⟨F', ex0, l', b', ex1, hex0, hs', hsub⟩ := (sync_spin_inv hop hlo hhi k hs).2 h2
    obtain ⟨g, hg, hacc⟩ := hK F' ex0 l' b' ex1 (by rcases hex0 with h0 | h0 <;> rw [h0] <;> first | exact hex | exact fun i hi => by cases hi) hs'
    exact ⟨g, hsub g hg, hacc⟩
  | j + 1, k, q, h1, h2, hq, hany => by
    intro F ex l b ex' _ hs
    have hmem := ((sync_spin_inv hop hlo hhi k hs).1 (by omega)).1
    have h0 := hany 0 (by omega)
    obtain ⟨_, hok⟩ := D.any (f := spinF a (k + 1)) hop h0 (by omega)
    have ih := acc_jump D hop hlo hhi ht hK j (k + 1) (q + 1) (by omega) (by omega) (by omega)
      (fun i hi => by have := hany (i + 1) (by omega); rwa [show q + (i + 1) = q + 1 + i by omega] at this)
    refine ⟨_, hmem, ?_, hok, ?_⟩
    · show isConsuming (u8 e.code a) = true
      rcases hop with hh | hh <;> rw [hh] <;> decide
    · have hadv : advance e.code (spinF a (k + 1)) = spinF a (k + 1) := by
        unfold advance
        rw [if_pos (show u8 e.code (spinF a (k + 1)).ip = _ ∨ u8 e.code (spinF a (k + 1)).ip = _ from hop)]
      rw [hadv, D.cs1]
      exact ih.top

theorem spinF_zero (a : Nat) : spinF a 0 = { ip := a } := rfl

/-- the path lemma: a match of a hex pattern between q and t matched bytes, followed by an accepting path from the end of
    its code at t, is an accepting path from the beginning of its code at q -/
theorem acc_hex (D : CDir e) {r : Re} (hr : HexG r) : ∀ {a b q t n s : Nat}, Seg e.code (lower r) a b → IdOK e.code r a s →
    D.M r q t → t ≤ e.maxBytes → AccE e (s + nsp r) n { ip := b } t → AccE e s (n + (t - q)) { ip := a } q := by
  have leafCase : ∀ {r : Re}, HexG r → lower r = .leaf r → nsp r = 0 → ∀ {a b q t n s : Nat}, Seg e.code (lower r) a b → IdOK e.code r a s →
      D.M r q t → t ≤ e.maxBytes → AccE e (s + nsp r) n { ip := b } t → AccE e s (n + (t - q)) { ip := a } q := by
    intro r hl hlow hn a b q t n s hseg _ hm ht hK
    rw [hlow] at hseg
    rw [hn] at hK
    cases hseg with | leaf hc =>
    obtain ⟨f1, f2, _, f4⟩ := leaf_facts hc
    obtain ⟨rfl, hok⟩ := D.leaf (f := { ip := a }) hl hc rfl hm ht
    rw [show q + 1 - q = 1 by omega]
    rcases f4 with ⟨g1, g2⟩ | ⟨g1, g2⟩
    · exact acc_leaf D.cs1 f1 f2 g1 g2 hok hK
    · exfalso
      cases hl with
      | byte c => cases hc with | lit hop _ => rw [hop] at g1; exact absurd g1 (by decide)
      | wild => cases hc with | any hop => rw [hop] at g1; exact absurd g1 (by decide)
      | mask v m => cases hc with | masked hop _ _ => rw [hop] at g1; exact absurd g1 (by decide)
      | notByte c => cases hc with | notLit hop _ => rw [hop] at g1; exact absurd g1 (by decide)
      | notMask v m => cases hc with | maskedNot hop _ _ => rw [hop] at g1; exact absurd g1 (by decide)
      | jump _ _ _ _ => cases hc
      | seq _ _ => cases hc
      | alt _ _ _ => cases hc
  induction hr with
  | byte c => exact leafCase (.byte c) rfl rfl
  | wild => exact leafCase .wild rfl rfl
  | mask v m => exact leafCase (.mask v m) rfl rfl
  | notByte c => exact leafCase (.notByte c) rfl rfl
  | notMask v m => exact leafCase (.notMask v m) rfl rfl
  | jump lo hi _ _ =>
    intro a b q t n s hseg _ hm ht hK
    cases hseg with | jump hop hlo hhi _ =>
    obtain ⟨k, k1, k2, hq, hany⟩ := D.jump hm
    have : t - q = k := by omega
    rw [this, ← spinF_zero]
    exact acc_jump D hop hlo hhi ht hK k 0 q (by omega) (by omega) hq hany
  | @seq x y _ _ ih1 ih2 =>
    intro a b q t n s hseg hid hm ht hK
    cases hseg with | cat s1 s2 =>
    simp only [IdOK] at hid
    simp only [nsp] at hK
    obtain ⟨u, b1, b2, m1, m2⟩ := D.cat hm
    have hm := s1.len
    rw [← hm] at hid
    have := ih2 s2 hid.2 m2 ht (by rw [Nat.add_assoc]; exact hK)
    have := ih1 s1 hid.1 m1 (by omega) this
    have e1 : n + (t - u) + (u - q) = n + (t - q) := by omega
    rw [← e1]; exact this
  | @alt x y _ _ hdx ih1 ih2 =>
    intro a b q t n s hseg hid hm ht hK
    cases hseg with | @alt _ _ _ m _ hop hoff sx hj hoff2 sy =>
    simp only [IdOK] at hid
    obtain ⟨hid0, hidx, hidy⟩ := hid
    simp only [nsp] at hK
    have hmlen := sx.len
    rw [← hmlen] at hidy
    intro F ex l b' ex' hex hs
    obtain ⟨_, c2⟩ := sync_split_inv hop hs
    have hnc : ex.contains (u8 e.code (a + 1)) = false := by
      rw [hid0]
      cases hc : ex.contains s with
      | false => rfl
      | true =>
        have := hex s (by simpa using hc)
        omega
    obtain ⟨F', l1, b1, ex2, l2, b2, h1, h2, rfl⟩ := c2 hnc
    rw [hid0] at h1
    rw [hoff] at h2
    rcases D.alt hm with hmx | hmy
    · -- the continuation of the first branch: JUMP to the end
      have hKm : AccE e (s + 1 + nsp x) n { ip := m } t := by
        intro F2 ex2' l' a' ex'' hex2 hs2
        obtain ⟨F3, hs3⟩ := sync_jump_inv hj hs2
        rw [hoff2] at hs3
        exact hK F3 ex2' l' a' ex'' (fun i hi => by have := hex2 i hi; omega) hs3
      obtain ⟨g, hg, hacc⟩ := ih1 sx hidx hmx ht hKm F' (s :: ex) l1 b1 ex2
        (fun i hi => by rcases List.mem_cons.1 hi with rfl | hi'; omega; have := hex i hi'; omega) h1
      exact ⟨g, List.mem_append_left _ hg, hacc⟩
    · have hfr := sync_fresh hdx sx hidx h1
      obtain ⟨g, hg, hacc⟩ := ih2 sy hidy hmy ht (by rw [show s + 1 + nsp x + nsp y = s + (1 + nsp x + nsp y) by omega]; exact hK)
        F' ex2 l2 b2 ex' (fun i hi => by
          rcases hfr i hi with k | k
          · rcases List.mem_cons.1 k with rfl | k'
            · omega
            · have := hex i k'; omega
          · omega) h2
      exact ⟨g, List.mem_append_right _ hg, hacc⟩

/-- the run of the code emitted for `r'` (forward emission of `r'`, then MATCH) reports every `M`-match from 0 -/
theorem complete_of_cdir (D : CDir e) (r' : Re) (hr : HexG r') (hsz : (emit false r' 0).1.length < 32000) (hid : (emit false r' 0).2 ≤ 256)
    (hcode : e.code = ((emit false r' 0).1 ++ [0xAD]).toArray) (hentry : e.entry = 0)
    (hx : e.fl.exhaustive = true) (hsc : e.fl.scan = false) (m : Int) (c : List Nat) (h : exec e = .done m c)
    (L : Nat) (hL : L ≤ e.maxBytes) (hm : D.M r' 0 L) : L ∈ c := by
  have hwf := hr.hexAst.wf
  rw [emit_len hwf] at hsz
  rw [emit_ids hr.hexAst] at hid
  have hsub : Sub e.code 0 ((emit false r' 0).1 ++ [0xAD]) := by rw [hcode]; exact sub_whole _
  obtain ⟨h1, h2⟩ := sub_append hsub
  have hseg : Seg e.code (lower r') 0 (clen (lower r')) := by
    have := seg_of_emit hwf 0 e.code 0 hsz h1
    simpa using this
  have hids : IdOK e.code r' 0 0 := idOK_of_emit hr.hexAst 0 e.code 0 hid h1
  have hmatch : u8 e.code (clen (lower r')) = OP_MATCH := by
    have := h2 0 (by simp)
    rw [emit_len hwf] at this
    simp at this
    rw [this]; rfl
  have hend : AccE e (0 + nsp r') 0 { ip := clen (lower r') } L := by
    intro F ex l a ex' _ hs
    have := (sync_plain_inv (f := { ip := clen (lower r') }) (by rw [show u8 e.code ({ ip := clen (lower r') } : Fiber).ip = OP_MATCH from hmatch]; unfold isCtl; decide)
      (by rw [show u8 e.code ({ ip := clen (lower r') } : Fiber).ip = OP_MATCH from hmatch]; decide) hs).1
    subst this
    exact ⟨_, List.mem_singleton.2 rfl, hmatch⟩
  have hacc : AccU e (0 + (L - 0)) { ip := e.entry } 0 := by rw [hentry]; exact (acc_hex D hr hseg hids hm hL hend).top
  have := exec_complete e hx hsc m c h _ hacc
  rw [D.cs1] at this
  simpa using this
end

/-! ### the two ways of reading the input -/
theorem path_pointwise {fl : Flags} (hw : fl.wide = false) {buf : Bytes} {t : UInt8 → Bool} : ∀ {j p q : Nat}, Path (step fl buf t) j p q →
    q = p + j ∧ ∀ i, i < j → charOk fl buf t (p + i) = true
  | _, _, _, .nil => ⟨rfl, fun i hi => absurd hi (Nat.not_lt_zero _)⟩
  | _, p, _, .cons (k := j) hy hp => by
    obtain ⟨h0, h1⟩ := mem_step.1 hy
    obtain ⟨h2, h3⟩ := path_pointwise hw hp
    have hcs : fl.cs = 1 := by simp [Flags.cs, hw]
    refine ⟨by omega, fun i hi => ?_⟩
    cases i with
    | zero => exact h0
    | succ i =>
      have := h3 i (by omega)
      rw [h1, hcs] at this
      rwa [show p + (i + 1) = p + 1 + i by omega]

/-- one byte-like token at the byte the fiber reads -/
theorem hexleaf_consume {e : Env} (hcs : e.cs = 1) {r : Re} (hl : HexG r) {a : Nat} (hc : LeafCode e.code r a) {f : Fiber} (hip : f.ip = a)
    {bm P Q : Nat} (hm : Re.Matches (specFlags e.fl) e.buf r P Q) :
    Q = P + 1 ∧ (e.inp bm = (P : Int) → bm < e.maxBytes → consumeOk e bm f = true) := by
  have hq := (ends_iff_Matches _ _ _ _ _).2 hm
  subst hip
  cases hl with
  | byte c =>
    cases hc with | lit hop harg =>
    obtain ⟨hch, hq⟩ := mem_step.1 hq
    exact ⟨hq, fun hinp hlt => consume_of_charOk hcs hinp hlt hch (test_lit hop harg _)⟩
  | wild =>
    cases hc with | any hop =>
    obtain ⟨hch, hq⟩ := mem_step.1 hq
    exact ⟨hq, fun hinp hlt => consume_of_charOk hcs hinp hlt hch (test_anyop (.inl hop) _)⟩
  | mask v m =>
    cases hc with | masked hop h1 h2 =>
    obtain ⟨hch, hq⟩ := mem_step.1 hq
    exact ⟨hq, fun hinp hlt => consume_of_charOk hcs hinp hlt hch (test_masked hop h1 h2 _)⟩
  | notByte c =>
    cases hc with | notLit hop harg =>
    obtain ⟨hch, hq⟩ := mem_step.1 hq
    exact ⟨hq, fun hinp hlt => consume_of_charOk hcs hinp hlt hch (test_notLit hop harg _)⟩
  | notMask v m =>
    cases hc with | maskedNot hop h1 h2 =>
    obtain ⟨hch, hq⟩ := mem_step.1 hq
    exact ⟨hq, fun hinp hlt => consume_of_charOk hcs hinp hlt hch (test_maskedNot hop h1 h2 _)⟩
  | jump _ _ _ _ => cases hc
  | seq _ _ => cases hc
  | alt _ _ _ => cases hc

theorem any_consume {e : Env} (hcs : e.cs = 1) {f : Fiber}
    (hop : u8 e.code f.ip = OP_REPEAT_ANY_GREEDY ∨ u8 e.code f.ip = OP_REPEAT_ANY_UNGREEDY)
    {bm P Q : Nat} (hm : Re.Matches (specFlags e.fl) e.buf .any P Q) :
    Q = P + 1 ∧ (e.inp bm = (P : Int) → bm < e.maxBytes → consumeOk e bm f = true) := by
  have hq := (ends_iff_Matches _ _ _ _ _).2 hm
  obtain ⟨hch, hq⟩ := mem_step.1 hq
  exact ⟨hq, fun hinp hlt => consume_of_charOk hcs hinp hlt hch (test_anyop (.inr hop) _)⟩

theorem any_of_charOk {fl : Flags} (hw : fl.cs = 1) {buf : Bytes} {P : Nat} (h : charOk fl buf (testAny fl) P = true) :
    Re.Matches fl buf .any P (P + 1) := by
  have := Re.Matches.any (fl := fl) (buf := buf) h
  rwa [hw] at this

/-- reading forwards from the start position -/
def fwdC (e : Env) (h : FwdByte e) : CDir e where
  M r q t := Re.Matches (specFlags e.fl) e.buf r (e.start + q) (e.start + t)
  cs1 := cs_one h
  leaf := by
    intro r a q t f hl hc hip hm ht
    obtain ⟨h1, h2⟩ := hexleaf_consume (cs_one h) hl hc hip (bm := q) hm
    have : t = q + 1 := by omega
    exact ⟨this, h2 (inp_fwd h q) (by omega)⟩
  any := by
    intro q t f hop hm ht
    obtain ⟨h1, h2⟩ := any_consume (cs_one h) hop (bm := q) hm
    have : t = q + 1 := by omega
    exact ⟨this, h2 (inp_fwd h q) (by omega)⟩
  jump := by
    intro lo hi g q t hm
    obtain ⟨k, k1, k2, hp⟩ := path_of_rangeAny hm lo hi rfl
    obtain ⟨p1, p2⟩ := path_pointwise (fl := specFlags e.fl) rfl hp
    refine ⟨k, k1, k2, by omega, fun i hi => ?_⟩
    have := any_of_charOk (fl := specFlags e.fl) rfl (p2 i hi)
    rw [show e.start + (q + i) = e.start + q + i by omega, show e.start + (q + i + 1) = e.start + q + i + 1 by omega]
    exact this
  cat := by
    intro x y q t hm
    obtain ⟨u, m1, m2⟩ := (cat_iff _ _ _ _).1 hm
    have b1 := Matches.bounds m1
    have b2 := Matches.bounds m2
    obtain ⟨u', rfl⟩ : ∃ u', u = e.start + u' := ⟨u - e.start, by omega⟩
    exact ⟨u', by omega, by omega, m1, m2⟩
  alt := by
    intro x y q t hm
    cases hm with
    | altL h1 => exact .inl h1
    | altR h1 => exact .inr h1

theorem rev_rev (r : Re) : rev (rev r) = r := by
  induction r <;> simp [rev, *]

theorem rev_leaf {code : Code} {r : Re} {a : Nat} (hc : LeafCode code r a) : rev r = r := by
  cases hc <;> rfl

/-- reading backwards from the start position: the code is the forward emission of the mirrored pattern -/
def bwdC (e : Env) (h : BwdByte e) : CDir e where
  M r q t := q ≤ t ∧ t ≤ e.start ∧ Re.Matches (specFlags e.fl) e.buf (rev r) (e.start - t) (e.start - q)
  cs1 := cs_one_b h
  leaf := by
    intro r a q t f hl hc hip hm ht
    obtain ⟨hqt0, hts, hm⟩ := hm
    rw [rev_leaf hc] at hm
    obtain ⟨h1, h2⟩ := hexleaf_consume (cs_one_b h) hl hc hip (bm := q) hm
    have ht' : t = q + 1 := by omega
    refine ⟨ht', h2 ?_ (by omega)⟩
    rw [inp_bwd h (by omega)]
    congr 1; omega
  any := by
    intro q t f hop hm ht
    obtain ⟨hqt0, hts, hm⟩ := hm
    obtain ⟨h1, h2⟩ := any_consume (cs_one_b h) hop (bm := q) hm
    have ht' : t = q + 1 := by omega
    refine ⟨ht', h2 ?_ (by omega)⟩
    rw [inp_bwd h (by omega)]
    congr 1; omega
  jump := by
    intro lo hi g q t hm
    obtain ⟨hqt0, hts, hm⟩ := hm
    have b0 := Matches.bounds hm
    obtain ⟨k, k1, k2, hp⟩ := path_of_rangeAny hm lo hi rfl
    obtain ⟨p1, p2⟩ := path_pointwise (fl := specFlags e.fl) rfl hp
    have hqt : t = q + k := by omega
    refine ⟨k, k1, k2, hqt, fun i hi => ⟨by omega, by omega, ?_⟩⟩
    have := any_of_charOk (fl := specFlags e.fl) rfl (p2 (k - 1 - i) (by omega))
    rw [show e.start - t + (k - 1 - i) = e.start - (q + i + 1) by omega,
      show e.start - (q + i + 1) + 1 = e.start - (q + i) by omega] at this
    exact this
  cat := by
    intro x y q t hm
    obtain ⟨hqt0, hts, hm⟩ := hm
    obtain ⟨u, m1, m2⟩ := (cat_iff _ _ _ _).1 hm
    have b1 := Matches.bounds m1
    have b2 := Matches.bounds m2
    have hs := h.startIn
    refine ⟨e.start - u, by omega, by omega, ⟨by omega, by omega, ?_⟩, ⟨by omega, hts, ?_⟩⟩
    · rw [show e.start - (e.start - u) = u by omega]; exact m2
    · rw [show e.start - (e.start - u) = u by omega]; exact m1
  alt := by
    intro x y q t hm
    obtain ⟨hqt0, hts, hm⟩ := hm
    cases hm with
    | altL h1 => exact .inl ⟨hqt0, hts, h1⟩
    | altR h1 => exact .inr ⟨hqt0, hts, h1⟩

/-- completeness of the VM on the forward code of a hex pattern (byte mode, exhaustive, string verification): if the run
    returns without error, it reports the length of EVERY match of the pattern at the start position that lies within
    the scan window of 1024 bytes -/
theorem vm_complete_fwd (r : Re) (hr : HexG r) (hsz : (emit false r 0).1.length < 32000) (hid : (emit false r 0).2 ≤ 256)
    (buf : Bytes) (start : Nat) (hst : start ≤ buf.size)
    (fl : VmFlags) (hw : fl.wide = false) (hb : fl.backwards = false) (hsc : fl.scan = false) (hx : fl.exhaustive = true)
    (fuel : Nat) (m : Int) (c : List Nat)
    (h : exec { code := (emitCode false r).toArray, entry := 0, buf := buf, start := start, fl := fl, syncFuel := fuel } = .done m c)
    (L : Nat) (hL : L ≤ 1024) (hm : Re.Matches (specFlags fl) buf r start (start + L)) : L ∈ c := by
  obtain ⟨e, he⟩ : ∃ e : Env, e = { code := (emitCode false r).toArray, entry := 0, buf := buf, start := start, fl := fl, syncFuel := fuel } := ⟨_, rfl⟩
  rw [← he] at h
  have hfb : FwdByte e := by subst he; exact ⟨hw, hb, hst⟩
  have hb := Matches.bounds hm
  have hmax : L ≤ e.maxBytes := by rw [maxBytes_fwd hfb]; subst he; show L ≤ min (buf.size - start) 1024; omega
  exact complete_of_cdir (fwdC e hfb) r hr hsz hid (by subst he; rfl) (by subst he; rfl) (by subst he; exact hx) (by subst he; exact hsc)
    m c h L hmax (by subst he; exact hm)

/-- the same for the BACKWARD code (EMIT_BACKWARDS, run with RE_FLAGS_BACKWARDS): every match of the pattern that ENDS at the
    start position and is at most 1024 bytes long has its length reported.  The mirrored pattern has to be of the grammar's
    shape (every first branch of an alternative of `rev r` begins with a byte-like token: the branch of `r` ends with one). -/
theorem vm_complete_bwd (r : Re) (hr : HexG (rev r)) (hsz : (emit true r 0).1.length < 32000) (hid : (emit true r 0).2 ≤ 256)
    (buf : Bytes) (start : Nat) (hst : start ≤ buf.size)
    (fl : VmFlags) (hw : fl.wide = false) (hb : fl.backwards = true) (hsc : fl.scan = false) (hx : fl.exhaustive = true)
    (fuel : Nat) (m : Int) (c : List Nat)
    (h : exec { code := (emitCode true r).toArray, entry := 0, buf := buf, start := start, fl := fl, syncFuel := fuel } = .done m c)
    (L : Nat) (hL : L ≤ 1024) (hLs : L ≤ start) (hm : Re.Matches (specFlags fl) buf r (start - L) start) : L ∈ c := by
  obtain ⟨e, he⟩ : ∃ e : Env, e = { code := (emitCode true r).toArray, entry := 0, buf := buf, start := start, fl := fl, syncFuel := fuel } := ⟨_, rfl⟩
  rw [← he] at h
  have hbb : BwdByte e := by subst he; exact ⟨hw, hb, hst⟩
  have hmax : L ≤ e.maxBytes := by rw [maxBytes_bwd hbb]; subst he; show L ≤ min start 1024; omega
  rw [emit_rev] at hsz hid
  have hcode : e.code = ((emit false (rev r) 0).1 ++ [0xAD]).toArray := by subst he; simp only [emitCode, emit_rev]
  exact complete_of_cdir (bwdC e hbb) (rev r) hr hsz hid hcode (by subst he; rfl) (by subst he; exact hx) (by subst he; exact hsc)
    m c h L hmax ⟨Nat.zero_le _, by subst he; exact hLs, by subst he; rw [rev_rev]; exact hm⟩

end YaraModel.ReEmit
