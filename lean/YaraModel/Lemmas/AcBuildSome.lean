/- Aho-Corasick construction, helper lemmas 15: the table-size assertion cannot fail for automata of bounded size -/
import YaraModel.Lemmas.AcBuildTable
namespace YaraModel.AC.Build
open YaraModel.Text YaraModel.AC

theorem order_length_le (k : Nat → List Nat) : ∀ (fuel : Nat) (q : List Nat), (order k fuel q).length ≤ fuel := by
  intro fuel
  induction fuel with
  | zero => intro q; simp [order]
  | succ f ih =>
    intro q
    cases q with
    | nil => simp [order]
    | cons c q => simp only [order, List.length_cons]; have := ih (q ++ k c); omega

theorem findSlot_ok (P : Pack) (s : Nat) (hz : Sized P) :
    (findSlot P s).2 ≤ P.t.size ∧ (findSlot P s).1.t.size ≤ P.t.size + 257 ∧
    (P.ok = true → (findSlot P s).2 + 257 < 8388608 → (findSlot P s).1.ok = true) := by
  obtain ⟨z1, z2, z3⟩ := hz
  have hsz : P.size = P.used.size := by unfold Pack.size; omega
  have hfo := findOffset_spec P.used ((P.A.st s).children.map fun ch => (P.A.st ch).input) P.cand
  unfold findSlot
  simp only
  rw [hsz]
  generalize findOffset P.used (List.map (fun ch => (P.A.st ch).input) (P.A.st s).children) P.used.size P.cand = r at hfo
  have hok : P.ok = true → r.1 + 257 < 8388608 → (P.ok && decide (r.1 + 257 < 0x800000)) = true := by
    intro h1 h2
    simp only [Bool.and_eq_true, decide_eq_true_eq]
    exact ⟨h1, by omega⟩
  split
  · exact ⟨by simp only; omega, by simp, hok⟩
  · exact ⟨by simp only; omega, by simp, hok⟩

theorem packStep_ok (P : Pack) (s : Nat) (hz : Sized P) (hok : P.ok = true) (hb : P.t.size + 257 < 8388608) :
    Sized (packStep P s) ∧ (packStep P s).ok = true ∧ (packStep P s).t.size ≤ P.t.size + 257 := by
  obtain ⟨f1, f2, f3⟩ := findSlot_ok P s hz
  obtain ⟨_, g2, _⟩ := findSlot_spec P s hz
  unfold packStep
  simp only
  generalize hfsl : findSlot P s = r at f1 f2 f3 g2
  obtain ⟨P1, slot⟩ := r
  simp only at f1 f2 f3 g2 ⊢
  generalize ((P1.A.modify s fun x => { x with slot := slot }).st s).children = l
  generalize hP2 : ({ P1 with
      t := (P1.t.setIfInBounds (P1.A.st s).slot (P1.t.getD (P1.A.st s).slot 0 ||| (UInt32.ofNat slot <<< 9))).setIfInBounds slot
             (mkTransition (P1.A.st (P1.A.st s).failure).slot 0),
      m := P1.m.setIfInBounds slot (UInt32.ofNat (P1.A.st s).matchesRef),
      A := P1.A.modify s fun x => { x with slot := slot },
      used := P1.used.setIfInBounds slot true } : Pack) = P2
  obtain ⟨q1, q2, q3, q4, _⟩ := placeFold_spec slot l P2
  have ht : P2.t.size = P1.t.size := by rw [← hP2]; simp
  have hm : P2.m.size = P1.m.size := by rw [← hP2]; simp
  have hu : P2.used.size = P1.used.size := by rw [← hP2]; simp
  have hk : P2.ok = P1.ok := by rw [← hP2]
  refine ⟨⟨by rw [q1, q3, hm, ht]; exact g2.1, by rw [q4, q3, hu, ht]; exact g2.2.1, by rw [q3, ht]; exact g2.2.2⟩, ?_, ?_⟩
  · rw [q2, hk]; exact f3 hok (by omega)
  · rw [q3, ht]; exact f2

theorem foldl_packStep_ok : ∀ (l : List Nat) (P : Pack), Sized P → P.ok = true → P.t.size + 257 * l.length < 8388608 →
    (l.foldl packStep P).ok = true := by
  intro l
  induction l with
  | nil => intro P _ h _; exact h
  | cons a l ih =>
    intro P hz hok hb
    rw [List.length_cons, Nat.mul_add, Nat.mul_one] at hb
    have hb1 : P.t.size + 257 < 8388608 :=
      Nat.lt_of_le_of_lt (Nat.add_le_add_left (Nat.le_add_left 257 (257 * l.length)) _) hb
    obtain ⟨h1, h2, h3⟩ := packStep_ok P a hz hok hb1
    refine ih _ h1 h2 (Nat.lt_of_le_of_lt ?_ hb)
    have : (packStep P a).t.size + 257 * l.length ≤ P.t.size + 257 + 257 * l.length := Nat.add_le_add_right h3 _
    rw [Nat.add_assoc, Nat.add_comm 257] at this
    exact this

theorem initRoot_ok (A : Auto) : Sized (initRoot A) ∧ (initRoot A).ok = true ∧ (initRoot A).t.size = 512 := by
  unfold initRoot
  simp only
  obtain ⟨q1, q2, q3, q4, _⟩ := placeFold_spec 0 (A.st 0).children
    ({ A := A, t := Array.replicate 512 0, m := (Array.replicate 512 0).setIfInBounds 0 (UInt32.ofNat (A.st 0).matchesRef), used := (Array.replicate 512 false).setIfInBounds 0 true, cand := 1, ok := true } : Pack)
  refine ⟨⟨by rw [q1, q3]; simp, by rw [q4, q3]; simp, by rw [q3]; simp⟩, by rw [q2], by rw [q3]; simp⟩

theorem buildTransitionTable_ok (A : Auto) (hb : 512 + 257 * A.states.size < 8388608) : (buildTransitionTable A).ok = true := by
  unfold buildTransitionTable
  simp only
  rw [bfs_eq_foldl (fun (P : Pack) s => kids P.A s) packStep (fun P s t => noslot_children (packStep_noslot P s t))]
  obtain ⟨h1, h2, h3⟩ := initRoot_ok A
  apply foldl_packStep_ok _ _ h1 h2
  have := order_length_le (fun s => kids (initRoot A).A s) A.states.size (A.st 0).children
  rw [h3]
  have h4 : 257 * (order (fun s => kids (initRoot A).A s) A.states.size (A.st 0).children).length ≤ 257 * A.states.size :=
    Nat.mul_le_mul_left _ this
  omega

theorem createFailureLinks_same (A : Auto) : Same A (createFailureLinks A) := by
  unfold createFailureLinks
  simp only
  have h1 : Same A (A.modify 0 fun x => { x with failure := 0 }) :=
    same_modify A 0 (fun x => { x with failure := 0 }) (fun _ => ⟨rfl, rfl, rfl, rfl⟩)
  have h2 := (setfail_fold ((A.modify 0 fun x => { x with failure := 0 }).st 0).children (A.modify 0 fun x => { x with failure := 0 })).2.1
  apply bfs_invariant kids linkStep (fun B => Same A B)
  · intro B s hB; exact hB.trans (linkStep_same B s)
  · exact h1.trans h2

theorem optimizeFailureLinks_same (A : Auto) : Same A (optimizeFailureLinks A) := by
  unfold optimizeFailureLinks
  apply bfs_invariant kids optStep (fun B => Same A B)
  · intro B s hB
    refine hB.trans ?_
    unfold optStep
    simp only
    split
    · exact same_modify B s _ (fun _ => ⟨rfl, rfl, rfl, rfl⟩)
    · exact Same.refl B
  · exact Same.refl A

theorem walk_size (bytes : Bytes) : ∀ (A : Auto) (s : Nat), (walk A s bytes).1.states.size ≤ A.states.size + bytes.length := by
  induction bytes with
  | nil => intro A s; simp [walk]
  | cons c rest ih =>
    intro A s
    unfold walk
    cases nextState A s c with
    | some n => simp only; have := ih A n; simp only [List.length_cons]; omega
    | none =>
      simp only
      have := ih (createState A s c).1 (createState A s c).2
      rw [createState_size] at this
      simp only [List.length_cons]; omega

theorem addAtom_size (A : Auto) (a : Nat × Atom) : (addAtom A a).states.size ≤ A.states.size + a.2.bytes.length := by
  unfold addAtom
  simp only [size_modify]
  exact walk_size a.2.bytes A 0

theorem addAtoms_size (atoms : List (Nat × Atom)) :
    (addAtoms atoms).states.size ≤ 1 + (atoms.map fun a => a.2.bytes.length).sum := by
  unfold addAtoms
  have : ∀ (l : List (Nat × Atom)) (A : Auto), (l.foldl addAtom A).states.size ≤ A.states.size + (l.map fun a => a.2.bytes.length).sum := by
    intro l
    induction l with
    | nil => intro A; simp
    | cons a l ih =>
      intro A
      have h1 := ih (addAtom A a)
      have h2 := addAtom_size A a
      simp only [List.foldl_cons, List.map_cons, List.sum_cons]
      omega
  have := this atoms empty
  simpa [empty] using this

/-- the number of states bounds everything: the assertion of `_yr_ac_find_suitable_transition_table_slot` holds -/
theorem compile_ok (atoms : List (Nat × Atom)) (hb : 512 + 257 * (addAtoms atoms).states.size < 8388608) :
    (compile (addAtoms atoms)).ok = true := by
  unfold compile
  apply buildTransitionTable_ok
  rw [(optimizeFailureLinks_same _).1, (createFailureLinks_same _).1]
  exact hb

end YaraModel.AC.Build
