/- The size field of the LAST buffer-table entry overwritten: what the loader does with the shifted stream. -/
import YaraModel.Lemmas.ArenaCorrupt
namespace YaraModel.Arena
open YaraModel.Gen.ArenaLayout

/-! ### bodies phase on a list of intact bodies followed by further sizes -/

theorem readBodies_append (alloc : Nat → Nat) (ds : List Bytes) (hs : ∀ d ∈ ds, d.length ≤ 2 ^ 31) (more : List Nat) (tail : Bytes) :
    ∀ i : Nat, readBodies alloc i (ds.map (·.length) ++ more) (ds.flatten ++ tail) =
      match readBodies alloc (i + ds.length) more tail with
      | .error e => .error e
      | .ok (bs, s') => .ok (loadedBufs alloc i ds ++ bs, s') := by
  induction ds with
  | nil =>
    intro i
    simp only [List.map_nil, List.nil_append, List.flatten_nil, List.length_nil, Nat.add_zero, loadedBufs]
    cases readBodies alloc i more tail with
    | error e => rfl
    | ok p => rfl
  | cons d t ih =>
    intro i
    have hst : ∀ d ∈ t, d.length ≤ 2 ^ 31 := fun x hx => hs x (List.mem_cons_of_mem _ hx)
    have hidx : i + (d :: t).length = i + 1 + t.length := by simp only [List.length_cons]; omega
    rw [hidx]
    simp only [List.map_cons, List.cons_append, readBodies, loadedBufs]
    by_cases hz : d.length = 0
    · have hd : d = [] := List.eq_nil_of_length_eq_zero hz
      subst hd
      simp only [List.length_nil, if_true, List.flatten_cons, List.nil_append]
      rw [ih hst]
      cases readBodies alloc (i + 1 + t.length) more tail with
      | error e => rfl
      | ok p => rfl
    · rw [if_neg hz, if_neg (newCap_load_ok (hs d (List.mem_cons_self ..))), if_neg hz]
      simp only [List.flatten_cons, List.append_assoc]
      have hlen : ¬ (d ++ (t.flatten ++ tail)).length < d.length := by rw [List.length_append]; omega
      rw [if_neg hlen, drop_append_len rfl, take_append_len rfl, ih hst]
      cases readBodies alloc (i + 1 + t.length) more tail with
      | error e => rfl
      | ok p => rfl

theorem readBodies_one (alloc : Nat → Nat) (i z : Nat) (tail : Bytes) :
    readBodies alloc i [z] tail =
      if z = 0 then .ok ([{}], tail)
      else if newCap loadInitialSize 0 0 z > 2 ^ maxBufferSizeLog2 then .error .insufficientMemory
      else if tail.length < z then .error .corruptFile
      else .ok ([{ data := tail.take z, cap := newCap loadInitialSize 0 0 z, base := alloc i, dirty := true }], tail.drop z) := by
  simp only [readBodies]
  split
  · rfl
  · split
    · rfl
    · split
      · rfl
      · rfl

/-! ### the relocation loop of the fully checked loader: it ends with success on a whole number of entries, or with CORRUPT_FILE -/

theorem bytes8_cases (s : Bytes) :
    s.length < 8 ∨ ∃ b0 b1 b2 b3 b4 b5 b6 b7 rest, s = b0 :: b1 :: b2 :: b3 :: b4 :: b5 :: b6 :: b7 :: rest := by
  match s with
  | [] => left; simp
  | [_] => left; simp
  | [_, _] => left; simp
  | [_, _, _] => left; simp
  | [_, _, _, _] => left; simp
  | [_, _, _, _, _] => left; simp
  | [_, _, _, _, _, _] => left; simp
  | [_, _, _, _, _, _, _] => left; simp
  | b0 :: b1 :: b2 :: b3 :: b4 :: b5 :: b6 :: b7 :: rest => right; exact ⟨_, _, _, _, _, _, _, _, _, rfl⟩

theorem applyRelocs_short (cfg : LoaderCfg) (A : Arena) (s : Bytes) (h : s.length < 8) :
    applyRelocs cfg A s = if s = [] then .ok A else if cfg.rejectsPartial then .error .corruptFile else .ok A := by
  match s, h with
  | [], _ => rfl
  | [_], _ => rfl
  | [_, _], _ => rfl
  | [_, _, _], _ => rfl
  | [_, _, _, _], _ => rfl
  | [_, _, _, _, _], _ => rfl
  | [_, _, _, _, _, _], _ => rfl
  | [_, _, _, _, _, _, _], _ => rfl
  | _ :: _ :: _ :: _ :: _ :: _ :: _ :: _ :: _, h => simp at h; omega

theorem inB_of_not_rejected {cfg : LoaderCfg} (hg : cfg.relocGuarded = true) {A : Arena} {r : Ref}
    (h : relocRejected cfg A r = false) : InB A r := by
  unfold relocRejected at h
  simp only [hg, if_true, Bool.or_eq_false_iff, decide_eq_false_iff_not] at h
  unfold InB
  omega

theorem refToPtr_ok_of_not_refused {cfg : LoaderCfg} (hs : cfg.refStrict = true) {A : Arena} {x : Option Ref}
    (h : refRefused cfg A x = false) : ∃ p, refToPtr A.bufs x = .ok p := by
  cases x with
  | none => exact ⟨0, rfl⟩
  | some t =>
    simp only [refRefused, hs, if_true, Bool.or_eq_false_iff, decide_eq_false_iff_not] at h
    exact ⟨_, refToPtr_some (by omega) (by have := h.2; unfold Arena.bufAt at this; omega)⟩

theorem applyRelocs_cases (cfg : LoaderCfg) (hh : Hardened cfg) : ∀ (k : Nat) (s : Bytes), s.length ≤ k → ∀ A : Arena,
    (∃ A', applyRelocs cfg A s = .ok A' ∧ s.length % 8 = 0) ∨ applyRelocs cfg A s = .error .corruptFile := by
  intro k
  induction k with
  | zero =>
    intro s hk A
    have : s = [] := List.eq_nil_of_length_eq_zero (by omega)
    subst this
    exact Or.inl ⟨A, rfl, rfl⟩
  | succ k ih =>
    intro s hk A
    rcases bytes8_cases s with hlt | ⟨b0, b1, b2, b3, b4, b5, b6, b7, rest, rfl⟩
    · rw [applyRelocs_short cfg A s hlt]
      by_cases he : s = []
      · subst he; exact Or.inl ⟨A, rfl, rfl⟩
      · rw [if_neg he, hh.part, if_pos rfl]; exact Or.inr rfl
    · rw [applyRelocs]
      cases hd : decRef (leVal [b0, b1, b2, b3, b4, b5, b6, b7]) with
      | none => exact Or.inr rfl
      | some r =>
        simp only
        by_cases hrej : relocRejected cfg A r = true
        · rw [if_pos hrej]; exact Or.inr rfl
        · have hrej' : relocRejected cfg A r = false := by simpa using hrej
          rw [if_neg hrej, if_neg (by simp [inB_of_not_rejected hh.guarded hrej'])]
          by_cases href : (cfg.validatesRefs && refRefused cfg A (decRef (getSlot A r))) = true
          · rw [if_pos href]; exact Or.inr rfl
          · rw [if_neg href]
            have : refRefused cfg A (decRef (getSlot A r)) = false := by
              rw [hh.refs] at href; simpa using href
            obtain ⟨p, hp⟩ := refToPtr_ok_of_not_refused hh.strict this
            rw [hp]
            simp only
            have hlen : rest.length ≤ k := by simp only [List.length_cons] at hk; omega
            rcases ih rest hlen { setSlot A r p with relocs := A.relocs ++ [r] } with ⟨A', h1, h2⟩ | h1
            · exact Or.inl ⟨A', h1, by simp only [List.length_cons]; omega⟩
            · exact Or.inr h1

/-! ### acceptance: an image assembled from any bodies and any list of good relocation entries loads -/

/-- the loader's own allocation of a buffer of `len` bytes succeeds (capacity 10485·2^k ≥ len stays within 4 GB) -/
def CapOk (len : Nat) : Prop := ¬ newCap loadInitialSize 0 0 len > 2 ^ maxBufferSizeLog2

instance (len : Nat) : Decidable (CapOk len) := by unfold CapOk; exact inferInstance

theorem capOk_of_le {len : Nat} (h : len ≤ 2 ^ 31) : CapOk len := newCap_load_ok h

theorem capOk_lt {len : Nat} (h : CapOk len) : len ≤ 2 ^ 32 := by
  unfold CapOk at h
  have := newCap_ge (init := loadInitialSize) (cap := 0) (used := 0) (size := len) (by decide)
  simp only [maxBufferSizeLog2] at h
  omega

theorem readBodies_full' (alloc : Nat → Nat) (ds : List Bytes) (hs : ∀ d ∈ ds, CapOk d.length) (tail : Bytes) (i : Nat) :
    readBodies alloc i (ds.map (·.length)) (ds.flatten ++ tail) = .ok (loadedBufs alloc i ds, tail) := by
  induction ds generalizing i with
  | nil => simp [readBodies, loadedBufs]
  | cons d t ih =>
    have hst : ∀ d ∈ t, CapOk d.length := fun x hx => hs x (List.mem_cons_of_mem _ hx)
    simp only [List.map_cons, readBodies, loadedBufs]
    by_cases hz : d.length = 0
    · have hd : d = [] := List.eq_nil_of_length_eq_zero hz
      subst hd
      simp only [List.length_nil, if_true, List.flatten_cons, List.nil_append]
      rw [ih hst]; rfl
    · rw [if_neg hz, if_neg (hs d (List.mem_cons_self ..)), if_neg hz]
      simp only [List.flatten_cons, List.append_assoc]
      have hlen : ¬ (d ++ (t.flatten ++ tail)).length < d.length := by rw [List.length_append]; omega
      rw [if_neg hlen, drop_append_len rfl, take_append_len rfl, ih hst]; rfl

/-- a reference as found in a slot of the bodies `ds`: null, or to a byte inside one of them -/
def GoodD (ds : List Bytes) (x : Option Ref) : Prop :=
  x = none ∨ ∃ t, x = some t ∧ t.buf < ds.length ∧ t.off < (ds.getD t.buf []).length

theorem relocBytes_append (l1 l2 : List Ref) : relocBytes (l1 ++ l2) = relocBytes l1 ++ relocBytes l2 := by
  simp [relocBytes]

theorem load_image_ok (cfg : LoaderCfg) (alloc : Nat → Nat) (hnz : ∀ i, alloc i ≠ 0) (ds : List Bytes) (hn : ds.length ≤ maxBuffers)
    (hs : ∀ d ∈ ds, d.length < 2 ^ 32 ∧ CapOk d.length) (rs : List Ref) (hpw : rs.Pairwise NoOverlap)
    (hin : ∀ r ∈ rs, r.buf < ds.length ∧ r.off + 8 ≤ (ds.getD r.buf []).length)
    (hgood : ∀ r ∈ rs, ∃ x, rd64 (ds.getD r.buf []) r.off = encRef x ∧ GoodD ds x) :
    ∃ A, load cfg alloc (header ds.length ++ (table (headerSize + tableEntrySize * ds.length) (ds.map (·.length)) ++
        (ds.flatten ++ relocBytes rs))) = .ok A ∧ A.relocs = rs := by
  let A0 : Arena := { bufs := loadedBufs alloc 0 ds, relocs := [], init := loadInitialSize }
  have hA0len : A0.bufs.length = ds.length := loadedBufs_length alloc 0 ds
  have hA0data : ∀ j, (A0.bufAt j).data = ds.getD j [] := fun j => loadedBufs_getD_data alloc 0 ds j
  have hn16 : ds.length ≤ 16 := hn
  have hlen31 : ∀ j, (ds.getD j []).length < 2 ^ 32 := by
    intro j
    by_cases hj : j < ds.length
    · have : ds.getD j [] ∈ ds := by
        rw [List.getD_eq_getElem?_getD, List.getElem?_eq_getElem hj]; exact List.getElem_mem hj
      exact (hs _ this).1
    · have : ds.getD j [] = [] := by
        rw [List.getD_eq_getElem?_getD, List.getElem?_eq_none (by omega)]; rfl
      rw [this]; simp
  have hA0base : ∀ j, j < ds.length → (ds.getD j []).length ≠ 0 → (A0.bufAt j).base ≠ 0 := by
    intro j hj hne
    show ((loadedBufs alloc 0 ds).getD j {}).base ≠ 0
    rw [loadedBufs_getD _ _ _ _ hj, if_neg hne]
    exact hnz _
  have hslots : SlotsOk A0 rs :=
    ⟨hpw, fun r hr => ⟨by rw [hA0data]; exact (hin r hr).2, by rw [hA0len]; exact (hin r hr).1⟩⟩
  have hv : ∀ r ∈ rs, ∃ x, getSlot A0 r = encRef x ∧ GoodRef A0.bufs x := by
    intro r hr
    obtain ⟨x, hx, hg⟩ := hgood r hr
    refine ⟨x, by unfold getSlot; rw [hA0data]; exact hx, ?_⟩
    rcases hg with rfl | ⟨t, rfl, hb, ho⟩
    · exact Or.inl rfl
    · refine Or.inr ⟨t, rfl, by rw [hA0len]; exact hb, by omega, ?_, ?_⟩
      · show t.off < (A0.bufAt t.buf).data.length
        rw [hA0data]; exact ho
      · have := hlen31 t.buf; omega
  -- the phases of the loader
  have hes : (entries (headerSize + tableEntrySize * ds.length) (ds.map (·.length))).length = ds.length := by
    rw [entries_length, List.length_map]
  have hsizes : (entries (headerSize + tableEntrySize * ds.length) (ds.map (·.length))).map (·.2 % 2 ^ 32) = ds.map (·.length) := by
    rw [entries_sizes, List.map_map]
    apply List.map_congr_left
    intro d hd
    show d.length % 2 ^ 32 = d.length
    exact Nat.mod_eq_of_lt (hs d hd).1
  rw [table_eq_raw, load_raw' cfg alloc _ _ hes hn, entriesOk_entries, hsizes,
    readBodies_full' alloc ds (fun d hd => (hs d hd).2) (relocBytes rs) 0]
  simp only [Bool.not_true, Bool.and_false, Bool.false_eq_true, if_false]
  have := applyRelocs_ok cfg rs A0 [] hslots
    (fun r hr => by
      have ⟨h1, h2⟩ := hin r hr
      have := hlen31 r.buf
      constructor <;> omega)
    (fun r hr => by
      have ⟨h1, h2⟩ := hin r hr
      exact hA0base r.buf h1 (by omega))
    (fun r hr => by
      rw [hA0data]
      have := hlen31 r.buf; omega)
    hv rfl
  rw [List.append_nil] at this
  exact ⟨_, this, List.nil_append rs⟩

/-! ### the size of the last entry overwritten -/

theorem length_relocBytes (l : List Ref) : (relocBytes l).length = 8 * l.length := by
  induction l with
  | nil => rfl
  | cons r t ih =>
    have : relocBytes (r :: t) = refBytes r ++ relocBytes t := by simp [relocBytes]
    rw [this, List.length_append, ih, List.length_cons]
    have : (refBytes r).length = 8 := length_leBytes 8 _
    omega

/-- the image whose last table entry carries the size `z` instead of `dlast.length`: header, table and the earlier
    bodies are read as before; the last body is `z` bytes of whatever follows, the rest goes to the relocation loop -/
theorem load_patch_size_last (cfg : LoaderCfg) (alloc : Nat → Nat) (dpre : List Bytes) (dlast : Bytes)
    (hn : dpre.length + 1 ≤ maxBuffers) (hs : ∀ d ∈ dpre, d.length ≤ 2 ^ 31) (tail : Bytes) (z : Nat) (hz : z < 2 ^ 32) :
    load cfg alloc (patch (header (dpre.length + 1) ++
        (table (headerSize + tableEntrySize * (dpre.length + 1)) (dpre.map (·.length) ++ [dlast.length]) ++
          (dpre.flatten ++ (dlast ++ tail)))) (sizeFieldAt dpre.length) (leBytes 4 z)) =
      match readBodies alloc dpre.length [z] (dlast ++ tail) with
      | .error e => .error e
      | .ok (bs, s3) => applyRelocs cfg { bufs := loadedBufs alloc 0 dpre ++ bs, relocs := [], init := loadInitialSize } s3 := by
  obtain ⟨o, hod⟩ : ∃ o, o = headerSize + tableEntrySize * (dpre.length + 1) := ⟨_, rfl⟩
  rw [← hod]
  have hp := patch_size_field (dpre.length + 1) o (dpre.map (·.length)) dlast.length [] (dpre.flatten ++ (dlast ++ tail)) z
  rw [List.length_map] at hp
  rw [hp]
  simp only [entries]
  have hlen : (entries o (dpre.map (·.length)) ++ [(o + ((dpre.map (·.length)).map (· % 2 ^ 32)).sum, z)]).length = dpre.length + 1 := by
    simp [entries_length]
  rw [load_raw' cfg alloc _ _ hlen hn, ← hod]
  have hok : entriesOk o (entries o (dpre.map (·.length)) ++ [(o + ((dpre.map (·.length)).map (· % 2 ^ 32)).sum, z)]) = true := by
    rw [entriesOk_append, entriesOk_entries, sum_entries_sizes]
    simp [entriesOk]
  have hsizes : (entries o (dpre.map (·.length)) ++ [(o + ((dpre.map (·.length)).map (· % 2 ^ 32)).sum, z)]).map (·.2 % 2 ^ 32)
      = dpre.map (·.length) ++ [z] := by
    rw [List.map_append, entries_sizes, List.map_map]
    congr 1
    · apply List.map_congr_left
      intro d hd
      have := hs d hd
      show d.length % 2 ^ 32 = d.length
      exact Nat.mod_eq_of_lt (by omega)
    · simp [Nat.mod_eq_of_lt hz]
  rw [hok, hsizes, readBodies_append alloc dpre hs [z] (dlast ++ tail) 0, Nat.zero_add]
  simp only [Bool.not_true, Bool.and_false, Bool.false_eq_true, if_false]
  cases readBodies alloc dpre.length [z] (dlast ++ tail) with
  | error e => rfl
  | ok p => rfl

/-- every body of `ds'` extends the corresponding body of `ds` -/
def Extends (ds ds' : List Bytes) : Prop := ds'.length = ds.length ∧ ∀ j, ∃ e, ds'.getD j [] = ds.getD j [] ++ e

theorem extends_snoc (dpre : List Bytes) (dlast extra : Bytes) : Extends (dpre ++ [dlast]) (dpre ++ [dlast ++ extra]) := by
  refine ⟨by simp, fun j => ?_⟩
  simp only [List.getD_eq_getElem?_getD, List.getElem?_append]
  split
  · exact ⟨[], by simp⟩
  · by_cases h : j - dpre.length = 0
    · rw [h]; exact ⟨extra, by simp⟩
    · refine ⟨[], ?_⟩
      have : ∀ (x : Bytes), [x][j - dpre.length]? = none := by intro x; simp; omega
      rw [this, this]; simp

theorem GoodD.extends {ds ds' : List Bytes} (h : Extends ds ds') {x : Option Ref} (g : GoodD ds x) : GoodD ds' x := by
  rcases g with rfl | ⟨t, rfl, hb, ho⟩
  · exact Or.inl rfl
  · obtain ⟨e, he⟩ := h.2 t.buf
    exact Or.inr ⟨t, rfl, by rw [h.1]; exact hb, by rw [he, List.length_append]; omega⟩

/-- **the last size raised by 8·j, j ≤ number of relocation entries: accepted** — the last buffer swallows the first j
    entries, the others are applied -/
theorem load_patch_size_raised_ok (cfg : LoaderCfg) (alloc : Nat → Nat) (hnz : ∀ i, alloc i ≠ 0) (dpre : List Bytes) (dlast : Bytes)
    (hn : dpre.length + 1 ≤ maxBuffers) (hs : ∀ d ∈ dpre, d.length ≤ 2 ^ 31) (R : List Ref) (j : Nat) (hj : j ≤ R.length)
    (hz : dlast.length + 8 * j < 2 ^ 32 ∧ CapOk (dlast.length + 8 * j)) (hpw : R.Pairwise NoOverlap)
    (hin : ∀ r ∈ R, r.buf < (dpre ++ [dlast]).length ∧ r.off + 8 ≤ ((dpre ++ [dlast]).getD r.buf []).length)
    (hgood : ∀ r ∈ R, ∃ x, rd64 ((dpre ++ [dlast]).getD r.buf []) r.off = encRef x ∧ GoodD (dpre ++ [dlast]) x) :
    ∃ A, load cfg alloc (patch (header (dpre.length + 1) ++
        (table (headerSize + tableEntrySize * (dpre.length + 1)) (dpre.map (·.length) ++ [dlast.length]) ++
          (dpre.flatten ++ (dlast ++ relocBytes R)))) (sizeFieldAt dpre.length) (leBytes 4 (dlast.length + 8 * j))) = .ok A
      ∧ A.relocs = R.drop j := by
  obtain ⟨o, hod⟩ : ∃ o, o = headerSize + tableEntrySize * (dpre.length + 1) := ⟨_, rfl⟩
  rw [← hod]
  have hp := patch_size_field (dpre.length + 1) o (dpre.map (·.length)) dlast.length [] (dpre.flatten ++ (dlast ++ relocBytes R))
    (dlast.length + 8 * j)
  rw [List.length_map] at hp
  rw [hp]
  -- the same bytes, read as the image of the extended bodies with the remaining entries
  have hext := extends_snoc dpre dlast (relocBytes (R.take j))
  have hlenx : (relocBytes (R.take j)).length = 8 * j := by rw [length_relocBytes, List.length_take]; omega
  have himg : header (dpre.length + 1) ++ (rawTable (entries o (dpre.map (·.length)) ++
        (o + ((dpre.map (·.length)).map (· % 2 ^ 32)).sum, dlast.length + 8 * j) ::
          entries (o + ((dpre.map (·.length)).map (· % 2 ^ 32)).sum + dlast.length % 2 ^ 32) []) ++
        (dpre.flatten ++ (dlast ++ relocBytes R))) =
      header (dpre ++ [dlast ++ relocBytes (R.take j)]).length ++
        (table (headerSize + tableEntrySize * (dpre ++ [dlast ++ relocBytes (R.take j)]).length)
          ((dpre ++ [dlast ++ relocBytes (R.take j)]).map (·.length)) ++
          ((dpre ++ [dlast ++ relocBytes (R.take j)]).flatten ++ relocBytes (R.drop j))) := by
    have hl : (dpre ++ [dlast ++ relocBytes (R.take j)]).length = dpre.length + 1 := by simp
    rw [hl, ← hod, table_eq_raw]
    congr 2
    · simp only [List.map_append, List.map_cons, List.map_nil, entries_append, entries, List.length_append, hlenx]
    · conv => lhs; rw [← List.take_append_drop j R, relocBytes_append]
      simp [List.append_assoc]
  rw [himg]
  apply load_image_ok cfg alloc hnz _ (by simp; exact hn)
  · intro d hd
    rcases List.mem_append.1 hd with h | h
    · have := hs d h
      exact ⟨by omega, capOk_of_le this⟩
    · rw [List.mem_singleton] at h
      rw [h, List.length_append, hlenx]; exact hz
  · exact List.Pairwise.sublist (List.drop_sublist j R) hpw
  · intro r hr
    have hr' := List.mem_of_mem_drop hr
    obtain ⟨h1, h2⟩ := hin r hr'
    obtain ⟨e, he⟩ := hext.2 r.buf
    exact ⟨by rw [hext.1]; exact h1, by rw [he, List.length_append]; omega⟩
  · intro r hr
    have hr' := List.mem_of_mem_drop hr
    obtain ⟨x, hx, hg⟩ := hgood r hr'
    obtain ⟨e, he⟩ := hext.2 r.buf
    exact ⟨x, by rw [he, rd64_append e (hin r hr').2]; exact hx, hg.extends hext⟩

/-- **the last size raised otherwise: refused** -/
theorem load_patch_size_raised_bad (cfg : LoaderCfg) (hh : Hardened cfg) (alloc : Nat → Nat) (dpre : List Bytes) (dlast : Bytes)
    (hn : dpre.length + 1 ≤ maxBuffers) (hs : ∀ d ∈ dpre, d.length ≤ 2 ^ 31) (R : List Ref) (z : Nat) (hz : z < 2 ^ 32)
    (hgt : dlast.length < z) (hbad : ¬ ((z - dlast.length) % 8 = 0 ∧ z - dlast.length ≤ 8 * R.length ∧
      CapOk z)) :
    load cfg alloc (patch (header (dpre.length + 1) ++
        (table (headerSize + tableEntrySize * (dpre.length + 1)) (dpre.map (·.length) ++ [dlast.length]) ++
          (dpre.flatten ++ (dlast ++ relocBytes R)))) (sizeFieldAt dpre.length) (leBytes 4 z)) =
      .error (if newCap loadInitialSize 0 0 z > 2 ^ maxBufferSizeLog2 then .insufficientMemory else .corruptFile) := by
  rw [load_patch_size_last cfg alloc dpre dlast hn hs (relocBytes R) z hz, readBodies_one, if_neg (by omega)]
  by_cases hcap : newCap loadInitialSize 0 0 z > 2 ^ maxBufferSizeLog2
  · rw [if_pos hcap, if_pos hcap]
  · rw [if_neg hcap, if_neg hcap]
    have hl : (dlast ++ relocBytes R).length = dlast.length + 8 * R.length := by rw [List.length_append, length_relocBytes]
    by_cases hshort : (dlast ++ relocBytes R).length < z
    · rw [if_pos hshort]
    · rw [if_neg hshort]
      simp only
      have key : ∀ A : Arena, applyRelocs cfg A ((dlast ++ relocBytes R).drop z) = .error .corruptFile := by
        intro A
        rcases applyRelocs_cases cfg hh _ ((dlast ++ relocBytes R).drop z) (Nat.le_refl _) A with ⟨A', _, h2⟩ | h1
        · exfalso
          rw [List.length_drop, hl] at h2
          apply hbad
          exact ⟨by omega, by omega, hcap⟩
        · exact h1
      exact key _

theorem loadedBufs_append (alloc : Nat → Nat) (l1 l2 : List Bytes) : ∀ i : Nat,
    loadedBufs alloc i (l1 ++ l2) = loadedBufs alloc i l1 ++ loadedBufs alloc (i + l1.length) l2 := by
  induction l1 with
  | nil => intro i; simp [loadedBufs]
  | cons d t ih =>
    intro i
    simp only [List.cons_append, loadedBufs, ih, List.length_cons]
    rw [show i + 1 + t.length = i + (t.length + 1) from by omega]

/-- **the last size lowered to `z`**: the last buffer keeps its first `z` bytes; its other bytes are taken for relocation
    entries, ahead of the real ones -/
theorem load_patch_size_lowered (cfg : LoaderCfg) (alloc : Nat → Nat) (dpre : List Bytes) (dlast : Bytes)
    (hn : dpre.length + 1 ≤ maxBuffers) (hs : ∀ d ∈ dpre, d.length ≤ 2 ^ 31) (hd : dlast.length ≤ 2 ^ 31) (tail : Bytes) (z : Nat)
    (hlt : z < dlast.length) :
    load cfg alloc (patch (header (dpre.length + 1) ++
        (table (headerSize + tableEntrySize * (dpre.length + 1)) (dpre.map (·.length) ++ [dlast.length]) ++
          (dpre.flatten ++ (dlast ++ tail)))) (sizeFieldAt dpre.length) (leBytes 4 z)) =
      applyRelocs cfg { bufs := loadedBufs alloc 0 (dpre ++ [dlast.take z]), relocs := [], init := loadInitialSize }
        (dlast.drop z ++ tail) := by
  rw [load_patch_size_last cfg alloc dpre dlast hn hs tail z (by omega), readBodies_one, loadedBufs_append, Nat.zero_add]
  have hlz : (dlast.take z).length = z := by rw [List.length_take]; omega
  by_cases hz : z = 0
  · subst hz
    simp [loadedBufs]
  · rw [if_neg hz, if_neg (newCap_load_ok (by omega)), if_neg (by rw [List.length_append]; omega)]
    simp only [loadedBufs, hlz, if_neg hz]
    rw [List.take_append_of_le_length (by omega), List.drop_append_of_le_length (by omega)]

/-- … and is refused unless a whole number of entries is cut off -/
theorem load_patch_size_lowered_dvd (cfg : LoaderCfg) (hh : Hardened cfg) (alloc : Nat → Nat) (dpre : List Bytes) (dlast : Bytes)
    (hn : dpre.length + 1 ≤ maxBuffers) (hs : ∀ d ∈ dpre, d.length ≤ 2 ^ 31) (hd : dlast.length ≤ 2 ^ 31) (R : List Ref) (z : Nat)
    (hlt : z < dlast.length) :
    (∃ A', load cfg alloc (patch (header (dpre.length + 1) ++
        (table (headerSize + tableEntrySize * (dpre.length + 1)) (dpre.map (·.length) ++ [dlast.length]) ++
          (dpre.flatten ++ (dlast ++ relocBytes R)))) (sizeFieldAt dpre.length) (leBytes 4 z)) = .ok A' ∧ (dlast.length - z) % 8 = 0) ∨
    load cfg alloc (patch (header (dpre.length + 1) ++
        (table (headerSize + tableEntrySize * (dpre.length + 1)) (dpre.map (·.length) ++ [dlast.length]) ++
          (dpre.flatten ++ (dlast ++ relocBytes R)))) (sizeFieldAt dpre.length) (leBytes 4 z)) = .error .corruptFile := by
  rw [load_patch_size_lowered cfg alloc dpre dlast hn hs hd (relocBytes R) z hlt]
  rcases applyRelocs_cases cfg hh _ (dlast.drop z ++ relocBytes R) (Nat.le_refl _)
    { bufs := loadedBufs alloc 0 (dpre ++ [dlast.take z]), relocs := [], init := loadInitialSize } with ⟨A', h1, h2⟩ | h1
  · left
    refine ⟨A', h1, ?_⟩
    rw [List.length_append, List.length_drop, length_relocBytes] at h2
    omega
  · exact Or.inr h1

end YaraModel.Arena
