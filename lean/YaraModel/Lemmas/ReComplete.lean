/-
  VM completeness, executable side: in EXHAUSTIVE mode the model of `yr_re_exec` (Model/ReVm.lean `exec`: the fiber list,
  its de-duplication, `_yr_re_fiber_sync`, the per-position pass) reports the length of every accepting path of stopped
  fibers — provided the run ends without an error (`exec e = .done ..`: no fiber explosion, no fuel error).
    `AccN e n f bm` : from the stopped fiber `f` after `bm` matched bytes there is a path of `n` consuming steps to
                      RE_OPCODE_MATCH, through fibers every later top-level `_yr_re_fiber_sync` call (empty executed-split set) is bound to produce
    `exec_complete` : such a path from the entry makes the callback report its length
-/
import YaraModel.Lemmas.ReVm
namespace YaraModel.ReVm

/-- accepting path of `n` consuming steps from a stopped fiber -/
def AccN (e : Env) : Nat → Fiber → Nat → Prop
  | 0, f, _ => u8 e.code f.ip = OP_MATCH
  | n + 1, f, bm => isConsuming (u8 e.code f.ip) = true ∧ consumeOk e bm f = true ∧
      ∀ F l a ex', sync e.code F [] (advance e.code f) = some (l, a, ex') → ∃ g, g ∈ l ∧ AccN e n g (bm + e.cs)

/-- the same from a fiber that still has to be synced (by a top-level `_yr_re_fiber_sync` call: no split executed yet) -/
def AccU (e : Env) (n : Nat) (f : Fiber) (bm : Nat) : Prop :=
  ∀ F l a ex', sync e.code F [] f = some (l, a, ex') → ∃ g, g ∈ l ∧ AccN e n g bm

theorem dedup_mem {f : Fiber} : ∀ (fs acc : List Fiber), (f ∈ fs ∨ f ∈ acc) → f ∈ dedup fs acc
  | [], acc, h => by
    rcases h with h | h
    · cases h
    · simp [dedup, h]
  | x :: t, acc, h => by
    unfold dedup
    split
    · rename_i hc
      apply dedup_mem t acc
      rcases h with h | h
      · rcases List.mem_cons.1 h with rfl | h'
        · exact .inr (by simpa using hc)
        · exact .inl h'
      · exact .inr h
    · apply dedup_mem t (x :: acc)
      rcases h with h | h
      · rcases List.mem_cons.1 h with rfl | h'
        · exact .inr (by simp)
        · exact .inl h'
      · exact .inr (List.mem_cons_of_mem _ h)

theorem match_not_consuming : isConsuming OP_MATCH = false := by decide

/-- one pass over the fibers of a position (exhaustive mode): nothing recorded is lost, every fiber at MATCH reports the
    position, every accepted consuming fiber's successors are kept -/
theorem pass_complete (e : Env) (bm : Nat) (hx : e.fl.exhaustive = true) : ∀ (fuel : Nat) (fs : List Fiber) (st st' : PassSt),
    pass e bm fuel fs st = some st' →
    (∀ x ∈ st.calls, x ∈ st'.calls) ∧ (∀ g ∈ st.kept, g ∈ st'.kept) ∧
    ∀ f ∈ fs, (u8 e.code f.ip = OP_MATCH → bm ∈ st'.calls) ∧
      (isConsuming (u8 e.code f.ip) = true → consumeOk e bm f = true →
        ∃ l a ex', sync e.code e.syncFuel [] (advance e.code f) = some (l, a, ex') ∧ ∀ g ∈ l, g ∈ st'.kept)
  | 0, _, _, _, h => by simp [pass] at h
  | fuel + 1, [], st, st', h => by
    simp only [pass] at h
    cases h
    exact ⟨fun x hx => hx, fun g hg => hg, fun f hf => by cases hf⟩
  | fuel + 1, f :: rest, st, st', h => by
    unfold pass at h
    simp only at h
    by_cases hc : isConsuming (u8 e.code f.ip) = true
    · rw [if_pos hc] at h
      by_cases hok : consumeOk e bm f = true
      · rw [if_pos hok] at h
        split at h
        · cases h
        · rename_i l a ex' hs
          obtain ⟨r1, r2, r3⟩ := pass_complete e bm hx fuel rest _ st' h
          refine ⟨r1, fun g hg => r2 g (List.mem_append_left _ hg), ?_⟩
          intro f' hf'
          rcases List.mem_cons.1 hf' with rfl | hin
          · refine ⟨fun hm => ?_, fun _ _ => ⟨l, a, ex', hs, fun g hg => r2 g (List.mem_append_right _ hg)⟩⟩
            rw [hm, match_not_consuming] at hc; cases hc
          · exact r3 f' hin
      · rw [if_neg hok] at h
        obtain ⟨r1, r2, r3⟩ := pass_complete e bm hx fuel rest st st' h
        refine ⟨r1, r2, ?_⟩
        intro f' hf'
        rcases List.mem_cons.1 hf' with rfl | hin
        · refine ⟨fun hm => ?_, fun _ h2 => absurd h2 hok⟩
          rw [hm, match_not_consuming] at hc; cases hc
        · exact r3 f' hin
    · rw [if_neg hc] at h
      by_cases hm : u8 e.code f.ip = OP_MATCH
      · rw [if_pos hm] at h
        simp only [hx, if_true] at h
        obtain ⟨r1, r2, r3⟩ := pass_complete e bm hx fuel rest _ st' h
        refine ⟨fun x hx' => r1 x (List.mem_append_left _ hx'), r2, ?_⟩
        intro f' hf'
        rcases List.mem_cons.1 hf' with rfl | hin
        · exact ⟨fun _ => r1 bm (by simp), fun h1 => absurd h1 hc⟩
        · exact r3 f' hin
      · rw [if_neg hm] at h
        by_cases hz : zeroWidthOk e bm (u8 e.code f.ip) = true
        · rw [if_pos hz] at h
          split at h
          · cases h
          · rename_i l a ex' hs
            obtain ⟨r1, r2, r3⟩ := pass_complete e bm hx fuel (l ++ rest) st st' h
            refine ⟨r1, r2, ?_⟩
            intro f' hf'
            rcases List.mem_cons.1 hf' with rfl | hin
            · exact ⟨fun h1 => absurd h1 hm, fun h1 => absurd h1 hc⟩
            · exact r3 f' (List.mem_append_right _ hin)
        · rw [if_neg hz] at h
          obtain ⟨r1, r2, r3⟩ := pass_complete e bm hx fuel rest st st' h
          refine ⟨r1, r2, ?_⟩
          intro f' hf'
          rcases List.mem_cons.1 hf' with rfl | hin
          · exact ⟨fun h1 => absurd h1 hm, fun h1 => absurd h1 hc⟩
          · exact r3 f' hin

/-- the outer loop (exhaustive, not scan mode): every accepting path from a fiber of the list is reported -/
theorem loop_complete (e : Env) (hx : e.fl.exhaustive = true) (hs : e.fl.scan = false) : ∀ (fuel : Nat) (fibers : List Fiber) (bm : Nat)
    (mval : Int) (calls : List Nat) (m : Int) (c : List Nat), loop e fuel fibers bm mval calls = .done m c →
    (∀ x ∈ calls, x ∈ c) ∧ ∀ n f, f ∈ fibers → AccN e n f bm → (bm + n * e.cs) ∈ c
  | 0, _, _, _, _, _, _, h => by simp [loop] at h
  | fuel + 1, fibers, bm, mval, calls, m, c, h => by
    unfold loop at h
    split at h
    · rename_i hemp
      simp only [Outcome.done.injEq] at h
      obtain ⟨rfl, rfl⟩ := h
      refine ⟨fun x hx' => hx', ?_⟩
      intro n f hf
      rw [List.isEmpty_iff] at hemp
      rw [hemp] at hf; cases hf
    · split at h
      · cases h
      · split at h
        · cases h
        · rename_i st hp
          simp only [hs, Bool.false_and, Bool.false_eq_true, if_false] at h
          obtain ⟨p1, p2, p3⟩ := pass_complete e bm hx 4000 _ _ st hp
          obtain ⟨i1, i2⟩ := loop_complete e hx hs fuel st.kept (bm + e.cs) st.mval st.calls m c h
          refine ⟨fun x hx' => i1 x (p1 x hx'), ?_⟩
          intro n f hf hacc
          have hfd : f ∈ dedup fibers [] := dedup_mem fibers [] (.inl hf)
          obtain ⟨q1, q2⟩ := p3 f hfd
          cases n with
          | zero =>
            simp only [AccN] at hacc
            simpa using i1 bm (q1 hacc)
          | succ k =>
            simp only [AccN] at hacc
            obtain ⟨a1, a2, a3⟩ := hacc
            obtain ⟨l, a, ex', hsy, hkept⟩ := q2 a1 a2
            obtain ⟨g, hg, hgacc⟩ := a3 _ _ _ _ hsy
            have := i2 k g (hkept g hg) hgacc
            have e1 : bm + e.cs + k * e.cs = bm + (k + 1) * e.cs := by rw [Nat.add_mul]; omega
            rw [e1] at this; exact this

/-- **exec is complete for accepting paths** (exhaustive mode, no error): a path of `n` consuming steps from the entry to
    RE_OPCODE_MATCH makes the callback report the length `n * cs`. -/
theorem exec_complete (e : Env) (hx : e.fl.exhaustive = true) (hs : e.fl.scan = false) (m : Int) (c : List Nat)
    (h : exec e = .done m c) (n : Nat) (hacc : AccU e n { ip := e.entry } 0) : n * e.cs ∈ c := by
  unfold exec at h
  split at h
  · cases h
  · rename_i l a ex hsy
    obtain ⟨g, hg, hga⟩ := hacc _ _ _ _ hsy
    have := (loop_complete e hx hs _ l 0 (-1) [] m c h).2 n g hg hga
    simpa using this

end YaraModel.ReVm
