/- Byte-level facts for the client operations of the arena model that write into allocated memory
   (memcpy of arbitrary bytes, the 8 bytes of a freshly written pointer). -/
import YaraModel.Lemmas.ArenaBytes
namespace YaraModel.Arena

theorem length_wrBytes (d : Bytes) (off : Nat) (bs : Bytes) : (wrBytes d off bs).length = d.length := by
  unfold wrBytes; split <;> simp

theorem getElem?_wrBytes (d : Bytes) (off : Nat) (bs : Bytes) (i : Nat) :
    (wrBytes d off bs)[i]? =
      if off + bs.length ≤ d.length ∧ off ≤ i ∧ i < off + bs.length then bs[i - off]? else d[i]? := by
  unfold wrBytes
  by_cases h : off + bs.length ≤ d.length
  · simp only [h, if_true, true_and]
    rw [List.getElem?_mapIdx]
    by_cases hi : i < d.length
    · simp only [List.getElem?_eq_getElem hi, Option.map_some]
      split
      · rename_i hc
        have : i - off < bs.length := by omega
        simp [List.getD_eq_getElem?_getD, List.getElem?_eq_getElem this]
      · rfl
    · have : d[i]? = none := by simp; omega
      have hn : ¬ (off ≤ i ∧ i < off + bs.length) := by omega
      simp [this, hn]
  · simp [h]

theorem rd64_wrBytes_other {d : Bytes} {off : Nat} {bs : Bytes} {o : Nat} (h : o + 8 ≤ off ∨ off + bs.length ≤ o) :
    rd64 (wrBytes d off bs) o = rd64 d o := by
  rw [rd64_eq, rd64_eq]
  congr 1
  apply win_congr
  intro i hi
  rw [getElem?_wrBytes, if_neg (by omega)]

theorem wr64_wrBytes_comm (d : Bytes) {off : Nat} {bs : Bytes} {o : Nat} (v : Nat) (h : o + 8 ≤ off ∨ off + bs.length ≤ o) :
    wr64 (wrBytes d off bs) o v = wrBytes (wr64 d o v) off bs := by
  apply List.ext_getElem?
  intro i
  simp only [getElem?_wr64, getElem?_wrBytes, length_wr64, length_wrBytes]
  by_cases h1 : o + 8 ≤ d.length ∧ o ≤ i ∧ i < o + 8 <;>
    by_cases h2 : off + bs.length ≤ d.length ∧ off ≤ i ∧ i < off + bs.length <;> simp [h1, h2]
  omega

/-- overwriting a pointer that was just appended: as if the other value had been appended -/
theorem wr64_append_slot (d : Bytes) (p v : Nat) : wr64 (d ++ leBytes 8 p) d.length v = d ++ leBytes 8 v := by
  apply List.ext_getElem?
  intro i
  rw [getElem?_wr64]
  have hl : (d ++ leBytes 8 p).length = d.length + 8 := by simp [length_leBytes]
  by_cases hi : i < d.length
  · rw [if_neg (by omega), List.getElem?_append_left hi, List.getElem?_append_left hi]
  · rw [List.getElem?_append_right (by omega), List.getElem?_append_right (by omega), getElem?_leBytes, getElem?_leBytes]
    by_cases h8 : i - d.length < 8
    · rw [if_pos ⟨by omega, by omega, by omega⟩, if_pos h8]
    · rw [if_neg (by omega), if_neg h8, if_neg h8]

theorem rd64_append_slot (d : Bytes) (p : Nat) : rd64 (d ++ leBytes 8 p) d.length = p % 2 ^ 64 := by
  rw [rd64_eq]
  have : win (d ++ leBytes 8 p) d.length = leBytes 8 p := by
    apply List.ext_getElem?
    intro i
    rw [getElem?_win, getElem?_leBytes]
    split
    · rw [List.getElem?_append_right (by omega), getElem?_leBytes]
      have : d.length + i - d.length = i := by omega
      rw [this, if_pos ‹_›]
    · rfl
  rw [this, leVal_leBytes8]

/-- storing an 8-byte value is a memcpy of its little-endian image -/
theorem wr64_eq_wrBytes (d : Bytes) (off v : Nat) : wr64 d off v = wrBytes d off (leBytes 8 v) := by
  apply List.ext_getElem?
  intro i
  rw [getElem?_wr64, getElem?_wrBytes, length_leBytes]
  split
  · rename_i h
    rw [getElem?_leBytes, if_pos (by omega)]
  · rfl

end YaraModel.Arena
