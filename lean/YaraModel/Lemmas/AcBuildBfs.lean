/- Aho-Corasick construction, helper lemmas 3: the queue traversal visits every non-root state exactly once, by depth -/
import YaraModel.Lemmas.AcBuildBase
namespace YaraModel.AC.Build
open YaraModel.Text YaraModel.AC

/-- the order in which the queue loop pops the states (children function `k`) -/
def order (k : Nat → List Nat) : Nat → List Nat → List Nat
  | 0, _ => []
  | _ + 1, [] => []
  | fuel + 1, c :: q => c :: order k fuel (q ++ k c)

/-- a traversal whose body never changes the children lists is a fold over `order` -/
theorem bfs_eq_foldl {σ : Type} (children : σ → Nat → List Nat) (body : σ → Nat → σ)
    (hch : ∀ x s t, children (body x s) t = children x t) :
    ∀ (fuel : Nat) (q : List Nat) (x : σ), bfs children body fuel q x = (order (children x) fuel q).foldl body x := by
  intro fuel
  induction fuel with
  | zero => intro q x; rfl
  | succ f ih =>
    intro q x
    cases q with
    | nil => rfl
    | cons c q =>
      simp only [bfs, order, List.foldl_cons]
      have e : children (body x c) = children x := funext (hch x c)
      rw [ih, e]

/-- any property the body keeps is kept by the traversal -/
theorem bfs_invariant {σ : Type} (children : σ → Nat → List Nat) (body : σ → Nat → σ) (I : σ → Prop)
    (hb : ∀ x s, I x → I (body x s)) : ∀ (fuel : Nat) (q : List Nat) (x : σ), I x → I (bfs children body fuel q x) := by
  intro fuel
  induction fuel with
  | zero => intro q x h; exact h
  | succ f ih =>
    intro q x h
    cases q with
    | nil => exact h
    | cons c q => exact ih _ _ (hb x c h)

def levelsFrom (k : Nat → List Nat) : Nat → List Nat → List Nat
  | 0, _ => []
  | n + 1, q => q ++ levelsFrom k n (q.flatMap k)

def iter (k : Nat → List Nat) : Nat → List Nat → List Nat
  | 0, q => q
  | n + 1, q => iter k n (q.flatMap k)

theorem order_append (k : Nat → List Nat) (q : List Nat) : ∀ (fuel : Nat) (r : List Nat), q.length ≤ fuel →
    order k fuel (q ++ r) = q ++ order k (fuel - q.length) (r ++ q.flatMap k) := by
  induction q with
  | nil => intro fuel r _; simp
  | cons a q ih =>
    intro fuel r h
    cases fuel with
    | zero => simp at h
    | succ f =>
      simp only [List.length_cons] at h
      simp only [List.cons_append, order, List.length_cons, List.flatMap_cons]
      rw [List.append_assoc, ih f (r ++ k a) (by omega)]
      simp [List.append_assoc]

theorem order_nil (k : Nat → List Nat) (fuel : Nat) : order k fuel [] = [] := by
  cases fuel <;> rfl

theorem order_eq_levels (k : Nat → List Nat) : ∀ (n fuel : Nat) (q : List Nat), (levelsFrom k n q).length ≤ fuel →
    iter k n q = [] → order k fuel q = levelsFrom k n q := by
  intro n
  induction n with
  | zero => intro fuel q _ h; simp only [iter] at h; subst h; simp [order_nil, levelsFrom]
  | succ n ih =>
    intro fuel q hl hi
    simp only [levelsFrom, List.length_append] at hl
    have := order_append k q fuel [] (by omega)
    simp only [List.append_nil, List.nil_append] at this
    rw [this, levelsFrom, ih (fuel - q.length) (q.flatMap k) (by omega) hi]

theorem mem_levelsFrom (k : Nat → List Nat) {x : Nat} : ∀ (n : Nat) (q : List Nat),
    x ∈ levelsFrom k n q ↔ ∃ j, j < n ∧ x ∈ iter k j q := by
  intro n
  induction n with
  | zero => intro q; simp [levelsFrom]
  | succ n ih =>
    intro q
    simp only [levelsFrom, List.mem_append, ih]
    constructor
    · rintro (h | ⟨j, hj, h⟩)
      · exact ⟨0, by omega, h⟩
      · exact ⟨j + 1, by omega, h⟩
    · rintro ⟨j, hj, h⟩
      cases j with
      | zero => exact Or.inl h
      | succ j => exact Or.inr ⟨j, by omega, h⟩

theorem iter_succ' (k : Nat → List Nat) : ∀ (n : Nat) (q : List Nat), iter k (n + 1) q = (iter k n q).flatMap k := by
  intro n
  induction n with
  | zero => intro q; rfl
  | succ n ih => intro q; rw [iter, ih]; rfl

/-- a duplicate-free list of numbers below `n` has at most `n` elements -/
theorem nodup_length_le : ∀ (n : Nat) (l : List Nat), l.Nodup → (∀ x ∈ l, x < n) → l.length ≤ n := by
  intro n
  induction n with
  | zero =>
    intro l _ hb
    cases l with
    | nil => simp
    | cons a l => exact absurd (hb a List.mem_cons_self) (Nat.not_lt_zero _)
  | succ n ih =>
    intro l hn hb
    have h1 := List.length_eq_countP_add_countP (fun x => x == n) (l := l)
    have h2 : List.countP (fun x => x == n) l ≤ 1 := by
      rw [← List.count_eq_countP]
      exact List.nodup_iff_count.mp hn n
    have h3 : List.countP (fun a => decide ¬(a == n) = true) l ≤ n := by
      rw [List.countP_eq_length_filter]
      apply ih
      · exact List.Pairwise.filter _ hn
      · intro x hx
        rw [List.mem_filter] at hx
        have := hb x hx.1
        have h4 : x ≠ n := by simpa using hx.2
        omega
    omega

/-! ### the traversal of a trie -/

theorem Trie.depth_child {A : Auto} (hT : Trie A) {s c : Nat} (hs : s < A.states.size) (hc : c ∈ (A.st s).children) :
    (A.st c).depth = (A.st s).depth + 1 := by
  have h1 := hT.child_lt s hs c hc
  rw [hT.depth_eq c h1.2, hT.depth_eq s hs, hT.child_path s hs c hc]
  simp

theorem Trie.depth_le_id {A : Auto} (hT : Trie A) : ∀ (x : Nat), x < A.states.size → (A.st x).depth ≤ x := by
  intro x
  induction x using Nat.strongRecOn with
  | _ x ih =>
    intro hx
    rcases Nat.eq_zero_or_pos x with h | h
    · subst h; rw [hT.depth_eq 0 hx, hT.root_path]; simp
    · obtain ⟨p, hp1, hp2⟩ := hT.has_parent x h hx
      have hlt := hT.child_lt p hp1 x hp2
      have := ih p hlt.1 hp1
      rw [hT.depth_child hp1 hp2]
      omega

theorem Trie.depth_pos {A : Auto} (hT : Trie A) {x : Nat} (hx : x < A.states.size) (h0 : 0 < x) : 0 < (A.st x).depth := by
  obtain ⟨p, hp1, hp2⟩ := hT.has_parent x h0 hx
  rw [hT.depth_child hp1 hp2]; omega

theorem Trie.depth_zero {A : Auto} (hT : Trie A) {x : Nat} (hx : x < A.states.size) (h0 : (A.st x).depth = 0) : x = 0 := by
  rcases Nat.eq_zero_or_pos x with h | h
  · exact h
  · have := hT.depth_pos hx h; omega

theorem Trie.kids_nodup {A : Auto} (hT : Trie A) {s : Nat} (hs : s < A.states.size) : (kids A s).Nodup := by
  refine (hT.inputs_nodup s hs).imp ?_
  intro a b h e
  exact h (by rw [e])

theorem Trie.parent_unique {A : Auto} (hT : Trie A) {p q x : Nat} (hp : p < A.states.size) (hq : q < A.states.size)
    (h1 : x ∈ kids A p) (h2 : x ∈ kids A q) : p = q := by
  have e1 := hT.child_path p hp x h1
  have e2 := hT.child_path q hq x h2
  rw [e1] at e2
  exact hT.path_inj p q hp hq (List.append_inj' e2 rfl).1

/-- all elements are states of depth `d` -/
def AtDepth (A : Auto) (d : Nat) (l : List Nat) : Prop := ∀ x ∈ l, x < A.states.size ∧ (A.st x).depth = d

theorem AtDepth.flatMap {A : Auto} (hT : Trie A) {d : Nat} {l : List Nat} (h : AtDepth A d l) :
    AtDepth A (d + 1) (l.flatMap (kids A)) := by
  intro x hx
  obtain ⟨p, hp, hxp⟩ := List.mem_flatMap.mp hx
  have := h p hp
  exact ⟨(hT.child_lt p this.1 x hxp).2, by rw [hT.depth_child this.1 hxp, this.2]⟩

theorem nodup_flatMap_kids {A : Auto} (hT : Trie A) {d : Nat} {l : List Nat} (h : AtDepth A d l) (hn : l.Nodup) :
    (l.flatMap (kids A)).Nodup := by
  unfold List.Nodup
  rw [List.pairwise_flatMap]
  refine ⟨fun a ha => hT.kids_nodup (h a ha).1, ?_⟩
  refine List.Pairwise.imp_of_mem ?_ hn
  intro a b ha hb hab x hx y hy e
  subst e
  exact hab (hT.parent_unique (h a ha).1 (h b hb).1 hx hy)

theorem iter_atDepth {A : Auto} (hT : Trie A) : ∀ (j d : Nat) (q : List Nat), AtDepth A d q → AtDepth A (d + j) (iter (kids A) j q) := by
  intro j
  induction j with
  | zero => intro d q h; exact h
  | succ j ih =>
    intro d q h
    have := ih (d + 1) _ (h.flatMap hT)
    rw [iter]
    have e : d + (j + 1) = d + 1 + j := by omega
    rw [e]; exact this

theorem iter_nodup {A : Auto} (hT : Trie A) : ∀ (j d : Nat) (q : List Nat), AtDepth A d q → q.Nodup → (iter (kids A) j q).Nodup := by
  intro j
  induction j with
  | zero => intro d q _ hn; exact hn
  | succ j ih =>
    intro d q h hn
    rw [iter]
    exact ih (d + 1) _ (h.flatMap hT) (nodup_flatMap_kids hT h hn)

theorem levels_props {A : Auto} (hT : Trie A) : ∀ (n d : Nat) (q : List Nat), AtDepth A d q → q.Nodup →
    (levelsFrom (kids A) n q).Nodup ∧ (levelsFrom (kids A) n q).Pairwise (fun a b => (A.st a).depth ≤ (A.st b).depth) ∧
    ∀ x ∈ levelsFrom (kids A) n q, x < A.states.size ∧ d ≤ (A.st x).depth := by
  intro n
  induction n with
  | zero => intro d q _ _; simp [levelsFrom]
  | succ n ih =>
    intro d q h hn
    obtain ⟨i1, i2, i3⟩ := ih (d + 1) _ (h.flatMap hT) (nodup_flatMap_kids hT h hn)
    simp only [levelsFrom]
    refine ⟨?_, ?_, ?_⟩
    · rw [List.nodup_append]
      refine ⟨hn, i1, ?_⟩
      intro a ha b hb e
      subst e
      have := (i3 a hb).2
      have := (h a ha).2
      omega
    · rw [List.pairwise_append]
      refine ⟨?_, i2, ?_⟩
      · rw [List.pairwise_iff_forall_sublist]
        intro a b hab
        have ha := h a (hab.subset (by simp))
        have hb := h b (hab.subset (by simp))
        omega
      · intro a ha b hb
        have := (i3 b hb).2
        have := (h a ha).2
        omega
    · intro x hx
      rcases List.mem_append.mp hx with hx | hx
      · exact ⟨(h x hx).1, by rw [(h x hx).2]; exact Nat.le_refl _⟩
      · exact ⟨(i3 x hx).1, by have := (i3 x hx).2; omega⟩

theorem kids0_atDepth {A : Auto} (hT : Trie A) : AtDepth A 1 (kids A 0) := by
  intro x hx
  have h := hT.child_lt 0 hT.size_pos x hx
  refine ⟨h.2, ?_⟩
  rw [hT.depth_child hT.size_pos hx, hT.depth_eq 0 hT.size_pos, hT.root_path]; rfl

theorem mem_iter_of_depth {A : Auto} (hT : Trie A) : ∀ (j x : Nat), x < A.states.size → (A.st x).depth = j + 1 →
    x ∈ iter (kids A) j (kids A 0) := by
  intro j
  induction j with
  | zero =>
    intro x hx hd
    have h0 : 0 < x := by
      rcases Nat.eq_zero_or_pos x with h | h
      · subst h; rw [hT.depth_eq 0 hx, hT.root_path] at hd; simp at hd
      · exact h
    obtain ⟨p, hp1, hp2⟩ := hT.has_parent x h0 hx
    have hdp : (A.st p).depth = 0 := by have := hT.depth_child hp1 hp2; omega
    have := hT.depth_zero hp1 hdp
    subst this
    exact hp2
  | succ j ih =>
    intro x hx hd
    have h0 : 0 < x := by
      rcases Nat.eq_zero_or_pos x with h | h
      · subst h; rw [hT.depth_eq 0 hx, hT.root_path] at hd; simp at hd
      · exact h
    obtain ⟨p, hp1, hp2⟩ := hT.has_parent x h0 hx
    have hdp : (A.st p).depth = j + 1 := by have := hT.depth_child hp1 hp2; omega
    rw [iter_succ']
    exact List.mem_flatMap.mpr ⟨p, ih p hp1 hdp, hp2⟩

/-- the facts about the traversal order used by the three passes -/
structure OrderOK (A : Auto) (ord : List Nat) : Prop where
  nodup : ord.Nodup
  sorted : ord.Pairwise (fun a b => (A.st a).depth ≤ (A.st b).depth)
  range : ∀ x ∈ ord, 0 < x ∧ x < A.states.size
  complete : ∀ x, 0 < x → x < A.states.size → x ∈ ord
  long : ∀ x, x < A.states.size → (A.st x).depth ≤ ord.length

theorem order_ok {A : Auto} (hT : Trie A) : OrderOK A (order (kids A) A.states.size (kids A 0)) := by
  have hk := kids0_atDepth hT
  have hkn : (kids A 0).Nodup := hT.kids_nodup hT.size_pos
  obtain ⟨p1, p2, p3⟩ := levels_props hT A.states.size 1 _ hk hkn
  have hlen : (levelsFrom (kids A) A.states.size (kids A 0)).length ≤ A.states.size :=
    nodup_length_le _ _ p1 (fun x hx => (p3 x hx).1)
  have hempty : iter (kids A) A.states.size (kids A 0) = [] := by
    apply List.eq_nil_iff_forall_not_mem.mpr
    intro x hx
    have := iter_atDepth hT A.states.size 1 _ hk x hx
    have := hT.depth_le_id x this.1
    omega
  rw [order_eq_levels (kids A) A.states.size A.states.size _ hlen hempty]
  have hmem : ∀ x, 0 < x → x < A.states.size → x ∈ levelsFrom (kids A) A.states.size (kids A 0) := by
    intro x h0 hx
    have hd := hT.depth_pos hx h0
    rw [mem_levelsFrom]
    refine ⟨(A.st x).depth - 1, ?_, mem_iter_of_depth hT _ x hx (by omega)⟩
    have := hT.depth_le_id x hx
    omega
  refine ⟨p1, p2, ?_, hmem, ?_⟩
  · intro x hx
    have := p3 x hx
    refine ⟨?_, this.1⟩
    rcases Nat.eq_zero_or_pos x with h | h
    · subst h
      have h2 := this.2
      rw [hT.depth_eq 0 this.1, hT.root_path] at h2
      simp at h2
    · exact h
  · -- every depth up to the depth of `x` contributes one ancestor
    intro x hx
    have key : ∀ (d : Nat) (y : Nat), y < A.states.size → (A.st y).depth = d →
        ∃ l : List Nat, l.length = d ∧ l.Nodup ∧ (∀ z ∈ l, 0 < z ∧ z < A.states.size ∧ (A.st z).depth ≤ d) := by
      intro d
      induction d with
      | zero => intro y _ _; exact ⟨[], rfl, List.nodup_nil, fun z hz => by cases hz⟩
      | succ d ih =>
        intro y hy hd
        have h0 : 0 < y := by
          rcases Nat.eq_zero_or_pos y with h | h
          · subst h; rw [hT.depth_eq 0 hy, hT.root_path] at hd; simp at hd
          · exact h
        obtain ⟨p, hp1, hp2⟩ := hT.has_parent y h0 hy
        have hdp : (A.st p).depth = d := by have := hT.depth_child hp1 hp2; omega
        obtain ⟨l, hl1, hl2, hl3⟩ := ih p hp1 hdp
        refine ⟨y :: l, by simp [hl1], ?_, ?_⟩
        · rw [List.nodup_cons]
          refine ⟨fun hmem => ?_, hl2⟩
          have := (hl3 y hmem).2.2
          omega
        · intro z hz
          rcases List.mem_cons.mp hz with rfl | hz
          · exact ⟨h0, hy, by omega⟩
          · have := hl3 z hz; exact ⟨this.1, this.2.1, by omega⟩
    obtain ⟨l, hl1, hl2, hl3⟩ := key _ x hx rfl
    -- `l` is a duplicate-free list inside the order
    have hsub : ∀ z ∈ l, z ∈ levelsFrom (kids A) A.states.size (kids A 0) := fun z hz => hmem z (hl3 z hz).1 (hl3 z hz).2.1
    rw [← hl1]
    exact List.Nodup.length_le_of_subset hl2 hsub

end YaraModel.AC.Build
