/- C11 helper lemmas: the C-shaped model (Model/Callback.lean) refines the protocol specification (Spec/Callback.lean). -/
import YaraModel.Lemmas.CallbackPlay
namespace YaraModel.Cb

/-! ### module loading -/

def modulePair (m : String) : List Msg := [.importModule m, .moduleImported m]

/-- modules still to be loaded when `loaded` are in the objects table -/
def pendingModules : List String → List String → List String
  | _, [] => []
  | loaded, m :: ms =>
    if loaded.contains m then pendingModules loaded ms else m :: pendingModules (m :: loaded) ms

theorem pendingModules_eq (loaded ms : List String) :
    pendingModules loaded ms = (distinctModules ms).filter (fun m => !loaded.contains m) := by
  induction ms generalizing loaded with
  | nil => rfl
  | cons m ms ih =>
    simp only [pendingModules, distinctModules]
    cases h : loaded.contains m with
    | true =>
      simp only [if_true, List.filter_cons, h, Bool.not_true, Bool.false_eq_true, if_false, ih, List.filter_filter]
      apply List.filter_congr
      intro x _
      by_cases hx : x = m
      · subst hx; simpa using h
      · simp [hx]
    | false =>
      simp only [Bool.false_eq_true, if_false, List.filter_cons, h, Bool.not_false, if_true, ih, List.filter_filter]
      congr 1
      apply List.filter_congr
      intro x _
      by_cases hx : x = m
      · subst hx; simp
      · simp [hx]

theorem pendingModules_nil (ms : List String) : pendingModules [] ms = distinctModules ms := by
  rw [pendingModules_eq]; simp

theorem verdict_import (m : String) (a : Ret) :
    verdict (.importModule m) a = if a = .error then some .callbackError else none := by
  cases a <;> simp [verdict, Msg.isRule, Msg.isModule]

theorem verdict_imported (m : String) (a : Ret) :
    verdict (.moduleImported m) a = if a = .error then some .callbackError else none := by
  cases a <;> simp [verdict, Msg.isRule, Msg.isModule]

theorem loadModules_eq_play (loaded ms : List String) (s : List Ret) :
    let p := play ((pendingModules loaded ms).flatMap modulePair) s
    loadModules loaded ms s = ⟨p.trace, p.rest, p.stopped.isNone⟩ ∧
      (p.stopped = none ∨ p.stopped = some .callbackError) := by
  induction ms generalizing loaded s with
  | nil => simp [loadModules, pendingModules, play]
  | cons m ms ih =>
    simp only [loadModules, pendingModules]
    cases h : loaded.contains m with
    | true => simp only [if_true]; exact ih loaded s
    | false =>
      simp only [Bool.false_eq_true, if_false, List.flatMap_cons, modulePair, List.cons_append, List.nil_append]
      by_cases h1 : (call s).1 = .error
      · have hv : verdict (.importModule m) (call s).1 = some .callbackError := by simp [verdict_import, h1]
        rw [play_cons_stop _ hv]
        simp [h1]
      · have hv : verdict (.importModule m) (call s).1 = none := by simp [verdict_import, h1]
        rw [play_cons_go _ hv]
        simp only [h1, if_false]
        by_cases h2 : (call (call s).2).1 = .error
        · have hv2 : verdict (.moduleImported m) (call (call s).2).1 = some .callbackError := by simp [verdict_imported, h2]
          rw [play_cons_stop _ hv2]
          simp [h2]
        · have hv2 : verdict (.moduleImported m) (call (call s).2).1 = none := by simp [verdict_imported, h2]
          rw [play_cons_go _ hv2]
          simp only [h2, if_false]
          have := ih (m :: loaded) (call (call s).2).2
          simp only [this.1]
          exact ⟨trivial, this.2⟩


/-! ### rule evaluation -/

theorem snoc_induction {α : Type} {P : List α → Prop} (nil : P [])
    (snoc : ∀ (l : List α) (a : α), P l → P (l ++ [a])) : ∀ l, P l := by
  intro l
  rw [← List.reverse_reverse l]
  induction l.reverse with
  | nil => exact nil
  | cons a t ih => simpa using snoc _ _ ih

theorem evalCond_eq_holds (m : List Bool) (c : Cond) : evalCond m c = c.holds (fun j => m.getD j false) := by
  induction c with
  | lit b => rfl
  | str f => rfl
  | cnt f g => rfl
  | rule j => rfl
  | not c ih => simp [evalCond, Cond.holds, ih]
  | and a b iha ihb => simp [evalCond, Cond.holds, iha, ihb]
  | or a b iha ihb => simp [evalCond, Cond.holds, iha, ihb]

/-- skipping is sound: a condition that needs a string match is false when none of its strings matched -/
theorem holds_false_of_required (env : Nat → Bool) (c : Cond) (hr : c.required ≠ 0) (hf : c.anyFound = false) :
    c.holds env = false := by
  induction c with
  | lit b => simp [Cond.required] at hr
  | str f => simpa [Cond.anyFound, Cond.holds] using hf
  | cnt f g => simp [Cond.required] at hr
  | rule j => simp [Cond.required] at hr
  | not c _ => simp [Cond.required] at hr
  | and a b iha ihb =>
    simp only [Cond.anyFound, Bool.or_eq_false_iff] at hf
    simp only [Cond.required] at hr
    simp only [Cond.holds, Bool.and_eq_false_iff]
    by_cases ha : a.required = 0
    · exact Or.inr (ihb (by omega) hf.2)
    · exact Or.inl (iha ha hf.1)
  | or a b iha ihb =>
    simp only [Cond.anyFound, Bool.or_eq_false_iff] at hf
    simp only [Cond.required] at hr
    simp only [Cond.holds, Bool.or_eq_false_iff]
    exact ⟨iha (by omega) hf.1, ihb (by omega) hf.2⟩

theorem holds_false_of_skipped (env : Nat → Bool) (r : Rule) (h : r.requiredEval = false) :
    r.cond.holds env = false := by
  simp only [Rule.requiredEval, Bool.or_eq_false_iff, beq_eq_false_iff_ne] at h
  exact holds_false_of_required env r.cond h.1 h.2

def ruleTruth (t : List Bool) (r : Rule) : Bool := r.cond.holds (fun j => t.getD j false)

theorem execRule_eq (e : Ex) (r : Rule) :
    execRule e r = ⟨e.matched ++ [ruleTruth e.matched r],
                    if r.isGlobal && !ruleTruth e.matched r then r.ns :: e.unsat else e.unsat⟩ := by
  simp only [execRule, ruleTruth, Ex.markIfGlobal]
  cases hq : r.requiredEval with
  | false =>
    simp [holds_false_of_skipped _ r hq]
  | true =>
    simp only [Bool.not_true, Bool.false_eq_true, if_false, evalCond_eq_holds]
    by_cases hh : r.cond.holds (fun j => e.matched.getD j false) = true
    · simp only [hh, if_true, Bool.not_true, Bool.and_false, Bool.false_eq_true, if_false]
    · have hh' := Bool.not_eq_true _ ▸ hh
      simp only [hh', Bool.false_eq_true, if_false, Bool.not_false, Bool.and_true]

theorem truthTable_snoc (rs : List Rule) (r : Rule) :
    truthTable (rs ++ [r]) = truthTable rs ++ [ruleTruth (truthTable rs) r] := by
  simp [truthTable, ruleTruth, List.foldl_append]

theorem truthTable_length (rs : List Rule) : (truthTable rs).length = rs.length := by
  induction rs using snoc_induction with
  | nil => rfl
  | snoc l a ih => simp [truthTable_snoc, ih]

theorem exec_snoc (rs : List Rule) (r : Rule) : exec (rs ++ [r]) = execRule (exec rs) r := by
  simp [exec, List.foldl_append]

theorem exec_matched (rs : List Rule) : (exec rs).matched = truthTable rs := by
  induction rs using snoc_induction with
  | nil => rfl
  | snoc l a ih => rw [exec_snoc, execRule_eq, truthTable_snoc, ih]

theorem globalsHold_snoc (l : List Rule) (a : Rule) (ns : Nat) :
    globalsHold (l ++ [a]) ns =
      (globalsHold l ns && (!(a.isGlobal && a.ns == ns) || ruleTruth (truthTable l) a)) := by
  simp only [globalsHold, truthTable_snoc]
  rw [List.zip_append (by simp [truthTable_length])]
  simp only [List.zip_cons_cons, List.zip_nil_right, List.all_append, List.all_cons, List.all_nil, Bool.and_true]

theorem exec_unsat (rs : List Rule) (ns : Nat) : ns ∈ (exec rs).unsat ↔ globalsHold rs ns = false := by
  induction rs using snoc_induction with
  | nil => simp [exec, globalsHold]
  | snoc l a ih =>
    rw [exec_snoc, execRule_eq, exec_matched, globalsHold_snoc]
    cases hg : a.isGlobal <;> cases ht : ruleTruth (truthTable l) a <;>
      simp only [Bool.false_and, Bool.true_and, Bool.not_false, Bool.not_true, Bool.and_true,
        Bool.false_eq_true, if_false, if_true, Bool.or_true, Bool.or_false, ih, List.mem_cons]
    by_cases hn : a.ns = ns
    · subst hn; simp
    · have : ¬ ns = a.ns := fun h => hn h.symm
      simp [hn, this]


/-! ### the reporting loop -/

/-- what the loop reports for rule `i` -/
def modelMsg (fl : Flags) (e : Ex) (ri : Rule × Nat) : Option Msg :=
  if ri.1.isPrivate then none else loopMsg fl e ri.2 ri.1

theorem modelMsg_exec (rs : List Rule) (fl : Flags) : modelMsg fl (exec rs) = ruleMsg rs fl := by
  funext ri
  have hu : (exec rs).unsat.contains ri.1.ns = !globalsHold rs ri.1.ns := by
    have := exec_unsat rs ri.1.ns
    cases hg : globalsHold rs ri.1.ns <;> simp [hg] at this ⊢ <;> exact this
  simp only [modelMsg, ruleMsg, loopMsg, specMatching, condHolds, exec_matched, hu, Bool.not_not]
  rfl

theorem loopMsg_isRule {fl : Flags} {e : Ex} {i : Nat} {r : Rule} {m : Msg} (h : loopMsg fl e i r = some m) :
    m.isRule = true := by
  simp only [loopMsg] at h
  split at h <;> split at h <;> simp at h <;> subst h <;> rfl

theorem verdict_rule {m : Msg} (h : m.isRule = true) (a : Ret) :
    verdict m a = match a with | .abort => some .success | .error => some .callbackError | .cont => none := by
  cases a <;> simp [verdict, h]

theorem report_eq_play (fl : Flags) (e : Ex) (i : Nat) (rs : List Rule) (s : List Ret) :
    let p := play ((rs.zipIdx i).filterMap (modelMsg fl e)) s
    report fl e i rs s = (p.trace, match p.stopped with | some rc => .exit rc | none => .done p.rest) := by
  induction rs generalizing i s with
  | nil => simp [report, play]
  | cons r rs ih =>
    simp only [List.zipIdx_cons, List.filterMap_cons, report, modelMsg]
    cases hm : loopMsg fl e i r with
    | none => simpa [modelMsg] using ih (i + 1) s
    | some m =>
      cases hp : r.isPrivate with
      | true => simpa [modelMsg] using ih (i + 1) s
      | false =>
        simp only [Bool.false_eq_true, if_false]
        have hr := loopMsg_isRule hm
        cases ha : (call s).1 with
        | cont =>
          have hv : verdict m (call s).1 = none := by rw [verdict_rule hr, ha]
          rw [play_cons_go _ hv]
          have hc : call s = (.cont, (call s).2) := by rw [← ha]
          rw [hc]
          simp only
          have := ih (i + 1) (call s).2
          rw [this]
        | abort =>
          have hv : verdict m (call s).1 = some .success := by rw [verdict_rule hr, ha]
          rw [play_cons_stop _ hv]
          have hc : call s = (.abort, (call s).2) := by rw [← ha]
          rw [hc]
        | error =>
          have hv : verdict m (call s).1 = some .callbackError := by rw [verdict_rule hr, ha]
          rw [play_cons_stop _ hv]
          have hc : call s = (.error, (call s).2) := by rw [← ha]
          rw [hc]

theorem play_finished (s : List Ret) : play [.scanFinished] s = ⟨[.scanFinished], none, (call s).2⟩ := by
  simp [play, verdict, Msg.isRule, Msg.isModule, Msg.isTooMany]

/-- **Refinement**: the C-shaped model and the protocol specification agree on every input. -/
theorem scan_eq_specScan (rs : List Rule) (imports : List String) (fl : Flags) (script : List Ret) :
    scan rs imports fl script = specScan rs imports fl script := by
  have hl := loadModules_eq_play [] imports script
  simp only [pendingModules_nil] at hl
  obtain ⟨hl1, hl2⟩ := hl
  have hr := report_eq_play fl (exec rs) 0 rs
  simp only [modelMsg_exec] at hr
  replace hr : ∀ s, report fl (exec rs) 0 rs s = ((play (ruleMsgs rs fl) s).trace,
      match (play (ruleMsgs rs fl) s).stopped with | some rc => .exit rc | none => .done (play (ruleMsgs rs fl) s).rest) := hr
  have hm : moduleMsgs imports = (distinctModules imports).flatMap modulePair := rfl
  simp only [scan, specScan, protocol, List.append_assoc, hl1, hm]
  rw [play_append]
  cases hs : (play ((distinctModules imports).flatMap modulePair) script).stopped with
  | some rc =>
    rcases hl2 with h | h
    · rw [hs] at h; cases h
    · rw [hs] at h; cases h; simp [hs]
  | none =>
    simp only [Option.isNone_none, Bool.not_true, Bool.false_eq_true, if_false, hr]
    rw [play_append, play_finished]
    cases hs2 : (play (ruleMsgs rs fl) (play ((distinctModules imports).flatMap modulePair) script).rest).stopped with
    | some rc => simp [hs2]
    | none => simp

end YaraModel.Cb
