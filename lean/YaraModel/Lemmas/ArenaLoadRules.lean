/- What yr_rules_from_arena's summary test sees after a successful arena load: for ANY stream, buffer j of the
   loaded arena is unallocated exactly when the size field of table entry j in the file is 0. -/
import YaraModel.Lemmas.ArenaCorruptSave
namespace YaraModel.Arena
open YaraModel.Gen.ArenaLayout

theorem applyRelocs_keys (cfg : LoaderCfg) : ∀ (k : Nat) (s : Bytes), s.length ≤ k → ∀ (A A' : Arena),
    applyRelocs cfg A s = .ok A' → A'.bufs.map key = A.bufs.map key := by
  intro k
  induction k with
  | zero =>
    intro s hk A A' h
    have : s = [] := List.eq_nil_of_length_eq_zero (by omega)
    subst this
    simp only [applyRelocs, Except.ok.injEq] at h
    rw [h]
  | succ k ih =>
    intro s hk A A' h
    rcases bytes8_cases s with hlt | ⟨b0, b1, b2, b3, b4, b5, b6, b7, rest, rfl⟩
    · rw [applyRelocs_short cfg A s hlt] at h
      split at h
      · simp only [Except.ok.injEq] at h; rw [h]
      · split at h
        · cases h
        · simp only [Except.ok.injEq] at h; rw [h]
    · rw [applyRelocs] at h
      split at h
      · cases h
      · split at h
        · cases h
        · split at h
          · cases h
          · split at h
            · cases h
            · split at h
              · cases h
              · have hlen : rest.length ≤ k := by simp only [List.length_cons] at hk; omega
                have := ih rest hlen _ A' h
                rw [this]
                exact keys_setSlot A _ _

theorem readBodies_shape (alloc : Nat → Nat) (hnz : ∀ i, alloc i ≠ 0) (sizes : List Nat) : ∀ (i : Nat) (s : Bytes) (bufs : List Buf) (s' : Bytes),
    readBodies alloc i sizes s = .ok (bufs, s') →
      bufs.length = sizes.length ∧ ∀ j, j < sizes.length → ((bufs.getD j {}).base = 0 ↔ sizes.getD j 0 = 0) := by
  induction sizes with
  | nil =>
    intro i s bufs s' h
    simp only [readBodies, Except.ok.injEq, Prod.mk.injEq] at h
    rw [← h.1]
    exact ⟨rfl, fun j hj => by simp at hj⟩
  | cons z t ih =>
    intro i s bufs s' h
    simp only [readBodies] at h
    by_cases hz : z = 0
    · rw [if_pos hz] at h
      cases h1 : readBodies alloc (i + 1) t s with
      | error e => rw [h1] at h; cases h
      | ok p =>
        obtain ⟨bs, s2⟩ := p
        rw [h1] at h
        simp only [bind, Except.bind, pure, Except.pure, Except.ok.injEq, Prod.mk.injEq] at h
        have ⟨hl, hb⟩ := ih _ _ _ _ h1
        rw [← h.1]
        refine ⟨by simp [hl], fun j hj => ?_⟩
        cases j with
        | zero => simp [hz]
        | succ j => simpa using hb j (by simpa using hj)
    · rw [if_neg hz] at h
      split at h
      · cases h
      · split at h
        · cases h
        · cases h1 : readBodies alloc (i + 1) t (s.drop z) with
          | error e => rw [h1] at h; cases h
          | ok p =>
            obtain ⟨bs, s2⟩ := p
            rw [h1] at h
            simp only [bind, Except.bind, pure, Except.pure, Except.ok.injEq, Prod.mk.injEq] at h
            have ⟨hl, hb⟩ := ih _ _ _ _ h1
            rw [← h.1]
            refine ⟨by simp [hl], fun j hj => ?_⟩
            cases j with
            | zero => simp [hz, hnz]
            | succ j => simpa using hb j (by simpa using hj)

/-- for ANY stream the arena loader accepts: the loaded arena has as many buffers as the header says, and buffer `j` is
    unallocated (NULL data) exactly when the size field of table entry `j` is 0 -/
theorem load_shape (cfg : LoaderCfg) (alloc : Nat → Nat) (hnz : ∀ i, alloc i ≠ 0) (s : Bytes) (A' : Arena)
    (h : load cfg alloc s = .ok A') :
    A'.bufs.length = (s.getD hdrNumBuffersOff 0).toNat ∧
      ∀ j, j < A'.bufs.length → ((A'.bufAt j).base = 0 ↔ rdLE tblSizeSize s (sizeFieldAt j) = 0) := by
  rw [load_eq] at h
  cases h1 : parseHeader s with
  | error e => rw [h1] at h; cases h
  | ok p1 =>
    obtain ⟨n, s1⟩ := p1
    rw [h1] at h
    simp only at h
    have hn : n = (s.getD hdrNumBuffersOff 0).toNat ∧ s1 = s.drop headerSize := by
      unfold parseHeader at h1
      split at h1
      · cases h1
      · split at h1
        · cases h1
        · split at h1
          · cases h1
          · split at h1
            · cases h1
            · simp only [Except.ok.injEq, Prod.mk.injEq] at h1
              exact ⟨h1.1.symm, h1.2.symm⟩
    cases h2 : parseTable n s1 with
    | error e => rw [h2] at h; cases h
    | ok p2 =>
      obtain ⟨sizes, s2⟩ := p2
      rw [h2] at h
      simp only at h
      have hsz : sizes = (List.range n).map (fun i => rdLE tblSizeSize s1 (tableEntrySize * i + tblSizeOff)) := by
        unfold parseTable at h2
        split at h2
        · cases h2
        · simp only [Except.ok.injEq, Prod.mk.injEq] at h2
          exact h2.1.symm
      split at h
      · cases h
      · cases h3 : readBodies alloc 0 sizes s2 with
        | error e => rw [h3] at h; cases h
        | ok p3 =>
          obtain ⟨bufs, s3⟩ := p3
          rw [h3] at h
          simp only at h
          have ⟨hl, hb⟩ := readBodies_shape alloc hnz sizes 0 s2 bufs s3 h3
          have hk := applyRelocs_keys cfg _ s3 (Nat.le_refl _) _ A' h
          simp only at hk
          have hlen : A'.bufs.length = bufs.length := by simpa using congrArg List.length hk
          have hsl : sizes.length = n := by rw [hsz]; simp
          refine ⟨by rw [hlen, hl, hsl, hn.1], fun j hj => ?_⟩
          have hj' : j < sizes.length := by rw [← hl, ← hlen]; exact hj
          have hkj := (getD_of_keys hk j).1
          show (A'.bufs.getD j {}).base = 0 ↔ _
          rw [hkj, hb j hj', hsz]
          have hjn : j < n := by rw [← hsl]; exact hj'
          simp only [List.getD_eq_getElem?_getD, List.getElem?_map, List.getElem?_range hjn, Option.map_some, Option.getD_some]
          rw [hn.2]
          unfold sizeFieldAt
          simp only [rdLE, List.drop_drop]
          rw [show headerSize + (tableEntrySize * j + tblSizeOff) = headerSize + tableEntrySize * j + tblSizeOff from by omega]

/-- **yr_rules_load_stream on any stream**: after a successful arena load the only further test is that the summary
    buffer exists (`yr_arena_get_ptr` asserts `buffer_id < num_buffers`, then `summary == NULL`): it depends on the
    header's buffer count and on the size field of table entry 11 alone -/
theorem loadRules_eq (cfg : LoaderCfg) (alloc : Nat → Nat) (hnz : ∀ i, alloc i ≠ 0) (s : Bytes) :
    loadRules cfg alloc s =
      match load cfg alloc s with
      | .error e => .error e
      | .ok A' =>
        if (s.getD hdrNumBuffersOff 0).toNat ≤ summarySection then .error .assertFail
        else if rdLE tblSizeSize s (sizeFieldAt summarySection) = 0 then .error .corruptFile
        else .ok A' := by
  unfold loadRules
  cases h : load cfg alloc s with
  | error e => rfl
  | ok A' =>
    have ⟨hl, hb⟩ := load_shape cfg alloc hnz s A' h
    simp only [bind, Except.bind, pure, Except.pure]
    rw [hl]
    split
    · rfl
    · rename_i hgt
      have := hb summarySection (by rw [hl]; omega)
      by_cases hz : (A'.bufAt summarySection).base = 0
      · rw [if_pos hz, if_pos (this.1 hz)]
      · rw [if_neg hz, if_neg (fun e => hz (this.2 e))]

/-! ### reading a field of a patched image -/

theorem getElem?_patch (img : Bytes) (off : Nat) (bs : Bytes) (h : off + bs.length ≤ img.length) (j : Nat) :
    (patch img off bs)[j]? = if off ≤ j ∧ j < off + bs.length then bs[j - off]? else img[j]? := by
  unfold patch
  have hl : (img.take off).length = off := by rw [List.length_take]; omega
  rw [List.append_assoc, List.getElem?_append, hl]
  by_cases h1 : j < off
  · rw [if_pos h1, if_neg (by omega), List.getElem?_take, if_pos h1]
  · rw [if_neg h1, List.getElem?_append]
    by_cases h2 : j - off < bs.length
    · rw [if_pos h2, if_pos ⟨by omega, by omega⟩]
    · rw [if_neg h2, if_neg (by omega), List.getElem?_drop]
      congr 1; omega

theorem getElem?_field (d : Bytes) (o k t : Nat) : ((d.drop o).take k)[t]? = if t < k then d[o + t]? else none := by
  rw [List.getElem?_take]
  split
  · rw [List.getElem?_drop]
  · rfl

theorem rdLE_patch_other (k : Nat) (img : Bytes) (off : Nat) (bs : Bytes) (h : off + bs.length ≤ img.length) (o : Nat)
    (hd : o + k ≤ off ∨ off + bs.length ≤ o) : rdLE k (patch img off bs) o = rdLE k img o := by
  unfold rdLE
  congr 1
  apply List.ext_getElem?
  intro t
  rw [getElem?_field, getElem?_field]
  split
  · rw [getElem?_patch _ _ _ h, if_neg (by omega)]
  · rfl

theorem rdLE_patch_same (img : Bytes) (off : Nat) (bs : Bytes) (h : off + bs.length ≤ img.length) :
    rdLE bs.length (patch img off bs) off = leVal bs := by
  unfold rdLE
  congr 1
  apply List.ext_getElem?
  intro t
  rw [getElem?_field]
  split
  · rename_i ht
    rw [getElem?_patch _ _ _ h, if_pos ⟨by omega, by omega⟩]
    congr 1; omega
  · rename_i ht
    have : bs.length ≤ t := by omega
    simp [this]

theorem getD_patch_other (img : Bytes) (off : Nat) (bs : Bytes) (h : off + bs.length ≤ img.length) (j : Nat)
    (hj : j < off ∨ off + bs.length ≤ j) : (patch img off bs).getD j 0 = img.getD j 0 := by
  simp only [List.getD_eq_getElem?_getD]
  rw [getElem?_patch _ _ _ h, if_neg (by omega)]

theorem save_length_ge (a : Arena) : headerSize + tableEntrySize * a.bufs.length ≤ (save a).length := by
  rw [save_split, List.length_append, length_header, List.length_append, length_table, bodies_length]
  omega

/-- **rules.c after a size corruption the arena loader let through**: the summary test refuses the file only if the
    field that was overwritten is the summary buffer's own size and the new value is 0 -/
theorem loadRules_after_size_patch (cfg : LoaderCfg) (alloc : Nat → Nat) (hnz : ∀ i, alloc i ≠ 0) (a : Arena)
    (hn : a.bufs.length ≤ maxBuffers) (hsum : summarySection < a.bufs.length)
    (hsz : (a.bufAt summarySection).data.length ≠ 0) (hsz2 : (a.bufAt summarySection).data.length < 2 ^ 32)
    (i : Nat) (hi : i < a.bufs.length) (z : Nat) (hz : z < 2 ^ 32) (A' : Arena)
    (hA : load cfg alloc (patch (save a) (sizeFieldAt i) (leBytes 4 z)) = .ok A') :
    loadRules cfg alloc (patch (save a) (sizeFieldAt i) (leBytes 4 z)) =
      if i = summarySection ∧ z = 0 then .error .corruptFile else .ok A' := by
  rw [loadRules_eq cfg alloc hnz, hA]
  simp only
  have hlen := save_length_ge a
  have hfit : sizeFieldAt i + (leBytes 4 z).length ≤ (save a).length := by
    rw [length_leBytes]; unfold sizeFieldAt
    simp only [headerSize, tableEntrySize, tblSizeOff] at hlen ⊢
    omega
  have hn16 : a.bufs.length ≤ 16 := hn
  have hnb : ((patch (save a) (sizeFieldAt i) (leBytes 4 z)).getD hdrNumBuffersOff 0).toNat = a.bufs.length := by
    rw [getD_patch_other _ _ _ hfit _ (Or.inl (by unfold sizeFieldAt; simp only [hdrNumBuffersOff, headerSize]; omega)), save_split, header_cons]
    simp [hdrNumBuffersOff]; omega
  rw [hnb, if_neg (by omega)]
  by_cases his : i = summarySection
  · subst his
    have := rdLE_patch_same (save a) (sizeFieldAt summarySection) (leBytes 4 z) hfit
    rw [length_leBytes] at this
    show (if rdLE 4 _ _ = 0 then _ else _) = _
    rw [this, leVal_leBytes4, Nat.mod_eq_of_lt hz]
    by_cases hz0 : z = 0
    · rw [if_pos hz0, if_pos ⟨rfl, hz0⟩]
    · rw [if_neg hz0, if_neg (fun h => hz0 h.2)]
  · have := rdLE_patch_other tblSizeSize (save a) (sizeFieldAt i) (leBytes 4 z) hfit (sizeFieldAt summarySection)
      (by rw [length_leBytes]; unfold sizeFieldAt; simp only [tblSizeSize, headerSize, tableEntrySize, tblSizeOff]; omega)
    rw [this, save_size_field a summarySection hsum, Nat.mod_eq_of_lt hsz2, if_neg hsz, if_neg (fun h => his h.1)]

end YaraModel.Arena
