/- Aho-Corasick construction, helper lemmas 1: state/pool accessors, the trie invariant, match-list segments -/
import YaraModel.Model.AcBuild
import YaraModel.Lemmas.AcTheory
namespace YaraModel.AC.Build
open YaraModel.Text YaraModel.AC

/-! ### accessors -/

theorem st_modify (A : Auto) (i j : Nat) (f : State → State) :
    (A.modify i f).st j = if j = i ∧ i < A.states.size then f (A.st i) else A.st j := by
  unfold Auto.modify Auto.st
  simp only [Array.getD_eq_getD_getElem?, Array.getElem?_setIfInBounds]
  by_cases h : i = j
  · subst h
    by_cases h2 : i < A.states.size
    · simp [h2]
    · simp [h2]
  · have : ¬ (j = i ∧ i < A.states.size) := fun hh => h hh.1.symm
    simp [h, this]

theorem st_modify_ne (A : Auto) (i j : Nat) (f : State → State) (h : j ≠ i) : (A.modify i f).st j = A.st j := by
  rw [st_modify]; simp [h]

theorem st_modify_self (A : Auto) (i : Nat) (f : State → State) (h : i < A.states.size) :
    (A.modify i f).st i = f (A.st i) := by
  rw [st_modify]; simp [h]

@[simp] theorem size_modify (A : Auto) (i : Nat) (f : State → State) : (A.modify i f).states.size = A.states.size := by
  simp [Auto.modify]

@[simp] theorem pool_modify (A : Auto) (i : Nat) (f : State → State) : (A.modify i f).pool = A.pool := rfl

theorem st_default (A : Auto) (i : Nat) (h : A.states.size ≤ i) : A.st i = default := by
  unfold Auto.st
  simp [Array.getD_eq_getD_getElem?, Array.getElem?_eq_none h]

theorem modify_noop (A : Auto) (i : Nat) (f : State → State) (h : f (A.st i) = A.st i) : A.modify i f = A := by
  unfold Auto.modify
  rw [h]
  cases A with
  | mk states pool =>
    simp only [Auto.mk.injEq, and_true]
    apply Array.ext_getElem?
    intro j
    simp only [Array.getElem?_setIfInBounds, Auto.st, Array.getD_eq_getD_getElem?]
    by_cases hij : i = j
    · subst hij
      by_cases h2 : i < states.size
      · simp [h2]
      · simp [h2]
    · simp [hij]

/-- what the trie invariant looks at -/
def shape (A : Auto) (i : Nat) : UInt8 × Nat × List Nat × Bytes :=
  ((A.st i).input, (A.st i).depth, (A.st i).children, (A.st i).path)

/-! ### the trie invariant -/

structure Trie (A : Auto) : Prop where
  size_pos : 0 < A.states.size
  root_path : (A.st 0).path = []
  child_lt : ∀ s, s < A.states.size → ∀ c ∈ (A.st s).children, s < c ∧ c < A.states.size
  child_path : ∀ s, s < A.states.size → ∀ c ∈ (A.st s).children, (A.st c).path = (A.st s).path ++ [(A.st c).input]
  depth_eq : ∀ s, s < A.states.size → (A.st s).depth = (A.st s).path.length
  inputs_nodup : ∀ s, s < A.states.size → (A.st s).children.Pairwise (fun a b => (A.st a).input ≠ (A.st b).input)
  has_parent : ∀ c, 0 < c → c < A.states.size → ∃ s, s < A.states.size ∧ c ∈ (A.st s).children
  path_inj : ∀ i j, i < A.states.size → j < A.states.size → (A.st i).path = (A.st j).path → i = j

theorem Trie.congr {A B : Auto} (h : Trie A) (hs : B.states.size = A.states.size) (hsh : ∀ i, shape B i = shape A i) : Trie B := by
  have e : ∀ i, (B.st i).input = (A.st i).input ∧ (B.st i).depth = (A.st i).depth ∧ (B.st i).children = (A.st i).children ∧
      (B.st i).path = (A.st i).path := by
    intro i
    have := hsh i
    simp only [shape, Prod.mk.injEq] at this
    exact this
  constructor
  · rw [hs]; exact h.size_pos
  · rw [(e 0).2.2.2]; exact h.root_path
  · intro s hsz c hc
    rw [hs] at hsz ⊢
    rw [(e s).2.2.1] at hc
    exact h.child_lt s hsz c hc
  · intro s hsz c hc
    rw [hs] at hsz
    rw [(e s).2.2.1] at hc
    rw [(e c).2.2.2, (e s).2.2.2, (e c).1]
    exact h.child_path s hsz c hc
  · intro s hsz
    rw [hs] at hsz
    rw [(e s).2.1, (e s).2.2.2]
    exact h.depth_eq s hsz
  · intro s hsz
    rw [hs] at hsz
    rw [(e s).2.2.1]
    refine (h.inputs_nodup s hsz).imp ?_
    intro a b hab
    rw [(e a).1, (e b).1]; exact hab
  · intro c h0 hsz
    rw [hs] at hsz
    obtain ⟨s, hs1, hs2⟩ := h.has_parent c h0 hsz
    exact ⟨s, by rw [hs]; exact hs1, by rw [(e s).2.2.1]; exact hs2⟩
  · intro i j hi hj hp
    rw [hs] at hi hj
    rw [(e i).2.2.2, (e j).2.2.2] at hp
    exact h.path_inj i j hi hj hp

/-- `_yr_ac_next_state` finds the child with that input, if there is one -/
theorem nextState_some {A : Auto} {s n : Nat} {c : UInt8} (h : nextState A s c = some n) :
    n ∈ (A.st s).children ∧ (A.st n).input = c := by
  unfold nextState at h
  refine ⟨List.mem_of_find?_eq_some h, ?_⟩
  have := List.find?_some h
  simpa using this

theorem nextState_none {A : Auto} {s : Nat} {c : UInt8} (h : nextState A s c = none) :
    ∀ n ∈ (A.st s).children, (A.st n).input ≠ c := by
  unfold nextState at h
  intro n hn
  have := (List.find?_eq_none.mp h) n hn
  simpa using this

theorem nextState_of_child {A : Auto} (hT : Trie A) {s n : Nat} (hs : s < A.states.size) (hn : n ∈ (A.st s).children) :
    nextState A s (A.st n).input = some n := by
  cases h : nextState A s (A.st n).input with
  | none => exact absurd rfl (nextState_none h n hn)
  | some m =>
    obtain ⟨hm, hi⟩ := nextState_some h
    have hp := hT.inputs_nodup s hs
    by_cases hmn : m = n
    · rw [hmn]
    · exfalso
      have : ∀ (l : List Nat), l.Pairwise (fun a b => (A.st a).input ≠ (A.st b).input) → m ∈ l → n ∈ l → False := by
        intro l
        induction l with
        | nil => intro _ h1; cases h1
        | cons a l' ih =>
          intro hl h1 h2
          rw [List.pairwise_cons] at hl
          rcases List.mem_cons.mp h1 with e1 | e1
          · rcases List.mem_cons.mp h2 with e2 | e2
            · exact hmn (e1.trans e2.symm)
            · exact hl.1 n e2 (by rw [← e1]; exact hi)
          · rcases List.mem_cons.mp h2 with e2 | e2
            · exact hl.1 m e1 (by rw [← e2]; exact hi.symm)
            · exact ih hl.2 e1 e2
      exact this _ hp hm hn

/-- a path that extends the path of `s` by one byte belongs to a child of `s` -/
theorem Trie.child_of_path {A : Auto} (hT : Trie A) {s j : Nat} {c : UInt8} (hs : s < A.states.size) (hj : j < A.states.size)
    (hp : (A.st j).path = (A.st s).path ++ [c]) : j ∈ (A.st s).children ∧ (A.st j).input = c := by
  have hj0 : 0 < j := by
    rcases Nat.eq_zero_or_pos j with h | h
    · subst h; rw [hT.root_path] at hp; simp at hp
    · exact h
  obtain ⟨p, hp1, hp2⟩ := hT.has_parent j hj0 hj
  have := hT.child_path p hp1 j hp2
  rw [hp] at this
  have h2 := List.append_inj' this rfl
  have hps : s = p := hT.path_inj s p hs hp1 h2.1
  subst hps
  exact ⟨hp2, by simpa using h2.2.symm⟩

/-! ### match-list segments -/

def poolNextAt (pool : Array (Nat × Nat × Nat)) (e : Nat) : Nat := (pool.getD e (0, 0, 0)).2.2

/-- following `next` from the 1-based reference `r` visits exactly the (0-based) entries `l` and then continues at `tl` -/
def ChainSeg (pool : Array (Nat × Nat × Nat)) : Nat → List Nat → Nat → Prop
  | r, [], tl => r = tl
  | r, e :: l, tl => r = e + 1 ∧ e < pool.size ∧ ChainSeg pool (poolNextAt pool e) l tl

theorem ChainSeg.append {pool : Array (Nat × Nat × Nat)} {r m tl : Nat} {l1 l2 : List Nat}
    (h1 : ChainSeg pool r l1 m) (h2 : ChainSeg pool m l2 tl) : ChainSeg pool r (l1 ++ l2) tl := by
  induction l1 generalizing r with
  | nil => simp only [ChainSeg] at h1; subst h1; simpa using h2
  | cons e l ih =>
    simp only [ChainSeg, List.cons_append] at h1 ⊢
    exact ⟨h1.1, h1.2.1, ih h1.2.2⟩

/-- a segment only depends on the entries it visits -/
theorem ChainSeg.congr {pool pool' : Array (Nat × Nat × Nat)} {r tl : Nat} {l : List Nat}
    (h : ChainSeg pool r l tl) (hs : pool.size ≤ pool'.size) (he : ∀ e ∈ l, poolNextAt pool' e = poolNextAt pool e) :
    ChainSeg pool' r l tl := by
  induction l generalizing r with
  | nil => exact h
  | cons e l ih =>
    simp only [ChainSeg] at h ⊢
    refine ⟨h.1, Nat.lt_of_lt_of_le h.2.1 hs, ?_⟩
    rw [he e (List.mem_cons_self)]
    exact ih h.2.2 (fun x hx => he x (List.mem_cons_of_mem _ hx))

theorem ChainSeg.nil_of_zero {pool : Array (Nat × Nat × Nat)} {l : List Nat} {tl : Nat} (h : ChainSeg pool 0 l tl) : l = [] := by
  cases l with
  | nil => rfl
  | cons e l => simp only [ChainSeg] at h; omega

theorem ChainSeg.ref_pos {pool : Array (Nat × Nat × Nat)} {r tl e : Nat} {l : List Nat} (h : ChainSeg pool r (e :: l) tl) : r = e + 1 := h.1

theorem mem_ownIdx {atoms : List (Nat × Atom)} {p : Bytes} {e : Nat} :
    e ∈ ownIdx atoms p ↔ ∃ a, atoms[e]? = some a ∧ a.2.bytes = p := by
  unfold ownIdx
  simp only [List.mem_reverse, List.mem_filter, List.mem_range, decide_eq_true_eq]
  constructor
  · rintro ⟨h1, h2⟩
    cases h : atoms[e]? with
    | none => rw [h] at h2; simp at h2
    | some a => rw [h] at h2; exact ⟨a, rfl, by simpa using h2⟩
  · rintro ⟨a, h1, h2⟩
    refine ⟨?_, by rw [h1]; simp [h2]⟩
    exact (List.getElem?_eq_some_iff.mp h1).1

theorem ownIdx_nodup (atoms : List (Nat × Atom)) (p : Bytes) : (ownIdx atoms p).Nodup := by
  unfold ownIdx
  unfold List.Nodup
  rw [List.pairwise_reverse]
  exact (List.Pairwise.filter _ List.nodup_range).imp (fun h => Ne.symm h)

theorem ownIdx_length_le (atoms : List (Nat × Atom)) (p : Bytes) : (ownIdx atoms p).length ≤ atoms.length := by
  unfold ownIdx
  rw [List.length_reverse]
  exact Nat.le_trans (List.length_filter_le _ _) (by simp)

theorem ownIdx_snoc (atoms : List (Nat × Atom)) (a : Nat × Atom) (p : Bytes) :
    ownIdx (atoms ++ [a]) p = if a.2.bytes = p then atoms.length :: ownIdx atoms p else ownIdx atoms p :=
  ownIdx_snoc' atoms a p

theorem ownIdx_disjoint {atoms : List (Nat × Atom)} {p q : Bytes} {e : Nat} (h1 : e ∈ ownIdx atoms p) (h2 : e ∈ ownIdx atoms q) : p = q := by
  obtain ⟨a, ha, hp⟩ := mem_ownIdx.mp h1
  obtain ⟨b, hb, hq⟩ := mem_ownIdx.mp h2
  rw [ha] at hb
  cases hb
  rw [← hp, ← hq]

end YaraModel.AC.Build
