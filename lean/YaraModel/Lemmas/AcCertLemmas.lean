/- helper lemmas for Thm/AcCert.lean: decoding the certificate, the scan invariant -/
import YaraModel.Lemmas.AcTheory
namespace YaraModel.AC
open YaraModel.Text

/-- the facts `certOK` checks, as propositions -/
structure Cert (T : Tables) (atoms : List (Nat × Atom)) (paths : List (Nat × Bytes)) : Prop where
  root : (0, []) ∈ paths
  closed : ∀ sp ∈ paths, sp.2 = [] ∨ sp.2.dropLast ∈ paths.map (·.2)
  step : ∀ sp ∈ paths, ∀ c, c < 256 →
    (delta T (fuelOf T) sp.1 (c + 1), lsuf (paths.map (·.2)) (sp.2 ++ [UInt8.ofNat c])) ∈ paths
  outs : ∀ sp ∈ paths, ∀ e : Nat × Nat,
    e ∈ entries T (fuelOf T) (T.m.getD sp.1 0).toNat ↔
    e ∈ (atoms.filter fun sa => sa.2.bytes.isSuffixOf sp.2).map fun sa => (sa.1, sa.2.bytes.length + sa.2.backtrack)
  atomsIn : ∀ sa ∈ atoms, sa.2.bytes ∈ paths.map (·.2)

theorem subsetB_iff {α : Type} [BEq α] [LawfulBEq α] (a b : List α) : subsetB a b = true ↔ ∀ x ∈ a, x ∈ b := by
  simp [subsetB, List.all_eq_true]

theorem lsufH_eq (P : List Bytes) (w : Bytes) : lsufH (Std.HashSet.ofList P) w = lsuf P w := by
  induction w with
  | nil => rfl
  | cons c t ih => simp only [lsufH, lsuf, Std.HashSet.contains_ofList, ih]

theorem cert_of_certOK (T : Tables) (atoms : List (Nat × Atom)) (paths : List (Nat × Bytes))
    (h : certOK T atoms paths = true) : Cert T atoms paths := by
  unfold certOK at h
  simp only [Bool.and_eq_true, List.all_eq_true, Std.HashSet.contains_ofList, List.contains_eq_mem, decide_eq_true_eq,
    lsufH_eq] at h
  obtain ⟨⟨⟨⟨h1, h2⟩, h4⟩, h5⟩, h6⟩ := h
  refine ⟨h1, ?_, ?_, ?_, ?_⟩
  · intro sp hsp
    have := h2 sp hsp
    simp only [Bool.or_eq_true, List.isEmpty_iff, decide_eq_true_eq] at this
    rcases this with h | h
    · exact Or.inl h
    · exact Or.inr h
  · intro sp hsp c hc
    have := h4 sp hsp c (by simpa using hc)
    exact this
  · intro sp hsp e
    have := h5 sp hsp
    simp only [subsetB_iff] at this
    exact ⟨fun h => this.1 e h, fun h => this.2 e h⟩
  · intro sa hsa
    exact h6 sa hsa

theorem prefixClosed_of_cert {T : Tables} {atoms : List (Nat × Atom)} {paths : List (Nat × Bytes)}
    (h : Cert T atoms paths) : PrefixClosed (paths.map (·.2)) := by
  intro p c hp
  obtain ⟨sp, hsp, hsp2⟩ := List.mem_map.mp hp
  rcases h.closed sp hsp with h0 | h0
  · rw [hsp2] at h0; simp at h0
  · rw [hsp2] at h0; simpa using h0

theorem nil_mem_of_cert {T : Tables} {atoms : List (Nat × Atom)} {paths : List (Nat × Bytes)}
    (h : Cert T atoms paths) : [] ∈ paths.map (·.2) :=
  List.mem_map.mpr ⟨(0, []), h.root, rfl⟩

/-- what is reported in a state whose path is `lsuf P w` is exactly what must be reported after reading `w` -/
theorem report_mem {T : Tables} {atoms : List (Nat × Atom)} {paths : List (Nat × Bytes)} (h : Cert T atoms paths)
    (state : Nat) (w : Bytes) (hst : (state, lsuf (paths.map (·.2)) w) ∈ paths) (x : Nat × Nat × Nat) :
    x ∈ report T state w.length ↔ x ∈ expectedAt atoms w := by
  unfold report expectedAt
  simp only [List.mem_filterMap]
  constructor
  · rintro ⟨⟨s, bt⟩, he, hx⟩
    have := (h.outs _ hst (s, bt)).mp he
    simp only [List.mem_map, List.mem_filter, List.isSuffixOf_iff_suffix] at this
    obtain ⟨sa, ⟨hsa, hsuf⟩, heq⟩ := this
    refine ⟨sa, hsa, ?_⟩
    have hsuf' : sa.2.bytes <:+ w := (suffix_iff_suffix_lsuf _ w _ (h.atomsIn sa hsa)).mpr hsuf
    simp only [Prod.mk.injEq] at heq
    obtain ⟨h1, h2⟩ := heq
    subst h1; subst h2
    split at hx
    · rename_i hle
      have hs2 : sa.2.bytes.isSuffixOf w = true := List.isSuffixOf_iff_suffix.mpr hsuf'
      simp only [hs2, hle, decide_true, Bool.and_self, if_true]
      exact hx
    · cases hx
  · rintro ⟨sa, hsa, hx⟩
    split at hx
    · rename_i hc
      simp only [Bool.and_eq_true, List.isSuffixOf_iff_suffix, decide_eq_true_eq] at hc
      refine ⟨(sa.1, sa.2.bytes.length + sa.2.backtrack), ?_, ?_⟩
      · apply (h.outs _ hst _).mpr
        simp only [List.mem_map, List.mem_filter, List.isSuffixOf_iff_suffix]
        exact ⟨sa, ⟨hsa, (suffix_iff_suffix_lsuf _ w _ (h.atomsIn sa hsa)).mp hc.1⟩, rfl⟩
      · simp only [hc.2, if_true]; exact hx
    · cases hx


theorem scanFrom_mem {T : Tables} {atoms : List (Nat × Atom)} {paths : List (Nat × Bytes)} (h : Cert T atoms paths)
    (rest pre : Bytes) (state : Nat) (hst : (state, lsuf (paths.map (·.2)) pre) ∈ paths) (x : Nat × Nat × Nat) :
    x ∈ scanFrom T rest pre.length state ↔ ∃ k, k ≤ rest.length ∧ x ∈ expectedAt atoms (pre ++ rest.take k) := by
  induction rest generalizing pre state with
  | nil =>
    simp only [scanFrom, List.length_nil, Nat.le_zero_eq]
    rw [report_mem h state pre hst]
    constructor
    · intro hx; exact ⟨0, rfl, by simpa using hx⟩
    · rintro ⟨k, rfl, hx⟩; simpa using hx
  | cons c t ih =>
    simp only [scanFrom, List.mem_append]
    have hstep := h.step _ hst c.toNat c.toNat_lt
    simp only [UInt8.ofNat_toNat] at hstep
    rw [← lsuf_step _ (nil_mem_of_cert h) (prefixClosed_of_cert h)] at hstep
    have ih' := ih (pre ++ [c]) _ hstep
    simp only [List.length_append, List.length_singleton] at ih'
    rw [report_mem h state pre hst, ih']
    constructor
    · rintro (hx | ⟨k, hk, hx⟩)
      · exact ⟨0, Nat.zero_le _, by simpa using hx⟩
      · refine ⟨k + 1, by simp; omega, ?_⟩
        simpa [List.take_succ_cons, List.append_assoc] using hx
    · rintro ⟨k, hk, hx⟩
      cases k with
      | zero => left; simpa using hx
      | succ k =>
        right
        refine ⟨k, by simp at hk; omega, ?_⟩
        simpa [List.take_succ_cons, List.append_assoc] using hx

end YaraModel.AC
