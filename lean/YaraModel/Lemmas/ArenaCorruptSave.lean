/- The corruption lemmas instantiated on `save a`: the field that is overwritten is addressed by its index, the new
   value is any value other than the one stored in the file. -/
import YaraModel.Lemmas.ArenaCorruptLast
namespace YaraModel.Arena
open YaraModel.Gen.ArenaLayout

theorem split_at {α : Type} (l : List α) (i : Nat) (hi : i < l.length) :
    ∃ pre u post, l = pre ++ u :: post ∧ pre.length = i := by
  refine ⟨l.take i, l[i], l.drop (i + 1), ?_, by rw [List.length_take]; omega⟩
  conv => lhs; rw [← List.take_append_drop i l]
  rw [List.drop_eq_getElem_cons hi]

theorem sum_mod_le (l : List Nat) : (l.map (· % 2 ^ 32)).sum ≤ l.length * 2 ^ 32 := by
  induction l with
  | nil => simp
  | cons x t ih =>
    simp only [List.map_cons, List.sum_cons, List.length_cons]
    have := Nat.mod_lt x (show 0 < 2 ^ 32 by decide)
    rw [Nat.add_mul]
    omega

theorem rdLE_after_header (k n : Nat) (x : Bytes) (j : Nat) : rdLE k (header n ++ x) (headerSize + j) = rdLE k x j := by
  simp only [rdLE]
  rw [drop_append_len_add (length_header n)]

theorem bodies_length (a : Arena) : ((bodies a).map (·.length)).length = a.bufs.length := by simp [bodies]

/-- the value stored in the offset field of entry `i` of a saved image -/
theorem save_offset_field (a : Arena) (i : Nat) (hi : i < a.bufs.length) :
    rdLE tblOffsetSize (save a) (offsetFieldAt i) =
      (headerSize + tableEntrySize * a.bufs.length + ((((bodies a).map (·.length)).take i).map (· % 2 ^ 32)).sum) % 2 ^ 64 := by
  rw [save_split]
  unfold offsetFieldAt
  rw [Nat.add_assoc, rdLE_after_header, rdLE_offset_table _ _ _ i (by rw [bodies_length]; exact hi)]

/-- the value stored in the size field of entry `i` of a saved image -/
theorem save_size_field (a : Arena) (i : Nat) (hi : i < a.bufs.length) :
    rdLE tblSizeSize (save a) (sizeFieldAt i) = (a.bufAt i).data.length % 2 ^ 32 := by
  rw [save_split]
  unfold sizeFieldAt
  rw [Nat.add_assoc, rdLE_after_header, rdLE_size_table _ _ _ i (by rw [bodies_length]; exact hi)]
  congr 1
  simp only [bodies, List.map_map, Arena.bufAt, List.getD_eq_getElem?_getD, List.getElem?_map]
  cases a.bufs[i]? <;> rfl

theorem save_patch_magic (cfg : LoaderCfg) (alloc : Nat → Nat) (a : Arena) (i : Nat) (hi : i < 4) (v : UInt8)
    (hv : v ≠ (save a).getD i 0) : load cfg alloc (patch (save a) i [v]) = .error .invalidFile := by
  rw [save_split] at hv ⊢
  apply load_patch_magic cfg alloc _ _ i hi v
  rw [header_cons] at hv
  have : i = 0 ∨ i = 1 ∨ i = 2 ∨ i = 3 := by omega
  rcases this with rfl | rfl | rfl | rfl <;> simpa [magic] using hv

theorem save_patch_version (cfg : LoaderCfg) (alloc : Nat → Nat) (a : Arena) (v : UInt8)
    (hv : v ≠ (save a).getD hdrVersionOff 0) : load cfg alloc (patch (save a) hdrVersionOff [v]) = .error .unsupportedFileVersion := by
  rw [save_split] at hv ⊢
  apply load_patch_version cfg alloc _ _ v
  rw [header_cons] at hv
  simpa [hdrVersionOff] using hv

theorem save_patch_numbufs (cfg : LoaderCfg) (hoffs : cfg.checksOffsets = true) (alloc : Nat → Nat) {a : Arena} (h : WF a) (v : UInt8)
    (hv : v ≠ (save a).getD hdrNumBuffersOff 0) :
    load cfg alloc (patch (save a) hdrNumBuffersOff [v]) = .error (if v.toNat > maxBuffers then .invalidFile else .corruptFile) := by
  rw [save_split] at hv ⊢
  have hn := h.count
  have hn16 : a.bufs.length ≤ 16 := hn
  rw [header_cons] at hv
  have hv' : v.toNat ≠ a.bufs.length := by
    intro e
    apply hv
    simp only [hdrNumBuffersOff, List.getD_cons_succ, List.getD_cons_zero]
    apply UInt8.toNat_inj.1
    rw [e]; simp; omega
  have hl := bodies_length a
  rw [← hl] at hv' ⊢
  apply load_patch_numbufs cfg hoffs alloc _ (by rw [hl]; exact hn) _ _ v hv'
  intro he
  have h0 : a.bufs.length = 0 := by rw [← hl, he]; rfl
  have hb : a.bufs = [] := List.eq_nil_of_length_eq_zero h0
  have hr : a.relocs = [] := by
    cases hrel : a.relocs with
    | nil => rfl
    | cons r t =>
      have := (h.slots.2 r (by rw [hrel]; exact List.mem_cons_self ..)).2
      omega
  have hbt : bodies (toRefs a) = [] := by
    have := bodies_toRefs_lengths a
    rw [he] at this
    simpa using this
  rw [hbt, hr]; rfl

theorem save_patch_offset (cfg : LoaderCfg) (hoffs : cfg.checksOffsets = true) (alloc : Nat → Nat) (a : Arena)
    (hn : a.bufs.length ≤ maxBuffers) (i : Nat) (hi : i < a.bufs.length) (v : Nat) (hv : v < 2 ^ 64)
    (hne : v ≠ rdLE tblOffsetSize (save a) (offsetFieldAt i)) :
    load cfg alloc (patch (save a) (offsetFieldAt i) (leBytes 8 v)) = .error .corruptFile := by
  rw [save_offset_field a i hi] at hne
  rw [save_split]
  have hl := bodies_length a
  obtain ⟨pre, u, post, hus, hpre⟩ := split_at ((bodies a).map (·.length)) i (by rw [hl]; exact hi)
  have hlen : a.bufs.length = (pre ++ u :: post).length := by rw [← hl, hus]
  have htake : ((bodies a).map (·.length)).take i = pre := by rw [hus, ← hpre]; simp
  rw [htake, hlen] at hne
  rw [hus, hlen]
  rw [← hpre]
  have hn16 : (pre ++ u :: post).length ≤ 16 := by rw [← hlen]; exact hn
  have hsum := sum_mod_le pre
  have hpl : pre.length < 16 := by simp only [List.length_append, List.length_cons] at hn16; omega
  have ho : headerSize + tableEntrySize * (pre ++ u :: post).length + (pre.map (· % 2 ^ 32)).sum < 2 ^ 64 := by
    have : pre.length * 2 ^ 32 ≤ 16 * 2 ^ 32 := Nat.mul_le_mul_right _ (by omega)
    simp only [headerSize, tableEntrySize]
    omega
  rw [Nat.mod_eq_of_lt ho] at hne
  exact load_patch_offset cfg hoffs alloc pre u post (by rw [← hlen]; exact hn) _ v hv ho hne

theorem save_patch_size_inner (cfg : LoaderCfg) (hoffs : cfg.checksOffsets = true) (alloc : Nat → Nat) (a : Arena)
    (hn : a.bufs.length ≤ maxBuffers) (i : Nat) (hi : i + 1 < a.bufs.length) (z : Nat) (hz : z < 2 ^ 32)
    (hne : z ≠ rdLE tblSizeSize (save a) (sizeFieldAt i)) :
    load cfg alloc (patch (save a) (sizeFieldAt i) (leBytes 4 z)) = .error .corruptFile := by
  rw [save_size_field a i (by omega)] at hne
  rw [save_split]
  have hl := bodies_length a
  obtain ⟨pre, u, post, hus, hpre⟩ := split_at ((bodies a).map (·.length)) i (by rw [hl]; omega)
  have hlen : a.bufs.length = (pre ++ u :: post).length := by rw [← hl, hus]
  have hu : (a.bufAt i).data.length = u := by
    have : ((bodies a).map (·.length)).getD i 0 = u := by rw [hus, ← hpre]; simp
    rw [← this]
    simp only [bodies, List.map_map, Arena.bufAt, List.getD_eq_getElem?_getD, List.getElem?_map]
    cases a.bufs[i]? <;> rfl
  rw [hu] at hne
  cases post with
  | nil =>
    exfalso
    simp only [List.length_append, List.length_cons, List.length_nil] at hlen
    omega
  | cons u2 post =>
    rw [hus, hlen]
    rw [← hpre]
    have hn16 : (pre ++ u :: u2 :: post).length ≤ 16 := by rw [← hlen]; exact hn
    have hsum := sum_mod_le pre
    have hpl : pre.length < 16 := by simp only [List.length_append, List.length_cons] at hn16; omega
    have : pre.length * 2 ^ 32 ≤ 16 * 2 ^ 32 := Nat.mul_le_mul_right _ (by omega)
    exact load_patch_size_inner cfg hoffs alloc pre u u2 post (by rw [← hlen]; exact hn) _ z
      (by simp only [headerSize, tableEntrySize]; omega) (by rw [Nat.mod_eq_of_lt hz]; exact hne)

/-! ### the last entry's size -/

/-- what a saved image holds in its registered slots -/
theorem saved_slots_good {a : Arena} (h : WF a) :
    (∀ r ∈ a.relocs, r.buf < (bodies (toRefs a)).length ∧ r.off + 8 ≤ ((bodies (toRefs a)).getD r.buf []).length) ∧
    (∀ r ∈ a.relocs, ∃ x, rd64 ((bodies (toRefs a)).getD r.buf []) r.off = encRef x ∧ GoodD (bodies (toRefs a)) x) := by
  have hlenB : (bodies (toRefs a)).length = a.bufs.length := by rw [toRefs_eq]; simp [bodies]
  have hlen : ∀ j, ((bodies (toRefs a)).getD j []).length = (a.bufAt j).data.length := by
    intro j; rw [bodies_getD, toRefs_eq, bufAt_mapSlots_len]
  constructor
  · intro r hr
    have ⟨h1, h2⟩ := h.slots.2 r hr
    exact ⟨by rw [hlenB]; exact h2, by rw [hlen]; exact h1⟩
  · intro r hr
    refine ⟨(ptrToRef a.bufs (getSlot a r)).2, ?_, ?_⟩
    · rw [bodies_getD]
      show getSlot (toRefs a) r = _
      rw [toRefs_eq, getSlot_mapSlots _ h.slots hr, Nat.mod_eq_of_lt (encRef_lt _)]
    · rcases h.valid r hr with h0 | ⟨j, hj, hh⟩
      · rw [h0, ptrToRef_zero]; exact Or.inl rfl
      · rw [ptrToRef_hit h.ranges hj hh]
        unfold Hits at hh
        refine Or.inr ⟨_, rfl, by rw [hlenB]; exact hj, ?_⟩
        show getSlot a r - (a.bufs.getD j {}).base < ((bodies (toRefs a)).getD j []).length
        rw [hlen]; unfold Arena.bufAt; omega

theorem split_last {α : Type} (l : List α) (m : Nat) (hm : l.length = m + 1) (dflt : α) :
    l = l.take m ++ [l.getD m dflt] := by
  obtain ⟨pre, u, post, hl, hpre⟩ := split_at l m (by omega)
  have hpost : post = [] := by
    apply List.eq_nil_of_length_eq_zero
    have := congrArg List.length hl
    simp only [List.length_append, List.length_cons] at this
    omega
  subst hpost
  rw [hl, ← hpre]
  simp

/-- the saved image of an arena with m+1 buffers, in the shape the last-entry lemmas want -/
theorem save_last_shape (a : Arena) (m : Nat) (hm : a.bufs.length = m + 1) :
    ∃ dpre dlast, bodies (toRefs a) = dpre ++ [dlast] ∧ dpre.length = m ∧ dlast.length = (a.bufAt m).data.length ∧
      (∀ d ∈ dpre, ∃ b ∈ a.bufs, d.length = b.data.length) ∧
      save a = header (dpre.length + 1) ++ (table (headerSize + tableEntrySize * (dpre.length + 1)) (dpre.map (·.length) ++ [dlast.length]) ++
        (dpre.flatten ++ (dlast ++ relocBytes a.relocs))) := by
  have hlenB : (bodies (toRefs a)).length = m + 1 := by rw [toRefs_eq]; simp [bodies, hm]
  have hsp := split_last (bodies (toRefs a)) m hlenB []
  refine ⟨(bodies (toRefs a)).take m, (bodies (toRefs a)).getD m [], hsp, by rw [List.length_take]; omega, ?_, ?_, ?_⟩
  · rw [bodies_getD, toRefs_eq, bufAt_mapSlots_len]
  · intro d hd
    have hd' : d ∈ bodies (toRefs a) := List.mem_of_mem_take hd
    have : d.length ∈ (bodies (toRefs a)).map (·.length) := List.mem_map.2 ⟨d, hd', rfl⟩
    rw [bodies_toRefs_lengths] at this
    simp only [bodies, List.mem_map] at this
    obtain ⟨d', ⟨b, hb, rfl⟩, he⟩ := this
    exact ⟨b, hb, he.symm⟩
  · rw [save_split, hm]
    have hl : ((bodies (toRefs a)).take m).length = m := by rw [List.length_take]; omega
    rw [hl]
    congr 2
    · rw [← bodies_toRefs_lengths]
      conv => lhs; rw [hsp]
      simp
    · conv => lhs; rw [hsp]
      simp [List.append_assoc]

/-- **the size of the last buffer raised**: accepted exactly when a whole number of relocation entries is swallowed -/
theorem save_patch_size_raised (cfg : LoaderCfg) (hh : Hardened cfg) (alloc : Nat → Nat) (hnz : ∀ i, alloc i ≠ 0) {a : Arena} (h : WF a)
    (hs2 : ∀ b ∈ a.bufs, b.data.length ≤ 2 ^ 31) (m : Nat) (hm : a.bufs.length = m + 1) (z : Nat) (hz : z < 2 ^ 32)
    (hgt : (a.bufAt m).data.length < z) :
    ((∃ A, load cfg alloc (patch (save a) (sizeFieldAt m) (leBytes 4 z)) = .ok A) ↔
      ((z - (a.bufAt m).data.length) % 8 = 0 ∧ z - (a.bufAt m).data.length ≤ 8 * a.relocs.length ∧ CapOk z)) ∧
    (((z - (a.bufAt m).data.length) % 8 = 0 ∧ z - (a.bufAt m).data.length ≤ 8 * a.relocs.length ∧ CapOk z) →
      ∃ A, load cfg alloc (patch (save a) (sizeFieldAt m) (leBytes 4 z)) = .ok A ∧
        A.relocs = a.relocs.drop ((z - (a.bufAt m).data.length) / 8)) ∧
    (¬ ((z - (a.bufAt m).data.length) % 8 = 0 ∧ z - (a.bufAt m).data.length ≤ 8 * a.relocs.length ∧ CapOk z) →
      load cfg alloc (patch (save a) (sizeFieldAt m) (leBytes 4 z)) =
        .error (if CapOk z then .corruptFile else .insufficientMemory)) := by
  obtain ⟨dpre, dlast, hds, hpl, hdl, hdpre, hsave⟩ := save_last_shape a m hm
  have hn : dpre.length + 1 ≤ maxBuffers := by rw [hpl, ← hm]; exact h.count
  have hs : ∀ d ∈ dpre, d.length ≤ 2 ^ 31 := by
    intro d hd
    obtain ⟨b, hb, he⟩ := hdpre d hd
    rw [he]; exact hs2 b hb
  subst hpl
  rw [hsave, ← hdl]
  have hgood' : ((z - dlast.length) % 8 = 0 ∧ z - dlast.length ≤ 8 * a.relocs.length ∧ CapOk z) →
      ∃ A, load cfg alloc (patch (header (dpre.length + 1) ++
        (table (headerSize + tableEntrySize * (dpre.length + 1)) (dpre.map (·.length) ++ [dlast.length]) ++
          (dpre.flatten ++ (dlast ++ relocBytes a.relocs)))) (sizeFieldAt dpre.length) (leBytes 4 z)) = .ok A ∧
        A.relocs = a.relocs.drop ((z - dlast.length) / 8) := by
    rintro ⟨h8, hle, hcap⟩
    obtain ⟨hin, hgood⟩ := saved_slots_good h
    rw [hds] at hin hgood
    have hzj : dlast.length + 8 * ((z - dlast.length) / 8) = z := by rw [hdl] at h8 ⊢; omega
    have := load_patch_size_raised_ok cfg alloc hnz dpre dlast hn hs a.relocs ((z - dlast.length) / 8) (by omega)
      (by rw [hzj]; exact ⟨hz, hcap⟩) h.slots.1 hin hgood
    rw [hzj] at this
    exact this
  have hbad' : ¬ ((z - dlast.length) % 8 = 0 ∧ z - dlast.length ≤ 8 * a.relocs.length ∧ CapOk z) →
      load cfg alloc (patch (header (dpre.length + 1) ++
        (table (headerSize + tableEntrySize * (dpre.length + 1)) (dpre.map (·.length) ++ [dlast.length]) ++
          (dpre.flatten ++ (dlast ++ relocBytes a.relocs)))) (sizeFieldAt dpre.length) (leBytes 4 z)) =
        .error (if CapOk z then .corruptFile else .insufficientMemory) := by
    intro hbad
    rw [load_patch_size_raised_bad cfg hh alloc dpre dlast hn hs a.relocs z hz (by rw [hdl]; exact hgt) hbad]
    unfold CapOk
    by_cases hc : newCap loadInitialSize 0 0 z > 2 ^ maxBufferSizeLog2
    · simp [hc]
    · simp [hc]
  refine ⟨⟨?_, fun hc => ?_⟩, hgood', hbad'⟩
  · rintro ⟨A, hA⟩
    apply Classical.byContradiction
    intro hbad
    rw [hbad' hbad] at hA
    cases hA
  · obtain ⟨A, hA, _⟩ := hgood' hc
    exact ⟨A, hA⟩

/-- **the size of the last buffer lowered** -/
theorem save_patch_size_lowered (cfg : LoaderCfg) (alloc : Nat → Nat) {a : Arena} (hn : a.bufs.length ≤ maxBuffers)
    (hs2 : ∀ b ∈ a.bufs, b.data.length ≤ 2 ^ 31) (m : Nat) (hm : a.bufs.length = m + 1) (z : Nat)
    (hlt : z < (a.bufAt m).data.length) :
    load cfg alloc (patch (save a) (sizeFieldAt m) (leBytes 4 z)) =
      applyRelocs cfg { bufs := loadedBufs alloc 0 ((bodies (toRefs a)).take m ++ [((bodies (toRefs a)).getD m []).take z]),
                        relocs := [], init := loadInitialSize }
        (((bodies (toRefs a)).getD m []).drop z ++ relocBytes a.relocs) := by
  obtain ⟨dpre, dlast, hds, hpl, hdl, hdpre, hsave⟩ := save_last_shape a m hm
  have hn' : dpre.length + 1 ≤ maxBuffers := by rw [hpl, ← hm]; exact hn
  have hs : ∀ d ∈ dpre, d.length ≤ 2 ^ 31 := by
    intro d hd
    obtain ⟨b, hb, he⟩ := hdpre d hd
    rw [he]; exact hs2 b hb
  have hdl31 : dlast.length ≤ 2 ^ 31 := by
    rw [hdl]; exact hs2 _ (mem_iff_getD.2 ⟨m, by omega, rfl⟩)
  subst hpl
  have htake : (bodies (toRefs a)).take dpre.length = dpre := by rw [hds]; simp
  have hget : (bodies (toRefs a)).getD dpre.length [] = dlast := by rw [hds]; simp
  rw [hsave, htake, hget]
  exact load_patch_size_lowered cfg alloc dpre dlast hn' hs hdl31 _ z (by rw [hdl]; exact hlt)

theorem save_patch_size_lowered_dvd (cfg : LoaderCfg) (hh : Hardened cfg) (alloc : Nat → Nat) {a : Arena} (hn : a.bufs.length ≤ maxBuffers)
    (hs2 : ∀ b ∈ a.bufs, b.data.length ≤ 2 ^ 31) (m : Nat) (hm : a.bufs.length = m + 1) (z : Nat)
    (hlt : z < (a.bufAt m).data.length) :
    (∃ A', load cfg alloc (patch (save a) (sizeFieldAt m) (leBytes 4 z)) = .ok A' ∧ ((a.bufAt m).data.length - z) % 8 = 0) ∨
      load cfg alloc (patch (save a) (sizeFieldAt m) (leBytes 4 z)) = .error .corruptFile := by
  obtain ⟨dpre, dlast, hds, hpl, hdl, hdpre, hsave⟩ := save_last_shape a m hm
  have hn' : dpre.length + 1 ≤ maxBuffers := by rw [hpl, ← hm]; exact hn
  have hs : ∀ d ∈ dpre, d.length ≤ 2 ^ 31 := by
    intro d hd
    obtain ⟨b, hb, he⟩ := hdpre d hd
    rw [he]; exact hs2 b hb
  have hdl31 : dlast.length ≤ 2 ^ 31 := by
    rw [hdl]; exact hs2 _ (mem_iff_getD.2 ⟨m, by omega, rfl⟩)
  subst hpl
  rw [hsave, ← hdl]
  exact load_patch_size_lowered_dvd cfg hh alloc dpre dlast hn' hs hdl31 a.relocs z (by rw [hdl]; exact hlt)

end YaraModel.Arena
