import YaraModel.Spec.Externals
namespace YaraModel.Ext

theorem lookup_setVal (vs : List Var) (n m : String) (x : Val) :
    lookup (setVal vs n x) m =
      (lookup vs m).map (fun v => if v.name == n then { v with val := x } else v) := by
  unfold lookup setVal
  rw [List.find?_map]
  congr 1
  congr 1
  funext a
  simp only [Function.comp]
  split <;> rfl

theorem lookup_name {vs : List Var} {n : String} {v : Var} (h : lookup vs n = some v) : v.name = n := by
  unfold lookup at h
  have := List.find?_some h
  simpa using this

theorem lookup_append (vs : List Var) (v : Var) (m : String) :
    lookup (vs ++ [v]) m = match lookup vs m with
      | some x => some x
      | none => if v.name == m then some v else none := by
  unfold lookup
  rw [List.find?_append]
  cases hm : List.find? (fun v => v.name == m) vs <;> simp [List.find?_cons]
  split <;> simp_all

/-- `tv` of a looked-up variable after `setVal` -/
theorem tv_lookup_setVal (vs : List Var) (n m : String) (x : Val) :
    (lookup (setVal vs n x) m).map tv =
      match (lookup vs m).map tv with
      | some (t, y) => if n = m then some (t, x) else some (t, y)
      | none => none := by
  rw [lookup_setVal]
  cases h : lookup vs m with
  | none => simp
  | some v =>
    have hn := lookup_name h
    simp only [Option.map_some, tv]
    by_cases hnm : n = m
    · subst hnm; simp [hn]
    · have : (v.name == n) = false := by simp [hn]; exact fun h => hnm h.symm
      simp [this, hnm]

end YaraModel.Ext
