/- C14 helper lemmas: table-driven CRC-32 = bitwise CRC-32; checksum32 = sum mod 2^32. -/
import YaraModel.Model.HashMath
import YaraModel.Spec.HashMath
namespace YaraModel.HM
open Spec

/-! ### the bit step on `BitVec 32` -/

def bstep (c : BitVec 32) : BitVec 32 :=
  if c.getLsbD 0 then (c >>> 1) ^^^ 0xEDB88320#32 else c >>> 1

def bstep8 (c : BitVec 32) : BitVec 32 := bstep (bstep (bstep (bstep (bstep (bstep (bstep (bstep c)))))))

theorem and_one_eq (c : BitVec 32) : (c &&& 1#32 = 1#32) ↔ c.getLsbD 0 = true := by
  constructor
  · intro h
    have := congrArg (·.getLsbD 0) h
    simpa using this
  · intro h
    apply BitVec.eq_of_getLsbD_eq
    intro i hi
    cases i with
    | zero => simpa using h
    | succ n => simp

theorem crcStep_toBitVec (c : UInt32) : (crcStep c).toBitVec = bstep c.toBitVec := by
  unfold crcStep bstep
  have h : (c &&& 1 = 1) ↔ (c.toBitVec &&& 1#32 = 1#32) := by
    rw [← UInt32.toBitVec_inj]; simp
  simp only [h, and_one_eq]
  split <;> simp_all <;> rfl

theorem crcBit8_toBitVec (c : UInt32) : (crcBit8 c).toBitVec = bstep8 c.toBitVec := by
  simp [crcBit8, bstep8, crcStep_toBitVec]

theorem bstep_xor (a b : BitVec 32) : bstep (a ^^^ b) = bstep a ^^^ bstep b := by
  unfold bstep
  simp only [BitVec.getLsbD_xor, BitVec.ushiftRight_xor_distrib]
  cases a.getLsbD 0 <;> cases b.getLsbD 0 <;> simp
  · ac_rfl
  · ac_rfl
  · have h : ∀ (p x y : BitVec 32), (x ^^^ p) ^^^ (y ^^^ p) = x ^^^ y := by
      intro p x y
      calc (x ^^^ p) ^^^ (y ^^^ p) = (x ^^^ y) ^^^ (p ^^^ p) := by ac_rfl
        _ = x ^^^ y := by simp
    exact (h _ _ _).symm

theorem bstep8_xor (a b : BitVec 32) : bstep8 (a ^^^ b) = bstep8 a ^^^ bstep8 b := by
  simp [bstep8, bstep_xor]

theorem maskHi_bit : ∀ i : Fin 32, (0xFFFFFF00#32).getLsbD i.val = decide (8 ≤ i.val) := by decide
theorem maskLo_bit : ∀ i : Fin 32, (0xFF#32).getLsbD i.val = decide (i.val < 8) := by decide

theorem split_lo_hi (a : BitVec 32) : a = (a &&& 0xFF#32) ^^^ (a &&& 0xFFFFFF00#32) := by
  apply BitVec.eq_of_getLsbD_eq
  intro i hi
  have h1 := maskHi_bit ⟨i, hi⟩
  have h2 := maskLo_bit ⟨i, hi⟩
  simp only at h1 h2
  simp only [BitVec.getLsbD_xor, BitVec.getLsbD_and, h1, h2]
  cases a.getLsbD i <;> by_cases h : i < 8 <;> simp [h] <;> omega

theorem hi_shift8 (a : BitVec 32) : (a &&& 0xFFFFFF00#32) >>> 8 = a >>> 8 := by
  apply BitVec.eq_of_getLsbD_eq
  intro i hi
  simp only [BitVec.getLsbD_ushiftRight, BitVec.getLsbD_and]
  by_cases h : 8 + i < 32
  · have h1 := maskHi_bit ⟨8 + i, h⟩
    simp only at h1
    rw [h1]; simp
  · have : a.getLsbD (8 + i) = false := BitVec.getLsbD_of_ge a (8 + i) (by omega)
    simp [this]

theorem bstep_even (a : BitVec 32) (h : a.getLsbD 0 = false) : bstep a = a >>> 1 := by
  unfold bstep; rw [h]; rfl

theorem bstep_shift (a : BitVec 32) (k : Nat) (hk : k < 8) :
    bstep ((a &&& 0xFFFFFF00#32) >>> k) = (a &&& 0xFFFFFF00#32) >>> (k + 1) := by
  rw [bstep_even]
  · rw [BitVec.shiftRight_add]
  · have h1 := maskHi_bit ⟨k, by omega⟩
    simp only at h1
    simp only [BitVec.getLsbD_ushiftRight, BitVec.getLsbD_and, Nat.add_zero, h1]
    simp; omega

/-- eight steps on a word whose low byte is zero only shift -/
theorem bstep8_hi (a : BitVec 32) : bstep8 (a &&& 0xFFFFFF00#32) = a >>> 8 := by
  unfold bstep8
  have h0 := bstep_shift a 0 (by omega)
  simp only [BitVec.ushiftRight_zero] at h0
  rw [h0, bstep_shift a 1 (by omega), bstep_shift a 2 (by omega), bstep_shift a 3 (by omega),
    bstep_shift a 4 (by omega), bstep_shift a 5 (by omega), bstep_shift a 6 (by omega),
    bstep_shift a 7 (by omega)]
  exact hi_shift8 a

/-- the table identity on bit vectors -/
theorem bstep8_split (a : BitVec 32) : bstep8 a = bstep8 (a &&& 0xFF#32) ^^^ (a >>> 8) := by
  conv => lhs; rw [split_lo_hi a]
  rw [bstep8_xor, bstep8_hi]

/-- …and on UInt32 -/
theorem crcBit8_split (x : UInt32) : crcBit8 x = crcBit8 (x &&& 0xFF) ^^^ (x >>> 8) := by
  rw [← UInt32.toBitVec_inj]
  simp only [crcBit8_toBitVec, UInt32.toBitVec_xor, UInt32.toBitVec_and, UInt32.toBitVec_shiftRight]
  have := bstep8_split x.toBitVec
  simpa using this

/-! ### the generated table -/

set_option maxRecDepth 100000 in
/-- Kernel evaluation over the whole finite table (256 entries x 8 bit steps). -/
theorem tab_all : (List.range 256).all (fun i => Gen.crc32Tab[i]! == crcBit i) = true := by
  decide +kernel

theorem tab_entry (i : Nat) (h : i < 256) : Gen.crc32Tab[i]! = crcBit i := by
  have := List.all_eq_true.mp tab_all i (List.mem_range.mpr h)
  simpa using this

theorem and_ff_lt (x : UInt32) : (x &&& 0xFF).toNat < 256 := by
  rw [UInt32.toNat_and]
  exact Nat.lt_of_le_of_lt Nat.and_le_right (by decide)

theorem byte_shift8 (b : UInt8) : b.toUInt32 >>> 8 = 0 := by
  rw [← UInt32.toNat_inj]
  simp [UInt32.toNat_shiftRight, Nat.shiftRight_eq_div_pow]
  have := b.toNat_lt
  omega

/-- The loop body of the C code is eight bit steps of the definition. -/
theorem crcTabStep_eq (c : UInt32) (b : UInt8) : crcTabStep c b = crcBit8 (c ^^^ b.toUInt32) := by
  unfold crcTabStep
  rw [tab_entry _ (and_ff_lt _), crcBit8_split (c ^^^ b.toUInt32)]
  unfold crcBit
  rw [UInt32.ofNat_toNat]
  have h : (c ^^^ b.toUInt32) >>> 8 = c >>> 8 := by
    rw [← UInt32.toBitVec_inj]
    have hb := congrArg UInt32.toBitVec (byte_shift8 b)
    simp only [UInt32.toBitVec_shiftRight, UInt32.toBitVec_xor] at hb ⊢
    have e : (UInt32.toBitVec 8 % 32) = 8#32 := by decide
    rw [e, BitVec.ushiftRight_eq'] at hb ⊢
    rw [BitVec.ushiftRight_xor_distrib, hb]
    simp
  rw [h]

theorem foldl_crcTabStep (bs : Bytes) (c : UInt32) :
    bs.foldl crcTabStep c = bs.foldl (fun c b => crcBit8 (c ^^^ b.toUInt32)) c := by
  induction bs generalizing c with
  | nil => rfl
  | cons b bs ih => simp only [List.foldl_cons, crcTabStep_eq, ih]

theorem tableCrc_eq (bs : Bytes) : tableCrc bs = bitwiseCrc bs := by
  unfold tableCrc bitwiseCrc
  rw [foldl_crcTabStep]

theorem foldl_chunks {α : Type} (f : α → UInt8 → α) (chunks : List Bytes) (a : α) :
    chunks.foldl (fun c ch => ch.foldl f c) a = chunks.flatten.foldl f a := by
  induction chunks generalizing a with
  | nil => rfl
  | cons ch chunks ih => simp only [List.foldl_cons, List.flatten_cons, List.foldl_append, ih]

theorem tableCrcChunks_eq (chunks : List Bytes) : tableCrcChunks chunks = bitwiseCrc chunks.flatten := by
  unfold tableCrcChunks
  rw [foldl_chunks, ← tableCrc_eq]
  rfl

/-! ### checksum32 -/

theorem foldl_ckStep (bs : Bytes) (c : UInt32) :
    (bs.foldl ckStep c).toNat = (c.toNat + sumBytes bs) % 4294967296 := by
  induction bs generalizing c with
  | nil => simp [sumBytes]
  | cons b bs ih =>
    simp only [List.foldl_cons, ih, ckStep, sumBytes, List.map_cons, List.sum_cons]
    rw [UInt32.toNat_add]
    simp only [UInt8.toNat_toUInt32]
    omega

theorem checksum32_eq (bs : Bytes) : (HM.checksum32 bs).toNat = Spec.checksum32 bs := by
  unfold HM.checksum32 Spec.checksum32
  rw [foldl_ckStep]; simp

theorem checksum32Chunks_eq (chunks : List Bytes) :
    (checksum32Chunks chunks).toNat = Spec.checksum32 chunks.flatten := by
  unfold checksum32Chunks
  rw [foldl_chunks]
  exact checksum32_eq _

end YaraModel.HM
