/- helper lemmas for Thm/C04.lean: readers, quantifier counting, integer ranges -/
import YaraModel.Model.CondCompile
namespace YaraModel.Cond
open YaraModel YaraModel.C YaraModel.CondVm YaraModel.Gen.VmOps

theorem isUndef_UNDEF : isUndef UNDEF = true := by decide

/-- (also makes Lean generate `eval`'s unfolding lemmas in this module rather than in Thm/) -/
theorem eval_int (env : Env) (l : LEnv) (v : Int) : eval env l (.int v) = .int v := by simp [eval]

/-! ### readers -/

/-- the offset the VM computes from an undefined operand: `(size_t) YR_UNDEFINED` -/
theorem undef_offset : (UNDEF % W64).toNat = 18445260673521474303 := by decide

/-- no block of a sane address space (ending at or below 2^63) contains the sentinel offset -/
theorem readFits_sentinel (base size n : Nat) (h : base + size ≤ 9223372036854775808) :
    Gen.ReadFn.readFits base size n 18445260673521474303 = false := by
  unfold Gen.ReadFn.readFits Gen.ReadFn.W
  simp only [Bool.and_eq_false_iff, decide_eq_false_iff_not]
  omega

theorem readBlocks_sentinel (blocks : List (Nat × Bytes)) (n : Nat)
    (h : ∀ b ∈ blocks, b.1 + b.2.length ≤ 9223372036854775808) :
    readBlocks blocks 18445260673521474303 n = none := by
  induction blocks with
  | nil => rfl
  | cons b rest ih =>
    obtain ⟨base, data⟩ := b
    have hb := h (base, data) (by simp)
    simp only [readBlocks, readFits_sentinel base data.length n hb]
    exact ih (fun b hb' => h b (by simp [hb']))

/-- the regenerated C range test, for a block that does not wrap around the address space, is the
    specification's containment test (this needs the `size >= sizeof` underflow guard of the macro) -/
theorem readFits_iff (base size n off : Nat) (hv : base + size < 18446744073709551616) :
    Gen.ReadFn.readFits base size n off = true ↔ base ≤ off ∧ n ≤ size ∧ off + n ≤ base + size := by
  unfold Gen.ReadFn.readFits Gen.ReadFn.W
  simp only [Bool.and_eq_true, decide_eq_true_eq]
  constructor
  · rintro ⟨⟨h1, h2⟩, h3⟩
    have : (base + size) % 18446744073709551616 = base + size := Nat.mod_eq_of_lt hv
    rw [this] at h3
    have h4 : (base + size + 18446744073709551616 - n) % 18446744073709551616 = base + size - n := by
      have : base + size + 18446744073709551616 - n = (base + size - n) + 18446744073709551616 := by omega
      rw [this, Nat.add_mod_right]
      exact Nat.mod_eq_of_lt (by omega)
    rw [h4] at h3
    omega
  · rintro ⟨h1, h2, h3⟩
    have : (base + size) % 18446744073709551616 = base + size := Nat.mod_eq_of_lt hv
    rw [this]
    have h4 : (base + size + 18446744073709551616 - n) % 18446744073709551616 = base + size - n := by
      have : base + size + 18446744073709551616 - n = (base + size - n) + 18446744073709551616 := by omega
      rw [this, Nat.add_mod_right]
      exact Nat.mod_eq_of_lt (by omega)
    rw [h4]
    omega

theorem readBlocks_eq_readBytes (blocks : List (Nat × Bytes)) (off n : Nat)
    (hv : ∀ b ∈ blocks, b.1 + b.2.length < 18446744073709551616) :
    readBlocks blocks off n = readBytes blocks off n := by
  induction blocks with
  | nil => rfl
  | cons b rest ih =>
    obtain ⟨base, data⟩ := b
    have hb := hv (base, data) (by simp)
    have ih' := ih (fun b hb' => hv b (by simp [hb']))
    simp only [readBlocks, readBytes]
    by_cases hf : Gen.ReadFn.readFits base data.length n off = true
    · have := (readFits_iff base data.length n off hb).mp hf
      simp [hf, this]
    · have hn : ¬ (base ≤ off ∧ n ≤ data.length ∧ off + n ≤ base + data.length) :=
        fun h => hf ((readFits_iff base data.length n off hb).mpr h)
      simp only [Bool.not_eq_true] at hf
      simp [hf, hn, ih']

theorem prim_reader {fo : FloatOps} (blocks : List (Nat × Bytes)) (name : String) (sz : Nat) (sg be : Bool) (a : Int)
    (h : readerOf name = some (sz, sg, be)) : prim fo blocks name [a] = readPrim blocks sz sg be a := by
  simp only [prim, h]

/-! ### counting -/

theorem countTrue_map {α : Type} (f : α → Val) (xs : List α) :
    countTrue (xs.map f) = xs.countP (fun x => asBool (f x)) := by
  unfold countTrue
  rw [List.countP_map]
  rfl

theorem mem_intRange (a b : Int) (v : Val) :
    v ∈ intRange (.int a) (.int b) ↔ ∃ i : Int, a ≤ i ∧ i ≤ b ∧ v = .int i := by
  simp only [intRange, List.mem_map, List.mem_range]
  constructor
  · rintro ⟨k, hk, rfl⟩
    exact ⟨a + k, by omega, by omega, rfl⟩
  · rintro ⟨i, h1, h2, rfl⟩
    exact ⟨(i - a).toNat, by omega, by congr 1; omega⟩

theorem intRange_length (a b : Int) : (intRange (.int a) (.int b)).length = (b - a + 1).toNat := by
  simp [intRange]

end YaraModel.Cond
