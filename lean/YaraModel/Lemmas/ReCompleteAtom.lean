/-
  VM completeness for the verification runs of a hex string around an atom (`_yr_scan_verify_re_match`): the forward run
  entered at the atom node's instruction and the backward run entered behind it in the backward code find every match
  that runs through the atom — the converse of Lemmas/ReAtomEntry.lean `verify_from_atom_sound`.
  Built on the direction-generic path lemma `acc_hex` (Lemmas/ReCompleteHex.lean): the part of the pattern that follows
  the hole of the context is walked outwards (`acc_ctx`); no split of the enclosing alternatives is executed on the way.
-/
import YaraModel.Lemmas.ReCompleteHex
import YaraModel.Lemmas.ReCompleteMval
import YaraModel.Lemmas.ReAtomEntry
namespace YaraModel.ReEmit
open YaraModel.Re YaraModel.ReVm

/-- the contexts of grammar-shaped hex patterns -/
def CtxG : Ctx → Prop
  | .hole => True
  | .catL c r => CtxG c ∧ HexG r
  | .catR l c => HexAst l ∧ CtxG c
  | .altL c r => CtxG c ∧ HexAst r
  | .altR l c => HexAst l ∧ CtxG c
  | .plusIn _ _ => False

theorem ctxG_of_hexG {x : Re} (hx : AtomLeaf x) : ∀ {c : Ctx}, HexG (c.fill x) → CtxG c
  | .hole, _ => trivial
  | .catL c r, h => by
    simp only [Ctx.fill] at h
    cases h with | seq h1 h2 => exact ⟨ctxG_of_hexG hx h1, h2⟩
  | .catR l c, h => by
    simp only [Ctx.fill] at h
    cases h with | seq h1 h2 => exact ⟨h1.hexAst, ctxG_of_hexG hx h2⟩
  | .altL c r, h => by
    simp only [Ctx.fill] at h
    cases h with | alt h1 h2 _ => exact ⟨ctxG_of_hexG hx h1, h2.hexAst⟩
  | .altR l c, h => by
    simp only [Ctx.fill] at h
    cases h with | alt h1 h2 _ => exact ⟨h1.hexAst, ctxG_of_hexG hx h2⟩
  | .plusIn c g, h => by
    simp only [Ctx.fill] at h
    cases h

theorem ctxG_fill {x : Re} (hx : HexAst x) : ∀ {c : Ctx}, CtxG c → HexAst (c.fill x)
  | .hole, _ => hx
  | .catL _ _, h => .seq (ctxG_fill hx h.1) h.2.hexAst
  | .catR _ _, h => .seq h.1 (ctxG_fill hx h.2)
  | .altL _ _, h => .alt (ctxG_fill hx h.1) h.2
  | .altR _ _, h => .alt h.1 (ctxG_fill hx h.2)
  | .plusIn _ _, h => h.elim

/-- split-id counter at the hole when the code of `c.fill x` starts with counter `s` -/
def idAt : Ctx → Nat → Nat
  | .hole, s => s
  | .catL c _, s => idAt c s
  | .catR l c, s => idAt c (s + nsp l)
  | .altL c _, s => idAt c (s + 1)
  | .altR l c, s => idAt c (s + 1 + nsp l)
  | .plusIn c _, s => idAt c s

section
variable {e : Env}

/-- the part of the pattern after the hole matches between q and t matched bytes -/
def AfterM (D : CDir e) : Ctx → Nat → Nat → Prop
  | .hole, q, t => q = t
  | .catL c r, q, t => ∃ u, q ≤ u ∧ u ≤ t ∧ AfterM D c q u ∧ D.M r u t
  | .catR _ c, q, t => AfterM D c q t
  | .altL c _, q, t => AfterM D c q t
  | .altR _ c, q, t => AfterM D c q t
  | .plusIn _ _, _, _ => False

/-- walking outwards from the hole: what follows the hole, then the continuation of the whole pattern, is an accepting
    path from the end of the hole's code -/
theorem acc_ctx (D : CDir e) (x : Re) : ∀ {c : Ctx}, CtxG c → ∀ {a b q t n s : Nat}, Seg e.code (lower (c.fill x)) a b →
    IdOK e.code (c.fill x) a s → AfterM D c q t → t ≤ e.maxBytes → AccE e (s + nsp (c.fill x)) n { ip := b } t →
    ∃ bx, Seg e.code (lower x) (holePos c a) bx ∧ IdOK e.code x (holePos c a) (idAt c s) ∧
      AccE e (idAt c s + nsp x) (n + (t - q)) { ip := bx } q
  | .hole, _, a, b, q, t, n, s, hseg, hid, haf, _, hK => by
    simp only [AfterM] at haf
    subst haf
    exact ⟨b, hseg, hid, by simpa [idAt, Ctx.fill] using hK⟩
  | .catL c r, hc, a, b, q, t, n, s, hseg, hid, haf, ht, hK => by
    simp only [Ctx.fill, lower] at hseg
    simp only [Ctx.fill, IdOK] at hid
    simp only [Ctx.fill, nsp] at hK
    obtain ⟨u, b1, b2, hafc, hmr⟩ := haf
    cases hseg with | cat s1 s2 =>
    have hm := s1.len
    rw [← hm] at hid
    have k1 := acc_hex D hc.2 s2 hid.2 hmr ht (by rw [Nat.add_assoc]; exact hK)
    obtain ⟨bx, g1, g2, g3⟩ := acc_ctx D x hc.1 s1 hid.1 hafc (by omega) k1
    refine ⟨bx, g1, g2, ?_⟩
    have e1 : n + (t - u) + (u - q) = n + (t - q) := by omega
    rw [← e1]; exact g3
  | .catR l c, hc, a, b, q, t, n, s, hseg, hid, haf, ht, hK => by
    simp only [Ctx.fill, lower] at hseg
    simp only [Ctx.fill, IdOK] at hid
    simp only [Ctx.fill, nsp] at hK
    cases hseg with | cat s1 s2 =>
    have hm := s1.len
    rw [← hm] at hid
    obtain ⟨bx, g1, g2, g3⟩ := acc_ctx D x hc.2 s2 hid.2 haf ht (by rw [Nat.add_assoc]; exact hK)
    simp only [holePos, idAt]
    rw [← hm]
    exact ⟨bx, g1, g2, g3⟩
  | .altL c r, hc, a, b, q, t, n, s, hseg, hid, haf, ht, hK => by
    simp only [Ctx.fill, lower] at hseg
    simp only [Ctx.fill, IdOK] at hid
    simp only [Ctx.fill, nsp] at hK
    cases hseg with | @alt _ _ _ m _ hop hoff sx hj hoff2 sy =>
    have hKm : AccE e (s + 1 + nsp (c.fill x)) n { ip := m } t := by
      intro F2 ex2' l' a' ex'' hex2 hs2
      obtain ⟨F3, hs3⟩ := sync_jump_inv hj hs2
      rw [hoff2] at hs3
      exact hK F3 ex2' l' a' ex'' (fun i hi => by have := hex2 i hi; omega) hs3
    obtain ⟨bx, g1, g2, g3⟩ := acc_ctx D x hc.1 sx hid.2.1 haf ht hKm
    exact ⟨bx, g1, g2, g3⟩
  | .altR l c, hc, a, b, q, t, n, s, hseg, hid, haf, ht, hK => by
    simp only [Ctx.fill, lower] at hseg
    simp only [Ctx.fill, IdOK] at hid
    simp only [Ctx.fill, nsp] at hK
    cases hseg with | @alt _ _ _ m _ hop hoff sx hj hoff2 sy =>
    have hm := sx.len
    rw [hm] at sy
    obtain ⟨bx, g1, g2, g3⟩ := acc_ctx D x hc.2 sy hid.2.2 haf ht
      (by rw [show s + 1 + nsp l + nsp (c.fill x) = s + (1 + nsp l + nsp (c.fill x)) by omega]; exact hK)
    exact ⟨bx, g1, g2, g3⟩
  | .plusIn _ _, hc, _, _, _, _, _, _, _, _, _, _, _ => hc.elim

/-- the code emitted for `r'` (forward emission, then MATCH): its shape, its split ids, and MATCH at the end accepts -/
theorem code_setup (r' : Re) (hr : HexAst r') (hsz : (emit false r' 0).1.length < 32000) (hid : (emit false r' 0).2 ≤ 256)
    (hcode : e.code = ((emit false r' 0).1 ++ [0xAD]).toArray) :
    Seg e.code (lower r') 0 (clen (lower r')) ∧ IdOK e.code r' 0 0 ∧ ∀ L, AccE e (0 + nsp r') 0 { ip := clen (lower r') } L := by
  have hwf := hr.wf
  rw [emit_len hwf] at hsz
  rw [emit_ids hr] at hid
  have hsub : Sub e.code 0 ((emit false r' 0).1 ++ [0xAD]) := by rw [hcode]; exact sub_whole _
  obtain ⟨h1, h2⟩ := sub_append hsub
  have hseg : Seg e.code (lower r') 0 (clen (lower r')) := by
    have := seg_of_emit hwf 0 e.code 0 hsz h1
    simpa using this
  have hmatch : u8 e.code (clen (lower r')) = OP_MATCH := by
    have := h2 0 (by simp)
    rw [emit_len hwf] at this
    simp at this
    rw [this]; rfl
  refine ⟨hseg, idOK_of_emit hr 0 e.code 0 hid h1, fun L => ?_⟩
  intro F ex l a ex' _ hs
  have := (sync_plain_inv (f := { ip := clen (lower r') }) (by rw [show u8 e.code ({ ip := clen (lower r') } : Fiber).ip = OP_MATCH from hmatch]; unfold isCtl; decide)
    (by rw [show u8 e.code ({ ip := clen (lower r') } : Fiber).ip = OP_MATCH from hmatch]; decide) hs).1
  subst this
  exact ⟨_, List.mem_singleton.2 rfl, hmatch⟩

/-- a run entered at the hole's instruction: the hole's pattern, then what follows it -/
theorem complete_from_hole (D : CDir e) (c : Ctx) (x : Re) (hc : CtxG c) (hx : HexG x)
    (hsz : (emit false (c.fill x) 0).1.length < 32000) (hid : (emit false (c.fill x) 0).2 ≤ 256)
    (hcode : e.code = ((emit false (c.fill x) 0).1 ++ [0xAD]).toArray) (hentry : e.entry = holePos c 0)
    (hsc : e.fl.scan = false) (m : Int) (cl : List Nat) (h : exec e = .done m cl)
    (q L : Nat) (hL : L ≤ e.maxBytes) (hm : D.M x 0 q) (hq : q ≤ L) (haf : AfterM D c q L) :
    0 ≤ m ∧ (e.fl.exhaustive = true → L ∈ cl) := by
  obtain ⟨hseg, hids, hend⟩ := code_setup (e := e) (c.fill x) (ctxG_fill hx.hexAst hc) hsz hid hcode
  obtain ⟨bx, g1, g2, g3⟩ := acc_ctx D x hc hseg hids haf hL (hend L)
  have k := acc_hex D hx g1 g2 hm (by omega) g3
  have hacc : AccU e (0 + (L - q) + (q - 0)) { ip := e.entry } 0 := by rw [hentry]; exact k.top
  refine ⟨exec_mval e hsc m cl h _ hacc, fun hx' => ?_⟩
  have := exec_complete e hx' hsc m cl h _ hacc
  rw [D.cs1] at this
  have e1 : (0 + (L - q) + (q - 0)) * 1 = L := by omega
  rw [e1] at this; exact this

/-- a run entered behind the hole's instruction: what follows the hole -/
theorem complete_after_hole (D : CDir e) (c : Ctx) (x : Re) (hc : CtxG c) (hx : AtomLeaf x)
    (hsz : (emit false (c.fill x) 0).1.length < 32000) (hid : (emit false (c.fill x) 0).2 ≤ 256)
    (hcode : e.code = ((emit false (c.fill x) 0).1 ++ [0xAD]).toArray) (hentry : e.entry = holePos c 0 + leafLen x)
    (hsc : e.fl.scan = false) (m : Int) (cl : List Nat) (h : exec e = .done m cl)
    (L : Nat) (hL : L ≤ e.maxBytes) (haf : AfterM D c 0 L) :
    0 ≤ m ∧ (e.fl.exhaustive = true → L ∈ cl) := by
  have hxa : HexAst x := by
    rcases hx with ⟨b, rfl⟩ | ⟨v, m, rfl⟩ | rfl
    · exact .byte b
    · exact .mask v m
    · exact .wild
  obtain ⟨hseg, hids, hend⟩ := code_setup (e := e) (c.fill x) (ctxG_fill hxa hc) hsz hid hcode
  obtain ⟨bx, g1, g2, g3⟩ := acc_ctx D x hc hseg hids haf hL (hend L)
  have hbx : bx = holePos c 0 + leafLen x := by
    have := g1.len
    rw [lower_atomLeaf hx] at this
    simpa [clen] using this
  have hacc : AccU e (0 + (L - 0)) { ip := e.entry } 0 := by rw [hentry, ← hbx]; exact g3.top
  refine ⟨exec_mval e hsc m cl h _ hacc, fun hx' => ?_⟩
  have := exec_complete e hx' hsc m cl h _ hacc
  rw [D.cs1] at this
  simpa using this
end

/-! ### forwards: the part after the atom -/
theorem after_le {fl : Flags} {buf : Bytes} {x : Re} : ∀ {c : Ctx} {p q : Nat}, c.After fl buf x p q → p ≤ q
  | .hole, _, _, h => by simp only [Ctx.After] at h; omega
  | .catL c r, _, _, h => by
    obtain ⟨t, h1, h2⟩ := h
    have := after_le h1; have := Matches.bounds h2; omega
  | .catR _ c, _, _, h => after_le (c := c) h
  | .altL c _, _, _, h => after_le (c := c) h
  | .altR _ c, _, _, h => after_le (c := c) h
  | .plusIn c g, _, _, h => by
    obtain ⟨t, h1, h2⟩ := h
    have := after_le h1; have := Matches.bounds h2; omega

theorem after_bound {fl : Flags} {buf : Bytes} {x : Re} : ∀ {c : Ctx} {p q : Nat}, c.After fl buf x p q → q ≤ max p buf.size
  | .hole, _, _, h => by simp only [Ctx.After] at h; omega
  | .catL c r, _, _, h => by
    obtain ⟨t, h1, h2⟩ := h
    have := after_bound h1; have := Matches.bounds h2; omega
  | .catR _ c, _, _, h => after_bound (c := c) h
  | .altL c _, _, _, h => after_bound (c := c) h
  | .altR _ c, _, _, h => after_bound (c := c) h
  | .plusIn c g, _, _, h => by
    obtain ⟨t, h1, h2⟩ := h
    have := after_bound h1; have := Matches.bounds h2; omega

theorem before_le {fl : Flags} {buf : Bytes} {x : Re} : ∀ {c : Ctx} {p q : Nat}, c.Before fl buf x p q → p ≤ q
  | .hole, _, _, h => by simp only [Ctx.Before] at h; omega
  | .catL c _, _, _, h => before_le (c := c) h
  | .catR l c, _, _, h => by
    obtain ⟨t, h1, h2⟩ := h
    have := before_le h2; have := Matches.bounds h1; omega
  | .altL c _, _, _, h => before_le (c := c) h
  | .altR _ c, _, _, h => before_le (c := c) h
  | .plusIn c g, _, _, h => by
    obtain ⟨t, h1, h2⟩ := h
    have := before_le h2; have := Matches.bounds h1; omega

theorem afterM_fwd {e : Env} (h : FwdByte e) {x : Re} : ∀ {c : Ctx}, CtxG c → ∀ {q t : Nat},
    c.After (specFlags e.fl) e.buf x (e.start + q) (e.start + t) → AfterM (fwdC e h) c q t
  | .hole, _, q, t, ha => by simp only [Ctx.After] at ha; simp only [AfterM]; omega
  | .catL c r, hc, q, t, ha => by
    obtain ⟨u, h1, h2⟩ := ha
    have b1 := after_le h1
    have b2 := Matches.bounds h2
    obtain ⟨u', rfl⟩ : ∃ u', u = e.start + u' := ⟨u - e.start, by omega⟩
    exact ⟨u', by omega, by omega, afterM_fwd h hc.1 h1, h2⟩
  | .catR _ c, hc, _, _, ha => afterM_fwd h (c := c) hc.2 ha
  | .altL c _, hc, _, _, ha => afterM_fwd h (c := c) hc.1 ha
  | .altR _ c, hc, _, _, ha => afterM_fwd h (c := c) hc.2 ha
  | .plusIn _ _, hc, _, _, _ => hc.elim

theorem atomLeaf_hexG {x : Re} (hx : AtomLeaf x) : HexG x := by
  rcases hx with ⟨b, rfl⟩ | ⟨v, m, rfl⟩ | rfl
  · exact .byte b
  · exact .mask v m
  · exact .wild

/-- FORWARD verification run from the atom node's instruction: if the atom's node matches at the candidate offset and the
    rest of the pattern matches behind it up to `start + lf` (within the scan window), the run — exhaustive or not — ends
    with a result >= 0, and the exhaustive run reports `lf` -/
theorem vm_complete_from_atom_fwd (c : Ctx) (x : Re) (hx : AtomLeaf x) (hg : HexG (c.fill x))
    (hsz : (emit false (c.fill x) 0).1.length < 32000) (hid : (emit false (c.fill x) 0).2 ≤ 256)
    (buf : Bytes) (start : Nat) (hst : start ≤ buf.size) (fl : VmFlags) (hw : fl.wide = false) (hb : fl.backwards = false)
    (hsc : fl.scan = false) (fuel : Nat) (m : Int) (cl : List Nat)
    (h : exec { code := (emitCode false (c.fill x)).toArray, entry := holePos c 0, buf := buf, start := start, fl := fl, syncFuel := fuel } = .done m cl)
    (e1 lf : Nat) (hlf : lf ≤ 1024) (hm : Re.Matches (specFlags fl) buf x start (start + e1))
    (ha : c.After (specFlags fl) buf x (start + e1) (start + lf)) :
    0 ≤ m ∧ (fl.exhaustive = true → lf ∈ cl) := by
  obtain ⟨e, he⟩ : ∃ e : Env, e = { code := (emitCode false (c.fill x)).toArray, entry := holePos c 0, buf := buf, start := start, fl := fl, syncFuel := fuel } := ⟨_, rfl⟩
  rw [← he] at h
  have hfb : FwdByte e := by subst he; exact ⟨hw, hb, hst⟩
  have hcg := ctxG_of_hexG hx hg
  have b1 := after_le ha
  have b2 := after_bound ha
  have b3 := Matches.bounds hm
  have hmax : lf ≤ e.maxBytes := by rw [maxBytes_fwd hfb]; subst he; show lf ≤ min (buf.size - start) 1024; omega
  have hr := complete_from_hole (fwdC e hfb) c x hcg (atomLeaf_hexG hx) hsz hid (by subst he; rfl) (by subst he; rfl)
    (by subst he; exact hsc) m cl h e1 lf hmax (by subst he; exact hm) (by omega) (afterM_fwd hfb hcg (by subst he; exact ha))
  subst he
  exact hr

/-! ### backwards: the part before the atom, read through the mirrored context -/
/-- the context of the hole in the mirrored pattern -/
def revCtx : Ctx → Ctx
  | .hole => .hole
  | .catL c r => .catR (rev r) (revCtx c)
  | .catR l c => .catL (revCtx c) (rev l)
  | .altL c r => .altL (revCtx c) (rev r)
  | .altR l c => .altR (rev l) (revCtx c)
  | .plusIn c g => .plusIn (revCtx c) g

theorem revCtx_fill (x : Re) : ∀ c : Ctx, (revCtx c).fill (rev x) = rev (c.fill x)
  | .hole => rfl
  | .catL c r => by simp only [revCtx, Ctx.fill, rev, revCtx_fill x c]
  | .catR l c => by simp only [revCtx, Ctx.fill, rev, revCtx_fill x c]
  | .altL c r => by simp only [revCtx, Ctx.fill, rev, revCtx_fill x c]
  | .altR l c => by simp only [revCtx, Ctx.fill, rev, revCtx_fill x c]
  | .plusIn c g => by simp only [revCtx, Ctx.fill, rev, revCtx_fill x c]

theorem holePos_rev (x : Re) : ∀ (c : Ctx) (a : Nat), holePos (revCtx c) a + leafLen x = bwdPos x c a
  | .hole, a => rfl
  | .catL c r, a => by simp only [revCtx, holePos, bwdPos]; exact holePos_rev x c _
  | .catR l c, a => by simp only [revCtx, holePos, bwdPos]; exact holePos_rev x c _
  | .altL c r, a => by simp only [revCtx, holePos, bwdPos]; exact holePos_rev x c _
  | .altR l c, a => by simp only [revCtx, holePos, bwdPos]; exact holePos_rev x c _
  | .plusIn c g, a => by simp only [revCtx, holePos, bwdPos]; exact holePos_rev x c _

theorem afterM_bwd {e : Env} (h : BwdByte e) {x : Re} : ∀ {c : Ctx}, CtxG (revCtx c) → ∀ {q t : Nat}, q ≤ t → t ≤ e.start →
    c.Before (specFlags e.fl) e.buf x (e.start - t) (e.start - q) → AfterM (bwdC e h) (revCtx c) q t
  | .hole, _, q, t, h1, h2, hb => by simp only [Ctx.Before] at hb; simp only [revCtx, AfterM]; omega
  | .catL c r, hc, _, _, h1, h2, hb => afterM_bwd h (c := c) hc.2 h1 h2 hb
  | .catR l c, hc, q, t, h1, h2, hb => by
    obtain ⟨u, m1, m2⟩ := hb
    have b1 := before_le m2
    have b2 := Matches.bounds m1
    simp only [revCtx, AfterM]
    refine ⟨e.start - u, by omega, by omega, afterM_bwd h (x := x) (c := c) hc.1 (by omega) (by omega) ?_, ⟨by omega, h2, ?_⟩⟩
    · rw [show e.start - (e.start - u) = u by omega]; exact m2
    · rw [rev_rev, show e.start - (e.start - u) = u by omega]; exact m1
  | .altL c _, hc, _, _, h1, h2, hb => afterM_bwd h (c := c) hc.1 h1 h2 hb
  | .altR _ c, hc, _, _, h1, h2, hb => afterM_bwd h (c := c) hc.2 h1 h2 hb
  | .plusIn _ _, hc, _, _, _, _, _ => hc.elim

/-- BACKWARD verification run from behind the atom node's instruction in the backward code: if the part of the pattern
    before the atom matches [start - lb, start) (within the scan window), the exhaustive run reports `lb` -/
theorem vm_complete_from_atom_bwd (c : Ctx) (x : Re) (hx : AtomLeaf x) (hg : HexG (rev (c.fill x)))
    (hsz : (emit true (c.fill x) 0).1.length < 32000) (hid : (emit true (c.fill x) 0).2 ≤ 256)
    (buf : Bytes) (start : Nat) (hst : start ≤ buf.size) (fl : VmFlags) (hw : fl.wide = false) (hb : fl.backwards = true)
    (hsc : fl.scan = false) (fuel : Nat) (m : Int) (cl : List Nat)
    (h : exec { code := (emitCode true (c.fill x)).toArray, entry := bwdPos x c 0, buf := buf, start := start, fl := fl, syncFuel := fuel } = .done m cl)
    (lb : Nat) (hlb : lb ≤ 1024) (hls : lb ≤ start) (hbf : c.Before (specFlags fl) buf x (start - lb) start) :
    0 ≤ m ∧ (fl.exhaustive = true → lb ∈ cl) := by
  obtain ⟨e, he⟩ : ∃ e : Env, e = { code := (emitCode true (c.fill x)).toArray, entry := bwdPos x c 0, buf := buf, start := start, fl := fl, syncFuel := fuel } := ⟨_, rfl⟩
  rw [← he] at h
  have hbb : BwdByte e := by subst he; exact ⟨hw, hb, hst⟩
  rw [← revCtx_fill] at hg
  have hcg := ctxG_of_hexG (by rw [rev_atomLeaf hx]; exact hx) hg
  have hmax : lb ≤ e.maxBytes := by rw [maxBytes_bwd hbb]; subst he; show lb ≤ min start 1024; omega
  rw [emit_rev, ← revCtx_fill, rev_atomLeaf hx] at hsz hid
  have hcode : e.code = ((emit false ((revCtx c).fill x) 0).1 ++ [0xAD]).toArray := by
    subst he; simp only [emitCode, emit_rev]; rw [← revCtx_fill, rev_atomLeaf hx]
  have hr := complete_after_hole (bwdC e hbb) (revCtx c) x hcg hx hsz hid hcode (by subst he; exact (holePos_rev x c 0).symm)
    (by subst he; exact hsc) m cl h lb hmax (afterM_bwd hbb hcg (Nat.zero_le _) (by subst he; exact hls) (by subst he; exact hbf))
  subst he
  exact hr

end YaraModel.ReEmit
