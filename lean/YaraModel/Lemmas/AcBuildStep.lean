/- Aho-Corasick construction, helper lemmas 10: the packing invariant and one iteration of `_yr_ac_build_transition_table` -/
import YaraModel.Lemmas.AcBuildPlace
namespace YaraModel.AC.Build
open YaraModel.Text YaraModel.AC

/-- the packing invariant; `A0` is the automaton handed to the packing pass (all fields but the slots are read from it),
    `pre` the states popped so far. Every used entry carries the offset of its owner state (`back`), so a lookup
    `t[slot x + c + 1]` is valid exactly when `x` has a transition on `c`. -/
structure I4 (A0 : Auto) (P : Pack) (pre : List Nat) : Prop where
  sized : Sized P
  size_eq : P.A.states.size = A0.states.size
  pool_eq : P.A.pool = A0.pool
  frame : ∀ j, noslot (P.A.st j) = noslot (A0.st j)
  hdr : ∀ x, (x = 0 ∨ x ∈ pre) → x < A0.states.size →
    (P.A.st x).slot + 256 < P.t.size ∧ isUsed P.used (P.A.st x).slot = true ∧
    P.t.getD (P.A.st x).slot 0 = mkTransition (P.A.st (A0.st x).failure).slot 0 ∧
    P.m.getD (P.A.st x).slot 0 = UInt32.ofNat (A0.st x).matchesRef ∧
    (x ≠ 0 → (P.A.st x).slot ≠ 0) ∧ (P.ok = true → (P.A.st x).slot < 2 ^ 23) ∧
    ((A0.st x).failure = 0 ∨ (A0.st x).failure ∈ pre)
  root_slot : (P.A.st 0).slot = 0
  inj : ∀ x y, (x = 0 ∨ x ∈ pre) → (y = 0 ∨ y ∈ pre) → x < A0.states.size → y < A0.states.size →
    (P.A.st x).slot = (P.A.st y).slot → x = y
  entry : ∀ p, (p = 0 ∨ p ∈ pre) → p < A0.states.size → ∀ y ∈ (A0.st p).children,
    isUsed P.used ((P.A.st p).slot + (A0.st y).input.toNat + 1) = true ∧
    P.t.getD ((P.A.st p).slot + (A0.st y).input.toNat + 1) 0 =
      mkTransition (if y ∈ pre then (P.A.st y).slot else 0) ((A0.st y).input.toNat + 1) ∧
    (y ∉ pre → (P.A.st y).slot = (P.A.st p).slot + (A0.st y).input.toNat + 1)
  noentry : ∀ p, (p = 0 ∨ p ∈ pre) → p < A0.states.size → ∀ c : UInt8, (∀ y ∈ (A0.st p).children, (A0.st y).input ≠ c) →
    low9 (P.t.getD ((P.A.st p).slot + c.toNat + 1) 0) ≠ c.toNat + 1
  zero : ∀ i, isUsed P.used i = false → P.t.getD i 0 = 0
  back : ∀ i, 1 ≤ low9 (P.t.getD i 0) → low9 (P.t.getD i 0) ≤ i ∧ isUsed P.used (i - low9 (P.t.getD i 0)) = true

theorem noslot_input {a b : State} (h : noslot a = noslot b) : a.input = b.input := by
  simp only [noslot, Prod.mk.injEq] at h; exact h.1
theorem noslot_ref {a b : State} (h : noslot a = noslot b) : a.matchesRef = b.matchesRef := by
  simp only [noslot, Prod.mk.injEq] at h; exact h.2.2.1
theorem noslot_failure {a b : State} (h : noslot a = noslot b) : a.failure = b.failure := by
  simp only [noslot, Prod.mk.injEq] at h; exact h.2.2.2.1
theorem noslot_children {a b : State} (h : noslot a = noslot b) : a.children = b.children := by
  simp only [noslot, Prod.mk.injEq] at h; exact h.2.2.2.2.1

theorem toNat_inj_u8 {a b : UInt8} (h : a.toNat = b.toNat) : a = b := UInt8.toNat_inj.mp h

theorem u8_lt (a : UInt8) : a.toNat < 256 := a.toNat_lt

theorem low9_mkT (a b : Nat) (hb : b < 512) : low9 (mkTransition a b) = b := low9_mk a b hb

/-- one iteration of the packing loop: pop `s`, find its slot, write its row header and the entries of its children -/
theorem packStep_I4 {A0 : Auto} (hT : Trie A0) {P : Pack} {pre : List Nat} (h : I4 A0 P pre) {s p0 : Nat}
    (hs : 0 < s ∧ s < A0.states.size) (hsn : s ∉ pre) (hp0 : (p0 = 0 ∨ p0 ∈ pre) ∧ p0 < A0.states.size)
    (hsp : s ∈ (A0.st p0).children) (hfs : (A0.st s).failure = 0 ∨ (A0.st s).failure ∈ pre)
    (hfsz : (A0.st s).failure < A0.states.size)
    (hkn : ∀ y ∈ (A0.st s).children, y ∉ pre) : I4 A0 (packStep P s) (pre ++ [s]) := by
  -- notation
  have hin : ∀ j, (P.A.st j).input = (A0.st j).input := fun j => noslot_input (h.frame j)
  have hK : (P.A.st s).children = (A0.st s).children := noslot_children (h.frame s)
  have hKlt : ∀ y ∈ (A0.st s).children, s < y ∧ y < A0.states.size := hT.child_lt s hs.2
  -- the slot search
  obtain ⟨f1, f2, f3, f4, f5, f6, f7, f8, f9⟩ := findSlot_spec P s h.sized
  generalize hfsl : findSlot P s = r at f1 f2 f3 f4 f5 f6 f7 f8 f9
  obtain ⟨P1, slot⟩ := r
  simp only at f1 f2 f3 f4 f5 f6 f7 f8 f9
  have hinputs : inputsOf P.A s = (A0.st s).children.map fun y => (A0.st y).input := by
    unfold inputsOf; rw [hK]; apply List.map_congr_left; intro y _; exact hin y
  rw [hinputs, fits_iff] at f8
  obtain ⟨hfree, hfreeK⟩ := f8
  have hfreeK' : ∀ y ∈ (A0.st s).children, isUsed P.used (slot + (A0.st y).input.toNat + 1) = false := by
    intro y hy; exact hfreeK _ (List.mem_map.mpr ⟨y, hy, rfl⟩)
  -- the entry of `s` in its parent's row
  obtain ⟨e1, e2, e3⟩ := h.entry p0 hp0.1 hp0.2 s hsp
  have hown : (P.A.st s).slot = (P.A.st p0).slot + (A0.st s).input.toNat + 1 := e3 hsn
  rw [if_neg hsn] at e2
  rw [← hown] at e1 e2
  obtain ⟨g1, g2, g3, g4, g5, g6, g7⟩ := h.hdr p0 hp0.1 hp0.2
  have hownlt : (P.A.st s).slot < P.t.size := by have := u8_lt (A0.st s).input; omega
  have hown_ne_slot : (P.A.st s).slot ≠ slot := by intro e; rw [e] at e1; rw [e1] at hfree; cases hfree
  -- the state after writing the row header
  unfold packStep
  simp only [hfsl]
  have hKK : ((P1.A.modify s fun x => { x with slot := slot }).st s).children = (A0.st s).children := by
    rw [f1, st_modify_self _ _ _ (by rw [h.size_eq]; exact hs.2)]; exact hK
  rw [hKK]
  generalize hP2 : ({ P1 with
      t := (P1.t.setIfInBounds (P1.A.st s).slot (P1.t.getD (P1.A.st s).slot 0 ||| (UInt32.ofNat slot <<< 9))).setIfInBounds slot
             (mkTransition (P1.A.st (P1.A.st s).failure).slot 0),
      m := P1.m.setIfInBounds slot (UInt32.ofNat (P1.A.st s).matchesRef),
      A := P1.A.modify s fun x => { x with slot := slot },
      used := P1.used.setIfInBounds slot true } : Pack) = P2
  have hP2A : P2.A = P.A.modify s fun x => { x with slot := slot } := by rw [← hP2, f1]
  have hP2st : ∀ j, P2.A.st j = if j = s then { P.A.st s with slot := slot } else P.A.st j := by
    intro j
    rw [hP2A, st_modify]
    by_cases e : j = s
    · subst e; simp [h.size_eq, hs.2]
    · simp [e]
  have hP2in : ∀ j, (P2.A.st j).input = (A0.st j).input := by
    intro j; rw [hP2st]; split
    · rename_i e; rw [e]; exact hin s
    · exact hin j
  have hP2K : (P2.A.st s).children = (A0.st s).children := by rw [hP2st, if_pos rfl]; exact hK
  have hP2sz : P2.A.states.size = A0.states.size := by rw [hP2A, size_modify, h.size_eq]
  have hslotlt : slot < P1.t.size := by omega
  have hP2t : ∀ i, P2.t.getD i 0 = if i = slot then mkTransition (P.A.st (A0.st s).failure).slot 0
      else if i = (P.A.st s).slot then mkTransition slot ((A0.st s).input.toNat + 1) else P.t.getD i 0 := by
    intro i
    rw [← hP2]
    simp only
    rw [getD_set, getD_set, f1, f4, f4, e2, mk_or, noslot_failure (h.frame s)]
    simp only [Array.size_setIfInBounds]
    by_cases e : i = slot
    · simp [e, hslotlt]
    · have : ¬ (i = slot ∧ slot < P1.t.size) := fun hh => e hh.1
      rw [if_neg this, if_neg e]
      by_cases e' : i = (P.A.st s).slot
      · rw [if_pos e', if_pos ⟨e', by omega⟩]
      · have : ¬ (i = (P.A.st s).slot ∧ (P.A.st s).slot < P1.t.size) := fun hh => e' hh.1
        rw [if_neg this, if_neg e']
  have hP2m : ∀ i, P2.m.getD i 0 = if i = slot then UInt32.ofNat (A0.st s).matchesRef else P.m.getD i 0 := by
    intro i
    rw [← hP2]
    simp only
    rw [getD_set, f1, f5, noslot_ref (h.frame s)]
    by_cases e : i = slot
    · simp [e, f2.1, hslotlt]
    · have : ¬ (i = slot ∧ slot < P1.m.size) := fun hh => e hh.1
      rw [if_neg this, if_neg e]
  have hP2u : ∀ i, isUsed P2.used i = if i = slot then true else isUsed P.used i := by
    intro i
    rw [← hP2]
    unfold isUsed
    simp only
    rw [getD_set]
    have := f6 i
    unfold isUsed at this
    rw [this]
    by_cases e : i = slot
    · simp [e, f2.2.1, hslotlt]
    · have : ¬ (i = slot ∧ slot < P1.used.size) := fun hh => e hh.1
      rw [if_neg this, if_neg e]
  have hP2tsz : P2.t.size = P1.t.size := by rw [← hP2]; simp
  have hP2msz : P2.m.size = P1.t.size := by rw [← hP2]; simp [f2.1]
  have hP2usz : P2.used.size = P1.t.size := by rw [← hP2]; simp [f2.2.1]
  have hP2ok : P2.ok = P1.ok := by rw [← hP2]
  have hP2pool : P2.A.pool = A0.pool := by rw [hP2A, pool_modify, h.pool_eq]
  -- the children
  obtain ⟨q1, q2, q3, q4, q5, q6, q7, q8, q9, q10⟩ := placeFold_spec slot (A0.st s).children P2
  generalize hP' : (A0.st s).children.foldl (placeChild slot) P2 = P' at q1 q2 q3 q4 q5 q6 q7 q8 q9 q10
  have childpos_lt : ∀ y ∈ (A0.st s).children, slot + (A0.st y).input.toNat + 1 < P1.t.size := by
    intro y _; have := u8_lt (A0.st y).input; omega
  -- extensional description of the new state
  have hslot' : ∀ j, (P'.A.st j).slot = if j ∈ (A0.st s).children then slot + (A0.st j).input.toNat + 1
      else if j = s then slot else (P.A.st j).slot := by
    intro j
    rw [q8, hP2sz, hP2in, hP2st]
    by_cases e : j ∈ (A0.st s).children
    · rw [if_pos ⟨e, (hKlt j e).2⟩, if_pos e]
    · have : ¬ (j ∈ (A0.st s).children ∧ j < A0.states.size) := fun hh => e hh.1
      rw [if_neg this, if_neg e]
      split <;> rfl
  have ht' : ∀ i, P'.t.getD i 0 = if (∃ y ∈ (A0.st s).children, slot + (A0.st y).input.toNat + 1 = i) then mkTransition 0 (i - slot)
      else if i = slot then mkTransition (P.A.st (A0.st s).failure).slot 0
      else if i = (P.A.st s).slot then mkTransition slot ((A0.st s).input.toNat + 1) else P.t.getD i 0 := by
    intro i
    rw [q9, hP2t, hP2tsz]
    simp only [hP2in]
    by_cases e : ∃ y ∈ (A0.st s).children, slot + (A0.st y).input.toNat + 1 = i
    · obtain ⟨y, hy, hyi⟩ := e
      have hlt := childpos_lt y hy
      rw [if_pos ⟨⟨y, hy, hyi⟩, by omega⟩, if_pos ⟨y, hy, hyi⟩]
    · have : ¬ ((∃ y ∈ (A0.st s).children, slot + (A0.st y).input.toNat + 1 = i) ∧ i < P1.t.size) := fun hh => e hh.1
      rw [if_neg this, if_neg e]
  have hu' : ∀ i, isUsed P'.used i = true ↔
      ((∃ y ∈ (A0.st s).children, slot + (A0.st y).input.toNat + 1 = i) ∨ i = slot ∨ isUsed P.used i = true) := by
    intro i
    rw [q10, hP2u, hP2usz]
    simp only [hP2in]
    by_cases e : ∃ y ∈ (A0.st s).children, slot + (A0.st y).input.toNat + 1 = i
    · obtain ⟨y, hy, hyi⟩ := e
      have hlt := childpos_lt y hy
      rw [if_pos ⟨⟨y, hy, hyi⟩, by omega⟩]
      simp only [true_iff]
      exact Or.inl ⟨y, hy, hyi⟩
    · have : ¬ ((∃ y ∈ (A0.st s).children, slot + (A0.st y).input.toNat + 1 = i) ∧ i < P1.t.size) := fun hh => e hh.1
      rw [if_neg this]
      by_cases e2 : i = slot
      · simp [e2]
      · simp [e, e2]
  have hm' : ∀ i, P'.m.getD i 0 = if i = slot then UInt32.ofNat (A0.st s).matchesRef else P.m.getD i 0 := by
    intro i; rw [q1, hP2m]
  have hframe' : ∀ j, noslot (P'.A.st j) = noslot (A0.st j) := by
    intro j
    rw [q7, hP2st]
    split
    · rename_i e; rw [e]; exact h.frame s
    · exact h.frame j
  have hok' : P'.ok = true → P.ok = true ∧ slot < 2 ^ 23 := by
    intro hh; rw [q2, hP2ok] at hh; exact f9 hh
  -- facts about membership
  have hs_notK : s ∉ (A0.st s).children := fun hh => by have := hKlt s hh; omega
  have hold_notK : ∀ x, (x = 0 ∨ x ∈ pre) → x ∉ (A0.st s).children := by
    intro x hx hh
    rcases hx with hx | hx
    · subst hx; have := hKlt 0 hh; omega
    · exact hkn x hh hx
  have hold_ne_s : ∀ x, (x = 0 ∨ x ∈ pre) → x ≠ s := by
    intro x hx e; subst e
    rcases hx with hx | hx
    · omega
    · exact hsn hx
  have hslot_old : ∀ x, (x = 0 ∨ x ∈ pre) → (P'.A.st x).slot = (P.A.st x).slot := by
    intro x hx
    rw [hslot', if_neg (hold_notK x hx), if_neg (hold_ne_s x hx)]
  have hslot_s : (P'.A.st s).slot = slot := by rw [hslot', if_neg hs_notK, if_pos rfl]
  have hnew_or : ∀ x, (x = 0 ∨ x ∈ pre ++ [s]) → (x = 0 ∨ x ∈ pre) ∨ x = s := by
    intro x hx
    rcases hx with hx | hx
    · exact Or.inl (Or.inl hx)
    · rcases List.mem_append.mp hx with hx | hx
      · exact Or.inl (Or.inr hx)
      · simp at hx; exact Or.inr hx
  have hused_old : ∀ i, isUsed P.used i = true → isUsed P'.used i = true := fun i hi => (hu' i).mpr (Or.inr (Or.inr hi))
  -- a used old position is none of the freshly written ones
  have hnot_new : ∀ i, isUsed P.used i = true → ¬ (∃ y ∈ (A0.st s).children, slot + (A0.st y).input.toNat + 1 = i) ∧ i ≠ slot := by
    intro i hi
    refine ⟨?_, ?_⟩
    · rintro ⟨y, hy, hyi⟩
      have := hfreeK' y hy
      rw [hyi, hi] at this; cases this
    · intro e; rw [e, hfree] at hi; cases hi
  have low9_own : low9 (P.t.getD (P.A.st s).slot 0) = (A0.st s).input.toNat + 1 := by
    rw [e2]; exact low9_mkT _ _ (by have := u8_lt (A0.st s).input; omega)
  constructor
  · -- sized
    exact ⟨by rw [q1, q3, hP2msz, hP2tsz], by rw [q4, q3, hP2usz, hP2tsz], by rw [q3, hP2tsz]; exact f2.2.2⟩
  · rw [q5, hP2sz]
  · rw [q6, hP2pool]
  · exact hframe'
  · -- hdr
    intro x hx hxs
    rw [q3, hP2tsz]
    rcases hnew_or x hx with hx | hx
    · obtain ⟨x1, x2, x3, x4, x5, x6, x7⟩ := h.hdr x hx hxs
      obtain ⟨n1, n2⟩ := hnot_new _ x2
      rw [hslot_old x hx]
      refine ⟨by omega, hused_old _ x2, ?_, ?_, x5, fun hh => x6 (hok' hh).1, ?_⟩
      · rw [ht', if_neg n1, if_neg n2]
        have : (P.A.st x).slot ≠ (P.A.st s).slot := by
          intro e
          have := low9_own
          rw [← e, x3, low9_mkT _ _ (by omega)] at this
          omega
        rw [if_neg this, x3, hslot_old _ x7]
      · rw [hm', if_neg n2, x4]
      · exact x7.imp id (fun hh => List.mem_append_left _ hh)
    · subst hx
      rw [hslot_s]
      refine ⟨f7, (hu' _).mpr (Or.inr (Or.inl rfl)), ?_, ?_, ?_, fun hh => (hok' hh).2, ?_⟩
      · rw [ht']
        have : ¬ (∃ y ∈ (A0.st x).children, slot + (A0.st y).input.toNat + 1 = slot) := by
          rintro ⟨y, _, hy⟩; omega
        rw [if_neg this, if_pos rfl, hslot_old _ hfs]
      · rw [hm', if_pos rfl]
      · intro _ e
        obtain ⟨_, r2, _⟩ := h.hdr 0 (Or.inl rfl) hT.size_pos
        rw [h.root_slot, ← e, hfree] at r2; cases r2
      · exact hfs.imp id (fun hh => List.mem_append_left _ hh)
  · rw [hslot_old 0 (Or.inl rfl)]; exact h.root_slot
  · -- inj
    intro x y hx hy hxs hys he
    rcases hnew_or x hx with ox | ox
    · rcases hnew_or y hy with oy | oy
      · rw [hslot_old x ox, hslot_old y oy] at he
        exact h.inj x y ox oy hxs hys he
      · rw [oy, hslot_old x ox, hslot_s] at he
        have := (h.hdr x ox hxs).2.1
        rw [he, hfree] at this; cases this
    · rcases hnew_or y hy with oy | oy
      · rw [ox, hslot_old y oy, hslot_s] at he
        have := (h.hdr y oy hys).2.1
        rw [← he, hfree] at this; cases this
      · rw [ox, oy]
  · -- entry
    intro p hp hps y hy
    rcases hnew_or p hp with hp | hp
    · obtain ⟨y1, y2, y3⟩ := h.entry p hp hps y hy
      obtain ⟨n1, n2⟩ := hnot_new _ y1
      rw [hslot_old p hp]
      have hyK : y ∉ (A0.st s).children := by
        intro hh
        have := hT.parent_unique hps hs.2 hy hh
        exact hold_ne_s p hp this
      refine ⟨hused_old _ y1, ?_, ?_⟩
      · rw [ht', if_neg n1, if_neg n2]
        by_cases hys : y = s
        · subst hys
          have hpp : p = p0 := hT.parent_unique hps hp0.2 hy hsp
          subst hpp
          rw [← hown, if_pos rfl, if_pos (by simp), hslot_s]
        · have hne : (P.A.st p).slot + (A0.st y).input.toNat + 1 ≠ (P.A.st s).slot := by
            intro e
            have l1 := low9_own
            rw [← e, y2, low9_mkT _ _ (by have := u8_lt (A0.st y).input; omega)] at l1
            have hinp : (A0.st y).input = (A0.st s).input := toNat_inj_u8 (by omega)
            have hsl : (P.A.st p).slot = (P.A.st p0).slot := by omega
            have hpp : p = p0 := h.inj p p0 hp hp0.1 hps hp0.2 hsl
            subst hpp
            have n1' := nextState_of_child hT hps hy
            have n2' := nextState_of_child hT hps hsp
            rw [hinp, n2'] at n1'
            exact hys (Option.some.inj n1').symm
          rw [if_neg hne, y2]
          by_cases hyp : y ∈ pre
          · rw [if_pos hyp, if_pos (List.mem_append_left _ hyp), hslot_old y (Or.inr hyp)]
          · have : y ∉ pre ++ [s] := by simp [hyp, hys]
            rw [if_neg hyp, if_neg this]
      · intro hyn
        have hyp : y ∉ pre := fun hh => hyn (List.mem_append_left _ hh)
        have hys : y ≠ s := fun e => hyn (by simp [e])
        rw [hslot', if_neg hyK, if_neg hys]
        exact y3 hyp
    · subst hp
      rw [hslot_s]
      have hyn : y ∉ pre ++ [p] := by
        intro hh
        rcases List.mem_append.mp hh with hh | hh
        · exact hkn y hy hh
        · simp at hh; subst hh; exact hs_notK hy
      refine ⟨(hu' _).mpr (Or.inl ⟨y, hy, rfl⟩), ?_, fun _ => ?_⟩
      · rw [ht', if_pos ⟨y, hy, rfl⟩, if_neg hyn]
        have : slot + (A0.st y).input.toNat + 1 - slot = (A0.st y).input.toNat + 1 := by omega
        rw [this]
      · rw [hslot', if_pos hy]
  · -- noentry
    intro p hp hps c hno
    rcases hnew_or p hp with hp | hp
    · rw [hslot_old p hp]
      have old := h.noentry p hp hps c hno
      rw [ht']
      split
      · rename_i hex
        obtain ⟨y, hy, hyi⟩ := hex
        rw [low9_mkT _ _ (by have := u8_lt (A0.st y).input; omega)]
        intro e
        have : (P.A.st p).slot = slot := by omega
        have hu := (h.hdr p hp hps).2.1
        rw [this, hfree] at hu; cases hu
      · split
        · rw [low9_mkT _ _ (by omega)]; omega
        · split
          · rename_i e
            rw [low9_mkT _ _ (by have := u8_lt (A0.st s).input; omega), ← low9_own, ← e]
            exact old
          · exact old
    · subst hp
      rw [hslot_s, ht']
      have hnochild : ¬ (∃ y ∈ (A0.st p).children, slot + (A0.st y).input.toNat + 1 = slot + c.toNat + 1) := by
        rintro ⟨y, hy, hyi⟩
        exact hno y hy (toNat_inj_u8 (by omega))
      rw [if_neg hnochild, if_neg (by omega)]
      have hback : ∀ i, i = slot + c.toNat + 1 → low9 (P.t.getD i 0) ≠ c.toNat + 1 := by
        intro i hi e
        have := h.back i (by omega)
        rw [e, hi] at this
        have h2 := this.2
        have : slot + c.toNat + 1 - (c.toNat + 1) = slot := by omega
        rw [this, hfree] at h2; cases h2
      split
      · rename_i e
        rw [low9_mkT _ _ (by have := u8_lt (A0.st p).input; omega), ← low9_own]
        exact hback _ e.symm
      · exact hback _ rfl
  · -- zero
    intro i hi
    have hnu : ¬ isUsed P'.used i = true := by rw [hi]; simp
    rw [hu'] at hnu
    have n1 : ¬ (∃ y ∈ (A0.st s).children, slot + (A0.st y).input.toNat + 1 = i) := fun hh => hnu (Or.inl hh)
    have n2 : i ≠ slot := fun hh => hnu (Or.inr (Or.inl hh))
    have n3 : isUsed P.used i = false := by
      cases hh : isUsed P.used i with
      | false => rfl
      | true => exact absurd (Or.inr (Or.inr hh)) hnu
    have n4 : i ≠ (P.A.st s).slot := by intro e; rw [e, e1] at n3; cases n3
    rw [ht', if_neg n1, if_neg n2, if_neg n4]
    exact h.zero i n3
  · -- back
    intro i hi
    rw [ht'] at hi ⊢
    split at hi
    · rename_i hex
      rw [if_pos hex]
      obtain ⟨y, hy, hyi⟩ := hex
      have hl : low9 (mkTransition 0 (i - slot)) = (A0.st y).input.toNat + 1 := by
        rw [low9_mkT _ _ (by have := u8_lt (A0.st y).input; omega)]; omega
      rw [hl]
      refine ⟨by omega, (hu' _).mpr (Or.inr (Or.inl (by omega)))⟩
    · rename_i hex
      rw [if_neg hex]
      split at hi
      · rw [low9_mkT _ _ (by omega)] at hi; omega
      · rename_i e2'
        rw [if_neg e2']
        split at hi
        · rename_i e3'
          rw [if_pos e3', low9_mkT _ _ (by have := u8_lt (A0.st s).input; omega), ← low9_own, ← e3']
          have := h.back i (by rw [e3', low9_own]; omega)
          exact ⟨this.1, hused_old _ this.2⟩
        · rename_i e3'
          rw [if_neg e3']
          have := h.back i hi
          exact ⟨this.1, hused_old _ this.2⟩

end YaraModel.AC.Build
