/- Byte-level facts about the 8-byte little-endian slots of the arena model (helpers for Thm/C08, C17, C19). -/
import YaraModel.Model.Arena
namespace YaraModel.Arena

theorem leBytes8 (v : Nat) :
    leBytes 8 v = [byteAt v 0, byteAt v 1, byteAt v 2, byteAt v 3, byteAt v 4, byteAt v 5, byteAt v 6, byteAt v 7] := rfl

theorem length_leBytes (k v : Nat) : (leBytes k v).length = k := by simp [leBytes]

theorem getElem?_leBytes (k v i : Nat) : (leBytes k v)[i]? = if i < k then some (byteAt v i) else none := by
  unfold leBytes
  by_cases h : i < k
  · rw [List.getElem?_map, List.getElem?_range h]; simp [h]
  · simp [h]

theorem leVal_leBytes8 (v : Nat) : leVal (leBytes 8 v) = v % 2 ^ 64 := by
  rw [leBytes8]
  simp only [leVal, byteAt, UInt8.toNat_ofNat']
  omega

theorem leVal_step (b : UInt8) (s N : Nat) (hs : s < N) : b.toNat + 256 * s < 256 * N := by
  have := b.toNat_lt
  omega

theorem leVal_lt8 (b0 b1 b2 b3 b4 b5 b6 b7 : UInt8) : leVal [b0, b1, b2, b3, b4, b5, b6, b7] < 2 ^ 64 := by
  have e : (2:Nat) ^ 64 = 256 * (256 * (256 * (256 * (256 * (256 * (256 * (256 * 1))))))) := by decide
  rw [e]
  simp only [leVal]
  exact leVal_step _ _ _ (leVal_step _ _ _ (leVal_step _ _ _ (leVal_step _ _ _ (leVal_step _ _ _
    (leVal_step _ _ _ (leVal_step _ _ _ (leVal_step _ _ _ (by omega))))))))

theorem leBytes_leVal8 (b0 b1 b2 b3 b4 b5 b6 b7 : UInt8) :
    leBytes 8 (leVal [b0, b1, b2, b3, b4, b5, b6, b7]) = [b0, b1, b2, b3, b4, b5, b6, b7] := by
  have h0 := b0.toNat_lt; have h1 := b1.toNat_lt; have h2 := b2.toNat_lt; have h3 := b3.toNat_lt
  have h4 := b4.toNat_lt; have h5 := b5.toNat_lt; have h6 := b6.toNat_lt; have h7 := b7.toNat_lt
  have e : ∀ (b : UInt8) (n : Nat), n = b.toNat → UInt8.ofNat n = b := by
    intro b n h; subst h; simp
  show [byteAt _ 0, byteAt _ 1, byteAt _ 2, byteAt _ 3, byteAt _ 4, byteAt _ 5, byteAt _ 6, byteAt _ 7] = _
  simp only [leVal, byteAt]
  congr 1
  · apply e; omega
  congr 1
  · apply e; omega
  congr 1
  · apply e; omega
  congr 1
  · apply e; omega
  congr 1
  · apply e; omega
  congr 1
  · apply e; omega
  congr 1
  · apply e; omega
  congr 1
  · apply e; omega

theorem leBytes_leVal_of_length {w : Bytes} (h : w.length = 8) : leBytes 8 (leVal w) = w := by
  match w, h with
  | [b0, b1, b2, b3, b4, b5, b6, b7], _ => exact leBytes_leVal8 ..

theorem leVal_lt_of_length {w : Bytes} (h : w.length = 8) : leVal w < 2 ^ 64 := by
  match w, h with
  | [b0, b1, b2, b3, b4, b5, b6, b7], _ => exact leVal_lt8 ..

/-! ### wr64 / rd64 -/

theorem length_wr64 (d : Bytes) (off v : Nat) : (wr64 d off v).length = d.length := by
  unfold wr64; split <;> simp

theorem getElem?_wr64 (d : Bytes) (off v i : Nat) :
    (wr64 d off v)[i]? =
      if off + 8 ≤ d.length ∧ off ≤ i ∧ i < off + 8 then some (byteAt v (i - off)) else d[i]? := by
  unfold wr64
  by_cases h : off + 8 ≤ d.length
  · simp only [h, if_true, true_and]
    rw [List.getElem?_mapIdx]
    by_cases hi : i < d.length
    · simp only [List.getElem?_eq_getElem hi, Option.map_some]
      split <;> rfl
    · have : d[i]? = none := by simp; omega
      simp [this]; omega
  · simp [h]

/-- the 8-byte window at `off` -/
def win (d : Bytes) (off : Nat) : Bytes := (d.drop off).take 8

theorem rd64_eq (d : Bytes) (off : Nat) : rd64 d off = leVal (win d off) := rfl

theorem getElem?_win (d : Bytes) (off i : Nat) : (win d off)[i]? = if i < 8 then d[off + i]? else none := by
  unfold win
  rw [List.getElem?_take]
  split
  · rw [List.getElem?_drop]
  · rfl

theorem length_win {d : Bytes} {off : Nat} (h : off + 8 ≤ d.length) : (win d off).length = 8 := by
  unfold win; simp; omega

theorem win_congr {d d' : Bytes} {off : Nat} (h : ∀ i, i < 8 → d[off + i]? = d'[off + i]?) :
    win d off = win d' off := by
  apply List.ext_getElem?
  intro i
  rw [getElem?_win, getElem?_win]
  split
  · exact h i ‹_›
  · rfl

theorem win_wr64_same {d : Bytes} {off : Nat} (v : Nat) (h : off + 8 ≤ d.length) :
    win (wr64 d off v) off = leBytes 8 v := by
  apply List.ext_getElem?
  intro i
  rw [getElem?_win, getElem?_wr64, getElem?_leBytes]
  by_cases hi : i < 8
  · simp [hi, h]
  · simp [hi]

theorem win_wr64_other {d : Bytes} {off off' : Nat} (v : Nat) (h : off' + 8 ≤ off ∨ off + 8 ≤ off') :
    win (wr64 d off v) off' = win d off' := by
  apply win_congr
  intro i hi
  rw [getElem?_wr64]
  have : ¬ (off + 8 ≤ d.length ∧ off ≤ off' + i ∧ off' + i < off + 8) := by omega
  simp [this]

theorem rd64_wr64_same {d : Bytes} {off : Nat} (v : Nat) (h : off + 8 ≤ d.length) :
    rd64 (wr64 d off v) off = v % 2 ^ 64 := by
  rw [rd64_eq, win_wr64_same v h, leVal_leBytes8]

theorem rd64_wr64_other {d : Bytes} {off off' : Nat} (v : Nat) (h : off' + 8 ≤ off ∨ off + 8 ≤ off') :
    rd64 (wr64 d off v) off' = rd64 d off' := by
  rw [rd64_eq, rd64_eq, win_wr64_other v h]

theorem rd64_lt {d : Bytes} {off : Nat} (h : off + 8 ≤ d.length) : rd64 d off < 2 ^ 64 :=
  leVal_lt_of_length (length_win h)

theorem wr64_wr64_same (d : Bytes) (off v w : Nat) : wr64 (wr64 d off v) off w = wr64 d off w := by
  apply List.ext_getElem?
  intro i
  simp only [getElem?_wr64, length_wr64]
  split <;> simp_all

theorem wr64_comm (d : Bytes) {o1 o2 : Nat} (v w : Nat) (h : o1 + 8 ≤ o2 ∨ o2 + 8 ≤ o1) :
    wr64 (wr64 d o1 v) o2 w = wr64 (wr64 d o2 w) o1 v := by
  apply List.ext_getElem?
  intro i
  simp only [getElem?_wr64, length_wr64]
  by_cases h1 : o1 + 8 ≤ d.length ∧ o1 ≤ i ∧ i < o1 + 8 <;> by_cases h2 : o2 + 8 ≤ d.length ∧ o2 ≤ i ∧ i < o2 + 8 <;> simp [h1, h2]
  omega

theorem wr64_rd64_id {d : Bytes} {off : Nat} (h : off + 8 ≤ d.length) : wr64 d off (rd64 d off) = d := by
  apply List.ext_getElem?
  intro i
  rw [getElem?_wr64]
  split
  · rename_i hi
    have hw := leBytes_leVal_of_length (length_win h)
    have h1 : (leBytes 8 (leVal (win d off)))[i - off]? = (win d off)[i - off]? := by rw [hw]
    rw [getElem?_leBytes, getElem?_win] at h1
    have h8 : i - off < 8 := by omega
    simp only [h8, if_true] at h1
    rw [rd64_eq, h1]
    congr 1; omega
  · rfl

/-- writing only depends on the low 64 bits of the value -/
theorem wr64_mod (d : Bytes) (off v : Nat) : wr64 d off (v % 2 ^ 64) = wr64 d off v := by
  apply List.ext_getElem?
  intro i
  simp only [getElem?_wr64]
  split
  · rename_i hi
    have : i - off < 8 := by omega
    congr 1
    unfold byteAt
    congr 1
    generalize hk : i - off = k at this
    have : k = 0 ∨ k = 1 ∨ k = 2 ∨ k = 3 ∨ k = 4 ∨ k = 5 ∨ k = 6 ∨ k = 7 := by omega
    rcases this with h | h | h | h | h | h | h | h <;> subst h <;> simp <;> omega
  · rfl

end YaraModel.Arena
