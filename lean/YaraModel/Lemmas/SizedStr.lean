/- sizedstr.c as regenerated (Gen/SizedStr.lean) = the byte-list specification of the string operators (Spec/Cond.lean). -/
import YaraModel.Gen.SizedStr
import YaraModel.Spec.Cond
namespace YaraModel.SizedStr
open YaraModel.Cond (isPrefix containsS lowerS lower strCompare strOp cmpStr)

theorem scan_spec (cond : Nat → Bool) (bound : Nat) (hb : ∀ k, cond k = true → k < bound) :
    ∀ fuel i, bound - i ≤ fuel →
      i ≤ scan cond fuel i ∧ (∀ k, i ≤ k → k < scan cond fuel i → cond k = true) ∧ cond (scan cond fuel i) = false := by
  intro fuel
  induction fuel with
  | zero =>
    intro i h
    refine ⟨Nat.le_refl _, fun k h1 h2 => absurd h2 (by simp [scan]; omega), ?_⟩
    simp only [scan]
    cases hc : cond i with
    | false => rfl
    | true => have := hb i hc; omega
  | succ f ih =>
    intro i h
    simp only [scan]
    cases hc : cond i with
    | false => simp [hc]; intro k h1 h2; omega
    | true =>
      simp only [if_true]
      have hi := hb i hc
      obtain ⟨h1, h2, h3⟩ := ih (i + 1) (by omega)
      refine ⟨by omega, fun k hk1 hk2 => ?_, h3⟩
      by_cases hki : k = i
      · subst hki; exact hc
      · exact h2 k (by omega) hk2

theorem forRet_none {α : Type} (hi : Nat) (p : Nat → Bool) (c : α) :
    ∀ fuel i, (∀ k, i ≤ k → k < hi → p k = false) →
      forRet hi (fun x => if p x = true then some c else none) fuel i = none := by
  intro fuel
  induction fuel with
  | zero => intro i _; rfl
  | succ f ih =>
    intro i h
    simp only [forRet]
    by_cases hlt : i < hi
    · simp only [hlt, if_true, h i (Nat.le_refl _) hlt, Bool.false_eq_true, if_false]
      exact ih (i + 1) (fun k h1 h2 => h k (by omega) h2)
    · simp [hlt]

theorem forRet_some {α : Type} (hi : Nat) (p : Nat → Bool) (c : α) :
    ∀ fuel i, hi - i ≤ fuel → (∃ k, i ≤ k ∧ k < hi ∧ p k = true) →
      forRet hi (fun x => if p x = true then some c else none) fuel i = some c := by
  intro fuel
  induction fuel with
  | zero => intro i h ⟨k, h1, h2, _⟩; omega
  | succ f ih =>
    intro i h ⟨k, h1, h2, h3⟩
    simp only [forRet]
    have hlt : i < hi := by omega
    simp only [hlt, if_true]
    cases hp : p i with
    | true => simp
    | false =>
      simp only [Bool.false_eq_true, if_false]
      refine ih (i + 1) (by omega) ⟨k, ?_, h2, h3⟩
      by_cases hk : k = i
      · subst hk; rw [hp] at h3; cases h3
      · omega

theorem check_loop (n2 : Nat) (q : Nat → Bool) (fuel : Nat) (hf : n2 ≤ fuel) :
    Option.getD (forRet n2 (fun i => if q i = true then some false else none) fuel 0) true = true ↔ ∀ i, i < n2 → q i = false := by
  by_cases h : ∃ k, 0 ≤ k ∧ k < n2 ∧ q k = true
  · rw [forRet_some n2 q false fuel 0 (by omega) h]
    obtain ⟨k, _, h2, h3⟩ := h
    constructor
    · intro hh; cases hh
    · intro hh; rw [hh k h2] at h3; cases h3
  · have h' : ∀ k, 0 ≤ k → k < n2 → q k = false := by
      intro k h1 h2
      cases hq : q k with
      | false => rfl
      | true => exact absurd ⟨k, h1, h2, hq⟩ h
    rw [forRet_none n2 q false fuel 0 h']
    constructor
    · intro _ i hi; exact h' i (Nat.zero_le _) hi
    · intro _; rfl

/-! ### bytes -/

def scB (b : UInt8) : Int := if b.toNat ≥ 128 then (b.toNat : Int) - 256 else (b.toNat : Int)

theorem sc_eq (s : Bytes) (i : Nat) : sc s i = scB (s.getD i 0) := rfl
theorem uc_eq (s : Bytes) (i : Nat) : uc s i = ((s.getD i 0).toNat : Int) := rfl

theorem scB_inj (a b : UInt8) : scB a = scB b ↔ a = b := by
  constructor
  · intro h
    apply UInt8.toNat_inj.mp
    have ha := a.toNat_lt
    have hb := b.toNat_lt
    unfold scB at h
    split at h <;> split at h <;> omega
  · intro h; rw [h]

theorem lowerTab_toNat (b : UInt8) : lowerTab (b.toNat : Int) = ((lower b).toNat : Int) := by
  have hb := b.toNat_lt
  unfold lowerTab lower
  by_cases h : 65 ≤ b.toNat ∧ b.toNat ≤ 90
  · have h1 : (65 : UInt8) ≤ b := by rw [UInt8.le_iff_toNat_le]; exact h.1
    have h2 : b ≤ (90 : UInt8) := by rw [UInt8.le_iff_toNat_le]; exact h.2
    have : (b + 32).toNat = b.toNat + 32 := by rw [UInt8.toNat_add]; simp; omega
    simp [h1, h2, this]
    omega
  · have : ¬ ((65 : UInt8) ≤ b ∧ b ≤ (90 : UInt8)) := by
      rw [UInt8.le_iff_toNat_le, UInt8.le_iff_toNat_le]; exact h
    have h' : ¬ ((65 : Int) ≤ (b.toNat : Int) ∧ (b.toNat : Int) ≤ 90) := by omega
    simp [h', this]

theorem getD_map0 (g : UInt8 → UInt8) (h0 : g 0 = 0) (s : Bytes) (i : Nat) : (s.map g).getD i 0 = g (s.getD i 0) := by
  induction s generalizing i with
  | nil => simp [h0]
  | cons a s ih =>
    cases i with
    | zero => simp
    | succ i => simpa using ih i

theorem lower_zero : lower 0 = 0 := by decide

theorem prefix_idx (p s : Bytes) :
    isPrefix p s = true ↔ p.length ≤ s.length ∧ ∀ i, i < p.length → p.getD i 0 = s.getD i 0 := by
  induction p generalizing s with
  | nil => simp [isPrefix]
  | cons a p ih =>
    cases s with
    | nil => simp [isPrefix]
    | cons b s =>
      simp only [isPrefix, Bool.and_eq_true, beq_iff_eq, ih s, List.length_cons]
      constructor
      · rintro ⟨hab, hl, hi⟩
        refine ⟨by omega, fun i h => ?_⟩
        cases i with
        | zero => simpa using hab
        | succ i => simpa using hi i (by omega)
      · rintro ⟨hl, hi⟩
        refine ⟨by simpa using hi 0 (by omega), by omega, fun i h => ?_⟩
        simpa using hi (i + 1) (by omega)

theorem getD_reverse (l : Bytes) (i : Nat) (h : i < l.length) : l.reverse.getD i 0 = l.getD (l.length - 1 - i) 0 := by
  rw [List.getD_eq_getElem?_getD, List.getD_eq_getElem?_getD, List.getElem?_reverse h]

theorem suffix_idx (p s : Bytes) :
    isPrefix p.reverse s.reverse = true ↔
      p.length ≤ s.length ∧ ∀ i, i < p.length → p.getD i 0 = s.getD ((s.length - p.length) + i) 0 := by
  rw [prefix_idx, List.length_reverse, List.length_reverse]
  constructor
  · rintro ⟨hl, h⟩
    refine ⟨hl, fun i hi => ?_⟩
    have := h (p.length - 1 - i) (by omega)
    rw [getD_reverse p _ (by omega), getD_reverse s _ (by omega)] at this
    have e1 : p.length - 1 - (p.length - 1 - i) = i := by omega
    have e2 : s.length - 1 - (p.length - 1 - i) = s.length - p.length + i := by omega
    rw [e1, e2] at this; exact this
  · rintro ⟨hl, h⟩
    refine ⟨hl, fun i hi => ?_⟩
    rw [getD_reverse p _ hi, getD_reverse s _ (by omega), h (p.length - 1 - i) (by omega)]
    congr 1; omega

theorem exists_loop (hi : Nat) (q : Nat → Bool) (fuel : Nat) (hf : hi ≤ fuel) :
    Option.getD (forRet hi (fun i => if q i = true then some true else none) fuel 0) false = true ↔ ∃ i, i < hi ∧ q i = true := by
  by_cases h : ∃ k, 0 ≤ k ∧ k < hi ∧ q k = true
  · rw [forRet_some hi q true fuel 0 (by omega) h]
    obtain ⟨k, _, h2, h3⟩ := h
    exact ⟨fun _ => ⟨k, h2, h3⟩, fun _ => rfl⟩
  · have h' : ∀ k, 0 ≤ k → k < hi → q k = false := by
      intro k h1 h2
      cases hq : q k with
      | false => rfl
      | true => exact absurd ⟨k, h1, h2, hq⟩ h
    rw [forRet_none hi q true fuel 0 h']
    constructor
    · intro hh; cases hh
    · rintro ⟨i, h1, h2⟩; rw [h' i (Nat.zero_le _) h1] at h2; cases h2

theorem isPrefix_eq (p s : Bytes) : isPrefix p s = p.isPrefixOf s := by
  induction p generalizing s with
  | nil => cases s <;> simp [isPrefix]
  | cons a p ih => cases s with
    | nil => simp [isPrefix]
    | cons b s => simp [isPrefix, ih, List.isPrefixOf]

theorem memmem_eq (h n : Bytes) : memmemFound h n = containsS h n := by
  induction h with
  | nil => simp [memmemFound, containsS]
  | cons a h ih => simp [memmemFound, containsS, ih, isPrefix_eq]

theorem contains_idx (h n : Bytes) :
    containsS h n = true ↔ ∃ i, i + n.length ≤ h.length ∧ ∀ j, j < n.length → n.getD j 0 = h.getD (i + j) 0 := by
  induction h with
  | nil =>
    simp only [containsS, List.isEmpty_iff, List.length_nil]
    constructor
    · intro hn; subst hn; exact ⟨0, by simp, fun j hj => by simp at hj⟩
    · rintro ⟨i, hl, _⟩
      exact List.eq_nil_of_length_eq_zero (by omega)
  | cons a h ih =>
    simp only [containsS, Bool.or_eq_true, ih, prefix_idx, List.length_cons]
    constructor
    · rintro (⟨hl, hj⟩ | ⟨i, hl, hj⟩)
      · exact ⟨0, by omega, fun j hjl => by rw [Nat.zero_add]; exact hj j hjl⟩
      · refine ⟨i + 1, by omega, fun j hjl => ?_⟩
        rw [hj j hjl, show i + 1 + j = (i + j) + 1 by omega, List.getD_cons_succ]
    · rintro ⟨i, hl, hj⟩
      cases i with
      | zero => left; exact ⟨by omega, fun j hjl => by have := hj j hjl; rwa [Nat.zero_add] at this⟩
      | succ i =>
        right
        refine ⟨i, by omega, fun j hjl => ?_⟩
        have := hj j hjl
        rwa [show i + 1 + j = (i + j) + 1 by omega, List.getD_cons_succ] at this

/-- the inner search loop of ss_icontains stops at `n` iff all `n` positions agree -/
theorem scan_all (n : Nat) (m : Nat → Bool) (fuel : Nat) (hf : n ≤ fuel) :
    scan (fun j => decide (j < n) && m j) fuel 0 = n ↔ ∀ j, j < n → m j = true := by
  have hb : ∀ k, (fun j => decide (j < n) && m j) k = true → k < n := by
    intro k hk; simp only [Bool.and_eq_true, decide_eq_true_eq] at hk; exact hk.1
  obtain ⟨_, h2, h3⟩ := scan_spec _ n hb fuel 0 (by omega)
  generalize scan (fun j => decide (j < n) && m j) fuel 0 = r at h2 h3
  constructor
  · intro hr j hj
    have := h2 j (Nat.zero_le _) (by omega)
    simp only [Bool.and_eq_true, decide_eq_true_eq] at this; exact this.2
  · intro hall
    have hle : r ≤ n := by
      apply Nat.le_of_not_lt; intro hgt
      have := hb n (h2 n (Nat.zero_le _) hgt); omega
    apply Nat.le_antisymm hle
    apply Nat.le_of_not_lt; intro hlt
    simp only [Bool.and_eq_false_iff, decide_eq_false_iff_not] at h3
    rcases h3 with h3 | h3
    · exact h3 hlt
    · rw [hall r hlt] at h3; cases h3

/-- three-way lexicographic comparison with a given byte equivalence and byte order -/
def cmpWith (eqv lt : UInt8 → UInt8 → Bool) : Bytes → Bytes → Int
  | [], [] => 0
  | [], _ :: _ => -1
  | _ :: _, [] => 1
  | a :: as, b :: bs => if eqv a b then cmpWith eqv lt as bs else if lt a b then -1 else 1

theorem strCompare_eq_cmpWith (s1 s2 : Bytes) : strCompare s1 s2 = cmpWith (fun a b => a == b) (fun a b => decide (a < b)) s1 s2 := by
  induction s1 generalizing s2 with
  | nil => cases s2 <;> rfl
  | cons a s1 ih =>
    cases s2 with
    | nil => rfl
    | cons b s2 => simp only [strCompare, cmpWith, ih, decide_eq_true_eq]

theorem cmp_idx (eqv lt : UInt8 → UInt8 → Bool) : ∀ (r : Nat) (s1 s2 : Bytes),
    (∀ k, k < r → k < s1.length ∧ k < s2.length ∧ eqv (s1.getD k 0) (s2.getD k 0) = true) →
    ¬ (r < s1.length ∧ r < s2.length ∧ eqv (s1.getD r 0) (s2.getD r 0) = true) →
    cmpWith eqv lt s1 s2 =
      if r = s1.length ∧ r = s2.length then 0 else if r = s1.length then -1 else if r = s2.length then 1
      else if lt (s1.getD r 0) (s2.getD r 0) = true then -1 else 1 := by
  intro r
  induction r with
  | zero =>
    intro s1 s2 _ h2
    cases s1 with
    | nil => cases s2 <;> simp [cmpWith]
    | cons a s1 =>
      cases s2 with
      | nil => simp [cmpWith]
      | cons b s2 =>
        have : eqv a b = false := by
          cases he : eqv a b with
          | false => rfl
          | true => exact absurd ⟨by simp, by simp, by simpa using he⟩ h2
        simp [cmpWith, this]
  | succ r ih =>
    intro s1 s2 h1 h2
    obtain ⟨l1, l2, he⟩ := h1 0 (by omega)
    cases s1 with
    | nil => simp at l1
    | cons a s1 =>
      cases s2 with
      | nil => simp at l2
      | cons b s2 =>
        have he' : eqv a b = true := by simpa using he
        have := ih s1 s2
          (fun k hk => by
            obtain ⟨x1, x2, x3⟩ := h1 (k + 1) (by omega)
            exact ⟨by simpa using x1, by simpa using x2, by simpa using x3⟩)
          (fun ⟨x1, x2, x3⟩ => h2 ⟨by simpa using x1, by simpa using x2, by simpa using x3⟩)
        simp only [cmpWith, he', if_true, this, List.length_cons, List.getD_cons_succ, Nat.add_right_cancel_iff]

theorem cmpWith_zero (eqv lt : UInt8 → UInt8 → Bool) (g : UInt8 → UInt8) (h : ∀ a b, eqv a b = true ↔ g a = g b) (s1 s2 : Bytes) :
    cmpWith eqv lt s1 s2 = 0 ↔ s1.map g = s2.map g := by
  induction s1 generalizing s2 with
  | nil => cases s2 <;> simp [cmpWith]
  | cons a s1 ih =>
    cases s2 with
    | nil => simp [cmpWith]
    | cons b s2 =>
      simp only [cmpWith, List.map_cons, List.cons.injEq]
      by_cases he : eqv a b = true
      · simp only [he, if_true, ih s2, (h a b).mp he, true_and]
      · have hne : ¬ g a = g b := fun hg => he ((h a b).mpr hg)
        have he' : eqv a b = false := by simpa using he
        simp only [he', Bool.false_eq_true, if_false, hne, false_and, iff_false]
        split <;> omega

theorem cmpWith_congr (eqv lt lt' : UInt8 → UInt8 → Bool) (s1 s2 : Bytes)
    (h : ∀ a, a ∈ s1 → ∀ b, b ∈ s2 → lt a b = lt' a b) : cmpWith eqv lt s1 s2 = cmpWith eqv lt' s1 s2 := by
  induction s1 generalizing s2 with
  | nil => cases s2 <;> rfl
  | cons a s1 ih =>
    cases s2 with
    | nil => rfl
    | cons b s2 =>
      simp only [cmpWith]
      rw [ih s2 (fun x hx y hy => h x (List.mem_cons_of_mem _ hx) y (List.mem_cons_of_mem _ hy)),
          h a (List.mem_cons_self ..) b (List.mem_cons_self ..)]

open YaraModel.Gen.SizedStr

theorem sc_ne_false (s1 s2 : Bytes) (i j : Nat) : decide (sc s1 i ≠ sc s2 j) = false ↔ s2.getD j 0 = s1.getD i 0 := by
  rw [decide_eq_false_iff_not, Classical.not_not, sc_eq, sc_eq, scB_inj]
  exact eq_comm

theorem lc_ne_false (s1 s2 : Bytes) (i j : Nat) :
    decide (lowerTab (uc s1 i) ≠ lowerTab (uc s2 j)) = false ↔ (lowerS s2).getD j 0 = (lowerS s1).getD i 0 := by
  rw [decide_eq_false_iff_not, Classical.not_not, uc_eq, uc_eq, lowerTab_toNat, lowerTab_toNat]
  unfold lowerS
  rw [getD_map0 lower lower_zero, getD_map0 lower lower_zero]
  constructor
  · intro h; exact (UInt8.toNat_inj.mp (by omega)).symm
  · intro h; rw [h]

theorem ss_startswith_eq (s1 s2 : Bytes) : ss_startswith s1 s2 = isPrefix s2 s1 := by
  unfold ss_startswith
  by_cases hlen : s1.length < s2.length
  · simp only [hlen, decide_true, if_true]
    symm; apply Bool.eq_false_iff.mpr
    intro h; have := (prefix_idx s2 s1).mp h; omega
  · simp only [hlen, decide_false, Bool.false_eq_true, if_false]
    apply Bool.eq_iff_iff.mpr
    rw [check_loop s2.length (fun i => decide (sc s1 i ≠ sc s2 i)) _ (by omega), prefix_idx]
    simp only [sc_ne_false]
    constructor
    · intro h; exact ⟨by omega, h⟩
    · intro h; exact h.2

theorem ss_istartswith_eq (s1 s2 : Bytes) : ss_istartswith s1 s2 = isPrefix (lowerS s2) (lowerS s1) := by
  unfold ss_istartswith
  have hl1 : (lowerS s1).length = s1.length := by simp [lowerS]
  have hl2 : (lowerS s2).length = s2.length := by simp [lowerS]
  by_cases hlen : s1.length < s2.length
  · simp only [hlen, decide_true, if_true]
    symm; apply Bool.eq_false_iff.mpr
    intro h; have := (prefix_idx _ _).mp h; omega
  · simp only [hlen, decide_false, Bool.false_eq_true, if_false]
    apply Bool.eq_iff_iff.mpr
    rw [check_loop s2.length (fun i => decide (lowerTab (uc s1 i) ≠ lowerTab (uc s2 i))) _ (by omega), prefix_idx]
    simp only [lc_ne_false, hl1, hl2]
    constructor
    · intro h; exact ⟨by omega, h⟩
    · intro h; exact h.2

theorem ss_endswith_eq (s1 s2 : Bytes) : ss_endswith s1 s2 = isPrefix s2.reverse s1.reverse := by
  unfold ss_endswith
  by_cases hlen : s1.length < s2.length
  · simp only [hlen, decide_true, if_true]
    symm; apply Bool.eq_false_iff.mpr
    intro h; have := (suffix_idx s2 s1).mp h; omega
  · simp only [hlen, decide_false, Bool.false_eq_true, if_false]
    apply Bool.eq_iff_iff.mpr
    rw [check_loop s2.length (fun i => decide (sc s1 (s1.length - s2.length + i) ≠ sc s2 i)) _ (by omega), suffix_idx]
    simp only [sc_ne_false]
    constructor
    · intro h; exact ⟨by omega, h⟩
    · intro h; exact h.2

theorem ss_iendswith_eq (s1 s2 : Bytes) : ss_iendswith s1 s2 = isPrefix (lowerS s2).reverse (lowerS s1).reverse := by
  unfold ss_iendswith
  have hl1 : (lowerS s1).length = s1.length := by simp [lowerS]
  have hl2 : (lowerS s2).length = s2.length := by simp [lowerS]
  by_cases hlen : s1.length < s2.length
  · simp only [hlen, decide_true, if_true]
    symm; apply Bool.eq_false_iff.mpr
    intro h; have := (suffix_idx _ _).mp h; omega
  · simp only [hlen, decide_false, Bool.false_eq_true, if_false]
    apply Bool.eq_iff_iff.mpr
    rw [check_loop s2.length (fun i => decide (lowerTab (uc s1 (s1.length - s2.length + i)) ≠ lowerTab (uc s2 i))) _ (by omega), suffix_idx]
    simp only [lc_ne_false, hl1, hl2]
    constructor
    · intro h; exact ⟨by omega, h⟩
    · intro h; exact h.2

theorem ss_contains_eq (s1 s2 : Bytes) : ss_contains s1 s2 = containsS s1 s2 := memmem_eq s1 s2

theorem ss_icontains_eq (s1 s2 : Bytes) : ss_icontains s1 s2 = containsS (lowerS s1) (lowerS s2) := by
  unfold ss_icontains
  have hl1 : (lowerS s1).length = s1.length := by simp [lowerS]
  have hl2 : (lowerS s2).length = s2.length := by simp [lowerS]
  by_cases hlen : s1.length < s2.length
  · simp only [hlen, decide_true, if_true]
    symm; apply Bool.eq_false_iff.mpr
    intro h; obtain ⟨i, hi, _⟩ := (contains_idx _ _).mp h; omega
  · simp only [hlen, decide_false, Bool.false_eq_true, if_false]
    apply Bool.eq_iff_iff.mpr
    rw [exists_loop (s1.length - s2.length + 1)
          (fun i => decide (scan (fun j => decide (j < s2.length) && !decide (lowerTab (uc s1 (i + j)) ≠ lowerTab (uc s2 j)))
                              (s1.length + s2.length + 1) 0 = s2.length)) _ (by omega), contains_idx]
    simp only [decide_eq_true_eq, scan_all _ _ _ (show s2.length ≤ s1.length + s2.length + 1 by omega), Bool.not_eq_true', lc_ne_false, hl1, hl2]
    constructor
    · rintro ⟨i, hi, h⟩; exact ⟨i, by omega, h⟩
    · rintro ⟨i, hi, h⟩; exact ⟨i, by omega, h⟩

/-- byte order of `(uint8_t) a < (uint8_t) b` -/
def ucLt (a b : UInt8) : Bool := decide ((a.toNat : Int) < (b.toNat : Int))

theorem ucLt_eq (a b : UInt8) : ucLt a b = decide (a < b) := by
  unfold ucLt
  apply decide_eq_decide.mpr
  rw [UInt8.lt_iff_toNat_lt]
  omega

/-- ss_compare is the lexicographic comparison by UNSIGNED byte value (since the repair of finding F57) -/
theorem ss_compare_eq (s1 s2 : Bytes) :
    ss_compare s1 s2 = cmpWith (fun a b => a == b) ucLt s1 s2 := by
  unfold ss_compare
  have hb : ∀ k, (fun i => decide (s1.length > i) && decide (s2.length > i) && decide (sc s1 i = sc s2 i)) k = true → k < s1.length := by
    intro k hk; simp only [Bool.and_eq_true, decide_eq_true_eq] at hk; exact hk.1.1
  obtain ⟨_, h2, h3⟩ := scan_spec _ s1.length hb (s1.length + s2.length + 1) 0 (by omega)
  dsimp only
  generalize scan (fun i => decide (s1.length > i) && decide (s2.length > i) && decide (sc s1 i = sc s2 i)) (s1.length + s2.length + 1) 0 = r at h2 h3
  rw [cmp_idx (fun a b => a == b) ucLt r s1 s2]
  · simp only [uc_eq, ucLt, Bool.and_eq_true, decide_eq_true_eq]
    by_cases c1 : r = s1.length <;> by_cases c2 : r = s2.length <;> simp [c1, c2]
  · intro k hk
    have := h2 k (Nat.zero_le _) hk
    simp only [Bool.and_eq_true, decide_eq_true_eq, sc_eq, scB_inj] at this
    exact ⟨this.1.1, this.1.2, by simpa using this.2⟩
  · rintro ⟨x1, x2, x3⟩
    simp only [Bool.and_eq_false_iff, decide_eq_false_iff_not, sc_eq, scB_inj] at h3
    rcases h3 with (h3 | h3) | h3
    · exact h3 x1
    · exact h3 x2
    · exact h3 (by simpa using x3)

/-- FROZEN regression definition: the comparison ss_compare computed before df88bf4 (order of SIGNED chars, finding F57) -/
def ssCompareSignedOld (s1 s2 : Bytes) : Int := cmpWith (fun a b => a == b) (fun a b => decide (scB a < scB b)) s1 s2

theorem ss_icompare_eq (s1 s2 : Bytes) :
    ss_icompare s1 s2 = cmpWith (fun a b => lower a == lower b) (fun a b => decide (scB a < scB b)) s1 s2 := by
  unfold ss_icompare
  have hb : ∀ k, (fun i => decide (s1.length > i) && decide (s2.length > i) && decide (lowerTab (uc s1 i) = lowerTab (uc s2 i))) k = true → k < s1.length := by
    intro k hk; simp only [Bool.and_eq_true, decide_eq_true_eq] at hk; exact hk.1.1
  obtain ⟨_, h2, h3⟩ := scan_spec _ s1.length hb (s1.length + s2.length + 1) 0 (by omega)
  dsimp only
  generalize scan (fun i => decide (s1.length > i) && decide (s2.length > i) && decide (lowerTab (uc s1 i) = lowerTab (uc s2 i))) (s1.length + s2.length + 1) 0 = r at h2 h3
  have key : ∀ i, lowerTab (uc s1 i) = lowerTab (uc s2 i) ↔ lower (s1.getD i 0) = lower (s2.getD i 0) := by
    intro i
    rw [uc_eq, uc_eq, lowerTab_toNat, lowerTab_toNat]
    constructor
    · intro h; exact UInt8.toNat_inj.mp (by omega)
    · intro h; rw [h]
  rw [cmp_idx (fun a b => lower a == lower b) (fun a b => decide (scB a < scB b)) r s1 s2]
  · simp only [sc_eq, Bool.and_eq_true, decide_eq_true_eq]
    by_cases c1 : r = s1.length <;> by_cases c2 : r = s2.length <;> simp [c1, c2]
  · intro k hk
    have := h2 k (Nat.zero_le _) hk
    simp only [Bool.and_eq_true, decide_eq_true_eq, key] at this
    exact ⟨this.1.1, this.1.2, by simpa using this.2⟩
  · rintro ⟨x1, x2, x3⟩
    simp only [Bool.and_eq_false_iff, decide_eq_false_iff_not, key] at h3
    rcases h3 with (h3 | h3) | h3
    · exact h3 x1
    · exact h3 x2
    · exact h3 (by simpa using x3)
end YaraModel.SizedStr
