/- C05, condition level: a condition's value depends on the other rules only through the verdicts of the rules it names -/
import YaraModel.Spec.CondDeps
namespace YaraModel.Cond

/-- two evaluation contexts that differ at most in the list of earlier verdicts -/
structure SameButRules (env env' : Env) : Prop where
  strs : env'.strs = env.strs
  blocks : env'.blocks = env.blocks
  filesize : env'.filesize = env.filesize
  ext : env'.ext = env.ext
  nod : env.disabled = []          -- no rule is switched off through the API in either environment
  nod' : env'.disabled = []
  fops : env'.fops = env.fops

section frame
variable {env env' : Env} (S : SameButRules env env')
include S

theorem matchesOf_frame (l : LEnv) (s : SRef) : env'.matchesOf l s = env.matchesOf l s := by
  cases s <;> simp only [Env.matchesOf, S.strs]

theorem strFound_frame : strFound env' = strFound env := by
  funext n; simp only [strFound, S.strs]

theorem lookupExt_frame (name : String) : lookupExt env' name = lookupExt env name := by
  simp only [lookupExt, S.ext]

end frame

theorem countP_rename (f : Nat → Nat) (r r' : List Bool) :
    ∀ (set : List Nat), (∀ k ∈ set, r'.getD (f k) false = r.getD k false) →
      (set.map f).countP (fun k => r'.getD k false) = set.countP (fun k => r.getD k false)
  | [], _ => rfl
  | k :: ks, h => by
    have h1 := h k (List.mem_cons_self ..)
    have h2 := countP_rename f r r' ks (fun j hj => h j (List.mem_cons_of_mem _ hj))
    simp only [List.map_cons, List.countP_cons, h1, h2]

mutual
/-- **Frame lemma.** Re-indexing the rule references of a condition and supplying, at the new indices, the verdicts the
    old indices had, leaves its value unchanged — in every loop context. -/
theorem eval_rename {env env' : Env} (S : SameButRules env env') (f : Nat → Nat) :
    ∀ (e : Expr) (l : LEnv), (∀ k ∈ ruleRefs e, env'.rules.getD (f k) false = env.rules.getD k false) →
      eval env' l (renameRules f e) = eval env l e
  | .int _, _, _ => by simp only [renameRules, eval]
  | .flt _, _, _ => by simp only [renameRules, eval]
  | .str _, _, _ => by simp only [renameRules, eval]
  | .filesize, _, _ => by simp only [renameRules, eval, S.filesize]
  | .ext name, _, _ => by simp only [renameRules, eval, lookupExt_frame S]
  | .var _, _, _ => by simp only [renameRules, eval]
  | .undefOf _, _, _ => by simp only [renameRules, eval]
  | .tt, _, _ => by simp only [renameRules, eval]
  | .ff, _, _ => by simp only [renameRules, eval]
  | .count s, l, _ => by simp only [renameRules, eval, matchesOf_frame S]
  | .found s, l, _ => by simp only [renameRules, eval, matchesOf_frame S]
  | .countIn s lo hi, l, h => by
    simp only [ruleRefs, List.mem_append] at h
    simp only [renameRules, eval, matchesOf_frame S, eval_rename S f lo l (fun k hk => h k (.inl hk)),
      eval_rename S f hi l (fun k hk => h k (.inr hk))]
  | .foundIn s lo hi, l, h => by
    simp only [ruleRefs, List.mem_append] at h
    simp only [renameRules, eval, matchesOf_frame S, eval_rename S f lo l (fun k hk => h k (.inl hk)),
      eval_rename S f hi l (fun k hk => h k (.inr hk))]
  | .offset s i, l, h => by
    simp only [ruleRefs] at h
    simp only [renameRules, eval, matchesOf_frame S, eval_rename S f i l h]
  | .length s i, l, h => by
    simp only [ruleRefs] at h
    simp only [renameRules, eval, matchesOf_frame S, eval_rename S f i l h]
  | .read k off, l, h => by
    simp only [ruleRefs] at h
    simp only [renameRules, eval, S.blocks, eval_rename S f off l h]
  | .neg e, l, h => by
    simp only [ruleRefs] at h
    simp only [renameRules, eval, S.fops, eval_rename S f e l h]
  | .bnot e, l, h => by
    simp only [ruleRefs] at h
    simp only [renameRules, eval, eval_rename S f e l h]
  | .not e, l, h => by
    simp only [ruleRefs] at h
    simp only [renameRules, eval, eval_rename S f e l h]
  | .defined e, l, h => by
    simp only [ruleRefs] at h
    simp only [renameRules, eval, eval_rename S f e l h]
  | .arith op a b, l, h => by
    simp only [ruleRefs, List.mem_append] at h
    simp only [renameRules, eval, S.fops, eval_rename S f a l (fun k hk => h k (.inl hk)),
      eval_rename S f b l (fun k hk => h k (.inr hk))]
  | .cmp op a b, l, h => by
    simp only [ruleRefs, List.mem_append] at h
    simp only [renameRules, eval, S.fops, eval_rename S f a l (fun k hk => h k (.inl hk)),
      eval_rename S f b l (fun k hk => h k (.inr hk))]
  | .strop op a b, l, h => by
    simp only [ruleRefs, List.mem_append] at h
    simp only [renameRules, eval, eval_rename S f a l (fun k hk => h k (.inl hk)),
      eval_rename S f b l (fun k hk => h k (.inr hk))]
  | .and a b, l, h => by
    simp only [ruleRefs, List.mem_append] at h
    simp only [renameRules, eval, eval_rename S f a l (fun k hk => h k (.inl hk)),
      eval_rename S f b l (fun k hk => h k (.inr hk))]
  | .or a b, l, h => by
    simp only [ruleRefs, List.mem_append] at h
    simp only [renameRules, eval, eval_rename S f a l (fun k hk => h k (.inl hk)),
      eval_rename S f b l (fun k hk => h k (.inr hk))]
  | .foundAt s pos, l, h => by
    simp only [ruleRefs] at h
    simp only [renameRules, eval, matchesOf_frame S, eval_rename S f pos l h]
  | .matches a re nc, l, h => by
    simp only [ruleRefs] at h
    simp only [renameRules, eval, eval_rename S f a l h]
  | .ruleRef k, _, h => by
    simp only [ruleRefs, List.mem_singleton, forall_eq] at h
    simp only [renameRules, eval, S.nod, S.nod', List.contains_nil, Bool.false_eq_true, if_false, h]
  | .ofStr q qe set, l, h => by
    simp only [ruleRefs] at h
    simp only [renameRules, eval, strFound_frame S, eval_rename S f qe l h]
  | .ofStrIn q qe set lo hi, l, h => by
    simp only [ruleRefs, List.mem_append] at h
    simp only [renameRules, eval, S.strs, eval_rename S f qe l (fun k hk => h k (.inl (.inl hk))),
      eval_rename S f lo l (fun k hk => h k (.inl (.inr hk))), eval_rename S f hi l (fun k hk => h k (.inr hk))]
  | .ofStrAt q qe set pos, l, h => by
    simp only [ruleRefs, List.mem_append] at h
    simp only [renameRules, eval, S.strs, eval_rename S f qe l (fun k hk => h k (.inl hk)),
      eval_rename S f pos l (fun k hk => h k (.inr hk))]
  | .pctStr p set, l, h => by
    simp only [ruleRefs] at h
    simp only [renameRules, eval, strFound_frame S, eval_rename S f p l h]
  | .ofRules q qe set, l, h => by
    simp only [ruleRefs, List.mem_append] at h
    have hm : ∀ e : Env, e.disabled = [] → e.ruleMatched = fun k => e.rules.getD k false := by
      intro e he; funext k; simp [Env.ruleMatched, he]
    simp only [renameRules, eval, List.length_map, eval_rename S f qe l (fun k hk => h k (.inl hk)), hm env S.nod, hm env' S.nod',
      countP_rename f env.rules env'.rules set (fun k hk => h k (.inr hk))]
  | .pctRules p set, l, h => by
    simp only [ruleRefs, List.mem_append] at h
    have hm : ∀ e : Env, e.disabled = [] → e.ruleMatched = fun k => e.rules.getD k false := by
      intro e he; funext k; simp [Env.ruleMatched, he]
    simp only [renameRules, eval, List.length_map, eval_rename S f p l (fun k hk => h k (.inl hk)), hm env S.nod, hm env' S.nod',
      countP_rename f env.rules env'.rules set (fun k hk => h k (.inr hk))]
  | .forRange q qe lo hi body, l, h => by
    simp only [ruleRefs, List.mem_append] at h
    have hb : ∀ v, eval env' { l with vars := l.vars ++ [v] } (renameRules f body) =
        eval env { l with vars := l.vars ++ [v] } body :=
      fun v => eval_rename S f body _ (fun k hk => h k (.inr hk))
    simp only [renameRules, eval, eval_rename S f qe l (fun k hk => h k (.inl (.inl (.inl hk)))),
      eval_rename S f lo l (fun k hk => h k (.inl (.inl (.inr hk)))),
      eval_rename S f hi l (fun k hk => h k (.inl (.inr hk))), hb]
  | .forEnum q qe items body, l, h => by
    simp only [ruleRefs, List.mem_append] at h
    have hb : ∀ v, eval env' { l with vars := l.vars ++ [v] } (renameRules f body) =
        eval env { l with vars := l.vars ++ [v] } body :=
      fun v => eval_rename S f body _ (fun k hk => h k (.inr hk))
    simp only [renameRules, eval, eval_rename S f qe l (fun k hk => h k (.inl (.inl hk))),
      evalList_rename S f items l (fun k hk => h k (.inl (.inr hk))), hb]
  | .forOf q qe set body, l, h => by
    simp only [ruleRefs, List.mem_append] at h
    have hb : ∀ m, eval env' { vars := l.vars ++ [.undef], cur := some m } (renameRules f body) =
        eval env { vars := l.vars ++ [.undef], cur := some m } body :=
      fun m => eval_rename S f body _ (fun k hk => h k (.inr hk))
    simp only [renameRules, eval, eval_rename S f qe l (fun k hk => h k (.inl hk)), hb]
theorem evalList_rename {env env' : Env} (S : SameButRules env env') (f : Nat → Nat) :
    ∀ (es : List Expr) (l : LEnv), (∀ k ∈ ruleRefsList es, env'.rules.getD (f k) false = env.rules.getD k false) →
      evalList env' l (renameRulesList f es) = evalList env l es
  | [], _, _ => by simp only [renameRulesList, evalList]
  | e :: es, l, h => by
    simp only [ruleRefsList, List.mem_append] at h
    simp only [renameRulesList, evalList, eval_rename S f e l (fun k hk => h k (.inl hk)),
      evalList_rename S f es l (fun k hk => h k (.inr hk))]
end

/-! ### `evalRules` as a list of verdicts, each computed from the verdicts before it -/

theorem evalRules_length (blocks : List (Nat × Bytes)) (filesize : Int) (ext : List (String × Val)) :
    ∀ (rs : List Rule) (acc : List Bool), (evalRules blocks filesize ext rs acc).length = acc.length + rs.length
  | [], acc => by simp [evalRules]
  | r :: rs, acc => by
    simp only [evalRules, evalRules_length blocks filesize ext rs, List.length_append, List.length_cons, List.length_nil]
    omega

/-- the accumulated verdicts stay a prefix of the result -/
theorem evalRules_prefix (blocks : List (Nat × Bytes)) (filesize : Int) (ext : List (String × Val)) :
    ∀ (rs : List Rule) (acc : List Bool), (evalRules blocks filesize ext rs acc).take acc.length = acc
  | [], acc => by simp [evalRules]
  | r :: rs, acc => by
    have h := evalRules_prefix blocks filesize ext rs
      (acc ++ [ruleVerdict { strs := r.strs, blocks, filesize, ext, rules := acc } r.cond])
    simp only [evalRules]
    have h2 := congrArg (List.take acc.length) h
    simp only [List.take_take, List.length_append, List.length_cons, List.length_nil, List.take_left'] at h2
    rw [Nat.min_eq_left (by omega)] at h2
    simpa using h2

/-- **Verdict i is the verdict of rule i evaluated against the verdicts 0..i-1.** -/
theorem evalRules_getD (blocks : List (Nat × Bytes)) (filesize : Int) (ext : List (String × Val)) :
    ∀ (rs : List Rule) (acc : List Bool) (i : Nat) (h : i < rs.length),
      (evalRules blocks filesize ext rs acc).getD (acc.length + i) false =
        ruleVerdict { strs := rs[i].strs, blocks, filesize, ext,
                      rules := (evalRules blocks filesize ext rs acc).take (acc.length + i) } rs[i].cond
  | [], _, _, h => by simp at h
  | r :: rs, acc, 0, _ => by
    have hp := evalRules_prefix blocks filesize ext rs
      (acc ++ [ruleVerdict { strs := r.strs, blocks, filesize, ext, rules := acc } r.cond])
    simp only [List.length_append, List.length_cons, List.length_nil] at hp
    have hacc : (evalRules blocks filesize ext (r :: rs) acc).take acc.length = acc :=
      evalRules_prefix blocks filesize ext (r :: rs) acc
    simp only [Nat.add_zero, List.getElem_cons_zero, hacc]
    simp only [evalRules]
    have : (evalRules blocks filesize ext rs
        (acc ++ [ruleVerdict { strs := r.strs, blocks, filesize, ext, rules := acc } r.cond])).getD acc.length false =
        ((evalRules blocks filesize ext rs
          (acc ++ [ruleVerdict { strs := r.strs, blocks, filesize, ext, rules := acc } r.cond])).take (acc.length + 1)).getD
            acc.length false := by
      simp [List.getD_eq_getElem?_getD]
    rw [this, hp]
    simp [List.getD_eq_getElem?_getD]
  | r :: rs, acc, i + 1, h => by
    have ih := evalRules_getD blocks filesize ext rs
      (acc ++ [ruleVerdict { strs := r.strs, blocks, filesize, ext, rules := acc } r.cond]) i (by simpa using h)
    simp only [List.length_append, List.length_cons, List.length_nil] at ih
    simp only [evalRules, List.getElem_cons_succ]
    have e : acc.length + (i + 1) = acc.length + 1 + i := by omega
    rw [e]
    exact ih

theorem getD_take_lt {α : Type} (xs : List α) (d : α) {j n : Nat} (h : j < n) : (xs.take n).getD j d = xs.getD j d := by
  simp [List.getD_eq_getElem?_getD, h]

mutual
/-- re-indexing that fixes every index the condition uses changes nothing -/
theorem renameRules_eq_self (f : Nat → Nat) : ∀ (e : Expr), (∀ k ∈ ruleRefs e, f k = k) → renameRules f e = e
  | .int _, _ | .flt _, _ | .str _, _ | .filesize, _ | .ext _, _ | .var _, _ | .undefOf _, _ | .tt, _ | .ff, _
  | .count _, _ | .found _, _ => by simp only [renameRules]
  | .countIn s lo hi, h | .foundIn s lo hi, h => by
    simp only [ruleRefs, List.mem_append] at h
    simp only [renameRules, renameRules_eq_self f lo (fun k hk => h k (.inl hk)), renameRules_eq_self f hi (fun k hk => h k (.inr hk))]
  | .offset s i, h | .length s i, h => by
    simp only [ruleRefs] at h
    simp only [renameRules, renameRules_eq_self f i h]
  | .read k off, h => by
    simp only [ruleRefs] at h
    simp only [renameRules, renameRules_eq_self f off h]
  | .neg e, h | .bnot e, h | .not e, h | .defined e, h => by
    simp only [ruleRefs] at h
    simp only [renameRules, renameRules_eq_self f e h]
  | .arith op a b, h => by
    simp only [ruleRefs, List.mem_append] at h
    simp only [renameRules, renameRules_eq_self f a (fun k hk => h k (.inl hk)), renameRules_eq_self f b (fun k hk => h k (.inr hk))]
  | .cmp op a b, h => by
    simp only [ruleRefs, List.mem_append] at h
    simp only [renameRules, renameRules_eq_self f a (fun k hk => h k (.inl hk)), renameRules_eq_self f b (fun k hk => h k (.inr hk))]
  | .strop op a b, h => by
    simp only [ruleRefs, List.mem_append] at h
    simp only [renameRules, renameRules_eq_self f a (fun k hk => h k (.inl hk)), renameRules_eq_self f b (fun k hk => h k (.inr hk))]
  | .and a b, h | .or a b, h => by
    simp only [ruleRefs, List.mem_append] at h
    simp only [renameRules, renameRules_eq_self f a (fun k hk => h k (.inl hk)), renameRules_eq_self f b (fun k hk => h k (.inr hk))]
  | .foundAt s pos, h => by
    simp only [ruleRefs] at h
    simp only [renameRules, renameRules_eq_self f pos h]
  | .matches a re nc, h => by
    simp only [ruleRefs] at h
    simp only [renameRules, renameRules_eq_self f a h]
  | .ruleRef k, h => by
    simp only [ruleRefs, List.mem_singleton, forall_eq] at h
    simp only [renameRules, h]
  | .ofStr q qe set, h => by
    simp only [ruleRefs] at h
    simp only [renameRules, renameRules_eq_self f qe h]
  | .ofStrIn q qe set lo hi, h => by
    simp only [ruleRefs, List.mem_append] at h
    simp only [renameRules, renameRules_eq_self f qe (fun k hk => h k (.inl (.inl hk))),
      renameRules_eq_self f lo (fun k hk => h k (.inl (.inr hk))), renameRules_eq_self f hi (fun k hk => h k (.inr hk))]
  | .ofStrAt q qe set pos, h => by
    simp only [ruleRefs, List.mem_append] at h
    simp only [renameRules, renameRules_eq_self f qe (fun k hk => h k (.inl hk)), renameRules_eq_self f pos (fun k hk => h k (.inr hk))]
  | .pctStr p set, h => by
    simp only [ruleRefs] at h
    simp only [renameRules, renameRules_eq_self f p h]
  | .ofRules q qe set, h => by
    simp only [ruleRefs, List.mem_append] at h
    have hs : set.map f = set := by
      conv => rhs; rw [← List.map_id set]
      exact List.map_congr_left (fun k hk => h k (.inr hk))
    simp only [renameRules, renameRules_eq_self f qe (fun k hk => h k (.inl hk)), hs]
  | .pctRules p set, h => by
    simp only [ruleRefs, List.mem_append] at h
    have hs : set.map f = set := by
      conv => rhs; rw [← List.map_id set]
      exact List.map_congr_left (fun k hk => h k (.inr hk))
    simp only [renameRules, renameRules_eq_self f p (fun k hk => h k (.inl hk)), hs]
  | .forRange q qe lo hi body, h => by
    simp only [ruleRefs, List.mem_append] at h
    simp only [renameRules, renameRules_eq_self f qe (fun k hk => h k (.inl (.inl (.inl hk)))),
      renameRules_eq_self f lo (fun k hk => h k (.inl (.inl (.inr hk)))),
      renameRules_eq_self f hi (fun k hk => h k (.inl (.inr hk))), renameRules_eq_self f body (fun k hk => h k (.inr hk))]
  | .forEnum q qe items body, h => by
    simp only [ruleRefs, List.mem_append] at h
    simp only [renameRules, renameRules_eq_self f qe (fun k hk => h k (.inl (.inl hk))),
      renameRulesList_eq_self f items (fun k hk => h k (.inl (.inr hk))), renameRules_eq_self f body (fun k hk => h k (.inr hk))]
  | .forOf q qe set body, h => by
    simp only [ruleRefs, List.mem_append] at h
    simp only [renameRules, renameRules_eq_self f qe (fun k hk => h k (.inl hk)), renameRules_eq_self f body (fun k hk => h k (.inr hk))]
theorem renameRulesList_eq_self (f : Nat → Nat) : ∀ (es : List Expr), (∀ k ∈ ruleRefsList es, f k = k) → renameRulesList f es = es
  | [], _ => by simp only [renameRulesList]
  | e :: es, h => by
    simp only [ruleRefsList, List.mem_append] at h
    simp only [renameRulesList, renameRules_eq_self f e (fun k hk => h k (.inl hk)),
      renameRulesList_eq_self f es (fun k hk => h k (.inr hk))]
end

theorem renameRules_id (e : Expr) : renameRules id e = e := renameRules_eq_self id e (fun _ _ => rfl)

end YaraModel.Cond
