/-
  VM completeness for the STAR-FREE fragment of regular expressions without counted repeats (forward code, byte mode):
  every consuming one-character node (literals, `.`, classes, \w \W \s \S \d \D), the empty expression, `.{n,m}`,
  concatenation and alternation whose first branch cannot be passed without consuming a character.  The proof is the one of
  Lemmas/ReCompleteHex.lean (`acc_hex`) with the larger set of leaves; see there for the invariant.
-/
import YaraModel.Lemmas.ReCompleteHex
namespace YaraModel.ReEmit
open YaraModel.Re YaraModel.ReVm

/-- the consuming one-character nodes -/
def consLeaf : Re → Bool
  | .lit _ | .masked _ _ | .notLit _ | .maskedNot _ _ | .any | .cls _ _ | .wordCh | .nonWordCh | .space | .nonSpace | .digit | .nonDigit => true
  | _ => false

/-- the expression cannot be entered without stopping inside it (at a character, or in `.{n,m}` with m ≥ 1) -/
def sfHd : Re → Bool
  | .rangeAny _ hi _ => decide (1 ≤ hi)
  | .cat a _ => sfHd a
  | .alt a b => sfHd a && sfHd b
  | r => consLeaf r

/-- the fragment: no `*`, `+`, `{n,m}` of a sub-expression, no anchors / word boundaries, and the FIRST branch of every
    alternative consumes a character before it can be left (`(|a)`, `(.{0,0}|a)` are excluded; `(a|)` is not) -/
def starFree : Re → Bool
  | .empty => true
  | .rangeAny lo hi _ => decide (lo ≤ hi) && decide (hi < 65536)
  | .cat a b => starFree a && starFree b
  | .alt a b => starFree a && starFree b && sfHd a
  | r => consLeaf r

inductive SFHd : Re → Prop
  | leaf {r} : consLeaf r = true → SFHd r
  | jump (lo hi : Nat) (g : Bool) : 1 ≤ hi → SFHd (.rangeAny lo hi g)
  | seq {a : Re} (b : Re) : SFHd a → SFHd (.cat a b)
  | alt {a b} : SFHd a → SFHd b → SFHd (.alt a b)

inductive SF : Re → Prop
  | leaf {r} : consLeaf r = true → SF r
  | empty : SF .empty
  | jump (lo hi : Nat) (g : Bool) : lo ≤ hi → hi < 65536 → SF (.rangeAny lo hi g)
  | seq {a b} : SF a → SF b → SF (.cat a b)
  | alt {a b} : SF a → SF b → SFHd a → SF (.alt a b)

theorem sfHd_sound : ∀ {r : Re}, sfHd r = true → SFHd r := by
  intro r
  induction r with
  | rangeAny lo hi g => intro h; exact .jump lo hi g (by simpa [sfHd] using h)
  | cat a b iha _ => intro h; exact .seq b (iha (by simpa [sfHd] using h))
  | alt a b iha ihb => intro h; simp only [sfHd, Bool.and_eq_true] at h; exact .alt (iha h.1) (ihb h.2)
  | _ => intro h; exact .leaf (by simpa [sfHd] using h)

theorem starFree_sound : ∀ {r : Re}, starFree r = true → SF r := by
  intro r
  induction r with
  | empty => intro _; exact .empty
  | rangeAny lo hi g => intro h; simp only [starFree, Bool.and_eq_true, decide_eq_true_eq] at h; exact .jump lo hi g h.1 h.2
  | cat a b iha ihb => intro h; simp only [starFree, Bool.and_eq_true] at h; exact .seq (iha h.1) (ihb h.2)
  | alt a b iha ihb => intro h; simp only [starFree, Bool.and_eq_true] at h; exact .alt (iha h.1.1) (ihb h.1.2) (sfHd_sound h.2)
  | _ => intro h; exact .leaf (by simpa [starFree] using h)

theorem consLeaf_lower {r : Re} (h : consLeaf r = true) : lower r = .leaf r := by cases r <;> simp [consLeaf] at h <;> rfl
theorem consLeaf_nsp {r : Re} (h : consLeaf r = true) : nsp r = 0 := by cases r <;> simp [consLeaf] at h <;> rfl
theorem consLeaf_idOK {code : Code} {r : Re} (h : consLeaf r = true) (a s : Nat) : IdOK code r a s := by
  cases r <;> simp [consLeaf] at h <;> simp [IdOK]
theorem consLeaf_ids {r : Re} (h : consLeaf r = true) (s : Nat) : (emit false r s).2 = s := by
  cases r <;> simp [consLeaf] at h <;> simp [emit]
theorem consLeaf_wf {r : Re} (h : consLeaf r = true) : WF r := by
  cases r <;> simp [consLeaf] at h
  · exact .lit _
  · exact .masked _ _
  · exact .notLit _
  · exact .maskedNot _ _
  · exact .any
  · exact .cls _ _
  · exact .wordCh
  · exact .nonWordCh
  · exact .space
  · exact .nonSpace
  · exact .digit
  · exact .nonDigit

theorem SF.wf {r : Re} (h : SF r) : WF r := by
  induction h with
  | leaf h => exact consLeaf_wf h
  | empty => exact .empty
  | jump lo hi g h1 h2 => exact .rangeAny lo hi g h1 h2
  | seq _ _ ih1 ih2 => exact .cat ih1 ih2
  | alt _ _ _ ih1 ih2 => exact .alt ih1 ih2

theorem emit_ids_sf {r : Re} (h : SF r) : ∀ s, (emit false r s).2 = s + nsp r := by
  induction h with
  | leaf h => intro s; rw [consLeaf_ids h, consLeaf_nsp h]; rfl
  | empty => intro s; simp [emit, nsp]
  | jump _ _ _ _ _ => intro s; simp [emit, nsp]
  | seq _ _ ih1 ih2 => intro s; simp only [emit, Bool.false_eq_true, if_false, ih1, ih2, nsp]; omega
  | alt _ _ _ ih1 ih2 => intro s; simp only [emit, ih1, ih2, nsp]; omega

theorem idOK_of_emit_sf {r : Re} (h : SF r) : ∀ (s : Nat) (code : Code) (a : Nat), s + nsp r ≤ 256 →
    Sub code a (emit false r s).1 → IdOK code r a s := by
  induction h with
  | leaf h => intro s code a _ _; exact consLeaf_idOK h a s
  | empty => intro s code a _ _; simp [IdOK]
  | jump _ _ _ _ _ => intro s code a _ _; simp [IdOK]
  | @seq x y hx hy ih1 ih2 =>
    intro s code a hs h
    simp only [nsp] at hs
    simp only [emit, Bool.false_eq_true, if_false] at h
    obtain ⟨h1, h2⟩ := sub_append h
    rw [emit_len hx.wf] at h2
    rw [emit_ids_sf hx] at h2
    exact ⟨ih1 s code a (by omega) h1, ih2 _ code _ (by omega) h2⟩
  | @alt x y hx hy _ ih1 ih2 =>
    intro s code a hs h
    simp only [nsp] at hs
    simp only [emit] at h
    obtain ⟨h12, hcb⟩ := sub_append h
    obtain ⟨h123, hoff2⟩ := sub_append h12
    obtain ⟨h1234, hjmp⟩ := sub_append h123
    obtain ⟨h12', hca⟩ := sub_append h1234
    obtain ⟨hhead, hoff1⟩ := sub_append h12'
    simp only [List.length_append, List.length_cons, List.length_nil, leI16_length, emit_len hx.wf, emit_len hy.wf] at hcb hca
    rw [emit_ids_sf hx] at hcb
    refine ⟨?_, ?_, ?_⟩
    · have := hhead 1 (by simp)
      simp at this
      rw [this]; exact Nat.mod_eq_of_lt (by omega)
    · apply ih1 (s + 1) code (a + 4) (by omega)
      have e1 : a + (0 + 1 + 1 + (0 + 1 + 1)) = a + 4 := by omega
      rw [e1] at hca; exact hca
    · apply ih2 _ code (a + 4 + clen (lower x) + 3) (by omega)
      have e1 : a + (0 + 1 + 1 + (0 + 1 + 1) + clen (lower x) + (0 + 1) + (0 + 1 + 1)) = a + 4 + clen (lower x) + 3 := by omega
      rw [e1] at hcb; exact hcb

/-- the first branch of an alternative only executes its own splits -/
theorem sync_fresh_sf {code : Code} {r : Re} (hr : SFHd r) : ∀ {a b s F : Nat} {ex : List Nat} {l : List Fiber} {b' : Bool} {ex' : List Nat},
    Seg code (lower r) a b → IdOK code r a s → sync code F ex { ip := a } = some (l, b', ex') →
    ∀ i ∈ ex', i ∈ ex ∨ (s ≤ i ∧ i < s + nsp r) := by
  induction hr with
  | leaf hl =>
    intro a b s F ex l b' ex' hseg _ hs i hi
    rw [consLeaf_lower hl] at hseg
    cases hseg with | leaf hc =>
    obtain ⟨f1, f2, _, _⟩ := leaf_facts hc
    rw [(sync_plain_inv (f := { ip := a }) f1 f2 hs).2] at hi
    exact .inl hi
  | jump lo hi g h1 =>
    intro a b s F ex l b' ex' hseg _ hs i hi
    cases hseg with | jump hop hlo hhi _ =>
    have := ((sync_spin_inv hop hlo hhi 0 (F := F) (ex := ex) hs).1 (by omega)).2
    rw [this] at hi
    exact .inl hi
  | @seq x y _ ih =>
    intro a b s F ex l b' ex' hseg hid hs i hi
    cases hseg with | cat s1 s2 =>
    simp only [IdOK] at hid
    rcases ih s1 hid.1 hs i hi with h1 | h1
    · exact .inl h1
    · simp only [nsp]; exact .inr (by omega)
  | @alt x y _ _ ih1 ih2 =>
    intro a b s F ex l b' ex' hseg hid hs i hi
    cases hseg with | alt hop hoff sx hj hoff2 sy =>
    simp only [IdOK] at hid
    obtain ⟨hid0, hidx, hidy⟩ := hid
    have hm := sx.len
    simp only [nsp]
    obtain ⟨c1, c2⟩ := sync_split_inv hop hs
    by_cases hc : ex.contains (u8 code (a + 1)) = true
    · rw [c1 hc] at hi; exact .inl hi
    · obtain ⟨F', l1, b1, ex2, l2, b2, h1, h2, _⟩ := c2 (by simpa using hc)
      rw [hoff] at h2
      rw [hm] at sy h2
      rcases ih2 sy hidy h2 i hi with k | k
      · rcases ih1 sx hidx h1 i k with k' | k'
        · rcases List.mem_cons.1 k' with k'' | k''
          · exact .inr (by omega)
          · exact .inl k''
        · exact .inr (by omega)
      · exact .inr (by omega)

section
variable {e : Env}

/-- a way of reading the input that also handles every consuming leaf and the empty expression -/
structure CDirS (e : Env) extends CDir e where
  leafS : ∀ {r : Re} {a q t : Nat} {f : Fiber}, consLeaf r = true → LeafCode e.code r a → f.ip = a → M r q t → t ≤ e.maxBytes →
    t = q + 1 ∧ consumeOk e q f = true
  eps : ∀ {q t : Nat}, M .empty q t → q = t

theorem acc_sf (D : CDirS e) {r : Re} (hr : SF r) : ∀ {a b q t n s : Nat}, Seg e.code (lower r) a b → IdOK e.code r a s →
    D.M r q t → t ≤ e.maxBytes → AccE e (s + nsp r) n { ip := b } t → AccE e s (n + (t - q)) { ip := a } q := by
  induction hr with
  | @leaf r hl =>
    intro a b q t n s hseg _ hm ht hK
    rw [consLeaf_lower hl] at hseg
    rw [consLeaf_nsp hl] at hK
    cases hseg with | leaf hc =>
    obtain ⟨f1, f2, _, f4⟩ := leaf_facts hc
    obtain ⟨rfl, hok⟩ := D.leafS (f := { ip := a }) hl hc rfl hm ht
    rw [show q + 1 - q = 1 by omega]
    rcases f4 with ⟨g1, g2⟩ | ⟨g1, g2⟩
    · exact acc_leaf D.cs1 f1 f2 g1 g2 hok hK
    · exfalso
      cases hc <;> simp [consLeaf] at hl <;> rename_i hop <;> (try rename_i hop _) <;> (try rename_i hop _) <;> simp_all [isConsuming]
  | empty =>
    intro a b q t n s hseg _ hm ht hK
    have := D.eps hm
    subst this
    cases hseg with | eps =>
    simpa [nsp] using hK
  | jump lo hi g _ _ =>
    intro a b q t n s hseg _ hm ht hK
    cases hseg with | jump hop hlo hhi _ =>
    obtain ⟨k, k1, k2, hq, hany⟩ := D.jump hm
    have : t - q = k := by omega
    rw [this, ← spinF_zero]
    exact acc_jump D.toCDir hop hlo hhi ht hK k 0 q (by omega) (by omega) hq hany
  | @seq x y _ _ ih1 ih2 =>
    intro a b q t n s hseg hid hm ht hK
    cases hseg with | cat s1 s2 =>
    simp only [IdOK] at hid
    simp only [nsp] at hK
    obtain ⟨u, b1, b2, m1, m2⟩ := D.cat hm
    have hm := s1.len
    rw [← hm] at hid
    have := ih2 s2 hid.2 m2 ht (by rw [Nat.add_assoc]; exact hK)
    have := ih1 s1 hid.1 m1 (by omega) this
    have e1 : n + (t - u) + (u - q) = n + (t - q) := by omega
    rw [← e1]; exact this
  | @alt x y _ _ hdx ih1 ih2 =>
    intro a b q t n s hseg hid hm ht hK
    cases hseg with | @alt _ _ _ m _ hop hoff sx hj hoff2 sy =>
    simp only [IdOK] at hid
    obtain ⟨hid0, hidx, hidy⟩ := hid
    simp only [nsp] at hK
    have hmlen := sx.len
    rw [← hmlen] at hidy
    intro F ex l b' ex' hex hs
    obtain ⟨_, c2⟩ := sync_split_inv hop hs
    have hnc : ex.contains (u8 e.code (a + 1)) = false := by
      rw [hid0]
      cases hc : ex.contains s with
      | false => rfl
      | true =>
        have := hex s (by simpa using hc)
        omega
    obtain ⟨F', l1, b1, ex2, l2, b2, h1, h2, rfl⟩ := c2 hnc
    rw [hid0] at h1
    rw [hoff] at h2
    rcases D.alt hm with hmx | hmy
    · have hKm : AccE e (s + 1 + nsp x) n { ip := m } t := by
        intro F2 ex2' l' a' ex'' hex2 hs2
        obtain ⟨F3, hs3⟩ := sync_jump_inv hj hs2
        rw [hoff2] at hs3
        exact hK F3 ex2' l' a' ex'' (fun i hi => by have := hex2 i hi; omega) hs3
      obtain ⟨g, hg, hacc⟩ := ih1 sx hidx hmx ht hKm F' (s :: ex) l1 b1 ex2
        (fun i hi => by rcases List.mem_cons.1 hi with rfl | hi'; omega; have := hex i hi'; omega) h1
      exact ⟨g, List.mem_append_left _ hg, hacc⟩
    · have hfr := sync_fresh_sf hdx sx hidx h1
      obtain ⟨g, hg, hacc⟩ := ih2 sy hidy hmy ht (by rw [show s + 1 + nsp x + nsp y = s + (1 + nsp x + nsp y) by omega]; exact hK)
        F' ex2 l2 b2 ex' (fun i hi => by
          rcases hfr i hi with k | k
          · rcases List.mem_cons.1 k with rfl | k'
            · omega
            · have := hex i k'; omega
          · omega) h2
      exact ⟨g, List.mem_append_right _ hg, hacc⟩

theorem complete_of_cdirS (D : CDirS e) (r' : Re) (hr : SF r') (hsz : (emit false r' 0).1.length < 32000) (hid : (emit false r' 0).2 ≤ 256)
    (hcode : e.code = ((emit false r' 0).1 ++ [0xAD]).toArray) (hentry : e.entry = 0)
    (hx : e.fl.exhaustive = true) (hsc : e.fl.scan = false) (m : Int) (c : List Nat) (h : exec e = .done m c)
    (L : Nat) (hL : L ≤ e.maxBytes) (hm : D.M r' 0 L) : L ∈ c := by
  have hwf := hr.wf
  rw [emit_len hwf] at hsz
  rw [emit_ids_sf hr] at hid
  have hsub : Sub e.code 0 ((emit false r' 0).1 ++ [0xAD]) := by rw [hcode]; exact sub_whole _
  obtain ⟨h1, h2⟩ := sub_append hsub
  have hseg : Seg e.code (lower r') 0 (clen (lower r')) := by
    have := seg_of_emit hwf 0 e.code 0 hsz h1
    simpa using this
  have hids : IdOK e.code r' 0 0 := idOK_of_emit_sf hr 0 e.code 0 hid h1
  have hmatch : u8 e.code (clen (lower r')) = OP_MATCH := by
    have := h2 0 (by simp)
    rw [emit_len hwf] at this
    simp at this
    rw [this]; rfl
  have hend : AccE e (0 + nsp r') 0 { ip := clen (lower r') } L := by
    intro F ex l a ex' _ hs
    have := (sync_plain_inv (f := { ip := clen (lower r') }) (by rw [show u8 e.code ({ ip := clen (lower r') } : Fiber).ip = OP_MATCH from hmatch]; unfold isCtl; decide)
      (by rw [show u8 e.code ({ ip := clen (lower r') } : Fiber).ip = OP_MATCH from hmatch]; decide) hs).1
    subst this
    exact ⟨_, List.mem_singleton.2 rfl, hmatch⟩
  have hacc : AccU e (0 + (L - 0)) { ip := e.entry } 0 := by rw [hentry]; exact (acc_sf D hr hseg hids hm hL hend).top
  have := exec_complete e hx hsc m c h _ hacc
  rw [D.cs1] at this
  simpa using this
end

/-! ### the remaining consuming instructions accept what the specification's test accepts -/
theorem test_cls {e : Env} {ip : Nat} {cb : Nat} {neg : Bool} (hop : u8 e.code ip = OP_CLASS)
    (hneg : u8 e.code (ip + 1) = (if neg then 1 else 0)) (hbits : ∀ c : UInt8, classBit e.code ip c = inBitmap cb c) (p : Int) :
    consumeTest e.code e.fl ip e.buf 1 p = testCls (specFlags e.fl) cb neg (byteAt e.buf p) := by
  unfold consumeTest
  simp only [hop, OP_ANY, OP_REPEAT_ANY_GREEDY, OP_REPEAT_ANY_UNGREEDY, OP_LITERAL, OP_NOT_LITERAL, OP_MASKED_LITERAL, OP_MASKED_NOT_LITERAL, OP_CLASS]
  simp only [Nat.reduceEqDiff, or_self, if_false, if_true]
  rw [hneg, hbits, hbits]
  unfold testCls specFlags
  cases neg <;> simp

theorem wordAt_one (buf : Bytes) (p : Int) : isWordCharAt buf 1 p = isWordByte (byteAt buf p) := by
  unfold isWordCharAt; simp

theorem test_simple {e : Env} {ip : Nat} (p : Int) :
    (u8 e.code ip = OP_WORD_CHAR → consumeTest e.code e.fl ip e.buf 1 p = isWordByte (byteAt e.buf p)) ∧
    (u8 e.code ip = OP_NON_WORD_CHAR → consumeTest e.code e.fl ip e.buf 1 p = (fun c => !isWordByte c) (byteAt e.buf p)) ∧
    (u8 e.code ip = OP_SPACE → consumeTest e.code e.fl ip e.buf 1 p = isSpaceByte (byteAt e.buf p)) ∧
    (u8 e.code ip = OP_NON_SPACE → consumeTest e.code e.fl ip e.buf 1 p = (fun c => !isSpaceByte c) (byteAt e.buf p)) ∧
    (u8 e.code ip = OP_DIGIT → consumeTest e.code e.fl ip e.buf 1 p = isDigitByte (byteAt e.buf p)) ∧
    (u8 e.code ip = OP_NON_DIGIT → consumeTest e.code e.fl ip e.buf 1 p = (fun c => !isDigitByte c) (byteAt e.buf p)) := by
  refine ⟨?_, ?_, ?_, ?_, ?_, ?_⟩ <;> intro hop <;> unfold consumeTest <;>
    simp only [hop, OP_ANY, OP_REPEAT_ANY_GREEDY, OP_REPEAT_ANY_UNGREEDY, OP_LITERAL, OP_NOT_LITERAL, OP_MASKED_LITERAL,
      OP_MASKED_NOT_LITERAL, OP_CLASS, OP_WORD_CHAR, OP_NON_WORD_CHAR, OP_SPACE, OP_NON_SPACE, OP_DIGIT, OP_NON_DIGIT] <;>
    simp only [Nat.reduceEqDiff, or_self, if_false, if_true, wordAt_one]

/-- one consuming leaf at the byte the fiber reads -/
theorem leaf_consume {e : Env} (hcs : e.cs = 1) {r : Re} (hl : consLeaf r = true) {a : Nat} (hc : LeafCode e.code r a) {f : Fiber} (hip : f.ip = a)
    {bm P Q : Nat} (hm : Re.Matches (specFlags e.fl) e.buf r P Q) :
    Q = P + 1 ∧ (e.inp bm = (P : Int) → bm < e.maxBytes → consumeOk e bm f = true) := by
  have hq := (ends_iff_Matches _ _ _ _ _).2 hm
  subst hip
  have ts := test_simple (e := e) (ip := f.ip) (P : Int)
  cases hc with
  | lit hop harg =>
    obtain ⟨hch, hq⟩ := mem_step.1 hq
    exact ⟨hq, fun hinp hlt => consume_of_charOk hcs hinp hlt hch (test_lit hop harg _)⟩
  | any hop =>
    obtain ⟨hch, hq⟩ := mem_step.1 hq
    exact ⟨hq, fun hinp hlt => consume_of_charOk hcs hinp hlt hch (test_anyop (.inl hop) _)⟩
  | masked hop h1 h2 =>
    obtain ⟨hch, hq⟩ := mem_step.1 hq
    exact ⟨hq, fun hinp hlt => consume_of_charOk hcs hinp hlt hch (test_masked hop h1 h2 _)⟩
  | notLit hop harg =>
    obtain ⟨hch, hq⟩ := mem_step.1 hq
    exact ⟨hq, fun hinp hlt => consume_of_charOk hcs hinp hlt hch (test_notLit hop harg _)⟩
  | maskedNot hop h1 h2 =>
    obtain ⟨hch, hq⟩ := mem_step.1 hq
    exact ⟨hq, fun hinp hlt => consume_of_charOk hcs hinp hlt hch (test_maskedNot hop h1 h2 _)⟩
  | cls hop hneg hbits =>
    obtain ⟨hch, hq⟩ := mem_step.1 hq
    exact ⟨hq, fun hinp hlt => consume_of_charOk hcs hinp hlt hch (test_cls hop hneg hbits _)⟩
  | wordCh hop =>
    obtain ⟨hch, hq⟩ := mem_step.1 hq
    exact ⟨hq, fun hinp hlt => consume_of_charOk hcs hinp hlt hch (ts.1 hop)⟩
  | nonWordCh hop =>
    obtain ⟨hch, hq⟩ := mem_step.1 hq
    exact ⟨hq, fun hinp hlt => consume_of_charOk hcs hinp hlt hch (ts.2.1 hop)⟩
  | space hop =>
    obtain ⟨hch, hq⟩ := mem_step.1 hq
    exact ⟨hq, fun hinp hlt => consume_of_charOk hcs hinp hlt hch (ts.2.2.1 hop)⟩
  | nonSpace hop =>
    obtain ⟨hch, hq⟩ := mem_step.1 hq
    exact ⟨hq, fun hinp hlt => consume_of_charOk hcs hinp hlt hch (ts.2.2.2.1 hop)⟩
  | digit hop =>
    obtain ⟨hch, hq⟩ := mem_step.1 hq
    exact ⟨hq, fun hinp hlt => consume_of_charOk hcs hinp hlt hch (ts.2.2.2.2.1 hop)⟩
  | nonDigit hop =>
    obtain ⟨hch, hq⟩ := mem_step.1 hq
    exact ⟨hq, fun hinp hlt => consume_of_charOk hcs hinp hlt hch (ts.2.2.2.2.2 hop)⟩
  | bol _ | eol _ | wordB _ | nonWordB _ => simp [consLeaf] at hl

/-- reading forwards from the start position, every consuming leaf -/
def fwdCS (e : Env) (h : FwdByte e) : CDirS e where
  toCDir := fwdC e h
  leafS := by
    intro r a q t f hl hc hip hm ht
    obtain ⟨h1, h2⟩ := leaf_consume (cs_one h) hl hc hip (bm := q) hm
    have : t = q + 1 := by omega
    exact ⟨this, h2 (inp_fwd h q) (by omega)⟩
  eps := by
    intro q t hm
    have : Re.Matches (specFlags e.fl) e.buf .empty (e.start + q) (e.start + t) := hm
    have := (ends_iff_Matches _ _ _ _ _).2 this
    simp [Re.ends] at this
    omega

/-- completeness of the VM on the forward code of a star-free expression (byte mode, exhaustive, not scan mode): if the run
    returns without error, it reports the length of EVERY match of the expression at the start position within the scan
    window of 1024 bytes -/
theorem vm_complete_sf (r : Re) (hr : starFree r = true) (hsz : (emit false r 0).1.length < 32000) (hid : (emit false r 0).2 ≤ 256)
    (buf : Bytes) (start : Nat) (hst : start ≤ buf.size)
    (fl : VmFlags) (hw : fl.wide = false) (hb : fl.backwards = false) (hsc : fl.scan = false) (hx : fl.exhaustive = true)
    (fuel : Nat) (m : Int) (c : List Nat)
    (h : exec { code := (emitCode false r).toArray, entry := 0, buf := buf, start := start, fl := fl, syncFuel := fuel } = .done m c)
    (L : Nat) (hL : L ≤ 1024) (hm : Re.Matches (specFlags fl) buf r start (start + L)) : L ∈ c := by
  obtain ⟨e, he⟩ : ∃ e : Env, e = { code := (emitCode false r).toArray, entry := 0, buf := buf, start := start, fl := fl, syncFuel := fuel } := ⟨_, rfl⟩
  rw [← he] at h
  have hfb : FwdByte e := by subst he; exact ⟨hw, hb, hst⟩
  have hb := Matches.bounds hm
  have hmax : L ≤ e.maxBytes := by rw [maxBytes_fwd hfb]; subst he; show L ≤ min (buf.size - start) 1024; omega
  exact complete_of_cdirS (fwdCS e hfb) r (starFree_sound hr) hsz hid (by subst he; rfl) (by subst he; rfl) (by subst he; exact hx)
    (by subst he; exact hsc) m c h L hmax (by subst he; exact hm)

theorem rev_consLeaf {r : Re} (h : consLeaf r = true) : rev r = r := by
  cases r <;> simp [consLeaf] at h <;> rfl

/-- reading backwards from the start position, every consuming leaf -/
def bwdCS (e : Env) (h : BwdByte e) : CDirS e where
  toCDir := bwdC e h
  leafS := by
    intro r a q t f hl hc hip hm ht
    obtain ⟨hqt0, hts, hm⟩ := hm
    rw [rev_consLeaf hl] at hm
    obtain ⟨h1, h2⟩ := leaf_consume (cs_one_b h) hl hc hip (bm := q) hm
    have ht' : t = q + 1 := by omega
    refine ⟨ht', h2 ?_ (by omega)⟩
    rw [inp_bwd h (by omega)]
    congr 1; omega
  eps := by
    intro q t hm
    obtain ⟨hqt0, hts, hm⟩ := hm
    have := (ends_iff_Matches _ _ _ _ _).2 hm
    simp [rev, Re.ends] at this
    omega

/-- the same for the BACKWARD code (the forward code of the mirrored expression, run with RE_FLAGS_BACKWARDS) -/
theorem vm_complete_sf_bwd (r : Re) (hr : starFree (rev r) = true) (hsz : (emit true r 0).1.length < 32000) (hid : (emit true r 0).2 ≤ 256)
    (buf : Bytes) (start : Nat) (hst : start ≤ buf.size)
    (fl : VmFlags) (hw : fl.wide = false) (hb : fl.backwards = true) (hsc : fl.scan = false) (hx : fl.exhaustive = true)
    (fuel : Nat) (m : Int) (c : List Nat)
    (h : exec { code := (emitCode true r).toArray, entry := 0, buf := buf, start := start, fl := fl, syncFuel := fuel } = .done m c)
    (L : Nat) (hL : L ≤ 1024) (hLs : L ≤ start) (hm : Re.Matches (specFlags fl) buf r (start - L) start) : L ∈ c := by
  obtain ⟨e, he⟩ : ∃ e : Env, e = { code := (emitCode true r).toArray, entry := 0, buf := buf, start := start, fl := fl, syncFuel := fuel } := ⟨_, rfl⟩
  rw [← he] at h
  have hbb : BwdByte e := by subst he; exact ⟨hw, hb, hst⟩
  have hmax : L ≤ e.maxBytes := by rw [maxBytes_bwd hbb]; subst he; show L ≤ min start 1024; omega
  rw [emit_rev] at hsz hid
  have hcode : e.code = ((emit false (rev r) 0).1 ++ [0xAD]).toArray := by subst he; simp only [emitCode, emit_rev]
  exact complete_of_cdirS (bwdCS e hbb) (rev r) (starFree_sound hr) hsz hid hcode (by subst he; rfl) (by subst he; exact hx) (by subst he; exact hsc)
    m c h L hmax ⟨Nat.zero_le _, by subst he; exact hLs, by subst he; rw [rev_rev]; exact hm⟩

end YaraModel.ReEmit
