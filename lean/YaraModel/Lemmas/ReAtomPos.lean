/-
  Where an atom sits in a match and in the code (loop-free expressions: concatenations and alternatives over single nodes —
  every hex AST):
    `ctxAt r k`       : the one-hole context of the k-th leaf of `r`
    `trace_through`   : a trace entry (leaf, position s) of a match [p, q) splits the match at s: the part before the leaf
                        matches [p, s), the leaf matches at s, the part after it matches up to q
    `fwdRef_eq` / `bwdRef_eq` : the code positions the atoms model records for a leaf (Model/ReAtoms `fwdRef`, `bwdRef` —
                        compared with the real automaton entries) are the entry points `holePos` / `bwdPos` of the
                        verification theorems (Lemmas/ReAtomEntry)
-/
import YaraModel.Lemmas.ReAtomsFinal
import YaraModel.Lemmas.ReAtomEntry
namespace YaraModel.ReAtoms
open YaraModel.Re YaraModel.ReEmit

/-- concatenations and alternatives over single nodes -/
def Flat : Re → Prop
  | .cat a b => Flat a ∧ Flat b
  | .alt a b => Flat a ∧ Flat b
  | .star _ _ => False
  | .plus _ _ => False
  | .range _ _ _ _ => False
  | _ => True

/-- the context of the k-th leaf -/
def ctxAt : Re → Nat → Option (Ctx × Re)
  | .cat a b, k => if k < leaves a then (ctxAt a k).map (fun cx => (.catL cx.1 b, cx.2))
                   else (ctxAt b (k - leaves a)).map (fun cx => (.catR a cx.1, cx.2))
  | .alt a b, k => if k < leaves a then (ctxAt a k).map (fun cx => (.altL cx.1 b, cx.2))
                   else (ctxAt b (k - leaves a)).map (fun cx => (.altR a cx.1, cx.2))
  | .star _ _, _ => none
  | .plus _ _, _ => none
  | .range _ _ _ _, _ => none
  | r, k => if k = 0 then some (.hole, r) else none

theorem leaves_pos (r : Re) : 0 < leaves r := by
  induction r <;> simp only [leaves] <;> omega

theorem ctxAt_lt : ∀ {r : Re} {k : Nat} {c : Ctx} {x : Re}, ctxAt r k = some (c, x) → k < leaves r := by
  intro r
  induction r with
  | cat a b iha ihb =>
    intro k c x h
    simp only [ctxAt] at h
    split at h
    · simp only [leaves]; omega
    · simp only [Option.map_eq_some_iff] at h
      obtain ⟨cx, h1, _⟩ := h
      have := ihb (c := cx.1) (x := cx.2) h1
      simp only [leaves]; omega
  | alt a b iha ihb =>
    intro k c x h
    simp only [ctxAt] at h
    split at h
    · simp only [leaves]; omega
    · simp only [Option.map_eq_some_iff] at h
      obtain ⟨cx, h1, _⟩ := h
      have := ihb (c := cx.1) (x := cx.2) h1
      simp only [leaves]; omega
  | star _ _ _ | plus _ _ _ | range _ _ _ _ _ => intro k c x h; simp [ctxAt] at h
  | _ =>
    intro k c x h
    simp only [ctxAt] at h
    split at h
    · rename_i h0; subst h0; simp [leaves]
    · cases h

section
variable {fl : Flags} {buf : Bytes}

/-- a trace entry splits the match at the leaf's position -/
theorem trace_through {r : Re} {i p q : Nat} {T : List (Nat × Nat)} (h : Tr fl buf r i p q T) : Flat r → ∀ {id s : Nat}, (id, s) ∈ T →
    i ≤ id ∧ ∃ c x, ctxAt r (id - i) = some (c, x) ∧ AtomLeaf x ∧ c.fill x = r ∧ c.Before fl buf x p s ∧
      ∃ e, Re.Matches fl buf x s e ∧ c.After fl buf x e q := by
  induction h with
  | @lit b i p q hm =>
    intro _ id s hin
    simp only [List.mem_singleton, Prod.mk.injEq] at hin
    obtain ⟨rfl, rfl⟩ := hin
    exact ⟨Nat.le_refl _, .hole, .lit b, by simp [ctxAt], .inl ⟨b, rfl⟩, rfl, rfl, q, hm, rfl⟩
  | @masked v m i p q hm =>
    intro _ id s hin
    simp only [List.mem_singleton, Prod.mk.injEq] at hin
    obtain ⟨rfl, rfl⟩ := hin
    exact ⟨Nat.le_refl _, .hole, .masked v m, by simp [ctxAt], .inr (.inl ⟨v, m, rfl⟩), rfl, rfl, q, hm, rfl⟩
  | @any i p q hm =>
    intro _ id s hin
    simp only [List.mem_singleton, Prod.mk.injEq] at hin
    obtain ⟨rfl, rfl⟩ := hin
    exact ⟨Nat.le_refl _, .hole, .any, by simp [ctxAt], .inr (.inr rfl), rfl, rfl, q, hm, rfl⟩
  | opq _ _ => intro _ id s hin; cases hin
  | @cat a b i p t q t1 t2 h1 h2 ih1 ih2 =>
    intro hf id s hin
    rcases List.mem_append.1 hin with hin | hin
    · obtain ⟨hle, c, x, hc, hx, hfill, hb, e, hm, ha⟩ := ih1 hf.1 hin
      have hlt : id - i < leaves a := by
        have := ctxAt_lt hc; omega
      refine ⟨hle, .catL c b, x, by simp [ctxAt, hlt, hc], hx, by simp [Ctx.fill, hfill], hb, e, hm, ⟨t, ha, h2.matches⟩⟩
    · obtain ⟨hle, c, x, hc, hx, hfill, hb, e, hm, ha⟩ := ih2 hf.2 hin
      have hge : ¬ id - i < leaves a := by omega
      have e1 : id - i - leaves a = id - (i + leaves a) := by omega
      refine ⟨by omega, .catR a c, x, by simp [ctxAt, hge, e1, hc], hx, by simp [Ctx.fill, hfill], ⟨t, h1.matches, hb⟩, e, hm, ha⟩
  | @altL a b i p q t1 h1 ih =>
    intro hf id s hin
    obtain ⟨hle, c, x, hc, hx, hfill, hb, e, hm, ha⟩ := ih hf.1 hin
    have hlt : id - i < leaves a := by
      have := ctxAt_lt hc; omega
    exact ⟨hle, .altL c b, x, by simp [ctxAt, hlt, hc], hx, by simp [Ctx.fill, hfill], hb, e, hm, ha⟩
  | @altR a b i p q t1 h1 ih =>
    intro hf id s hin
    obtain ⟨hle, c, x, hc, hx, hfill, hb, e, hm, ha⟩ := ih hf.2 hin
    have hge : ¬ id - i < leaves a := by omega
    have e1 : id - i - leaves a = id - (i + leaves a) := by omega
    exact ⟨by omega, .altR a c, x, by simp [ctxAt, hge, e1, hc], hx, by simp [Ctx.fill, hfill], hb, e, hm, ha⟩
  | plusOne _ _ => intro hf; exact hf.elim
  | plusStep _ _ _ => intro hf; exact hf.elim
  | rangeStop => intro hf; exact hf.elim
  | rangeStep _ _ _ _ _ => intro hf; exact hf.elim

end


/-! ### the code positions recorded by the atoms model are the entry points of the verification theorems -/
theorem clen_fwd {r : Re} (h : WF r) : ReAtoms.clen false r = ReEmit.clen (lower r) := emit_len h 0
theorem clen_bwd {r : Re} (h : WF r) : ReAtoms.clen true r = ReEmit.clen (lower (rev r)) := by
  unfold ReAtoms.clen; rw [emit_rev]; exact emit_len (rev_wf h) 0

theorem leafLen_clen {x : Re} (hx : AtomLeaf x) (back : Bool) : ReAtoms.clen back x = leafLen x := by
  rcases hx with ⟨b, rfl⟩ | ⟨v, m, rfl⟩ | rfl <;> cases back <;> rfl

/-- ids of the emitted leaves lie in [i, i + leaves r) -/
theorem leafPos_ids (back : Bool) : ∀ {r : Re}, Flat r → ∀ (i off : Nat) e, e ∈ leafPos back r i off → i ≤ e.1 ∧ e.1 < i + leaves r := by
  intro r
  induction r with
  | cat a b iha ihb =>
    intro hf i off e he
    simp only [leafPos] at he
    simp only [leaves]
    split at he <;> rcases List.mem_append.1 he with h | h
    · have := ihb hf.2 _ _ _ h; omega
    · have := iha hf.1 _ _ _ h; omega
    · have := iha hf.1 _ _ _ h; omega
    · have := ihb hf.2 _ _ _ h; omega
  | alt a b iha ihb =>
    intro hf i off e he
    simp only [leafPos] at he
    simp only [leaves]
    rcases List.mem_append.1 he with h | h
    · have := iha hf.1 _ _ _ h; omega
    · have := ihb hf.2 _ _ _ h; omega
  | star _ _ _ | plus _ _ _ | range _ _ _ _ _ => intro hf; exact hf.elim
  | _ => intro _ i off e he; simp only [leafPos, List.mem_singleton] at he; subst he; simp [leaves]

theorem leafPos_nodup (back : Bool) : ∀ {r : Re}, Flat r → ∀ (i off : Nat), ((leafPos back r i off).map (·.1)).Nodup := by
  intro r
  induction r with
  | cat a b iha ihb =>
    intro hf i off
    simp only [leafPos]
    split
    · rw [List.map_append, List.nodup_append]
      refine ⟨ihb hf.2 _ _, iha hf.1 _ _, ?_⟩
      intro x hx y hy
      simp only [List.mem_map] at hx hy
      obtain ⟨e1, h1, rfl⟩ := hx
      obtain ⟨e2, h2, rfl⟩ := hy
      have := leafPos_ids back hf.2 _ _ _ h1; have := leafPos_ids back hf.1 _ _ _ h2; omega
    · rw [List.map_append, List.nodup_append]
      refine ⟨iha hf.1 _ _, ihb hf.2 _ _, ?_⟩
      intro x hx y hy
      simp only [List.mem_map] at hx hy
      obtain ⟨e1, h1, rfl⟩ := hx
      obtain ⟨e2, h2, rfl⟩ := hy
      have := leafPos_ids back hf.1 _ _ _ h1; have := leafPos_ids back hf.2 _ _ _ h2; omega
  | alt a b iha ihb =>
    intro hf i off
    simp only [leafPos]
    rw [List.map_append, List.nodup_append]
    refine ⟨iha hf.1 _ _, ihb hf.2 _ _, ?_⟩
    intro x hx y hy
    simp only [List.mem_map] at hx hy
    obtain ⟨e1, h1, rfl⟩ := hx
    obtain ⟨e2, h2, rfl⟩ := hy
    have := leafPos_ids back hf.1 _ _ _ h1; have := leafPos_ids back hf.2 _ _ _ h2; omega
  | star _ _ _ | plus _ _ _ | range _ _ _ _ _ => intro hf; exact hf.elim
  | _ => intro _ i off; simp [leafPos]

/-- in a list with distinct keys, `find?` on a key returns the entry with that key -/
theorem find_unique {l : List (Nat × Nat × Nat)} (hn : (l.map (·.1)).Nodup) {e : Nat × Nat × Nat} (he : e ∈ l) :
    l.find? (·.1 == e.1) = some e := by
  induction l with
  | nil => cases he
  | cons y t ih =>
    simp only [List.map_cons, List.nodup_cons] at hn
    rcases List.mem_cons.1 he with rfl | h
    · simp
    · have hne : ¬ y.1 = e.1 := fun hh => hn.1 (hh ▸ List.mem_map.2 ⟨e, h, rfl⟩)
      have hb : (y.1 == e.1) = false := by simp [hne]
      rw [List.find?_cons, hb]
      exact ih hn.2 h

/-- the leaf's forward instruction is emitted at `holePos` -/
theorem leafPos_fwd : ∀ {r : Re} {k : Nat} {c : Ctx} {x : Re}, ctxAt r k = some (c, x) → Flat r → WF r → AtomLeaf x → ∀ (i off : Nat),
    (i + k, holePos c off, holePos c off + leafLen x) ∈ leafPos false r i off := by
  intro r
  induction r with
  | cat a b iha ihb =>
    intro k c x h hf hwf hx i off
    cases hwf with
    | cat wa wb =>
      simp only [ctxAt] at h
      simp only [leafPos, Bool.false_eq_true, if_false]
      split at h
      · simp only [Option.map_eq_some_iff] at h
        obtain ⟨⟨c', x'⟩, h1, h2⟩ := h
        cases h2
        exact List.mem_append_left _ (iha h1 hf.1 wa hx i off)
      · simp only [Option.map_eq_some_iff] at h
        obtain ⟨⟨c', x'⟩, h1, h2⟩ := h
        cases h2
        have := ihb h1 hf.2 wb hx (i + leaves a) (off + ReAtoms.clen false a)
        have e1 : i + leaves a + (k - leaves a) = i + k := by omega
        rw [e1] at this
        have e2 : holePos (Ctx.catR a c') off = holePos c' (off + ReAtoms.clen false a) := by simp only [holePos, clen_fwd wa]
        refine List.mem_append_right _ ?_
        show (i + k, holePos (Ctx.catR a c') off, holePos (Ctx.catR a c') off + leafLen x') ∈ _
        rw [e2]; exact this
  | alt a b iha ihb =>
    intro k c x h hf hwf hx i off
    cases hwf with
    | alt wa wb =>
      simp only [ctxAt] at h
      simp only [leafPos]
      split at h
      · simp only [Option.map_eq_some_iff] at h
        obtain ⟨⟨c', x'⟩, h1, h2⟩ := h
        cases h2
        exact List.mem_append_left _ (iha h1 hf.1 wa hx i (off + 4))
      · simp only [Option.map_eq_some_iff] at h
        obtain ⟨⟨c', x'⟩, h1, h2⟩ := h
        cases h2
        have := ihb h1 hf.2 wb hx (i + leaves a) (off + 4 + ReAtoms.clen false a + 3)
        have e1 : i + leaves a + (k - leaves a) = i + k := by omega
        rw [e1] at this
        have e2 : holePos (Ctx.altR a c') off = holePos c' (off + 4 + ReAtoms.clen false a + 3) := by simp only [holePos, clen_fwd wa]
        refine List.mem_append_right _ ?_
        show (i + k, holePos (Ctx.altR a c') off, holePos (Ctx.altR a c') off + leafLen x') ∈ _
        rw [e2]; exact this
  | star _ _ _ | plus _ _ _ | range _ _ _ _ _ => intro k c x h; simp [ctxAt] at h
  | _ =>
    intro k c x h _ _ hx i off
    simp only [ctxAt] at h
    split at h
    · rename_i h0; subst h0
      cases h
      simp only [leafPos, holePos, List.mem_singleton, Nat.add_zero, leafLen_clen hx]
    · cases h

/-- the leaf's backward instruction ends at `bwdPos` -/
theorem leafPos_bwd : ∀ {r : Re} {k : Nat} {c : Ctx} {x : Re}, ctxAt r k = some (c, x) → Flat r → WF r → AtomLeaf x → ∀ (i off : Nat),
    ∃ st, (i + k, st, bwdPos x c off) ∈ leafPos true r i off := by
  intro r
  induction r with
  | cat a b iha ihb =>
    intro k c x h hf hwf hx i off
    cases hwf with
    | cat wa wb =>
      simp only [ctxAt] at h
      simp only [leafPos, if_true]
      split at h
      · simp only [Option.map_eq_some_iff] at h
        obtain ⟨⟨c', x'⟩, h1, h2⟩ := h
        cases h2
        obtain ⟨st, hst⟩ := iha h1 hf.1 wa hx i (off + ReAtoms.clen true b)
        have e2 : bwdPos x' (Ctx.catL c' b) off = bwdPos x' c' (off + ReAtoms.clen true b) := by simp only [bwdPos, clen_bwd wb]
        refine ⟨st, List.mem_append_right _ ?_⟩
        show (i + k, st, bwdPos x' (Ctx.catL c' b) off) ∈ _
        rw [e2]; exact hst
      · simp only [Option.map_eq_some_iff] at h
        obtain ⟨⟨c', x'⟩, h1, h2⟩ := h
        cases h2
        obtain ⟨st, hst⟩ := ihb h1 hf.2 wb hx (i + leaves a) off
        have e1 : i + leaves a + (k - leaves a) = i + k := by omega
        rw [e1] at hst
        exact ⟨st, List.mem_append_left _ hst⟩
  | alt a b iha ihb =>
    intro k c x h hf hwf hx i off
    cases hwf with
    | alt wa wb =>
      simp only [ctxAt] at h
      simp only [leafPos]
      split at h
      · simp only [Option.map_eq_some_iff] at h
        obtain ⟨⟨c', x'⟩, h1, h2⟩ := h
        cases h2
        obtain ⟨st, hst⟩ := iha h1 hf.1 wa hx i (off + 4)
        exact ⟨st, List.mem_append_left _ hst⟩
      · simp only [Option.map_eq_some_iff] at h
        obtain ⟨⟨c', x'⟩, h1, h2⟩ := h
        cases h2
        obtain ⟨st, hst⟩ := ihb h1 hf.2 wb hx (i + leaves a) (off + 4 + ReAtoms.clen true a + 3)
        have e1 : i + leaves a + (k - leaves a) = i + k := by omega
        rw [e1] at hst
        have e2 : bwdPos x' (Ctx.altR a c') off = bwdPos x' c' (off + 4 + ReAtoms.clen true a + 3) := by simp only [bwdPos, clen_bwd wa]
        refine ⟨st, List.mem_append_right _ ?_⟩
        show (i + k, st, bwdPos x' (Ctx.altR a c') off) ∈ _
        rw [e2]; exact hst
  | star _ _ _ | plus _ _ _ | range _ _ _ _ _ => intro k c x h; simp [ctxAt] at h
  | _ =>
    intro k c x h _ _ hx i off
    simp only [ctxAt] at h
    split at h
    · rename_i h0; subst h0
      cases h
      exact ⟨off, by simp only [leafPos, bwdPos, List.mem_singleton, Nat.add_zero, leafLen_clen hx]⟩
    · cases h

/-- `fwdRef` (what the atoms model records, compared with the real automaton entries) is the entry point of the forward
    verification theorem -/
theorem fwdRef_eq {r : Re} {k : Nat} {c : Ctx} {x : Re} (h : ctxAt r k = some (c, x)) (hf : Flat r) (hwf : WF r) (hx : AtomLeaf x) :
    fwdRef r k = some (holePos c 0) := by
  unfold fwdRef
  have hm := leafPos_fwd h hf hwf hx 0 0
  simp only [Nat.zero_add] at hm
  have := find_unique (leafPos_nodup false hf 0 0) hm
  simp only at this
  rw [this]; rfl

/-- `bwdRef` is the entry point of the backward verification theorem (behind the forward code and its MATCH) -/
theorem bwdRef_eq {r : Re} {k : Nat} {c : Ctx} {x : Re} (h : ctxAt r k = some (c, x)) (hf : Flat r) (hwf : WF r) (hx : AtomLeaf x) :
    bwdRef r k = some (bwdPos x c 0 + ReAtoms.clen false r + 1) := by
  unfold bwdRef
  obtain ⟨st, hm⟩ := leafPos_bwd h hf hwf hx 0 0
  simp only [Nat.zero_add] at hm
  have hnd : (((leafPos true r 0 0).reverse).map (·.1)).Nodup := by
    rw [List.map_reverse]
    unfold List.Nodup
    rw [List.pairwise_reverse]
    exact (leafPos_nodup true hf 0 0).imp (fun hh => fun h2 => hh h2.symm)
  have := find_unique hnd (List.mem_reverse.2 hm)
  simp only at this
  rw [this]; rfl


theorem HexAst.flat {r : Re} (h : HexAst r) : Flat r := by
  induction h with
  | seq _ _ ih1 ih2 => exact ⟨ih1, ih2⟩
  | alt _ _ ih1 ih2 => exact ⟨ih1, ih2⟩
  | _ => trivial

/-- **Cover with positions (loop-free expressions).**  Along every match [p, q') one of the final atoms occurs literally at a
    position `s` where the match splits: the part of the pattern before the atom's first node matches [p, s), the node
    matches at s, the rest matches up to q' — and the code positions recorded for the atom are the entry points of the
    verification theorems. -/
theorem flat_cover (q : Atom → Int) (m : Mods) (fl : Flags) (buf : Bytes) (hw1 : fl.wide = true → m.wide = true)
    (hw0 : fl.wide = false → (m.wide = false ∨ m.ascii = true)) (hn : m.nocase = fl.nocase) (r : Re) (hf : Flat r) (hwf : WF r)
    (hmk : MaskOK r) {p q' : Nat} (hm : Re.Matches fl buf r p q') :
    ∃ x ∈ atomsOf q m r, ∃ s, p ≤ s ∧ s + x.1.length ≤ q' ∧ BytesAt buf x.1 s ∧
      (x.1 = [] ∨ ∃ c y, AtomLeaf y ∧ c.fill y = r ∧ fwdRef r x.2 = some (holePos c 0) ∧
        bwdRef r x.2 = some (bwdPos y c 0 + ReAtoms.clen false r + 1) ∧
        c.Before fl buf y p s ∧ ∃ e, Re.Matches fl buf y s e ∧ c.After fl buf y e q') := by
  obtain ⟨T, hT⟩ := tr_of_matches hm 0
  obtain ⟨x, hx, s, h1, h2, h3, h4⟩ := atomsOf_cover q m fl buf hw1 hw0 hn r hmk hT
  refine ⟨x, hx, s, h1, h2, h3, ?_⟩
  rcases h4 with h4 | h4
  · exact .inl h4
  · right
    obtain ⟨_, c, y, hc, hy, hfill, hb, e, hme, ha⟩ := trace_through hT hf h4
    simp only [Nat.sub_zero] at hc
    exact ⟨c, y, hy, hfill, fwdRef_eq hc hf hwf hy, bwdRef_eq hc hf hwf hy, hb, e, hme, ha⟩

end YaraModel.ReAtoms
