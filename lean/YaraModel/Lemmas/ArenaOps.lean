/- The client operations that do not allocate — registering a slot, storing a pointer into a registered
   slot, memcpy into allocated memory — as arena transformers: each preserves the protocol `WF` and acts
   on the abstract arena `abs` as the corresponding operation of the abstract machine (Spec/Arena.lean). -/
import YaraModel.Lemmas.ArenaSeq
import YaraModel.Lemmas.ArenaOpsBytes
namespace YaraModel.Arena
open YaraModel.Gen.ArenaLayout

/-! ### reading the abstract arena -/

theorem abs_fst_length (a : Arena) : (abs a).1.length = a.bufs.length := by
  unfold abs; rw [toRefs_eq]; simp [bodies]

theorem aBody_abs (a : Arena) (j : Nat) : aBody (abs a) j = ((toRefs a).bufAt j).data := by
  unfold aBody abs; exact bodies_getD _ _

theorem aBody_abs_length (a : Arena) (j : Nat) : (aBody (abs a) j).length = (a.bufAt j).data.length := by
  rw [aBody_abs, toRefs_eq, bufAt_mapSlots_len]

theorem rd64_aBody_abs (a : Arena) (s : Ref) : rd64 (aBody (abs a) s.buf) s.off = getSlot (toRefs a) s := by
  rw [aBody_abs]; rfl

theorem bodies_setSlot (a : Arena) (s : Ref) (v : Nat) :
    bodies (setSlot a s v) = (bodies a).modify s.buf (fun d => wr64 d s.off v) := by
  unfold bodies setSlot
  apply List.ext_getElem?
  intro j
  simp only [List.getElem?_map, List.getElem?_modify]
  by_cases h : s.buf = j
  · subst h; cases a.bufs[s.buf]? <;> simp
  · simp [h]

/-- "the bytes [off, off+len) of buffer b do not touch slot r" -/
def Clear (r : Ref) (b off len : Nat) : Prop := r.buf ≠ b ∨ r.off + 8 ≤ off ∨ off + len ≤ r.off

theorem aFree_iff (x : AArena) (b off len : Nat) : aFree x b off len = true ↔ ∀ r ∈ x.2, Clear r b off len := by
  unfold aFree Clear
  simp only [List.all_eq_true, Bool.or_eq_true, decide_eq_true_eq]
  constructor
  · intro h r hr; have := h r hr; omega
  · intro h r hr; have := h r hr; omega

theorem Clear.noOverlap {r : Ref} {b o : Nat} (h : Clear r b o 8) : NoOverlap r ⟨b, o⟩ := by
  unfold Clear at h; unfold NoOverlap; simp only; omega

theorem noOverlap_of_mem {rs : List Ref} (hp : rs.Pairwise NoOverlap) {r s : Ref} (hr : r ∈ rs) (hs : s ∈ rs) :
    r = s ∨ NoOverlap r s := by
  induction rs with
  | nil => cases hr
  | cons x t ih =>
    have ⟨hx, ht⟩ := List.pairwise_cons.1 hp
    rcases List.mem_cons.1 hr with rfl | hr' <;> rcases List.mem_cons.1 hs with rfl | hs'
    · exact Or.inl rfl
    · exact Or.inr (hx s hs')
    · exact Or.inr (hx r hr').symm
    · exact ih ht hr' hs'

/-- the reference a valid pointer denotes is encodable, and decoding its image gives it back -/
theorem decRef_encRef_valid {a : Arena} (h : WF a) {v : Nat} (hv : ValidPtr a.bufs v) :
    (ptrToRef a.bufs v).1 = true ∧ decRef (encRef (ptrToRef a.bufs v).2) = (ptrToRef a.bufs v).2 := by
  rcases hv with rfl | ⟨j, hj, hh⟩
  · rw [ptrToRef_zero]; exact ⟨rfl, decRef_encRef_none⟩
  · rw [ptrToRef_hit h.ranges hj hh]
    have hsz := h.sizes _ (mem_iff_getD.2 ⟨j, hj, rfl⟩)
    have hc := h.count
    simp only [maxBuffers] at hc
    unfold Hits at hh
    exact ⟨rfl, decRef_encRef_some (by show j < 2 ^ 32 - 1; omega) (by show v - (a.bufs.getD j {}).base < 2 ^ 32; omega)⟩

/-! ### registering a slot -/

def regSlot (a : Arena) (s : Ref) : Arena := { a with relocs := a.relocs ++ [s] }

theorem makeRelocs_nil (a : Arena) (b base : Nat) : makeRelocs a b base [] = a := by
  refine Arena.ext' rfl ?_ rfl rfl
  simp [makeRelocs]

theorem makeRelocs_cons (a : Arena) (b base o : Nat) (os : List Nat) :
    makeRelocs a b base (o :: os) = makeRelocs (regSlot a ⟨b, (base + o) % 2 ^ 32⟩) b base os := by
  refine Arena.ext' rfl ?_ rfl rfl
  simp [makeRelocs, regSlot]

theorem mapSlots_append (φ : Nat → Nat) (l₁ l₂ : List Ref) (a : Arena) :
    mapSlots φ (l₁ ++ l₂) a = mapSlots φ l₂ (mapSlots φ l₁ a) := by
  unfold mapSlots; rw [List.foldl_append]

theorem toRefs_regSlot {a : Arena} (s : Ref) (hno : ∀ r ∈ a.relocs, NoOverlap r s) :
    toRefs (regSlot a s) = regSlot (setSlot (toRefs a) s (encRef (ptrToRef a.bufs (getSlot a s)).2)) s := by
  rw [toRefs_eq, toRefs_eq]
  show mapSlots (fun v => encRef (ptrToRef a.bufs v).2) (a.relocs ++ [s]) { a with relocs := a.relocs ++ [s] } = _
  rw [mapSlots_withRelocs, mapSlots_append, mapSlots_cons, mapSlots_nil, getSlot_mapSlots_other _ _ hno]
  exact Arena.ext' rfl (by simp [regSlot]) rfl rfl

theorem wf_regSlot {a : Arena} (h : WF a) {s : Ref} (hin : InB a s) (hno : ∀ r ∈ a.relocs, NoOverlap r s)
    (hv : ValidPtr a.bufs (getSlot a s)) : WF (regSlot a s) := by
  constructor
  · constructor
    · show (a.relocs ++ [s]).Pairwise NoOverlap
      rw [List.pairwise_append]
      refine ⟨h.slots.1, List.pairwise_singleton _ _, ?_⟩
      intro r hr t ht
      rw [List.mem_singleton] at ht; subst ht; exact hno r hr
    · intro r hr
      have hr' : r ∈ a.relocs ++ [s] := hr
      rcases List.mem_append.1 hr' with hr'' | hr''
      · exact h.slots.2 r hr''
      · rw [List.mem_singleton] at hr''; subst hr''; exact hin
  · exact h.ranges
  · intro r hr
    have hr' : r ∈ a.relocs ++ [s] := hr
    rcases List.mem_append.1 hr' with hr'' | hr''
    · exact h.valid r hr''
    · rw [List.mem_singleton] at hr''; subst hr''; exact hv
  · exact h.count
  · exact h.sizes

theorem abs_regSlot {a : Arena} (s : Ref) (hno : ∀ r ∈ a.relocs, NoOverlap r s) :
    abs (regSlot a s) = aReg (aSet (abs a) s (encRef (ptrToRef a.bufs (getSlot a s)).2)) s := by
  unfold abs
  rw [toRefs_regSlot s hno]
  show (bodies (setSlot (toRefs a) s _), a.relocs ++ [s]) = _
  rw [bodies_setSlot]
  rfl

/-! ### storing a pointer into a registered slot -/

theorem mapSlots_setSlot_mem (φ : Nat → Nat) {rs : List Ref} {a : Arena} (h : SlotsOk a rs) {s : Ref} (hs : s ∈ rs) (v : Nat) :
    mapSlots φ rs (setSlot a s v) = setSlot (mapSlots φ rs a) s (φ (v % 2 ^ 64)) := by
  induction rs generalizing a with
  | nil => cases hs
  | cons r t ih =>
    have ⟨hno, hin⟩ := h.head
    by_cases hrs : r = s
    · subst hrs
      rw [mapSlots_cons, getSlot_setSlot_same _ hin, setSlot_setSlot_same, mapSlots_cons,
        mapSlots_setSlot_comm _ _ _ hno, mapSlots_setSlot_comm _ _ _ hno, setSlot_setSlot_same]
    · have hst : s ∈ t := by
        rcases List.mem_cons.1 hs with e | e
        · exact absurd e.symm hrs
        · exact e
      have hn : NoOverlap r s := hno s hst
      rw [mapSlots_cons, getSlot_setSlot_other _ hn.symm, setSlot_comm _ _ _ hn.symm.symm.symm, mapSlots_cons]
      exact ih (h.tail.setSlot r _) hst

theorem wf_setSlot_reg {a : Arena} (h : WF a) {s : Ref} (hs : s ∈ a.relocs) {p : Nat} (hp : ValidPtr a.bufs p) (hlt : p < 2 ^ 64) :
    WF (setSlot a s p) := by
  have hk3 := keys3_setSlot a s p
  have hk := keys_of_keys3 hk3
  constructor
  · exact h.slots.setSlot s p
  · exact h.ranges.congr hk3.symm
  · intro r hr
    have hr' : r ∈ a.relocs := hr
    apply ValidPtr.congr hk.symm
    rcases noOverlap_of_mem h.slots.1 hs hr' with e | e
    · subst e
      rw [getSlot_setSlot_same _ (h.slots.2 s hs), Nat.mod_eq_of_lt hlt]; exact hp
    · rw [getSlot_setSlot_other _ e]; exact h.valid r hr'
  · rw [setSlot_length]; exact h.count
  · intro x hx
    obtain ⟨j, hj, rfl⟩ := mem_iff_getD.1 hx
    rw [setSlot_length] at hj
    have := h.sizes _ (mem_iff_getD.2 ⟨j, hj, rfl⟩)
    have hd := bufAt_setSlot_len a s p j
    unfold Arena.bufAt at hd
    omega

theorem abs_setSlot_reg {a : Arena} (h : WF a) {s : Ref} (hs : s ∈ a.relocs) {p : Nat} (hlt : p < 2 ^ 64) :
    abs (setSlot a s p) = aSet (abs a) s (encRef (ptrToRef a.bufs p).2) := by
  unfold abs
  rw [toRefs_eq, toRefs_eq]
  have hψ : (fun v => encRef (ptrToRef (setSlot a s p).bufs v).2) = (fun v => encRef (ptrToRef a.bufs v).2) := by
    funext v; rw [ptrToRef_congr (keys_setSlot a s p)]
  rw [hψ, setSlot_relocs, mapSlots_setSlot_mem _ h.slots hs, bodies_setSlot, Nat.mod_eq_of_lt hlt]
  rfl

/-! ### memcpy into allocated memory -/

def pokeA (a : Arena) (at_ : Ref) (bs : Bytes) : Arena :=
  { a with bufs := a.bufs.modify at_.buf (fun x => { x with data := wrBytes x.data at_.off bs }) }

theorem setBuf_poke_eq (a : Arena) (at_ : Ref) (bs : Bytes) :
    a.setBuf at_.buf { a.bufAt at_.buf with data := wrBytes (a.bufAt at_.buf).data at_.off bs } = pokeA a at_ bs := by
  refine Arena.ext' ?_ (by rfl) (by rfl) (by rfl)
  simp only [Arena.setBuf, pokeA]
  apply List.ext_getElem?
  intro j
  simp only [List.getElem?_set, List.getElem?_modify, bufAt_eq]
  by_cases h : at_.buf = j
  · subst h
    by_cases hl : at_.buf < a.bufs.length
    · simp [hl]
    · simp [hl]
  · simp [h]

theorem bufAt_pokeA (a : Arena) (at_ : Ref) (bs : Bytes) (j : Nat) :
    (pokeA a at_ bs).bufAt j =
      if at_.buf = j ∧ j < a.bufs.length then { a.bufAt j with data := wrBytes (a.bufAt j).data at_.off bs } else a.bufAt j := by
  unfold pokeA Arena.bufAt
  rw [getD_modify]

theorem pokeA_length (a : Arena) (at_ : Ref) (bs : Bytes) : (pokeA a at_ bs).bufs.length = a.bufs.length := by
  simp [pokeA]

theorem keys3_pokeA (a : Arena) (at_ : Ref) (bs : Bytes) : (pokeA a at_ bs).bufs.map key3 = a.bufs.map key3 := by
  apply List.ext_getElem?
  intro i
  simp only [pokeA, List.getElem?_map, List.getElem?_modify]
  by_cases h : at_.buf = i
  · subst h; cases a.bufs[at_.buf]? <;> simp [key3, length_wrBytes]
  · simp [h]

theorem getSlot_pokeA {a : Arena} {at_ : Ref} {bs : Bytes} {r : Ref} (h : Clear r at_.buf at_.off bs.length) :
    getSlot (pokeA a at_ bs) r = getSlot a r := by
  unfold getSlot
  rw [bufAt_pokeA]
  split
  · rename_i hc
    have : r.off + 8 ≤ at_.off ∨ at_.off + bs.length ≤ r.off := by unfold Clear at h; omega
    exact rd64_wrBytes_other this
  · rfl

theorem setSlot_pokeA {a : Arena} {at_ : Ref} {bs : Bytes} {r : Ref} (v : Nat) (h : Clear r at_.buf at_.off bs.length) :
    setSlot (pokeA a at_ bs) r v = pokeA (setSlot a r v) at_ bs := by
  refine Arena.ext' ?_ (by rfl) (by rfl) (by rfl)
  simp only [setSlot, pokeA]
  by_cases hb : at_.buf = r.buf
  · have : r.off + 8 ≤ at_.off ∨ at_.off + bs.length ≤ r.off := by unfold Clear at h; omega
    rw [hb, List.modify_modify_eq, List.modify_modify_eq]
    congr 1
    funext x
    simp [wr64_wrBytes_comm _ v this]
  · rw [List.modify_modify_ne _ _ _ hb]

theorem mapSlots_pokeA (φ : Nat → Nat) {rs : List Ref} (a : Arena) {at_ : Ref} {bs : Bytes}
    (h : ∀ r ∈ rs, Clear r at_.buf at_.off bs.length) : mapSlots φ rs (pokeA a at_ bs) = pokeA (mapSlots φ rs a) at_ bs := by
  induction rs generalizing a with
  | nil => simp only [mapSlots_nil]
  | cons r t ih =>
    have hr := h r (List.mem_cons_self ..)
    rw [mapSlots_cons, mapSlots_cons, getSlot_pokeA hr, setSlot_pokeA _ hr]
    exact ih _ (fun s hs => h s (List.mem_cons_of_mem _ hs))

theorem bodies_pokeA (a : Arena) (at_ : Ref) (bs : Bytes) :
    bodies (pokeA a at_ bs) = (bodies a).modify at_.buf (fun d => wrBytes d at_.off bs) := by
  unfold bodies pokeA
  apply List.ext_getElem?
  intro j
  simp only [List.getElem?_map, List.getElem?_modify]
  by_cases h : at_.buf = j
  · subst h; cases a.bufs[at_.buf]? <;> simp
  · simp [h]

theorem wf_pokeA {a : Arena} (h : WF a) {at_ : Ref} {bs : Bytes} (hc : ∀ r ∈ a.relocs, Clear r at_.buf at_.off bs.length) :
    WF (pokeA a at_ bs) := by
  have hk3 := keys3_pokeA a at_ bs
  have hk := keys_of_keys3 hk3
  have hlen : ∀ j, ((pokeA a at_ bs).bufAt j).data.length = (a.bufAt j).data.length := by
    intro j; rw [bufAt_pokeA]; split <;> simp [length_wrBytes]
  constructor
  · exact ⟨h.slots.1, fun r hr => ⟨by rw [hlen]; exact (h.slots.2 r hr).1, by rw [pokeA_length]; exact (h.slots.2 r hr).2⟩⟩
  · exact h.ranges.congr hk3.symm
  · intro r hr
    have hr' : r ∈ a.relocs := hr
    rw [getSlot_pokeA (hc r hr')]
    exact ValidPtr.congr hk.symm (h.valid r hr')
  · rw [pokeA_length]; exact h.count
  · intro x hx
    obtain ⟨j, hj, rfl⟩ := mem_iff_getD.1 hx
    rw [pokeA_length] at hj
    have := h.sizes _ (mem_iff_getD.2 ⟨j, hj, rfl⟩)
    have hd := hlen j
    unfold Arena.bufAt at hd
    omega

theorem abs_pokeA {a : Arena} {at_ : Ref} {bs : Bytes} (hc : ∀ r ∈ a.relocs, Clear r at_.buf at_.off bs.length) :
    abs (pokeA a at_ bs) = ((abs a).1.modify at_.buf (fun d => wrBytes d at_.off bs), (abs a).2) := by
  unfold abs
  rw [toRefs_eq, toRefs_eq]
  have hψ : (fun v => encRef (ptrToRef (pokeA a at_ bs).bufs v).2) = (fun v => encRef (ptrToRef a.bufs v).2) := by
    funext v; rw [ptrToRef_congr (keys_of_keys3 (keys3_pokeA a at_ bs))]
  rw [hψ]
  show (bodies (mapSlots _ a.relocs (pokeA a at_ bs)), a.relocs) = _
  rw [mapSlots_pokeA _ _ hc, bodies_pokeA]

/-! ### registering a slot and storing a pointer into it with no allocation in between -/

theorem setSlot_eq_pokeA (a : Arena) (s : Ref) (v : Nat) : setSlot a s v = pokeA a s (leBytes 8 v) := by
  refine Arena.ext' ?_ (by rfl) (by rfl) (by rfl)
  simp only [setSlot, pokeA, wr64_eq_wrBytes]

theorem aSet_over_poke (x : AArena) (s : Ref) (p v : Nat) :
    aSet (x.1.modify s.buf (fun d => wrBytes d s.off (leBytes 8 p)), x.2) s v = aSet x s v := by
  unfold aSet
  simp only [List.modify_modify_eq]
  congr 2
  funext d
  simp only [Function.comp, ← wr64_eq_wrBytes, wr64_wr64_same]

/-- the slot `s` (inside used bytes, touching no registered slot, holding anything) is registered and a valid
    pointer `p` is stored into it: the protocol holds afterwards and the abstract arena has the slot registered
    with the reference `p` denotes -/
theorem regSet_spec {a : Arena} (h : WF a) {s : Ref} (hin : InB a s) (hc : ∀ r ∈ a.relocs, Clear r s.buf s.off 8)
    {p : Nat} (hp : ValidPtr a.bufs p) (hlt : p < 2 ^ 64) :
    WF (regSlot (setSlot a s p) s) ∧
      abs (regSlot (setSlot a s p) s) = aReg (aSet (abs a) s (encRef (ptrToRef a.bufs p).2)) s := by
  have hl8 : (leBytes 8 p).length = 8 := length_leBytes 8 p
  have hc' : ∀ r ∈ a.relocs, Clear r s.buf s.off (leBytes 8 p).length := by rw [hl8]; exact hc
  have hw1 : WF (setSlot a s p) := by rw [setSlot_eq_pokeA]; exact wf_pokeA h hc'
  have ha1 : abs (setSlot a s p) = ((abs a).1.modify s.buf (fun d => wrBytes d s.off (leBytes 8 p)), (abs a).2) := by
    rw [setSlot_eq_pokeA]; exact abs_pokeA hc'
  have hk := keys_setSlot a s p
  have hno : ∀ r ∈ (setSlot a s p).relocs, NoOverlap r s := fun r hr => (hc r hr).noOverlap
  have hget : getSlot (setSlot a s p) s = p := by rw [getSlot_setSlot_same _ hin, Nat.mod_eq_of_lt hlt]
  refine ⟨wf_regSlot hw1 ((InB_setSlot a s p s).2 hin) hno (by rw [hget]; exact hp.congr hk.symm), ?_⟩
  rw [abs_regSlot _ hno, hget, ptrToRef_congr hk, ha1, aSet_over_poke]

end YaraModel.Arena
