/- The loader on (prefixes of) images written by `save`: header, table and bodies phases. -/
import YaraModel.Lemmas.ArenaKeys
namespace YaraModel.Arena
open YaraModel.Gen.ArenaLayout

theorem leVal_leBytes4 (v : Nat) : leVal (leBytes 4 v) = v % 2 ^ 32 := by
  have : leBytes 4 v = [byteAt v 0, byteAt v 1, byteAt v 2, byteAt v 3] := rfl
  rw [this]
  simp only [leVal, byteAt, UInt8.toNat_ofNat']
  omega

theorem length_header (n : Nat) : (header n).length = headerSize := by
  simp [header, magic, headerSize]

theorem length_tableEntry (o u : Nat) : (tableEntry o u).length = tableEntrySize := by
  simp [tableEntry, length_leBytes, tblOffsetSize, tblSizeSize, tableEntrySize]

theorem length_table (o : Nat) (us : List Nat) : (table o us).length = tableEntrySize * us.length := by
  induction us generalizing o with
  | nil => simp [table]
  | cons u t ih =>
    simp only [table, List.length_append, length_tableEntry, ih, List.length_cons]
    simp only [tableEntrySize]; omega

theorem parseHeader_header (n : Nat) (hn : n ≤ maxBuffers) (rest : Bytes) :
    parseHeader (header n ++ rest) = .ok (n, rest) := by
  have hn' : n ≤ 16 := hn
  have hlen : ¬ (header n ++ rest).length < headerSize := by
    rw [List.length_append, length_header]; omega
  have hm : (header n ++ rest).take 4 = magic := by simp [header, magic]
  have hv : ((header n ++ rest).getD hdrVersionOff 0).toNat = fileVersion := by
    simp [header, magic, hdrVersionOff, fileVersion]
  have hb : ((header n ++ rest).getD hdrNumBuffersOff 0).toNat = n := by
    simp [header, magic, hdrNumBuffersOff]; omega
  unfold parseHeader
  rw [if_neg hlen, if_neg (by rw [hm]; simp), if_neg (by rw [hv]; simp), hb, if_neg (by simp only [maxBuffers]; omega)]
  congr 2

theorem parseHeader_short {s : Bytes} (h : s.length < headerSize) : parseHeader s = .error .invalidFile := by
  unfold parseHeader; rw [if_pos h]

/-! ### table -/

theorem drop_append_len {l1 l2 : Bytes} {k : Nat} (h : l1.length = k) : (l1 ++ l2).drop k = l2 := by
  subst h; simp

theorem take_append_len {l1 l2 : Bytes} {k : Nat} (h : l1.length = k) : (l1 ++ l2).take k = l1 := by
  subst h; simp

theorem drop_append_len_add {l1 l2 : Bytes} {k : Nat} (h : l1.length = k) (j : Nat) : (l1 ++ l2).drop (k + j) = l2.drop j := by
  subst h; rw [List.drop_length_add_append]

theorem rdLE_size_table (o : Nat) (us : List Nat) (rest : Bytes) (i : Nat) (hi : i < us.length) :
    rdLE tblSizeSize (table o us ++ rest) (tableEntrySize * i + tblSizeOff) = us.getD i 0 % 2 ^ 32 := by
  induction us generalizing o i with
  | nil => cases hi
  | cons u t ih =>
    cases i with
    | zero =>
      simp only [table, tableEntry, tblSizeOff, tblOffsetSize, tblSizeSize, tableEntrySize, Nat.mul_zero, Nat.zero_add,
        List.append_assoc, rdLE]
      rw [drop_append_len (length_leBytes 8 o), take_append_len (length_leBytes 4 u)]
      simp [leVal_leBytes4]
    | succ i =>
      have hi' : i < t.length := by simpa using hi
      have := ih (o + u % 2 ^ 32) i hi'
      simp only [List.getD_cons_succ]
      rw [← this]
      simp only [table, List.append_assoc, rdLE]
      rw [show tableEntrySize * (i + 1) + tblSizeOff = tableEntrySize + (tableEntrySize * i + tblSizeOff) from by
        simp only [tableEntrySize]; omega]
      rw [drop_append_len_add (length_tableEntry o u)]

theorem parseTable_table (o : Nat) (us : List Nat) (rest : Bytes) :
    parseTable us.length (table o us ++ rest) = .ok (us.map (· % 2 ^ 32), rest) := by
  unfold parseTable
  have hl := length_table o us
  have hmin : min (tableEntrySize * us.length) (table o us ++ rest).length = tableEntrySize * us.length := by
    rw [List.length_append, hl]; omega
  rw [hmin, if_neg (by simp [tableEntrySize])]
  congr 2
  · apply List.ext_getElem?
    intro i
    simp only [List.getElem?_map]
    by_cases hi : i < us.length
    · rw [List.getElem?_range hi, List.getElem?_eq_getElem hi]
      simp only [Option.map_some]
      rw [rdLE_size_table o us rest i hi]
      simp [List.getD_eq_getElem?_getD, hi]
    · have h1 : (List.range us.length)[i]? = none := by simp; omega
      have h2 : us[i]? = none := by simp; omega
      simp [h1, h2]
  · exact drop_append_len hl

theorem parseTable_short {n : Nat} {s : Bytes} (h : s.length < tableEntrySize * n) : parseTable n s = .error .corruptFile := by
  unfold parseTable
  have : min (tableEntrySize * n) s.length / tableEntrySize ≠ n := by
    simp only [tableEntrySize] at *
    have : min (12 * n) s.length = s.length := by omega
    rw [this]; omega
  rw [if_pos this]

/-! ### bodies -/

theorem dblUntil_le (f s need : Nat) : dblUntil f s need ≤ max s (2 * need) := by
  induction f generalizing s with
  | zero => simp [dblUntil]; omega
  | succ f ih =>
    simp only [dblUntil]
    split
    · have := ih (s * 2); omega
    · omega

theorem newCap_load_ok {size : Nat} (h : size ≤ 2 ^ 31) : ¬ newCap loadInitialSize 0 0 size > 2 ^ maxBufferSizeLog2 := by
  have e : newCap loadInitialSize 0 0 size = dblUntil (0 + size) 10485 (0 + size) := by
    simp [newCap, loadInitialSize]
  have := dblUntil_le (0 + size) 10485 (0 + size)
  rw [e]
  simp only [maxBufferSizeLog2]
  omega

/-- a stream that ends inside the buffer bodies: the first body that is cut makes its fread come back short -/
theorem readBodies_short (alloc : Nat → Nat) (ds : List Bytes) (hs : ∀ d ∈ ds, d.length ≤ 2 ^ 31) (tail : Bytes)
    (m : Nat) (hm : m < ds.flatten.length) (i : Nat) :
    readBodies alloc i (ds.map (·.length)) ((ds.flatten ++ tail).take m) = .error .corruptFile := by
  induction ds generalizing m i with
  | nil => simp at hm
  | cons d t ih =>
    have hst : ∀ d ∈ t, d.length ≤ 2 ^ 31 := fun x hx => hs x (List.mem_cons_of_mem _ hx)
    simp only [List.map_cons, readBodies]
    by_cases hz : d.length = 0
    · have hd : d = [] := List.eq_nil_of_length_eq_zero hz
      subst hd
      simp only [List.length_nil, if_true, List.flatten_cons, List.nil_append] at hm ⊢
      rw [ih hst m hm]; rfl
    · rw [if_neg hz, if_neg (newCap_load_ok (hs d (List.mem_cons_self ..)))]
      simp only [List.flatten_cons, List.append_assoc, List.length_append] at hm ⊢
      by_cases hlt : m < d.length
      · have : ((d ++ (t.flatten ++ tail)).take m).length < d.length := by
          rw [List.length_take]; omega
        rw [if_pos this]
      · have hge : d.length ≤ m := by omega
        have hlen : ¬ ((d ++ (t.flatten ++ tail)).take m).length < d.length := by
          rw [List.length_take, List.length_append]; omega
        rw [if_neg hlen]
        have hdrop : ((d ++ (t.flatten ++ tail)).take m).drop d.length = (t.flatten ++ tail).take (m - d.length) := by
          rw [List.drop_take, List.drop_left]
        rw [hdrop, ih hst (m - d.length) (by omega)]; rfl

/-! ### shape of a saved image, `load` as nested matches -/

theorem bodies_toRefs_lengths (a : Arena) : (bodies (toRefs a)).map (·.length) = (bodies a).map (·.length) := by
  rw [toRefs_eq]
  have := keys_mapSlots (fun v => encRef (ptrToRef a.bufs v).2) a.relocs a
  have h2 := congrArg (List.map Prod.snd) this
  simpa [bodies, key, List.map_map, Function.comp_def] using h2

theorem save_split (a : Arena) :
    save a = header a.bufs.length ++ (table (headerSize + tableEntrySize * a.bufs.length) ((bodies a).map (·.length))
      ++ ((bodies (toRefs a)).flatten ++ relocBytes a.relocs)) := by
  simp [save, List.append_assoc]

theorem take_header_append (n : Nat) (x : Bytes) {k : Nat} (h : headerSize ≤ k) :
    (header n ++ x).take k = header n ++ x.take (k - headerSize) := by
  rw [List.take_append, length_header, List.take_of_length_le (by rw [length_header]; exact h)]

theorem rdLE_offset_table (o : Nat) (us : List Nat) (rest : Bytes) (i : Nat) (hi : i < us.length) :
    rdLE tblOffsetSize (table o us ++ rest) (tableEntrySize * i + tblOffsetOff)
      = (o + ((us.take i).map (· % 2 ^ 32)).sum) % 2 ^ 64 := by
  induction us generalizing o i with
  | nil => cases hi
  | cons u t ih =>
    cases i with
    | zero =>
      simp only [table, tableEntry, tblOffsetOff, tblOffsetSize, tableEntrySize, Nat.mul_zero, List.append_assoc, rdLE,
        List.drop_zero, List.take_zero, List.map_nil, List.sum_nil, Nat.add_zero]
      rw [take_append_len (length_leBytes 8 o), leVal_leBytes8]
    | succ i =>
      have hi' : i < t.length := by simpa using hi
      have := ih (o + u % 2 ^ 32) i hi'
      simp only [List.take_succ_cons, List.map_cons, List.sum_cons]
      rw [show o + (u % 2 ^ 32 + ((t.take i).map (· % 2 ^ 32)).sum) = o + u % 2 ^ 32 + ((t.take i).map (· % 2 ^ 32)).sum from by omega, ← this]
      simp only [table, List.append_assoc, rdLE]
      rw [show tableEntrySize * (i + 1) + tblOffsetOff = tableEntrySize + (tableEntrySize * i + tblOffsetOff) from by
        simp only [tableEntrySize]; omega]
      rw [drop_append_len_add (length_tableEntry o u)]

/-- the table written by save passes the loader's (optional) cross-check of the offsets -/
theorem offsetsOk_table (o : Nat) (us : List Nat) (rest : Bytes) (i : Nat) (pre post : List Nat) (hus : us = pre ++ post)
    (hi : i = pre.length) :
    offsetsOk (table o us ++ rest) i (o + (pre.map (· % 2 ^ 32)).sum) (post.map (· % 2 ^ 32)) = true := by
  induction post generalizing i pre with
  | nil => simp [offsetsOk]
  | cons u t ih =>
    simp only [List.map_cons, offsetsOk, Bool.and_eq_true, beq_iff_eq]
    constructor
    · have hlt : i < us.length := by rw [hus, List.length_append, List.length_cons]; omega
      rw [rdLE_offset_table o us rest i hlt]
      have : us.take i = pre := by rw [hus, hi]; simp
      rw [this]
    · have := ih (i + 1) (pre ++ [u]) (by rw [hus]; simp) (by simp [hi])
      simpa [List.map_append, List.sum_append, Nat.add_assoc] using this

theorem load_eq (cfg : LoaderCfg) (alloc : Nat → Nat) (s : Bytes) :
    load cfg alloc s =
      match parseHeader s with
      | .error e => .error e
      | .ok (n, s1) =>
        match parseTable n s1 with
        | .error e => .error e
        | .ok (sizes, s2) =>
          if cfg.checksOffsets && !offsetsOk s1 0 (headerSize + tableEntrySize * n) sizes then .error .corruptFile
          else
            match readBodies alloc 0 sizes s2 with
            | .error e => .error e
            | .ok (bufs, s3) => applyRelocs cfg { bufs := bufs, relocs := [], init := loadInitialSize } s3 := by
  unfold load
  cases h1 : parseHeader s with
  | error e => rfl
  | ok x =>
    obtain ⟨n, s1⟩ := x
    simp only [bind, Except.bind]
    cases h2 : parseTable n s1 with
    | error e => rfl
    | ok y =>
      obtain ⟨sizes, s2⟩ := y
      simp only
      split
      · rfl
      · cases h3 : readBodies alloc 0 sizes s2 with
        | error e => rfl
        | ok z => rfl

end YaraModel.Arena
