/- C14 helper lemmas: the block walker equals the memory-map specification on every ascending
   layout of non-empty blocks, for every offset and length. -/
import YaraModel.Lemmas.HashMathWalk
namespace YaraModel.HM
open Spec

def toMem (bs : List Block) : List (Nat × Bytes) := bs.map fun b => (b.base, b.data)

/-- ascending, non-overlapping, non-empty blocks -/
def Layout : List Block → Prop
  | [] => True
  | [b] => 0 < b.size
  | b :: b' :: rest => 0 < b.size ∧ b.base + b.size ≤ b'.base ∧ Layout (b' :: rest)

theorem Layout.head_pos {b : Block} {rest : List Block} (h : Layout (b :: rest)) : 0 < b.size := by
  cases rest with
  | nil => exact h
  | cons b' r => exact h.1

theorem Layout.tail {b : Block} {rest : List Block} (h : Layout (b :: rest)) : Layout rest := by
  cases rest with
  | nil => trivial
  | cons b' r => exact h.2.2

theorem Layout.next_base {b b' : Block} {rest : List Block} (h : Layout (b :: b' :: rest)) :
    b.base + b.size ≤ b'.base := h.2.1

/-- an address below the first base is unmapped -/
theorem memAt_below (bs : List Block) (h : Layout bs) (a : Nat) (ha : ∀ b ∈ bs.head?, a < b.base) :
    memAt (toMem bs) a = none := by
  induction bs with
  | nil => rfl
  | cons b rest ih =>
    have hb : a < b.base := ha b (by simp)
    simp only [toMem, List.map_cons, memAt]
    rw [if_neg (by omega)]
    apply ih h.tail
    intro b' hb'
    cases rest with
    | nil => simp at hb'
    | cons c r =>
      simp only [List.head?_cons, Option.mem_def, Option.some.injEq] at hb'
      subst hb'
      have := h.next_base
      have := h.head_pos
      omega

theorem memAt_lt_memEnd (m : List (Nat × Bytes)) (a : Nat) (h : (memAt m a).isNone = false) : a < memEnd m := by
  induction m with
  | nil => simp [memAt] at h
  | cons p rest ih =>
    obtain ⟨base, d⟩ := p
    simp only [memAt] at h
    simp only [memEnd]
    by_cases hin : base ≤ a ∧ a < base + d.length
    · omega
    · rw [if_neg hin] at h
      have := ih h
      omega

theorem memEnd_ge_head (b : Block) (rest : List Block) : b.base + b.size ≤ memEnd (toMem (b :: rest)) := by
  simp only [toMem, List.map_cons, memEnd, Block.size]; omega

theorem memEnd_cons (b : Block) (rest : List Block) :
    memEnd (toMem (b :: rest)) = max (b.base + b.size) (memEnd (toMem rest)) := rfl

/-! ### readFrom -/

theorem readFrom_none (m : List (Nat × Bytes)) (a n : Nat) (h : memAt m a = none) :
    readFrom m a (n + 1) = none := by
  simp [readFrom, h]

theorem readFrom_add (m : List (Nat × Bytes)) (a n1 n2 : Nat) :
    readFrom m a (n1 + n2) =
      match readFrom m a n1, readFrom m (a + n1) n2 with
      | some x, some y => some (x ++ y)
      | _, _ => none := by
  induction n1 generalizing a with
  | zero =>
    simp only [Nat.zero_add, Nat.add_zero, readFrom]
    cases readFrom m a n2 <;> rfl
  | succ n ih =>
    have e : n + 1 + n2 = (n + n2) + 1 := by omega
    rw [e]
    simp only [readFrom]
    rw [ih (a + 1)]
    have e2 : a + 1 + n = a + (n + 1) := by omega
    rw [e2]
    cases memAt m a <;> cases readFrom m (a + 1) n <;> cases readFrom m (a + (n + 1)) n2 <;> rfl

/-- inside the first region -/
theorem readFrom_head (base : Nat) (d : Bytes) (m : List (Nat × Bytes)) (a n : Nat) (h1 : base ≤ a)
    (h2 : a + n ≤ base + d.length) :
    readFrom ((base, d) :: m) a n = some ((d.drop (a - base)).take n) := by
  induction n generalizing a with
  | zero => simp [readFrom]
  | succ n ih =>
    have hlt : a - base < d.length := by omega
    have hm : memAt ((base, d) :: m) a = some d[a - base] := by
      simp only [memAt]
      rw [if_pos (by omega)]
      exact List.getElem?_eq_getElem hlt
    have hr := ih (a + 1) (by omega) (by omega)
    simp only [readFrom, hm, hr]
    have e : a + 1 - base = a - base + 1 := by omega
    rw [e, List.drop_eq_getElem_cons hlt, List.take_succ_cons]

/-- beyond the first region -/
theorem readFrom_skip (base : Nat) (d : Bytes) (m : List (Nat × Bytes)) (a n : Nat) (h : base + d.length ≤ a) :
    readFrom ((base, d) :: m) a n = readFrom m a n := by
  induction n generalizing a with
  | zero => rfl
  | succ n ih =>
    have hm : memAt ((base, d) :: m) a = memAt m a := by
      simp only [memAt]; rw [if_neg (by omega)]
    simp only [readFrom, hm, ih (a + 1) (by omega)]

/-! ### the walker against readFrom -/

/-- what Lemma B states for a remaining list -/
def AfterOk (rest : List Block) (off : Nat) : Prop :=
  ∀ len, 0 < len →
    (walkLoop rest off len true).map List.flatten =
      readFrom (toMem rest) off (min (off + len) (max off (memEnd (toMem rest))) - off)

/-- offset inside the head block (any `past`), given Lemma B for the tail -/
theorem inblock_step (b : Block) (rest : List Block) (off len : Nat) (past : Bool)
    (hin : b.base ≤ off ∧ off < b.base + b.size) (ih : AfterOk rest (b.base + b.size)) :
    (walkLoop (b :: rest) off len past).map List.flatten =
      readFrom (toMem (b :: rest)) off (min (off + len) (memEnd (toMem (b :: rest))) - off) := by
  have hE := memEnd_ge_head b rest
  rw [walkLoop_in b rest off len past hin]
  by_cases hb : b.base + b.size ≥ off + len
  · rw [if_pos hb]
    have hn : min (off + len) (memEnd (toMem (b :: rest))) - off = len := by omega
    rw [hn]
    simp only [toMem, List.map_cons]
    rw [readFrom_head b.base b.data _ off len hin.1 (by unfold Block.size at *; omega)]
    simp only [Option.map_some, List.flatten_cons, List.flatten_nil, List.append_nil]
    rw [chunk_eq_slice]; rfl
  · rw [if_neg hb]
    have hlen' : 0 < off + len - (b.base + b.size) := by omega
    have hih := ih _ hlen'
    rw [map_flatten_cons, hih]
    -- split the read at the end of the block
    have hsplit : min (off + len) (memEnd (toMem (b :: rest))) - off =
        (b.base + b.size - off) +
          (min (b.base + b.size + (off + len - (b.base + b.size))) (max (b.base + b.size) (memEnd (toMem rest))) -
            (b.base + b.size)) := by
      rw [memEnd_cons]; omega
    rw [hsplit, readFrom_add]
    have e1 : off + (b.base + b.size - off) = b.base + b.size := by omega
    rw [e1]
    simp only [toMem, List.map_cons]
    rw [readFrom_head b.base b.data _ off _ hin.1 (by unfold Block.size at *; omega),
      readFrom_skip b.base b.data _ _ _ (by unfold Block.size; omega)]
    have hc : b.chunk off len = (b.data.drop (off - b.base)).take (b.base + b.size - off) := by
      rw [chunk_eq_slice]
      unfold slice
      rw [List.take_of_length_le (by simp [Block.size] at *; omega),
        List.take_of_length_le (by simp [Block.size] at *; omega)]
    rw [hc]
    generalize readFrom (List.map (fun b => (b.base, b.data)) rest) (b.base + b.size) _ = r
    cases r <;> rfl

/-- Lemma B: after a block has been consumed up to its end (`off`), with bytes still wanted. -/
theorem after_ok (bs : List Block) (hl : Layout bs) (off : Nat) (hb : ∀ b ∈ bs.head?, off ≤ b.base) :
    AfterOk bs off := by
  induction bs generalizing off with
  | nil =>
    intro len hlen
    have : min (off + len) (max off (memEnd (toMem []))) - off = 0 := by
      simp only [toMem, List.map_nil, memEnd]; omega
    rw [this]; rfl
  | cons b rest ih =>
    intro len hlen
    have hle : off ≤ b.base := hb b (by simp)
    have hpos := hl.head_pos
    have hE := memEnd_ge_head b rest
    have hrest : AfterOk rest (b.base + b.size) := by
      apply ih hl.tail
      intro c hc
      cases rest with
      | nil => simp at hc
      | cons c' r =>
        simp only [List.head?_cons, Option.mem_def, Option.some.injEq] at hc
        subst hc; exact hl.next_base
    by_cases heq : off = b.base
    · have hin : b.base ≤ off ∧ off < b.base + b.size := by omega
      rw [inblock_step b rest off len true hin hrest]
      have : max off (memEnd (toMem (b :: rest))) = memEnd (toMem (b :: rest)) := by omega
      rw [this]
    · have hout : ¬ (b.base ≤ off ∧ off < b.base + b.size) := by omega
      rw [walkLoop_out b rest off len true hout]
      have hm : memAt (toMem (b :: rest)) off = none :=
        memAt_below (b :: rest) hl off (by intro c hc; simp at hc; subst hc; omega)
      have hn : min (off + len) (max off (memEnd (toMem (b :: rest)))) - off =
          (min (off + len) (max off (memEnd (toMem (b :: rest)))) - off - 1) + 1 := by omega
      rw [hn, readFrom_none _ _ _ hm]
      rfl

/-- Lemma A: no block consumed yet. -/
theorem before_ok (bs : List Block) (hl : Layout bs) (off len : Nat) :
    (walkLoop bs off len false).map List.flatten =
      if (memAt (toMem bs) off).isNone then none
      else readFrom (toMem bs) off (min (off + len) (memEnd (toMem bs)) - off) := by
  induction bs with
  | nil => rfl
  | cons b rest ih =>
    have hpos := hl.head_pos
    have hrest : AfterOk rest (b.base + b.size) := by
      apply after_ok rest hl.tail
      intro c hc
      cases rest with
      | nil => simp at hc
      | cons c' r =>
        simp only [List.head?_cons, Option.mem_def, Option.some.injEq] at hc
        subst hc; exact hl.next_base
    by_cases hin : b.base ≤ off ∧ off < b.base + b.size
    · rw [inblock_step b rest off len false hin hrest]
      have hm : (memAt (toMem (b :: rest)) off).isNone = false := by
        simp only [toMem, List.map_cons, memAt]
        rw [if_pos (by unfold Block.size at hin; omega)]
        have hlt : off - b.base < b.data.length := by unfold Block.size at hin; omega
        rw [List.getElem?_eq_getElem hlt]; rfl
      rw [hm]; rfl
    · rw [walkLoop_out b rest off len false hin]
      simp only [Bool.false_eq_true, if_false]
      have hmem : memAt (toMem (b :: rest)) off = memAt (toMem rest) off := by
        simp only [toMem, List.map_cons, memAt]
        rw [if_neg (by unfold Block.size at hin; omega)]
      rw [ih hl.tail, hmem]
      cases hn : (memAt (toMem rest) off).isNone with
      | true => rfl
      | false =>
        simp only [Bool.false_eq_true, if_false]
        have hlt := memAt_lt_memEnd _ _ hn
        have hge : b.base + b.size ≤ off := by
          by_cases hlow : off < b.base
          · have := memAt_below (b :: rest) hl off (by intro c hc; simp at hc; subst hc; exact hlow)
            rw [hmem] at this; rw [this] at hn; simp at hn
          · omega
        have hE : memEnd (toMem (b :: rest)) = memEnd (toMem rest) := by rw [memEnd_cons]; omega
        rw [hE]
        simp only [toMem, List.map_cons]
        rw [readFrom_skip b.base b.data _ _ _ (by unfold Block.size at hge; omega)]

/-- The walker is the memory-map specification. -/
theorem rangeWalk_eq_addressedMem_lemma (blocks : List Block) (hl : Layout blocks) (off len : Int) :
    rangeWalk blocks off len = addressedMem (toMem blocks) off len := by
  unfold rangeWalk chunksWalk addressedMem
  cases blocks with
  | nil =>
    simp only [argsOk, Bool.false_eq_true, if_false, Option.map_none, toMem, List.map_nil, memAt]
    split <;> rfl
  | cons b0 rest =>
    by_cases hneg : off < 0 ∨ len < 0
    · have : argsOk (b0 :: rest) off len = false := by
        simp only [argsOk, Bool.not_eq_false', Bool.or_eq_true, decide_eq_true_eq]
        rcases hneg with h | h
        · left; left; exact h
        · left; right; exact h
      rw [this, if_pos hneg]; rfl
    · rw [if_neg hneg]
      by_cases hlow : off < (b0.base : Int)
      · have : argsOk (b0 :: rest) off len = false := by
          simp only [argsOk, Bool.not_eq_false', Bool.or_eq_true, decide_eq_true_eq]
          right; exact hlow
        rw [this, memAt_below (b0 :: rest) hl off.toNat (by intro c hc; simp at hc; subst hc; omega)]
        rfl
      · have : argsOk (b0 :: rest) off len = true := by
          simp only [argsOk, Bool.not_eq_true', Bool.or_eq_false_iff, decide_eq_false_iff_not]
          omega
        rw [this]
        simp only [if_true]
        rw [before_ok (b0 :: rest) hl off.toNat len.toNat]

end YaraModel.HM
