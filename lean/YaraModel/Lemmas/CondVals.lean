/- value-level lemmas for compile_correct: encodings, and "generated opcode on VM words = spec operator on values" -/
import YaraModel.Lemmas.Cond
namespace YaraModel.CondCompile
open YaraModel YaraModel.C YaraModel.Cond YaraModel.CondVm YaraModel.Gen.VmOps

variable {fo : FloatOps}

/-! ### encodings -/

theorem natOfRev_pos (xs : Bytes) : 1 ≤ natOfRev xs := by
  induction xs with
  | nil => simp [natOfRev]
  | cons x xs ih => simp only [natOfRev]; omega

theorem natOfRev_ge_length (xs : Bytes) : xs.length + 1 ≤ natOfRev xs := by
  induction xs with
  | nil => simp [natOfRev]
  | cons x xs ih => simp only [natOfRev, List.length_cons]; omega

theorem natToRev_natOfRev (xs : Bytes) (fuel : Nat) (h : xs.length ≤ fuel) :
    natToRev fuel (natOfRev xs) = xs := by
  induction xs generalizing fuel with
  | nil => cases fuel <;> simp [natToRev, natOfRev]
  | cons x xs ih =>
    cases fuel with
    | zero => simp at h
    | succ fuel =>
      have hp := natOfRev_pos xs
      have hx : x.toNat < 256 := x.toNat_lt
      have h1 : ¬ (natOfRev xs * 256 + x.toNat ≤ 1) := by omega
      have h2 : (natOfRev xs * 256 + x.toNat) % 256 = x.toNat := by omega
      have h3 : (natOfRev xs * 256 + x.toNat) / 256 = natOfRev xs := by omega
      simp only [natToRev, natOfRev, h1, if_false, h2, h3]
      rw [ih fuel (by simpa using h)]
      simp

theorem ptrPayload_encPtr (tag p : Nat) (ht : tag < 8) : ptrPayload (encPtr tag p) = p := by
  unfold ptrPayload encPtr W64
  have : (18446744073709551616 * ((8 * p + tag + 8 : Nat) : Int)) / 18446744073709551616 = ((8 * p + tag + 8 : Nat) : Int) := by
    rw [Int.mul_ediv_cancel_left _ (by decide)]
  rw [this]
  simp only [Int.toNat_natCast]
  omega

theorem decSS_encSS (b : Bytes) : decSS (encSS b) = b := by
  unfold decSS encSS
  rw [ptrPayload_encPtr 1 _ (by decide)]
  unfold bytesToNat
  rw [natToRev_natOfRev b.reverse _ (by have := natOfRev_ge_length b.reverse; omega)]
  simp

theorem decStr_encStr (n : Nat) : decStr (encStr n) = n := ptrPayload_encPtr 2 n (by decide)
theorem decIt_encIt (n : Nat) : decIt (encIt n) = n := ptrPayload_encPtr 3 n (by decide)

theorem decRe_encRe (re : Bytes) (nc : Bool) : decRe (encRe re nc) = (re, nc) := by
  unfold decRe encRe
  rw [ptrPayload_encPtr 4 _ (by decide)]
  have h1 : (2 * bytesToNat re + if nc = true then 1 else 0) / 2 = bytesToNat re := by cases nc <;> simp <;> omega
  have h2 : ((2 * bytesToNat re + if nc = true then 1 else 0) % 2 == 1) = nc := by cases nc <;> simp <;> omega
  simp only [h1, h2]
  unfold bytesToNat
  rw [natToRev_natOfRev re.reverse _ (by have := natOfRev_ge_length re.reverse; omega)]
  simp

theorem encPtr_ge (tag p : Nat) : W64 ≤ encPtr tag p := by
  unfold encPtr W64
  have : (1 : Int) ≤ ((8 * p + tag + 8 : Nat) : Int) := by omega
  omega

theorem isUndef_encPtr (tag p : Nat) : isUndef (encPtr tag p) = false := by
  have := encPtr_ge tag p
  unfold W64 at this
  simp only [isUndef, UNDEF, beq_eq_false_iff_ne, ne_eq]
  omega

theorem isUndef_b2i (b : Bool) : isUndef (b2i b) = false := by cases b <;> decide

theorem isUndef_of_ne {i : Int} (h : i ≠ UNDEF) : isUndef i = false := by
  simp [isUndef, h]

/-! ### typed values -/

theorem isU_toVm {t : Ty} {v : Val} (h : ValOk t v) : isU (toVm v) = v.isUndef := by
  cases t with
  | int =>
    rcases h with rfl | ⟨i, rfl, hi⟩
    · rfl
    · simp [toVm, isU, isUndef_of_ne hi, Val.isUndef]
  | str =>
    rcases h with rfl | ⟨s, rfl⟩
    · rfl
    · simp [toVm, isU, encSS, isUndef_encPtr, Val.isUndef]
  | bool =>
    rcases h with rfl | ⟨b, rfl⟩
    · rfl
    · simp [toVm, isU, isUndef_b2i, Val.isUndef]
  | flt =>
    rcases h with rfl | ⟨w, rfl, hw⟩
    · rfl
    · simp [toVm, isU, isUndef_of_ne hw, Val.isUndef]

/-! ### generated opcodes on VM words = specification operators on values -/

theorem neg1 : C.neg 1 = -1 := by decide

theorem vm_arith (prim : String → List Int → Int) (op : ArOp) (va vb : Val)
    (ha : ValOk .int va) (hb : ValOk .int vb) :
    vmBin prim (arithOp .int op) (toVm va) (toVm vb) = toVm (vArith fo op va vb) := by
  rcases ha with rfl | ⟨a, rfl, ha⟩ <;> rcases hb with rfl | ⟨b, rfl, hb⟩ <;>
    cases op <;>
    simp [arithOp, vmBin, toVm, vArith, arithInt, isUndef_UNDEF, isUndef_of_ne, *, neg1] <;>
    (try split) <;> simp_all [toVm] <;> (try omega) <;> (split <;> rfl)

theorem vm_cmp_int (prim : String → List Int → Int) (op : CmpOp) (va vb : Val)
    (ha : ValOk .int va) (hb : ValOk .int vb) :
    vmBin prim (cmpOp .int op) (toVm va) (toVm vb) = toVm (vCmp fo op va vb) := by
  rcases ha with rfl | ⟨a, rfl, ha⟩ <;> rcases hb with rfl | ⟨b, rfl, hb⟩ <;>
    cases op <;>
    simp [cmpOp, vmBin, toVm, vCmp, cmpInt, isUndef_UNDEF, isUndef_of_ne, *] <;>
    (by_cases h : a = b
     · simp [h, bne]
     · have h' : (a == b) = false := beq_eq_false_iff_ne.mpr h
       simp [h, h', bne])

theorem vm_neg (prim : String → List Int → Int) (va : Val) (ha : ValOk .int va) :
    vmUn prim .OP_INT_MINUS (toVm va) = toVm (vNeg fo va) := by
  rcases ha with rfl | ⟨a, rfl, ha⟩ <;> simp [vmUn, toVm, vNeg, isUndef_UNDEF, isUndef_of_ne, *]

theorem vm_bnot (prim : String → List Int → Int) (va : Val) (ha : ValOk .int va) :
    vmUn prim .OP_BITWISE_NOT (toVm va) = toVm (vBnot va) := by
  rcases ha with rfl | ⟨a, rfl, ha⟩ <;> simp [vmUn, toVm, vBnot, isUndef_UNDEF, isUndef_of_ne, *]

/-! ### type soundness of the specification under WF -/

theorem quantHolds_ok (q : Quant) (t n : Nat) : ValOk .bool (quantHolds q t n) := by
  cases q <;> simp [quantHolds, ValOk]

theorem pctHolds_ok (t n : Nat) (v : Val) : ValOk .bool (pctHolds t n v) := by
  cases v <;> simp [pctHolds, ValOk]

theorem loopHolds_ok (q : Quant) (t n : Nat) : ValOk .bool (loopHolds q t n) := by
  cases q <;> simp only [loopHolds] <;> (try split) <;> simp [quantHolds, ValOk]

theorem wf_typed (env : Env) (c : Ctx) (l : LEnv) (e : Expr) (h : WF env c l e) :
    ValOk (tyOf c e) (eval env l e) := by
  cases e with
  | int v => exact Or.inr ⟨v, by simp [eval], by simpa [WF] using h⟩
  | flt f => exact Or.inr ⟨f, by simp [eval], by simpa [WF] using h⟩
  | str s => exact Or.inr ⟨s, by simp [eval]⟩
  | filesize => exact Or.inr ⟨env.filesize, by simp [eval], by simpa [WF] using h⟩
  | ext n => simpa [WF, tyOf, eval] using h
  | var k => simp only [WF] at h; simpa [tyOf, eval] using h.2
  | undefOf t => cases t <;> simp [tyOf, eval, ValOk]
  | count s => simp only [tyOf, eval]; exact Or.inr ⟨_, rfl, by simp [UNDEF] <;> omega⟩
  | countIn s lo hi =>
    simp only [tyOf, eval, vCountIn]
    split
    · exact Or.inr ⟨_, rfl, by simp [UNDEF] <;> omega⟩
    · exact Or.inl rfl
  | offset s i => simp only [WF] at h; simpa [tyOf] using h.2.2.2
  | length s i => simp only [WF] at h; simpa [tyOf] using h.2.2.2
  | read k off => simp only [WF] at h; simpa [tyOf] using h.2.2.1
  | neg e => simp only [WF] at h; simpa [tyOf] using h.2.2
  | bnot e => simp only [WF] at h; simpa [tyOf] using h.2.2
  | arith op a b =>
    simp only [WF] at h
    exact h.2.2.2.2.1
  | tt => simp only [tyOf, eval]; exact Or.inr ⟨_, rfl⟩
  | ff => simp only [tyOf, eval]; exact Or.inr ⟨_, rfl⟩
  | found s => simp only [tyOf, eval]; exact Or.inr ⟨_, rfl⟩
  | foundAt s p =>
    simp only [tyOf, eval, vFoundAt]
    split
    · exact Or.inr ⟨_, rfl⟩
    · exact Or.inl rfl
  | foundIn s lo hi =>
    simp only [tyOf, eval, vFoundIn]
    split
    · exact Or.inr ⟨_, rfl⟩
    · exact Or.inl rfl
  | cmp op a b =>
    simp only [tyOf, eval, vCmp]
    split <;> first | exact Or.inr ⟨_, rfl⟩ | exact Or.inl rfl
  | strop op a b =>
    simp only [tyOf, eval, vStrOp]
    split <;> first | exact Or.inr ⟨_, rfl⟩ | exact Or.inl rfl
  | «matches» a re nc =>
    simp only [tyOf, eval, vMatches]
    split <;> first | exact Or.inr ⟨_, rfl⟩ | exact Or.inl rfl
  | not e =>
    simp only [tyOf, eval, vNot]
    split <;> first | exact Or.inr ⟨_, rfl⟩ | exact Or.inl rfl
  | defined e => simp only [tyOf, eval, vDefined]; exact Or.inr ⟨_, rfl⟩
  | and a b => simp only [tyOf, eval, vAnd]; exact Or.inr ⟨_, rfl⟩
  | or a b => simp only [tyOf, eval, vOr]; exact Or.inr ⟨_, rfl⟩
  | ruleRef k => simp only [tyOf, eval]; split; exact Or.inl rfl; exact Or.inr ⟨_, rfl⟩
  | ofStr q qe set => simp only [tyOf, eval]; exact quantHolds_ok _ _ _
  | ofStrIn q qe set lo hi =>
    simp only [tyOf, eval]
    split
    · exact quantHolds_ok _ _ _
    · exact Or.inl rfl
  | ofStrAt q qe set pos =>
    simp only [tyOf, eval]
    split
    · exact quantHolds_ok _ _ _
    · exact Or.inl rfl
  | pctStr p set => simp only [tyOf, eval]; exact pctHolds_ok _ _ _
  | ofRules q qe set => simp only [tyOf, eval]; exact quantHolds_ok _ _ _
  | pctRules p set => simp only [tyOf, eval]; exact pctHolds_ok _ _ _
  | forRange q qe lo hi body => simp only [tyOf, eval]; exact loopHolds_ok _ _ _
  | forEnum q qe items body => simp only [tyOf, eval]; exact loopHolds_ok _ _ _
  | forOf q qe set body => simp only [tyOf, eval]; exact loopHolds_ok _ _ _
/-- truthiness of a VM word that represents a value of a non-float type, strings already through STR_TO_BOOL -/
def vmTruth (w : Int) : Bool := !isU w && w != 0

/-! ### words in boolean position, strings, readers -/

theorem int_beq (a b : Int) : (a == b) = decide (a = b) := by
  by_cases h : a = b <;> simp [h]

theorem prim_pure (blocks : List (Nat × Bytes)) (name : String) (args : List Int) (h : readerOf name = none)
    (hd : primDbl fo name args = none) :
    prim fo blocks name args = primPure name args := by
  simp only [prim, h, hd]

/-- STR_TO_BOOL when the static type is string, nothing otherwise -/
def boolWord (fo : FloatOps) (blocks : List (Nat × Bytes)) (t : Ty) (w : Int) : Int :=
  if t == .str then vmUn (prim fo blocks) .OP_STR_TO_BOOL w else w

theorem primPure_strlen (a : Int) : primPure "(r1.ss->length>0)" [a] = C.b2i (!(decSS a).isEmpty) := by rfl

theorem strToBool_word (blocks : List (Nat × Bytes)) (s : Bytes) :
    vmUn (prim fo blocks) .OP_STR_TO_BOOL (encSS s) = b2i (!s.isEmpty) := by
  have h : isUndef (encSS s) = false := isUndef_encPtr _ _
  simp only [vmUn, h]
  rw [prim_pure _ _ _ (by decide) rfl, primPure_strlen, decSS_encSS]
  simp

/-- the word in boolean position is UNDEF / 0 / non-zero exactly as the value is undefined / false / true -/
theorem boolWord_spec (blocks : List (Nat × Bytes)) (t : Ty) (v : Val) (h : ValOk t v) :
    (v = .undef → boolWord fo blocks t (toVm v) = UNDEF) ∧
    (v ≠ .undef → isU (boolWord fo blocks t (toVm v)) = false ∧ (boolWord fo blocks t (toVm v) != 0) = asBool v) := by
  cases t with
  | int =>
    rcases h with rfl | ⟨i, rfl, hi⟩
    · simp [boolWord, toVm]
    · simp [boolWord, toVm, isU, isUndef_of_ne hi, asBool, truthy]
  | str =>
    rcases h with rfl | ⟨s, rfl⟩
    · simp [boolWord, toVm, vmUn, isUndef_UNDEF]
    · simp only [boolWord, toVm, strToBool_word]
      cases hs : s.isEmpty <;> simp [isU, asBool, truthy, hs, b2i] <;> decide
  | bool =>
    rcases h with rfl | ⟨b, rfl⟩
    · simp [boolWord, toVm]
    · cases b <;> simp [boolWord, toVm, isU, asBool, truthy, b2i] <;> decide
  | flt =>
    rcases h with rfl | ⟨w, rfl, hw⟩
    · simp [boolWord, toVm]
    · simp [boolWord, toVm, isU, isUndef_of_ne hw, asBool, truthy]


theorem vm_not (blocks : List (Nat × Bytes)) (t : Ty) (v : Val) (h : ValOk t v) :
    vmUn (prim fo blocks) .OP_NOT (boolWord fo blocks t (toVm v)) = toVm (vNot v) := by
  by_cases hv : v = .undef
  · subst hv
    rw [(boolWord_spec (fo := fo) blocks t .undef h).1 rfl]
    simp [vmUn, isUndef_UNDEF, vNot, truthy, toVm]
  · obtain ⟨h1, h2⟩ := (boolWord_spec (fo := fo) blocks t v h).2 hv
    have ht : truthy v = some (asBool v) := by
      cases v <;> simp_all [truthy, asBool]
    rw [show toVm (vNot v) = b2i (!asBool v) from by simp [vNot, ht, toVm]]
    generalize boolWord fo blocks t (toVm v) = w at h1 h2
    simp only [isU] at h1
    simp only [vmUn, h1]
    rw [← h2]
    by_cases hw : w = 0 <;> simp [hw, bne, int_beq]

theorem vm_defined (blocks : List (Nat × Bytes)) (t : Ty) (v : Val) (h : ValOk t v) :
    vmUn (prim fo blocks) .OP_DEFINED (boolWord fo blocks t (toVm v)) = toVm (vDefined v) := by
  by_cases hv : v = .undef
  · subst hv
    rw [(boolWord_spec (fo := fo) blocks t .undef h).1 rfl]
    simp [vmUn, isUndef_UNDEF, vDefined, Val.isUndef, toVm, b2i]
  · obtain ⟨h1, _⟩ := (boolWord_spec (fo := fo) blocks t v h).2 hv
    have : v.isUndef = false := by cases v <;> simp_all [Val.isUndef]
    rw [show toVm (vDefined v) = 1 from by simp [vDefined, this, toVm, b2i]]
    generalize boolWord fo blocks t (toVm v) = w at h1
    simp only [isU] at h1
    simp [vmUn, h1, b2i]

/-- truth value of a word in boolean position -/
theorem word_truth (blocks : List (Nat × Bytes)) (t : Ty) (v : Val) (h : ValOk t v) :
    (!isU (boolWord fo blocks t (toVm v)) && boolWord fo blocks t (toVm v) != 0) = asBool v := by
  by_cases hv : v = .undef
  · subst hv
    simp [(boolWord_spec (fo := fo) blocks t .undef h).1 rfl, isU, isUndef_UNDEF, asBool, truthy]
  · obtain ⟨h1, h2⟩ := (boolWord_spec (fo := fo) blocks t v h).2 hv
    simp [h1, h2]

theorem vm_and (prim : String → List Int → Int) (a b : Int) :
    vmBin prim .OP_AND a b = b2i ((!isU a && a != 0) && (!isU b && b != 0)) := by
  simp only [vmBin, isU]
  cases isUndef a <;> cases isUndef b <;> simp [bne, int_beq]

theorem vm_or (prim : String → List Int → Int) (a b : Int) :
    vmBin prim .OP_OR a b = b2i ((!isU a && a != 0) || (!isU b && b != 0)) := by
  simp only [vmBin, isU]
  cases isUndef a <;> cases isUndef b <;> simp [bne, int_beq]


theorem pp_eq (a b : Int) : primPure "(ss_compare(r1.ss,r2.ss)==0)" [a, b] = C.b2i (cmpStr .eq (decSS a) (decSS b)) := by rfl
theorem pp_neq (a b : Int) : primPure "(ss_compare(r1.ss,r2.ss)!=0)" [a, b] = C.b2i (cmpStr .neq (decSS a) (decSS b)) := by rfl
theorem pp_lt (a b : Int) : primPure "(ss_compare(r1.ss,r2.ss)<0)" [a, b] = C.b2i (cmpStr .lt (decSS a) (decSS b)) := by rfl
theorem pp_le (a b : Int) : primPure "(ss_compare(r1.ss,r2.ss)<=0)" [a, b] = C.b2i (cmpStr .le (decSS a) (decSS b)) := by rfl
theorem pp_gt (a b : Int) : primPure "(ss_compare(r1.ss,r2.ss)>0)" [a, b] = C.b2i (cmpStr .gt (decSS a) (decSS b)) := by rfl
theorem pp_ge (a b : Int) : primPure "(ss_compare(r1.ss,r2.ss)>=0)" [a, b] = C.b2i (cmpStr .ge (decSS a) (decSS b)) := by rfl
theorem pp_contains (a b : Int) : primPure "ss_contains(r1.ss,r2.ss)" [a, b] = C.b2i (strOp .contains (decSS a) (decSS b)) := by rfl
theorem pp_icontains (a b : Int) : primPure "ss_icontains(r1.ss,r2.ss)" [a, b] = C.b2i (strOp .icontains (decSS a) (decSS b)) := by rfl
theorem pp_startswith (a b : Int) : primPure "ss_startswith(r1.ss,r2.ss)" [a, b] = C.b2i (strOp .startswith (decSS a) (decSS b)) := by rfl
theorem pp_istartswith (a b : Int) : primPure "ss_istartswith(r1.ss,r2.ss)" [a, b] = C.b2i (strOp .istartswith (decSS a) (decSS b)) := by rfl
theorem pp_endswith (a b : Int) : primPure "ss_endswith(r1.ss,r2.ss)" [a, b] = C.b2i (strOp .endswith (decSS a) (decSS b)) := by rfl
theorem pp_iendswith (a b : Int) : primPure "ss_iendswith(r1.ss,r2.ss)" [a, b] = C.b2i (strOp .iendswith (decSS a) (decSS b)) := by rfl
theorem pp_iequals (a b : Int) : primPure "(ss_icompare(r1.ss,r2.ss)==0)" [a, b] = C.b2i (strOp .iequals (decSS a) (decSS b)) := by rfl

theorem isUndef_encSS (s : Bytes) : isUndef (encSS s) = false := isUndef_encPtr _ _

theorem vm_cmp_str (blocks : List (Nat × Bytes)) (op : CmpOp) (va vb : Val)
    (ha : ValOk .str va) (hb : ValOk .str vb) :
    vmBin (prim fo blocks) (cmpOp .str op) (toVm va) (toVm vb) = toVm (vCmp fo op va vb) := by
  rcases ha with rfl | ⟨a, rfl⟩ <;> rcases hb with rfl | ⟨b, rfl⟩ <;> cases op <;>
    simp only [cmpOp, vmBin, toVm, vCmp, isUndef_UNDEF, isUndef_encSS, if_true, if_false, Bool.false_eq_true] <;>
    rw [prim_pure _ _ _ (by decide) rfl] <;>
    simp only [pp_eq, pp_neq, pp_lt, pp_le, pp_gt, pp_ge, decSS_encSS]

theorem vm_strop (blocks : List (Nat × Bytes)) (op : StrOp) (va vb : Val)
    (ha : ValOk .str va) (hb : ValOk .str vb) :
    vmBin (prim fo blocks) (strOpc op) (toVm va) (toVm vb) = toVm (vStrOp op va vb) := by
  rcases ha with rfl | ⟨a, rfl⟩ <;> rcases hb with rfl | ⟨b, rfl⟩ <;> cases op <;>
    simp only [strOpc, vmBin, toVm, vStrOp, isUndef_UNDEF, isUndef_encSS, if_true, if_false, Bool.false_eq_true] <;>
    rw [prim_pure _ _ _ (by decide) rfl] <;>
    simp only [pp_contains, pp_icontains, pp_startswith, pp_istartswith, pp_endswith, pp_iendswith, pp_iequals, decSS_encSS]


theorem readFits_high (base size n off : Nat) (hn0 : 0 < n) (h : base + size ≤ 9223372036854775808)
    (ho : 9223372036854775808 ≤ off) : Gen.ReadFn.readFits base size n off = false := by
  unfold Gen.ReadFn.readFits Gen.ReadFn.W
  simp only [Bool.and_eq_false_iff, decide_eq_false_iff_not]
  have hm : (base + size) % 18446744073709551616 = base + size := Nat.mod_eq_of_lt (by omega)
  rw [hm]
  by_cases hn : n ≤ size
  · have h4 : (base + size + 18446744073709551616 - n) % 18446744073709551616 = base + size - n := by
      have : base + size + 18446744073709551616 - n = (base + size - n) + 18446744073709551616 := by omega
      rw [this, Nat.add_mod_right]
      exact Nat.mod_eq_of_lt (by omega)
    rw [h4]
    omega
  · omega

theorem readBlocks_high (blocks : List (Nat × Bytes)) (n off : Nat) (hn0 : 0 < n)
    (h : ∀ b ∈ blocks, b.1 + b.2.length ≤ 9223372036854775808) (ho : 9223372036854775808 ≤ off) :
    readBlocks blocks off n = none := by
  induction blocks with
  | nil => rfl
  | cons b rest ih =>
    obtain ⟨base, data⟩ := b
    have hb := h (base, data) (by simp)
    simp only [readBlocks, readFits_high base data.length n off hn0 hb ho]
    exact ih (fun b hb' => h b (by simp [hb']))

theorem vmUn_read (blocks : List (Nat × Bytes)) (k : RdKind) (w : Int) :
    vmUn (prim fo blocks) (readOp k) w = readPrim blocks (rdSize k) (rdSigned k) (rdBigEndian k) w := by
  cases k <;> simp only [readOp, vmUn, rdSize, rdSigned, rdBigEndian] <;>
    exact prim_reader blocks _ _ _ _ _ (by decide)

theorem decodeRd_eq (k : RdKind) (bs : Bytes) :
    decodeRd (rdSize k) (rdSigned k) (rdBigEndian k) bs = decodeInt k bs := by
  simp [decodeRd, decodeInt]

theorem vm_read (blocks : List (Nat × Bytes)) (hb : ∀ b ∈ blocks, b.1 + b.2.length ≤ 9223372036854775808)
    (k : RdKind) (v : Val) (h : ValOk .int v) (hr : ∀ a, v = .int a → C.inRange a) :
    vmUn (prim fo blocks) (readOp k) (toVm v) = toVm (vRead blocks k v) := by
  rw [vmUn_read]
  rcases h with rfl | ⟨a, rfl, ha⟩
  · simp only [toVm, readPrim, undef_offset, readBlocks_sentinel blocks _ hb, vRead]
  · have hin := hr a rfl
    unfold C.inRange C.INT64_MIN C.INT64_MAX at hin
    simp only [toVm, readPrim, vRead]
    by_cases hneg : a < 0
    · have : 9223372036854775808 ≤ (a % W64).toNat := by unfold W64; omega
      have hsz : 0 < rdSize k := by cases k <;> decide
      simp [hneg, readBlocks_high blocks _ _ hsz hb this, toVm]
    · have h1 : (a % W64).toNat = a.toNat := by unfold W64; omega
      have hv : ∀ b ∈ blocks, b.1 + b.2.length < 18446744073709551616 := fun b hb' => by
        have := hb b hb'; omega
      rw [h1, readBlocks_eq_readBytes blocks _ _ hv]
      simp only [hneg, if_false]
      cases readBytes blocks a.toNat (rdSize k) with
      | none => rfl
      | some bs => simp [toVm, decodeRd_eq]

/-! ### match-list opcodes -/

theorem ms_enc (env : Env) (n : Nat) : matchesOfStr env (encStr n) = env.strs.getD n [] := by
  simp [matchesOfStr, decStr_encStr]

theorem w_countIn (ms : List (Int × Int)) (vlo vhi : Val) (hlo : ValOk .int vlo) (hhi : ValOk .int vhi) :
    (if isU (toVm vlo) || isU (toVm vhi) then UNDEF
     else ((ms.countP (inRange (toVm vlo) (toVm vhi)) : Nat) : Int)) = toVm (vCountIn ms vlo vhi) := by
  rcases hlo with rfl | ⟨a, rfl, ha⟩ <;> rcases hhi with rfl | ⟨b, rfl, hb⟩ <;>
    simp [toVm, isU, isUndef_UNDEF, isUndef_of_ne, vCountIn, *]

theorem w_foundIn (ms : List (Int × Int)) (vlo vhi : Val) (hlo : ValOk .int vlo) (hhi : ValOk .int vhi) :
    (if isU (toVm vlo) || isU (toVm vhi) then UNDEF
     else b2i (ms.any (inRange (toVm vlo) (toVm vhi)))) = toVm (vFoundIn ms vlo vhi) := by
  rcases hlo with rfl | ⟨a, rfl, ha⟩ <;> rcases hhi with rfl | ⟨b, rfl, hb⟩ <;>
    simp [toVm, isU, isUndef_UNDEF, isUndef_of_ne, vFoundIn, *]

theorem w_foundAt (ms : List (Int × Int)) (vx : Val) (hx : ValOk .int vx) :
    (if isU (toVm vx) then UNDEF else b2i (ms.any fun m => m.1 == toVm vx)) = toVm (vFoundAt ms vx) := by
  rcases hx with rfl | ⟨a, rfl, ha⟩ <;> simp [toVm, isU, isUndef_UNDEF, isUndef_of_ne, vFoundAt, *]

theorem w_offset (ms : List (Int × Int)) (vx : Val) (hx : ValOk .int vx) :
    (if isU (toVm vx) then UNDEF else nthOff ms (toVm vx)) = toVm (vOffset ms vx) := by
  rcases hx with rfl | ⟨a, rfl, ha⟩
  · simp [toVm, isU, isUndef_UNDEF, vOffset]
  · simp only [toVm, isU, isUndef_of_ne ha, vOffset, nthOff]
    cases nth ms a <;> simp [toVm]

theorem w_length (ms : List (Int × Int)) (vx : Val) (hx : ValOk .int vx) :
    (if isU (toVm vx) then UNDEF else nthLen ms (toVm vx)) = toVm (vLength ms vx) := by
  rcases hx with rfl | ⟨a, rfl, ha⟩
  · simp [toVm, isU, isUndef_UNDEF, vLength]
  · simp only [toVm, isU, isUndef_of_ne ha, vLength, nthLen]
    cases nth ms a <;> simp [toVm]

theorem w_matches (re : Bytes) (nc : Bool) (va : Val) (ha : ValOk .str va) :
    (if isU (encRe re nc) || isU (toVm va) then UNDEF else matchWord (encRe re nc) (toVm va))
      = toVm (vMatches re nc va) := by
  have h1 : isU (encRe re nc) = false := isUndef_encPtr _ _
  rcases ha with rfl | ⟨a, rfl⟩
  · simp [toVm, isU, isUndef_UNDEF, vMatches]
  · have h2 : isU (encSS a) = false := isUndef_encSS a
    simp [toVm, h1, h2, matchWord, decRe_encRe, decSS_encSS, vMatches]

/-! ### words that are only exact up to truth (the short-circuit `or` leaves its left operand's raw value) -/

/-- the word pushed for an expression: the value's word, or — for a boolean-typed expression that is true —
    any defined non-zero word -/
def WordOK (t : Ty) (v : Val) (w : Int) : Prop :=
  w = toVm v ∨ (t = .bool ∧ v = .bool true ∧ isU w = false ∧ w ≠ 0)

/-- the word represents the value as a truth value: UNDEF / 0 / non-zero -/
def TruthWord (v : Val) (w : Int) : Prop :=
  (v = .undef → w = UNDEF) ∧ (v ≠ .undef → isU w = false ∧ (w != 0) = asBool v)

theorem WordOK.exact {t : Ty} {v : Val} {w : Int} (h : WordOK t v w) (ht : t ≠ .bool) : w = toVm v := by
  rcases h with h | ⟨h, _⟩
  · exact h
  · exact absurd h ht

theorem truthWord_boolpos (blocks : List (Nat × Bytes)) (t : Ty) (v : Val) (w : Int) (hv : ValOk t v)
    (h : WordOK t v w) : TruthWord v (boolWord fo blocks t w) := by
  rcases h with rfl | ⟨rfl, rfl, hu, hz⟩
  · exact boolWord_spec blocks t v hv
  · refine ⟨fun h => (by cases h), fun _ => ?_⟩
    have hb : boolWord fo blocks .bool w = w := by simp [boolWord]
    rw [hb]
    exact ⟨hu, by simp [asBool, truthy, hz]⟩

theorem tw_truth {v : Val} {w : Int} (h : TruthWord v w) : (!isU w && w != 0) = asBool v := by
  by_cases hv : v = .undef
  · subst hv
    rw [h.1 rfl]; decide
  · obtain ⟨h1, h2⟩ := h.2 hv
    simp [h1, h2]

theorem tw_not (prim : String → List Int → Int) {v : Val} {w : Int} (h : TruthWord v w) :
    vmUn prim .OP_NOT w = toVm (vNot v) := by
  by_cases hv : v = .undef
  · subst hv
    rw [h.1 rfl]
    simp [vmUn, isUndef_UNDEF, vNot, truthy, toVm]
  · obtain ⟨h1, h2⟩ := h.2 hv
    have ht : truthy v = some (asBool v) := by
      cases v <;> simp_all [truthy, asBool]
    rw [show toVm (vNot v) = b2i (!asBool v) from by simp [vNot, ht, toVm]]
    simp only [isU] at h1
    simp only [vmUn, h1]
    rw [← h2]
    by_cases hw : w = 0 <;> simp [hw, bne, int_beq]

theorem tw_defined (prim : String → List Int → Int) {v : Val} {w : Int} (h : TruthWord v w) :
    vmUn prim .OP_DEFINED w = toVm (vDefined v) := by
  by_cases hv : v = .undef
  · subst hv
    rw [h.1 rfl]
    simp [vmUn, isUndef_UNDEF, vDefined, Val.isUndef, toVm, b2i]
  · obtain ⟨h1, _⟩ := h.2 hv
    have : v.isUndef = false := by cases v <;> simp_all [Val.isUndef]
    rw [show toVm (vDefined v) = 1 from by simp [vDefined, this, toVm, b2i]]
    simp only [isU] at h1
    simp [vmUn, h1, b2i]

/-- what OP_ITER_CONDITION makes of a body word: undefined stays, everything else becomes 0 / 1 -/
def nbWord (v : Val) : Int := if v.isUndef then UNDEF else b2i (asBool v)

theorem tw_norm {v : Val} {w : Int} (h : TruthWord v w) : normW w = nbWord v := by
  by_cases hv : v = .undef
  · subst hv
    rw [h.1 rfl]; decide
  · obtain ⟨h1, h2⟩ := h.2 hv
    have : v.isUndef = false := by cases v <;> simp_all [Val.isUndef]
    simp [normW, nbWord, h1, h2, this]

theorem nbWord_cases (v : Val) : (nbWord v = 0 ∨ nbWord v = 1 ∨ nbWord v = UNDEF) ∧ ((nbWord v == 1) = asBool v) := by
  unfold nbWord
  cases hu : v.isUndef
  · cases hb : asBool v <;> simp [b2i]
  · have : v = .undef := by cases v <;> simp_all [Val.isUndef]
    subst this
    simp; decide

/-! ### doubles: OP_INT_TO_DBL promotion and the OP_DBL_* opcodes — for every `FloatOps` -/

/-- the word OP_INT_TO_DBL leaves in a slot -/
def promoteW (fo : FloatOps) (w : Int) : Int := if isU w then UNDEF else fo.ofInt w

/-- the operand words after the conversions `conv ta tb` inserts (INT_TO_DBL 2 = the left operand, 1 = the right one) -/
def convA (fo : FloatOps) (ta tb : Ty) (wa : Int) : Int := if ta == .int && tb == .flt then promoteW fo wa else wa
def convB (fo : FloatOps) (ta tb : Ty) (wb : Int) : Int := if ta == .flt && tb == .int then promoteW fo wb else wb

theorem prim_dbl (blocks : List (Nat × Bytes)) (name : String) (args : List Int) (v : Int) (h : readerOf name = none)
    (hd : primDbl fo name args = some v) : prim fo blocks name args = v := by
  simp only [prim, h, hd]

theorem pd_add (a b : Int) : prim fo blocks "(r1.d+r2.d)" [a, b] = fo.add a b := prim_dbl _ _ _ _ (by decide) rfl
theorem pd_sub (a b : Int) : prim fo blocks "(r1.d-r2.d)" [a, b] = fo.sub a b := prim_dbl _ _ _ _ (by decide) rfl
theorem pd_mul (a b : Int) : prim fo blocks "(r1.d*r2.d)" [a, b] = fo.mul a b := prim_dbl _ _ _ _ (by decide) rfl
theorem pd_div (a b : Int) : prim fo blocks "(r1.d/r2.d)" [a, b] = fo.div a b := prim_dbl _ _ _ _ (by decide) rfl
theorem pd_neg (a : Int) : prim fo blocks "-r1.d" [a] = fo.neg a := prim_dbl _ _ _ _ (by decide) rfl
theorem pd_lt (a b : Int) : prim fo blocks "(r1.d<r2.d)" [a, b] = b2i (cmpFlt fo .lt a b) := prim_dbl _ _ _ _ (by decide) rfl
theorem pd_gt (a b : Int) : prim fo blocks "(r1.d>r2.d)" [a, b] = b2i (cmpFlt fo .gt a b) := prim_dbl _ _ _ _ (by decide) rfl
theorem pd_le (a b : Int) : prim fo blocks "(r1.d<=r2.d)" [a, b] = b2i (cmpFlt fo .le a b) := prim_dbl _ _ _ _ (by decide) rfl
theorem pd_ge (a b : Int) : prim fo blocks "(r1.d>=r2.d)" [a, b] = b2i (cmpFlt fo .ge a b) := prim_dbl _ _ _ _ (by decide) rfl
theorem pd_eq (a b : Int) : prim fo blocks "(fabs((r1.d-r2.d))<DBL_EPSILON)" [a, b] = b2i (cmpFlt fo .eq a b) :=
  prim_dbl _ _ _ _ (by decide) rfl
theorem pd_neq (a b : Int) : prim fo blocks "(fabs((r1.d-r2.d))>=DBL_EPSILON)" [a, b] = b2i (cmpFlt fo .neq a b) :=
  prim_dbl _ _ _ _ (by decide) rfl

/-- a numeric operand as the double operation sees it: a double as it is, an integer promoted -/
def asDbl (fo : FloatOps) : Val → Option Int
  | .flt w => some w
  | .int i => some (fo.ofInt i)
  | _ => none

/-- operand words of a mixed / double operation, after the promotion: UNDEF for an undefined operand, else the double -/
theorem conv_words (ta tb : Ty) (va vb : Val) (hta : ta = .int ∨ ta = .flt) (htb : tb = .int ∨ tb = .flt)
    (hne : ¬ (ta = .int ∧ tb = .int)) (ha : ValOk ta va) (hb : ValOk tb vb) (hp : promoOk fo ta tb va vb) :
    (va = .undef ∧ convA fo ta tb (toVm va) = UNDEF ∨ ∃ x, asDbl fo va = some x ∧ convA fo ta tb (toVm va) = x ∧ x ≠ UNDEF) ∧
    (vb = .undef ∧ convB fo ta tb (toVm vb) = UNDEF ∨ ∃ y, asDbl fo vb = some y ∧ convB fo ta tb (toVm vb) = y ∧ y ≠ UNDEF) ∧
    (∀ x y, asDbl fo va = some x → asDbl fo vb = some y →
      (∀ op, isFltOp op = true → vArith fo op va vb = arithFlt fo op x y) ∧ ∀ op, vCmp fo op va vb = .bool (cmpFlt fo op x y)) := by
  rcases hta with rfl | rfl <;> rcases htb with rfl | rfl
  · exact absurd ⟨rfl, rfl⟩ hne
  · -- int, flt
    refine ⟨?_, ?_, ?_⟩
    · rcases ha with rfl | ⟨i, rfl, hi⟩
      · left; simp [convA, promoteW, toVm, isU, isUndef_UNDEF]
      · right; exact ⟨fo.ofInt i, rfl, by simp [convA, promoteW, toVm, isU, isUndef_of_ne hi], hp.1 rfl rfl i rfl⟩
    · rcases hb with rfl | ⟨w, rfl, hw⟩
      · left; simp [convB, toVm]
      · right; exact ⟨w, rfl, by simp [convB, toVm], hw⟩
    · intro x y hx hy
      rcases ha with rfl | ⟨i, rfl, hi⟩ <;> rcases hb with rfl | ⟨w, rfl, hw⟩ <;> simp [asDbl] at hx hy
      subst hx; subst hy
      exact ⟨fun op hop => by cases op <;> simp [isFltOp] at hop <;> rfl, fun op => rfl⟩
  · -- flt, int
    refine ⟨?_, ?_, ?_⟩
    · rcases ha with rfl | ⟨w, rfl, hw⟩
      · left; simp [convA, toVm]
      · right; exact ⟨w, rfl, by simp [convA, toVm], hw⟩
    · rcases hb with rfl | ⟨i, rfl, hi⟩
      · left; simp [convB, promoteW, toVm, isU, isUndef_UNDEF]
      · right; exact ⟨fo.ofInt i, rfl, by simp [convB, promoteW, toVm, isU, isUndef_of_ne hi], hp.2 rfl rfl i rfl⟩
    · intro x y hx hy
      rcases ha with rfl | ⟨w, rfl, hw⟩ <;> rcases hb with rfl | ⟨i, rfl, hi⟩ <;> simp [asDbl] at hx hy
      subst hx; subst hy
      exact ⟨fun op hop => by cases op <;> simp [isFltOp] at hop <;> rfl, fun op => rfl⟩
  · -- flt, flt
    refine ⟨?_, ?_, ?_⟩
    · rcases ha with rfl | ⟨w, rfl, hw⟩
      · left; simp [convA, toVm]
      · right; exact ⟨w, rfl, by simp [convA, toVm], hw⟩
    · rcases hb with rfl | ⟨w, rfl, hw⟩
      · left; simp [convB, toVm]
      · right; exact ⟨w, rfl, by simp [convB, toVm], hw⟩
    · intro x y hx hy
      rcases ha with rfl | ⟨w, rfl, hw⟩ <;> rcases hb with rfl | ⟨w', rfl, hw'⟩ <;> simp [asDbl] at hx hy
      subst hx; subst hy
      exact ⟨fun op hop => by cases op <;> simp [isFltOp] at hop <;> rfl, fun op => rfl⟩

theorem vArith_undef_left (op : ArOp) (v : Val) : vArith fo op .undef v = .undef := by cases v <;> rfl
theorem vArith_undef_right (op : ArOp) (v : Val) : vArith fo op v .undef = .undef := by cases v <;> rfl
theorem vCmp_undef_left (op : CmpOp) (v : Val) : vCmp fo op .undef v = .undef := by cases v <;> rfl
theorem vCmp_undef_right (op : CmpOp) (v : Val) : vCmp fo op v .undef = .undef := by cases v <;> rfl

/-- OP_DBL_ADD/SUB/MUL/DIV on the promoted operand words = the specification's mixed arithmetic -/
theorem vm_arith_flt (blocks : List (Nat × Bytes)) (op : ArOp) (hop : isFltOp op = true) (ta tb : Ty) (va vb : Val)
    (hta : ta = .int ∨ ta = .flt) (htb : tb = .int ∨ tb = .flt) (hne : ¬ (ta = .int ∧ tb = .int))
    (ha : ValOk ta va) (hb : ValOk tb vb) (hp : promoOk fo ta tb va vb) :
    vmBin (prim fo blocks) (arithOp .flt op) (convA fo ta tb (toVm va)) (convB fo ta tb (toVm vb)) = toVm (vArith fo op va vb) := by
  obtain ⟨h1, h2, h3⟩ := conv_words (fo := fo) ta tb va vb hta htb hne ha hb hp
  rcases h1 with ⟨rfl, e1⟩ | ⟨x, hx, e1, nx⟩
  · rw [e1, vArith_undef_left]
    cases op <;> simp [isFltOp] at hop <;> simp [arithOp, vmBin, isUndef_UNDEF, toVm]
  · rcases h2 with ⟨rfl, e2⟩ | ⟨y, hy, e2, ny⟩
    · rw [e2, vArith_undef_right]
      cases op <;> simp [isFltOp] at hop <;> simp [arithOp, vmBin, isUndef_UNDEF, toVm]
    · rw [e1, e2, (h3 x y hx hy).1 op hop]
      cases op <;> simp [isFltOp] at hop <;>
        simp [arithOp, vmBin, isUndef_of_ne nx, isUndef_of_ne ny, arithFlt, toVm, pd_add, pd_sub, pd_mul, pd_div]

/-- OP_DBL_EQ .. OP_DBL_GE on the promoted operand words = the specification's mixed comparison -/
theorem vm_cmp_flt (blocks : List (Nat × Bytes)) (op : CmpOp) (ta tb : Ty) (va vb : Val)
    (hta : ta = .int ∨ ta = .flt) (htb : tb = .int ∨ tb = .flt) (hne : ¬ (ta = .int ∧ tb = .int))
    (ha : ValOk ta va) (hb : ValOk tb vb) (hp : promoOk fo ta tb va vb) :
    vmBin (prim fo blocks) (cmpOp .flt op) (convA fo ta tb (toVm va)) (convB fo ta tb (toVm vb)) = toVm (vCmp fo op va vb) := by
  obtain ⟨h1, h2, h3⟩ := conv_words (fo := fo) ta tb va vb hta htb hne ha hb hp
  rcases h1 with ⟨rfl, e1⟩ | ⟨x, hx, e1, nx⟩
  · rw [e1, vCmp_undef_left]
    cases op <;> simp [cmpOp, vmBin, isUndef_UNDEF, toVm]
  · rcases h2 with ⟨rfl, e2⟩ | ⟨y, hy, e2, ny⟩
    · rw [e2, vCmp_undef_right]
      cases op <;> simp [cmpOp, vmBin, isUndef_UNDEF, toVm]
    · rw [e1, e2, (h3 x y hx hy).2 op]
      cases op <;>
        simp [cmpOp, vmBin, isUndef_of_ne nx, isUndef_of_ne ny, toVm, pd_lt, pd_gt, pd_le, pd_ge, pd_eq, pd_neq]

theorem vm_neg_flt (blocks : List (Nat × Bytes)) (va : Val) (ha : ValOk .flt va) :
    vmUn (prim fo blocks) .OP_DBL_MINUS (toVm va) = toVm (vNeg fo va) := by
  rcases ha with rfl | ⟨w, rfl, hw⟩
  · simp [vmUn, toVm, vNeg, isUndef_UNDEF]
  · simp [vmUn, toVm, vNeg, isUndef_of_ne hw, pd_neg]

end YaraModel.CondCompile
