/- The loader on a saved image with one field of the header or of the buffer table overwritten. -/
import YaraModel.Lemmas.ArenaPatch
import YaraModel.Lemmas.ArenaSeq
namespace YaraModel.Arena
open YaraModel.Gen.ArenaLayout

/-- the loader after a header announcing `es.length` buffers and a table holding the raw entries `es` -/
theorem load_raw (cfg : LoaderCfg) (alloc : Nat → Nat) (es : List (Nat × Nat)) (hn : es.length ≤ maxBuffers) (rest : Bytes) :
    load cfg alloc (header es.length ++ (rawTable es ++ rest)) =
      if cfg.checksOffsets && !entriesOk (headerSize + tableEntrySize * es.length) es then .error .corruptFile
      else
        match readBodies alloc 0 (es.map (·.2 % 2 ^ 32)) rest with
        | .error e => .error e
        | .ok (bufs, s3) => applyRelocs cfg { bufs := bufs, relocs := [], init := loadInitialSize } s3 := by
  rw [load_eq, parseHeader_header _ hn]
  simp only
  rw [parseTable_raw]
  simp only
  rw [offsetsOk_raw]
  split
  · rfl
  · cases readBodies alloc 0 (es.map (·.2 % 2 ^ 32)) rest with
    | error e => rfl
    | ok p => rfl

theorem load_raw' (cfg : LoaderCfg) (alloc : Nat → Nat) (n : Nat) (es : List (Nat × Nat)) (hl : es.length = n) (hn : n ≤ maxBuffers)
    (rest : Bytes) :
    load cfg alloc (header n ++ (rawTable es ++ rest)) =
      if cfg.checksOffsets && !entriesOk (headerSize + tableEntrySize * n) es then .error .corruptFile
      else
        match readBodies alloc 0 (es.map (·.2 % 2 ^ 32)) rest with
        | .error e => .error e
        | .ok (bufs, s3) => applyRelocs cfg { bufs := bufs, relocs := [], init := loadInitialSize } s3 := by
  subst hl
  exact load_raw cfg alloc es hn rest

/-! ### header fields -/

theorem load_patch_magic (cfg : LoaderCfg) (alloc : Nat → Nat) (n : Nat) (rest : Bytes) (i : Nat) (hi : i < 4) (v : UInt8)
    (hv : v ≠ magic.getD i 0) : load cfg alloc (patch (header n ++ rest) i [v]) = .error .invalidFile := by
  apply load_header_error
  rw [header_cons]
  have : i = 0 ∨ i = 1 ∨ i = 2 ∨ i = 3 := by omega
  rcases this with rfl | rfl | rfl | rfl <;>
    (simp only [patch, List.take, List.drop, List.length_cons, List.length_nil, List.cons_append, List.nil_append]
     rw [parseHeader_cons6, if_pos]
     simp only [magic, List.getD_cons_zero, List.getD_cons_succ] at hv ⊢
     intro h
     simp only [List.cons.injEq, and_true, true_and] at h
     first | exact hv h | exact hv h.1 | exact hv h.2 | exact hv h.2.1 | exact hv h.2.2 | exact hv h.2.2.1)

theorem load_patch_version (cfg : LoaderCfg) (alloc : Nat → Nat) (n : Nat) (rest : Bytes) (v : UInt8)
    (hv : v ≠ UInt8.ofNat fileVersion) : load cfg alloc (patch (header n ++ rest) hdrVersionOff [v]) = .error .unsupportedFileVersion := by
  apply load_header_error
  rw [header_cons]
  simp only [patch, hdrVersionOff, List.take, List.drop, List.length_cons, List.length_nil, List.cons_append, List.nil_append]
  rw [parseHeader_cons6, if_neg (by simp [magic]), if_pos]
  intro h
  apply hv
  apply UInt8.toNat_inj.1
  rw [h]; rfl

/-! ### num_buffers -/

theorem parseTable_cases (n : Nat) (s : Bytes) :
    parseTable n s = .error .corruptFile ∨ ∃ sizes s2, parseTable n s = .ok (sizes, s2) ∧ sizes.length = n := by
  unfold parseTable
  split
  · exact Or.inl rfl
  · exact Or.inr ⟨_, _, rfl, by simp⟩

theorem offsetsOk_first_bad {s : Bytes} {e : Nat} {sizes : List Nat} (hne : sizes ≠ [])
    (h : rdLE tblOffsetSize s 0 ≠ e % 2 ^ 64) : offsetsOk s 0 e sizes = false := by
  cases sizes with
  | nil => exact absurd rfl hne
  | cons z t =>
    simp only [offsetsOk, Nat.mul_zero, Nat.zero_add, tblOffsetOff, Bool.and_eq_false_imp, beq_iff_eq]
    intro h'; exact absurd h' h

theorem applyRelocs_nobufs (cfg : LoaderCfg) (A : Arena) (hA : A.bufs = []) (o u : Nat) (x : Bytes) :
    applyRelocs cfg A (tableEntry o u ++ x) = .error .corruptFile := by
  have : tableEntry o u ++ x = byteAt o 0 :: byteAt o 1 :: byteAt o 2 :: byteAt o 3 :: byteAt o 4 :: byteAt o 5 :: byteAt o 6 ::
      byteAt o 7 :: (leBytes 4 u ++ x) := by
    simp [tableEntry, tblOffsetSize, tblSizeSize, leBytes8]
  rw [this, applyRelocs]
  cases decRef (leVal [byteAt o 0, byteAt o 1, byteAt o 2, byteAt o 3, byteAt o 4, byteAt o 5, byteAt o 6, byteAt o 7]) with
  | none => rfl
  | some r =>
    have : relocRejected cfg A r = true := by
      unfold relocRejected
      simp [hA]
    simp only [this, if_true]

/-- **num_buffers overwritten**: whatever other value the byte gets, the file is refused -/
theorem load_patch_numbufs (cfg : LoaderCfg) (hoffs : cfg.checksOffsets = true) (alloc : Nat → Nat) (us : List Nat)
    (hn : us.length ≤ maxBuffers) (tail : Bytes) (htail : us = [] → tail = []) (v : UInt8) (hv : v.toNat ≠ us.length) :
    load cfg alloc (patch (header us.length ++ (table (headerSize + tableEntrySize * us.length) us ++ tail)) hdrNumBuffersOff [v]) =
      .error (if v.toNat > maxBuffers then .invalidFile else .corruptFile) := by
  rw [header_cons]
  simp only [patch, hdrNumBuffersOff, List.take, List.drop, List.length_cons, List.length_nil, List.cons_append, List.nil_append]
  rw [load_eq, parseHeader_cons6, if_neg (by simp [magic]), if_neg (by simp [fileVersion])]
  by_cases hbig : v.toNat > maxBuffers
  · rw [if_pos hbig, if_pos hbig]
  · rw [if_neg hbig, if_neg hbig]
    simp only
    have hn16 : us.length ≤ 16 := hn
    simp only [maxBuffers] at hbig
    cases us with
    | nil =>
      -- the original has no buffer (hence no relocation entry): the table read comes back short
      rw [htail rfl]
      simp only [table, List.append_nil]
      rw [parseTable_short (by simp only [List.length_nil, tableEntrySize]; simp at hv; omega)]
    | cons u t =>
      by_cases hz : v.toNat = 0
      · -- no buffer announced: the table is taken for relocation entries, none of which can be valid
        rw [hz]
        have hpt : parseTable 0 (table (headerSize + tableEntrySize * (u :: t).length) (u :: t) ++ tail) =
            .ok ([], table (headerSize + tableEntrySize * (u :: t).length) (u :: t) ++ tail) := by
          simp [parseTable, tableEntrySize]
        rw [hpt]
        simp only [offsetsOk, Bool.not_true, Bool.and_false, Bool.false_eq_true, if_false, readBodies]
        simp only [table, List.append_assoc]
        exact applyRelocs_nobufs cfg _ rfl _ _ _
      · rcases parseTable_cases v.toNat (table (headerSize + tableEntrySize * (u :: t).length) (u :: t) ++ tail) with he | ⟨sizes, s2, hp, hl⟩
        · rw [he]
        · rw [hp]
          simp only
          have hbad : offsetsOk (table (headerSize + tableEntrySize * (u :: t).length) (u :: t) ++ tail) 0
              (headerSize + tableEntrySize * v.toNat) sizes = false := by
            apply offsetsOk_first_bad (by intro h; rw [h] at hl; simp at hl; omega)
            have := rdLE_offset_table (headerSize + tableEntrySize * (u :: t).length) (u :: t) tail 0 (by simp)
            simp only [Nat.mul_zero, tblOffsetOff, List.take_zero, List.map_nil, List.sum_nil, Nat.add_zero] at this
            rw [this]
            simp only [headerSize, tableEntrySize, List.length_cons] at hn16 hv ⊢
            have hv8 : v.toNat ≤ 16 := by omega
            rw [Nat.mod_eq_of_lt (by omega), Nat.mod_eq_of_lt (by omega)]
            omega
          rw [hbad, hoffs]
          simp

/-! ### a table entry's offset / the size of an entry that is not the last -/

theorem sum_entries_sizes (o : Nat) (us : List Nat) : ((entries o us).map (·.2 % 2 ^ 32)).sum = (us.map (· % 2 ^ 32)).sum := by
  rw [entries_sizes]

/-- **an offset field overwritten** (checked loader): refused -/
theorem load_patch_offset (cfg : LoaderCfg) (hoffs : cfg.checksOffsets = true) (alloc : Nat → Nat) (pre : List Nat) (u : Nat)
    (post : List Nat) (hn : (pre ++ u :: post).length ≤ maxBuffers) (rest : Bytes) (v : Nat) (hv : v < 2 ^ 64)
    (ho : headerSize + tableEntrySize * (pre ++ u :: post).length + (pre.map (· % 2 ^ 32)).sum < 2 ^ 64)
    (hne : v ≠ headerSize + tableEntrySize * (pre ++ u :: post).length + (pre.map (· % 2 ^ 32)).sum) :
    load cfg alloc (patch (header (pre ++ u :: post).length ++
        (table (headerSize + tableEntrySize * (pre ++ u :: post).length) (pre ++ u :: post) ++ rest)) (offsetFieldAt pre.length) (leBytes 8 v)) =
      .error .corruptFile := by
  rw [patch_offset_field]
  have hlen : (entries (headerSize + tableEntrySize * (pre ++ u :: post).length) pre ++
      (v, u) :: entries (headerSize + tableEntrySize * (pre ++ u :: post).length + (pre.map (· % 2 ^ 32)).sum + u % 2 ^ 32) post).length
      = (pre ++ u :: post).length := by
    simp [entries_length]
  rw [load_raw' cfg alloc _ _ hlen hn]
  have hbad : entriesOk (headerSize + tableEntrySize * (pre ++ u :: post).length)
      (entries (headerSize + tableEntrySize * (pre ++ u :: post).length) pre ++
        (v, u) :: entries (headerSize + tableEntrySize * (pre ++ u :: post).length + (pre.map (· % 2 ^ 32)).sum + u % 2 ^ 32) post) = false := by
    rw [entriesOk_append, entriesOk_entries, sum_entries_sizes]
    simp only [entriesOk, Bool.true_and, Bool.and_eq_false_imp, beq_iff_eq]
    intro h
    rw [Nat.mod_eq_of_lt hv, Nat.mod_eq_of_lt ho] at h
    exact absurd h hne
  rw [hbad, hoffs]
  simp

/-- **a size field overwritten, not the last entry** (checked loader): the next entry's offset no longer fits: refused -/
theorem load_patch_size_inner (cfg : LoaderCfg) (hoffs : cfg.checksOffsets = true) (alloc : Nat → Nat) (pre : List Nat) (u u2 : Nat)
    (post : List Nat) (hn : (pre ++ u :: u2 :: post).length ≤ maxBuffers) (rest : Bytes) (z : Nat)
    (ho : headerSize + tableEntrySize * (pre ++ u :: u2 :: post).length + (pre.map (· % 2 ^ 32)).sum + 2 ^ 32 ≤ 2 ^ 64)
    (hne : z % 2 ^ 32 ≠ u % 2 ^ 32) :
    load cfg alloc (patch (header (pre ++ u :: u2 :: post).length ++
        (table (headerSize + tableEntrySize * (pre ++ u :: u2 :: post).length) (pre ++ u :: u2 :: post) ++ rest))
        (sizeFieldAt pre.length) (leBytes 4 z)) = .error .corruptFile := by
  rw [patch_size_field]
  obtain ⟨o, hod⟩ : ∃ o, o = headerSize + tableEntrySize * (pre ++ u :: u2 :: post).length := ⟨_, rfl⟩
  rw [← hod] at ho ⊢
  have hlen : (entries o pre ++ (o + (pre.map (· % 2 ^ 32)).sum, z) ::
      entries (o + (pre.map (· % 2 ^ 32)).sum + u % 2 ^ 32) (u2 :: post)).length = (pre ++ u :: u2 :: post).length := by
    simp [entries_length]
  rw [load_raw' cfg alloc _ _ hlen hn, ← hod]
  have hbad : entriesOk o (entries o pre ++ (o + (pre.map (· % 2 ^ 32)).sum, z) ::
      entries (o + (pre.map (· % 2 ^ 32)).sum + u % 2 ^ 32) (u2 :: post)) = false := by
    rw [entriesOk_append, entriesOk_entries, sum_entries_sizes]
    simp only [entries, entriesOk, Bool.true_and, beq_self_eq_true, Bool.and_eq_false_imp, beq_iff_eq]
    intro h
    have h1 := Nat.mod_lt z (show 0 < 2 ^ 32 by decide)
    have h2 := Nat.mod_lt u (show 0 < 2 ^ 32 by decide)
    rw [Nat.mod_eq_of_lt (by omega), Nat.mod_eq_of_lt (by omega)] at h
    omega
  rw [hbad, hoffs]
  simp

end YaraModel.Arena
