/-
  VM completeness, executable side, for the value left in `*matches` (any mode, not scan mode): if there is an accepting
  path from the entry (`AccU`, Lemmas/ReComplete.lean) and the run ends without an error, the result is >= 0.  In
  non-exhaustive mode a fiber at MATCH kills the fibers of lower priority (KILL_TAIL) — but only after it has set the
  result; the successors of the fibers of higher priority are kept.
-/
import YaraModel.Lemmas.ReComplete
namespace YaraModel.ReVm

theorem pass_mval (e : Env) (bm : Nat) : ∀ (fuel : Nat) (fs : List Fiber) (st st' : PassSt),
    pass e bm fuel fs st = some st' →
    (0 ≤ st.mval → 0 ≤ st'.mval) ∧ (∀ g ∈ st.kept, g ∈ st'.kept) ∧
    ∀ f ∈ fs, 0 ≤ st'.mval ∨ (u8 e.code f.ip ≠ OP_MATCH ∧
      (isConsuming (u8 e.code f.ip) = true → consumeOk e bm f = true →
        ∃ l a ex', sync e.code e.syncFuel [] (advance e.code f) = some (l, a, ex') ∧ ∀ g ∈ l, g ∈ st'.kept))
  | 0, _, _, _, h => by simp [pass] at h
  | fuel + 1, [], st, st', h => by
    simp only [pass] at h
    cases h
    exact ⟨fun h => h, fun g hg => hg, fun f hf => by cases hf⟩
  | fuel + 1, f :: rest, st, st', h => by
    unfold pass at h
    simp only at h
    by_cases hc : isConsuming (u8 e.code f.ip) = true
    · rw [if_pos hc] at h
      have hnm : u8 e.code f.ip ≠ OP_MATCH := fun hm => by rw [hm, match_not_consuming] at hc; cases hc
      by_cases hok : consumeOk e bm f = true
      · rw [if_pos hok] at h
        split at h
        · cases h
        · rename_i l a ex' hs
          obtain ⟨r1, r2, r3⟩ := pass_mval e bm fuel rest _ st' h
          refine ⟨r1, fun g hg => r2 g (List.mem_append_left _ hg), ?_⟩
          intro f' hf'
          rcases List.mem_cons.1 hf' with rfl | hin
          · exact .inr ⟨hnm, fun _ _ => ⟨l, a, ex', hs, fun g hg => r2 g (List.mem_append_right _ hg)⟩⟩
          · exact r3 f' hin
      · rw [if_neg hok] at h
        obtain ⟨r1, r2, r3⟩ := pass_mval e bm fuel rest st st' h
        refine ⟨r1, r2, ?_⟩
        intro f' hf'
        rcases List.mem_cons.1 hf' with rfl | hin
        · exact .inr ⟨hnm, fun _ h2 => absurd h2 hok⟩
        · exact r3 f' hin
    · rw [if_neg hc] at h
      by_cases hm : u8 e.code f.ip = OP_MATCH
      · rw [if_pos hm] at h
        have hbm : (0 : Int) ≤ (bm : Int) := Int.natCast_nonneg bm
        by_cases hx : e.fl.exhaustive = true
        · simp only [hx, if_true] at h
          obtain ⟨r1, r2, r3⟩ := pass_mval e bm fuel rest _ st' h
          have hpos : 0 ≤ st'.mval := r1 hbm
          exact ⟨fun _ => hpos, r2, fun f' _ => .inl hpos⟩
        · simp only [hx] at h
          simp only [Bool.false_eq_true, if_false, Option.some.injEq] at h
          subst h
          exact ⟨fun _ => hbm, fun g hg => hg, fun f' _ => .inl hbm⟩
      · rw [if_neg hm] at h
        by_cases hz : zeroWidthOk e bm (u8 e.code f.ip) = true
        · rw [if_pos hz] at h
          split at h
          · cases h
          · rename_i l a ex' hs
            obtain ⟨r1, r2, r3⟩ := pass_mval e bm fuel (l ++ rest) st st' h
            refine ⟨r1, r2, ?_⟩
            intro f' hf'
            rcases List.mem_cons.1 hf' with rfl | hin
            · exact .inr ⟨hm, fun h1 => absurd h1 hc⟩
            · exact r3 f' (List.mem_append_right _ hin)
        · rw [if_neg hz] at h
          obtain ⟨r1, r2, r3⟩ := pass_mval e bm fuel rest st st' h
          refine ⟨r1, r2, ?_⟩
          intro f' hf'
          rcases List.mem_cons.1 hf' with rfl | hin
          · exact .inr ⟨hm, fun h1 => absurd h1 hc⟩
          · exact r3 f' hin

theorem loop_mval (e : Env) (hs : e.fl.scan = false) : ∀ (fuel : Nat) (fibers : List Fiber) (bm : Nat)
    (mval : Int) (calls : List Nat) (m : Int) (c : List Nat), loop e fuel fibers bm mval calls = .done m c →
    (0 ≤ mval → 0 ≤ m) ∧ ∀ n f, f ∈ fibers → AccN e n f bm → 0 ≤ m
  | 0, _, _, _, _, _, _, h => by simp [loop] at h
  | fuel + 1, fibers, bm, mval, calls, m, c, h => by
    unfold loop at h
    split at h
    · rename_i hemp
      simp only [Outcome.done.injEq] at h
      obtain ⟨rfl, rfl⟩ := h
      refine ⟨fun h => h, ?_⟩
      intro n f hf
      rw [List.isEmpty_iff] at hemp
      rw [hemp] at hf; cases hf
    · split at h
      · cases h
      · split at h
        · cases h
        · rename_i st hp
          simp only [hs, Bool.false_and, Bool.false_eq_true, if_false] at h
          obtain ⟨p1, p2, p3⟩ := pass_mval e bm 4000 _ _ st hp
          obtain ⟨i1, i2⟩ := loop_mval e hs fuel st.kept (bm + e.cs) st.mval st.calls m c h
          refine ⟨fun h0 => i1 (p1 h0), ?_⟩
          intro n f hf hacc
          have hfd : f ∈ dedup fibers [] := dedup_mem fibers [] (.inl hf)
          rcases p3 f hfd with q0 | ⟨q1, q2⟩
          · exact i1 q0
          · cases n with
            | zero =>
              simp only [AccN] at hacc
              exact absurd hacc q1
            | succ k =>
              simp only [AccN] at hacc
              obtain ⟨a1, a2, a3⟩ := hacc
              obtain ⟨l, a, ex', hsy, hkept⟩ := q2 a1 a2
              obtain ⟨g, hg, hgacc⟩ := a3 _ _ _ _ hsy
              exact i2 k g (hkept g hg) hgacc

/-- an accepting path from the entry makes the run (exhaustive or not, not scan mode) end with a result >= 0 -/
theorem exec_mval (e : Env) (hs : e.fl.scan = false) (m : Int) (c : List Nat)
    (h : exec e = .done m c) (n : Nat) (hacc : AccU e n { ip := e.entry } 0) : 0 ≤ m := by
  unfold exec at h
  split at h
  · cases h
  · rename_i l a ex hsy
    obtain ⟨g, hg, hga⟩ := hacc _ _ _ _ hsy
    exact (loop_mval e hs _ l 0 (-1) [] m c h).2 n g hg hga

end YaraModel.ReVm
