/- Aho-Corasick theory: longest-suffix function and the step lemma (helpers for Thm/AcCert.lean) -/
import YaraModel.Model.AcScan
namespace YaraModel.AC
open YaraModel.Text

theorem lsuf_suffix (P : List Bytes) (w : Bytes) : lsuf P w <:+ w := by
  induction w with
  | nil => simp [lsuf]
  | cons c t ih =>
    simp only [lsuf]
    split
    · exact List.suffix_refl _
    · exact List.IsSuffix.trans ih (List.suffix_cons c t)

theorem lsuf_mem (P : List Bytes) (hP : [] ∈ P) (w : Bytes) : lsuf P w ∈ P := by
  induction w with
  | nil => simpa [lsuf] using hP
  | cons c t ih =>
    simp only [lsuf]
    split
    · rename_i h; simpa using h
    · exact ih

/-- every suffix of `w` that is in `P` is a suffix of `lsuf P w` -/
theorem lsuf_max (P : List Bytes) (w p : Bytes) (hp : p ∈ P) (hs : p <:+ w) : p <:+ lsuf P w := by
  induction w with
  | nil =>
    have : p = [] := List.eq_nil_of_suffix_nil hs
    subst this; simp [lsuf]
  | cons c t ih =>
    simp only [lsuf]
    split
    · exact hs
    · rename_i hnot
      rcases List.suffix_cons_iff.mp hs with h | h
      · subst h; simp at hnot; exact absurd hp hnot
      · exact ih h


def PrefixClosed (P : List Bytes) : Prop := ∀ p c, p ++ [c] ∈ P → p ∈ P

theorem suffix_append_right {a b : Bytes} (h : a <:+ b) (l : Bytes) : a ++ l <:+ b ++ l := by
  obtain ⟨t, rfl⟩ := h
  exact ⟨t, by simp⟩

theorem suffix_snoc {p w : Bytes} {c : UInt8} (h : p <:+ w ++ [c]) : p = [] ∨ ∃ p', p = p' ++ [c] ∧ p' <:+ w := by
  rcases List.eq_nil_or_concat p with rfl | ⟨p', c', rfl⟩
  · exact Or.inl rfl
  · right
    obtain ⟨t, ht⟩ := h
    have ht' : (t ++ p') ++ [c'] = w ++ [c] := by simpa [List.append_assoc] using ht
    have h1 := List.append_inj' ht' rfl
    have hc : c' = c := by simpa using h1.2
    subst hc
    exact ⟨p', by simp, ⟨t, h1.1⟩⟩

theorem suffix_antisymm {a b : Bytes} (h1 : a <:+ b) (h2 : b <:+ a) : a = b :=
  List.IsSuffix.eq_of_length_le h1 (List.IsSuffix.length_le h2)

/-- the Aho-Corasick step lemma -/
theorem lsuf_step (P : List Bytes) (hP : [] ∈ P) (hpc : PrefixClosed P) (w : Bytes) (c : UInt8) :
    lsuf P (w ++ [c]) = lsuf P (lsuf P w ++ [c]) := by
  apply suffix_antisymm
  · -- L <:+ R
    have hL := lsuf_mem P hP (w ++ [c])
    have hLs := lsuf_suffix P (w ++ [c])
    rcases suffix_snoc hLs with h | ⟨L', hL', hL's⟩
    · rw [h]; exact List.nil_suffix
    · apply lsuf_max P _ _ hL
      rw [hL']
      apply suffix_append_right
      apply lsuf_max P _ _ _ hL's
      apply hpc L' c
      rw [← hL']; exact hL
  · -- R <:+ L
    apply lsuf_max P _ _ (lsuf_mem P hP _)
    exact List.IsSuffix.trans (lsuf_suffix P _) (suffix_append_right (lsuf_suffix P w) [c])

/-- a pattern of `P` ends at the end of `w` iff it ends at the end of `lsuf P w` -/
theorem suffix_iff_suffix_lsuf (P : List Bytes) (w p : Bytes) (hp : p ∈ P) : p <:+ w ↔ p <:+ lsuf P w :=
  ⟨lsuf_max P w p hp, fun h => List.IsSuffix.trans h (lsuf_suffix P w)⟩

end YaraModel.AC
