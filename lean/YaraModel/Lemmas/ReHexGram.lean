/-
  What hex_grammar.y can build (`Gram`: an inductive description of the ASTs of its grammar symbols) lies inside the
  fragment `HexG` of the VM-completeness theorems, and so does its mirror image; the decidable predicates of
  Model/ReHexG.lean (evaluated by the driver on the AST of every generated hex string) are sound for both.
-/
import YaraModel.Model.ReHexG
import YaraModel.Lemmas.ReCompleteHex
import YaraModel.Lemmas.ReAtoms
namespace YaraModel.ReEmit
open YaraModel.Re YaraModel.ReVm YaraModel.ReHexG YaraModel.ReAtoms

/-- the ASTs of the grammar symbols of hex_grammar.y.  A jump (`range`) only occurs BETWEEN tokens: `tokens` begins and
    ends with a token, and so does every alternative; only the pieces of a chained string (cut at jumps of the root
    concatenation) may begin or end with a jump.  No two jumps are adjacent (consecutive jumps are merged by the grammar). -/
inductive Gram : Kind → Re → Prop
  | byte (b : UInt8) : Gram .tok (.lit b)
  | wild : Gram .tok .any
  | mask (v m : UInt8) : MaskGood m → Gram .tok (.masked v m)
  | notByte (b : UInt8) : Gram .tok (.notLit b)
  | notMask (v m : UInt8) : Gram .tok (.maskedNot v m)
  | group {r} : Gram .alts r → Gram .tok r                       -- token : '(' alternatives ')'
  | altOne {r} : Gram .toks r → Gram .alts r                     -- alternatives : tokens
  | altMore {a b} : Gram .alts a → Gram .toks b → Gram .alts (.alt a b)   -- alternatives '|' tokens
  | single {t} : Gram .tok t → Gram .toks t                      -- tokens : token
  | seq {t r} : Gram .tok t → Gram .mid r → Gram .toks (.cat t r)  -- token token | token token_sequence token
  | last {t} : Gram .tok t → Gram .mid t
  | midTok {t r} : Gram .tok t → Gram .mid r → Gram .mid (.cat t r)
  | midJump {r} (lo hi : Nat) : lo ≤ hi → hi < 65536 → noJumpHead r = true → Gram .mid r → Gram .mid (.cat (.rangeAny lo hi false) r)
  | pieceTok {t} : Gram .tok t → Gram .piece t
  | pieceJump (lo hi : Nat) : lo ≤ hi → hi < 65536 → Gram .piece (.rangeAny lo hi false)
  | pieceConsTok {t r} : Gram .tok t → Gram .piece r → Gram .piece (.cat t r)
  | pieceConsJump {r} (lo hi : Nat) : lo ≤ hi → hi < 65536 → noJumpHead r = true → Gram .piece r → Gram .piece (.cat (.rangeAny lo hi false) r)

theorem maskGood_iff (m : UInt8) : maskGood m = true ↔ MaskGood m := by
  unfold maskGood MaskGood
  simp [Bool.or_eq_true, beq_iff_eq, or_assoc]

theorem leafTok_gram {r : Re} (h : leafTok r = true) : Gram .tok r := by
  cases r <;> simp [leafTok] at h
  · exact .byte _
  · exact .mask _ _ ((maskGood_iff _).1 h)
  · exact .notByte _
  · exact .notMask _ _
  · exact .wild

theorem isJump_inv {r : Re} (h : isJump r = true) : ∃ lo hi, r = .rangeAny lo hi false ∧ lo ≤ hi ∧ hi < 65536 := by
  cases r with
  | rangeAny lo hi g =>
    cases g <;> simp [isJump] at h
    exact ⟨lo, hi, rfl, h.1, h.2⟩
  | _ => simp [isJump] at h

/-- the decision procedure the driver runs is sound for the description -/
theorem gram_sound : ∀ (r : Re) (k : Kind), gram k r = true → Gram k r := by
  intro r
  induction r with
  | cat a b iha ihb =>
    intro k h
    cases k with
    | tok =>
      simp only [gram, Bool.and_eq_true] at h
      exact .group (.altOne (.seq (iha _ h.1) (ihb _ h.2)))
    | toks =>
      simp only [gram, Bool.and_eq_true] at h
      exact .seq (iha _ h.1) (ihb _ h.2)
    | alts =>
      simp only [gram, Bool.and_eq_true] at h
      exact .altOne (.seq (iha _ h.1) (ihb _ h.2))
    | mid =>
      simp only [gram, Bool.and_eq_true, Bool.or_eq_true] at h
      rcases h.1 with hj | ht
      · obtain ⟨lo, hi, rfl, h1, h2⟩ := isJump_inv hj.1
        exact .midJump lo hi h1 h2 hj.2 (ihb _ h.2)
      · exact .midTok (iha _ ht) (ihb _ h.2)
    | piece =>
      simp only [gram, Bool.and_eq_true, Bool.or_eq_true] at h
      rcases h.1 with hj | ht
      · obtain ⟨lo, hi, rfl, h1, h2⟩ := isJump_inv hj.1
        exact .pieceConsJump lo hi h1 h2 hj.2 (ihb _ h.2)
      · exact .pieceConsTok (iha _ ht) (ihb _ h.2)
  | alt a b iha ihb =>
    intro k h
    have h' : gram .alts a = true ∧ gram .toks b = true := by
      cases k <;> simpa [gram, Bool.and_eq_true] using h
    have hal : Gram .alts (.alt a b) := .altMore (iha _ h'.1) (ihb _ h'.2)
    cases k with
    | tok => exact .group hal
    | toks => exact .single (.group hal)
    | alts => exact hal
    | mid => exact .last (.group hal)
    | piece => exact .pieceTok (.group hal)
  | rangeAny lo hi g =>
    intro k h
    cases k with
    | piece =>
      simp only [gram, Bool.or_eq_true] at h
      rcases h with hj | ht
      · obtain ⟨lo', hi', he, h1, h2⟩ := isJump_inv hj
        cases he; exact .pieceJump _ _ h1 h2
      · simp [leafTok] at ht
    | _ => simp [gram, leafTok] at h
  | _ =>
    intro k h
    cases k with
    | tok => exact leafTok_gram (by simpa [gram] using h)
    | toks => exact .single (leafTok_gram (by simpa [gram] using h))
    | alts => exact .altOne (.single (leafTok_gram (by simpa [gram] using h)))
    | mid => exact .last (leafTok_gram (by simpa [gram] using h))
    | piece =>
      simp only [gram, Bool.or_eq_true] at h
      rcases h with hj | ht
      · simp [isJump] at hj
      · exact .pieceTok (leafTok_gram ht)

/-- everything the grammar builds lies inside `HexG`, and so does its mirror image; nibble masks only.  Tokens, `tokens`
    and alternatives begin with a byte-like token (`Hd`), and all of these and the rest of a sequence END with one. -/
theorem gram_hexG {k : Kind} {r : Re} (h : Gram k r) :
    HexG r ∧ HexG (rev r) ∧ MaskOK r ∧ (k ≠ .mid → k ≠ .piece → Hd r) ∧ (k ≠ .piece → Hd (rev r)) := by
  induction h with
  | byte b => exact ⟨.byte b, .byte b, trivial, fun _ _ => .byte b, fun _ => .byte b⟩
  | wild => exact ⟨.wild, .wild, trivial, fun _ _ => .wild, fun _ => .wild⟩
  | mask v m hm => exact ⟨.mask v m, .mask v m, hm, fun _ _ => .mask v m, fun _ => .mask v m⟩
  | notByte b => exact ⟨.notByte b, .notByte b, trivial, fun _ _ => .notByte b, fun _ => .notByte b⟩
  | notMask v m => exact ⟨.notMask v m, .notMask v m, trivial, fun _ _ => .notMask v m, fun _ => .notMask v m⟩
  | group _ ih => exact ⟨ih.1, ih.2.1, ih.2.2.1, fun _ _ => ih.2.2.2.1 (by decide) (by decide), fun _ => ih.2.2.2.2 (by decide)⟩
  | altOne _ ih => exact ⟨ih.1, ih.2.1, ih.2.2.1, fun _ _ => ih.2.2.2.1 (by decide) (by decide), fun _ => ih.2.2.2.2 (by decide)⟩
  | altMore _ _ ih1 ih2 =>
    have a1 := ih1.2.2.2.1 (by decide) (by decide)
    have a2 := ih1.2.2.2.2 (by decide)
    have b1 := ih2.2.2.2.1 (by decide) (by decide)
    have b2 := ih2.2.2.2.2 (by decide)
    exact ⟨.alt ih1.1 ih2.1 a1, .alt ih1.2.1 ih2.2.1 a2, ⟨ih1.2.2.1, ih2.2.2.1⟩, fun _ _ => .alt a1 b1, fun _ => .alt a2 b2⟩
  | single _ ih => exact ⟨ih.1, ih.2.1, ih.2.2.1, fun _ _ => ih.2.2.2.1 (by decide) (by decide), fun _ => ih.2.2.2.2 (by decide)⟩
  | seq _ _ ih1 ih2 =>
    exact ⟨.seq ih1.1 ih2.1, .seq ih2.2.1 ih1.2.1, ⟨ih1.2.2.1, ih2.2.2.1⟩, fun _ _ => .seq _ (ih1.2.2.2.1 (by decide) (by decide)),
      fun _ => .seq _ (ih2.2.2.2.2 (by decide))⟩
  | last _ ih => exact ⟨ih.1, ih.2.1, ih.2.2.1, fun h => absurd rfl h, fun _ => ih.2.2.2.2 (by decide)⟩
  | midTok _ _ ih1 ih2 =>
    exact ⟨.seq ih1.1 ih2.1, .seq ih2.2.1 ih1.2.1, ⟨ih1.2.2.1, ih2.2.2.1⟩, fun h => absurd rfl h, fun _ => .seq _ (ih2.2.2.2.2 (by decide))⟩
  | midJump lo hi h1 h2 _ _ ih =>
    exact ⟨.seq (.jump lo hi h1 h2) ih.1, .seq ih.2.1 (.jump lo hi h1 h2), ⟨trivial, ih.2.2.1⟩, fun h => absurd rfl h,
      fun _ => .seq _ (ih.2.2.2.2 (by decide))⟩
  | pieceTok _ ih => exact ⟨ih.1, ih.2.1, ih.2.2.1, fun _ h => absurd rfl h, fun h => absurd rfl h⟩
  | pieceJump lo hi h1 h2 => exact ⟨.jump lo hi h1 h2, .jump lo hi h1 h2, trivial, fun _ h => absurd rfl h, fun h => absurd rfl h⟩
  | pieceConsTok _ _ ih1 ih2 =>
    exact ⟨.seq ih1.1 ih2.1, .seq ih2.2.1 ih1.2.1, ⟨ih1.2.2.1, ih2.2.2.1⟩, fun _ h => absurd rfl h, fun h => absurd rfl h⟩
  | pieceConsJump lo hi h1 h2 _ _ ih =>
    exact ⟨.seq (.jump lo hi h1 h2) ih.1, .seq ih.2.1 (.jump lo hi h1 h2), ⟨trivial, ih.2.2.1⟩, fun _ h => absurd rfl h, fun h => absurd rfl h⟩

theorem mirror_eq_rev (r : Re) : mirror r = rev r := by
  induction r <;> simp [mirror, rev, *]

theorem hd_sound : ∀ {r : Re}, hd r = true → Hd r
  | .lit b, _ => .byte b
  | .any, _ => .wild
  | .masked v m, _ => .mask v m
  | .notLit b, _ => .notByte b
  | .maskedNot v m, _ => .notMask v m
  | .rangeAny lo hi g, h => .jump lo hi g (by simpa [hd] using h)
  | .cat a b, h => .seq b (hd_sound (by simpa [hd] using h))
  | .alt a b, h => by
    simp only [hd, Bool.and_eq_true] at h
    exact .alt (hd_sound h.1) (hd_sound h.2)

theorem hd_complete {r : Re} (h : Hd r) : hd r = true := by
  induction h with
  | jump lo hi g h1 => simpa [hd] using h1
  | seq b _ ih => simpa [hd] using ih
  | alt _ _ ih1 ih2 => simp [hd, ih1, ih2]
  | _ => rfl

/-- the decidable `hexG` IS the fragment of the completeness theorems -/
theorem hexG_iff (r : Re) : hexG r = true ↔ HexG r := by
  constructor
  · intro h
    induction r with
    | lit b => exact .byte b
    | any => exact .wild
    | masked v m => exact .mask v m
    | notLit b => exact .notByte b
    | maskedNot v m => exact .notMask v m
    | rangeAny lo hi g =>
      simp only [hexG, Bool.and_eq_true, Bool.not_eq_true', decide_eq_true_eq] at h
      obtain ⟨⟨rfl, h1⟩, h2⟩ := h
      exact .jump lo hi h1 h2
    | cat a b iha ihb =>
      simp only [hexG, Bool.and_eq_true] at h
      exact .seq (iha h.1) (ihb h.2)
    | alt a b iha ihb =>
      simp only [hexG, Bool.and_eq_true] at h
      exact .alt (iha h.1.1) (ihb h.1.2) (hd_sound h.2)
    | _ => simp [hexG] at h
  · intro h
    induction h with
    | jump lo hi h1 h2 => simp [hexG, h1, h2]
    | seq _ _ ih1 ih2 => simp [hexG, ih1, ih2]
    | alt _ _ hd' ih1 ih2 => simp [hexG, ih1, ih2, hd_complete hd']
    | _ => rfl

theorem maskOK_sound : ∀ {r : Re}, maskOK r = true → MaskOK r := by
  intro r
  induction r with
  | masked v m => intro h; exact (maskGood_iff m).1 (by simpa [maskOK] using h)
  | cat a b iha ihb => intro h; simp only [maskOK, Bool.and_eq_true] at h; exact ⟨iha h.1, ihb h.2⟩
  | alt a b iha ihb => intro h; simp only [maskOK, Bool.and_eq_true] at h; exact ⟨iha h.1, ihb h.2⟩
  | star a g ih => intro h; exact ih (by simpa [maskOK] using h)
  | plus a g ih => intro h; exact ih (by simpa [maskOK] using h)
  | range a lo hi g ih => intro h; exact ih (by simpa [maskOK] using h)
  | _ => intro _; trivial

end YaraModel.ReEmit
