/- The model's bookkeeping of never-cleared memory (`dirty`, `unspec`): a buffer becomes dirty only through a raw
   allocation, contents become unspecified only through a zeroed allocation into a dirty buffer; hence an op list
   that never sends a zeroed allocation to a buffer that earlier got a raw one keeps everything specified. -/
import YaraModel.Lemmas.ArenaExec
namespace YaraModel.Arena
open YaraModel.Gen.ArenaLayout

theorem bufAt_setSlot_dirty (a : Arena) (r : Ref) (v i : Nat) : ((setSlot a r v).bufAt i).dirty = (a.bufAt i).dirty := by
  rw [bufAt_setSlot]; split <;> rfl

theorem bufAt_mapSlots_dirty (φ : Nat → Nat) (rs : List Ref) (a : Arena) (i : Nat) :
    ((mapSlots φ rs a).bufAt i).dirty = (a.bufAt i).dirty := by
  induction rs generalizing a with
  | nil => rfl
  | cons r t ih => simp [ih, bufAt_setSlot_dirty]

theorem bufAt_setBuf_same (a : Arena) {b : Nat} (x : Buf) (hb : b < a.bufs.length) : (a.setBuf b x).bufAt b = x := by
  unfold Arena.setBuf Arena.bufAt
  simp [List.getD_eq_getElem?_getD, hb]

theorem setBuf_unspec (a : Arena) (b : Nat) (x : Buf) : (a.setBuf b x).unspec = a.unspec := rfl
theorem setBuf_length (a : Arena) (b : Nat) (x : Buf) : (a.setBuf b x).bufs.length = a.bufs.length := by simp [Arena.setBuf]

theorem growBuf_unspec (a : Arena) (b nb nc : Nat) (z : Bool) : (growBuf a b nb nc z).unspec = a.unspec := by
  unfold growBuf
  simp only [setBuf_unspec]
  split
  · rw [fixups_eq, mapSlots_unspec]
  · rfl

theorem growBuf_dirty (a : Arena) {b : Nat} (hb : b < a.bufs.length) (nb nc : Nat) (z : Bool) (j : Nat) :
    ((growBuf a b nb nc z).bufAt j).dirty = true → (a.bufAt j).dirty = true ∨ (j = b ∧ z = false) := by
  intro h
  by_cases hj : j = b
  · subst hj
    unfold growBuf at h
    simp only at h
    rw [bufAt_setBuf_same _ _ (by split <;> simp [fixups_eq, hb])] at h
    simp only [Bool.not_eq_true'] at h
    exact Or.inr ⟨rfl, h⟩
  · left
    unfold growBuf at h
    simp only at h
    rw [bufAt_setBuf_ne _ _ hj] at h
    split at h
    · rw [fixups_eq, bufAt_mapSlots_dirty] at h; exact h
    · exact h

theorem allocMem_flags {cfg : Cfg} {nb : Nat} {a : Arena} {b : Nat} {zero : Bool} {fill : Bytes} {a' : Arena} {r : Ref}
    (hres : allocMem cfg nb a b zero fill = .ok (a', r)) :
    (∀ j, (a'.bufAt j).dirty = true → (a.bufAt j).dirty = true ∨ (j = b ∧ zero = false)) ∧
      (a'.unspec = true → a.unspec = true ∨ (zero = true ∧ (a.bufAt b).dirty = true)) := by
  unfold allocMem at hres
  by_cases hb : b < a.bufs.length
  · rw [if_pos hb] at hres
    simp only at hres
    have hcapdef : (if cfg.alwaysMove = true ∧ (a.bufAt b).base ≠ 0 ∧ fill.length > 0 then (a.bufAt b).data.length else (a.bufAt b).cap)
        = effCap cfg a b fill.length := rfl
    rw [hcapdef] at hres
    by_cases hg : effCap cfg a b fill.length - (a.bufAt b).data.length < fill.length
    · rw [if_pos hg] at hres
      split at hres
      · cases hres
      · simp only [Except.ok.injEq, Prod.mk.injEq] at hres
        rw [← hres.1]
        constructor
        · intro j hj
          by_cases hjb : j = b
          · subst hjb
            rw [bufAt_setBuf_same _ _ (by unfold growBuf; simp only [setBuf_length]; split <;> simp [fixups_eq, hb])] at hj
            exact growBuf_dirty a hb nb _ zero j hj
          · rw [bufAt_setBuf_ne _ _ hjb] at hj
            exact growBuf_dirty a hb nb _ zero j hj
        · intro hu
          rw [setBuf_unspec, growBuf_unspec] at hu
          exact Or.inl hu
    · rw [if_neg hg] at hres
      simp only [Except.ok.injEq, Prod.mk.injEq] at hres
      rw [← hres.1]
      constructor
      · intro j hj
        by_cases hjb : j = b
        · subst hjb
          rw [bufAt_setBuf_same _ _ (by exact hb)] at hj
          exact Or.inl hj
        · rw [bufAt_setBuf_ne _ _ hjb] at hj
          exact Or.inl hj
      · intro hu
        rw [setBuf_unspec] at hu
        simp only [Bool.or_eq_true, Bool.and_eq_true, decide_eq_true_eq] at hu
        rcases hu with hu | hu
        · exact Or.inl hu
        · exact Or.inr ⟨hu.1.1, hu.1.2⟩
  · rw [if_neg hb] at hres; cases hres

theorem makeRelocs_bufAt (a : Arena) (b base : Nat) (offs : List Nat) (j : Nat) : (makeRelocs a b base offs).bufAt j = a.bufAt j := rfl
theorem makeRelocs_unspec (a : Arena) (b base : Nat) (offs : List Nat) : (makeRelocs a b base offs).unspec = a.unspec := rfl

/-- what one operation does to the bookkeeping of never-cleared memory: a buffer becomes dirty only through a raw
    allocation into it; contents become unspecified only through a zeroed allocation into a dirty buffer -/
theorem exec_flags {cfg : Cfg} {nb : Nat} {a : Arena} {op : Op} {a' : Arena} {o : Out} (hres : exec cfg nb a op = .ok (a', o)) :
    (∀ j, (a'.bufAt j).dirty = true → (a.bufAt j).dirty = true ∨ opRaw op = some j) ∧
      (a'.unspec = true → a.unspec = true ∨ ∃ b, opZeroed op = some b ∧ (a.bufAt b).dirty = true) := by
  cases op with
  | write b bytes =>
    simp only [exec] at hres
    cases h1 : allocMem cfg nb a b false bytes with
    | error e => rw [h1] at hres; cases hres
    | ok p =>
      obtain ⟨a1, r⟩ := p
      rw [h1] at hres
      simp only [Except.ok.injEq, Prod.mk.injEq] at hres
      rw [← hres.1]
      have ⟨hd, hu⟩ := allocMem_flags h1
      refine ⟨fun j hj => ?_, fun h => ?_⟩
      · rcases hd j hj with h | h
        · exact Or.inl h
        · exact Or.inr (by rw [h.1]; rfl)
      · rcases hu h with h | h
        · exact Or.inl h
        · exact absurd h.1 (by decide)
  | zalloc b size =>
    simp only [exec] at hres
    cases h1 : allocMem cfg nb a b true (zeros size) with
    | error e => rw [h1] at hres; cases hres
    | ok p =>
      obtain ⟨a1, r⟩ := p
      rw [h1] at hres
      simp only [Except.ok.injEq, Prod.mk.injEq] at hres
      rw [← hres.1]
      have ⟨hd, hu⟩ := allocMem_flags h1
      refine ⟨fun j hj => ?_, fun h => ?_⟩
      · rcases hd j hj with h | h
        · exact Or.inl h
        · exact absurd h.2 (by decide)
      · rcases hu h with h | h
        · exact Or.inl h
        · exact Or.inr ⟨b, rfl, h.2⟩
  | struct b size offs =>
    simp only [exec] at hres
    cases h1 : allocMem cfg nb a b true (zeros size) with
    | error e => rw [h1] at hres; cases hres
    | ok p =>
      obtain ⟨a1, r⟩ := p
      rw [h1] at hres
      simp only [Except.ok.injEq, Prod.mk.injEq] at hres
      rw [← hres.1]
      have ⟨hd, hu⟩ := allocMem_flags h1
      refine ⟨fun j hj => ?_, fun h => ?_⟩
      · rw [makeRelocs_bufAt] at hj
        rcases hd j hj with h | h
        · exact Or.inl h
        · exact absurd h.2 (by decide)
      · rw [makeRelocs_unspec] at h
        rcases hu h with h | h
        · exact Or.inl h
        · exact Or.inr ⟨b, rfl, h.2⟩
  | reloc b off =>
    simp only [exec, Except.ok.injEq, Prod.mk.injEq] at hres
    rw [← hres.1]
    exact ⟨fun j hj => Or.inl hj, fun h => Or.inl h⟩
  | setPtr slot target =>
    simp only [exec] at hres
    cases h1 : refToPtr a.bufs target with
    | error e => rw [h1] at hres; cases hres
    | ok p =>
      rw [h1] at hres
      simp only at hres
      split at hres
      · simp only [Except.ok.injEq, Prod.mk.injEq] at hres
        rw [← hres.1]
        exact ⟨fun j hj => Or.inl (by rw [bufAt_setSlot_dirty] at hj; exact hj), fun h => Or.inl h⟩
      · cases hres
  | ptr b target =>
    simp only [exec] at hres
    cases h0 : refToPtr a.bufs target with
    | error e => rw [h0] at hres; cases hres
    | ok p =>
      rw [h0] at hres
      simp only at hres
      cases h1 : allocMem cfg nb a b false (leBytes 8 p) with
      | error e => rw [h1] at hres; cases hres
      | ok q =>
        obtain ⟨a1, r⟩ := q
        rw [h1] at hres
        simp only [Except.ok.injEq, Prod.mk.injEq] at hres
        rw [← hres.1]
        have ⟨hd, hu⟩ := allocMem_flags h1
        refine ⟨fun j hj => ?_, fun h => ?_⟩
        · rw [makeRelocs_bufAt] at hj
          rcases hd j hj with h | h
          · exact Or.inl h
          · exact Or.inr (by rw [h.1]; rfl)
        · rw [makeRelocs_unspec] at h
          rcases hu h with h | h
          · exact Or.inl h
          · exact absurd h.1 (by decide)
  | poke at_ bytes =>
    simp only [exec] at hres
    split at hres
    · simp only [Except.ok.injEq, Prod.mk.injEq] at hres
      rw [← hres.1, setBuf_poke_eq]
      refine ⟨fun j hj => Or.inl ?_, fun h => Or.inl h⟩
      rw [bufAt_pokeA] at hj
      split at hj
      · exact hj
      · exact hj
    · cases hres
  | ref slot =>
    simp only [exec] at hres
    split at hres
    · simp only [Except.ok.injEq, Prod.mk.injEq] at hres
      rw [← hres.1]
      exact ⟨fun j hj => Or.inl hj, fun h => Or.inl h⟩
    · cases hres
  | rt target =>
    simp only [exec] at hres
    cases h1 : refToPtr a.bufs target with
    | error e => rw [h1] at hres; cases hres
    | ok p =>
      rw [h1] at hres
      simp only [Except.ok.injEq, Prod.mk.injEq] at hres
      rw [← hres.1]
      exact ⟨fun j hj => Or.inl hj, fun h => Or.inl h⟩
  | regPtr slot target =>
    simp only [exec] at hres
    cases h1 : refToPtr a.bufs target with
    | error e => rw [h1] at hres; cases hres
    | ok p =>
      rw [h1] at hres
      simp only at hres
      split at hres
      · simp only [Except.ok.injEq, Prod.mk.injEq] at hres
        rw [← hres.1]
        exact ⟨fun j hj => Or.inl (by rw [bufAt_setSlot_dirty, makeRelocs_bufAt] at hj; exact hj), fun h => Or.inl h⟩
      · cases hres

theorem runOut_unspec (cfg : Cfg) (ops : List Op) : ∀ (bases : List Nat) (a : Arena) (raws : List Nat) (a' : Arena) (outs : List Out),
    DirtyIn a raws → a.unspec = false → KindsOK raws ops = true → runOut cfg bases a ops = .ok (a', outs) → a'.unspec = false := by
  induction ops with
  | nil =>
    intro bases a raws a' outs _ hu _ hr
    simp only [runOut, Except.ok.injEq, Prod.mk.injEq] at hr
    rw [← hr.1]; exact hu
  | cons op ops ih =>
    intro bases a raws a' outs hd hu hk hr
    simp only [KindsOK, Bool.and_eq_true] at hk
    unfold runOut at hr
    cases h1 : exec cfg (bases.headD 0) a op with
    | error e => rw [h1] at hr; cases hr
    | ok p =>
      obtain ⟨a1, o⟩ := p
      rw [h1] at hr
      simp only at hr
      cases h2 : runOut cfg bases.tail a1 ops with
      | error e => rw [h2] at hr; cases hr
      | ok q =>
        obtain ⟨a2, os⟩ := q
        rw [h2] at hr
        simp only [Except.ok.injEq, Prod.mk.injEq] at hr
        rw [← hr.1]
        have ⟨hd1, hu1⟩ := exec_flags h1
        refine ih bases.tail a1 _ a2 os ?_ ?_ hk.2 h2
        · intro j hj
          rcases hd1 j hj with h | h
          · have := hd j h
            cases opRaw op <;> simp [this]
          · rw [h]; simp
        · cases hx : a1.unspec with
          | false => rfl
          | true =>
            rcases hu1 hx with h | ⟨b, hb, hdb⟩
            · rw [hu] at h; cases h
            · have hk1 := hk.1
              rw [hb] at hk1
              simp only [Bool.not_eq_true', List.contains_eq_mem, decide_eq_false_iff_not] at hk1
              exact absurd (hd b hdb) hk1

theorem dirtyIn_create (n init : Nat) : DirtyIn (create n init) [] := by
  intro j hj
  have : (create n init).bufAt j = {} := by
    unfold create Arena.bufAt
    simp only [List.getD_eq_getElem?_getD, List.getElem?_replicate]
    split <;> rfl
  rw [this] at hj; cases hj

end YaraModel.Arena
