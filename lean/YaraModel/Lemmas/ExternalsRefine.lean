/- C20: the refinement invariant and its proof (helper for Thm/C20.lean). -/
import YaraModel.Lemmas.Externals
namespace YaraModel.Ext
structure Refines (past : List Op) : Prop where
  comp : ∀ n, (lookup (runRev past).comp n).map tv = specC past n
  rulesSome : (runRev past).rules.isSome = compiled past
  rules : ∀ n, ((runRev past).rules.bind (lookup · n)).map tv = specR past n
  scanners : ∀ k n, (((runRev past).scanners k).bind (lookup · n)).map tv = specS past k n

theorem refines_all (past : List Op) : Refines past := by
  induction past with
  | nil => constructor <;> simp [runRev, init, lookup, specC, specR, specS, compiled]
  | cons op past ih =>
    obtain ⟨hc, hrs, hr, hs⟩ := ih
    cases op with
    | scan k =>
      have e : runRev (Op.scan k :: past) = runRev past := by
        simp only [runRev, step]; split <;> rfl
      constructor <;> simp only [e, specC, specR, specS, compiled] <;> assumption
    | rscan =>
      have e : runRev (Op.rscan :: past) = runRev past := by
        simp only [runRev, step]; split <;> rfl
      constructor <;> simp only [e, specC, specR, specS, compiled] <;> assumption
    | sdestroy k =>
      cases hk : (runRev past).scanners k with
      | none =>
        have e : runRev (Op.sdestroy k :: past) = runRev past := by
          simp only [runRev, step, hk]
        constructor <;> simp only [e, specC, specR, specS, compiled] <;> try assumption
        intro k' n
        by_cases h : k = k'
        · subst h; simp [hk]
        · simp [h, hs]
      | some vs =>
        have e : runRev (Op.sdestroy k :: past) =
            { runRev past with scanners := fun j => if j = k then none else (runRev past).scanners j } := by
          simp only [runRev, step, hk]
        constructor <;> simp only [e, specC, specR, specS, compiled] <;> try assumption
        intro k' n
        by_cases h : k = k'
        · subst h; simp
        · have h' : ¬ k' = k := fun x => h x.symm
          simp [h, h', hs]
    | screate k =>
      cases hrl : (runRev past).rules with
      | none =>
        have e : runRev (Op.screate k :: past) = runRev past := by
          simp only [runRev, step, hrl]
        have hcomp : compiled past = false := by rw [← hrs, hrl]; rfl
        constructor <;> simp only [e, specC, specR, specS, compiled] <;> try assumption
        intro k' n
        simp [hcomp, hs]
      | some rs =>
        have e : runRev (Op.screate k :: past) =
            { runRev past with scanners := fun j => if j = k then some rs else (runRev past).scanners j } := by
          simp only [runRev, step, hrl]
        have hcomp : compiled past = true := by rw [← hrs, hrl]; rfl
        constructor <;> simp only [e, specC, specR, specS, compiled] <;> try assumption
        intro k' n
        by_cases h : k = k'
        · subst h
          have := hr n
          rw [hrl] at this
          simpa [hcomp] using this
        · have h' : ¬ k' = k := fun x => h x.symm
          simp [h, h', hs]
    | compile =>
      cases hrl : (runRev past).rules with
      | some rs =>
        have e : runRev (Op.compile :: past) = runRev past := by
          simp only [runRev, step, hrl]
        have hcomp : compiled past = true := by rw [← hrs, hrl]; rfl
        constructor <;> simp only [e, specC, specR, specS, compiled] <;> try assumption
        · rw [hrl]; rfl
        · intro n; simp [hcomp, hr]
      | none =>
        have e : runRev (Op.compile :: past) =
            { runRev past with rules := some (runRev past).comp } := by
          simp only [runRev, step, hrl]
        have hcomp : compiled past = false := by rw [← hrs, hrl]; rfl
        constructor <;> simp only [e, specC, specR, specS, compiled] <;> try assumption
        · rfl
        · intro n; simp [hcomp, hc]
    | cdef ty n v =>
      cases hrl : (runRev past).rules with
      | some rs =>
        have e : runRev (Op.cdef ty n v :: past) = runRev past := by
          simp only [runRev, step, hrl]
        have hcomp : compiled past = true := by rw [← hrs, hrl]; rfl
        constructor <;> simp only [e, specC, specR, specS, compiled] <;> try assumption
        intro m
        rw [← hc m]
        cases lookup (runRev past).comp m <;> simp [hcomp]
      | none =>
        have hcomp : compiled past = false := by rw [← hrs, hrl]; rfl
        cases hl : lookup (runRev past).comp n with
        | some x =>
          have e : runRev (Op.cdef ty n v :: past) = runRev past := by
            simp only [runRev, step, hrl, hl]
          constructor <;> simp only [e, specC, specR, specS, compiled] <;> try assumption
          intro m
          rw [← hc m]
          cases hm : lookup (runRev past).comp m with
          | some y => simp
          | none =>
            have : n ≠ m := by intro h; subst h; rw [hl] at hm; cases hm
            simp [this]
        | none =>
          have e : runRev (Op.cdef ty n v :: past) =
              { runRev past with comp := (runRev past).comp ++ [⟨n, ty, v⟩] } := by
            simp only [runRev, step, hrl, hl]
          constructor <;> simp only [e, specC, specR, specS, compiled] <;> try assumption
          intro m
          rw [lookup_append, ← hc m]
          cases hm : lookup (runRev past).comp m with
          | some y => simp
          | none =>
            by_cases h : n = m
            · subst h; simp [hcomp, tv]
            · simp [h]
    | rdef ty n v =>
      cases hrl : (runRev past).rules with
      | none =>
        have e : runRev (Op.rdef ty n v :: past) = runRev past := by
          simp only [runRev, step, hrl]
        constructor <;> simp only [e, specC, specR, specS, compiled] <;> try assumption
        intro m
        have := hr m
        rw [hrl] at this
        simp at this
        rw [← this, hrl]; simp
      | some rs =>
        cases hl : lookup rs n with
        | none =>
          have e : runRev (Op.rdef ty n v :: past) = runRev past := by
            simp only [runRev, step, hrl, hl]
          constructor <;> simp only [e, specC, specR, specS, compiled] <;> try assumption
          intro m
          have hm := hr m
          rw [hrl] at hm ⊢
          simp only [Option.bind_some] at hm ⊢
          rw [← hm]
          cases hlm : lookup rs m with
          | none => simp
          | some y =>
            have : n ≠ m := by intro h; subst h; rw [hl] at hlm; cases hlm
            simp [tv, this]
        | some x =>
          by_cases hty : x.ty = ty
          · have e : runRev (Op.rdef ty n v :: past) =
                { runRev past with rules := some (setVal rs n v) } := by
              simp only [runRev, step, hrl, hl, hty, if_true]
            constructor <;> simp only [e, specC, specR, specS, compiled] <;> try assumption
            · rw [← hrs, hrl]; rfl
            · intro m
              have hm := hr m
              rw [hrl] at hm
              simp only [Option.bind_some] at hm ⊢
              rw [tv_lookup_setVal, hm]
              cases hsp : specR past m with
              | none => simp
              | some p =>
                obtain ⟨t, y⟩ := p
                by_cases h : n = m
                · subst h
                  have : t = ty := by
                    rw [hl] at hm; simp [tv] at hm; rw [hsp] at hm
                    cases hm; exact hty
                  simp [this]
                · simp [h]
          · have e : runRev (Op.rdef ty n v :: past) = runRev past := by
              simp only [runRev, step, hrl, hl, hty, if_false]
            constructor <;> simp only [e, specC, specR, specS, compiled] <;> try assumption
            intro m
            have hm := hr m
            rw [hrl] at hm ⊢
            simp only [Option.bind_some] at hm ⊢
            rw [← hm]
            cases hlm : lookup rs m with
            | none => simp
            | some y =>
              simp only [Option.map_some, tv]
              by_cases h : n = m
              · subst h
                rw [hl] at hlm; cases hlm
                simp [hty]
              · simp [h]
    | sdef k ty n v =>
      cases hk : (runRev past).scanners k with
      | none =>
        have e : runRev (Op.sdef k ty n v :: past) = runRev past := by
          simp only [runRev, step, hk]
        constructor <;> simp only [e, specC, specR, specS, compiled] <;> try assumption
        intro k' m
        rw [← hs k' m]
        by_cases hkk : k = k'
        · subst hkk; simp [hk]
        · cases (((runRev past).scanners k').bind (lookup · m)).map tv with
          | none => rfl
          | some p => simp [hkk]
      | some vs =>
        cases hl : lookup vs n with
        | none =>
          have e : runRev (Op.sdef k ty n v :: past) = runRev past := by
            simp only [runRev, step, hk, hl]
          constructor <;> simp only [e, specC, specR, specS, compiled] <;> try assumption
          intro k' m
          rw [← hs k' m]
          cases hp : (((runRev past).scanners k').bind (lookup · m)).map tv with
          | none => rfl
          | some p =>
            have : ¬ (k = k' ∧ n = m) := by
              rintro ⟨h1, h2⟩; subst h1; subst h2
              rw [hk] at hp; simp [hl] at hp
            obtain ⟨t, y⟩ := p
            simp only
            split
            · rename_i h; exact absurd ⟨h.1, h.2.1⟩ this
            · rfl
        | some x =>
          by_cases hty : objTy x.ty = objTy ty
          · have e : runRev (Op.sdef k ty n v :: past) =
                { runRev past with scanners := fun j => if j = k then some (setVal vs n v) else (runRev past).scanners j } := by
              simp only [runRev, step, hk, hl, hty, if_true]
            constructor <;> simp only [e, specC, specR, specS, compiled] <;> try assumption
            intro k' m
            by_cases hkk : k' = k
            · subst hkk
              have hm := hs k' m
              rw [hk] at hm
              simp only [Option.bind_some, if_true] at hm ⊢
              rw [tv_lookup_setVal, hm]
              cases hsp : specS past k' m with
              | none => simp
              | some p =>
                obtain ⟨t, y⟩ := p
                by_cases h : n = m
                · subst h
                  have : t = x.ty := by
                    rw [hl] at hm; simp [tv] at hm; rw [hsp] at hm
                    cases hm; rfl
                  simp [this, hty]
                · simp [h]
            · have hkk' : ¬ k = k' := fun h => hkk h.symm
              simp only [hkk, if_false]
              rw [hs k' m]
              cases specS past k' m with
              | none => rfl
              | some p => simp [hkk']
          · have e : runRev (Op.sdef k ty n v :: past) = runRev past := by
              simp only [runRev, step, hk, hl, hty, if_false]
            constructor <;> simp only [e, specC, specR, specS, compiled] <;> try assumption
            intro k' m
            rw [← hs k' m]
            cases hp : (((runRev past).scanners k').bind (lookup · m)).map tv with
            | none => rfl
            | some p =>
              obtain ⟨t, y⟩ := p
              have : ¬ (k = k' ∧ n = m ∧ objTy t = objTy ty) := by
                rintro ⟨h1, h2, h3⟩; subst h1; subst h2
                rw [hk] at hp; simp [hl, tv] at hp
                rw [hp.1] at hty; exact hty h3
              simp [this]
end YaraModel.Ext
