/-
  Compiler correctness (soundness direction) for the hex fragment without jumps:
  literal / masked literal / not-literal / masked-not-literal / any, concatenation, alternation.

  `Seg code r a b` : the bytes `code[a..b)` decode to the emission of `r`.
  `lang`           : the language accepted from every instruction address (continuation semantics).
  `reach_lang`     : every reachable configuration of the abstract machine (Lemmas/ReVm.lean) keeps the invariant
                     "whatever can still be accepted from here extends to a match of the whole pattern".
-/
import YaraModel.Lemmas.ReVm
import YaraModel.Model.ReEmit
import YaraModel.Lemmas.ReAlgebra
namespace YaraModel.ReEmit
open YaraModel.Re YaraModel.ReVm

/-- the hex fragment without jumps -/
inductive HexFrag : Re → Prop
  | lit (b) : HexFrag (.lit b)
  | masked (v m) : HexFrag (.masked v m)
  | notLit (b) : HexFrag (.notLit b)
  | maskedNot (v m) : HexFrag (.maskedNot v m)
  | any : HexFrag .any
  | cat {a b} : HexFrag a → HexFrag b → HexFrag (.cat a b)
  | alt {a b} : HexFrag a → HexFrag b → HexFrag (.alt a b)

/-- length of the emitted code -/
def clen : Re → Nat
  | .lit _ => 2 | .notLit _ => 2 | .masked _ _ => 3 | .maskedNot _ _ => 3 | .any => 1
  | .cat a b => clen a + clen b
  | .alt a b => 4 + clen a + 3 + clen b
  | _ => 0

/-- `code[a..b)` decodes to the emission of `r` (forward code) -/
inductive Seg (code : Code) : Re → Nat → Nat → Prop
  | lit {a : Nat} {b : UInt8} : u8 code a = OP_LITERAL → u8 code (a + 1) = b.toNat → Seg code (.lit b) a (a + 2)
  | notLit {a : Nat} {b : UInt8} : u8 code a = OP_NOT_LITERAL → u8 code (a + 1) = b.toNat → Seg code (.notLit b) a (a + 2)
  | masked {a : Nat} {v m : UInt8} : u8 code a = OP_MASKED_LITERAL → u8 code (a + 1) = v.toNat → u8 code (a + 2) = m.toNat →
      Seg code (.masked v m) a (a + 3)
  | maskedNot {a : Nat} {v m : UInt8} : u8 code a = OP_MASKED_NOT_LITERAL → u8 code (a + 1) = v.toNat → u8 code (a + 2) = m.toNat →
      Seg code (.maskedNot v m) a (a + 3)
  | any {a : Nat} : u8 code a = OP_ANY → Seg code .any a (a + 1)
  | cat {x y : Re} {a m b : Nat} : Seg code x a m → Seg code y m b → Seg code (.cat x y) a b
  | alt {x y : Re} {a m b : Nat} : u8 code a = OP_SPLIT_A → addOff a (i16 code (a + 2)) = m + 3 → Seg code x (a + 4) m →
      u8 code m = OP_JUMP → addOff m (i16 code (m + 1)) = b → Seg code y (m + 3) b → Seg code (.alt x y) a b

theorem Seg.len {code : Code} {r : Re} {a b : Nat} (h : Seg code r a b) : b = a + clen r := by
  induction h with
  | lit _ _ | notLit _ _ | masked _ _ _ | maskedNot _ _ _ | any _ => simp [clen]
  | cat _ _ ih1 ih2 => simp only [clen]; omega
  | alt _ _ _ _ _ _ ih1 ih2 => simp only [clen]; omega

theorem Seg.pos {code : Code} {r : Re} {a b : Nat} (h : Seg code r a b) : a < b := by
  induction h with
  | lit _ _ | notLit _ _ | masked _ _ _ | maskedNot _ _ _ | any _ => omega
  | cat _ _ ih1 ih2 => omega
  | alt _ _ _ _ _ _ ih1 ih2 => omega

abbrev Lang := Nat → Nat → Prop

/-- language accepted from instruction address `ip` inside the code of `r` placed at `a`, when `K` is accepted at its end -/
def lang (fl : Flags) (buf : Bytes) : Re → Nat → Lang → Nat → Lang
  | .cat x y, a, K, ip =>
      let m := a + clen x
      if ip < m then lang fl buf x a (lang fl buf y m K m) ip else lang fl buf y m K ip
  | .alt x y, a, K, ip =>
      let m := a + 4 + clen x
      if ip = a then fun q q' => lang fl buf x (a + 4) K (a + 4) q q' ∨ lang fl buf y (m + 3) K (m + 3) q q'
      else if ip < m then lang fl buf x (a + 4) K ip
      else if ip = m then K
      else lang fl buf y (m + 3) K ip
  | r, a, K, ip => if ip = a then fun q q' => ∃ t, Re.Matches fl buf r q t ∧ K t q' else K

section
variable (fl : Flags) (buf : Bytes)

/-- the entry language of a segment is the specification of its expression followed by the continuation -/
theorem lang_entry {code : Code} {r : Re} {a b : Nat} (hs : Seg code r a b) (K : Lang) (q q' : Nat) :
    lang fl buf r a K a q q' → ∃ t, Re.Matches fl buf r q t ∧ K t q' := by
  induction hs generalizing K q q' with
  | lit _ _ | notLit _ _ | masked _ _ _ | maskedNot _ _ _ | any _ => simp [lang]
  | @cat x y a m b h1 h2 ih1 ih2 =>
    intro h
    have hm : m = a + clen x := h1.len
    have hlt : a < a + clen x := by have := h1.pos; omega
    simp only [lang, hlt, if_true] at h
    obtain ⟨t, ht, hk⟩ := ih1 _ _ _ h
    rw [← hm] at hk
    obtain ⟨t2, ht2, hk2⟩ := ih2 _ _ _ hk
    exact ⟨t2, .cat ht ht2, hk2⟩
  | @alt x y a m b _ _ h1 _ _ h2 ih1 ih2 =>
    intro h
    have hm : m = a + 4 + clen x := by have := h1.len; omega
    simp only [lang, if_true] at h
    rw [← hm] at h
    rcases h with h | h
    · obtain ⟨t, ht, hk⟩ := ih1 _ _ _ h
      exact ⟨t, .altL ht, hk⟩
    · obtain ⟨t, ht, hk⟩ := ih2 _ _ _ h
      exact ⟨t, .altR ht, hk⟩

/-- at the end address of a segment the language is the continuation -/
theorem lang_end {code : Code} {r : Re} {a b : Nat} (hs : Seg code r a b) (K : Lang) : lang fl buf r a K b = K := by
  induction hs generalizing K with
  | lit _ _ | notLit _ _ | masked _ _ _ | maskedNot _ _ _ | any _ => simp [lang]
  | @cat x y a m b h1 h2 ih1 ih2 =>
    have hm : m = a + clen x := h1.len
    have : ¬ b < a + clen x := by have := h2.pos; omega
    simp only [lang, this, if_false]
    rw [← hm]; exact ih2 K
  | @alt x y a m b _ _ h1 _ _ h2 ih1 ih2 =>
    have hm : m = a + 4 + clen x := by have := h1.len; omega
    have p1 := h1.pos
    have p2 := h2.pos
    have c1 : ¬ b = a := by omega
    have c2 : ¬ b < a + 4 + clen x := by omega
    have c3 : ¬ b = a + 4 + clen x := by omega
    simp only [lang, c1, c2, c3, if_false]
    rw [← hm]; exact ih2 K

end

/-- VM flags of a forward, non-scanning run in byte mode and the specification flags they correspond to -/
def specFlags (v : VmFlags) : Flags := { wide := false, nocase := v.nocase, dotall := v.dotall }

structure FwdByte (e : Env) : Prop where
  notWide : e.fl.wide = false
  notBack : e.fl.backwards = false
  notScan : e.fl.scan = false
  startIn : e.start ≤ e.buf.size

theorem cs_one {e : Env} (h : FwdByte e) : e.cs = 1 := by simp [Env.cs, h.notWide]
theorem inp_fwd {e : Env} (h : FwdByte e) (bm : Nat) : e.inp bm = ((e.start + bm : Nat) : Int) := by
  simp [Env.inp, h.notBack]

/-- a successful consuming step reads a byte inside the buffer -/
theorem consume_in_buf {e : Env} (h : FwdByte e) {bm : Nat} {f : Fiber} (hc : consumeOk e bm f = true) :
    e.start + bm < e.buf.size := by
  unfold consumeOk at hc
  simp only [Bool.and_eq_true, Bool.not_eq_true', Bool.or_eq_false_iff, decide_eq_false_iff_not] at hc
  have h1 := hc.1.1
  unfold Env.maxBytes at h1
  simp only [h.notBack, Bool.false_eq_true, if_false, cs_one h, Nat.mod_one, Nat.sub_zero] at h1
  unfold Env.fwdSize at h1
  omega

theorem byteAt_eq {buf : Bytes} {i : Nat} (h : i < buf.size) : buf[i]? = some (byteAt buf (i : Int)) := by
  unfold byteAt
  have : ¬ ((i : Int) < 0) := by omega
  simp only [this, if_false, Int.toNat_natCast]
  rw [Array.getElem?_eq_getElem h]; simp

/-- spec-side acceptance of the byte at `q` -/
theorem charOk_of {fl : Flags} (hw : fl.wide = false) {buf : Bytes} {t : UInt8 → Bool} {q : Nat} (hq : q < buf.size)
    (ht : t (byteAt buf (q : Int)) = true) : charOk fl buf t q = true := by
  unfold charOk
  rw [byteAt_eq hq]
  simp [hw, ht]


/-! ### instruction start addresses -/
def isStart : Re → Nat → Nat → Prop
  | .cat x y, a, ip => isStart x a ip ∨ isStart y (a + clen x) ip
  | .alt x y, a, ip => ip = a ∨ isStart x (a + 4) ip ∨ ip = a + 4 + clen x ∨ isStart y (a + 4 + clen x + 3) ip
  | _, a, ip => ip = a

theorem isStart_range {code : Code} {r : Re} {a b : Nat} (hs : Seg code r a b) {ip : Nat} (h : isStart r a ip) : a ≤ ip ∧ ip < b := by
  induction hs generalizing ip with
  | lit _ _ | notLit _ _ | masked _ _ _ | maskedNot _ _ _ | any _ => simp only [isStart] at h; omega
  | @cat x y a m b h1 h2 ih1 ih2 =>
    have hm : m = a + clen x := h1.len
    have p1 := h1.pos; have p2 := h2.pos
    simp only [isStart] at h
    rcases h with h | h
    · have := ih1 h; omega
    · rw [← hm] at h; have := ih2 h; omega
  | @alt x y a m b _ _ h1 _ _ h2 ih1 ih2 =>
    have hm : m = a + 4 + clen x := by have := h1.len; omega
    have p1 := h1.pos; have p2 := h2.pos
    simp only [isStart] at h
    rw [← hm] at h
    rcases h with h | h | h | h
    · omega
    · have := ih1 h; omega
    · omega
    · have := ih2 h; omega

theorem isStart_first {code : Code} {r : Re} {a b : Nat} (hs : Seg code r a b) : isStart r a a := by
  induction hs with
  | lit _ _ | notLit _ _ | masked _ _ _ | maskedNot _ _ _ | any _ => simp [isStart]
  | cat _ _ ih1 _ => exact .inl ih1
  | alt _ _ _ _ _ _ _ _ => exact .inl rfl

/-! ### what the ε-steps can be for a known opcode -/
theorem no_estep {code : Code} {f g : Fiber} (h : EStep code f g)
    (hop : u8 code f.ip = OP_LITERAL ∨ u8 code f.ip = OP_NOT_LITERAL ∨ u8 code f.ip = OP_MASKED_LITERAL ∨
      u8 code f.ip = OP_MASKED_NOT_LITERAL ∨ u8 code f.ip = OP_ANY) : False := by
  cases h <;> rename_i h1 <;>
    simp only [OP_LITERAL, OP_NOT_LITERAL, OP_MASKED_LITERAL, OP_MASKED_NOT_LITERAL, OP_ANY, OP_SPLIT_A, OP_SPLIT_B, OP_JUMP,
      OP_REPEAT_START_GREEDY, OP_REPEAT_START_UNGREEDY, OP_REPEAT_END_GREEDY, OP_REPEAT_END_UNGREEDY, OP_REPEAT_ANY_GREEDY,
      OP_REPEAT_ANY_UNGREEDY] at * <;> omega

theorem estep_split {code : Code} {f g : Fiber} (h : EStep code f g) (hop : u8 code f.ip = OP_SPLIT_A) :
    g = { f with ip := f.ip + 4 } ∨ g = { f with ip := addOff f.ip (i16 code (f.ip + 2)) } := by
  cases h with
  | splitNext _ => exact .inl rfl
  | splitJmp _ => exact .inr rfl
  | _ => rename_i h1; simp only [OP_SPLIT_A, OP_SPLIT_B, OP_JUMP, OP_REPEAT_START_GREEDY, OP_REPEAT_START_UNGREEDY, OP_REPEAT_END_GREEDY,
      OP_REPEAT_END_UNGREEDY, OP_REPEAT_ANY_GREEDY, OP_REPEAT_ANY_UNGREEDY] at *; omega

theorem estep_jump {code : Code} {f g : Fiber} (h : EStep code f g) (hop : u8 code f.ip = OP_JUMP) :
    g = { f with ip := addOff f.ip (i16 code (f.ip + 1)) } := by
  cases h with
  | jump _ => rfl
  | _ => rename_i h1; simp only [OP_SPLIT_A, OP_SPLIT_B, OP_JUMP, OP_REPEAT_START_GREEDY, OP_REPEAT_START_UNGREEDY, OP_REPEAT_END_GREEDY,
      OP_REPEAT_END_UNGREEDY, OP_REPEAT_ANY_GREEDY, OP_REPEAT_ANY_UNGREEDY] at *; omega


/-! ### consuming instructions against the specification's one-character tests -/
theorem specFlags_cs (v : VmFlags) : (specFlags v).cs = 1 := rfl

theorem consumeTest_of {e : Env} (h : FwdByte e) {bm : Nat} {f : Fiber} (hc : consumeOk e bm f = true) :
    consumeTest e.code e.fl f.ip e.buf 1 ((e.start + bm : Nat) : Int) = true := by
  unfold consumeOk at hc
  simp only [Bool.and_eq_true] at hc
  have := hc.2
  rwa [cs_one h, inp_fwd h] at this

theorem toNat_beq (c b : UInt8) : (c.toNat == b.toNat) = (c == b) := by
  rw [Bool.eq_iff_iff]; simp [UInt8.toNat_inj]

theorem consume_lit {e : Env} (h : FwdByte e) {bm : Nat} {f : Fiber} {b : UInt8} (hop : u8 e.code f.ip = OP_LITERAL)
    (harg : u8 e.code (f.ip + 1) = b.toNat) (hc : consumeOk e bm f = true) :
    Re.Matches (specFlags e.fl) e.buf (.lit b) (e.start + bm) (e.start + bm + 1) := by
  have hq := consume_in_buf h hc
  have ht := consumeTest_of h hc
  have : Re.Matches (specFlags e.fl) e.buf (.lit b) (e.start + bm) (e.start + bm + (specFlags e.fl).cs) := by
    apply Re.Matches.lit
    apply charOk_of rfl hq
    unfold consumeTest at ht
    simp only [hop, harg, OP_LITERAL, OP_ANY, OP_REPEAT_ANY_GREEDY, OP_REPEAT_ANY_UNGREEDY] at ht
    simp only [Nat.reduceEqDiff, or_self, if_false, if_true] at ht
    unfold testLit specFlags
    simp only
    split at ht
    · rename_i hn; simp only [hn, if_true]; rwa [UInt8.ofNat_toNat] at ht
    · rename_i hn; simp only [hn]; rwa [toNat_beq] at ht
  rwa [specFlags_cs] at this

theorem consume_notLit {e : Env} (h : FwdByte e) {bm : Nat} {f : Fiber} {b : UInt8} (hop : u8 e.code f.ip = OP_NOT_LITERAL)
    (harg : u8 e.code (f.ip + 1) = b.toNat) (hc : consumeOk e bm f = true) :
    Re.Matches (specFlags e.fl) e.buf (.notLit b) (e.start + bm) (e.start + bm + 1) := by
  have hq := consume_in_buf h hc
  have ht := consumeTest_of h hc
  have : Re.Matches (specFlags e.fl) e.buf (.notLit b) (e.start + bm) (e.start + bm + (specFlags e.fl).cs) := by
    apply Re.Matches.notLit
    apply charOk_of rfl hq
    unfold consumeTest at ht
    simp only [hop, harg, OP_NOT_LITERAL, OP_LITERAL, OP_ANY, OP_REPEAT_ANY_GREEDY, OP_REPEAT_ANY_UNGREEDY] at ht
    simp only [Nat.reduceEqDiff, or_self, if_false, if_true] at ht
    simp only [bne_iff_ne, ne_eq] at ht ⊢
    intro heq; apply ht; rw [heq]
  rwa [specFlags_cs] at this

theorem toNat_and_beq (c m v : UInt8) : ((c.toNat &&& m.toNat) == v.toNat) = ((c &&& m) == v) := by
  rw [← UInt8.toNat_and, toNat_beq]

theorem consume_masked {e : Env} (h : FwdByte e) {bm : Nat} {f : Fiber} {v m : UInt8} (hop : u8 e.code f.ip = OP_MASKED_LITERAL)
    (h1 : u8 e.code (f.ip + 1) = v.toNat) (h2 : u8 e.code (f.ip + 2) = m.toNat) (hc : consumeOk e bm f = true) :
    Re.Matches (specFlags e.fl) e.buf (.masked v m) (e.start + bm) (e.start + bm + 1) := by
  have hq := consume_in_buf h hc
  have ht := consumeTest_of h hc
  have : Re.Matches (specFlags e.fl) e.buf (.masked v m) (e.start + bm) (e.start + bm + (specFlags e.fl).cs) := by
    apply Re.Matches.masked
    apply charOk_of rfl hq
    unfold consumeTest at ht
    simp only [hop, h1, h2, OP_MASKED_LITERAL, OP_NOT_LITERAL, OP_LITERAL, OP_ANY, OP_REPEAT_ANY_GREEDY, OP_REPEAT_ANY_UNGREEDY] at ht
    simp only [Nat.reduceEqDiff, or_self, if_false, if_true] at ht
    unfold testMasked
    rwa [toNat_and_beq] at ht
  rwa [specFlags_cs] at this

theorem consume_maskedNot {e : Env} (h : FwdByte e) {bm : Nat} {f : Fiber} {v m : UInt8} (hop : u8 e.code f.ip = OP_MASKED_NOT_LITERAL)
    (h1 : u8 e.code (f.ip + 1) = v.toNat) (h2 : u8 e.code (f.ip + 2) = m.toNat) (hc : consumeOk e bm f = true) :
    Re.Matches (specFlags e.fl) e.buf (.maskedNot v m) (e.start + bm) (e.start + bm + 1) := by
  have hq := consume_in_buf h hc
  have ht := consumeTest_of h hc
  have : Re.Matches (specFlags e.fl) e.buf (.maskedNot v m) (e.start + bm) (e.start + bm + (specFlags e.fl).cs) := by
    apply Re.Matches.maskedNot
    apply charOk_of rfl hq
    unfold consumeTest at ht
    simp only [hop, h1, h2, OP_MASKED_NOT_LITERAL, OP_MASKED_LITERAL, OP_NOT_LITERAL, OP_LITERAL, OP_ANY, OP_REPEAT_ANY_GREEDY,
      OP_REPEAT_ANY_UNGREEDY] at ht
    simp only [Nat.reduceEqDiff, or_self, if_false, if_true] at ht
    unfold testMasked
    simp only [bne_iff_ne, ne_eq, Bool.not_eq_true', beq_eq_false_iff_ne] at ht ⊢
    intro heq; apply ht
    rw [← UInt8.toNat_and, heq]
  rwa [specFlags_cs] at this

theorem consume_any {e : Env} (h : FwdByte e) {bm : Nat} {f : Fiber} (hop : u8 e.code f.ip = OP_ANY) (hc : consumeOk e bm f = true) :
    Re.Matches (specFlags e.fl) e.buf .any (e.start + bm) (e.start + bm + 1) := by
  have hq := consume_in_buf h hc
  have ht := consumeTest_of h hc
  have : Re.Matches (specFlags e.fl) e.buf .any (e.start + bm) (e.start + bm + (specFlags e.fl).cs) := by
    apply Re.Matches.any
    apply charOk_of rfl hq
    unfold consumeTest at ht
    simp only [hop, OP_ANY, true_or, if_true] at ht
    unfold testAny specFlags
    exact ht
  rwa [specFlags_cs] at this


/-! ### one machine step inside a segment keeps the continuation invariant -/
def StepOK (e : Env) (r : Re) (a b : Nat) (K : Lang) (f : Fiber) : Prop :=
  (∀ g, EStep e.code f g → (isStart r a g.ip ∨ g.ip = b) ∧
      ∀ q q', lang (specFlags e.fl) e.buf r a K g.ip q q' → lang (specFlags e.fl) e.buf r a K f.ip q q') ∧
  (∀ bm, isConsuming (u8 e.code f.ip) = true → consumeOk e bm f = true →
      (isStart r a (advance e.code f).ip ∨ (advance e.code f).ip = b) ∧
      ∀ q', lang (specFlags e.fl) e.buf r a K (advance e.code f).ip (e.start + bm + 1) q' →
        lang (specFlags e.fl) e.buf r a K f.ip (e.start + bm) q') ∧
  (isConsuming (u8 e.code f.ip) = false → u8 e.code f.ip = OP_SPLIT_A ∨ u8 e.code f.ip = OP_JUMP)

theorem advance_ip {code : Code} {f : Fiber} {op : Nat} (hop : u8 code f.ip = op)
    (hn : ¬ (op = OP_REPEAT_ANY_GREEDY ∨ op = OP_REPEAT_ANY_UNGREEDY)) : (advance code f).ip = f.ip + sizeOfInstr op := by
  unfold advance
  rw [hop, if_neg hn]

theorem leaf_step (e : Env) (h : FwdByte e) (r : Re) (a n : Nat) (K : Lang) (f : Fiber) (op : Nat)
    (hip : f.ip = a) (hop : u8 e.code a = op)
    (hleaf : op = OP_LITERAL ∨ op = OP_NOT_LITERAL ∨ op = OP_MASKED_LITERAL ∨ op = OP_MASKED_NOT_LITERAL ∨ op = OP_ANY)
    (hsz : sizeOfInstr op = n) (hn : 0 < n)
    (hlang : ∀ ip, lang (specFlags e.fl) e.buf r a K ip = if ip = a then (fun q q' => ∃ t, Re.Matches (specFlags e.fl) e.buf r q t ∧ K t q') else K)
    (hm : ∀ bm, consumeOk e bm f = true → Re.Matches (specFlags e.fl) e.buf r (e.start + bm) (e.start + bm + 1))
    (hstart : ∀ ip, isStart r a ip ↔ ip = a) :
    StepOK e r a (a + n) K f := by
  have hopf : u8 e.code f.ip = op := by rw [hip]; exact hop
  refine ⟨?_, ?_, ?_⟩
  · intro g hg
    exfalso
    apply no_estep hg
    rw [hopf]; exact hleaf
  · intro bm _ hc
    have hadv : (advance e.code f).ip = a + n := by
      rw [advance_ip hopf (by rcases hleaf with h | h | h | h | h <;> subst h <;> simp [OP_LITERAL, OP_NOT_LITERAL, OP_MASKED_LITERAL,
        OP_MASKED_NOT_LITERAL, OP_ANY, OP_REPEAT_ANY_GREEDY, OP_REPEAT_ANY_UNGREEDY]), hip, hsz]
    refine ⟨.inr hadv, ?_⟩
    intro q' hq'
    rw [hadv, hlang] at hq'
    have hne : ¬ (a + n = a) := by omega
    rw [if_neg hne] at hq'
    rw [hip, hlang, if_pos rfl]
    exact ⟨_, hm bm hc, hq'⟩
  · intro hnc
    exfalso
    rw [hopf] at hnc
    rcases hleaf with h | h | h | h | h <;> subst h <;> simp [isConsuming, OP_LITERAL, OP_NOT_LITERAL, OP_MASKED_LITERAL,
      OP_MASKED_NOT_LITERAL, OP_ANY, OP_REPEAT_ANY_GREEDY, OP_REPEAT_ANY_UNGREEDY, OP_CLASS, OP_WORD_CHAR, OP_NON_WORD_CHAR, OP_SPACE,
      OP_NON_SPACE, OP_DIGIT, OP_NON_DIGIT] at hnc

theorem seg_step (e : Env) (h : FwdByte e) {r : Re} {a b : Nat} (hs : Seg e.code r a b) :
    ∀ (K : Lang) (f : Fiber), isStart r a f.ip → StepOK e r a b K f := by
  induction hs with
  | @lit a b h1 h2 =>
    intro K f hst
    simp only [isStart] at hst
    exact leaf_step e h (.lit b) a 2 K f OP_LITERAL hst h1 (.inl rfl) (by simp [sizeOfInstr, OP_LITERAL, OP_NOT_LITERAL]) (by omega)
      (fun ip => by simp [lang]) (fun bm hc => consume_lit h (by rw [hst]; exact h1) (by rw [hst]; exact h2) hc) (fun ip => by simp [isStart])
  | @notLit a b h1 h2 =>
    intro K f hst
    simp only [isStart] at hst
    exact leaf_step e h (.notLit b) a 2 K f OP_NOT_LITERAL hst h1 (.inr (.inl rfl)) (by simp [sizeOfInstr, OP_LITERAL, OP_NOT_LITERAL]) (by omega)
      (fun ip => by simp [lang]) (fun bm hc => consume_notLit h (by rw [hst]; exact h1) (by rw [hst]; exact h2) hc) (fun ip => by simp [isStart])
  | @masked a v m h1 h2 h3 =>
    intro K f hst
    simp only [isStart] at hst
    exact leaf_step e h (.masked v m) a 3 K f OP_MASKED_LITERAL hst h1 (.inr (.inr (.inl rfl)))
      (by simp [sizeOfInstr, OP_LITERAL, OP_NOT_LITERAL, OP_MASKED_LITERAL, OP_MASKED_NOT_LITERAL]) (by omega)
      (fun ip => by simp [lang]) (fun bm hc => consume_masked h (by rw [hst]; exact h1) (by rw [hst]; exact h2) (by rw [hst]; exact h3) hc)
      (fun ip => by simp [isStart])
  | @maskedNot a v m h1 h2 h3 =>
    intro K f hst
    simp only [isStart] at hst
    exact leaf_step e h (.maskedNot v m) a 3 K f OP_MASKED_NOT_LITERAL hst h1 (.inr (.inr (.inr (.inl rfl))))
      (by simp [sizeOfInstr, OP_LITERAL, OP_NOT_LITERAL, OP_MASKED_LITERAL, OP_MASKED_NOT_LITERAL]) (by omega)
      (fun ip => by simp [lang]) (fun bm hc => consume_maskedNot h (by rw [hst]; exact h1) (by rw [hst]; exact h2) (by rw [hst]; exact h3) hc)
      (fun ip => by simp [isStart])
  | @any a h1 =>
    intro K f hst
    simp only [isStart] at hst
    exact leaf_step e h .any a 1 K f OP_ANY hst h1 (.inr (.inr (.inr (.inr rfl))))
      (by simp [sizeOfInstr, OP_LITERAL, OP_NOT_LITERAL, OP_MASKED_LITERAL, OP_MASKED_NOT_LITERAL, OP_ANY, OP_CLASS]) (by omega)
      (fun ip => by simp [lang]) (fun bm hc => consume_any h (by rw [hst]; exact h1) hc) (fun ip => by simp [isStart])
  | @cat x y a m b s1 s2 ih1 ih2 =>
    intro K f hst
    have hm : m = a + clen x := s1.len
    have hb : b = m + clen y := s2.len
    simp only [isStart] at hst
    rw [← hm] at hst
    -- language of the concatenation in terms of its parts
    have hlx : ∀ ip, ip < m → lang (specFlags e.fl) e.buf (.cat x y) a K ip =
        lang (specFlags e.fl) e.buf x a (lang (specFlags e.fl) e.buf y m K m) ip := by
      intro ip hip; simp only [lang]; rw [← hm, if_pos hip]
    have hly : ∀ ip, m ≤ ip → lang (specFlags e.fl) e.buf (.cat x y) a K ip = lang (specFlags e.fl) e.buf y m K ip := by
      intro ip hip; simp only [lang]; rw [← hm, if_neg (by omega)]
    have hxm : lang (specFlags e.fl) e.buf x a (lang (specFlags e.fl) e.buf y m K m) m = lang (specFlags e.fl) e.buf y m K m :=
      lang_end _ _ s1 _
    -- successors of an instruction of x, seen from the concatenation
    have liftx : ∀ ip', (isStart x a ip' ∨ ip' = m) → (isStart (.cat x y) a ip' ∨ ip' = b) ∧
        lang (specFlags e.fl) e.buf (.cat x y) a K ip' = lang (specFlags e.fl) e.buf x a (lang (specFlags e.fl) e.buf y m K m) ip' := by
      intro ip' hip'
      rcases hip' with h1 | h1
      · exact ⟨.inl (.inl h1), hlx ip' (isStart_range s1 h1).2⟩
      · subst h1
        refine ⟨.inl (.inr (by rw [← hm]; exact isStart_first s2)), ?_⟩
        rw [hly _ (Nat.le_refl _), hxm]
    have lifty : ∀ ip', (isStart y m ip' ∨ ip' = b) → (isStart (.cat x y) a ip' ∨ ip' = b) ∧
        lang (specFlags e.fl) e.buf (.cat x y) a K ip' = lang (specFlags e.fl) e.buf y m K ip' := by
      intro ip' hip'
      rcases hip' with h1 | h1
      · exact ⟨.inl (.inr (by rw [← hm]; exact h1)), hly ip' (isStart_range s2 h1).1⟩
      · subst h1
        exact ⟨.inr rfl, hly _ (by have := s2.pos; omega)⟩
    rcases hst with hst | hst
    · have hlt := (isStart_range s1 hst).2
      obtain ⟨e1, e2, e3⟩ := ih1 (lang (specFlags e.fl) e.buf y m K m) f hst
      refine ⟨?_, ?_, e3⟩
      · intro g hg
        obtain ⟨g1, g2⟩ := e1 g hg
        obtain ⟨l1, l2⟩ := liftx g.ip g1
        refine ⟨l1, ?_⟩
        intro q q' hq
        rw [hlx _ hlt]; rw [l2] at hq; exact g2 q q' hq
      · intro bm hc1 hc2
        obtain ⟨g1, g2⟩ := e2 bm hc1 hc2
        obtain ⟨l1, l2⟩ := liftx _ g1
        refine ⟨l1, ?_⟩
        intro q' hq
        rw [hlx _ hlt]; rw [l2] at hq; exact g2 q' hq
    · have hge := (isStart_range s2 hst).1
      obtain ⟨e1, e2, e3⟩ := ih2 K f hst
      refine ⟨?_, ?_, e3⟩
      · intro g hg
        obtain ⟨g1, g2⟩ := e1 g hg
        obtain ⟨l1, l2⟩ := lifty g.ip g1
        refine ⟨l1, ?_⟩
        intro q q' hq
        rw [hly _ hge]; rw [l2] at hq; exact g2 q q' hq
      · intro bm hc1 hc2
        obtain ⟨g1, g2⟩ := e2 bm hc1 hc2
        obtain ⟨l1, l2⟩ := lifty _ g1
        refine ⟨l1, ?_⟩
        intro q' hq
        rw [hly _ hge]; rw [l2] at hq; exact g2 q' hq
  | @alt x y a m b o1 o2 s1 o3 o4 s2 ih1 ih2 =>
    intro K f hst
    have hm : m = a + 4 + clen x := by have := s1.len; omega
    have p1 := s1.pos
    have p2 := s2.pos
    simp only [isStart] at hst
    rw [← hm] at hst
    have hla : lang (specFlags e.fl) e.buf (.alt x y) a K a = fun q q' =>
        lang (specFlags e.fl) e.buf x (a + 4) K (a + 4) q q' ∨ lang (specFlags e.fl) e.buf y (m + 3) K (m + 3) q q' := by
      simp only [lang, if_true]; rw [← hm]
    have hlx : ∀ ip, a < ip → ip < m → lang (specFlags e.fl) e.buf (.alt x y) a K ip = lang (specFlags e.fl) e.buf x (a + 4) K ip := by
      intro ip h1 h2; simp only [lang]; rw [← hm, if_neg (by omega), if_pos h2]
    have hlm : lang (specFlags e.fl) e.buf (.alt x y) a K m = K := by
      simp only [lang]; rw [← hm, if_neg (by omega), if_neg (by omega), if_pos rfl]
    have hly : ∀ ip, m < ip → lang (specFlags e.fl) e.buf (.alt x y) a K ip = lang (specFlags e.fl) e.buf y (m + 3) K ip := by
      intro ip h1; simp only [lang]; rw [← hm, if_neg (by omega), if_neg (by omega), if_neg (by omega)]
    have hxm : lang (specFlags e.fl) e.buf x (a + 4) K m = K := lang_end _ _ s1 _
    have hyb : lang (specFlags e.fl) e.buf y (m + 3) K b = K := lang_end _ _ s2 _
    have liftx : ∀ ip', (isStart x (a + 4) ip' ∨ ip' = m) → (isStart (.alt x y) a ip' ∨ ip' = b) ∧
        lang (specFlags e.fl) e.buf (.alt x y) a K ip' = lang (specFlags e.fl) e.buf x (a + 4) K ip' := by
      intro ip' hip'
      rcases hip' with h1 | h1
      · have r := isStart_range s1 h1
        exact ⟨.inl (.inr (.inl h1)), hlx ip' (by omega) r.2⟩
      · subst h1
        exact ⟨.inl (.inr (.inr (.inl hm))), by rw [hlm, hxm]⟩
    have lifty : ∀ ip', (isStart y (m + 3) ip' ∨ ip' = b) → (isStart (.alt x y) a ip' ∨ ip' = b) ∧
        lang (specFlags e.fl) e.buf (.alt x y) a K ip' = lang (specFlags e.fl) e.buf y (m + 3) K ip' := by
      intro ip' hip'
      rcases hip' with h1 | h1
      · have r := isStart_range s2 h1
        exact ⟨.inl (.inr (.inr (.inr (by rw [← hm]; exact h1)))), hly ip' (by omega)⟩
      · subst h1
        exact ⟨.inr rfl, hly _ (by omega)⟩
    rcases hst with hst | hst | hst | hst
    · -- the split instruction
      have hop : u8 e.code f.ip = OP_SPLIT_A := by rw [hst]; exact o1
      refine ⟨?_, ?_, fun _ => .inl hop⟩
      · intro g hg
        rcases estep_split hg hop with rfl | rfl
        · simp only
          rw [hst]
          obtain ⟨l1, l2⟩ := liftx (a + 4) (.inl (isStart_first s1))
          refine ⟨l1, ?_⟩
          intro q q' hq
          rw [hla]; rw [l2] at hq; exact .inl hq
        · simp only
          rw [hst, o2]
          obtain ⟨l1, l2⟩ := lifty (m + 3) (.inl (isStart_first s2))
          refine ⟨l1, ?_⟩
          intro q q' hq
          rw [hla]; rw [l2] at hq; exact .inr hq
      · intro bm hc
        rw [hop] at hc
        simp [isConsuming, OP_SPLIT_A, OP_ANY, OP_REPEAT_ANY_GREEDY, OP_REPEAT_ANY_UNGREEDY, OP_LITERAL, OP_NOT_LITERAL, OP_MASKED_LITERAL,
          OP_MASKED_NOT_LITERAL, OP_CLASS, OP_WORD_CHAR, OP_NON_WORD_CHAR, OP_SPACE, OP_NON_SPACE, OP_DIGIT, OP_NON_DIGIT] at hc
    · have r := isStart_range s1 hst
      obtain ⟨e1, e2, e3⟩ := ih1 K f hst
      refine ⟨?_, ?_, e3⟩
      · intro g hg
        obtain ⟨g1, g2⟩ := e1 g hg
        obtain ⟨l1, l2⟩ := liftx g.ip g1
        refine ⟨l1, ?_⟩
        intro q q' hq
        rw [hlx _ (by omega) r.2]; rw [l2] at hq; exact g2 q q' hq
      · intro bm hc1 hc2
        obtain ⟨g1, g2⟩ := e2 bm hc1 hc2
        obtain ⟨l1, l2⟩ := liftx _ g1
        refine ⟨l1, ?_⟩
        intro q' hq
        rw [hlx _ (by omega) r.2]; rw [l2] at hq; exact g2 q' hq
    · -- the jump after the first alternative
      have hop : u8 e.code f.ip = OP_JUMP := by rw [hst]; exact o3
      refine ⟨?_, ?_, fun _ => .inr hop⟩
      · intro g hg
        rw [estep_jump hg hop]
        simp only
        rw [hst, o4]
        refine ⟨.inr rfl, ?_⟩
        intro q q' hq
        rw [hlm]; rw [hly _ (by omega), hyb] at hq; exact hq
      · intro bm hc
        rw [hop] at hc
        simp [isConsuming, OP_JUMP, OP_ANY, OP_REPEAT_ANY_GREEDY, OP_REPEAT_ANY_UNGREEDY, OP_LITERAL, OP_NOT_LITERAL, OP_MASKED_LITERAL,
          OP_MASKED_NOT_LITERAL, OP_CLASS, OP_WORD_CHAR, OP_NON_WORD_CHAR, OP_SPACE, OP_NON_SPACE, OP_DIGIT, OP_NON_DIGIT] at hc
    · have r := isStart_range s2 hst
      obtain ⟨e1, e2, e3⟩ := ih2 K f hst
      refine ⟨?_, ?_, e3⟩
      · intro g hg
        obtain ⟨g1, g2⟩ := e1 g hg
        obtain ⟨l1, l2⟩ := lifty g.ip g1
        refine ⟨l1, ?_⟩
        intro q q' hq
        rw [hly _ (by omega)]; rw [l2] at hq; exact g2 q q' hq
      · intro bm hc1 hc2
        obtain ⟨g1, g2⟩ := e2 bm hc1 hc2
        obtain ⟨l1, l2⟩ := lifty _ g1
        refine ⟨l1, ?_⟩
        intro q' hq
        rw [hly _ (by omega)]; rw [l2] at hq; exact g2 q' hq


/-! ### the reachability invariant for a whole program `emit r ++ [MATCH]` -/
def Keps : Lang := fun q q' => q = q'

theorem no_estep_match {code : Code} {f g : Fiber} (h : EStep code f g) (hop : u8 code f.ip = OP_MATCH) : False := by
  cases h <;> rename_i h1 <;>
    simp only [OP_MATCH, OP_SPLIT_A, OP_SPLIT_B, OP_JUMP, OP_REPEAT_START_GREEDY, OP_REPEAT_START_UNGREEDY, OP_REPEAT_END_GREEDY,
      OP_REPEAT_END_UNGREEDY, OP_REPEAT_ANY_GREEDY, OP_REPEAT_ANY_UNGREEDY] at * <;> omega

theorem start_not_match (e : Env) (h : FwdByte e) {r : Re} {n : Nat} (hs : Seg e.code r 0 n) {f : Fiber} (hst : isStart r 0 f.ip) :
    u8 e.code f.ip ≠ OP_MATCH := by
  obtain ⟨_, _, e3⟩ := seg_step e h hs Keps f hst
  intro hm
  by_cases hc : isConsuming (u8 e.code f.ip) = true
  · rw [hm] at hc
    simp [isConsuming, OP_MATCH, OP_ANY, OP_REPEAT_ANY_GREEDY, OP_REPEAT_ANY_UNGREEDY, OP_LITERAL, OP_NOT_LITERAL, OP_MASKED_LITERAL,
      OP_MASKED_NOT_LITERAL, OP_CLASS, OP_WORD_CHAR, OP_NON_WORD_CHAR, OP_SPACE, OP_NON_SPACE, OP_DIGIT, OP_NON_DIGIT] at hc
  · rcases e3 (by simpa using hc) with h1 | h1 <;> rw [hm] at h1 <;> simp [OP_MATCH, OP_SPLIT_A, OP_JUMP] at h1

theorem reach_lang (e : Env) (h : FwdByte e) {r : Re} {n : Nat} (hs : Seg e.code r 0 n) (hmatch : u8 e.code n = OP_MATCH)
    (hentry : e.entry = 0) {f : Fiber} {bm : Nat} (hr : Reach e f bm) :
    (isStart r 0 f.ip ∨ f.ip = n) ∧
      ∀ q', lang (specFlags e.fl) e.buf r 0 Keps f.ip (e.start + bm) q' → lang (specFlags e.fl) e.buf r 0 Keps 0 e.start q' := by
  induction hr with
  | start =>
    simp only [hentry]
    exact ⟨.inl (isStart_first hs), fun q' hq => by simpa using hq⟩
  | scanStart bm hsc => rw [h.notScan] at hsc; simp at hsc
  | @eps f g bm _ hstep ih =>
    obtain ⟨hpos, hl⟩ := ih
    rcases hpos with hst | hend
    · obtain ⟨e1, _, _⟩ := seg_step e h hs Keps f hst
      obtain ⟨g1, g2⟩ := e1 g hstep
      exact ⟨g1, fun q' hq => hl q' (g2 _ q' hq)⟩
    · exact absurd hstep (fun hh => no_estep_match hh (by rw [hend]; exact hmatch))
  | @zw f bm _ hnc hnm hz ih =>
    obtain ⟨hpos, _⟩ := ih
    exfalso
    rcases hpos with hst | hend
    · obtain ⟨_, _, e3⟩ := seg_step e h hs Keps f hst
      rcases e3 hnc with h1 | h1 <;> rw [h1] at hz <;>
        simp [zeroWidthOk, OP_SPLIT_A, OP_JUMP, OP_WORD_BOUNDARY, OP_NON_WORD_BOUNDARY, OP_MATCH_AT_START, OP_MATCH_AT_END] at hz
    · exact hnm (by rw [hend]; exact hmatch)
  | @cons f bm _ hc hok ih =>
    obtain ⟨hpos, hl⟩ := ih
    rcases hpos with hst | hend
    · obtain ⟨_, e2, _⟩ := seg_step e h hs Keps f hst
      obtain ⟨g1, g2⟩ := e2 bm hc hok
      refine ⟨g1, ?_⟩
      intro q' hq
      apply hl q'
      apply g2 q'
      rw [cs_one h] at hq
      rwa [← Nat.add_assoc] at hq
    · exfalso
      rw [hend, hmatch] at hc
      simp [isConsuming, OP_MATCH, OP_ANY, OP_REPEAT_ANY_GREEDY, OP_REPEAT_ANY_UNGREEDY, OP_LITERAL, OP_NOT_LITERAL, OP_MASKED_LITERAL,
        OP_MASKED_NOT_LITERAL, OP_CLASS, OP_WORD_CHAR, OP_NON_WORD_CHAR, OP_SPACE, OP_NON_SPACE, OP_DIGIT, OP_NON_DIGIT] at hc

/-- a reachable fiber at RE_OPCODE_MATCH after `L` bytes: the pattern matches `[start, start+L)` -/
theorem match_sound (e : Env) (h : FwdByte e) {r : Re} {n : Nat} (hs : Seg e.code r 0 n) (hmatch : u8 e.code n = OP_MATCH)
    (hentry : e.entry = 0) {f : Fiber} {L : Nat} (hr : Reach e f L) (hm : u8 e.code f.ip = OP_MATCH) :
    Re.Matches (specFlags e.fl) e.buf r e.start (e.start + L) := by
  obtain ⟨hpos, hl⟩ := reach_lang e h hs hmatch hentry hr
  rcases hpos with hst | hend
  · exact absurd hm (start_not_match e h hs hst)
  · have hk : lang (specFlags e.fl) e.buf r 0 Keps f.ip (e.start + L) (e.start + L) := by
      rw [hend, lang_end _ _ hs]; rfl
    obtain ⟨t, ht, hkt⟩ := lang_entry _ _ hs Keps _ _ (hl _ hk)
    simp only [Keps] at hkt
    rwa [hkt] at ht


/-! ### the emitted bytes decode to a segment -/
/-- `code` contains the byte list `bs` at address `a` -/
def Sub (code : Code) (a : Nat) (bs : List UInt8) : Prop := ∀ i, i < bs.length → u8 code (a + i) = (bs[i]?.getD 0).toNat

theorem sub_append {code : Code} {a : Nat} {x y : List UInt8} (h : Sub code a (x ++ y)) : Sub code a x ∧ Sub code (a + x.length) y := by
  constructor
  · intro i hi
    have := h i (by simp; omega)
    rwa [List.getElem?_append_left hi] at this
  · intro i hi
    have := h (x.length + i) (by simp; omega)
    rw [List.getElem?_append_right (by omega)] at this
    have e1 : x.length + i - x.length = i := by omega
    rw [e1, ← Nat.add_assoc] at this
    exact this

theorem sub_whole (bs : List UInt8) : Sub bs.toArray 0 bs := by
  intro i _
  simp [u8]

theorem emit_len {r : Re} (hf : HexFrag r) : ∀ s, (emit false r s).1.length = clen r := by
  induction hf with
  | lit _ | masked _ _ | notLit _ | maskedNot _ _ | any => intro s; simp [emit, clen]
  | cat _ _ ih1 ih2 =>
    intro s
    simp only [emit, Bool.false_eq_true, if_false, clen, List.length_append]
    rw [ih1, ih2]
  | alt _ _ ih1 ih2 =>
    intro s
    simp only [emit, clen, List.length_append, List.length_cons, List.length_nil, leI16, le16]
    rw [ih1, ih2]

theorem leI16_length (i : Int) : (leI16 i).length = 2 := by simp [leI16, le16]

theorem i16_of_bytes {code : Code} {a n : Nat} (hn : n < 32768) (h0 : u8 code a = n % 256) (h1 : u8 code (a + 1) = n / 256 % 256) :
    i16 code a = (n : Int) := by
  unfold i16 u16
  rw [h0, h1]
  have : n % 256 + 256 * (n / 256 % 256) = n := by omega
  simp only [this]
  have : ¬ n ≥ 32768 := by omega
  simp [this]

theorem sub_leI16 {code : Code} {a n : Nat} (hn : n < 32768) (h : Sub code a (leI16 (n : Int))) : i16 code a = (n : Int) := by
  have e : leI16 (n : Int) = [UInt8.ofNat (n % 256), UInt8.ofNat (n / 256 % 256)] := by
    unfold leI16 le16
    have : ((n : Int) % 65536).toNat = n := by omega
    rw [this]
  rw [e] at h
  have h0 := h 0 (by simp)
  have h1 := h 1 (by simp)
  simp only [Nat.add_zero, List.getElem?_cons_zero, Option.getD_some, List.getElem?_cons_succ] at h0 h1
  apply i16_of_bytes hn
  · rw [h0]; simp
  · rw [h1]; simp

theorem seg_of_emit {r : Re} (hf : HexFrag r) : ∀ (s : Nat) (code : Code) (a : Nat), clen r < 32000 →
    Sub code a (emit false r s).1 → Seg code r a (a + clen r) := by
  induction hf with
  | lit b =>
    intro s code a _ h
    simp only [emit] at h
    have h0 := h 0 (by simp); have h1 := h 1 (by simp)
    simp at h0 h1
    exact .lit (by rw [h0]; rfl) h1
  | notLit b =>
    intro s code a _ h
    simp only [emit] at h
    have h0 := h 0 (by simp); have h1 := h 1 (by simp)
    simp at h0 h1
    exact .notLit (by rw [h0]; rfl) h1
  | masked v m =>
    intro s code a _ h
    simp only [emit] at h
    have h0 := h 0 (by simp); have h1 := h 1 (by simp); have h2 := h 2 (by simp)
    simp at h0 h1 h2
    exact .masked (by rw [h0]; rfl) h1 h2
  | maskedNot v m =>
    intro s code a _ h
    simp only [emit] at h
    have h0 := h 0 (by simp); have h1 := h 1 (by simp); have h2 := h 2 (by simp)
    simp at h0 h1 h2
    exact .maskedNot (by rw [h0]; rfl) h1 h2
  | any =>
    intro s code a _ h
    simp only [emit] at h
    have h0 := h 0 (by simp)
    simp at h0
    exact .any (by rw [h0]; rfl)
  | @cat x y hx hy ih1 ih2 =>
    intro s code a hsz h
    simp only [clen] at hsz ⊢
    simp only [emit, Bool.false_eq_true, if_false] at h
    obtain ⟨h1, h2⟩ := sub_append h
    rw [emit_len hx] at h2
    have := Seg.cat (ih1 s code a (by omega) h1) (ih2 _ code (a + clen x) (by omega) h2)
    rwa [Nat.add_assoc] at this
  | @alt x y hx hy ih1 ih2 =>
    intro s code a hsz h
    simp only [clen] at hsz ⊢
    simp only [emit] at h
    -- [C0, id] ++ off16 ++ ca ++ [C2] ++ off16' ++ cb
    obtain ⟨h12, hcb⟩ := sub_append h
    obtain ⟨h123, hoff2⟩ := sub_append h12
    obtain ⟨h1234, hjmp⟩ := sub_append h123
    obtain ⟨h12', hca⟩ := sub_append h1234
    obtain ⟨hhead, hoff1⟩ := sub_append h12'
    simp only [List.length_append, List.length_cons, List.length_nil, leI16_length, emit_len hx, emit_len hy] at hcb hoff2 hjmp hca hoff1
    have hop : u8 code a = OP_SPLIT_A := by
      have := hhead 0 (by simp); simp at this; rw [this]; rfl
    have hj : u8 code (a + 4 + clen x) = OP_JUMP := by
      have := hjmp 0 (by simp)
      simp at this
      have e1 : a + (0 + 1 + 1 + (0 + 1 + 1) + clen x) = a + 4 + clen x := by omega
      rw [e1] at this; rw [this]; rfl
    have ho1 : i16 code (a + 2) = ((4 + clen x + 3 : Nat) : Int) := by
      apply sub_leI16 (by omega)
      have e1 : a + (0 + 1 + 1) = a + 2 := by omega
      rw [e1] at hoff1
      have e2 : ((4 + clen x + 3 : Nat) : Int) = 4 + (clen x : Int) + 3 := by omega
      rw [e2]; exact hoff1
    have ho2 : i16 code (a + 4 + clen x + 1) = ((3 + clen y : Nat) : Int) := by
      apply sub_leI16 (by omega)
      have e1 : a + (0 + 1 + 1 + (0 + 1 + 1) + clen x + (0 + 1)) = a + 4 + clen x + 1 := by omega
      rw [e1] at hoff2
      have e2 : ((3 + clen y : Nat) : Int) = 3 + (clen y : Int) := by omega
      rw [e2]; exact hoff2
    have sx : Seg code x (a + 4) (a + 4 + clen x) := by
      apply ih1 (s + 1) code (a + 4) (by omega)
      have e1 : a + (0 + 1 + 1 + (0 + 1 + 1)) = a + 4 := by omega
      rw [e1] at hca; exact hca
    have sy : Seg code y (a + 4 + clen x + 3) (a + 4 + clen x + 3 + clen y) := by
      apply ih2 _ code (a + 4 + clen x + 3) (by omega)
      have e1 : a + (0 + 1 + 1 + (0 + 1 + 1) + clen x + (0 + 1) + (0 + 1 + 1)) = a + 4 + clen x + 3 := by omega
      rw [e1] at hcb; exact hcb
    have := Seg.alt (code := code) (x := x) (y := y) (a := a) (m := a + 4 + clen x) (b := a + 4 + clen x + 3 + clen y) hop
      (by rw [ho1]; unfold addOff; omega) sx hj (by rw [ho2]; unfold addOff; omega) sy
    have e3 : a + (4 + clen x + 3 + clen y) = a + 4 + clen x + 3 + clen y := by omega
    rw [e3]; exact this


/-- soundness of the VM on the code emitted for a jump-free hex pattern (byte mode, forwards, any nocase / dot-all flags,
    exhaustive or not): every reported length is a match length of the pattern at the start position -/
theorem vm_sound_hex (r : Re) (hf : HexFrag r) (hsz : clen r < 32000) (buf : Bytes) (start : Nat) (hst : start ≤ buf.size)
    (fl : VmFlags) (hw : fl.wide = false) (hb : fl.backwards = false) (hsc : fl.scan = false) (fuel : Nat) (m : Int) (c : List Nat)
    (h : exec { code := (emitCode false r).toArray, entry := 0, buf := buf, start := start, fl := fl, syncFuel := fuel } = .done m c) :
    (∀ L, L ∈ c → Re.Matches (specFlags fl) buf r start (start + L)) ∧
    (0 ≤ m → Re.Matches (specFlags fl) buf r start (start + m.toNat)) := by
  obtain ⟨e, he⟩ : ∃ e : Env, e = { code := (emitCode false r).toArray, entry := 0, buf := buf, start := start, fl := fl, syncFuel := fuel } := ⟨_, rfl⟩
  rw [← he] at h
  have hfb : FwdByte e := by subst he; exact ⟨hw, hb, hsc, hst⟩
  have hsub : Sub e.code 0 ((emit false r 0).1 ++ [0xAD]) := by subst he; exact sub_whole _
  obtain ⟨h1, h2⟩ := sub_append hsub
  have hseg : Seg e.code r 0 (clen r) := by
    have := seg_of_emit hf 0 e.code 0 hsz h1
    simpa using this
  have hmatch : u8 e.code (clen r) = OP_MATCH := by
    have := h2 0 (by simp)
    rw [emit_len hf] at this
    simp at this
    rw [this]; rfl
  have hentry : e.entry = 0 := by subst he; rfl
  have hbuf : e.buf = buf := by subst he; rfl
  have hstart : e.start = start := by subst he; rfl
  have hfl : e.fl = fl := by subst he; rfl
  obtain ⟨g1, g2⟩ := exec_sound e m c h
  constructor
  · intro L hL
    obtain ⟨f, hr, hm⟩ := g1 L hL
    have := match_sound e hfb hseg hmatch hentry hr hm
    rwa [hbuf, hstart, hfl] at this
  · intro hm0
    obtain ⟨f, hr, hm⟩ := g2 hm0
    have := match_sound e hfb hseg hmatch hentry hr hm
    rwa [hbuf, hstart, hfl] at this

end YaraModel.ReEmit
