/-
  Compiler correctness (soundness direction) for the hex fragment without jumps:
  literal / masked literal / not-literal / masked-not-literal / any, concatenation, alternation.

  `Seg code r a b` : the bytes `code[a..b)` decode to the emission of `r`.
  `lang`           : the language accepted from every instruction address (continuation semantics).
  `reach_lang`     : every reachable configuration of the abstract machine (Lemmas/ReVm.lean) keeps the invariant
                     "whatever can still be accepted from here extends to a match of the whole pattern".
-/
import YaraModel.Lemmas.ReVm
import YaraModel.Model.ReEmit
import YaraModel.Lemmas.ReAlgebra
namespace YaraModel.ReEmit
open YaraModel.Re YaraModel.ReVm

/-- the fragment covered by the VM soundness proof: every node kind except counted repeats `e{n,m}` of a non-dot body
    other than `e?` (= `e{0,1}`, which is covered) and the empty alternative — hex patterns (bytes, masks, negations, jumps,
    nested alternatives) entirely -/
inductive Frag : Re → Prop
  | lit (b) : Frag (.lit b)
  | masked (v m) : Frag (.masked v m)
  | notLit (b) : Frag (.notLit b)
  | maskedNot (v m) : Frag (.maskedNot v m)
  | any : Frag .any
  | cls (bm : Nat) (neg : Bool) : Frag (.cls bm neg)
  | jump (lo hi : Nat) (g : Bool) : lo ≤ hi → hi < 65536 → Frag (.rangeAny lo hi g)
  | wordCh : Frag .wordCh
  | nonWordCh : Frag .nonWordCh
  | space : Frag .space
  | nonSpace : Frag .nonSpace
  | digit : Frag .digit
  | nonDigit : Frag .nonDigit
  | bol : Frag .bol
  | eol : Frag .eol
  | wordB : Frag .wordB
  | nonWordB : Frag .nonWordB
  | star {a} (g : Bool) : Frag a → Frag (.star a g)
  | plus {a} (g : Bool) : Frag a → Frag (.plus a g)
  | opt {a} (g : Bool) : Frag a → Frag (.range a 0 1 g)
  | cat {a b} : Frag a → Frag b → Frag (.cat a b)
  | alt {a b} : Frag a → Frag b → Frag (.alt a b)

/-- length of the emitted code -/
def clen : Re → Nat
  | .lit _ => 2 | .notLit _ => 2 | .masked _ _ => 3 | .maskedNot _ _ => 3 | .any => 1 | .rangeAny _ _ _ => 5 | .cls _ _ => 34
  | .wordCh => 1 | .nonWordCh => 1 | .space => 1 | .nonSpace => 1 | .digit => 1 | .nonDigit => 1
  | .bol => 1 | .eol => 1 | .wordB => 1 | .nonWordB => 1
  | .star a _ => 4 + clen a + 3
  | .plus a _ => clen a + 4
  | .range a 0 1 _ => 4 + clen a
  | .cat a b => clen a + clen b
  | .alt a b => 4 + clen a + 3 + clen b
  | _ => 0

/-- `code[a..b)` decodes to the emission of `r` (forward code) -/
inductive Seg (code : Code) : Re → Nat → Nat → Prop
  | lit {a : Nat} {b : UInt8} : u8 code a = OP_LITERAL → u8 code (a + 1) = b.toNat → Seg code (.lit b) a (a + 2)
  | notLit {a : Nat} {b : UInt8} : u8 code a = OP_NOT_LITERAL → u8 code (a + 1) = b.toNat → Seg code (.notLit b) a (a + 2)
  | masked {a : Nat} {v m : UInt8} : u8 code a = OP_MASKED_LITERAL → u8 code (a + 1) = v.toNat → u8 code (a + 2) = m.toNat →
      Seg code (.masked v m) a (a + 3)
  | maskedNot {a : Nat} {v m : UInt8} : u8 code a = OP_MASKED_NOT_LITERAL → u8 code (a + 1) = v.toNat → u8 code (a + 2) = m.toNat →
      Seg code (.maskedNot v m) a (a + 3)
  | any {a : Nat} : u8 code a = OP_ANY → Seg code .any a (a + 1)
  | cls {a bm : Nat} {neg : Bool} : u8 code a = OP_CLASS → u8 code (a + 1) = (if neg then 1 else 0) →
      (∀ c : UInt8, classBit code a c = inBitmap bm c) → Seg code (.cls bm neg) a (a + 34)
  | jump {a lo hi : Nat} {g : Bool} : (u8 code a = OP_REPEAT_ANY_GREEDY ∨ u8 code a = OP_REPEAT_ANY_UNGREEDY) →
      u16 code (a + 1) = lo → u16 code (a + 3) = hi → lo ≤ hi → Seg code (.rangeAny lo hi g) a (a + 5)
  | wordCh {a : Nat} : u8 code a = OP_WORD_CHAR → Seg code .wordCh a (a + 1)
  | nonWordCh {a : Nat} : u8 code a = OP_NON_WORD_CHAR → Seg code .nonWordCh a (a + 1)
  | space {a : Nat} : u8 code a = OP_SPACE → Seg code .space a (a + 1)
  | nonSpace {a : Nat} : u8 code a = OP_NON_SPACE → Seg code .nonSpace a (a + 1)
  | digit {a : Nat} : u8 code a = OP_DIGIT → Seg code .digit a (a + 1)
  | nonDigit {a : Nat} : u8 code a = OP_NON_DIGIT → Seg code .nonDigit a (a + 1)
  | bol {a : Nat} : u8 code a = OP_MATCH_AT_START → Seg code .bol a (a + 1)
  | eol {a : Nat} : u8 code a = OP_MATCH_AT_END → Seg code .eol a (a + 1)
  | wordB {a : Nat} : u8 code a = OP_WORD_BOUNDARY → Seg code .wordB a (a + 1)
  | nonWordB {a : Nat} : u8 code a = OP_NON_WORD_BOUNDARY → Seg code .nonWordB a (a + 1)
  | star {x : Re} {a m : Nat} {g : Bool} : (u8 code a = OP_SPLIT_A ∨ u8 code a = OP_SPLIT_B) → addOff a (i16 code (a + 2)) = m + 3 →
      Seg code x (a + 4) m → u8 code m = OP_JUMP → addOff m (i16 code (m + 1)) = a → Seg code (.star x g) a (m + 3)
  | plus {x : Re} {a m : Nat} {g : Bool} : Seg code x a m → (u8 code m = OP_SPLIT_A ∨ u8 code m = OP_SPLIT_B) →
      addOff m (i16 code (m + 2)) = a → Seg code (.plus x g) a (m + 4)
  | opt {x : Re} {a m : Nat} {g : Bool} : (u8 code a = OP_SPLIT_A ∨ u8 code a = OP_SPLIT_B) → addOff a (i16 code (a + 2)) = m →
      Seg code x (a + 4) m → Seg code (.range x 0 1 g) a m
  | cat {x y : Re} {a m b : Nat} : Seg code x a m → Seg code y m b → Seg code (.cat x y) a b
  | alt {x y : Re} {a m b : Nat} : u8 code a = OP_SPLIT_A → addOff a (i16 code (a + 2)) = m + 3 → Seg code x (a + 4) m →
      u8 code m = OP_JUMP → addOff m (i16 code (m + 1)) = b → Seg code y (m + 3) b → Seg code (.alt x y) a b

theorem Seg.len {code : Code} {r : Re} {a b : Nat} (h : Seg code r a b) : b = a + clen r := by
  induction h with
  | lit _ _ | notLit _ _ | masked _ _ _ | maskedNot _ _ _ | any _ | cls _ _ _ | jump _ _ _ _ | wordCh _ | nonWordCh _ | space _ | nonSpace _ | digit _ | nonDigit _ | bol _ | eol _ | wordB _ | nonWordB _ => simp [clen]
  | star _ _ _ _ _ ih => simp only [clen]; omega
  | plus _ _ _ ih => simp only [clen]; omega
  | opt _ _ _ ih => simp only [clen]; omega
  | cat _ _ ih1 ih2 => simp only [clen]; omega
  | alt _ _ _ _ _ _ ih1 ih2 => simp only [clen]; omega

theorem Seg.pos {code : Code} {r : Re} {a b : Nat} (h : Seg code r a b) : a < b := by
  induction h with
  | lit _ _ | notLit _ _ | masked _ _ _ | maskedNot _ _ _ | any _ | cls _ _ _ | jump _ _ _ _ | wordCh _ | nonWordCh _ | space _ | nonSpace _ | digit _ | nonDigit _ | bol _ | eol _ | wordB _ | nonWordB _ => omega
  | star _ _ _ _ _ ih => omega
  | plus _ _ _ ih => omega
  | opt _ _ _ ih => omega
  | cat _ _ ih1 ih2 => omega
  | alt _ _ _ _ _ _ ih1 ih2 => omega

abbrev Lang := Nat → Nat → Prop

/-- the repeat counter of a REPEAT_ANY fiber as a number of characters (`-1` = not spinning = 0) -/
def rc0 (rc : Int) : Nat := if rc = -1 then 0 else rc.toNat

/-- language accepted from machine state `(ip, rc, mode)` inside the code of `r` placed at `a`, when `K` is accepted at
    its end.  At a jump `[lo-hi]`: a WAITING fiber with counter k still has to read the k-th character, a fiber that has
    read k characters (`post`, or k = 0 on arrival) may read j more with lo ≤ k + j ≤ hi. -/
def lang (fl : Flags) (buf : Bytes) : Re → Nat → Lang → Nat → Int → Mode → Lang
  | .cat x y, a, K, ip, rc, m =>
      let mid := a + clen x
      if ip < mid then lang fl buf x a (lang fl buf y mid K mid (-1) .run) ip rc m else lang fl buf y mid K ip rc m
  | .alt x y, a, K, ip, rc, m =>
      let mid := a + 4 + clen x
      if ip = a then fun q q' => lang fl buf x (a + 4) K (a + 4) (-1) .run q q' ∨ lang fl buf y (mid + 3) K (mid + 3) (-1) .run q q'
      else if ip < mid then lang fl buf x (a + 4) K ip rc m
      else if ip = mid then K
      else lang fl buf y (mid + 3) K ip rc m
  | .star x g, a, K, ip, rc, m =>
      let mid := a + 4 + clen x
      if ip = a then fun q q' => ∃ t, Re.Matches fl buf (.star x g) q t ∧ K t q'
      else if ip < mid then lang fl buf x (a + 4) (fun q q' => ∃ t, Re.Matches fl buf (.star x g) q t ∧ K t q') ip rc m
      else if ip = mid then fun q q' => ∃ t, Re.Matches fl buf (.star x g) q t ∧ K t q'
      else K
  | .plus x g, a, K, ip, rc, m =>
      let mid := a + clen x
      if ip < mid then lang fl buf x a (fun q q' => K q q' ∨ ∃ t, Re.Matches fl buf (.plus x g) q t ∧ K t q') ip rc m
      else if ip = mid then fun q q' => K q q' ∨ ∃ t, Re.Matches fl buf (.plus x g) q t ∧ K t q'
      else K
  | .range x 0 1 g, a, K, ip, rc, m =>
      if ip = a then fun q q' => ∃ t, Re.Matches fl buf (.range x 0 1 g) q t ∧ K t q'
      else lang fl buf x (a + 4) K ip rc m
  | .rangeAny lo hi _, a, K, ip, rc, m =>
      if ip = a then
        match m with
        | .wait => fun q q' => ∃ j t, 1 ≤ j ∧ lo ≤ rc0 rc - 1 + j ∧ rc0 rc - 1 + j ≤ hi ∧ Path (step fl buf (testAny fl)) j q t ∧ K t q'
        | _ => fun q q' => ∃ j t, lo ≤ rc0 rc + j ∧ rc0 rc + j ≤ hi ∧ Path (step fl buf (testAny fl)) j q t ∧ K t q'
      else K
  | r, a, K, ip, _, _ => if ip = a then fun q q' => ∃ t, Re.Matches fl buf r q t ∧ K t q' else K

section
variable (fl : Flags) (buf : Bytes)

/-- the entry language of a segment is the specification of its expression followed by the continuation -/
theorem lang_entry {code : Code} {r : Re} {a b : Nat} (hs : Seg code r a b) (K : Lang) (q q' : Nat) :
    lang fl buf r a K a (-1) .run q q' → ∃ t, Re.Matches fl buf r q t ∧ K t q' := by
  induction hs generalizing K q q' with
  | lit _ _ | notLit _ _ | masked _ _ _ | maskedNot _ _ _ | any _ | cls _ _ _ | wordCh _ | nonWordCh _ | space _ | nonSpace _ | digit _ | nonDigit _ | bol _ | eol _ | wordB _ | nonWordB _ => simp [lang]
  | @jump a lo hi g _ _ _ _ =>
    intro h
    simp only [lang, if_true] at h
    obtain ⟨j, t, h1, h2, hp, hk⟩ := h
    simp only [rc0, if_true, Nat.zero_add] at h1 h2
    exact ⟨t, rangeAny_of_path j lo hi q t h1 h2 hp, hk⟩
  | @star x a m g _ _ h1 _ _ ih =>
    intro h
    simp only [lang, if_true] at h
    exact h
  | @plus x a m g h1 _ _ ih =>
    intro h
    have hm : m = a + clen x := h1.len
    have hlt : a < a + clen x := by have := h1.pos; omega
    simp only [lang, hlt, if_true] at h
    obtain ⟨t, ht, hk⟩ := ih _ _ _ h
    rcases hk with hk | ⟨t2, ht2, hk2⟩
    · exact ⟨t, .plusOne ht, hk⟩
    · exact ⟨t2, .plusStep ht ht2, hk2⟩
  | @opt x a m g _ _ h1 ih =>
    intro h
    simp only [lang, if_true] at h
    exact h
  | @cat x y a m b h1 h2 ih1 ih2 =>
    intro h
    have hm : m = a + clen x := h1.len
    have hlt : a < a + clen x := by have := h1.pos; omega
    simp only [lang, hlt, if_true] at h
    obtain ⟨t, ht, hk⟩ := ih1 _ _ _ h
    rw [← hm] at hk
    obtain ⟨t2, ht2, hk2⟩ := ih2 _ _ _ hk
    exact ⟨t2, .cat ht ht2, hk2⟩
  | @alt x y a m b _ _ h1 _ _ h2 ih1 ih2 =>
    intro h
    have hm : m = a + 4 + clen x := by have := h1.len; omega
    simp only [lang, if_true] at h
    rw [← hm] at h
    rcases h with h | h
    · obtain ⟨t, ht, hk⟩ := ih1 _ _ _ h
      exact ⟨t, .altL ht, hk⟩
    · obtain ⟨t, ht, hk⟩ := ih2 _ _ _ h
      exact ⟨t, .altR ht, hk⟩

/-- at the end address of a segment the language is the continuation -/
theorem lang_end {code : Code} {r : Re} {a b : Nat} (hs : Seg code r a b) (K : Lang) (rc : Int) (md : Mode) :
    lang fl buf r a K b rc md = K := by
  induction hs generalizing K with
  | lit _ _ | notLit _ _ | masked _ _ _ | maskedNot _ _ _ | any _ | cls _ _ _ | jump _ _ _ _ | wordCh _ | nonWordCh _ | space _ | nonSpace _ | digit _ | nonDigit _ | bol _ | eol _ | wordB _ | nonWordB _ => simp [lang]
  | @star x a m g _ _ h1 _ _ ih =>
    have hm : m = a + 4 + clen x := by have := h1.len; omega
    have p1 := h1.pos
    have c1 : ¬ m + 3 = a := by omega
    have c2 : ¬ m + 3 < a + 4 + clen x := by omega
    have c3 : ¬ m + 3 = a + 4 + clen x := by omega
    simp only [lang, c1, c2, c3, if_false]
  | @plus x a m g h1 _ _ ih =>
    have hm : m = a + clen x := h1.len
    have c2 : ¬ m + 4 < a + clen x := by omega
    have c3 : ¬ m + 4 = a + clen x := by omega
    simp only [lang, c2, c3, if_false]
  | @opt x a m g _ _ h1 ih =>
    have p1 := h1.pos
    have c1 : ¬ m = a := by omega
    simp only [lang, c1, if_false]
    exact ih K
  | @cat x y a m b h1 h2 ih1 ih2 =>
    have hm : m = a + clen x := h1.len
    have : ¬ b < a + clen x := by have := h2.pos; omega
    simp only [lang, this, if_false]
    rw [← hm]; exact ih2 K
  | @alt x y a m b _ _ h1 _ _ h2 ih1 ih2 =>
    have hm : m = a + 4 + clen x := by have := h1.len; omega
    have p1 := h1.pos
    have p2 := h2.pos
    have c1 : ¬ b = a := by omega
    have c2 : ¬ b < a + 4 + clen x := by omega
    have c3 : ¬ b = a + 4 + clen x := by omega
    simp only [lang, c1, c2, c3, if_false]
    rw [← hm]; exact ih2 K

end

/-- VM flags of a forward, non-scanning run in byte mode and the specification flags they correspond to -/
def specFlags (v : VmFlags) : Flags := { wide := false, nocase := v.nocase, dotall := v.dotall }

structure FwdByte (e : Env) : Prop where
  notWide : e.fl.wide = false
  notBack : e.fl.backwards = false
  startIn : e.start ≤ e.buf.size

theorem cs_one {e : Env} (h : FwdByte e) : e.cs = 1 := by simp [Env.cs, h.notWide]
theorem inp_fwd {e : Env} (h : FwdByte e) (bm : Nat) : e.inp bm = ((e.start + bm : Nat) : Int) := by
  simp [Env.inp, h.notBack]

/-- a successful consuming step reads a byte inside the buffer -/
theorem consume_in_buf {e : Env} (h : FwdByte e) {bm : Nat} {f : Fiber} (hc : consumeOk e bm f = true) :
    e.start + bm < e.buf.size := by
  unfold consumeOk at hc
  simp only [Bool.and_eq_true, Bool.not_eq_true', Bool.or_eq_false_iff, decide_eq_false_iff_not] at hc
  have h1 := hc.1.1
  unfold Env.maxBytes at h1
  simp only [h.notBack, Bool.false_eq_true, if_false, cs_one h, Nat.mod_one, Nat.sub_zero] at h1
  unfold Env.fwdSize at h1
  omega

theorem byteAt_eq {buf : Bytes} {i : Nat} (h : i < buf.size) : buf[i]? = some (byteAt buf (i : Int)) := by
  unfold byteAt
  have : ¬ ((i : Int) < 0) := by omega
  simp only [this, if_false, Int.toNat_natCast]
  rw [Array.getElem?_eq_getElem h]; simp

/-- spec-side acceptance of the byte at `q` -/
theorem charOk_of {fl : Flags} (hw : fl.wide = false) {buf : Bytes} {t : UInt8 → Bool} {q : Nat} (hq : q < buf.size)
    (ht : t (byteAt buf (q : Int)) = true) : charOk fl buf t q = true := by
  unfold charOk
  rw [byteAt_eq hq]
  simp [hw, ht]


/-! ### valid machine states inside a segment -/
/-- `(ip, rc, mode)` is a state the machine can be in at an instruction of `r` placed at `a` -/
def Valid : Re → Nat → Nat → Int → Mode → Prop
  | .cat x y, a, ip, rc, m => Valid x a ip rc m ∨ Valid y (a + clen x) ip rc m
  | .alt x y, a, ip, rc, m => (ip = a ∧ rc = -1 ∧ m = .run) ∨ Valid x (a + 4) ip rc m ∨
      (ip = a + 4 + clen x ∧ rc = -1 ∧ m = .run) ∨ Valid y (a + 4 + clen x + 3) ip rc m
  | .star x _, a, ip, rc, m => (ip = a ∧ rc = -1 ∧ m = .run) ∨ Valid x (a + 4) ip rc m ∨ (ip = a + 4 + clen x ∧ rc = -1 ∧ m = .run)
  | .plus x _, a, ip, rc, m => Valid x a ip rc m ∨ (ip = a + clen x ∧ rc = -1 ∧ m = .run)
  | .range x 0 1 _, a, ip, rc, m => (ip = a ∧ rc = -1 ∧ m = .run) ∨ Valid x (a + 4) ip rc m
  | .rangeAny _ hi _, a, ip, rc, m => ip = a ∧ ((m = .run ∧ rc = -1) ∨ (m ≠ .run ∧ 1 ≤ rc ∧ rc ≤ hi))
  | _, a, ip, rc, m => ip = a ∧ rc = -1 ∧ m = .run

theorem valid_range {code : Code} {r : Re} {a b : Nat} (hs : Seg code r a b) {ip : Nat} {rc : Int} {m : Mode}
    (h : Valid r a ip rc m) : a ≤ ip ∧ ip < b := by
  induction hs generalizing ip with
  | lit _ _ | notLit _ _ | masked _ _ _ | maskedNot _ _ _ | any _ | cls _ _ _ | jump _ _ _ _ | wordCh _ | nonWordCh _ | space _ | nonSpace _ | digit _ | nonDigit _ | bol _ | eol _ | wordB _ | nonWordB _ => simp only [Valid] at h; omega
  | @star x a m g _ _ h1 _ _ ih =>
    have hm : m = a + 4 + clen x := by have := h1.len; omega
    have p1 := h1.pos
    simp only [Valid] at h
    rw [← hm] at h
    rcases h with h | h | h
    · omega
    · have := ih h; omega
    · omega
  | @plus x a m g h1 _ _ ih =>
    have hm : m = a + clen x := h1.len
    have p1 := h1.pos
    simp only [Valid] at h
    rw [← hm] at h
    rcases h with h | h
    · have := ih h; omega
    · omega
  | @opt x a m g _ _ h1 ih =>
    have p1 := h1.pos
    simp only [Valid] at h
    rcases h with h | h
    · omega
    · have := ih h; omega
  | @cat x y a m b h1 h2 ih1 ih2 =>
    have hm : m = a + clen x := h1.len
    have p1 := h1.pos; have p2 := h2.pos
    simp only [Valid] at h
    rcases h with h | h
    · have := ih1 h; omega
    · rw [← hm] at h; have := ih2 h; omega
  | @alt x y a m b _ _ h1 _ _ h2 ih1 ih2 =>
    have hm : m = a + 4 + clen x := by have := h1.len; omega
    have p1 := h1.pos; have p2 := h2.pos
    simp only [Valid] at h
    rw [← hm] at h
    rcases h with h | h | h | h
    · omega
    · have := ih1 h; omega
    · omega
    · have := ih2 h; omega

theorem valid_first {code : Code} {r : Re} {a b : Nat} (hs : Seg code r a b) : Valid r a a (-1) .run := by
  induction hs with
  | lit _ _ | notLit _ _ | masked _ _ _ | maskedNot _ _ _ | any _ | cls _ _ _ | wordCh _ | nonWordCh _ | space _ | nonSpace _ | digit _ | nonDigit _ | bol _ | eol _ | wordB _ | nonWordB _ => simp [Valid]
  | jump _ _ _ _ => simp [Valid]
  | star _ _ _ _ _ _ => exact .inl ⟨rfl, rfl, rfl⟩
  | plus _ _ _ ih => exact .inl ih
  | opt _ _ _ _ => exact .inl ⟨rfl, rfl, rfl⟩
  | cat _ _ ih1 _ => exact .inl ih1
  | alt _ _ _ _ _ _ _ _ => exact .inl ⟨rfl, rfl, rfl⟩

/-- the state just behind a segment: next instruction, not spinning -/
def AtEnd (b : Nat) (g : Fiber) (m : Mode) : Prop := g.ip = b ∧ g.rc = -1 ∧ m = .run

/-! ### what the ε-steps can be for a known opcode -/
theorem no_estep {code : Code} {f g : Fiber} (h : EStep code f g)
    (hop : u8 code f.ip = OP_LITERAL ∨ u8 code f.ip = OP_NOT_LITERAL ∨ u8 code f.ip = OP_MASKED_LITERAL ∨
      u8 code f.ip = OP_MASKED_NOT_LITERAL ∨ u8 code f.ip = OP_ANY) : False := by
  cases h <;> rename_i h1 <;>
    simp only [OP_LITERAL, OP_NOT_LITERAL, OP_MASKED_LITERAL, OP_MASKED_NOT_LITERAL, OP_ANY, OP_SPLIT_A, OP_SPLIT_B, OP_JUMP,
      OP_REPEAT_START_GREEDY, OP_REPEAT_START_UNGREEDY, OP_REPEAT_END_GREEDY, OP_REPEAT_END_UNGREEDY, OP_REPEAT_ANY_GREEDY,
      OP_REPEAT_ANY_UNGREEDY] at * <;> omega

theorem estep_split {code : Code} {f g : Fiber} (h : EStep code f g) (hop : u8 code f.ip = OP_SPLIT_A ∨ u8 code f.ip = OP_SPLIT_B) :
    g = { f with ip := f.ip + 4 } ∨ g = { f with ip := addOff f.ip (i16 code (f.ip + 2)) } := by
  cases h with
  | splitNext _ => exact .inl rfl
  | splitJmp _ => exact .inr rfl
  | _ => rename_i h1; simp only [OP_SPLIT_A, OP_SPLIT_B, OP_JUMP, OP_REPEAT_START_GREEDY, OP_REPEAT_START_UNGREEDY, OP_REPEAT_END_GREEDY,
      OP_REPEAT_END_UNGREEDY, OP_REPEAT_ANY_GREEDY, OP_REPEAT_ANY_UNGREEDY] at *; omega

theorem estep_jump {code : Code} {f g : Fiber} (h : EStep code f g) (hop : u8 code f.ip = OP_JUMP) :
    g = { f with ip := addOff f.ip (i16 code (f.ip + 1)) } := by
  cases h with
  | jump _ => rfl
  | _ => rename_i h1; simp only [OP_SPLIT_A, OP_SPLIT_B, OP_JUMP, OP_REPEAT_START_GREEDY, OP_REPEAT_START_UNGREEDY, OP_REPEAT_END_GREEDY,
      OP_REPEAT_END_UNGREEDY, OP_REPEAT_ANY_GREEDY, OP_REPEAT_ANY_UNGREEDY] at *; omega


/-- ε-steps only happen at control instructions -/
def isCtl (op : Nat) : Prop :=
  op = OP_SPLIT_A ∨ op = OP_SPLIT_B ∨ op = OP_JUMP ∨ op = OP_REPEAT_START_GREEDY ∨ op = OP_REPEAT_START_UNGREEDY ∨
  op = OP_REPEAT_END_GREEDY ∨ op = OP_REPEAT_END_UNGREEDY

theorem estep_ctl {code : Code} {f g : Fiber} (h : EStep code f g) : isCtl (u8 code f.ip) := by
  unfold isCtl
  cases h with
  | splitNext h1 | splitJmp h1 | repStartEnter h1 | repStartSkip h1 _ | repEndLoop h1 _ | repEndExit h1 _ =>
    rcases h1 with h1 | h1 <;> rw [h1] <;> decide
  | jump h1 => rw [h1]; decide

theorem no_astep {code : Code} {f g : Fiber} {st : Bool} (h : AStep code f g st)
    (hop : ¬ (u8 code f.ip = OP_REPEAT_ANY_GREEDY ∨ u8 code f.ip = OP_REPEAT_ANY_UNGREEDY)) : False := by
  cases h <;> rename_i h1 _ <;> exact hop h1

theorem no_estep_any {code : Code} {f g : Fiber} (h : EStep code f g)
    (hop : u8 code f.ip = OP_REPEAT_ANY_GREEDY ∨ u8 code f.ip = OP_REPEAT_ANY_UNGREEDY) : False := by
  cases h <;> rename_i h1 <;>
    simp only [OP_SPLIT_A, OP_SPLIT_B, OP_JUMP, OP_REPEAT_START_GREEDY, OP_REPEAT_START_UNGREEDY, OP_REPEAT_END_GREEDY,
      OP_REPEAT_END_UNGREEDY, OP_REPEAT_ANY_GREEDY, OP_REPEAT_ANY_UNGREEDY] at * <;> omega

/-! ### consuming instructions against the specification's one-character tests -/
theorem specFlags_cs (v : VmFlags) : (specFlags v).cs = 1 := rfl

theorem consumeTest_of {e : Env} (h : FwdByte e) {bm : Nat} {f : Fiber} (hc : consumeOk e bm f = true) :
    consumeTest e.code e.fl f.ip e.buf 1 ((e.start + bm : Nat) : Int) = true := by
  unfold consumeOk at hc
  simp only [Bool.and_eq_true] at hc
  have := hc.2
  rwa [cs_one h, inp_fwd h] at this

theorem toNat_beq (c b : UInt8) : (c.toNat == b.toNat) = (c == b) := by
  rw [Bool.eq_iff_iff]; simp [UInt8.toNat_inj]

theorem consume_lit {e : Env} (h : FwdByte e) {bm : Nat} {f : Fiber} {b : UInt8} (hop : u8 e.code f.ip = OP_LITERAL)
    (harg : u8 e.code (f.ip + 1) = b.toNat) (hc : consumeOk e bm f = true) :
    Re.Matches (specFlags e.fl) e.buf (.lit b) (e.start + bm) (e.start + bm + 1) := by
  have hq := consume_in_buf h hc
  have ht := consumeTest_of h hc
  have : Re.Matches (specFlags e.fl) e.buf (.lit b) (e.start + bm) (e.start + bm + (specFlags e.fl).cs) := by
    apply Re.Matches.lit
    apply charOk_of rfl hq
    unfold consumeTest at ht
    simp only [hop, harg, OP_LITERAL, OP_ANY, OP_REPEAT_ANY_GREEDY, OP_REPEAT_ANY_UNGREEDY] at ht
    simp only [Nat.reduceEqDiff, or_self, if_false, if_true] at ht
    unfold testLit specFlags
    simp only
    split at ht
    · rename_i hn; simp only [hn, if_true]; rwa [UInt8.ofNat_toNat] at ht
    · rename_i hn; simp only [hn]; rwa [toNat_beq] at ht
  rwa [specFlags_cs] at this

theorem consume_notLit {e : Env} (h : FwdByte e) {bm : Nat} {f : Fiber} {b : UInt8} (hop : u8 e.code f.ip = OP_NOT_LITERAL)
    (harg : u8 e.code (f.ip + 1) = b.toNat) (hc : consumeOk e bm f = true) :
    Re.Matches (specFlags e.fl) e.buf (.notLit b) (e.start + bm) (e.start + bm + 1) := by
  have hq := consume_in_buf h hc
  have ht := consumeTest_of h hc
  have : Re.Matches (specFlags e.fl) e.buf (.notLit b) (e.start + bm) (e.start + bm + (specFlags e.fl).cs) := by
    apply Re.Matches.notLit
    apply charOk_of rfl hq
    unfold consumeTest at ht
    simp only [hop, harg, OP_NOT_LITERAL, OP_LITERAL, OP_ANY, OP_REPEAT_ANY_GREEDY, OP_REPEAT_ANY_UNGREEDY] at ht
    simp only [Nat.reduceEqDiff, or_self, if_false, if_true] at ht
    simp only [bne_iff_ne, ne_eq] at ht ⊢
    intro heq; apply ht; rw [heq]
  rwa [specFlags_cs] at this

theorem toNat_and_beq (c m v : UInt8) : ((c.toNat &&& m.toNat) == v.toNat) = ((c &&& m) == v) := by
  rw [← UInt8.toNat_and, toNat_beq]

theorem consume_masked {e : Env} (h : FwdByte e) {bm : Nat} {f : Fiber} {v m : UInt8} (hop : u8 e.code f.ip = OP_MASKED_LITERAL)
    (h1 : u8 e.code (f.ip + 1) = v.toNat) (h2 : u8 e.code (f.ip + 2) = m.toNat) (hc : consumeOk e bm f = true) :
    Re.Matches (specFlags e.fl) e.buf (.masked v m) (e.start + bm) (e.start + bm + 1) := by
  have hq := consume_in_buf h hc
  have ht := consumeTest_of h hc
  have : Re.Matches (specFlags e.fl) e.buf (.masked v m) (e.start + bm) (e.start + bm + (specFlags e.fl).cs) := by
    apply Re.Matches.masked
    apply charOk_of rfl hq
    unfold consumeTest at ht
    simp only [hop, h1, h2, OP_MASKED_LITERAL, OP_NOT_LITERAL, OP_LITERAL, OP_ANY, OP_REPEAT_ANY_GREEDY, OP_REPEAT_ANY_UNGREEDY] at ht
    simp only [Nat.reduceEqDiff, or_self, if_false, if_true] at ht
    unfold testMasked
    rwa [toNat_and_beq] at ht
  rwa [specFlags_cs] at this

theorem consume_maskedNot {e : Env} (h : FwdByte e) {bm : Nat} {f : Fiber} {v m : UInt8} (hop : u8 e.code f.ip = OP_MASKED_NOT_LITERAL)
    (h1 : u8 e.code (f.ip + 1) = v.toNat) (h2 : u8 e.code (f.ip + 2) = m.toNat) (hc : consumeOk e bm f = true) :
    Re.Matches (specFlags e.fl) e.buf (.maskedNot v m) (e.start + bm) (e.start + bm + 1) := by
  have hq := consume_in_buf h hc
  have ht := consumeTest_of h hc
  have : Re.Matches (specFlags e.fl) e.buf (.maskedNot v m) (e.start + bm) (e.start + bm + (specFlags e.fl).cs) := by
    apply Re.Matches.maskedNot
    apply charOk_of rfl hq
    unfold consumeTest at ht
    simp only [hop, h1, h2, OP_MASKED_NOT_LITERAL, OP_MASKED_LITERAL, OP_NOT_LITERAL, OP_LITERAL, OP_ANY, OP_REPEAT_ANY_GREEDY,
      OP_REPEAT_ANY_UNGREEDY] at ht
    simp only [Nat.reduceEqDiff, or_self, if_false, if_true] at ht
    unfold testMasked
    simp only [bne_iff_ne, ne_eq, Bool.not_eq_true', beq_eq_false_iff_ne] at ht ⊢
    intro heq; apply ht
    rw [← UInt8.toNat_and, heq]
  rwa [specFlags_cs] at this

theorem consume_any {e : Env} (h : FwdByte e) {bm : Nat} {f : Fiber} (hop : u8 e.code f.ip = OP_ANY) (hc : consumeOk e bm f = true) :
    Re.Matches (specFlags e.fl) e.buf .any (e.start + bm) (e.start + bm + 1) := by
  have hq := consume_in_buf h hc
  have ht := consumeTest_of h hc
  have : Re.Matches (specFlags e.fl) e.buf .any (e.start + bm) (e.start + bm + (specFlags e.fl).cs) := by
    apply Re.Matches.any
    apply charOk_of rfl hq
    unfold consumeTest at ht
    simp only [hop, OP_ANY, true_or, if_true] at ht
    unfold testAny specFlags
    exact ht
  rwa [specFlags_cs] at this


theorem consume_wordCh {e : Env} (h : FwdByte e) {bm : Nat} {f : Fiber} (hop : u8 e.code f.ip = OP_WORD_CHAR) (hc : consumeOk e bm f = true) :
    Re.Matches (specFlags e.fl) e.buf .wordCh (e.start + bm) (e.start + bm + 1) := by
  have hq := consume_in_buf h hc
  have ht := consumeTest_of h hc
  have : Re.Matches (specFlags e.fl) e.buf .wordCh (e.start + bm) (e.start + bm + (specFlags e.fl).cs) := by
    apply Re.Matches.wordCh
    apply charOk_of rfl hq
    unfold consumeTest at ht
    simp only [hop, OP_ANY, OP_REPEAT_ANY_GREEDY, OP_REPEAT_ANY_UNGREEDY, OP_LITERAL, OP_NOT_LITERAL, OP_MASKED_LITERAL, OP_MASKED_NOT_LITERAL, OP_CLASS, OP_WORD_CHAR, OP_NON_WORD_CHAR, OP_SPACE, OP_NON_SPACE, OP_DIGIT, OP_NON_DIGIT] at ht
    simp only [Nat.reduceEqDiff, or_self, if_false, if_true] at ht
    simpa [isWordCharAt] using ht
  rwa [specFlags_cs] at this

theorem consume_nonWordCh {e : Env} (h : FwdByte e) {bm : Nat} {f : Fiber} (hop : u8 e.code f.ip = OP_NON_WORD_CHAR) (hc : consumeOk e bm f = true) :
    Re.Matches (specFlags e.fl) e.buf .nonWordCh (e.start + bm) (e.start + bm + 1) := by
  have hq := consume_in_buf h hc
  have ht := consumeTest_of h hc
  have : Re.Matches (specFlags e.fl) e.buf .nonWordCh (e.start + bm) (e.start + bm + (specFlags e.fl).cs) := by
    apply Re.Matches.nonWordCh
    apply charOk_of rfl hq
    unfold consumeTest at ht
    simp only [hop, OP_ANY, OP_REPEAT_ANY_GREEDY, OP_REPEAT_ANY_UNGREEDY, OP_LITERAL, OP_NOT_LITERAL, OP_MASKED_LITERAL, OP_MASKED_NOT_LITERAL, OP_CLASS, OP_WORD_CHAR, OP_NON_WORD_CHAR, OP_SPACE, OP_NON_SPACE, OP_DIGIT, OP_NON_DIGIT] at ht
    simp only [Nat.reduceEqDiff, or_self, if_false, if_true] at ht
    simpa [isWordCharAt] using ht
  rwa [specFlags_cs] at this

theorem consume_space {e : Env} (h : FwdByte e) {bm : Nat} {f : Fiber} (hop : u8 e.code f.ip = OP_SPACE) (hc : consumeOk e bm f = true) :
    Re.Matches (specFlags e.fl) e.buf .space (e.start + bm) (e.start + bm + 1) := by
  have hq := consume_in_buf h hc
  have ht := consumeTest_of h hc
  have : Re.Matches (specFlags e.fl) e.buf .space (e.start + bm) (e.start + bm + (specFlags e.fl).cs) := by
    apply Re.Matches.space
    apply charOk_of rfl hq
    unfold consumeTest at ht
    simp only [hop, OP_ANY, OP_REPEAT_ANY_GREEDY, OP_REPEAT_ANY_UNGREEDY, OP_LITERAL, OP_NOT_LITERAL, OP_MASKED_LITERAL, OP_MASKED_NOT_LITERAL, OP_CLASS, OP_WORD_CHAR, OP_NON_WORD_CHAR, OP_SPACE, OP_NON_SPACE, OP_DIGIT, OP_NON_DIGIT] at ht
    simp only [Nat.reduceEqDiff, or_self, if_false, if_true] at ht
    simpa [isWordCharAt] using ht
  rwa [specFlags_cs] at this

theorem consume_nonSpace {e : Env} (h : FwdByte e) {bm : Nat} {f : Fiber} (hop : u8 e.code f.ip = OP_NON_SPACE) (hc : consumeOk e bm f = true) :
    Re.Matches (specFlags e.fl) e.buf .nonSpace (e.start + bm) (e.start + bm + 1) := by
  have hq := consume_in_buf h hc
  have ht := consumeTest_of h hc
  have : Re.Matches (specFlags e.fl) e.buf .nonSpace (e.start + bm) (e.start + bm + (specFlags e.fl).cs) := by
    apply Re.Matches.nonSpace
    apply charOk_of rfl hq
    unfold consumeTest at ht
    simp only [hop, OP_ANY, OP_REPEAT_ANY_GREEDY, OP_REPEAT_ANY_UNGREEDY, OP_LITERAL, OP_NOT_LITERAL, OP_MASKED_LITERAL, OP_MASKED_NOT_LITERAL, OP_CLASS, OP_WORD_CHAR, OP_NON_WORD_CHAR, OP_SPACE, OP_NON_SPACE, OP_DIGIT, OP_NON_DIGIT] at ht
    simp only [Nat.reduceEqDiff, or_self, if_false, if_true] at ht
    simpa [isWordCharAt] using ht
  rwa [specFlags_cs] at this

theorem consume_digit {e : Env} (h : FwdByte e) {bm : Nat} {f : Fiber} (hop : u8 e.code f.ip = OP_DIGIT) (hc : consumeOk e bm f = true) :
    Re.Matches (specFlags e.fl) e.buf .digit (e.start + bm) (e.start + bm + 1) := by
  have hq := consume_in_buf h hc
  have ht := consumeTest_of h hc
  have : Re.Matches (specFlags e.fl) e.buf .digit (e.start + bm) (e.start + bm + (specFlags e.fl).cs) := by
    apply Re.Matches.digit
    apply charOk_of rfl hq
    unfold consumeTest at ht
    simp only [hop, OP_ANY, OP_REPEAT_ANY_GREEDY, OP_REPEAT_ANY_UNGREEDY, OP_LITERAL, OP_NOT_LITERAL, OP_MASKED_LITERAL, OP_MASKED_NOT_LITERAL, OP_CLASS, OP_WORD_CHAR, OP_NON_WORD_CHAR, OP_SPACE, OP_NON_SPACE, OP_DIGIT, OP_NON_DIGIT] at ht
    simp only [Nat.reduceEqDiff, or_self, if_false, if_true] at ht
    simpa [isWordCharAt] using ht
  rwa [specFlags_cs] at this

theorem consume_nonDigit {e : Env} (h : FwdByte e) {bm : Nat} {f : Fiber} (hop : u8 e.code f.ip = OP_NON_DIGIT) (hc : consumeOk e bm f = true) :
    Re.Matches (specFlags e.fl) e.buf .nonDigit (e.start + bm) (e.start + bm + 1) := by
  have hq := consume_in_buf h hc
  have ht := consumeTest_of h hc
  have : Re.Matches (specFlags e.fl) e.buf .nonDigit (e.start + bm) (e.start + bm + (specFlags e.fl).cs) := by
    apply Re.Matches.nonDigit
    apply charOk_of rfl hq
    unfold consumeTest at ht
    simp only [hop, OP_ANY, OP_REPEAT_ANY_GREEDY, OP_REPEAT_ANY_UNGREEDY, OP_LITERAL, OP_NOT_LITERAL, OP_MASKED_LITERAL, OP_MASKED_NOT_LITERAL, OP_CLASS, OP_WORD_CHAR, OP_NON_WORD_CHAR, OP_SPACE, OP_NON_SPACE, OP_DIGIT, OP_NON_DIGIT] at ht
    simp only [Nat.reduceEqDiff, or_self, if_false, if_true] at ht
    simpa [isWordCharAt] using ht
  rwa [specFlags_cs] at this

theorem consume_cls {e : Env} (h : FwdByte e) {bm : Nat} {f : Fiber} {cb : Nat} {neg : Bool} (hop : u8 e.code f.ip = OP_CLASS)
    (hneg : u8 e.code (f.ip + 1) = (if neg then 1 else 0)) (hbits : ∀ c : UInt8, classBit e.code f.ip c = inBitmap cb c)
    (hc : consumeOk e bm f = true) :
    Re.Matches (specFlags e.fl) e.buf (.cls cb neg) (e.start + bm) (e.start + bm + 1) := by
  have hq := consume_in_buf h hc
  have ht := consumeTest_of h hc
  have : Re.Matches (specFlags e.fl) e.buf (.cls cb neg) (e.start + bm) (e.start + bm + (specFlags e.fl).cs) := by
    apply Re.Matches.cls
    apply charOk_of rfl hq
    unfold consumeTest at ht
    simp only [hop, OP_ANY, OP_REPEAT_ANY_GREEDY, OP_REPEAT_ANY_UNGREEDY, OP_LITERAL, OP_NOT_LITERAL, OP_MASKED_LITERAL, OP_MASKED_NOT_LITERAL, OP_CLASS] at ht
    simp only [Nat.reduceEqDiff, or_self, if_false, if_true] at ht
    rw [hneg, hbits, hbits] at ht
    unfold testCls specFlags
    simp only
    cases neg
    · simpa using ht
    · simpa using ht
  rwa [specFlags_cs] at this

/-! ### zero-width instructions against the specification (forwards, byte mode) -/
theorem charOk_narrow {fl : Flags} (hw : fl.wide = false) (buf : Bytes) (t : UInt8 → Bool) (p : Nat) :
    charOk fl buf t p = (decide (p < buf.size) && t (byteAt buf (p : Int))) := by
  by_cases hp : p < buf.size
  · unfold charOk
    rw [byteAt_eq hp]
    simp [hw, hp]
  · unfold charOk
    have : buf[p]? = none := Array.getElem?_eq_none (by omega)
    rw [this]
    simp [hp]

theorem zw_bol {e : Env} (h : FwdByte e) {bm : Nat} (hz : zeroWidthOk e bm OP_MATCH_AT_START = true) : e.start + bm = 0 := by
  unfold zeroWidthOk at hz
  simp [OP_MATCH_AT_START, OP_WORD_BOUNDARY, OP_NON_WORD_BOUNDARY, h.notBack, Env.bwdSize] at hz
  omega

theorem zw_eol {e : Env} (h : FwdByte e) {bm : Nat} (hb : e.start + bm ≤ e.buf.size) (hz : zeroWidthOk e bm OP_MATCH_AT_END = true) :
    e.start + bm = e.buf.size := by
  unfold zeroWidthOk at hz
  simp [OP_MATCH_AT_END, OP_MATCH_AT_START, OP_WORD_BOUNDARY, OP_NON_WORD_BOUNDARY, h.notBack, Env.fwdSize] at hz
  omega

theorem zw_boundary {e : Env} (h : FwdByte e) {bm : Nat} (hbb : e.start + bm ≤ e.buf.size) :
    zeroWidthOk e bm OP_WORD_BOUNDARY = isBoundary (specFlags e.fl) e.buf (e.start + bm) := by
  have hcs : e.cs = 1 := cs_one h
  have hinp : e.inp bm = ((e.start + bm : Nat) : Int) := inp_fwd h bm
  have hb := h.notBack
  unfold zeroWidthOk isBoundary wordBefore wordAt
  simp only [OP_WORD_BOUNDARY, OP_NON_WORD_BOUNDARY, Nat.reduceEqDiff, true_or, if_true, if_false, hb, Bool.false_eq_true]
  rw [charOk_narrow rfl, charOk_narrow rfl, hinp, hcs]
  have hsf : (specFlags e.fl).cs = 1 := rfl
  rw [hsf]
  unfold isWordCharAt
  generalize hq : e.start + bm = q at hbb
  by_cases h0 : q = 0
  · subst h0
    have c1 : decide (((0:Nat):Int) - ((1:Nat):Int) ≥ 0) = false := by simp
    have c4 : decide (1 ≤ 0) = false := by simp
    rw [c1, c4]
    simp
    congr 1
    apply decide_eq_decide.2
    omega
  · have h1 : 1 ≤ q := by omega
    have e1 : ((q : Int) - ((1:Nat):Int)) = ((q - 1 : Nat) : Int) := by omega
    simp only [e1]
    have c1 : decide ((((q - 1 : Nat) : Int)) + ((1:Nat):Int) ≤ (e.buf.size : Int)) = true := by simp; omega
    have c2 : decide ((((q - 1 : Nat) : Int)) ≥ 0) = true := by simp
    have c3 : decide (q - 1 < e.buf.size) = true := by simp; omega
    have c4 : decide (1 ≤ q) = true := by simp; omega
    rw [c1, c2, c3, c4]
    by_cases h2 : q < e.buf.size
    · have d1 : decide ((q : Int) + ((1:Nat):Int) ≤ (e.buf.size : Int)) = true := by simp; omega
      have d2 : decide ((q : Int) ≥ 0) = true := by simp
      have d3 : decide (q < e.buf.size) = true := by simp; omega
      rw [d1, d2, d3]
      simp
    · have d1 : decide ((q : Int) + ((1:Nat):Int) ≤ (e.buf.size : Int)) = false := by simp; omega
      have d3 : decide (q < e.buf.size) = false := by simp; omega
      rw [d1, d3]
      simp

theorem zw_nonboundary (e : Env) (bm : Nat) : zeroWidthOk e bm OP_NON_WORD_BOUNDARY = !zeroWidthOk e bm OP_WORD_BOUNDARY := by
  unfold zeroWidthOk
  simp [OP_WORD_BOUNDARY, OP_NON_WORD_BOUNDARY]

/-! ### one machine step inside a segment keeps the continuation invariant -/
def modeAfter (stop : Bool) : Mode := if stop then .wait else .run
def modeCons (code : Code) (f : Fiber) : Mode :=
  if u8 code f.ip = OP_REPEAT_ANY_GREEDY ∨ u8 code f.ip = OP_REPEAT_ANY_UNGREEDY then .post else .run

def StepOK (e : Env) (r : Re) (a b : Nat) (K : Lang) (f : Fiber) (m : Mode) : Prop :=
  (∀ g, EStep e.code f g → m ≠ .wait → (Valid r a g.ip g.rc .run ∨ AtEnd b g .run) ∧
      ∀ q q', lang (specFlags e.fl) e.buf r a K g.ip g.rc .run q q' → lang (specFlags e.fl) e.buf r a K f.ip f.rc m q q') ∧
  (∀ g stop, AStep e.code f g stop → m ≠ .wait → (Valid r a g.ip g.rc (modeAfter stop) ∨ AtEnd b g (modeAfter stop)) ∧
      ∀ q q', lang (specFlags e.fl) e.buf r a K g.ip g.rc (modeAfter stop) q q' → lang (specFlags e.fl) e.buf r a K f.ip f.rc m q q') ∧
  (∀ bm, isConsuming (u8 e.code f.ip) = true → consumeOk e bm f = true → (isAnyOp (u8 e.code f.ip) → m = .wait) → m ≠ .post →
      (Valid r a (advance e.code f).ip (advance e.code f).rc (modeCons e.code f) ∨ AtEnd b (advance e.code f) (modeCons e.code f)) ∧
      ∀ q', lang (specFlags e.fl) e.buf r a K (advance e.code f).ip (advance e.code f).rc (modeCons e.code f) (e.start + bm + 1) q' →
        lang (specFlags e.fl) e.buf r a K f.ip f.rc m (e.start + bm) q') ∧
  (u8 e.code f.ip ≠ OP_MATCH) ∧
  (∀ bm, e.start + bm ≤ e.buf.size → isConsuming (u8 e.code f.ip) = false → zeroWidthOk e bm (u8 e.code f.ip) = true →
      (Valid r a (f.ip + 1) f.rc .run ∨ AtEnd b { f with ip := f.ip + 1 } .run) ∧
      ∀ q', lang (specFlags e.fl) e.buf r a K (f.ip + 1) f.rc .run (e.start + bm) q' →
        lang (specFlags e.fl) e.buf r a K f.ip f.rc m (e.start + bm) q')

theorem zw_split_false (e : Env) (bm : Nat) {op : Nat} (h : op = OP_SPLIT_A ∨ op = OP_SPLIT_B ∨ op = OP_JUMP) : zeroWidthOk e bm op = false := by
  rcases h with h | h | h <;> subst h <;>
    simp [zeroWidthOk, OP_SPLIT_A, OP_SPLIT_B, OP_JUMP, OP_WORD_BOUNDARY, OP_NON_WORD_BOUNDARY, OP_MATCH_AT_START, OP_MATCH_AT_END]

theorem advance_ip {code : Code} {f : Fiber} {op : Nat} (hop : u8 code f.ip = op)
    (hn : ¬ (op = OP_REPEAT_ANY_GREEDY ∨ op = OP_REPEAT_ANY_UNGREEDY)) : advance code f = { f with ip := f.ip + sizeOfInstr op } := by
  unfold advance
  rw [hop, if_neg hn]

theorem leaf_step (e : Env) (r : Re) (a n : Nat) (K : Lang) (f : Fiber) (m : Mode) (op : Nat)
    (hip : f.ip = a) (hrc : f.rc = -1) (hmode : m = .run) (hop : u8 e.code a = op)
    (hcons : isConsuming op = true) (hnctl : ¬ isCtl op) (hnany : ¬ (op = OP_REPEAT_ANY_GREEDY ∨ op = OP_REPEAT_ANY_UNGREEDY))
    (hnm : op ≠ OP_MATCH) (hsz : sizeOfInstr op = n) (hn : 0 < n)
    (hlang : ∀ ip rc md, lang (specFlags e.fl) e.buf r a K ip rc md =
      if ip = a then (fun q q' => ∃ t, Re.Matches (specFlags e.fl) e.buf r q t ∧ K t q') else K)
    (hm : ∀ bm, consumeOk e bm f = true → Re.Matches (specFlags e.fl) e.buf r (e.start + bm) (e.start + bm + 1)) :
    StepOK e r a (a + n) K f m := by
  have hopf : u8 e.code f.ip = op := by rw [hip]; exact hop
  refine ⟨?_, ?_, ?_, ?_, ?_⟩
  · intro g hg
    exfalso
    apply hnctl
    rw [← hopf]; exact estep_ctl hg
  · intro g st hg
    exfalso
    exact no_astep hg (by rw [hopf]; exact hnany)
  · intro bm _ hc _ _
    have hadv := advance_ip hopf hnany
    have hmc : modeCons e.code f = .run := by unfold modeCons; rw [hopf, if_neg hnany]
    rw [hadv, hmc]
    simp only
    refine ⟨.inr ⟨by rw [hip, hsz], hrc, rfl⟩, ?_⟩
    intro q' hq'
    rw [hip, hsz, hlang] at hq'
    have hne : ¬ (a + n = a) := by omega
    rw [if_neg hne] at hq'
    rw [hip, hlang, if_pos rfl]
    exact ⟨_, hm bm hc, hq'⟩
  · rw [hopf]; exact hnm
  · intro bm _ hnc
    rw [hopf, hcons] at hnc; simp at hnc

theorem zw_step (e : Env) (r : Re) (a : Nat) (K : Lang) (f : Fiber) (m : Mode) (op : Nat)
    (hip : f.ip = a) (hrc : f.rc = -1) (hmode : m = .run) (hop : u8 e.code a = op)
    (hncons : isConsuming op = false) (hnctl : ¬ isCtl op) (hnany : ¬ (op = OP_REPEAT_ANY_GREEDY ∨ op = OP_REPEAT_ANY_UNGREEDY))
    (hnm : op ≠ OP_MATCH)
    (hlang : ∀ ip rc md, lang (specFlags e.fl) e.buf r a K ip rc md =
      if ip = a then (fun q q' => ∃ t, Re.Matches (specFlags e.fl) e.buf r q t ∧ K t q') else K)
    (hm : ∀ bm, e.start + bm ≤ e.buf.size → zeroWidthOk e bm op = true →
      Re.Matches (specFlags e.fl) e.buf r (e.start + bm) (e.start + bm)) :
    StepOK e r a (a + 1) K f m := by
  have hopf : u8 e.code f.ip = op := by rw [hip]; exact hop
  refine ⟨?_, ?_, ?_, ?_, ?_⟩
  · intro g hg
    exfalso
    apply hnctl
    rw [← hopf]; exact estep_ctl hg
  · intro g st hg
    exfalso
    exact no_astep hg (by rw [hopf]; exact hnany)
  · intro bm hc
    rw [hopf, hncons] at hc; simp at hc
  · rw [hopf]; exact hnm
  · intro bm hb _ hz
    rw [hopf] at hz
    refine ⟨.inr ⟨by simp [hip], hrc, rfl⟩, ?_⟩
    intro q' hq'
    rw [hip, hlang] at hq'
    have hne : ¬ (a + 1 = a) := by omega
    rw [if_neg hne] at hq'
    rw [hip, hlang, if_pos rfl]
    exact ⟨_, hm bm hb hz, hq'⟩

/-- a spinning REPEAT_ANY accepts one character -/
theorem consume_anyrep {e : Env} (h : FwdByte e) {bm : Nat} {f : Fiber}
    (hop : u8 e.code f.ip = OP_REPEAT_ANY_GREEDY ∨ u8 e.code f.ip = OP_REPEAT_ANY_UNGREEDY) (hc : consumeOk e bm f = true) :
    e.start + bm + 1 ∈ step (specFlags e.fl) e.buf (testAny (specFlags e.fl)) (e.start + bm) := by
  have hq := consume_in_buf h hc
  have ht := consumeTest_of h hc
  rw [mem_step]
  refine ⟨?_, by rw [specFlags_cs]⟩
  apply charOk_of rfl hq
  unfold consumeTest at ht
  have : (u8 e.code f.ip = OP_ANY ∨ u8 e.code f.ip = OP_REPEAT_ANY_GREEDY ∨ u8 e.code f.ip = OP_REPEAT_ANY_UNGREEDY) := .inr hop
  simp only [this, if_true] at ht
  unfold testAny specFlags
  exact ht

theorem rc0_neg : rc0 (-1) = 0 := by simp [rc0]
theorem rc0_natCast (n : Nat) : rc0 ((n : Nat) : Int) = n := by
  unfold rc0
  have : ¬ ((n : Int) = -1) := by omega
  rw [if_neg this]; omega
theorem rc0_pos {k : Int} (h : 1 ≤ k) : ((rc0 k : Nat) : Int) = k := by
  unfold rc0
  have : ¬ k = -1 := by omega
  rw [if_neg this]; omega

theorem jump_step (e : Env) (h : FwdByte e) (a lo hi : Nat) (g : Bool) (K : Lang) (f : Fiber) (m : Mode)
    (hop : u8 e.code a = OP_REPEAT_ANY_GREEDY ∨ u8 e.code a = OP_REPEAT_ANY_UNGREEDY)
    (hlo : u16 e.code (a + 1) = lo) (hhi : u16 e.code (a + 3) = hi) (hlh : lo ≤ hi)
    (hv : Valid (.rangeAny lo hi g) a f.ip f.rc m) : StepOK e (.rangeAny lo hi g) a (a + 5) K f m := by
  simp only [Valid] at hv
  obtain ⟨hip, hst⟩ := hv
  have hopf : u8 e.code f.ip = OP_REPEAT_ANY_GREEDY ∨ u8 e.code f.ip = OP_REPEAT_ANY_UNGREEDY := by rw [hip]; exact hop
  -- the counter as a natural number
  have hrcc : ((if f.rc = -1 then (0 : Int) else f.rc) = (rc0 f.rc : Nat)) := by
    rcases hst with ⟨_, h1⟩ | ⟨_, h1, _⟩
    · rw [h1]; simp [rc0]
    · have : ¬ f.rc = -1 := by omega
      rw [if_neg this, rc0_pos h1]
  have hbound : rc0 f.rc ≤ hi := by
    rcases hst with ⟨_, h1⟩ | ⟨_, h1, h2⟩
    · rw [h1, rc0_neg]; omega
    · have := rc0_pos h1; omega
  refine ⟨?_, ?_, ?_, ?_, ?_⟩
  · intro g' hg
    exact absurd hg (fun hh => no_estep_any hh hopf)
  · intro g' stop hg hmw
    cases hg with
    | spin _ hcond =>
      rw [hip, hlo, hhi, hrcc] at hcond
      have hlt : rc0 f.rc < hi := by omega
      simp only [modeAfter, if_true]
      have hnew : ((if f.rc = -1 then (0 : Int) else f.rc) + 1) = ((rc0 f.rc + 1 : Nat) : Int) := by rw [hrcc]; omega
      refine ⟨.inl ?_, ?_⟩
      · simp only [Valid]
        refine ⟨hip, .inr ⟨by simp, ?_, ?_⟩⟩
        · rw [hnew]; omega
        · rw [hnew]; omega
      · intro q q' hq
        simp only [lang, hip, if_true] at hq ⊢
        rw [hnew] at hq
        have hr : rc0 ((rc0 f.rc + 1 : Nat) : Int) = rc0 f.rc + 1 := rc0_natCast _
        rw [hr] at hq
        obtain ⟨j, t, h1, h2, h3, hp, hk⟩ := hq
        have key : ∃ j t, lo ≤ rc0 f.rc + j ∧ rc0 f.rc + j ≤ hi ∧ Path (step (specFlags e.fl) e.buf (testAny (specFlags e.fl))) j q t ∧ K t q' :=
          ⟨j, t, by omega, by omega, hp, hk⟩
        cases m with
        | run => exact key
        | wait => exact absurd rfl hmw
        | post => exact key
    | cont _ hcond =>
      rw [hip, hlo, hrcc] at hcond
      simp only [modeAfter]
      refine ⟨.inr ⟨by simp [hip], rfl, rfl⟩, ?_⟩
      intro q q' hq
      have hne : ¬ (a + 5 = a) := by omega
      simp only [lang, hip, if_true] at hq ⊢
      rw [if_neg hne] at hq
      have key : ∃ j t, lo ≤ rc0 f.rc + j ∧ rc0 f.rc + j ≤ hi ∧ Path (step (specFlags e.fl) e.buf (testAny (specFlags e.fl))) j q t ∧ K t q' :=
        ⟨0, q, by omega, by omega, .nil, hq⟩
      cases m with
      | run => exact key
      | wait => exact absurd rfl hmw
      | post => exact key
  · intro bm _ hc hmw hmp
    have hwait : m = .wait := hmw hopf
    have hadv : advance e.code f = f := by unfold advance; rw [if_pos hopf]
    have hmc : modeCons e.code f = .post := by unfold modeCons; rw [if_pos hopf]
    rw [hadv, hmc]
    have hrc1 : 1 ≤ f.rc ∧ f.rc ≤ hi := by
      rcases hst with ⟨h1, _⟩ | ⟨_, h1, h2⟩
      · rw [hwait] at h1; simp at h1
      · exact ⟨h1, h2⟩
    refine ⟨.inl ?_, ?_⟩
    · simp only [Valid]
      exact ⟨hip, .inr ⟨by simp, hrc1.1, hrc1.2⟩⟩
    · intro q' hq
      subst hwait
      simp only [lang, hip, if_true] at hq ⊢
      obtain ⟨j, t, h1, h2, hp, hk⟩ := hq
      have hk1 : 1 ≤ rc0 f.rc := by have := rc0_pos hrc1.1; omega
      exact ⟨j + 1, t, by omega, by omega, by omega, .cons (consume_anyrep h hopf hc) hp, hk⟩
  · rcases hopf with h1 | h1 <;> rw [h1] <;> simp [OP_REPEAT_ANY_GREEDY, OP_REPEAT_ANY_UNGREEDY, OP_MATCH]
  · intro bm _ hnc
    exfalso
    rcases hopf with h1 | h1 <;> rw [h1] at hnc <;> simp [isConsuming, OP_REPEAT_ANY_GREEDY, OP_REPEAT_ANY_UNGREEDY, OP_ANY] at hnc

theorem seg_step (e : Env) (h : FwdByte e) {r : Re} {a b : Nat} (hs : Seg e.code r a b) :
    ∀ (K : Lang) (f : Fiber) (md : Mode), Valid r a f.ip f.rc md → StepOK e r a b K f md := by
  induction hs with
  | @lit a b h1 h2 =>
    intro K f md hst
    simp only [Valid] at hst
    exact leaf_step e (.lit b) a 2 K f md OP_LITERAL hst.1 hst.2.1 hst.2.2 h1 (by decide) (by unfold isCtl; decide) (by decide) (by decide) (by decide) (by omega)
      (fun ip rc md => by simp [lang]) (fun bm hc => consume_lit h (by rw [hst.1]; exact h1) (by rw [hst.1]; exact h2) hc)
  | @notLit a b h1 h2 =>
    intro K f md hst
    simp only [Valid] at hst
    exact leaf_step e (.notLit b) a 2 K f md OP_NOT_LITERAL hst.1 hst.2.1 hst.2.2 h1 (by decide) (by unfold isCtl; decide) (by decide) (by decide) (by decide) (by omega)
      (fun ip rc md => by simp [lang]) (fun bm hc => consume_notLit h (by rw [hst.1]; exact h1) (by rw [hst.1]; exact h2) hc)
  | @masked a v m h1 h2 h3 =>
    intro K f md hst
    simp only [Valid] at hst
    exact leaf_step e (.masked v m) a 3 K f md OP_MASKED_LITERAL hst.1 hst.2.1 hst.2.2 h1 (by decide) (by unfold isCtl; decide) (by decide) (by decide) (by decide) (by omega)
      (fun ip rc md => by simp [lang]) (fun bm hc => consume_masked h (by rw [hst.1]; exact h1) (by rw [hst.1]; exact h2) (by rw [hst.1]; exact h3) hc)
  | @maskedNot a v m h1 h2 h3 =>
    intro K f md hst
    simp only [Valid] at hst
    exact leaf_step e (.maskedNot v m) a 3 K f md OP_MASKED_NOT_LITERAL hst.1 hst.2.1 hst.2.2 h1 (by decide) (by unfold isCtl; decide) (by decide) (by decide) (by decide) (by omega)
      (fun ip rc md => by simp [lang]) (fun bm hc => consume_maskedNot h (by rw [hst.1]; exact h1) (by rw [hst.1]; exact h2) (by rw [hst.1]; exact h3) hc)
  | @any a h1 =>
    intro K f md hst
    simp only [Valid] at hst
    exact leaf_step e .any a 1 K f md OP_ANY hst.1 hst.2.1 hst.2.2 h1 (by decide) (by unfold isCtl; decide) (by decide) (by decide) (by decide) (by omega)
      (fun ip rc md => by simp [lang]) (fun bm hc => consume_any h (by rw [hst.1]; exact h1) hc)
  | @cls a cb neg h1 h2 h3 =>
    intro K f md hst
    simp only [Valid] at hst
    exact leaf_step e (.cls cb neg) a 34 K f md OP_CLASS hst.1 hst.2.1 hst.2.2 h1 (by decide) (by unfold isCtl; decide) (by decide) (by decide) (by decide) (by omega)
      (fun ip rc md => by simp [lang]) (fun bm hc => consume_cls h (by rw [hst.1]; exact h1) (by rw [hst.1]; exact h2) (by rw [hst.1]; exact h3) hc)
  | @wordCh a h1 =>
    intro K f md hst
    simp only [Valid] at hst
    exact leaf_step e .wordCh a 1 K f md OP_WORD_CHAR hst.1 hst.2.1 hst.2.2 h1 (by decide) (by unfold isCtl; decide) (by decide) (by decide) (by decide) (by omega)
      (fun ip rc md => by simp [lang]) (fun bm hc => consume_wordCh h (by rw [hst.1]; exact h1) hc)
  | @nonWordCh a h1 =>
    intro K f md hst
    simp only [Valid] at hst
    exact leaf_step e .nonWordCh a 1 K f md OP_NON_WORD_CHAR hst.1 hst.2.1 hst.2.2 h1 (by decide) (by unfold isCtl; decide) (by decide) (by decide) (by decide) (by omega)
      (fun ip rc md => by simp [lang]) (fun bm hc => consume_nonWordCh h (by rw [hst.1]; exact h1) hc)
  | @space a h1 =>
    intro K f md hst
    simp only [Valid] at hst
    exact leaf_step e .space a 1 K f md OP_SPACE hst.1 hst.2.1 hst.2.2 h1 (by decide) (by unfold isCtl; decide) (by decide) (by decide) (by decide) (by omega)
      (fun ip rc md => by simp [lang]) (fun bm hc => consume_space h (by rw [hst.1]; exact h1) hc)
  | @nonSpace a h1 =>
    intro K f md hst
    simp only [Valid] at hst
    exact leaf_step e .nonSpace a 1 K f md OP_NON_SPACE hst.1 hst.2.1 hst.2.2 h1 (by decide) (by unfold isCtl; decide) (by decide) (by decide) (by decide) (by omega)
      (fun ip rc md => by simp [lang]) (fun bm hc => consume_nonSpace h (by rw [hst.1]; exact h1) hc)
  | @digit a h1 =>
    intro K f md hst
    simp only [Valid] at hst
    exact leaf_step e .digit a 1 K f md OP_DIGIT hst.1 hst.2.1 hst.2.2 h1 (by decide) (by unfold isCtl; decide) (by decide) (by decide) (by decide) (by omega)
      (fun ip rc md => by simp [lang]) (fun bm hc => consume_digit h (by rw [hst.1]; exact h1) hc)
  | @nonDigit a h1 =>
    intro K f md hst
    simp only [Valid] at hst
    exact leaf_step e .nonDigit a 1 K f md OP_NON_DIGIT hst.1 hst.2.1 hst.2.2 h1 (by decide) (by unfold isCtl; decide) (by decide) (by decide) (by decide) (by omega)
      (fun ip rc md => by simp [lang]) (fun bm hc => consume_nonDigit h (by rw [hst.1]; exact h1) hc)
  | @bol a h1 =>
    intro K f md hst
    simp only [Valid] at hst
    exact zw_step e .bol a K f md OP_MATCH_AT_START hst.1 hst.2.1 hst.2.2 h1 (by decide) (by unfold isCtl; decide) (by decide) (by decide)
      (fun ip rc md => by simp [lang]) (fun bm _ hz => by rw [zw_bol h hz]; exact .bol)
  | @eol a h1 =>
    intro K f md hst
    simp only [Valid] at hst
    exact zw_step e .eol a K f md OP_MATCH_AT_END hst.1 hst.2.1 hst.2.2 h1 (by decide) (by unfold isCtl; decide) (by decide) (by decide)
      (fun ip rc md => by simp [lang]) (fun bm hb hz => by rw [zw_eol h hb hz]; exact .eol)
  | @wordB a h1 =>
    intro K f md hst
    simp only [Valid] at hst
    exact zw_step e .wordB a K f md OP_WORD_BOUNDARY hst.1 hst.2.1 hst.2.2 h1 (by decide) (by unfold isCtl; decide) (by decide) (by decide)
      (fun ip rc md => by simp [lang]) (fun bm hb hz => .wordB (by rw [← zw_boundary h hb]; exact hz))
  | @nonWordB a h1 =>
    intro K f md hst
    simp only [Valid] at hst
    exact zw_step e .nonWordB a K f md OP_NON_WORD_BOUNDARY hst.1 hst.2.1 hst.2.2 h1 (by decide) (by unfold isCtl; decide) (by decide) (by decide)
      (fun ip rc md => by simp [lang]) (fun bm hb hz => .nonWordB (by
        rw [zw_nonboundary, zw_boundary h hb] at hz
        simpa using hz))
  | @jump a lo hi g h1 h2 h3 h4 =>
    intro K f md hst
    exact jump_step e h a lo hi g K f md h1 h2 h3 h4 hst
  | @star x a m g o1 o2 s1 o3 o4 ih =>
    intro K f md hst
    have hm : m = a + 4 + clen x := by have := s1.len; omega
    have p1 := s1.pos
    simp only [Valid] at hst
    rw [← hm] at hst
    -- the language at the loop head
    obtain ⟨SK, hSK⟩ : ∃ SK : Lang, SK = fun q q' => ∃ t, Re.Matches (specFlags e.fl) e.buf (.star x g) q t ∧ K t q' := ⟨_, rfl⟩
    have hla : ∀ rc md, lang (specFlags e.fl) e.buf (.star x g) a K a rc md = SK := by
      intro rc md; simp only [lang, if_true]; rw [hSK]
    have hlx : ∀ ip rc md, a < ip → ip < m → lang (specFlags e.fl) e.buf (.star x g) a K ip rc md = lang (specFlags e.fl) e.buf x (a + 4) SK ip rc md := by
      intro ip rc md h1 h2; simp only [lang]; rw [← hm, if_neg (by omega), if_pos h2, hSK]
    have hlm : ∀ rc md, lang (specFlags e.fl) e.buf (.star x g) a K m rc md = SK := by
      intro rc md; simp only [lang]; rw [← hm, if_neg (by omega), if_neg (by omega), if_pos rfl, hSK]
    have hlb : ∀ rc md, lang (specFlags e.fl) e.buf (.star x g) a K (m + 3) rc md = K := fun rc md =>
      lang_end _ _ (Seg.star (g := g) o1 o2 s1 o3 o4) K rc md
    have hxm : ∀ rc md, lang (specFlags e.fl) e.buf x (a + 4) SK m rc md = SK := fun rc md => lang_end _ _ s1 _ rc md
    have liftx : ∀ (g' : Fiber) (md' : Mode), (Valid x (a + 4) g'.ip g'.rc md' ∨ AtEnd m g' md') →
        (Valid (.star x g) a g'.ip g'.rc md' ∨ AtEnd (m + 3) g' md') ∧
        lang (specFlags e.fl) e.buf (.star x g) a K g'.ip g'.rc md' = lang (specFlags e.fl) e.buf x (a + 4) SK g'.ip g'.rc md' := by
      intro g' md' hg
      rcases hg with h1 | ⟨h1, h2, h3⟩
      · have r := valid_range s1 h1
        exact ⟨.inl (.inr (.inl h1)), hlx _ _ _ (by omega) r.2⟩
      · subst h3
        exact ⟨.inl (.inr (.inr ⟨by rw [h1, hm], h2, rfl⟩)), by rw [h1, hlm, hxm]⟩
    rcases hst with hst | hst | hst
    · -- the split at the loop head
      obtain ⟨hip, hrc, hmd⟩ := hst
      have hop : u8 e.code f.ip = OP_SPLIT_A ∨ u8 e.code f.ip = OP_SPLIT_B := by rw [hip]; exact o1
      have hnany : ¬ (u8 e.code f.ip = OP_REPEAT_ANY_GREEDY ∨ u8 e.code f.ip = OP_REPEAT_ANY_UNGREEDY) := by
        rcases hop with h1 | h1 <;> rw [h1] <;> decide
      refine ⟨?_, ?_, ?_, by rcases hop with h1 | h1 <;> rw [h1] <;> decide, fun bm _ _ hz => by
        rw [zw_split_false e bm (by rcases hop with h1 | h1; exact .inl h1; exact .inr (.inl h1))] at hz; simp at hz⟩
      · intro g' hg _
        rcases estep_split hg hop with rfl | rfl
        · obtain ⟨l1, l2⟩ := liftx { f with ip := f.ip + 4 } .run (.inl (by simp only; rw [hip, hrc]; exact valid_first s1))
          refine ⟨l1, ?_⟩
          intro q q' hq
          rw [hip, hla]; rw [l2] at hq
          simp only at hq
          rw [hip, hrc] at hq
          obtain ⟨t, ht, hk⟩ := lang_entry _ _ s1 SK _ _ hq
          rw [hSK] at hk ⊢
          obtain ⟨t2, ht2, hk2⟩ := hk
          exact ⟨t2, .starStep ht ht2, hk2⟩
        · refine ⟨.inr ⟨by simp only; rw [hip, o2], hrc, rfl⟩, ?_⟩
          intro q q' hq
          simp only at hq
          rw [hip, o2, hlb] at hq
          rw [hip, hla, hSK]
          exact ⟨q, .starNil, hq⟩
      · intro g' stop hg _
        exact absurd hg (fun hh => no_astep hh hnany)
      · intro bm hc
        rcases hop with h1 | h1 <;> rw [h1] at hc <;> simp [isConsuming, OP_SPLIT_A, OP_SPLIT_B, OP_JUMP, OP_ANY, OP_REPEAT_ANY_GREEDY, OP_REPEAT_ANY_UNGREEDY, OP_LITERAL, OP_NOT_LITERAL, OP_MASKED_LITERAL,
          OP_MASKED_NOT_LITERAL, OP_CLASS, OP_WORD_CHAR, OP_NON_WORD_CHAR, OP_SPACE, OP_NON_SPACE, OP_DIGIT, OP_NON_DIGIT] at hc
    · have r := valid_range s1 hst
      obtain ⟨e1, e2, e3, e4, e5⟩ := ih SK f md hst
      refine ⟨?_, ?_, ?_, e4, ?_⟩
      · intro g' hg hmw
        obtain ⟨g1, g2⟩ := e1 g' hg hmw
        obtain ⟨l1, l2⟩ := liftx g' .run g1
        refine ⟨l1, ?_⟩
        intro q q' hq
        rw [hlx _ _ _ (by omega) r.2]; rw [l2] at hq; exact g2 q q' hq
      · intro g' stop hg hmw
        obtain ⟨g1, g2⟩ := e2 g' stop hg hmw
        obtain ⟨l1, l2⟩ := liftx g' _ g1
        refine ⟨l1, ?_⟩
        intro q q' hq
        rw [hlx _ _ _ (by omega) r.2]; rw [l2] at hq; exact g2 q q' hq
      · intro bm hc1 hc2 hc3 hc4
        obtain ⟨g1, g2⟩ := e3 bm hc1 hc2 hc3 hc4
        obtain ⟨l1, l2⟩ := liftx _ _ g1
        refine ⟨l1, ?_⟩
        intro q' hq
        rw [hlx _ _ _ (by omega) r.2]; rw [l2] at hq; exact g2 q' hq
      · intro bm hz0 hz1 hz2
        obtain ⟨g1, g2⟩ := e5 bm hz0 hz1 hz2
        obtain ⟨l1, l2⟩ := liftx { f with ip := f.ip + 1 } .run g1
        refine ⟨l1, ?_⟩
        intro q' hq
        rw [hlx _ _ _ (by omega) r.2]; rw [l2] at hq; exact g2 q' hq
    · -- the jump back to the loop head
      obtain ⟨hip, hrc, hmd⟩ := hst
      have hop : u8 e.code f.ip = OP_JUMP := by rw [hip]; exact o3
      have hnany : ¬ (u8 e.code f.ip = OP_REPEAT_ANY_GREEDY ∨ u8 e.code f.ip = OP_REPEAT_ANY_UNGREEDY) := by
        rw [hop]; decide
      refine ⟨?_, ?_, ?_, by rw [hop]; decide, fun bm _ _ hz => by rw [hop, zw_split_false e bm (.inr (.inr rfl))] at hz; simp at hz⟩
      · intro g' hg _
        rw [estep_jump hg hop]
        refine ⟨.inl (.inl ⟨by simp only; rw [hip, o4], hrc, rfl⟩), ?_⟩
        intro q q' hq
        simp only at hq
        rw [hip, o4, hla] at hq
        rw [hip, hlm]; exact hq
      · intro g' stop hg _
        exact absurd hg (fun hh => no_astep hh hnany)
      · intro bm hc
        rw [hop] at hc
        simp [isConsuming, OP_SPLIT_A, OP_SPLIT_B, OP_JUMP, OP_ANY, OP_REPEAT_ANY_GREEDY, OP_REPEAT_ANY_UNGREEDY, OP_LITERAL, OP_NOT_LITERAL, OP_MASKED_LITERAL,
          OP_MASKED_NOT_LITERAL, OP_CLASS, OP_WORD_CHAR, OP_NON_WORD_CHAR, OP_SPACE, OP_NON_SPACE, OP_DIGIT, OP_NON_DIGIT] at hc
  | @opt x a m g o1 o2 s1 ih =>
    intro K f md hst
    have p1 := s1.pos
    simp only [Valid] at hst
    obtain ⟨OK, hOK⟩ : ∃ OK : Lang, OK = fun q q' => ∃ t, Re.Matches (specFlags e.fl) e.buf (.range x 0 1 g) q t ∧ K t q' := ⟨_, rfl⟩
    have hla : ∀ rc md, lang (specFlags e.fl) e.buf (.range x 0 1 g) a K a rc md = OK := by
      intro rc md; simp only [lang, if_true]; rw [hOK]
    have hlx : ∀ ip rc md, a < ip → lang (specFlags e.fl) e.buf (.range x 0 1 g) a K ip rc md = lang (specFlags e.fl) e.buf x (a + 4) K ip rc md := by
      intro ip rc md h1; simp only [lang]; rw [if_neg (by omega)]
    have liftx : ∀ (g' : Fiber) (md' : Mode), (Valid x (a + 4) g'.ip g'.rc md' ∨ AtEnd m g' md') →
        (Valid (.range x 0 1 g) a g'.ip g'.rc md' ∨ AtEnd m g' md') ∧
        lang (specFlags e.fl) e.buf (.range x 0 1 g) a K g'.ip g'.rc md' = lang (specFlags e.fl) e.buf x (a + 4) K g'.ip g'.rc md' := by
      intro g' md' hg
      rcases hg with h1 | ⟨h1, h2, h3⟩
      · have r := valid_range s1 h1
        exact ⟨.inl (.inr h1), hlx _ _ _ (by omega)⟩
      · exact ⟨.inr ⟨h1, h2, h3⟩, hlx _ _ _ (by rw [h1]; omega)⟩
    rcases hst with hst | hst
    · -- the split: into the body, or over it
      obtain ⟨hip, hrc, hmd⟩ := hst
      have hop : u8 e.code f.ip = OP_SPLIT_A ∨ u8 e.code f.ip = OP_SPLIT_B := by rw [hip]; exact o1
      have hnany : ¬ (u8 e.code f.ip = OP_REPEAT_ANY_GREEDY ∨ u8 e.code f.ip = OP_REPEAT_ANY_UNGREEDY) := by
        rcases hop with h1 | h1 <;> rw [h1] <;> decide
      refine ⟨?_, ?_, ?_, by rcases hop with h1 | h1 <;> rw [h1] <;> decide, fun bm _ _ hz => by
        rw [zw_split_false e bm (by rcases hop with h1 | h1; exact .inl h1; exact .inr (.inl h1))] at hz; simp at hz⟩
      · intro g' hg _
        rcases estep_split hg hop with rfl | rfl
        · obtain ⟨l1, l2⟩ := liftx { f with ip := f.ip + 4 } .run (.inl (by simp only; rw [hip, hrc]; exact valid_first s1))
          refine ⟨l1, ?_⟩
          intro q q' hq
          rw [hip, hla]; rw [l2] at hq
          simp only at hq
          rw [hip, hrc] at hq
          obtain ⟨t, ht, hk⟩ := lang_entry _ _ s1 K _ _ hq
          rw [hOK]
          exact ⟨t, .rangeStep (by decide) ht .rangeStop, hk⟩
        · refine ⟨.inr ⟨by simp only; rw [hip, o2], hrc, rfl⟩, ?_⟩
          intro q q' hq
          simp only at hq
          rw [hip, o2, lang_end _ _ (Seg.opt (g := g) o1 o2 s1) K] at hq
          rw [hip, hla, hOK]
          exact ⟨q, .rangeStop, hq⟩
      · intro g' stop hg _
        exact absurd hg (fun hh => no_astep hh hnany)
      · intro bm hc
        rcases hop with h1 | h1 <;> rw [h1] at hc <;> simp [isConsuming, OP_SPLIT_A, OP_SPLIT_B, OP_JUMP, OP_ANY, OP_REPEAT_ANY_GREEDY, OP_REPEAT_ANY_UNGREEDY, OP_LITERAL, OP_NOT_LITERAL, OP_MASKED_LITERAL,
          OP_MASKED_NOT_LITERAL, OP_CLASS, OP_WORD_CHAR, OP_NON_WORD_CHAR, OP_SPACE, OP_NON_SPACE, OP_DIGIT, OP_NON_DIGIT] at hc
    · have r := valid_range s1 hst
      obtain ⟨e1, e2, e3, e4, e5⟩ := ih K f md hst
      refine ⟨?_, ?_, ?_, e4, ?_⟩
      · intro g' hg hmw
        obtain ⟨g1, g2⟩ := e1 g' hg hmw
        obtain ⟨l1, l2⟩ := liftx g' .run g1
        refine ⟨l1, ?_⟩
        intro q q' hq
        rw [hlx _ _ _ (by omega)]; rw [l2] at hq; exact g2 q q' hq
      · intro g' stop hg hmw
        obtain ⟨g1, g2⟩ := e2 g' stop hg hmw
        obtain ⟨l1, l2⟩ := liftx g' _ g1
        refine ⟨l1, ?_⟩
        intro q q' hq
        rw [hlx _ _ _ (by omega)]; rw [l2] at hq; exact g2 q q' hq
      · intro bm hc1 hc2 hc3 hc4
        obtain ⟨g1, g2⟩ := e3 bm hc1 hc2 hc3 hc4
        obtain ⟨l1, l2⟩ := liftx _ _ g1
        refine ⟨l1, ?_⟩
        intro q' hq
        rw [hlx _ _ _ (by omega)]; rw [l2] at hq; exact g2 q' hq
      · intro bm hz0 hz1 hz2
        obtain ⟨g1, g2⟩ := e5 bm hz0 hz1 hz2
        obtain ⟨l1, l2⟩ := liftx { f with ip := f.ip + 1 } .run g1
        refine ⟨l1, ?_⟩
        intro q' hq
        rw [hlx _ _ _ (by omega)]; rw [l2] at hq; exact g2 q' hq
  | @plus x a m g s1 o1 o2 ih =>
    intro K f md hst
    have hm : m = a + clen x := s1.len
    have p1 := s1.pos
    simp only [Valid] at hst
    rw [← hm] at hst
    obtain ⟨PK, hPK⟩ : ∃ PK : Lang, PK = fun q q' => K q q' ∨ ∃ t, Re.Matches (specFlags e.fl) e.buf (.plus x g) q t ∧ K t q' := ⟨_, rfl⟩
    have hlx : ∀ ip rc md, ip < m → lang (specFlags e.fl) e.buf (.plus x g) a K ip rc md = lang (specFlags e.fl) e.buf x a PK ip rc md := by
      intro ip rc md h2; simp only [lang]; rw [← hm, if_pos h2, hPK]
    have hlm : ∀ rc md, lang (specFlags e.fl) e.buf (.plus x g) a K m rc md = PK := by
      intro rc md; simp only [lang]; rw [← hm, if_neg (by omega), if_pos rfl, hPK]
    have hlb : ∀ rc md, lang (specFlags e.fl) e.buf (.plus x g) a K (m + 4) rc md = K := fun rc md =>
      lang_end _ _ (Seg.plus (g := g) s1 o1 o2) K rc md
    have hxm : ∀ rc md, lang (specFlags e.fl) e.buf x a PK m rc md = PK := fun rc md => lang_end _ _ s1 _ rc md
    have liftx : ∀ (g' : Fiber) (md' : Mode), (Valid x a g'.ip g'.rc md' ∨ AtEnd m g' md') →
        (Valid (.plus x g) a g'.ip g'.rc md' ∨ AtEnd (m + 4) g' md') ∧
        lang (specFlags e.fl) e.buf (.plus x g) a K g'.ip g'.rc md' = lang (specFlags e.fl) e.buf x a PK g'.ip g'.rc md' := by
      intro g' md' hg
      rcases hg with h1 | ⟨h1, h2, h3⟩
      · have r := valid_range s1 h1
        exact ⟨.inl (.inl h1), hlx _ _ _ r.2⟩
      · subst h3
        exact ⟨.inl (.inr ⟨by rw [h1, hm], h2, rfl⟩), by rw [h1, hlm, hxm]⟩
    rcases hst with hst | hst
    · have r := valid_range s1 hst
      obtain ⟨e1, e2, e3, e4, e5⟩ := ih PK f md hst
      refine ⟨?_, ?_, ?_, e4, ?_⟩
      · intro g' hg hmw
        obtain ⟨g1, g2⟩ := e1 g' hg hmw
        obtain ⟨l1, l2⟩ := liftx g' .run g1
        refine ⟨l1, ?_⟩
        intro q q' hq
        rw [hlx _ _ _ r.2]; rw [l2] at hq; exact g2 q q' hq
      · intro g' stop hg hmw
        obtain ⟨g1, g2⟩ := e2 g' stop hg hmw
        obtain ⟨l1, l2⟩ := liftx g' _ g1
        refine ⟨l1, ?_⟩
        intro q q' hq
        rw [hlx _ _ _ r.2]; rw [l2] at hq; exact g2 q q' hq
      · intro bm hc1 hc2 hc3 hc4
        obtain ⟨g1, g2⟩ := e3 bm hc1 hc2 hc3 hc4
        obtain ⟨l1, l2⟩ := liftx _ _ g1
        refine ⟨l1, ?_⟩
        intro q' hq
        rw [hlx _ _ _ r.2]; rw [l2] at hq; exact g2 q' hq
      · intro bm hz0 hz1 hz2
        obtain ⟨g1, g2⟩ := e5 bm hz0 hz1 hz2
        obtain ⟨l1, l2⟩ := liftx { f with ip := f.ip + 1 } .run g1
        refine ⟨l1, ?_⟩
        intro q' hq
        rw [hlx _ _ _ r.2]; rw [l2] at hq; exact g2 q' hq
    · -- the split after the body
      obtain ⟨hip, hrc, hmd⟩ := hst
      have hop : u8 e.code f.ip = OP_SPLIT_A ∨ u8 e.code f.ip = OP_SPLIT_B := by rw [hip]; exact o1
      have hnany : ¬ (u8 e.code f.ip = OP_REPEAT_ANY_GREEDY ∨ u8 e.code f.ip = OP_REPEAT_ANY_UNGREEDY) := by
        rcases hop with h1 | h1 <;> rw [h1] <;> decide
      refine ⟨?_, ?_, ?_, by rcases hop with h1 | h1 <;> rw [h1] <;> decide, fun bm _ _ hz => by
        rw [zw_split_false e bm (by rcases hop with h1 | h1; exact .inl h1; exact .inr (.inl h1))] at hz; simp at hz⟩
      · intro g' hg _
        rcases estep_split hg hop with rfl | rfl
        · refine ⟨.inr ⟨by simp only; rw [hip], hrc, rfl⟩, ?_⟩
          intro q q' hq
          simp only at hq
          rw [hip, hlb] at hq
          rw [hip, hlm, hPK]
          exact .inl hq
        · obtain ⟨l1, l2⟩ := liftx { f with ip := addOff f.ip (i16 e.code (f.ip + 2)) } .run
            (.inl (by simp only; rw [hip, o2, hrc]; exact valid_first s1))
          refine ⟨l1, ?_⟩
          intro q q' hq
          rw [l2] at hq
          simp only at hq
          rw [hip, o2, hrc] at hq
          obtain ⟨t, ht, hk⟩ := lang_entry _ _ s1 PK _ _ hq
          rw [hip, hlm]
          rw [hPK] at hk ⊢
          rcases hk with hk | ⟨t2, ht2, hk2⟩
          · exact .inr ⟨t, .plusOne ht, hk⟩
          · exact .inr ⟨t2, .plusStep ht ht2, hk2⟩
      · intro g' stop hg _
        exact absurd hg (fun hh => no_astep hh hnany)
      · intro bm hc
        rcases hop with h1 | h1 <;> rw [h1] at hc <;> simp [isConsuming, OP_SPLIT_A, OP_SPLIT_B, OP_JUMP, OP_ANY, OP_REPEAT_ANY_GREEDY, OP_REPEAT_ANY_UNGREEDY, OP_LITERAL, OP_NOT_LITERAL, OP_MASKED_LITERAL,
          OP_MASKED_NOT_LITERAL, OP_CLASS, OP_WORD_CHAR, OP_NON_WORD_CHAR, OP_SPACE, OP_NON_SPACE, OP_DIGIT, OP_NON_DIGIT] at hc
  | @cat x y a m b s1 s2 ih1 ih2 =>
    intro K f md hst
    have hm : m = a + clen x := s1.len
    simp only [Valid] at hst
    rw [← hm] at hst
    have hlx : ∀ ip rc md, ip < m → lang (specFlags e.fl) e.buf (.cat x y) a K ip rc md =
        lang (specFlags e.fl) e.buf x a (lang (specFlags e.fl) e.buf y m K m (-1) .run) ip rc md := by
      intro ip rc md hip; simp only [lang]; rw [← hm, if_pos hip]
    have hly : ∀ ip rc md, m ≤ ip → lang (specFlags e.fl) e.buf (.cat x y) a K ip rc md = lang (specFlags e.fl) e.buf y m K ip rc md := by
      intro ip rc md hip; simp only [lang]; rw [← hm, if_neg (by omega)]
    have hxm : ∀ rc md, lang (specFlags e.fl) e.buf x a (lang (specFlags e.fl) e.buf y m K m (-1) .run) m rc md =
        lang (specFlags e.fl) e.buf y m K m (-1) .run := fun rc md => lang_end _ _ s1 _ rc md
    -- successors of an instruction of x, seen from the concatenation
    have liftx : ∀ (g : Fiber) (md' : Mode), (Valid x a g.ip g.rc md' ∨ AtEnd m g md') →
        (Valid (.cat x y) a g.ip g.rc md' ∨ AtEnd b g md') ∧
        lang (specFlags e.fl) e.buf (.cat x y) a K g.ip g.rc md' =
          lang (specFlags e.fl) e.buf x a (lang (specFlags e.fl) e.buf y m K m (-1) .run) g.ip g.rc md' := by
      intro g md' hg
      rcases hg with h1 | ⟨h1, h2, h3⟩
      · exact ⟨.inl (.inl h1), hlx _ _ _ (valid_range s1 h1).2⟩
      · subst h3
        refine ⟨.inl (.inr ?_), ?_⟩
        · rw [← hm, h1, h2]; exact valid_first s2
        · rw [h1, h2, hly _ _ _ (Nat.le_refl _), hxm]
    have lifty : ∀ (g : Fiber) (md' : Mode), (Valid y m g.ip g.rc md' ∨ AtEnd b g md') →
        (Valid (.cat x y) a g.ip g.rc md' ∨ AtEnd b g md') ∧
        lang (specFlags e.fl) e.buf (.cat x y) a K g.ip g.rc md' = lang (specFlags e.fl) e.buf y m K g.ip g.rc md' := by
      intro g md' hg
      rcases hg with h1 | h1
      · exact ⟨.inl (.inr (by rw [← hm]; exact h1)), hly _ _ _ (valid_range s2 h1).1⟩
      · exact ⟨.inr h1, hly _ _ _ (by have := s2.pos; rw [h1.1]; omega)⟩
    rcases hst with hst | hst
    · have hlt := (valid_range s1 hst).2
      obtain ⟨e1, e2, e3, e4, e5⟩ := ih1 (lang (specFlags e.fl) e.buf y m K m (-1) .run) f md hst
      refine ⟨?_, ?_, ?_, e4, ?_⟩
      · intro g hg hmw
        obtain ⟨g1, g2⟩ := e1 g hg hmw
        obtain ⟨l1, l2⟩ := liftx g .run g1
        refine ⟨l1, ?_⟩
        intro q q' hq
        rw [hlx _ _ _ hlt]; rw [l2] at hq; exact g2 q q' hq
      · intro g stop hg hmw
        obtain ⟨g1, g2⟩ := e2 g stop hg hmw
        obtain ⟨l1, l2⟩ := liftx g _ g1
        refine ⟨l1, ?_⟩
        intro q q' hq
        rw [hlx _ _ _ hlt]; rw [l2] at hq; exact g2 q q' hq
      · intro bm hc1 hc2 hc3 hc4
        obtain ⟨g1, g2⟩ := e3 bm hc1 hc2 hc3 hc4
        obtain ⟨l1, l2⟩ := liftx _ _ g1
        refine ⟨l1, ?_⟩
        intro q' hq
        rw [hlx _ _ _ hlt]; rw [l2] at hq; exact g2 q' hq
      · intro bm hz0 hz1 hz2
        obtain ⟨g1, g2⟩ := e5 bm hz0 hz1 hz2
        obtain ⟨l1, l2⟩ := liftx { f with ip := f.ip + 1 } .run g1
        refine ⟨l1, ?_⟩
        intro q' hq
        rw [hlx _ _ _ hlt]; rw [l2] at hq; exact g2 q' hq
    · have hge := (valid_range s2 hst).1
      obtain ⟨e1, e2, e3, e4, e5⟩ := ih2 K f md hst
      refine ⟨?_, ?_, ?_, e4, ?_⟩
      · intro g hg hmw
        obtain ⟨g1, g2⟩ := e1 g hg hmw
        obtain ⟨l1, l2⟩ := lifty g .run g1
        refine ⟨l1, ?_⟩
        intro q q' hq
        rw [hly _ _ _ hge]; rw [l2] at hq; exact g2 q q' hq
      · intro g stop hg hmw
        obtain ⟨g1, g2⟩ := e2 g stop hg hmw
        obtain ⟨l1, l2⟩ := lifty g _ g1
        refine ⟨l1, ?_⟩
        intro q q' hq
        rw [hly _ _ _ hge]; rw [l2] at hq; exact g2 q q' hq
      · intro bm hc1 hc2 hc3 hc4
        obtain ⟨g1, g2⟩ := e3 bm hc1 hc2 hc3 hc4
        obtain ⟨l1, l2⟩ := lifty _ _ g1
        refine ⟨l1, ?_⟩
        intro q' hq
        rw [hly _ _ _ hge]; rw [l2] at hq; exact g2 q' hq
      · intro bm hz0 hz1 hz2
        obtain ⟨g1, g2⟩ := e5 bm hz0 hz1 hz2
        obtain ⟨l1, l2⟩ := lifty { f with ip := f.ip + 1 } .run g1
        refine ⟨l1, ?_⟩
        intro q' hq
        rw [hly _ _ _ hge]; rw [l2] at hq; exact g2 q' hq
  | @alt x y a m b o1 o2 s1 o3 o4 s2 ih1 ih2 =>
    intro K f md hst
    have hm : m = a + 4 + clen x := by have := s1.len; omega
    have p1 := s1.pos
    have p2 := s2.pos
    simp only [Valid] at hst
    rw [← hm] at hst
    have hla : ∀ rc md, lang (specFlags e.fl) e.buf (.alt x y) a K a rc md = fun q q' =>
        lang (specFlags e.fl) e.buf x (a + 4) K (a + 4) (-1) .run q q' ∨ lang (specFlags e.fl) e.buf y (m + 3) K (m + 3) (-1) .run q q' := by
      intro rc md; simp only [lang, if_true]; rw [← hm]
    have hlx : ∀ ip rc md, a < ip → ip < m → lang (specFlags e.fl) e.buf (.alt x y) a K ip rc md = lang (specFlags e.fl) e.buf x (a + 4) K ip rc md := by
      intro ip rc md h1 h2; simp only [lang]; rw [← hm, if_neg (by omega), if_pos h2]
    have hlm : ∀ rc md, lang (specFlags e.fl) e.buf (.alt x y) a K m rc md = K := by
      intro rc md; simp only [lang]; rw [← hm, if_neg (by omega), if_neg (by omega), if_pos rfl]
    have hly : ∀ ip rc md, m < ip → lang (specFlags e.fl) e.buf (.alt x y) a K ip rc md = lang (specFlags e.fl) e.buf y (m + 3) K ip rc md := by
      intro ip rc md h1; simp only [lang]; rw [← hm, if_neg (by omega), if_neg (by omega), if_neg (by omega)]
    have hxm : ∀ rc md, lang (specFlags e.fl) e.buf x (a + 4) K m rc md = K := fun rc md => lang_end _ _ s1 _ rc md
    have hyb : ∀ rc md, lang (specFlags e.fl) e.buf y (m + 3) K b rc md = K := fun rc md => lang_end _ _ s2 _ rc md
    have liftx : ∀ (g : Fiber) (md' : Mode), (Valid x (a + 4) g.ip g.rc md' ∨ AtEnd m g md') →
        (Valid (.alt x y) a g.ip g.rc md' ∨ AtEnd b g md') ∧
        lang (specFlags e.fl) e.buf (.alt x y) a K g.ip g.rc md' = lang (specFlags e.fl) e.buf x (a + 4) K g.ip g.rc md' := by
      intro g md' hg
      rcases hg with h1 | ⟨h1, h2, h3⟩
      · have r := valid_range s1 h1
        exact ⟨.inl (.inr (.inl h1)), hlx _ _ _ (by omega) r.2⟩
      · subst h3
        exact ⟨.inl (.inr (.inr (.inl ⟨by rw [h1, hm], h2, rfl⟩))), by rw [h1, hlm, hxm]⟩
    have lifty : ∀ (g : Fiber) (md' : Mode), (Valid y (m + 3) g.ip g.rc md' ∨ AtEnd b g md') →
        (Valid (.alt x y) a g.ip g.rc md' ∨ AtEnd b g md') ∧
        lang (specFlags e.fl) e.buf (.alt x y) a K g.ip g.rc md' = lang (specFlags e.fl) e.buf y (m + 3) K g.ip g.rc md' := by
      intro g md' hg
      rcases hg with h1 | h1
      · have r := valid_range s2 h1
        exact ⟨.inl (.inr (.inr (.inr (by rw [← hm]; exact h1)))), hly _ _ _ (by omega)⟩
      · exact ⟨.inr h1, hly _ _ _ (by rw [h1.1]; omega)⟩
    rcases hst with hst | hst | hst | hst
    · -- the split instruction
      obtain ⟨hip, hrc, hmd⟩ := hst
      have hop : u8 e.code f.ip = OP_SPLIT_A := by rw [hip]; exact o1
      have hnany : ¬ (u8 e.code f.ip = OP_REPEAT_ANY_GREEDY ∨ u8 e.code f.ip = OP_REPEAT_ANY_UNGREEDY) := by
        rw [hop]; simp [OP_SPLIT_A, OP_REPEAT_ANY_GREEDY, OP_REPEAT_ANY_UNGREEDY]
      refine ⟨?_, ?_, ?_, by rw [hop]; decide, fun bm _ _ hz => by rw [hop, zw_split_false e bm (.inl rfl)] at hz; simp at hz⟩
      · intro g hg _
        rcases estep_split hg (.inl hop) with rfl | rfl
        · obtain ⟨l1, l2⟩ := liftx { f with ip := f.ip + 4 } .run (.inl (by simp only; rw [hip, hrc]; exact valid_first s1))
          refine ⟨l1, ?_⟩
          intro q q' hq
          rw [hip, hla]; rw [l2] at hq
          simp only at hq
          rw [hip, hrc] at hq
          exact .inl hq
        · obtain ⟨l1, l2⟩ := lifty { f with ip := addOff f.ip (i16 e.code (f.ip + 2)) } .run
            (.inl (by simp only; rw [hip, o2, hrc]; exact valid_first s2))
          refine ⟨l1, ?_⟩
          intro q q' hq
          rw [hip, hla]; rw [l2] at hq
          simp only at hq
          rw [hip, o2, hrc] at hq
          exact .inr hq
      · intro g stop hg _
        exact absurd hg (fun hh => no_astep hh hnany)
      · intro bm hc
        rw [hop] at hc
        simp [isConsuming, OP_SPLIT_A, OP_ANY, OP_REPEAT_ANY_GREEDY, OP_REPEAT_ANY_UNGREEDY, OP_LITERAL, OP_NOT_LITERAL, OP_MASKED_LITERAL,
          OP_MASKED_NOT_LITERAL, OP_CLASS, OP_WORD_CHAR, OP_NON_WORD_CHAR, OP_SPACE, OP_NON_SPACE, OP_DIGIT, OP_NON_DIGIT] at hc
    · have r := valid_range s1 hst
      obtain ⟨e1, e2, e3, e4, e5⟩ := ih1 K f md hst
      refine ⟨?_, ?_, ?_, e4, ?_⟩
      · intro g hg hmw
        obtain ⟨g1, g2⟩ := e1 g hg hmw
        obtain ⟨l1, l2⟩ := liftx g .run g1
        refine ⟨l1, ?_⟩
        intro q q' hq
        rw [hlx _ _ _ (by omega) r.2]; rw [l2] at hq; exact g2 q q' hq
      · intro g stop hg hmw
        obtain ⟨g1, g2⟩ := e2 g stop hg hmw
        obtain ⟨l1, l2⟩ := liftx g _ g1
        refine ⟨l1, ?_⟩
        intro q q' hq
        rw [hlx _ _ _ (by omega) r.2]; rw [l2] at hq; exact g2 q q' hq
      · intro bm hc1 hc2 hc3 hc4
        obtain ⟨g1, g2⟩ := e3 bm hc1 hc2 hc3 hc4
        obtain ⟨l1, l2⟩ := liftx _ _ g1
        refine ⟨l1, ?_⟩
        intro q' hq
        rw [hlx _ _ _ (by omega) r.2]; rw [l2] at hq; exact g2 q' hq
      · intro bm hz0 hz1 hz2
        obtain ⟨g1, g2⟩ := e5 bm hz0 hz1 hz2
        obtain ⟨l1, l2⟩ := liftx { f with ip := f.ip + 1 } .run g1
        refine ⟨l1, ?_⟩
        intro q' hq
        rw [hlx _ _ _ (by omega) r.2]; rw [l2] at hq; exact g2 q' hq
    · -- the jump after the first alternative
      obtain ⟨hip, hrc, hmd⟩ := hst
      have hop : u8 e.code f.ip = OP_JUMP := by rw [hip]; exact o3
      have hnany : ¬ (u8 e.code f.ip = OP_REPEAT_ANY_GREEDY ∨ u8 e.code f.ip = OP_REPEAT_ANY_UNGREEDY) := by
        rw [hop]; simp [OP_JUMP, OP_REPEAT_ANY_GREEDY, OP_REPEAT_ANY_UNGREEDY]
      refine ⟨?_, ?_, ?_, by rw [hop]; decide, fun bm _ _ hz => by rw [hop, zw_split_false e bm (.inr (.inr rfl))] at hz; simp at hz⟩
      · intro g hg _
        rw [estep_jump hg hop]
        refine ⟨.inr ⟨by simp only; rw [hip, o4], hrc, rfl⟩, ?_⟩
        intro q q' hq
        simp only at hq
        rw [hip, o4, hly _ _ _ (by omega), hyb] at hq
        rw [hip, hlm]; exact hq
      · intro g stop hg _
        exact absurd hg (fun hh => no_astep hh hnany)
      · intro bm hc
        rw [hop] at hc
        simp [isConsuming, OP_JUMP, OP_ANY, OP_REPEAT_ANY_GREEDY, OP_REPEAT_ANY_UNGREEDY, OP_LITERAL, OP_NOT_LITERAL, OP_MASKED_LITERAL,
          OP_MASKED_NOT_LITERAL, OP_CLASS, OP_WORD_CHAR, OP_NON_WORD_CHAR, OP_SPACE, OP_NON_SPACE, OP_DIGIT, OP_NON_DIGIT] at hc
    · have r := valid_range s2 hst
      obtain ⟨e1, e2, e3, e4, e5⟩ := ih2 K f md hst
      refine ⟨?_, ?_, ?_, e4, ?_⟩
      · intro g hg hmw
        obtain ⟨g1, g2⟩ := e1 g hg hmw
        obtain ⟨l1, l2⟩ := lifty g .run g1
        refine ⟨l1, ?_⟩
        intro q q' hq
        rw [hly _ _ _ (by omega)]; rw [l2] at hq; exact g2 q q' hq
      · intro g stop hg hmw
        obtain ⟨g1, g2⟩ := e2 g stop hg hmw
        obtain ⟨l1, l2⟩ := lifty g _ g1
        refine ⟨l1, ?_⟩
        intro q q' hq
        rw [hly _ _ _ (by omega)]; rw [l2] at hq; exact g2 q q' hq
      · intro bm hc1 hc2 hc3 hc4
        obtain ⟨g1, g2⟩ := e3 bm hc1 hc2 hc3 hc4
        obtain ⟨l1, l2⟩ := lifty _ _ g1
        refine ⟨l1, ?_⟩
        intro q' hq
        rw [hly _ _ _ (by omega)]; rw [l2] at hq; exact g2 q' hq
      · intro bm hz0 hz1 hz2
        obtain ⟨g1, g2⟩ := e5 bm hz0 hz1 hz2
        obtain ⟨l1, l2⟩ := lifty { f with ip := f.ip + 1 } .run g1
        refine ⟨l1, ?_⟩
        intro q' hq
        rw [hly _ _ _ (by omega)]; rw [l2] at hq; exact g2 q' hq

/-! ### the reachability invariant for a whole program `emit r ++ [MATCH]` -/
def Keps : Lang := fun q q' => q = q'

theorem no_estep_match {code : Code} {f g : Fiber} (h : EStep code f g) (hop : u8 code f.ip = OP_MATCH) : False := by
  cases h <;> rename_i h1 <;>
    simp only [OP_MATCH, OP_SPLIT_A, OP_SPLIT_B, OP_JUMP, OP_REPEAT_START_GREEDY, OP_REPEAT_START_UNGREEDY, OP_REPEAT_END_GREEDY,
      OP_REPEAT_END_UNGREEDY, OP_REPEAT_ANY_GREEDY, OP_REPEAT_ANY_UNGREEDY] at * <;> omega

theorem match_not_any {op : Nat} (h : op = OP_MATCH) : ¬ (op = OP_REPEAT_ANY_GREEDY ∨ op = OP_REPEAT_ANY_UNGREEDY) := by
  subst h; simp [OP_MATCH, OP_REPEAT_ANY_GREEDY, OP_REPEAT_ANY_UNGREEDY]

/-- a valid state at an instruction that is not a REPEAT_ANY is in `run` mode -/
theorem valid_run {code : Code} {r : Re} {a b : Nat} (hs : Seg code r a b) {ip : Nat} {rc : Int} {m : Mode}
    (hv : Valid r a ip rc m) (hn : ¬ (u8 code ip = OP_REPEAT_ANY_GREEDY ∨ u8 code ip = OP_REPEAT_ANY_UNGREEDY)) : m = .run := by
  induction hs generalizing ip with
  | lit _ _ | notLit _ _ | masked _ _ _ | maskedNot _ _ _ | any _ | cls _ _ _ | wordCh _ | nonWordCh _ | space _ | nonSpace _ | digit _ | nonDigit _ | bol _ | eol _ | wordB _ | nonWordB _ => simp only [Valid] at hv; exact hv.2.2
  | jump h1 _ _ _ => simp only [Valid] at hv; rw [hv.1] at hn; exact absurd h1 hn
  | @star x a m' g _ _ h1 _ _ ih =>
    simp only [Valid] at hv
    rcases hv with hv | hv | hv
    · exact hv.2.2
    · exact ih hv hn
    · exact hv.2.2
  | @plus x a m' g h1 _ _ ih =>
    simp only [Valid] at hv
    rcases hv with hv | hv
    · exact ih hv hn
    · exact hv.2.2
  | @opt x a m' g _ _ h1 ih =>
    simp only [Valid] at hv
    rcases hv with hv | hv
    · exact hv.2.2
    · exact ih hv hn
  | @cat x y a m' b h1 h2 ih1 ih2 =>
    have hm : m' = a + clen x := h1.len
    simp only [Valid] at hv
    rcases hv with hv | hv
    · exact ih1 hv hn
    · rw [← hm] at hv; exact ih2 hv hn
  | @alt x y a m' b _ _ h1 _ _ h2 ih1 ih2 =>
    have hm : m' = a + 4 + clen x := by have := h1.len; omega
    simp only [Valid] at hv
    rw [← hm] at hv
    rcases hv with hv | hv | hv | hv
    · exact hv.2.2
    · exact ih1 hv hn
    · exact hv.2.2
    · exact ih2 hv hn

theorem start_not_match (e : Env) (h : FwdByte e) {r : Re} {n : Nat} (hs : Seg e.code r 0 n) {f : Fiber} {m : Mode}
    (hst : Valid r 0 f.ip f.rc m) : u8 e.code f.ip ≠ OP_MATCH := by
  obtain ⟨_, _, _, e4, _⟩ := seg_step e h hs Keps f m hst
  exact e4

/-- one call of sync keeps the invariant -/
theorem sstar_lang (e : Env) (h : FwdByte e) {r : Re} {n : Nat} (hs : Seg e.code r 0 n) (hmatch : u8 e.code n = OP_MATCH)
    {f g : Fiber} {m' : Mode} (hss : SStar e.code f g m') : ∀ (m : Mode), m ≠ .wait → (Valid r 0 f.ip f.rc m ∨ AtEnd n f m) →
    (Valid r 0 g.ip g.rc m' ∨ AtEnd n g m') ∧
      ∀ q q', lang (specFlags e.fl) e.buf r 0 Keps g.ip g.rc m' q q' → lang (specFlags e.fl) e.buf r 0 Keps f.ip f.rc m q q' := by
  induction hss with
  | @refl f hn =>
    intro m _ hv
    have hm : m = .run := by
      rcases hv with hv | hv
      · exact valid_run hs hv hn
      · exact hv.2.2
    subst hm
    exact ⟨hv, fun q q' hq => hq⟩
  | @eps f g1 h1 m1 hstep _ ih =>
    intro m hmw hv
    rcases hv with hv | hv
    · obtain ⟨e1, _, _, _, _⟩ := seg_step e h hs Keps f m hv
      obtain ⟨g1v, g1l⟩ := e1 g1 hstep hmw
      obtain ⟨r1, r2⟩ := ih .run (by simp) g1v
      exact ⟨r1, fun q q' hq => g1l q q' (r2 q q' hq)⟩
    · exact absurd hstep (fun hh => no_estep_match hh (by rw [hv.1]; exact hmatch))
  | @cont f g1 h1 m1 hstep _ ih =>
    intro m hmw hv
    rcases hv with hv | hv
    · obtain ⟨_, e2, _, _, _⟩ := seg_step e h hs Keps f m hv
      obtain ⟨g1v, g1l⟩ := e2 g1 false hstep hmw
      obtain ⟨r1, r2⟩ := ih .run (by simp) (by simpa [modeAfter] using g1v)
      refine ⟨r1, fun q q' hq => g1l q q' ?_⟩
      simpa [modeAfter] using r2 q q' hq
    · exact absurd hstep (fun hh => no_astep hh (match_not_any (by rw [hv.1]; exact hmatch)))
  | @spin f g1 hstep =>
    intro m hmw hv
    rcases hv with hv | hv
    · obtain ⟨_, e2, _, _, _⟩ := seg_step e h hs Keps f m hv
      obtain ⟨g1v, g1l⟩ := e2 g1 true hstep hmw
      exact ⟨by simpa [modeAfter] using g1v, fun q q' hq => g1l q q' (by simpa [modeAfter] using hq)⟩
    · exact absurd hstep (fun hh => no_astep hh (match_not_any (by rw [hv.1]; exact hmatch)))

theorem maxBytes_le {e : Env} (h : FwdByte e) : e.start + e.maxBytes ≤ e.buf.size := by
  have hs := h.startIn
  unfold Env.maxBytes
  simp only [h.notBack, Bool.false_eq_true, if_false, cs_one h, Nat.mod_one, Nat.sub_zero]
  unfold Env.fwdSize
  omega

/-- invariant of the abstract machine on a whole program: whatever can still be accepted from a reachable state extends
    to a match of the expression from the start position of the run (in scan mode: from SOME start position `s0`) -/
theorem reach_lang (e : Env) (h : FwdByte e) {r : Re} {n : Nat} (hs : Seg e.code r 0 n) (hmatch : u8 e.code n = OP_MATCH)
    (hentry : e.entry = 0) {f : Fiber} {m : Mode} {bm : Nat} (hr : Reach e f m bm) :
    (Valid r 0 f.ip f.rc m ∨ AtEnd n f m) ∧ e.start + bm ≤ e.buf.size ∧
      ∃ s0, e.start ≤ s0 ∧ s0 ≤ e.start + bm ∧ (e.fl.scan = false → s0 = e.start) ∧
        ∀ q', lang (specFlags e.fl) e.buf r 0 Keps f.ip f.rc m (e.start + bm) q' →
          lang (specFlags e.fl) e.buf r 0 Keps 0 (-1) .run s0 q' := by
  induction hr with
  | start =>
    simp only [hentry]
    exact ⟨.inl (valid_first hs), h.startIn, e.start, Nat.le_refl _, by omega, fun _ => rfl, fun q' hq => by simpa using hq⟩
  | scanStart bm hsc hbm =>
    simp only [hentry]
    have := maxBytes_le h
    exact ⟨.inl (valid_first hs), by omega, e.start + bm, by omega, Nat.le_refl _, fun hh => by rw [hsc] at hh; simp at hh,
      fun q' hq => hq⟩
  | @sync f g m m' bm _ hmw hss ih =>
    obtain ⟨hpos, hb, s0, h1, h2, h3, hl⟩ := ih
    obtain ⟨r1, r2⟩ := sstar_lang e h hs hmatch hss m hmw hpos
    exact ⟨r1, hb, s0, h1, h2, h3, fun q' hq => hl q' (r2 _ q' hq)⟩
  | @zw f bm _ hnc hnm hz ih =>
    obtain ⟨hpos, hb, s0, h1, h2, h3, hl⟩ := ih
    rcases hpos with hst | hend
    · obtain ⟨_, _, _, _, e5⟩ := seg_step e h hs Keps f .run hst
      obtain ⟨g1, g2⟩ := e5 bm hb hnc hz
      exact ⟨g1, hb, s0, h1, h2, h3, fun q' hq => hl q' (g2 q' hq)⟩
    · exact absurd (by rw [hend.1]; exact hmatch) hnm
  | @cons f m bm _ hc hok hany hnp ih =>
    obtain ⟨hpos, hb, s0, h1, h2, h3, hl⟩ := ih
    have hb' : e.start + (bm + e.cs) ≤ e.buf.size := by
      have := consume_in_buf h hok
      rw [cs_one h]; omega
    rcases hpos with hst | hend
    · obtain ⟨_, _, e3, _, _⟩ := seg_step e h hs Keps f m hst
      obtain ⟨g1, g2⟩ := e3 bm hc hok hany hnp
      refine ⟨g1, hb', s0, h1, by omega, h3, ?_⟩
      intro q' hq
      apply hl q'
      apply g2 q'
      rw [cs_one h] at hq
      rwa [← Nat.add_assoc] at hq
    · exfalso
      rw [hend.1, hmatch] at hc
      simp [isConsuming, OP_MATCH, OP_ANY, OP_REPEAT_ANY_GREEDY, OP_REPEAT_ANY_UNGREEDY, OP_LITERAL, OP_NOT_LITERAL, OP_MASKED_LITERAL,
        OP_MASKED_NOT_LITERAL, OP_CLASS, OP_WORD_CHAR, OP_NON_WORD_CHAR, OP_SPACE, OP_NON_SPACE, OP_DIGIT, OP_NON_DIGIT] at hc

/-- a reachable fiber at RE_OPCODE_MATCH after `L` bytes: the expression matches `[s0, start+L)` for a start position `s0`
    of the run (`s0 = start` unless the run is in scan mode) -/
theorem match_sound (e : Env) (h : FwdByte e) {r : Re} {n : Nat} (hs : Seg e.code r 0 n) (hmatch : u8 e.code n = OP_MATCH)
    (hentry : e.entry = 0) {f : Fiber} {m : Mode} {L : Nat} (hr : Reach e f m L) (hm : u8 e.code f.ip = OP_MATCH) :
    ∃ s0, e.start ≤ s0 ∧ s0 ≤ e.start + L ∧ e.start + L ≤ e.buf.size ∧ (e.fl.scan = false → s0 = e.start) ∧
      Re.Matches (specFlags e.fl) e.buf r s0 (e.start + L) := by
  obtain ⟨hpos, hbd, s0, h1, h2, h3, hl⟩ := reach_lang e h hs hmatch hentry hr
  rcases hpos with hst | hend
  · exact absurd hm (start_not_match e h hs hst)
  · have hk : lang (specFlags e.fl) e.buf r 0 Keps f.ip f.rc m (e.start + L) (e.start + L) := by
      rw [hend.1, lang_end _ _ hs]; rfl
    obtain ⟨t, ht, hkt⟩ := lang_entry _ _ hs Keps _ _ (hl _ hk)
    simp only [Keps] at hkt
    rw [hkt] at ht
    exact ⟨s0, h1, h2, hbd, h3, ht⟩

/-! ### the emitted bytes decode to a segment -/
/-- `code` contains the byte list `bs` at address `a` -/
def Sub (code : Code) (a : Nat) (bs : List UInt8) : Prop := ∀ i, i < bs.length → u8 code (a + i) = (bs[i]?.getD 0).toNat

theorem sub_append {code : Code} {a : Nat} {x y : List UInt8} (h : Sub code a (x ++ y)) : Sub code a x ∧ Sub code (a + x.length) y := by
  constructor
  · intro i hi
    have := h i (by simp; omega)
    rwa [List.getElem?_append_left hi] at this
  · intro i hi
    have := h (x.length + i) (by simp; omega)
    rw [List.getElem?_append_right (by omega)] at this
    have e1 : x.length + i - x.length = i := by omega
    rw [e1, ← Nat.add_assoc] at this
    exact this

theorem sub_whole (bs : List UInt8) : Sub bs.toArray 0 bs := by
  intro i _
  simp [u8]

theorem clen_pos {r : Re} (hf : Frag r) : 0 < clen r := by
  induction hf <;> simp only [clen] <;> omega

theorem emit_opt (x : Re) (g : Bool) (s : Nat) : (emit false (.range x 0 1 g) s).1 =
    [if g then 0xC0 else 0xC1, UInt8.ofNat s] ++ leI16 (4 + (emit false x (s + 1)).1.length) ++ (emit false x (s + 1)).1 := by
  simp [emit, emit.emitProlog, emit.emitRepeat, emit.emitSplit, emit.emitEpilog]

theorem emit_len {r : Re} (hf : Frag r) : ∀ s, (emit false r s).1.length = clen r := by
  induction hf with
  | lit _ | masked _ _ | notLit _ | maskedNot _ _ | any | wordCh | nonWordCh | space | nonSpace | digit | nonDigit | bol | eol | wordB | nonWordB => intro s; simp [emit, clen]
  | jump _ _ _ _ _ => intro s; simp [emit, clen, le16]
  | cls _ _ => intro s; simp [emit, clen, bitmapBytes]
  | star g _ ih =>
    intro s
    simp only [emit, clen, List.length_append, List.length_cons, List.length_nil, leI16, le16]
    rw [ih]
  | @plus x g hx ih =>
    intro s
    have hne : (emit false x s).1.isEmpty = false := by
      have h1 := ih s
      have h2 := clen_pos hx
      cases hc : (emit false x s).1 with
      | nil => rw [hc] at h1; simp at h1; omega
      | cons _ _ => rfl
    simp only [emit, hne, Bool.false_eq_true, if_false, clen, List.length_append, List.length_cons, List.length_nil, leI16, le16]
    rw [ih]
  | opt g _ ih =>
    intro s
    rw [emit_opt]
    simp only [clen, List.length_append, List.length_cons, List.length_nil, leI16, le16]
    rw [ih]
  | cat _ _ ih1 ih2 =>
    intro s
    simp only [emit, Bool.false_eq_true, if_false, clen, List.length_append]
    rw [ih1, ih2]
  | alt _ _ ih1 ih2 =>
    intro s
    simp only [emit, clen, List.length_append, List.length_cons, List.length_nil, leI16, le16]
    rw [ih1, ih2]

theorem leI16_length (i : Int) : (leI16 i).length = 2 := by simp [leI16, le16]

theorem i16_of_bytes {code : Code} {a n : Nat} (hn : n < 32768) (h0 : u8 code a = n % 256) (h1 : u8 code (a + 1) = n / 256 % 256) :
    i16 code a = (n : Int) := by
  unfold i16 u16
  rw [h0, h1]
  have : n % 256 + 256 * (n / 256 % 256) = n := by omega
  simp only [this]
  have : ¬ n ≥ 32768 := by omega
  simp [this]

theorem sub_leI16 {code : Code} {a n : Nat} (hn : n < 32768) (h : Sub code a (leI16 (n : Int))) : i16 code a = (n : Int) := by
  have e : leI16 (n : Int) = [UInt8.ofNat (n % 256), UInt8.ofNat (n / 256 % 256)] := by
    unfold leI16 le16
    have : ((n : Int) % 65536).toNat = n := by omega
    rw [this]
  rw [e] at h
  have h0 := h 0 (by simp)
  have h1 := h 1 (by simp)
  simp only [Nat.add_zero, List.getElem?_cons_zero, Option.getD_some, List.getElem?_cons_succ] at h0 h1
  apply i16_of_bytes hn
  · rw [h0]; simp
  · rw [h1]; simp

theorem sub_leI16_neg {code : Code} {a n : Nat} (hn : 0 < n) (hn2 : n ≤ 32768) (h : Sub code a (leI16 (-(n : Int)))) :
    i16 code a = -(n : Int) := by
  have e : leI16 (-(n : Int)) = [UInt8.ofNat ((65536 - n) % 256), UInt8.ofNat ((65536 - n) / 256 % 256)] := by
    unfold leI16 le16
    have : ((-(n : Int)) % 65536).toNat = 65536 - n := by omega
    rw [this]
  rw [e] at h
  have h0 := h 0 (by simp)
  have h1 := h 1 (by simp)
  simp only [Nat.add_zero, List.getElem?_cons_zero, Option.getD_some, List.getElem?_cons_succ] at h0 h1
  have t0 : (UInt8.ofNat ((65536 - n) % 256)).toNat = (65536 - n) % 256 := by simp
  have t1 : (UInt8.ofNat ((65536 - n) / 256 % 256)).toNat = (65536 - n) / 256 % 256 := by simp
  unfold i16 u16
  rw [h0, h1, t0, t1]
  have e3 : (65536 - n) % 256 + 256 * ((65536 - n) / 256 % 256) = 65536 - n := by omega
  rw [e3]
  have : 65536 - n ≥ 32768 := by omega
  simp only [this, if_true]
  omega

theorem seg_of_emit {r : Re} (hf : Frag r) : ∀ (s : Nat) (code : Code) (a : Nat), clen r < 32000 →
    Sub code a (emit false r s).1 → Seg code r a (a + clen r) := by
  induction hf with
  | lit b =>
    intro s code a _ h
    simp only [emit] at h
    have h0 := h 0 (by simp); have h1 := h 1 (by simp)
    simp at h0 h1
    exact .lit (by rw [h0]; rfl) h1
  | notLit b =>
    intro s code a _ h
    simp only [emit] at h
    have h0 := h 0 (by simp); have h1 := h 1 (by simp)
    simp at h0 h1
    exact .notLit (by rw [h0]; rfl) h1
  | masked v m =>
    intro s code a _ h
    simp only [emit] at h
    have h0 := h 0 (by simp); have h1 := h 1 (by simp); have h2 := h 2 (by simp)
    simp at h0 h1 h2
    exact .masked (by rw [h0]; rfl) h1 h2
  | maskedNot v m =>
    intro s code a _ h
    simp only [emit] at h
    have h0 := h 0 (by simp); have h1 := h 1 (by simp); have h2 := h 2 (by simp)
    simp at h0 h1 h2
    exact .maskedNot (by rw [h0]; rfl) h1 h2
  | any =>
    intro s code a _ h
    simp only [emit] at h
    have h0 := h 0 (by simp)
    simp at h0
    exact .any (by rw [h0]; rfl)
  | cls cb neg =>
    intro s code a _ h
    simp only [emit] at h
    have h0 := h 0 (by simp [bitmapBytes])
    have h1 := h 1 (by simp [bitmapBytes])
    simp at h0 h1
    refine .cls (by rw [h0]; rfl) (by rw [h1]; cases neg <;> rfl) ?_
    intro c
    unfold classBit inBitmap
    have hi : c.toNat / 8 < 32 := by have := c.toNat_lt; omega
    have hb := h (2 + c.toNat / 8) (by simp [bitmapBytes]; omega)
    have e1 : a + (2 + c.toNat / 8) = a + 2 + c.toNat / 8 := by omega
    rw [e1] at hb
    rw [hb]
    have e2 : (0xA5 :: (if neg = true then (1 : UInt8) else 0) :: bitmapBytes cb)[2 + c.toNat / 8]? = (bitmapBytes cb)[c.toNat / 8]? := by
      have : 2 + c.toNat / 8 = (c.toNat / 8 + 1) + 1 := by omega
      rw [this]; rfl
    rw [e2]
    unfold bitmapBytes
    rw [List.getElem?_map, List.getElem?_range hi]
    simp only [Option.map_some, Option.getD_some]
    have e3 : (UInt8.ofNat (cb / 2 ^ (8 * (c.toNat / 8)) % 256)).toNat = cb / 2 ^ (8 * (c.toNat / 8)) % 256 := by simp
    rw [e3]
    have e4 : (256 : Nat) = 2 ^ 8 := by decide
    rw [e4, Nat.testBit_mod_two_pow, Nat.testBit_div_two_pow]
    have e5 : c.toNat % 8 < 8 := Nat.mod_lt _ (by omega)
    have e6 : c.toNat % 8 + 8 * (c.toNat / 8) = c.toNat := by omega
    simp [e5, e6]
  | wordCh =>
    intro s code a _ h
    simp only [emit] at h
    have h0 := h 0 (by simp)
    simp at h0
    exact .wordCh (by rw [h0]; rfl)
  | nonWordCh =>
    intro s code a _ h
    simp only [emit] at h
    have h0 := h 0 (by simp)
    simp at h0
    exact .nonWordCh (by rw [h0]; rfl)
  | space =>
    intro s code a _ h
    simp only [emit] at h
    have h0 := h 0 (by simp)
    simp at h0
    exact .space (by rw [h0]; rfl)
  | nonSpace =>
    intro s code a _ h
    simp only [emit] at h
    have h0 := h 0 (by simp)
    simp at h0
    exact .nonSpace (by rw [h0]; rfl)
  | digit =>
    intro s code a _ h
    simp only [emit] at h
    have h0 := h 0 (by simp)
    simp at h0
    exact .digit (by rw [h0]; rfl)
  | nonDigit =>
    intro s code a _ h
    simp only [emit] at h
    have h0 := h 0 (by simp)
    simp at h0
    exact .nonDigit (by rw [h0]; rfl)
  | bol =>
    intro s code a _ h
    simp only [emit] at h
    have h0 := h 0 (by simp)
    simp at h0
    exact .bol (by rw [h0]; rfl)
  | eol =>
    intro s code a _ h
    simp only [emit] at h
    have h0 := h 0 (by simp)
    simp at h0
    exact .eol (by rw [h0]; rfl)
  | wordB =>
    intro s code a _ h
    simp only [emit] at h
    have h0 := h 0 (by simp)
    simp at h0
    exact .wordB (by rw [h0]; rfl)
  | nonWordB =>
    intro s code a _ h
    simp only [emit] at h
    have h0 := h 0 (by simp)
    simp at h0
    exact .nonWordB (by rw [h0]; rfl)
  | jump lo hi g hlh hhi =>
    intro s code a _ h
    simp only [emit, le16] at h
    have hlo : lo % 65536 = lo := Nat.mod_eq_of_lt (by omega)
    have hhi' : hi % 65536 = hi := Nat.mod_eq_of_lt hhi
    rw [hlo, hhi'] at h
    have h0 := h 0 (by simp); have h1 := h 1 (by simp); have h2 := h 2 (by simp); have h3 := h 3 (by simp); have h4 := h 4 (by simp)
    simp at h0 h1 h2 h3 h4
    have e2 : a + 1 + 1 = a + 2 := by omega
    have e4 : a + 3 + 1 = a + 4 := by omega
    refine .jump ?_ ?_ ?_ hlh
    · rw [h0]; cases g <;> simp [OP_REPEAT_ANY_GREEDY, OP_REPEAT_ANY_UNGREEDY]
    · unfold u16; rw [e2, h1, h2]; omega
    · unfold u16; rw [e4, h3, h4]; omega
  | @star x g hx ih =>
    intro s code a hsz h
    simp only [clen] at hsz ⊢
    simp only [emit] at h
    -- [op, id] ++ off16 ++ ca ++ [C2] ++ off16'
    obtain ⟨h1234, hoff2⟩ := sub_append h
    obtain ⟨h123, hjmp⟩ := sub_append h1234
    obtain ⟨h12, hca⟩ := sub_append h123
    obtain ⟨hhead, hoff1⟩ := sub_append h12
    simp only [List.length_append, List.length_cons, List.length_nil, leI16_length, emit_len hx] at hoff2 hjmp hca hoff1
    have hop : u8 code a = OP_SPLIT_A ∨ u8 code a = OP_SPLIT_B := by
      have := hhead 0 (by simp); simp at this
      cases g
      · right; rw [this]; rfl
      · left; rw [this]; rfl
    have hj : u8 code (a + 4 + clen x) = OP_JUMP := by
      have := hjmp 0 (by simp)
      simp at this
      have e1 : a + (0 + 1 + 1 + (0 + 1 + 1) + clen x) = a + 4 + clen x := by omega
      rw [e1] at this; rw [this]; rfl
    have ho1 : i16 code (a + 2) = ((4 + clen x + 3 : Nat) : Int) := by
      apply sub_leI16 (by omega)
      have e1 : a + (0 + 1 + 1) = a + 2 := by omega
      rw [e1] at hoff1
      have e2 : ((4 + clen x + 3 : Nat) : Int) = 4 + (clen x : Int) + 3 := by omega
      rw [e2]; exact hoff1
    have ho2 : i16 code (a + 4 + clen x + 1) = -((4 + clen x : Nat) : Int) := by
      apply sub_leI16_neg (by omega) (by omega)
      have e1 : a + (0 + 1 + 1 + (0 + 1 + 1) + clen x + (0 + 1)) = a + 4 + clen x + 1 := by omega
      rw [e1] at hoff2
      exact hoff2
    have sx : Seg code x (a + 4) (a + 4 + clen x) := by
      apply ih (s + 1) code (a + 4) (by omega)
      have e1 : a + (0 + 1 + 1 + (0 + 1 + 1)) = a + 4 := by omega
      rw [e1] at hca; exact hca
    have := Seg.star (code := code) (x := x) (a := a) (m := a + 4 + clen x) (g := g) hop
      (by rw [ho1]; unfold addOff; omega) sx hj (by rw [ho2]; unfold addOff; omega)
    have e3 : a + (4 + clen x + 3) = a + 4 + clen x + 3 := by omega
    rw [e3]; exact this
  | @plus x g hx ih =>
    intro s code a hsz h
    simp only [clen] at hsz ⊢
    have hne : (emit false x s).1.isEmpty = false := by
      have h1 := emit_len hx s
      have h2 := clen_pos hx
      cases hc : (emit false x s).1 with
      | nil => rw [hc] at h1; simp at h1; omega
      | cons _ _ => rfl
    simp only [emit, hne, Bool.false_eq_true, if_false] at h
    -- ca ++ [op, id] ++ off16
    obtain ⟨h12, hoff⟩ := sub_append h
    obtain ⟨hca, hhead⟩ := sub_append h12
    simp only [List.length_append, List.length_cons, List.length_nil, emit_len hx] at hoff hhead
    have sx : Seg code x a (a + clen x) := ih s code a (by omega) hca
    have hpos := sx.pos
    have hop : u8 code (a + clen x) = OP_SPLIT_A ∨ u8 code (a + clen x) = OP_SPLIT_B := by
      have := hhead 0 (by simp); simp at this
      cases g
      · left; rw [this]; rfl
      · right; rw [this]; rfl
    have ho : i16 code (a + clen x + 2) = -((clen x : Nat) : Int) := by
      apply sub_leI16_neg (by omega) (by omega)
      have e1 : a + (clen x + (0 + 1 + 1)) = a + clen x + 2 := by omega
      rw [e1] at hoff
      exact hoff
    have := Seg.plus (code := code) (x := x) (a := a) (m := a + clen x) (g := g) sx hop (by rw [ho]; unfold addOff; omega)
    have e3 : a + (clen x + 4) = a + clen x + 4 := by omega
    rw [e3]; exact this
  | @opt x g hx ih =>
    intro s code a hsz h
    simp only [clen] at hsz ⊢
    rw [emit_opt] at h
    -- [op, id] ++ off16 ++ ca
    obtain ⟨h12, hca⟩ := sub_append h
    obtain ⟨hhead, hoff1⟩ := sub_append h12
    simp only [List.length_append, List.length_cons, List.length_nil, leI16_length, emit_len hx] at hca hoff1
    have hop : u8 code a = OP_SPLIT_A ∨ u8 code a = OP_SPLIT_B := by
      have := hhead 0 (by simp); simp at this
      cases g
      · right; rw [this]; rfl
      · left; rw [this]; rfl
    have ho1 : i16 code (a + 2) = ((4 + clen x : Nat) : Int) := by
      apply sub_leI16 (by omega)
      have e1 : a + (0 + 1 + 1) = a + 2 := by omega
      rw [e1] at hoff1
      have e2 : ((4 + clen x : Nat) : Int) = 4 + (clen x : Int) := by omega
      rw [e2]; exact hoff1
    have sx : Seg code x (a + 4) (a + 4 + clen x) := by
      apply ih (s + 1) code (a + 4) (by omega)
      have e1 : a + (0 + 1 + 1 + (0 + 1 + 1)) = a + 4 := by omega
      rw [e1] at hca; exact hca
    have := Seg.opt (code := code) (x := x) (a := a) (m := a + 4 + clen x) (g := g) hop
      (by rw [ho1]; unfold addOff; omega) sx
    have e3 : a + (4 + clen x) = a + 4 + clen x := by omega
    rw [e3]; exact this
  | @cat x y hx hy ih1 ih2 =>
    intro s code a hsz h
    simp only [clen] at hsz ⊢
    simp only [emit, Bool.false_eq_true, if_false] at h
    obtain ⟨h1, h2⟩ := sub_append h
    rw [emit_len hx] at h2
    have := Seg.cat (ih1 s code a (by omega) h1) (ih2 _ code (a + clen x) (by omega) h2)
    rwa [Nat.add_assoc] at this
  | @alt x y hx hy ih1 ih2 =>
    intro s code a hsz h
    simp only [clen] at hsz ⊢
    simp only [emit] at h
    -- [C0, id] ++ off16 ++ ca ++ [C2] ++ off16' ++ cb
    obtain ⟨h12, hcb⟩ := sub_append h
    obtain ⟨h123, hoff2⟩ := sub_append h12
    obtain ⟨h1234, hjmp⟩ := sub_append h123
    obtain ⟨h12', hca⟩ := sub_append h1234
    obtain ⟨hhead, hoff1⟩ := sub_append h12'
    simp only [List.length_append, List.length_cons, List.length_nil, leI16_length, emit_len hx, emit_len hy] at hcb hoff2 hjmp hca hoff1
    have hop : u8 code a = OP_SPLIT_A := by
      have := hhead 0 (by simp); simp at this; rw [this]; rfl
    have hj : u8 code (a + 4 + clen x) = OP_JUMP := by
      have := hjmp 0 (by simp)
      simp at this
      have e1 : a + (0 + 1 + 1 + (0 + 1 + 1) + clen x) = a + 4 + clen x := by omega
      rw [e1] at this; rw [this]; rfl
    have ho1 : i16 code (a + 2) = ((4 + clen x + 3 : Nat) : Int) := by
      apply sub_leI16 (by omega)
      have e1 : a + (0 + 1 + 1) = a + 2 := by omega
      rw [e1] at hoff1
      have e2 : ((4 + clen x + 3 : Nat) : Int) = 4 + (clen x : Int) + 3 := by omega
      rw [e2]; exact hoff1
    have ho2 : i16 code (a + 4 + clen x + 1) = ((3 + clen y : Nat) : Int) := by
      apply sub_leI16 (by omega)
      have e1 : a + (0 + 1 + 1 + (0 + 1 + 1) + clen x + (0 + 1)) = a + 4 + clen x + 1 := by omega
      rw [e1] at hoff2
      have e2 : ((3 + clen y : Nat) : Int) = 3 + (clen y : Int) := by omega
      rw [e2]; exact hoff2
    have sx : Seg code x (a + 4) (a + 4 + clen x) := by
      apply ih1 (s + 1) code (a + 4) (by omega)
      have e1 : a + (0 + 1 + 1 + (0 + 1 + 1)) = a + 4 := by omega
      rw [e1] at hca; exact hca
    have sy : Seg code y (a + 4 + clen x + 3) (a + 4 + clen x + 3 + clen y) := by
      apply ih2 _ code (a + 4 + clen x + 3) (by omega)
      have e1 : a + (0 + 1 + 1 + (0 + 1 + 1) + clen x + (0 + 1) + (0 + 1 + 1)) = a + 4 + clen x + 3 := by omega
      rw [e1] at hcb; exact hcb
    have := Seg.alt (code := code) (x := x) (y := y) (a := a) (m := a + 4 + clen x) (b := a + 4 + clen x + 3 + clen y) hop
      (by rw [ho1]; unfold addOff; omega) sx hj (by rw [ho2]; unfold addOff; omega) sy
    have e3 : a + (4 + clen x + 3 + clen y) = a + 4 + clen x + 3 + clen y := by omega
    rw [e3]; exact this


/-- the environment of a run of the emitted forward code of `r` -/
def envOf (r : Re) (buf : Bytes) (start : Nat) (fl : VmFlags) (fuel : Nat) : Env :=
  { code := (emitCode false r).toArray, entry := 0, buf := buf, start := start, fl := fl, syncFuel := fuel }

theorem envOf_sound (r : Re) (hf : Frag r) (hsz : clen r < 32000) (buf : Bytes) (start : Nat) (hst : start ≤ buf.size)
    (fl : VmFlags) (hw : fl.wide = false) (hb : fl.backwards = false) (fuel : Nat) (m : Int) (c : List Nat)
    (h : exec (envOf r buf start fl fuel) = .done m c) :
    (∀ L, L ∈ c → ∃ s0, start ≤ s0 ∧ s0 ≤ start + L ∧ start + L ≤ buf.size ∧ (fl.scan = false → s0 = start) ∧
      Re.Matches (specFlags fl) buf r s0 (start + L)) ∧
    (0 ≤ m → ∃ s0, start ≤ s0 ∧ s0 ≤ start + m.toNat ∧ start + m.toNat ≤ buf.size ∧ (fl.scan = false → s0 = start) ∧
      Re.Matches (specFlags fl) buf r s0 (start + m.toNat)) := by
  obtain ⟨e, he⟩ : ∃ e : Env, e = envOf r buf start fl fuel := ⟨_, rfl⟩
  rw [← he] at h
  have hfb : FwdByte e := by subst he; exact ⟨hw, hb, hst⟩
  have hsub : Sub e.code 0 ((emit false r 0).1 ++ [0xAD]) := by subst he; exact sub_whole _
  obtain ⟨h1, h2⟩ := sub_append hsub
  have hseg : Seg e.code r 0 (clen r) := by
    have := seg_of_emit hf 0 e.code 0 hsz h1
    simpa using this
  have hmatch : u8 e.code (clen r) = OP_MATCH := by
    have := h2 0 (by simp)
    rw [emit_len hf] at this
    simp at this
    rw [this]; rfl
  have hentry : e.entry = 0 := by subst he; rfl
  have hbuf : e.buf = buf := by subst he; rfl
  have hstart : e.start = start := by subst he; rfl
  have hfl : e.fl = fl := by subst he; rfl
  obtain ⟨g1, g2⟩ := exec_sound e m c h
  constructor
  · intro L hL
    obtain ⟨f, md, hr, hm⟩ := g1 L hL
    have := match_sound e hfb hseg hmatch hentry hr hm
    rwa [hbuf, hstart, hfl] at this
  · intro hm0
    obtain ⟨f, md, hr, hm⟩ := g2 hm0
    have := match_sound e hfb hseg hmatch hentry hr hm
    rwa [hbuf, hstart, hfl] at this

/-- soundness of the VM on the code emitted for an expression of the fragment (byte mode, forwards, any nocase / dot-all
    flags, exhaustive or not, string verification = not scan mode): every reported length is a match length of the
    expression at the start position -/
theorem vm_sound_frag (r : Re) (hf : Frag r) (hsz : clen r < 32000) (buf : Bytes) (start : Nat) (hst : start ≤ buf.size)
    (fl : VmFlags) (hw : fl.wide = false) (hb : fl.backwards = false) (hsc : fl.scan = false) (fuel : Nat) (m : Int) (c : List Nat)
    (h : exec { code := (emitCode false r).toArray, entry := 0, buf := buf, start := start, fl := fl, syncFuel := fuel } = .done m c) :
    (∀ L, L ∈ c → Re.Matches (specFlags fl) buf r start (start + L)) ∧
    (0 ≤ m → Re.Matches (specFlags fl) buf r start (start + m.toNat)) := by
  obtain ⟨g1, g2⟩ := envOf_sound r hf hsz buf start hst fl hw hb fuel m c h
  constructor
  · intro L hL
    obtain ⟨s0, _, _, _, h3, hm⟩ := g1 L hL
    rw [h3 hsc] at hm; exact hm
  · intro hm0
    obtain ⟨s0, _, _, _, h3, hm⟩ := g2 hm0
    rw [h3 hsc] at hm; exact hm

/-- soundness of the `matches` operator's engine run (RE_FLAGS_SCAN over the operand string, start 0): a result >= 0
    means that the expression matches somewhere in the operand -/
theorem matches_sound_frag (r : Re) (hf : Frag r) (hsz : clen r < 32000) (str : Bytes)
    (fl : VmFlags) (hw : fl.wide = false) (hb : fl.backwards = false) (fuel : Nat) (m : Int) (c : List Nat)
    (h : exec { code := (emitCode false r).toArray, entry := 0, buf := str, start := 0, fl := fl, syncFuel := fuel } = .done m c)
    (hm : 0 ≤ m) : ∃ o q, o ≤ q ∧ q ≤ str.size ∧ Re.Matches (specFlags fl) str r o q := by
  obtain ⟨_, g2⟩ := envOf_sound r hf hsz str 0 (Nat.zero_le _) fl hw hb fuel m c h
  obtain ⟨s0, _, h2, h3, _, hmm⟩ := g2 hm
  exact ⟨s0, 0 + m.toNat, h2, h3, hmm⟩

end YaraModel.ReEmit
