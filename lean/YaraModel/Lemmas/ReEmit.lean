/-
  Compiler + VM soundness, end of the chain (forward code, byte mode):
    Model/ReEmit.lean `emit`  --seg_of_emit-->  code shape `lower r` (Lemmas/ReLower.lean, ReIr.lean)
    --seg_step / reach_lang / match_sound (Lemmas/ReIrStep.lean, ReIrSound.lean)-->  every length the abstract machine can
    report is a match of the shape  --lower_sem-->  a match of the expression;
    Lemmas/ReVm.lean `exec_sound` ties the abstract machine to the executable model of `yr_re_exec`.
  Holds for EVERY well-formed expression (`WF`: every node kind, counted repeats of every emit-table row, empty
  alternatives; bounds ordered and below 65536).
-/
import YaraModel.Lemmas.ReLower
namespace YaraModel.ReEmit
open YaraModel.Re YaraModel.ReVm

/-- the environment of a run of the emitted forward code of `r` -/
def envOf (r : Re) (buf : Bytes) (start : Nat) (fl : VmFlags) (fuel : Nat) : Env :=
  { code := (emitCode false r).toArray, entry := 0, buf := buf, start := start, fl := fl, syncFuel := fuel }

theorem envOf_sound (r : Re) (hwf : WF r) (hsz : (emit false r 0).1.length < 32000) (buf : Bytes) (start : Nat) (hst : start ≤ buf.size)
    (fl : VmFlags) (hw : fl.wide = false) (hb : fl.backwards = false) (fuel : Nat) (m : Int) (c : List Nat)
    (h : exec (envOf r buf start fl fuel) = .done m c) :
    (∀ L, L ∈ c → ∃ s0, start ≤ s0 ∧ s0 ≤ start + L ∧ start + L ≤ buf.size ∧ (fl.scan = false → s0 = start) ∧
      Re.Matches (specFlags fl) buf r s0 (start + L)) ∧
    (0 ≤ m → ∃ s0, start ≤ s0 ∧ s0 ≤ start + m.toNat ∧ start + m.toNat ≤ buf.size ∧ (fl.scan = false → s0 = start) ∧
      Re.Matches (specFlags fl) buf r s0 (start + m.toNat)) := by
  obtain ⟨e, he⟩ : ∃ e : Env, e = envOf r buf start fl fuel := ⟨_, rfl⟩
  rw [← he] at h
  rw [emit_len hwf] at hsz
  have hfb : FwdByte e := by subst he; exact ⟨hw, hb, hst⟩
  have hsub : Sub e.code 0 ((emit false r 0).1 ++ [0xAD]) := by subst he; exact sub_whole _
  obtain ⟨h1, h2⟩ := sub_append hsub
  have hseg : Seg e.code (lower r) 0 (clen (lower r)) := by
    have := seg_of_emit hwf 0 e.code 0 hsz h1
    simpa using this
  have hmatch : u8 e.code (clen (lower r)) = OP_MATCH := by
    have := h2 0 (by simp)
    rw [emit_len hwf] at this
    simp at this
    rw [this]; rfl
  have hentry : e.entry = 0 := by subst he; rfl
  have hbuf : e.buf = buf := by subst he; rfl
  have hstart : e.start = start := by subst he; rfl
  have hfl : e.fl = fl := by subst he; rfl
  obtain ⟨g1, g2⟩ := exec_sound e m c h
  constructor
  · intro L hL
    obtain ⟨f, md, hr, hm⟩ := g1 L hL
    obtain ⟨s0, k1, k2, k4, k5⟩ := match_sound e (fwdByteDir e hfb) hseg hmatch hentry hr hm
    have k6 := (lower_sem hwf _ _).1 (irm_fwd e k5)
    have k2' : e.start + _ ≤ e.buf.size := k2
    rw [hbuf, hstart, hfl] at *
    exact ⟨start + s0, by omega, by omega, k2', fun hh => by rw [k4 hh]; rfl, k6⟩
  · intro hm0
    obtain ⟨f, md, hr, hm⟩ := g2 hm0
    obtain ⟨s0, k1, k2, k4, k5⟩ := match_sound e (fwdByteDir e hfb) hseg hmatch hentry hr hm
    have k6 := (lower_sem hwf _ _).1 (irm_fwd e k5)
    have k2' : e.start + _ ≤ e.buf.size := k2
    rw [hbuf, hstart, hfl] at *
    exact ⟨start + s0, by omega, by omega, k2', fun hh => by rw [k4 hh]; rfl, k6⟩

/-- soundness of the VM on the code emitted for a well-formed expression (byte mode, forwards, any nocase / dot-all flags,
    exhaustive or not, string verification = not scan mode): every reported length is a match length of the expression at
    the start position -/
theorem vm_sound_wf (r : Re) (hwf : WF r) (hsz : (emit false r 0).1.length < 32000) (buf : Bytes) (start : Nat) (hst : start ≤ buf.size)
    (fl : VmFlags) (hw : fl.wide = false) (hb : fl.backwards = false) (hsc : fl.scan = false) (fuel : Nat) (m : Int) (c : List Nat)
    (h : exec { code := (emitCode false r).toArray, entry := 0, buf := buf, start := start, fl := fl, syncFuel := fuel } = .done m c) :
    (∀ L, L ∈ c → Re.Matches (specFlags fl) buf r start (start + L)) ∧
    (0 ≤ m → Re.Matches (specFlags fl) buf r start (start + m.toNat)) := by
  obtain ⟨g1, g2⟩ := envOf_sound r hwf hsz buf start hst fl hw hb fuel m c h
  constructor
  · intro L hL
    obtain ⟨s0, _, _, _, h3, hm⟩ := g1 L hL
    rw [h3 hsc] at hm; exact hm
  · intro hm0
    obtain ⟨s0, _, _, _, h3, hm⟩ := g2 hm0
    rw [h3 hsc] at hm; exact hm

/-- soundness of the `matches` operator's engine run (RE_FLAGS_SCAN over the operand string, start 0): a result >= 0
    means that the expression matches somewhere in the operand -/
theorem matches_sound_wf (r : Re) (hwf : WF r) (hsz : (emit false r 0).1.length < 32000) (str : Bytes)
    (fl : VmFlags) (hw : fl.wide = false) (hb : fl.backwards = false) (fuel : Nat) (m : Int) (c : List Nat)
    (h : exec { code := (emitCode false r).toArray, entry := 0, buf := str, start := 0, fl := fl, syncFuel := fuel } = .done m c)
    (hm : 0 ≤ m) : ∃ o q, o ≤ q ∧ q ≤ str.size ∧ Re.Matches (specFlags fl) str r o q := by
  obtain ⟨_, g2⟩ := envOf_sound r hwf hsz str 0 (Nat.zero_le _) fl hw hb fuel m c h
  obtain ⟨s0, _, h2, h3, _, hmm⟩ := g2 hm
  exact ⟨s0, 0 + m.toNat, h2, h3, hmm⟩

/-- the abstract-machine half, for any way of reading the input: a length reported by the VM on `code(r') ++ [MATCH]` is
    the end of a shape match in matched bytes -/
theorem exec_irm (e : Env) (D : Dir e) (r' : Re) (hwf : WF r') (hsz : (emit false r' 0).1.length < 32000)
    (hcode : e.code = ((emit false r' 0).1 ++ [0xAD]).toArray) (hentry : e.entry = 0) (m : Int) (c : List Nat)
    (h : exec e = .done m c) :
    (∀ L, L ∈ c → ∃ s0, s0 ≤ L ∧ D.ok L ∧ (e.fl.scan = false → s0 = 0) ∧ IrM D.L (lower r') s0 L) ∧
    (0 ≤ m → ∃ s0, s0 ≤ m.toNat ∧ D.ok m.toNat ∧ (e.fl.scan = false → s0 = 0) ∧ IrM D.L (lower r') s0 m.toNat) := by
  rw [emit_len hwf] at hsz
  have hsub : Sub e.code 0 ((emit false r' 0).1 ++ [0xAD]) := by rw [hcode]; exact sub_whole _
  obtain ⟨h1, h2⟩ := sub_append hsub
  have hseg : Seg e.code (lower r') 0 (clen (lower r')) := by
    have := seg_of_emit hwf 0 e.code 0 hsz h1
    simpa using this
  have hmatch : u8 e.code (clen (lower r')) = OP_MATCH := by
    have := h2 0 (by simp)
    rw [emit_len hwf] at this
    simp at this
    rw [this]; rfl
  obtain ⟨g1, g2⟩ := exec_sound e m c h
  constructor
  · intro L hL
    obtain ⟨f, md, hr, hm⟩ := g1 L hL
    exact match_sound e D hseg hmatch hentry hr hm
  · intro hm0
    obtain ⟨f, md, hr, hm⟩ := g2 hm0
    exact match_sound e D hseg hmatch hentry hr hm

/-- FORWARD code, one- or two-byte (wide) characters: every reported length ends a match of the expression that begins at
    the start position (in scan mode: at a later position) -/
theorem vm_sound_fwd (r : Re) (hwf : WF r) (hsz : (emit false r 0).1.length < 32000) (buf : Bytes) (start : Nat) (hst : start ≤ buf.size)
    (fl : VmFlags) (hb : fl.backwards = false) (hsw : fl.scan = true → fl.wide = false) (fuel : Nat) (m : Int) (c : List Nat)
    (h : exec { code := (emitCode false r).toArray, entry := 0, buf := buf, start := start, fl := fl, syncFuel := fuel } = .done m c) :
    (∀ L, L ∈ c → ∃ s0, s0 ≤ L ∧ start + L ≤ buf.size ∧ (fl.scan = false → s0 = 0) ∧
      Re.Matches (specFlagsG fl) buf r (start + s0) (start + L)) ∧
    (0 ≤ m → ∃ s0, s0 ≤ m.toNat ∧ start + m.toNat ≤ buf.size ∧ (fl.scan = false → s0 = 0) ∧
      Re.Matches (specFlagsG fl) buf r (start + s0) (start + m.toNat)) := by
  obtain ⟨e, he⟩ : ∃ e : Env, e = { code := (emitCode false r).toArray, entry := 0, buf := buf, start := start, fl := fl, syncFuel := fuel } := ⟨_, rfl⟩
  rw [← he] at h
  have hrun : RunOK e := by subst he; exact ⟨hst, hsw⟩
  have hb' : e.fl.backwards = false := by subst he; exact hb
  obtain ⟨g1, g2⟩ := exec_irm e (fwdDir e hb' hrun) r hwf hsz (by subst he; rfl) (by subst he; rfl) m c h
  have conv : ∀ L s0, (fwdDir e hb' hrun).ok L → IrM (fwdDir e hb' hrun).L (lower r) s0 L →
      start + L ≤ buf.size ∧ Re.Matches (specFlagsG fl) buf r (start + s0) (start + L) := by
    intro L s0 hok hm
    have k := (lower_sem hwf _ _).1 (irm_fwdG (specFlagsG e.fl) e.buf e.start hm)
    have hok2 : e.start + L ≤ e.buf.size := hok.2
    subst he
    exact ⟨hok2, k⟩
  have hsc : e.fl.scan = fl.scan := by subst he; rfl
  constructor
  · intro L hL
    obtain ⟨s0, k1, k2, k3, k4⟩ := g1 L hL
    obtain ⟨c1, c2⟩ := conv L s0 k2 k4
    exact ⟨s0, k1, c1, fun hh => k3 (by rw [hsc]; exact hh), c2⟩
  · intro hm0
    obtain ⟨s0, k1, k2, k3, k4⟩ := g2 hm0
    obtain ⟨c1, c2⟩ := conv _ s0 k2 k4
    exact ⟨s0, k1, c1, fun hh => k3 (by rw [hsc]; exact hh), c2⟩

/-- BACKWARD code (EMIT_BACKWARDS, run with RE_FLAGS_BACKWARDS), one- or two-byte characters: every reported length `L` is
    the length of a match of the expression that ENDS at the start position -/
theorem vm_sound_bwd (r : Re) (hwf : WF r) (hsz : (emit true r 0).1.length < 32000) (buf : Bytes) (start : Nat) (hst : start ≤ buf.size)
    (fl : VmFlags) (hb : fl.backwards = true) (hsc : fl.scan = false) (fuel : Nat) (m : Int) (c : List Nat)
    (h : exec { code := (emitCode true r).toArray, entry := 0, buf := buf, start := start, fl := fl, syncFuel := fuel } = .done m c) :
    (∀ L, L ∈ c → L ≤ start ∧ Re.Matches (specFlagsG fl) buf r (start - L) start) ∧
    (0 ≤ m → m.toNat ≤ start ∧ Re.Matches (specFlagsG fl) buf r (start - m.toNat) start) := by
  obtain ⟨e, he⟩ : ∃ e : Env, e = { code := (emitCode true r).toArray, entry := 0, buf := buf, start := start, fl := fl, syncFuel := fuel } := ⟨_, rfl⟩
  rw [← he] at h
  have hrun : RunOK e := by subst he; exact ⟨hst, fun hh => by rw [hsc] at hh; simp at hh⟩
  have hb' : e.fl.backwards = true := by subst he; exact hb
  have hcode : e.code = ((emit false (rev r) 0).1 ++ [0xAD]).toArray := by subst he; simp only [emitCode, emit_rev]
  rw [emit_rev] at hsz
  obtain ⟨g1, g2⟩ := exec_irm e (bwdDir e hb' hrun) (rev r) (rev_wf hwf) hsz hcode (by subst he; rfl) m c h
  have hsc' : e.fl.scan = false := by subst he; exact hsc
  have conv : ∀ L s0, s0 = 0 → (bwdDir e hb' hrun).ok L → IrM (bwdDir e hb' hrun).L (lower (rev r)) s0 L →
      L ≤ start ∧ Re.Matches (specFlagsG fl) buf r (start - L) start := by
    intro L s0 h0 hok hm
    subst h0
    have k := lowerB_sem hwf _ _ (irm_bwdG (specFlagsG e.fl) e.buf e.start hm)
    have hok2 : L ≤ e.start := hok.2
    subst he
    exact ⟨hok2, by simpa using k⟩
  constructor
  · intro L hL
    obtain ⟨s0, _, k2, k3, k4⟩ := g1 L hL
    exact conv L s0 (k3 hsc') k2 k4
  · intro hm0
    obtain ⟨s0, _, k2, k3, k4⟩ := g2 hm0
    exact conv _ s0 (k3 hsc') k2 k4

/-- the ASTs `hex_grammar.y` builds for (a piece of) a hex string: bytes, `??`, nibble masks, `~` negations, jumps
    `[n]` / `[n-m]` (lazy RE_NODE_RANGE_ANY, m below 65536 — every jump that is not split off as a chain link is at most
    YR_STRING_CHAINING_THRESHOLD = 200), concatenation, alternatives nested to any depth -/
inductive HexAst : Re → Prop
  | byte (b : UInt8) : HexAst (.lit b)
  | wild : HexAst .any
  | mask (v m : UInt8) : HexAst (.masked v m)
  | notByte (b : UInt8) : HexAst (.notLit b)
  | notMask (v m : UInt8) : HexAst (.maskedNot v m)
  | jump (lo hi : Nat) : lo ≤ hi → hi < 65536 → HexAst (.rangeAny lo hi false)
  | seq {a b} : HexAst a → HexAst b → HexAst (.cat a b)
  | alt {a b} : HexAst a → HexAst b → HexAst (.alt a b)

theorem HexAst.wf {r : Re} (h : HexAst r) : WF r := by
  induction h with
  | byte b => exact .lit b
  | wild => exact .any
  | mask v m => exact .masked v m
  | notByte b => exact .notLit b
  | notMask v m => exact .maskedNot v m
  | jump lo hi h1 h2 => exact .rangeAny lo hi false h1 h2
  | seq _ _ ih1 ih2 => exact .cat ih1 ih2
  | alt _ _ ih1 ih2 => exact .alt ih1 ih2

end YaraModel.ReEmit
