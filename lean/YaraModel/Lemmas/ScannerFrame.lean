/- C10/C13 helper lemmas: which fields the block phase leaves alone, and what `_exit` establishes. -/
import YaraModel.Model.Scanner
namespace YaraModel.Scan

/-- the fields the block loop never writes -/
structure Frame (c c' : Core) : Prop where
  modules : c'.modules = c.modules
  notebook : c'.notebook = c.notebook
  swStart : c'.swStart = c.swStart

theorem Frame.refl (c : Core) : Frame c c := ⟨rfl, rfl, rfl⟩

theorem Frame.trans {a b c : Core} (h1 : Frame a b) (h2 : Frame b c) : Frame a c :=
  ⟨h2.modules.trans h1.modules, h2.notebook.trans h1.notebook, h2.swStart.trans h1.swStart⟩

theorem chainStep_frame (P : Params) (b : Block) (k : Cand) (ci : ChainInfo) (c : Core) : Frame c (chainStep P b k ci c) := by
  simp only [chainStep]
  repeat' split
  all_goals exact ⟨rfl, rfl, rfl⟩

theorem addCands_frame (P : Params) (cb : Nat → CbRet) (fast : Bool) (b : Block) (ks : List Cand) (c : Core) (w : World) :
    Frame c (addCands P cb fast b ks c w).1 := by
  induction ks generalizing c w with
  | nil => exact Frame.refl c
  | cons k ks ih =>
    simp only [addCands]
    repeat' split
    all_goals first
      | exact ih _ _
      | exact ⟨rfl, rfl, rfl⟩
      | (refine Frame.trans ?_ (ih _ _); exact ⟨rfl, rfl, rfl⟩)
      | exact Frame.trans (chainStep_frame ..) (ih _ _)

theorem scanBlock_frame (P : Params) (cb : Nat → CbRet) (set : Settings) (b : Block) (c : Core) (w : World) :
    Frame c (scanBlock P cb set b c w).1 := by
  simp only [scanBlock]
  repeat' split
  all_goals first
    | exact Frame.refl c
    | exact ⟨rfl, rfl, rfl⟩
    | exact addCands_frame ..
    | (refine Frame.trans ?_ (addCands_frame ..); exact ⟨rfl, rfl, rfl⟩)

/-! unfolding equations of the loops, by the outcome of the iterator call -/

theorem blockLoop_notReady {P : Params} {cb : Nat → CbRet} {set : Settings} {rest : List Block} {sched sc : List Act}
    {c : Core} {w : World} (h : stepOf sched = .notReady sc) :
    blockLoop P cb set rest sched c w = ⟨c, rest, sc, .blockNotReady, .blockNotReady, w, []⟩ := by
  unfold blockLoop; rw [h]

theorem blockLoop_fail {P : Params} {cb : Nat → CbRet} {set : Settings} {rest : List Block} {sched sc : List Act} {e : Nat}
    {c : Core} {w : World} (h : stepOf sched = .fail e sc) :
    blockLoop P cb set rest sched c w = ⟨c, rest, sc, .iter e, .iter e, w, []⟩ := by
  unfold blockLoop; rw [h]

theorem blockLoop_nil_go {P : Params} {cb : Nat → CbRet} {set : Settings} {sched sc : List Act} {a : Act}
    {c : Core} {w : World} (h : stepOf sched = .go a sc) :
    blockLoop P cb set [] sched c w = ⟨c, [], sc, .success, .success, tick w a, []⟩ := by
  unfold blockLoop; rw [h]

theorem blockLoop_cons_go {P : Params} {cb : Nat → CbRet} {set : Settings} {b : Block} {r : List Block}
    {sched sc : List Act} {a : Act} {c : Core} {w : World} (h : stepOf sched = .go a sc) :
    blockLoop P cb set (b :: r) sched c w =
      match scanBlock P cb set b c (tick w a) with
      | (c', w', ms, .success) =>
        let o := blockLoop P cb set r sc c' w'
        { o with msgs := ms ++ o.msgs }
      | (c', w', ms, e) => ⟨c', r, sc, .success, e, w', ms⟩ := by
  conv => lhs; unfold blockLoop; rw [h]
  rfl

def LoopOut.pre (ms : List Msg) (o : LoopOut) : LoopOut := { o with msgs := ms ++ o.msgs }

theorem blockLoop_cons_go_ok {P : Params} {cb : Nat → CbRet} {set : Settings} {b : Block} {r : List Block}
    {sched sc : List Act} {a : Act} {c c' : Core} {w w' : World} {ms : List Msg} (h : stepOf sched = .go a sc)
    (hb : scanBlock P cb set b c (tick w a) = (c', w', ms, .success)) :
    blockLoop P cb set (b :: r) sched c w = (blockLoop P cb set r sc c' w').pre ms := by
  rw [blockLoop_cons_go h, hb]; rfl

theorem blockLoop_cons_go_err {P : Params} {cb : Nat → CbRet} {set : Settings} {b : Block} {r : List Block}
    {sched sc : List Act} {a : Act} {c c' : Core} {w w' : World} {ms : List Msg} {e : Err} (h : stepOf sched = .go a sc)
    (hb : scanBlock P cb set b c (tick w a) = (c', w', ms, e)) (he : e ≠ .success) :
    blockLoop P cb set (b :: r) sched c w = ⟨c', r, sc, .success, e, w', ms⟩ := by
  rw [blockLoop_cons_go h, hb]
  cases e <;> first | exact absurd rfl he | rfl

theorem addCands_result (P : Params) (cb : Nat → CbRet) (fast : Bool) (b : Block) (ks : List Cand) (c : Core) (w : World) :
    (addCands P cb fast b ks c w).2.2.2 = .success ∨ (addCands P cb fast b ks c w).2.2.2 = .tooManyMatches := by
  induction ks generalizing c w with
  | nil => left; rfl
  | cons k ks ih =>
    simp only [addCands]
    repeat' split
    all_goals first
      | exact ih _ _
      | (right; rfl)

theorem addCands_result_ne (P : Params) (cb : Nat → CbRet) (fast : Bool) (b : Block) (ks : List Cand) (c : Core) (w : World) :
    (addCands P cb fast b ks c w).2.2.2 ≠ .blockNotReady := by
  rcases addCands_result P cb fast b ks c w with h | h <;> simp [h]

theorem scanBlock_result (P : Params) (cb : Nat → CbRet) (set : Settings) (b : Block) (c : Core) (w : World) :
    (scanBlock P cb set b c w).2.2.2 ≠ .blockNotReady := by
  simp only [scanBlock]
  repeat' split
  all_goals first
    | exact addCands_result_ne _ _ _ _ _ _ _
    | (simp; done)

theorem blockLoop_frame (P : Params) (cb : Nat → CbRet) (set : Settings) (rest : List Block) (sched : List Act)
    (c : Core) (w : World) : Frame c (blockLoop P cb set rest sched c w).core := by
  induction rest generalizing sched c w with
  | nil =>
    cases hs : stepOf sched with
    | notReady sc => rw [blockLoop_notReady hs]; exact Frame.refl c
    | fail e sc => rw [blockLoop_fail hs]; exact Frame.refl c
    | go a sc => rw [blockLoop_nil_go hs]; exact Frame.refl c
  | cons b r ih =>
    cases hs : stepOf sched with
    | notReady sc => rw [blockLoop_notReady hs]; exact Frame.refl c
    | fail e sc => rw [blockLoop_fail hs]; exact Frame.refl c
    | go a sc =>
      rw [blockLoop_cons_go hs]
      have hf := scanBlock_frame P cb set b c (tick w a)
      split
      · rename_i c' w' ms heq
        rw [heq] at hf
        exact Frame.trans hf (ih _ _ _)
      · rename_i c' w' ms e _ heq
        rw [heq] at hf
        exact hf

end YaraModel.Scan
