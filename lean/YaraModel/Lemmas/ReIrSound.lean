/-
  The reachability invariant of the abstract machine (Lemmas/ReVm.lean `Reach`) on a whole program `code(r) ++ [MATCH]`:
  whatever can still be accepted from a reachable state extends to a match of the expression (`reach_lang`); a reachable
  fiber at RE_OPCODE_MATCH after `L` bytes witnesses a match of length `L` (`match_sound`).
-/
import YaraModel.Lemmas.ReIrStep
namespace YaraModel.ReEmit
open YaraModel.Re YaraModel.ReVm

def Keps : Lang := fun q q' => q = q'

theorem start_not_match (e : Env) (D : Dir e) {r : Ir} {n : Nat} (hs : Seg e.code r 0 n) {f : Fiber} {m : Mode}
    (hst : ValidF r 0 0 f m) : u8 e.code f.ip ≠ OP_MATCH := by
  obtain ⟨_, _, _, e4, _⟩ := seg_step e D hs 0 Keps f m hst
  exact e4

/-- one call of sync keeps the invariant -/
theorem sstar_lang (e : Env) (D : Dir e) {r : Ir} {n : Nat} (hs : Seg e.code r 0 n) (hmatch : u8 e.code n = OP_MATCH)
    {f g : Fiber} {m' : Mode} (hss : SStar e.code f g m') : ∀ (m : Mode), m ≠ .wait → (ValidF r 0 0 f m ∨ AtEnd n 0 f m) →
    (ValidF r 0 0 g m' ∨ AtEnd n 0 g m') ∧
      ∀ q q', langF D.L r 0 0 Keps g m' q q' → langF D.L r 0 0 Keps f m q q' := by
  induction hss with
  | @refl f hn =>
    intro m _ hv
    have hm : m = .run := by
      rcases hv with hv | hv
      · exact valid_run hs hv hn
      · exact hv.2.2.1
    subst hm
    exact ⟨hv, fun q q' hq => hq⟩
  | @eps f g1 h1 m1 hstep _ ih =>
    intro m hmw hv
    rcases hv with hv | hv
    · obtain ⟨e1, _, _, _, _⟩ := seg_step e D hs 0 Keps f m hv
      obtain ⟨g1v, _, g1l⟩ := e1 g1 hstep hmw
      obtain ⟨r1, r2⟩ := ih .run (by simp) g1v
      exact ⟨r1, fun q q' hq => g1l q q' (r2 q q' hq)⟩
    · exact absurd hstep (fun hh => no_estep_match hh (by rw [hv.1]; exact hmatch))
  | @cont f g1 h1 m1 hstep _ ih =>
    intro m hmw hv
    rcases hv with hv | hv
    · obtain ⟨_, e2, _, _, _⟩ := seg_step e D hs 0 Keps f m hv
      obtain ⟨g1v, _, g1l⟩ := e2 g1 false hstep hmw
      obtain ⟨r1, r2⟩ := ih .run (by simp) (by simpa [modeAfter] using g1v)
      refine ⟨r1, fun q q' hq => g1l q q' ?_⟩
      simpa [modeAfter] using r2 q q' hq
    · exact absurd hstep (fun hh => no_astep hh (match_not_any (by rw [hv.1]; exact hmatch)))
  | @spin f g1 hstep =>
    intro m hmw hv
    rcases hv with hv | hv
    · obtain ⟨_, e2, _, _, _⟩ := seg_step e D hs 0 Keps f m hv
      obtain ⟨g1v, _, g1l⟩ := e2 g1 true hstep hmw
      exact ⟨by simpa [modeAfter] using g1v, fun q q' hq => g1l q q' (by simpa [modeAfter] using hq)⟩
    · exact absurd hstep (fun hh => no_astep hh (match_not_any (by rw [hv.1]; exact hmatch)))

/-- invariant of the abstract machine on a whole program: whatever can still be accepted from a reachable state extends
    to a match of the expression from the start position of the run (in scan mode: from SOME start position `s0`) -/
theorem reach_lang (e : Env) (D : Dir e) {r : Ir} {n : Nat} (hs : Seg e.code r 0 n) (hmatch : u8 e.code n = OP_MATCH)
    (hentry : e.entry = 0) {f : Fiber} {m : Mode} {bm : Nat} (hr : Reach e f m bm) :
    (ValidF r 0 0 f m ∨ AtEnd n 0 f m) ∧ D.ok bm ∧
      ∃ s0, s0 ≤ bm ∧ (e.fl.scan = false → s0 = 0) ∧
        ∀ q', langF D.L r 0 0 Keps f m bm q' →
          lang D.L r 0 0 Keps 0 (-1) [] .run s0 q' := by
  have hstart : ValidF r 0 0 { ip := 0 } .run ∨ AtEnd n 0 { ip := 0 } .run := entry_state hs 0 { ip := 0 } rfl rfl rfl
  induction hr with
  | start =>
    simp only [hentry]
    exact ⟨hstart, D.ok0, 0, Nat.le_refl _, fun _ => rfl, fun q' hq => hq⟩
  | scanStart bm hsc hbm =>
    simp only [hentry]
    exact ⟨hstart, D.okScan hsc hbm, bm, Nat.le_refl _, fun hh => by rw [hsc] at hh; simp at hh, fun q' hq => hq⟩
  | @sync f g m m' bm _ hmw hss ih =>
    obtain ⟨hpos, hb, s0, h1, h3, hl⟩ := ih
    obtain ⟨r1, r2⟩ := sstar_lang e D hs hmatch hss m hmw hpos
    exact ⟨r1, hb, s0, h1, h3, fun q' hq => hl q' (r2 _ q' hq)⟩
  | @zw f bm _ hnc hnm hz ih =>
    obtain ⟨hpos, hb, s0, h1, h3, hl⟩ := ih
    rcases hpos with hst | hend
    · obtain ⟨_, _, _, _, e5⟩ := seg_step e D hs 0 Keps f .run hst
      obtain ⟨g1, g2⟩ := e5 bm hb hnc hz
      exact ⟨g1, hb, s0, h1, h3, fun q' hq => hl q' (g2 q' hq)⟩
    · exact absurd (by rw [hend.1]; exact hmatch) hnm
  | @cons f m bm _ hc hok hany hnp ih =>
    obtain ⟨hpos, hb, s0, h1, h3, hl⟩ := ih
    rcases hpos with hst | hend
    · obtain ⟨_, _, e3, _, _⟩ := seg_step e D hs 0 Keps f m hst
      obtain ⟨g1, g2⟩ := e3 bm hb hc hok hany hnp
      exact ⟨g1, D.okCons hb hok, s0, by omega, h3, fun q' hq => hl q' (g2 q' hq)⟩
    · exfalso
      rw [hend.1, hmatch] at hc
      simp [isConsuming, OP_MATCH, OP_ANY, OP_REPEAT_ANY_GREEDY, OP_REPEAT_ANY_UNGREEDY, OP_LITERAL, OP_NOT_LITERAL, OP_MASKED_LITERAL,
        OP_MASKED_NOT_LITERAL, OP_CLASS, OP_WORD_CHAR, OP_NON_WORD_CHAR, OP_SPACE, OP_NON_SPACE, OP_DIGIT, OP_NON_DIGIT] at hc

/-- a reachable fiber at RE_OPCODE_MATCH after `L` matched bytes: the shape matches from `s0` to `L` matched bytes, for a
    start `s0` of the run (`s0 = 0` unless the run is in scan mode) -/
theorem match_sound (e : Env) (D : Dir e) {r : Ir} {n : Nat} (hs : Seg e.code r 0 n) (hmatch : u8 e.code n = OP_MATCH)
    (hentry : e.entry = 0) {f : Fiber} {m : Mode} {L : Nat} (hr : Reach e f m L) (hm : u8 e.code f.ip = OP_MATCH) :
    ∃ s0, s0 ≤ L ∧ D.ok L ∧ (e.fl.scan = false → s0 = 0) ∧ IrM D.L r s0 L := by
  obtain ⟨hpos, hbd, s0, h1, h3, hl⟩ := reach_lang e D hs hmatch hentry hr
  rcases hpos with hst | hend
  · exact absurd hm (start_not_match e D hs hst)
  · have hk : langF D.L r 0 0 Keps f m L L := by
      simp only [langF]; rw [hend.1, lang_end _ hs]; rfl
    obtain ⟨t, ht, hkt⟩ := lang_entry _ hs 0 Keps [] _ _ (hl _ hk)
    simp only [Keps] at hkt
    rw [hkt] at ht
    exact ⟨s0, h1, hbd, h3, ht⟩

/-- the same for a run that ENTERS the code at any valid state (verification starts at the atom's instruction): whatever can still be accepted from a reachable state extends
    to a match of the expression from the start position of the run (in scan mode: from SOME start position `s0`) -/
theorem reach_lang_at (e : Env) (D : Dir e) {r : Ir} {n : Nat} (hs : Seg e.code r 0 n) (hmatch : u8 e.code n = OP_MATCH)
    (hstart : ValidF r 0 0 { ip := e.entry } .run ∨ AtEnd n 0 { ip := e.entry } .run) {f : Fiber} {m : Mode} {bm : Nat} (hr : Reach e f m bm) :
    (ValidF r 0 0 f m ∨ AtEnd n 0 f m) ∧ D.ok bm ∧
      ∃ s0, s0 ≤ bm ∧ (e.fl.scan = false → s0 = 0) ∧
        ∀ q', langF D.L r 0 0 Keps f m bm q' →
          lang D.L r 0 0 Keps e.entry (-1) [] .run s0 q' := by
  induction hr with
  | start =>
    exact ⟨hstart, D.ok0, 0, Nat.le_refl _, fun _ => rfl, fun q' hq => hq⟩
  | scanStart bm hsc hbm =>
    exact ⟨hstart, D.okScan hsc hbm, bm, Nat.le_refl _, fun hh => by rw [hsc] at hh; simp at hh, fun q' hq => hq⟩
  | @sync f g m m' bm _ hmw hss ih =>
    obtain ⟨hpos, hb, s0, h1, h3, hl⟩ := ih
    obtain ⟨r1, r2⟩ := sstar_lang e D hs hmatch hss m hmw hpos
    exact ⟨r1, hb, s0, h1, h3, fun q' hq => hl q' (r2 _ q' hq)⟩
  | @zw f bm _ hnc hnm hz ih =>
    obtain ⟨hpos, hb, s0, h1, h3, hl⟩ := ih
    rcases hpos with hst | hend
    · obtain ⟨_, _, _, _, e5⟩ := seg_step e D hs 0 Keps f .run hst
      obtain ⟨g1, g2⟩ := e5 bm hb hnc hz
      exact ⟨g1, hb, s0, h1, h3, fun q' hq => hl q' (g2 q' hq)⟩
    · exact absurd (by rw [hend.1]; exact hmatch) hnm
  | @cons f m bm _ hc hok hany hnp ih =>
    obtain ⟨hpos, hb, s0, h1, h3, hl⟩ := ih
    rcases hpos with hst | hend
    · obtain ⟨_, _, e3, _, _⟩ := seg_step e D hs 0 Keps f m hst
      obtain ⟨g1, g2⟩ := e3 bm hb hc hok hany hnp
      exact ⟨g1, D.okCons hb hok, s0, by omega, h3, fun q' hq => hl q' (g2 q' hq)⟩
    · exfalso
      rw [hend.1, hmatch] at hc
      simp [isConsuming, OP_MATCH, OP_ANY, OP_REPEAT_ANY_GREEDY, OP_REPEAT_ANY_UNGREEDY, OP_LITERAL, OP_NOT_LITERAL, OP_MASKED_LITERAL,
        OP_MASKED_NOT_LITERAL, OP_CLASS, OP_WORD_CHAR, OP_NON_WORD_CHAR, OP_SPACE, OP_NON_SPACE, OP_DIGIT, OP_NON_DIGIT] at hc


/-- a run entering at `e.entry`: a reachable fiber at RE_OPCODE_MATCH after `L` matched bytes witnesses that the language of
    the entry state accepts from `s0` to `L` matched bytes -/
theorem match_lang_at (e : Env) (D : Dir e) {r : Ir} {n : Nat} (hs : Seg e.code r 0 n) (hmatch : u8 e.code n = OP_MATCH)
    (hstart : ValidF r 0 0 { ip := e.entry } .run ∨ AtEnd n 0 { ip := e.entry } .run)
    {f : Fiber} {m : Mode} {L : Nat} (hr : Reach e f m L) (hm : u8 e.code f.ip = OP_MATCH) :
    ∃ s0, s0 ≤ L ∧ D.ok L ∧ (e.fl.scan = false → s0 = 0) ∧ lang D.L r 0 0 Keps e.entry (-1) [] .run s0 L := by
  obtain ⟨hpos, hbd, s0, h1, h3, hl⟩ := reach_lang_at e D hs hmatch hstart hr
  rcases hpos with hst | hend
  · exact absurd hm (start_not_match e D hs hst)
  · have hk : langF D.L r 0 0 Keps f m L L := by
      simp only [langF]; rw [hend.1, lang_end _ hs]; rfl
    exact ⟨s0, h1, hbd, h3, hl _ hk⟩


end YaraModel.ReEmit
