/-
  Bridge between the automaton (Model/AcScan.lean, Thm/AcBuild.lean: atoms = labelled byte sequences, candidates =
  (label, offset, length)) and the verification of a hex string (Model/ReScan.lean: candidates = code positions + offset).
  The automaton model's match entries carry a label (for text strings: the string index) but no code references; here the
  label of an atom is its POSITION in the list `atomsOf q m r` handed to `yr_ac_add_string`, and the forward / backward code
  references of the real match entry are looked up from that list: for a non-empty atom the positions of the node it
  begins at (`ctxAt`: equal to the `fwdRef` / `bwdRef` the atoms model records, `candOfAtom_refs`), for the zero-length atom
  the beginning of the forward code and no backward code.
-/
import YaraModel.Model.AcScan
import YaraModel.Lemmas.ReScanComplete
import YaraModel.Lemmas.ReAtomPos
namespace YaraModel.HexE2E
open YaraModel.Re YaraModel.ReVm YaraModel.ReEmit YaraModel.ReScan YaraModel.ReAtoms

/-- the atoms of the string as the automaton receives them: label = position in the list, backtrack 0 (hex / regex atoms
    are positioned by their code references, not by a backtrack) -/
def acAtoms (al : List (List UInt8 × Nat)) : List (Nat × YaraModel.Text.Atom) := al.zipIdx.map fun xi => (xi.2, ⟨xi.1.1, 0⟩)

def atomLeafB : Re → Bool
  | .lit _ | .masked _ _ | .any => true
  | _ => false

theorem atomLeafB_iff {y : Re} : atomLeafB y = true ↔ AtomLeaf y := by
  unfold AtomLeaf
  cases y <;> simp [atomLeafB]

/-- the verification candidate of an occurrence of atom `x` at `off` -/
def candOfAtom (r : Re) (x : List UInt8 × Nat) (off : Nat) : Option Cand :=
  if x.1 = [] then some ⟨0, none, off⟩
  else match ctxAt r x.2 with
    | some (c, y) => if atomLeafB y then some ⟨holePos c 0, some (bwdPos y c 0), off⟩ else none
    | none => none

/-- the candidates of the string: the automaton's reports, translated -/
def candsOf (r : Re) (al : List (List UInt8 × Nat)) (S : List (Nat × Nat × Nat)) : List Cand :=
  S.filterMap fun t => (al[t.1]?).bind fun x => candOfAtom r x t.2.1

theorem ctxAt_fill : ∀ {r : Re} {k : Nat} {c : Ctx} {x : Re}, ctxAt r k = some (c, x) → c.fill x = r := by
  intro r
  induction r with
  | cat a b iha ihb =>
    intro k c x h
    simp only [ctxAt] at h
    split at h
    · simp only [Option.map_eq_some_iff] at h
      obtain ⟨cx, h1, h2⟩ := h
      cases h2
      simp only [Ctx.fill, iha (c := cx.1) (x := cx.2) h1]
    · simp only [Option.map_eq_some_iff] at h
      obtain ⟨cx, h1, h2⟩ := h
      cases h2
      simp only [Ctx.fill, ihb (c := cx.1) (x := cx.2) h1]
  | alt a b iha ihb =>
    intro k c x h
    simp only [ctxAt] at h
    split at h
    · simp only [Option.map_eq_some_iff] at h
      obtain ⟨cx, h1, h2⟩ := h
      cases h2
      simp only [Ctx.fill, iha (c := cx.1) (x := cx.2) h1]
    · simp only [Option.map_eq_some_iff] at h
      obtain ⟨cx, h1, h2⟩ := h
      cases h2
      simp only [Ctx.fill, ihb (c := cx.1) (x := cx.2) h1]
  | star _ _ _ | plus _ _ _ | range _ _ _ _ _ => intro k c x h; simp [ctxAt] at h
  | _ =>
    intro k c x h
    simp only [ctxAt] at h
    split at h
    · cases h; rfl
    · cases h

/-- the code positions of a translated candidate are the ones the atoms model records (and the checks compare with the
    real automaton entries) -/
theorem candOfAtom_refs {r : Re} (hh : HexAst r) {x : List UInt8 × Nat} {off : Nat} {cd : Cand} (h : candOfAtom r x off = some cd)
    (hne : x.1 ≠ []) : ∃ b, cd.bwd = some b ∧ fwdRef r x.2 = some cd.fwd ∧ bwdRef r x.2 = some (b + ReAtoms.clen false r + 1) := by
  unfold candOfAtom at h
  rw [if_neg hne] at h
  split at h
  · rename_i c y hc
    split at h
    · rename_i hy
      cases h
      exact ⟨_, rfl, fwdRef_eq hc (HexAst.flat hh) hh.wf (atomLeafB_iff.1 hy), bwdRef_eq hc (HexAst.flat hh) hh.wf (atomLeafB_iff.1 hy)⟩
    · cases h
  · cases h

theorem candOfAtom_ok {r : Re} (hh : HexAst r) {x : List UInt8 × Nat} {off : Nat} {cd : Cand} (h : candOfAtom r x off = some cd) :
    CandOK r cd ∧ cd.off = off := by
  unfold candOfAtom at h
  split at h
  · cases h; exact ⟨.inl ⟨rfl, rfl⟩, rfl⟩
  · split at h
    · rename_i c y hc
      split at h
      · rename_i hy
        cases h
        have hf := ctxAt_fill hc
        exact ⟨.inr ⟨c, y, atomLeafB_iff.1 hy, hexAst_ctx (by rw [hf]; exact hh), hf, rfl, rfl⟩, rfl⟩
      · cases h
    · cases h

/-! ### literal occurrences in the buffer, as the automaton sees them -/
theorem bytesAt_bound {buf : Bytes} : ∀ (l : List UInt8) (s : Nat), BytesAt buf l s → s ≤ buf.size → s + l.length ≤ buf.size
  | [], s, _, h => by simpa using h
  | b :: t, s, h, _ => by
    obtain ⟨h1, h2⟩ := h
    have : s < buf.size := by
      rcases Nat.lt_or_ge s buf.size with hlt | hge
      · exact hlt
      · rw [Array.getElem?_eq_none hge] at h1; cases h1
    have := bytesAt_bound t (s + 1) h2 (by omega)
    simp only [List.length_cons]; omega

theorem bytesAt_take {buf : Bytes} : ∀ (l : List UInt8) (s : Nat), BytesAt buf l s → (buf.toList.drop s).take l.length = l
  | [], s, _ => by simp
  | b :: t, s, h => by
    obtain ⟨h1, h2⟩ := h
    have ih := bytesAt_take t (s + 1) h2
    have hs : s < buf.toList.length := by
      rcases Nat.lt_or_ge s buf.size with hlt | hge
      · simpa using hlt
      · rw [Array.getElem?_eq_none hge] at h1; cases h1
    have hb : buf.toList[s] = b := by
      have : buf.toList[s]? = some b := by simpa using h1
      rw [List.getElem?_eq_getElem hs] at this
      exact Option.some.inj this
    rw [List.drop_eq_getElem_cons hs, List.length_cons, List.take_succ_cons, hb, ih]

theorem suffix_of_bytesAt {buf : Bytes} {l : List UInt8} {s : Nat} (h : BytesAt buf l s) :
    l <:+ buf.toList.take (s + l.length) := by
  have := bytesAt_take l s h
  refine ⟨buf.toList.take s, ?_⟩
  rw [List.take_add, this]

section
variable {r : Re} {al : List (List UInt8 × Nat)} {buf : Bytes} {S : List (Nat × Nat × Nat)}

/-- the automaton reports every literal occurrence of every atom of the list (from `build_sound`) -/
theorem occ_reported (hS : ∀ t, t ∈ S ↔ ∃ k, k ≤ buf.toList.length ∧ t ∈ YaraModel.AC.expectedAt (acAtoms al) (buf.toList.take k))
    {x : List UInt8 × Nat} {i : Nat} (hi : al[i]? = some x) {s : Nat} (hs : s ≤ buf.size) (hb : BytesAt buf x.1 s) :
    (i, s, x.1.length) ∈ S := by
  have hbd := bytesAt_bound x.1 s hb hs
  apply (hS _).2
  refine ⟨s + x.1.length, by simpa using hbd, ?_⟩
  unfold YaraModel.AC.expectedAt
  simp only [List.mem_filterMap]
  refine ⟨(i, ⟨x.1, 0⟩), ?_, ?_⟩
  · unfold acAtoms
    simp only [List.mem_map]
    exact ⟨(x, i), List.mk_mem_zipIdx_iff_getElem?.2 hi, rfl⟩
  · have hsuf := suffix_of_bytesAt hb
    have hlen : (buf.toList.take (s + x.1.length)).length = s + x.1.length := by
      rw [List.length_take]; simp; omega
    simp only [Nat.add_zero, hlen]
    rw [if_pos (by simp [List.isSuffixOf_iff_suffix.2 hsuf])]
    congr 2
    rw [Nat.add_sub_cancel]

/-- the automaton contract of `hex_scan_complete`, discharged: wherever the bytes of an atom of the string occur literally,
    the candidate list holds the entry with the code positions of the atom's node at that offset -/
theorem hcands_holds (hS : ∀ t, t ∈ S ↔ ∃ k, k ≤ buf.toList.length ∧ t ∈ YaraModel.AC.expectedAt (acAtoms al) (buf.toList.take k))
    {x : List UInt8 × Nat} (hx : x ∈ al) {s : Nat} (hs : s ≤ buf.size) (hb : BytesAt buf x.1 s) :
    (x.1 = [] → (⟨0, none, s⟩ : Cand) ∈ candsOf r al S) ∧
    (x.1 ≠ [] → ∀ c y, ctxAt r x.2 = some (c, y) → AtomLeaf y → (⟨holePos c 0, some (bwdPos y c 0), s⟩ : Cand) ∈ candsOf r al S) := by
  obtain ⟨i, hi⟩ := List.getElem?_of_mem hx
  have hocc := occ_reported hS hi hs hb
  constructor
  · intro h0
    unfold candsOf
    simp only [List.mem_filterMap]
    refine ⟨_, hocc, ?_⟩
    simp [hi, candOfAtom, h0]
  · intro hne c y hc hy
    unfold candsOf
    simp only [List.mem_filterMap]
    refine ⟨_, hocc, ?_⟩
    simp [hi, candOfAtom, hne, hc, atomLeafB_iff.2 hy]

/-- every translated candidate points to an atom node of the pattern (or is the zero-length atom) inside the buffer -/
theorem cands_ok (hh : HexAst r)
    (hS : ∀ t, t ∈ S ↔ ∃ k, k ≤ buf.toList.length ∧ t ∈ YaraModel.AC.expectedAt (acAtoms al) (buf.toList.take k)) :
    ∀ cd ∈ candsOf r al S, CandOK r cd ∧ cd.off ≤ buf.size := by
  intro cd hcd
  unfold candsOf at hcd
  simp only [List.mem_filterMap] at hcd
  obtain ⟨t, ht, hcd⟩ := hcd
  cases hx : al[t.1]? with
  | none => simp [hx] at hcd
  | some x =>
    simp only [hx, Option.bind_some] at hcd
    obtain ⟨h1, h2⟩ := candOfAtom_ok hh hcd
    refine ⟨h1, ?_⟩
    rw [h2]
    obtain ⟨k, hk, hmem⟩ := (hS t).1 ht
    unfold YaraModel.AC.expectedAt at hmem
    simp only [List.mem_filterMap] at hmem
    obtain ⟨a, _, ha⟩ := hmem
    split at ha
    · simp only [Option.some.injEq] at ha
      rw [← ha]
      simp only [List.length_take]
      have : buf.toList.length = buf.size := by simp
      omega
    · cases ha
end

/-- scan completeness with the automaton contract stated over the node contexts (`ctxAt`) — the form `hcands_holds` proves -/
theorem scan_complete_ctx (q : Atom → Int) (m : Mods) (r : Re) (hg : HexG r) (hgr : HexG (rev r)) (hmk : MaskOK r)
    (hszf : (emit false r 0).1.length < 32000) (hidf : (emit false r 0).2 ≤ 256)
    (hszb : (emit true r 0).1.length < 32000) (hidb : (emit true r 0).2 ≤ 256)
    (buf : Bytes) (fl : VmFlags) (hw : fl.wide = false) (hw0 : m.wide = false ∨ m.ascii = true) (hn : m.nocase = fl.nocase)
    (fuel : Nat) (cands : List Cand)
    (hcands : ∀ x ∈ atomsOf q m r, ∀ s, s ≤ buf.size → BytesAt buf x.1 s →
      (x.1 = [] → (⟨0, none, s⟩ : Cand) ∈ cands) ∧
      (x.1 ≠ [] → ∀ c y, ctxAt r x.2 = some (c, y) → AtomLeaf y → (⟨holePos c 0, some (bwdPos y c 0), s⟩ : Cand) ∈ cands))
    (hrun : ∀ c ∈ cands,
      (∃ m1 c1, exec { code := (emitCode false r).toArray, entry := c.fwd, buf := buf, start := c.off, fl := fwdFlags fl, syncFuel := fuel } = .done m1 c1) ∧
      (∀ b, c.bwd = some b → ∃ m2 c2, exec { code := (emitCode true r).toArray, entry := b, buf := buf, start := c.off, fl := bwdFlags fl, syncFuel := fuel } = .done m2 c2))
    (p q' : Nat) (hp : p ≤ buf.size) (hm : Re.Matches (specFlags fl) buf r p q') (hwin : q' - p ≤ 1024) :
    ∃ len, (p, len) ∈ scanHex r buf fl fuel cands := by
  have hb := Matches.bounds hm
  obtain ⟨T, hT⟩ := tr_of_matches hm 0
  obtain ⟨x, hx, s, h1, h2, h3, h4⟩ := atomsOf_cover q m (specFlags fl) buf (fun h => by cases h) (fun _ => hw0) hn r hmk hT
  by_cases h0 : x.1 = []
  · have hc := (hcands x hx p (by omega) (by rw [h0]; trivial)).1 h0
    obtain ⟨⟨m1, c1, hfw⟩, _⟩ := hrun _ hc
    obtain ⟨_, k⟩ := verifyOne_complete_zero r hg hszf hidf buf fl hw fuel p (by omega) m1 c1 hfw q' hm hwin
    exact scanHex_has r buf fl fuel cands _ hc _ k
  · rcases h4 with h4 | h4
    · exact absurd h4 h0
    · obtain ⟨_, c, y, hc', hy, hfill, hbef, e, hmy, haf⟩ := trace_through hT (HexAst.flat hg.hexAst) h4
      simp only [Nat.sub_zero] at hc'
      have hs : s ≤ buf.size := by omega
      have hc := (hcands x hx s hs h3).2 h0 c y hc' hy
      obtain ⟨⟨m1, c1, hfw⟩, hbw⟩ := hrun _ hc
      obtain ⟨m2, c2, hbw⟩ := hbw _ rfl
      subst hfill
      have b1 := before_le hbef
      have b2 := Matches.bounds hmy
      have b3 := after_le haf
      obtain ⟨_, k⟩ := verifyOne_complete c y hy hg hgr hszf hidf hszb hidb buf fl hw fuel s hs m1 c1 hfw m2 c2 hbw p e q' hbef hmy haf
        (by omega) (by omega)
      exact scanHex_has (c.fill y) buf fl fuel cands _ hc _ k

end YaraModel.HexE2E
