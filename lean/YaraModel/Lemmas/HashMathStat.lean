/- C14 helper lemmas: histogram based statistics equal their definitions over the byte list. -/
import YaraModel.Model.HashMath
import YaraModel.Spec.HashMath
namespace YaraModel.HM
open Spec

/-! ### histogram -/

theorem count_cons (b : UInt8) (bs : Bytes) (i : Nat) :
    count (b :: bs) i = count bs i + (if b.toNat = i then 1 else 0) := by
  unfold count
  rw [List.countP_cons]
  simp

theorem foldl_histStep (bs : Bytes) (h : Nat → Nat) (i : Nat) :
    (bs.foldl histStep h) i = h i + count bs i := by
  induction bs generalizing h with
  | nil => simp [count]
  | cons b bs ih =>
    rw [List.foldl_cons, ih, count_cons]
    unfold histStep
    by_cases hb : i = b.toNat
    · simp [hb]; omega
    · have : ¬ b.toNat = i := fun e => hb e.symm
      simp [hb, this]

theorem histOf_eq (bs : Bytes) : histOf bs = count bs := by
  funext i; simp [histOf, foldl_histStep, histZero]

theorem foldl_chunks' {α : Type} (f : α → UInt8 → α) (chunks : List Bytes) (a : α) :
    chunks.foldl (fun c ch => ch.foldl f c) a = chunks.flatten.foldl f a := by
  induction chunks generalizing a with
  | nil => rfl
  | cons ch chunks ih => simp only [List.foldl_cons, List.flatten_cons, List.foldl_append, ih]

theorem histChunks_eq (chunks : List Bytes) : histChunks chunks = count chunks.flatten := by
  unfold histChunks
  rw [foldl_chunks']
  exact histOf_eq _

/-! ### sums over the 256 counters -/

def sumR (n : Nat) (g : Nat → Rat) : Rat := (List.range n).foldl (fun s i => s + g i) 0
def sumN (n : Nat) (g : Nat → Nat) : Nat := (List.range n).foldl (fun s i => s + g i) 0

theorem sumR_succ (n : Nat) (g : Nat → Rat) : sumR (n + 1) g = sumR n g + g n := by
  simp [sumR, List.range_succ, List.foldl_append]

theorem sumN_succ (n : Nat) (g : Nat → Nat) : sumN (n + 1) g = sumN n g + g n := by
  simp [sumN, List.range_succ, List.foldl_append]

theorem sumR_congr (n : Nat) (g g' : Nat → Rat) (h : ∀ i, i < n → g' i = g i) : sumR n g' = sumR n g := by
  induction n with
  | zero => rfl
  | succ n ih => rw [sumR_succ, sumR_succ, ih (fun i hi => h i (by omega)), h n (by omega)]

theorem sumN_congr (n : Nat) (g g' : Nat → Nat) (h : ∀ i, i < n → g' i = g i) : sumN n g' = sumN n g := by
  induction n with
  | zero => rfl
  | succ n ih => rw [sumN_succ, sumN_succ, ih (fun i hi => h i (by omega)), h n (by omega)]

/-- changing one summand -/
theorem sumR_update (n k : Nat) (g g' : Nat → Rat) (d : Rat) (hk : k < n)
    (hne : ∀ i, i ≠ k → g' i = g i) (hk' : g' k = g k + d) : sumR n g' = sumR n g + d := by
  induction n with
  | zero => omega
  | succ n ih =>
    rw [sumR_succ, sumR_succ]
    by_cases h : k = n
    · subst h
      rw [sumR_congr k g g' (fun i hi => hne i (by omega)), hk']
      grind
    · rw [ih (by omega), hne n (fun e => h e.symm)]
      grind

theorem sumN_update (n k : Nat) (g g' : Nat → Nat) (d : Nat) (hk : k < n)
    (hne : ∀ i, i ≠ k → g' i = g i) (hk' : g' k = g k + d) : sumN n g' = sumN n g + d := by
  induction n with
  | zero => omega
  | succ n ih =>
    rw [sumN_succ, sumN_succ]
    by_cases h : k = n
    · subst h
      rw [sumN_congr k g g' (fun i hi => hne i (by omega)), hk']
      omega
    · rw [ih (by omega), hne n (fun e => h e.symm)]
      omega

theorem sumN_zero (n : Nat) : sumN n (fun _ => 0) = 0 := by
  induction n with
  | zero => rfl
  | succ n ih => rw [sumN_succ, ih]

theorem sumR_zero (n : Nat) (g : Nat → Rat) (h : ∀ i, g i = 0) : sumR n g = 0 := by
  induction n with
  | zero => rfl
  | succ n ih => rw [sumR_succ, ih, h]; grind

/-- Σ_{i<256} count bs i = |bs| -/
theorem total_count (bs : Bytes) : sumN 256 (count bs) = bs.length := by
  induction bs with
  | nil => exact sumN_zero 256
  | cons b bs ih =>
    rw [sumN_update 256 b.toNat (count bs) (count (b :: bs)) 1 b.toNat_lt
      (fun i hi => by
        have hn : ¬ b.toNat = i := fun e => hi e.symm
        rw [count_cons, if_neg hn]; rfl)
      (by rw [count_cons]; simp), ih]
    simp

/-- Σ_{i<256} w i · count bs i = Σ_{b ∈ bs} w b -/
theorem weighted_count (w : Nat → Rat) (bs : Bytes) :
    sumR 256 (fun i => w i * (count bs i : Rat)) = sumRat (bs.map fun b => w b.toNat) := by
  induction bs with
  | nil => simp [count, sumRat]; exact sumR_zero 256 _ (by intro i; grind)
  | cons b bs ih =>
    rw [sumR_update 256 b.toNat (fun i => w i * (count bs i : Rat)) (fun i => w i * (count (b :: bs) i : Rat))
      (w b.toNat) b.toNat_lt
      (fun i hi => by
        have hn : ¬ b.toNat = i := fun e => hi e.symm
        simp only [count_cons, if_neg hn]; rfl)
      (by simp only [count_cons]; simp; grind), ih]
    simp only [List.map_cons, sumRat, List.foldr_cons]
    grind

theorem total256_eq (h : Nat → Nat) : total256 h = sumN 256 h := rfl
theorem sum256_eq (g : Nat → Rat) : sum256 g = sumR 256 g := rfl

theorem absRat_eq (q : Rat) : HM.absRat q = Spec.absRat q := rfl

/-! ### mean, deviation, count, percentage -/

theorem meanHist_count (bs : Bytes) : meanHist (count bs) = Spec.mean bs := by
  unfold meanHist Spec.mean divOrUndef
  rw [total256_eq, total_count, sum256_eq, weighted_count (fun i => (i : Rat)) bs]

theorem deviationHist_count (bs : Bytes) (m : Rat) : deviationHist (count bs) m = Spec.deviation bs m := by
  unfold deviationHist Spec.deviation divOrUndef
  rw [total256_eq, total_count, sum256_eq, weighted_count (fun i => HM.absRat ((i : Rat) - m)) bs]
  rfl

theorem percentageHist_count (bs : Bytes) (v : Nat) (hv : v < 256) :
    percentageHist (count bs) (v : Int) = Spec.percentage bs v := by
  unfold percentageHist Spec.percentage divOrUndef
  rw [total256_eq, total_count]
  have h1 : ¬ ((v : Int) < 0 ∨ (v : Int) > 255) := by omega
  simp [h1]

theorem countHist_count (bs : Bytes) (v : Nat) (hv : v < 256) :
    countHist (count bs) (v : Int) = some (count bs v : Int) := by
  unfold countHist
  have h1 : ¬ ((v : Int) < 0 ∨ (v : Int) > 255) := by omega
  simp [h1]

theorem countHist_out (h : Nat → Nat) (v : Int) (hv : v < 0 ∨ v > 255) : countHist h v = none := by
  simp [countHist, hv]

/-! ### mode -/

def modeUpTo (n : Nat) (h : Nat → Nat) : Nat :=
  (List.range n).foldl (fun best i => if h i > h best then i else best) 0

theorem modeUpTo_succ (n : Nat) (h : Nat → Nat) :
    modeUpTo (n + 1) h = if h n > h (modeUpTo n h) then n else modeUpTo n h := by
  simp [modeUpTo, List.range_succ, List.foldl_append]

theorem modeUpTo_spec (n : Nat) (h : Nat → Nat) :
    (modeUpTo n h < n ∨ (n = 0 ∧ modeUpTo n h = 0)) ∧ (∀ v, v < n → h v ≤ h (modeUpTo n h)) ∧
    (∀ v, v < modeUpTo n h → h v < h (modeUpTo n h)) := by
  induction n with
  | zero => simp [modeUpTo]
  | succ n ih =>
    obtain ⟨h1, h2, h3⟩ := ih
    rw [modeUpTo_succ]
    by_cases hg : h n > h (modeUpTo n h)
    · rw [if_pos hg]
      refine ⟨Or.inl (by omega), ?_, ?_⟩
      · intro v hv
        by_cases e : v = n
        · subst e; omega
        · have := h2 v (by omega); omega
      · intro v hv
        have := h2 v hv; omega
    · rw [if_neg hg]
      refine ⟨Or.inl (by omega), ?_, h3⟩
      intro v hv
      by_cases e : v = n
      · subst e; omega
      · exact h2 v (by omega)

theorem modeHist_isMode (bs : Bytes) : IsMode bs (modeHist (count bs)) := by
  have h := modeUpTo_spec 256 (count bs)
  have e : modeHist (count bs) = modeUpTo 256 (count bs) := rfl
  rw [e]
  refine ⟨?_, h.2.1, h.2.2⟩
  rcases h.1 with h1 | h1
  · exact h1
  · omega

end YaraModel.HM
