/- Aho-Corasick construction, helper lemmas 13: the packed tables of the built automaton satisfy the certificate facts `Cert` -/
import YaraModel.Lemmas.AcBuildTable
import YaraModel.Lemmas.AcCertLemmas
namespace YaraModel.AC.Build
open YaraModel.Text YaraModel.AC

/-- everything known about the result of `compile (addAtoms atoms)` -/
structure Built (atoms : List (Nat × Atom)) (A : Auto) (P : Pack) (ord : List Nat) : Prop where
  trie : Trie A
  i3 : I3 A atoms
  order : OrderOK A ord
  i4 : I4 A P ord

theorem compile_built {atoms : List (Nat × Atom)} (hbt : ∀ a ∈ atoms, a.2.bytes = [] → a.2.backtrack = 0) :
    ∃ A ord, Built atoms A (compile (addAtoms atoms)) ord := by
  have h1 := addAtoms_P1 atoms
  obtain ⟨s2, h2⟩ := createFailureLinks_I2 h1 hbt
  have h2' : I2 (createFailureLinks (addAtoms atoms)) atoms (allLk (createFailureLinks (addAtoms atoms)))
      (allLk (createFailureLinks (addAtoms atoms))) := by
    apply h2.congr_lk
    · intro x; unfold allLk; rw [s2.1]
    · intro x; unfold allLk; rw [s2.1]
  obtain ⟨s3, h3⟩ := optimizeFailureLinks_I3 (I3_of_I2 h2')
  have hz : ((optimizeFailureLinks (createFailureLinks (addAtoms atoms))).st 0).slot = 0 := by
    rw [optimizeFailureLinks_slots _ 0, createFailureLinks_slots _ 0]; exact h1.root_slot
  obtain ⟨ord, ho, h4⟩ := buildTransitionTable_I4 h3.mf.trie h3 hz
  exact ⟨_, ord, ⟨h3.mf.trie, h3, ho, h4⟩⟩

variable {atoms : List (Nat × Atom)} {A : Auto} {P : Pack} {ord : List Nat}

def tablesOf (P : Pack) : Tables := { t := P.t, m := P.m, pool := P.A.pool }

/-- the slot ↦ path map of the built automaton -/
def slotPaths (A : Auto) (P : Pack) : List (Nat × Bytes) :=
  (List.range A.states.size).map fun x => ((P.A.st x).slot, (A.st x).path)

theorem mem_slotPaths {sp : Nat × Bytes} : sp ∈ slotPaths A P ↔ ∃ x, x < A.states.size ∧ sp = ((P.A.st x).slot, (A.st x).path) := by
  simp [slotPaths, eq_comm]

theorem slotPaths_snd : (slotPaths A P).map (·.2) = pathsOf A := by
  simp [slotPaths, pathsOf, List.map_map, Function.comp_def]

theorem Built.hdr_all (h : Built atoms A P ord) (x : Nat) (hx : x < A.states.size) : x = 0 ∨ x ∈ ord := by
  rcases Nat.eq_zero_or_pos x with e | e
  · exact Or.inl e
  · exact Or.inr (h.order.complete x e hx)

/-- the tables are at least as long as the traversal -/
theorem Built.ord_le (h : Built atoms A P ord) : ord.length ≤ P.t.size := by
  have h1 : (ord.map fun x => (P.A.st x).slot).Nodup := by
    unfold List.Nodup
    rw [List.pairwise_map]
    refine List.Pairwise.imp_of_mem ?_ h.order.nodup
    intro a b ha hb hab e
    exact hab (h.i4.inj a b (Or.inr ha) (Or.inr hb) (h.order.range a ha).2 (h.order.range b hb).2 e)
  have h2 := nodup_length_le P.t.size _ h1 (by
    intro v hv
    obtain ⟨x, hx, rfl⟩ := List.mem_map.mp hv
    have := (h.i4.hdr x (Or.inr hx) (h.order.range x hx).2).1
    omega)
  simpa using h2

theorem Built.fuel (h : Built atoms A P ord) (x : Nat) (hx : x < A.states.size) : (A.st x).depth < fuelOf (tablesOf P) := by
  have := h.order.long x hx
  have := h.ord_le
  unfold fuelOf tablesOf
  simp only
  omega

theorem delta_succ (T : Tables) (fuel state index : Nat) :
    delta T (fuel + 1) state index =
      if invalid (tAt T (state + index)) index = false then nextOf (tAt T (state + index))
      else if state = 0 then 0 else delta T fuel (nextOf (tAt T state)) index := by
  simp only [delta]
  cases invalid (tAt T (state + index)) index with
  | false => simp
  | true =>
    by_cases h : state = 0
    · simp [h]
    · simp [h]

/-- **the packed lookup loop computes the longest path-suffix**: from the slot of `x`, byte `c` leads to the slot of the
    state whose path is the longest suffix of `path x ++ [c]` that is a path -/
theorem Built.delta_spec (h : Built atoms A P ord) (hok : P.ok = true) (c : UInt8) : ∀ (fuel x : Nat), x < A.states.size →
    (A.st x).depth < fuel →
    ∃ y, y < A.states.size ∧ delta (tablesOf P) fuel (P.A.st x).slot (c.toNat + 1) = (P.A.st y).slot ∧
      (A.st y).path = lsuf (pathsOf A) ((A.st x).path ++ [c]) := by
  have hT := h.trie
  have htAt : ∀ i, tAt (tablesOf P) i = P.t.getD i 0 := fun _ => rfl
  intro fuel
  induction fuel with
  | zero => intro x _ hd; omega
  | succ fuel ih =>
    intro x hx hd
    have hhx := h.hdr_all x hx
    rw [delta_succ]
    have hpos : (P.A.st x).slot + (c.toNat + 1) = (P.A.st x).slot + c.toNat + 1 := by omega
    rw [hpos, htAt, htAt]
    cases hn : nextState A x c with
    | some y =>
      obtain ⟨hy, hi⟩ := nextState_some hn
      have hylt := hT.child_lt x hx y hy
      obtain ⟨e1, e2, e3⟩ := h.i4.entry x hhx hx y hy
      rw [hi] at e2
      have hyo : y ∈ ord := h.order.complete y (by omega) hylt.2
      rw [if_pos hyo] at e2
      have hsl := (h.i4.hdr y (Or.inr hyo) hylt.2).2.2.2.2.2.1 hok
      have hlt : c.toNat + 1 < 512 := by have := u8_lt c; omega
      have hv : invalid (mkTransition (P.A.st y).slot (c.toNat + 1)) (c.toNat + 1) = false := by
        rw [invalid_false_iff]; exact low9_mkT _ _ hlt
      rw [e2, if_pos hv]
      refine ⟨y, hylt.2, nextOf_mk _ _ hsl hlt, ?_⟩
      have hp := hT.child_path x hx y hy
      rw [hi] at hp
      rw [← hp]
      exact (lsuf_of_mem _ _ (mem_pathsOf.mpr ⟨y, hylt.2, rfl⟩)).symm
    | none =>
      have hno := nextState_none hn
      have hinv := h.i4.noentry x hhx hx c hno
      have hv : ¬ invalid (P.t.getD ((P.A.st x).slot + c.toNat + 1) 0) (c.toNat + 1) = false := by
        rw [invalid_false_iff]; exact hinv
      rw [if_neg hv]
      by_cases hx0 : x = 0
      · subst hx0
        rw [h.i4.root_slot, if_pos rfl]
        refine ⟨0, hx, h.i4.root_slot.symm, ?_⟩
        have hnp := hT.not_path_of_no_child hx hno
        rw [hT.root_path] at hnp ⊢
        rw [List.nil_append] at hnp ⊢
        rw [lsuf_of_not_mem _ _ _ hnp]; rfl
      · obtain ⟨g1, g2, g3, g4, g5, g6, g7⟩ := h.i4.hdr x hhx hx
        rw [if_neg (g5 hx0)]
        obtain ⟨f1, f2, f3⟩ := h.i3.fail x (by omega) hx
        have hfs := (h.i4.hdr _ (h.hdr_all _ f1) f1).2.2.2.2.2.1 hok
        rw [g3, nextOf_mk _ _ hfs (by omega)]
        obtain ⟨y, hy1, hy2, hy3⟩ := ih (A.st x).failure f1 (by omega)
        refine ⟨y, hy1, hy2, ?_⟩
        rw [hy3]
        exact f3 c hno

theorem entries_spec (T : Tables) : ∀ (l : List Nat) (r fuel : Nat), ChainSeg T.pool r l 0 → l.length < fuel →
    entries T fuel r = l.map fun e => ((T.pool.getD e (0, 0, 0)).1, (T.pool.getD e (0, 0, 0)).2.1) := by
  intro l
  induction l with
  | nil =>
    intro r fuel hc hl
    simp only [ChainSeg] at hc
    subst hc
    cases fuel with
    | zero => simp at hl
    | succ f => simp [entries]
  | cons e l ih =>
    intro r fuel hc hl
    simp only [ChainSeg] at hc
    obtain ⟨hr, he, hc'⟩ := hc
    cases fuel with
    | zero => simp at hl
    | succ f =>
      simp only [entries]
      rw [hr]
      simp only [Nat.add_one_ne_zero, if_false, Nat.add_sub_cancel]
      have hget : T.pool[e]? = some (T.pool.getD e (0, 0, 0)) := by
        simp [Array.getD_eq_getD_getElem?, Array.getElem?_eq_getElem he]
      rw [hget]
      simp only [List.map_cons]
      congr 1
      exact ih _ f hc' (by simpa using hl)

theorem Built.ref_le (h : Built atoms A P ord) (x : Nat) (hx : x < A.states.size) : (A.st x).matchesRef ≤ atoms.length := by
  have hc := h.i3.mf.chain x hx
  cases hl : specList atoms (A.st x).path with
  | nil => rw [hl] at hc; simp only [ChainSeg] at hc; omega
  | cons e l => rw [hl] at hc; simp only [ChainSeg] at hc; have := h.i3.mf.pool_size; omega

/-- the match list of a state, as the scanner walks it -/
theorem Built.entries_eq (h : Built atoms A P ord) (hlen : atoms.length < 2 ^ 32) (x : Nat) (hx : x < A.states.size) :
    entries (tablesOf P) (fuelOf (tablesOf P)) ((tablesOf P).m.getD (P.A.st x).slot 0).toNat =
      (specList atoms (A.st x).path).map fun e => ((A.pool.getD e (0, 0, 0)).1, (A.pool.getD e (0, 0, 0)).2.1) := by
  have hm : ((tablesOf P).m.getD (P.A.st x).slot 0).toNat = (A.st x).matchesRef := by
    show (P.m.getD (P.A.st x).slot 0).toNat = _
    rw [(h.i4.hdr x (h.hdr_all x hx) hx).2.2.2.1, UInt32.toNat_ofNat']
    have := h.ref_le x hx
    exact Nat.mod_eq_of_lt (by omega)
  have hpool : (tablesOf P).pool = A.pool := h.i4.pool_eq
  rw [hm, entries_spec (tablesOf P) _ _ _ (by rw [hpool]; exact h.i3.mf.chain x hx) (by
    have := specList_length_le atoms (A.st x).path
    unfold fuelOf; rw [hpool, h.i3.mf.pool_size]; omega), hpool]

/-- the certificate facts for the built tables -/
theorem Built.cert (h : Built atoms A P ord) (hok : P.ok = true) (hlen : atoms.length < 2 ^ 32) :
    Cert (tablesOf P) atoms (slotPaths A P) := by
  have hT := h.trie
  have hms := h.i3.mf
  constructor
  · exact mem_slotPaths.mpr ⟨0, hT.size_pos, by rw [h.i4.root_slot, hT.root_path]⟩
  · intro sp hsp
    obtain ⟨x, hx, rfl⟩ := mem_slotPaths.mp hsp
    simp only
    rw [slotPaths_snd]
    rcases Nat.eq_zero_or_pos x with e | e
    · subst e; exact Or.inl hT.root_path
    · right
      obtain ⟨p, hp1, hp2⟩ := hT.has_parent x e hx
      rw [hT.child_path p hp1 x hp2, List.dropLast_concat]
      exact mem_pathsOf.mpr ⟨p, hp1, rfl⟩
  · intro sp hsp c hc
    obtain ⟨x, hx, rfl⟩ := mem_slotPaths.mp hsp
    simp only
    rw [slotPaths_snd]
    have hcn : (UInt8.ofNat c).toNat = c := by
      rw [UInt8.toNat_ofNat']; omega
    obtain ⟨y, hy1, hy2, hy3⟩ := h.delta_spec hok (UInt8.ofNat c) (fuelOf (tablesOf P)) x hx (h.fuel x hx)
    rw [hcn] at hy2
    exact mem_slotPaths.mpr ⟨y, hy1, by rw [hy2, hy3]⟩
  · intro sp hsp e
    obtain ⟨x, hx, rfl⟩ := mem_slotPaths.mp hsp
    simp only
    rw [h.entries_eq hlen x hx]
    simp only [List.mem_map, List.mem_filter, List.isSuffixOf_iff_suffix]
    constructor
    · rintro ⟨i, hi, rfl⟩
      obtain ⟨a, ha, hs⟩ := (mem_specList _).mp hi
      obtain ⟨nx, hnx⟩ := hms.pool_info i a ha
      refine ⟨a, ⟨List.mem_of_getElem? ha, hs⟩, ?_⟩
      simp [Array.getD_eq_getD_getElem?, hnx]
    · rintro ⟨a, ⟨ha, hs⟩, rfl⟩
      obtain ⟨i, hi⟩ := List.getElem?_of_mem ha
      obtain ⟨nx, hnx⟩ := hms.pool_info i a hi
      refine ⟨i, (mem_specList _).mpr ⟨a, hi, hs⟩, ?_⟩
      simp [Array.getD_eq_getD_getElem?, hnx]
  · intro sa hsa
    rw [slotPaths_snd]
    obtain ⟨s, hs, hp⟩ := hms.atoms_in sa hsa
    exact mem_pathsOf.mpr ⟨s, hs, hp⟩

theorem filterMap_congr_mem {α β : Type} (l : List α) (f g : α → Option β) (h : ∀ x ∈ l, f x = g x) :
    l.filterMap f = l.filterMap g := by
  induction l with
  | nil => rfl
  | cons a l ih =>
    simp only [List.filterMap_cons, h a List.mem_cons_self, ih (fun x hx => h x (List.mem_cons_of_mem _ hx))]

/-- what the scanner reports in the state of `x` at position `i`: the specification list, filtered by the backtrack guard -/
theorem Built.report_eq (h : Built atoms A P ord) (hlen : atoms.length < 2 ^ 32) (x : Nat) (hx : x < A.states.size) (i : Nat) :
    report (tablesOf P) (P.A.st x).slot i = (specList atoms (A.st x).path).filterMap (candOf atoms i) := by
  unfold report
  rw [h.entries_eq hlen x hx, List.filterMap_map]
  apply filterMap_congr_mem
  intro e he
  obtain ⟨a, ha, _⟩ := (mem_specList _).mp he
  obtain ⟨nx, hnx⟩ := h.i3.mf.pool_info e a ha
  simp only [Function.comp, candOf, ha, Array.getD_eq_getD_getElem?, hnx, Option.getD_some]

/-- **the scan of the built tables, as a SEQUENCE**: from the state of the longest path-suffix of what has been read -/
theorem Built.scanFrom_eq (h : Built atoms A P ord) (hok : P.ok = true) (hlen : atoms.length < 2 ^ 32) :
    ∀ (rest pre : Bytes) (x : Nat), x < A.states.size → (A.st x).path = lsuf (pathsOf A) pre →
    scanFrom (tablesOf P) rest pre.length (P.A.st x).slot =
      (List.range (rest.length + 1)).flatMap fun k => expectedSeq atoms (pre ++ rest.take k) := by
  have hT := h.trie
  have hin := atoms_in_paths h.i3.mf.atoms_in
  have hrep : ∀ (pre : Bytes) (x : Nat), x < A.states.size → (A.st x).path = lsuf (pathsOf A) pre →
      report (tablesOf P) (P.A.st x).slot pre.length = expectedSeq atoms pre := by
    intro pre x hx hp
    rw [h.report_eq hlen x hx, hp, ← specList_lsuf hin]; rfl
  intro rest
  induction rest with
  | nil =>
    intro pre x hx hp
    simp [scanFrom, hrep pre x hx hp]
  | cons c t ih =>
    intro pre x hx hp
    simp only [scanFrom]
    obtain ⟨y, hy1, hy2, hy3⟩ := h.delta_spec hok c (fuelOf (tablesOf P)) x hx (h.fuel x hx)
    rw [hy2, hrep pre x hx hp]
    have hyp : (A.st y).path = lsuf (pathsOf A) (pre ++ [c]) := by
      rw [hy3, hp]; exact (lsuf_step _ hT.nil_mem hT.prefixClosed pre c).symm
    have := ih (pre ++ [c]) y hy1 hyp
    simp only [List.length_append, List.length_singleton] at this
    rw [this, List.length_cons, List.range_succ_eq_map (n := t.length + 1), List.flatMap_cons, List.flatMap_map]
    simp [List.append_assoc]

end YaraModel.AC.Build
