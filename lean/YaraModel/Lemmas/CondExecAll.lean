/- compile_correct for ALL constructs (loops included): the general execution theorem `exec_all` -/
import YaraModel.Lemmas.CondLoopExec
namespace YaraModel.CondCompile
open YaraModel YaraModel.C YaraModel.Cond YaraModel.CondVm YaraModel.Gen.VmOps

/-- well-formed expressions whose static type is not boolean contain no loop (loops are boolean) -/
theorem nonbool_loopFree (env : Env) : ∀ (e : Expr) (c : Ctx) (l : LEnv), WF env c l e → tyOf c e ≠ .bool → loopFree e = true
  | .countIn s lo hi, c, l, hw, _ => by
    simp only [WF] at hw
    simp only [loopFree, Bool.and_eq_true]
    exact ⟨nonbool_loopFree env lo c l hw.2.1 (by rw [hw.2.2.2.1]; decide),
           nonbool_loopFree env hi c l hw.2.2.1 (by rw [hw.2.2.2.2]; decide)⟩
  | .offset s i, c, l, hw, _ => by
    simp only [WF] at hw
    simp only [loopFree]
    exact nonbool_loopFree env i c l hw.2.1 (by rw [hw.2.2.1]; decide)
  | .length s i, c, l, hw, _ => by
    simp only [WF] at hw
    simp only [loopFree]
    exact nonbool_loopFree env i c l hw.2.1 (by rw [hw.2.2.1]; decide)
  | .read k off, c, l, hw, _ => by
    simp only [WF] at hw
    simp only [loopFree]
    exact nonbool_loopFree env off c l hw.1 (by rw [hw.2.1]; decide)
  | .neg e, c, l, hw, _ => by
    simp only [WF] at hw
    simp only [loopFree]
    exact nonbool_loopFree env e c l hw.1 (by rcases hw.2.1 with h | h <;> rw [h] <;> decide)
  | .bnot e, c, l, hw, _ => by
    simp only [WF] at hw
    simp only [loopFree]
    exact nonbool_loopFree env e c l hw.1 (by rw [hw.2.1]; decide)
  | .arith op a b, c, l, hw, _ => by
    simp only [WF] at hw
    simp only [loopFree, Bool.and_eq_true]
    exact ⟨nonbool_loopFree env a c l hw.1 (by rcases hw.2.2.1 with h | ⟨_, h⟩ <;> rw [h] <;> decide),
           nonbool_loopFree env b c l hw.2.1 (by rcases hw.2.2.2.1 with h | ⟨_, h⟩ <;> rw [h] <;> decide)⟩
  | .int _, _, _, _, _ | .flt _, _, _, _, _ | .str _, _, _, _, _ | .filesize, _, _, _, _ | .ext _, _, _, _, _
  | .var _, _, _, _, _ | .undefOf _, _, _, _, _ | .count _, _, _, _, _ => rfl
  | .tt, c, _, _, h | .ff, c, _, _, h | .found _, c, _, _, h | .foundAt .., c, _, _, h | .foundIn .., c, _, _, h
  | .cmp .., c, _, _, h | .strop .., c, _, _, h | .matches .., c, _, _, h | .not _, c, _, _, h | .defined _, c, _, _, h
  | .and .., c, _, _, h | .or .., c, _, _, h | .ruleRef _, c, _, _, h | .ofStr .., c, _, _, h | .ofStrIn .., c, _, _, h
  | .ofStrAt .., c, _, _, h | .pctStr .., c, _, _, h | .ofRules .., c, _, _, h | .pctRules .., c, _, _, h
  | .forRange .., c, _, _, h | .forEnum .., c, _, _, h | .forOf .., c, _, _, h => absurd rfl h

/-! ### the loop variable's memory slot -/

theorem meminv_var {c : Ctx} {l : LEnv} {mem : List Int} (hP : MemInv c l mem) (ty : Ty) (v : Val)
    (hg : getM mem (4 * c.vars.length + 3) = toVm v) :
    MemInv { c with vars := c.vars ++ [ty] } { l with vars := l.vars ++ [v] } mem := by
  obtain ⟨h1, h2, h3⟩ := hP
  refine ⟨by simp [h1], ?_, ?_⟩
  · intro k hk
    simp only [List.getD_eq_getElem?_getD] at hk ⊢
    by_cases hlt : k < c.vars.length
    · rw [List.getElem?_append_left hlt] at hk
      rw [List.getElem?_append_left (by omega)]
      simpa [List.getD_eq_getElem?_getD] using h2 k (by simpa [List.getD_eq_getElem?_getD] using hk)
    · by_cases heq : k = c.vars.length
      · subst heq
        rw [hg, h1]
        simp
      · rw [List.getElem?_eq_none (by simp; omega)] at hk
        exact absurd rfl hk
  · intro n hn
    obtain ⟨slot, hs, hlt, hgm⟩ := h3 n hn
    exact ⟨slot, hs, by simp; omega, hgm⟩

theorem meminv_of {c : Ctx} {l : LEnv} {mem : List Int} (hP : MemInv c l mem) (n : Nat)
    (hg : getM mem (4 * c.vars.length + 3) = encStr n) :
    MemInv { c with vars := c.vars ++ [.bool], ofSlot := some (4 * c.vars.length + 3) }
      { vars := l.vars ++ [.undef], cur := some n } mem := by
  obtain ⟨h1, h2, _⟩ := hP
  refine ⟨by simp [h1], ?_, ?_⟩
  · intro k hk
    simp only [List.getD_eq_getElem?_getD] at hk ⊢
    by_cases hlt : k < c.vars.length
    · rw [List.getElem?_append_left hlt] at hk
      rw [List.getElem?_append_left (by omega)]
      simpa [List.getD_eq_getElem?_getD] using h2 k (by simpa [List.getD_eq_getElem?_getD] using hk)
    · by_cases heq : k = c.vars.length
      · subst heq
        simp at hk
      · rw [List.getElem?_eq_none (by simp; omega)] at hk
        exact absurd rfl hk
  · intro m hm
    simp only [Option.some.injEq] at hm
    subst hm
    exact ⟨4 * c.vars.length + 3, rfl, by simp; omega, hg⟩

/-! ### body words -/

theorem ones_map {α : Type} (xs : List α) (w : α → Int) (b : α → Val)
    (h : ∀ x ∈ xs, (w x == 1) = asBool (b x)) : ones (xs.map w) = countTrue (xs.map b) := by
  unfold ones countTrue
  rw [List.countP_map, List.countP_map]
  apply List.countP_congr
  intro x hx
  simp only [Function.comp]
  rw [h x hx]

/-! ### iterator set-up code -/

theorem init_range {env : Env} {code : List Instr} {c : Ctx} {l : LEnv} (flo fhi : List Instr) (wlo whi : Int)
    (hlo : Runs env code flo c l true [wlo]) (hhi : Runs env code fhi c l true [whi]) :
    ∀ pc st mem its, CodeAt code pc (flo ++ fhi ++ [Instr.iterStartRange]) → MemInv c l mem → mem.length = 20 →
      Steps env code ⟨pc, st, mem, its⟩
        ⟨pc + (flo ++ fhi ++ [Instr.iterStartRange]).length, encIt its.length :: st, mem, its ++ [.range wlo whi]⟩ := by
  intro pc st mem its hc hP hlen
  obtain ⟨m1, e1, s1, _, p1⟩ := (Runs.seq hlo hhi) pc st mem its hc.left hP hlen
  obtain ⟨rfl, rfl⟩ := p1 rfl
  simp only [List.append_nil] at s1
  have s2 : Steps env code ⟨pc + (flo ++ fhi).length, [whi] ++ [wlo] ++ st, m1, its⟩
      ⟨pc + (flo ++ fhi).length + 1, encIt its.length :: st, m1, its ++ [.range wlo whi]⟩ := Steps.one hc.right.head rfl
  have := Steps.trans s1 s2
  simpa [Nat.add_assoc] using this

/-- code that pushes the words `ws` in order (first word deepest), leaving everything else alone -/
theorem init_list {env : Env} {code : List Instr} {c : Ctx} {l : LEnv} (f : List Instr) (ws : List Int)
    (hf : Runs env code f c l true ws.reverse) (start : Instr)
    (hs : ∀ pc st mem its, step env start ⟨pc, (ws.length : Int) :: (ws.reverse ++ st), mem, its⟩ =
      some ⟨pc + 1, encIt its.length :: st, mem, its ++ [.list ws 0]⟩) :
    ∀ pc st mem its, CodeAt code pc (f ++ [Instr.push ws.length, start]) → MemInv c l mem → mem.length = 20 →
      Steps env code ⟨pc, st, mem, its⟩
        ⟨pc + (f ++ [Instr.push ws.length, start]).length, encIt its.length :: st, mem, its ++ [.list ws 0]⟩ := by
  intro pc st mem its hc hP hlen
  obtain ⟨m1, e1, s1, _, p1⟩ := hf pc st mem its hc.left hP hlen
  obtain ⟨rfl, rfl⟩ := p1 rfl
  simp only [List.append_nil] at s1
  have s2 : Steps env code ⟨pc + f.length, ws.reverse ++ st, m1, its⟩
      ⟨pc + f.length + 1, (ws.length : Int) :: (ws.reverse ++ st), m1, its⟩ := Steps.one hc.right.head rfl
  have s3 := Steps.one (s := ⟨pc + f.length + 1, (ws.length : Int) :: (ws.reverse ++ st), m1, its⟩) hc.right.tail.head (hs _ _ _ _)
  have := Steps.trans s1 (Steps.trans s2 s3)
  simpa [Nat.add_assoc] using this

theorem step_iterStartEnum (env : Env) (ws : List Int) (pc : Nat) (st mem : List Int) (its : List Iter) :
    step env .iterStartEnum ⟨pc, (ws.length : Int) :: (ws.reverse ++ st), mem, its⟩ =
      some ⟨pc + 1, encIt its.length :: st, mem, its ++ [.list ws 0]⟩ := by
  have h2 : (ws.reverse ++ st).drop ws.length = st := List.drop_left' (by simp)
  have h3 : (ws.reverse ++ st).take ws.length = ws.reverse := List.take_left' (by simp)
  have h1 : ¬ ((ws.length : Int) < 0 ∨ ws.length > (ws.reverse ++ st).length) := by simp
  simp only [step, Int.toNat_natCast, h1, if_false, h2, h3, List.reverse_reverse]

theorem step_iterStartTextSet (env : Env) (ws : List Int) (pc : Nat) (st mem : List Int) (its : List Iter) :
    step env .iterStartTextSet ⟨pc, (ws.length : Int) :: (ws.reverse ++ st), mem, its⟩ =
      some ⟨pc + 1, encIt its.length :: st, mem, its ++ [.list ws 0]⟩ := by
  have h2 : (ws.reverse ++ st).drop ws.length = st := List.drop_left' (by simp)
  have h3 : (ws.reverse ++ st).take ws.length = ws.reverse := List.take_left' (by simp)
  have h1 : ¬ ((ws.length : Int) < 0 ∨ ws.length > (ws.reverse ++ st).length) := by simp
  simp only [step, Int.toNat_natCast, h1, if_false, h2, h3, List.reverse_reverse]

/-- ITER_START_STRING_SET also pops the end-of-list marker below the strings -/
theorem step_iterStartStrSet (env : Env) (ws : List Int) (pc : Nat) (st mem : List Int) (its : List Iter) :
    step env .iterStartStrSet ⟨pc, (ws.length : Int) :: (ws.reverse ++ ([UNDEF] ++ st)), mem, its⟩ =
      some ⟨pc + 1, encIt its.length :: st, mem, its ++ [.list ws 0]⟩ := by
  have h2 : (ws.reverse ++ ([UNDEF] ++ st)).drop (ws.length + 1) = st := by
    have : ws.reverse ++ ([UNDEF] ++ st) = (ws.reverse ++ [UNDEF]) ++ st := by simp
    rw [this]; exact List.drop_left' (by simp)
  have h3 : (ws.reverse ++ ([UNDEF] ++ st)).take ws.length = ws.reverse := List.take_left' (by simp)
  have h1 : ¬ ((ws.length : Int) < 0 ∨ ws.length + 1 > (ws.reverse ++ ([UNDEF] ++ st)).length) := by simp
  simp only [step, Int.toNat_natCast, h1, if_false, h2, h3, List.reverse_reverse]

/-! ### a whole loop against the specification -/

theorem runs_loop_spec (env : Env) (code : List Instr) (c : Ctx) (l : LEnv) (q : QKind) (qe : Expr)
    (init body : List Instr) {α : Type} (vals : List α) (word : α → Int) (bv : α → Val)
    (hd : c.vars.length < 4)
    (hqok : q = .num → ValOk .int (eval env l qe) ∧ eval env l qe ≠ .undef)
    (hq : Runs env code (quantCode (compile c qe) q) c l true [quantWord q (toVm (eval env l qe))])
    (hinit : ∀ pc st mem its, CodeAt code pc init → MemInv c l mem → mem.length = 20 →
      ∃ it, Yields it (vals.map word) ∧
        Steps env code ⟨pc, st, mem, its⟩ ⟨pc + init.length, encIt its.length :: st, mem, its ++ [it]⟩)
    (hbody : ∀ x ∈ vals, ∀ pcb st mem its, CodeAt code pcb body → MemInv c l mem → mem.length = 20 →
      getM mem (4 * c.vars.length + 3) = word x →
      ∃ w mem' ext, Steps env code ⟨pcb, st, mem, its⟩ ⟨pcb + body.length, w :: st, mem', its ++ ext⟩ ∧
        Agree (4 * c.vars.length + 4) mem' mem ∧ TruthWord (bv x) w)
    (hlen : vals.length < 1152921504606846976) :
    Runs env code (loopCode (quantCode (compile c qe) q) init body (4 * c.vars.length)) c l false
      [toVm (loopHolds (quantOf q (eval env l qe)) (countTrue (vals.map bv)) vals.length)] := by
  let items : List (Int × Int) := vals.map fun x => (word x, nbWord (bv x))
  have hfst : items.map (·.1) = vals.map word := by simp [items, List.map_map, Function.comp_def]
  have hsnd : items.map (·.2) = vals.map fun x => nbWord (bv x) := by
    simp [items, List.map_map, Function.comp_def]
  have hrun := runs_loop env code c l (quantCode (compile c qe) q) init body (4 * c.vars.length) rfl (by omega)
    (quantWord q (toVm (eval env l qe))) hq items
    (fun pc st mem its hc hP hl => by rw [hfst]; exact hinit pc st mem its hc hP hl)
    (fun p hp pcb st mem its hc hP hl hg => by
      simp only [items, List.mem_map] at hp
      obtain ⟨x, hx, rfl⟩ := hp
      obtain ⟨w, m, e, hs, ha, htw⟩ := hbody x hx pcb st mem its hc hP hl hg
      exact ⟨w, m, e, hs, ha, tw_norm htw⟩)
  refine Runs.val1 ?_ hrun
  rw [hsnd]
  have hbw : BoolWords (vals.map fun x => nbWord (bv x)) := by
    intro r hr
    simp only [List.mem_map] at hr
    obtain ⟨x, _, rfl⟩ := hr
    exact (nbWord_cases (bv x)).1
  rw [loop_protocol q (eval env l qe) hqok _ hbw (by simpa using hlen)]
  rw [ones_map vals _ bv (fun x _ => (nbWord_cases (bv x)).2)]
  simp

theorem intRange_words (a b : Int) : (intRange (.int a) (.int b)).map toVm = rangeWords a b := by
  simp [intRange, rangeWords, List.map_map, Function.comp_def, toVm]

theorem runs_compileList (env : Env) (henv : EnvOk env) (code : List Instr) (c : Ctx) (l : LEnv) :
    ∀ items : List Expr, WFList env c l items →
      Runs env code (compileList c items) c l true ((evalList env l items).map toVm).reverse
  | [], _ => by simpa [compileList, evalList] using Runs.nil env code c l true
  | e :: es, hw => by
    simp only [WFList] at hw
    have h1 := (exec_loopfree env henv code e c l (nonbool_loopFree env e c l hw.1 hw.2.2.1) hw.1).exact hw.2.2.1
    have h2 := runs_compileList env henv code c l es hw.2.2.2
    have := Runs.seq h1 h2
    simpa [compileList, evalList] using this

theorem evalList_length (env : Env) (l : LEnv) : ∀ items : List Expr, (evalList env l items).length = items.length
  | [] => by simp [evalList]
  | e :: es => by simp [evalList, evalList_length env l es]

/-- the quantifier expression (when there is one) is an integer expression: pure code -/
theorem runs_quant_wf (env : Env) (henv : EnvOk env) (code : List Instr) (c : Ctx) (l : LEnv) (q : QKind) (qe : Expr)
    (hwq : q = .num → WF env c l qe ∧ tyOf c qe = .int ∧ eval env l qe ≠ .undef) :
    Runs env code (quantCode (compile c qe) q) c l true [quantWord q (toVm (eval env l qe))] ∧
    (q = .num → ValOk .int (eval env l qe) ∧ eval env l qe ≠ .undef) := by
  refine ⟨runs_quant q _ _ (fun h => (exec_loopfree env henv code qe c l
      (nonbool_loopFree env qe c l (hwq h).1 (by rw [(hwq h).2.1]; decide)) (hwq h).1).exact (by rw [(hwq h).2.1]; decide)),
    fun h => ⟨?_, (hwq h).2.2⟩⟩
  have := wf_typed env c l qe (hwq h).1
  rwa [(hwq h).2.1] at this

/-- the body of a loop, compiled in boolean position, as `runs_loop_spec` wants it -/
theorem body_runs {env : Env} {code : List Instr} {c c' : Ctx} {l' : LEnv} {body : Expr}
    (ih : RunsV env code (compile c' body) c' l' false (tyOf c' body) (eval env l' body))
    (hty : ValOk (tyOf c' body) (eval env l' body))
    (hlen : c'.vars.length = c.vars.length + 1)
    (pcb : Nat) (st mem : List Int) (its : List Iter)
    (hc : CodeAt code pcb (compile c' body ++ strToBool (tyOf c' body))) (hP' : MemInv c' l' mem) (hl : mem.length = 20) :
    ∃ w mem' ext, Steps env code ⟨pcb, st, mem, its⟩
        ⟨pcb + (compile c' body ++ strToBool (tyOf c' body)).length, w :: st, mem', its ++ ext⟩ ∧
      Agree (4 * c.vars.length + 4) mem' mem ∧ TruthWord (eval env l' body) w := by
  obtain ⟨w, hr, htw⟩ := ih.boolpos hty
  obtain ⟨m, e, s, a, _⟩ := hr pcb st mem its hc hP' hl
  refine ⟨w, m, e, by simpa using s, ?_, htw⟩
  have : 4 * c'.vars.length = 4 * c.vars.length + 4 := by omega
  rw [← this]; exact a

/-- **execution of every well-formed expression**: the code `compile` emits pushes the value `eval` assigns -/
theorem exec_all (env : Env) (henv : EnvOk env) (code : List Instr) :
    ∀ (e : Expr) (c : Ctx) (l : LEnv), WF env c l e → RunsV env code (compile c e) c l false (tyOf c e) (eval env l e)
  | .not e, c, l, hw => by
    simp only [WF] at hw
    obtain ⟨w, hr, htw⟩ := (exec_all env henv code e c l hw).boolpos (wf_typed env c l e hw)
    apply RunsV.ofExact
    have hcode : compile c (.not e) = (compile c e ++ strToBool (tyOf c e)) ++ [.un .OP_NOT] := by simp [compile]
    rw [hcode]
    simp only [eval]
    exact Runs.val1 (tw_not _ htw) (Runs.op (.un .OP_NOT) _ _ hr (fun _ _ _ _ => rfl))
  | .defined e, c, l, hw => by
    simp only [WF] at hw
    obtain ⟨w, hr, htw⟩ := (exec_all env henv code e c l hw).boolpos (wf_typed env c l e hw)
    apply RunsV.ofExact
    have hcode : compile c (.defined e) = (compile c e ++ strToBool (tyOf c e)) ++ [.un .OP_DEFINED] := by simp [compile]
    rw [hcode]
    simp only [eval]
    exact Runs.val1 (tw_defined _ htw) (Runs.op (.un .OP_DEFINED) _ _ hr (fun _ _ _ _ => rfl))
  | .and a b, c, l, hw => by
    simp only [WF] at hw
    obtain ⟨hwa, hwb⟩ := hw
    obtain ⟨wa, hra, htwa⟩ := (exec_all env henv code a c l hwa).boolpos (wf_typed env c l a hwa)
    obtain ⟨wb, hrb, htwb⟩ := (exec_all env henv code b c l hwb).boolpos (wf_typed env c l b hwb)
    apply RunsV.ofExact
    simp only [compile, eval, vAnd, toVm]
    rw [← tw_truth htwa, ← tw_truth htwb]
    exact runs_and hra hrb
  | .or a b, c, l, hw => by
    simp only [WF] at hw
    obtain ⟨hwa, hwb⟩ := hw
    obtain ⟨wa, hra, htwa⟩ := (exec_all env henv code a c l hwa).boolpos (wf_typed env c l a hwa)
    obtain ⟨wb, hrb, htwb⟩ := (exec_all env henv code b c l hwb).boolpos (wf_typed env c l b hwb)
    exact or_runsV hra hrb htwa htwb
  | .forRange q qe lo hi body, c, l, hw => by
    simp only [WF] at hw
    obtain ⟨hwq, hwlo, hwhi, htlo, hthi, hd, hrng, hitems⟩ := hw
    obtain ⟨hq, hqok⟩ := runs_quant_wf env henv code c l q qe hwq
    have hlo := (exec_loopfree env henv code lo c l (nonbool_loopFree env lo c l hwlo (by rw [htlo]; decide)) hwlo).exact (by rw [htlo]; decide)
    have hhi := (exec_loopfree env henv code hi c l (nonbool_loopFree env hi c l hwhi (by rw [hthi]; decide)) hwhi).exact (by rw [hthi]; decide)
    have tlo := wf_typed env c l lo hwlo
    have thi := wf_typed env c l hi hwhi
    rw [htlo] at tlo
    rw [hthi] at thi
    apply RunsV.ofExact
    simp only [compile, eval]
    apply runs_loop_spec env code c l q qe _ _
      (intRange (eval env l lo) (eval env l hi)) toVm
      (fun v => eval env { l with vars := l.vars ++ [v] } body) hd hqok hq
    · -- iterator set-up
      intro pc st mem its hc hP hl
      refine ⟨.range (toVm (eval env l lo)) (toVm (eval env l hi)), ?_, init_range _ _ _ _ hlo hhi pc st mem its hc hP hl⟩
      rcases tlo with h1 | ⟨a, h1, ha⟩
      · rw [h1]; simp only [intRange, List.map_nil]
        exact yields_range_undef _ _ (Or.inl (by simp [toVm, isU, isUndef_UNDEF]))
      · rcases thi with h2 | ⟨b, h2, hb⟩
        · rw [h1, h2]; simp only [intRange, List.map_nil]
          exact yields_range_undef _ _ (Or.inr (by simp [toVm, isU, isUndef_UNDEF]))
        · rw [h1, h2, intRange_words]
          obtain ⟨r1, r2, _⟩ := hrng a b h1 h2
          simp only [toVm]
          refine yields_range a b r2 r1 (fun i hi1 hi2 => ?_) hb
          have hmem : Val.int i ∈ intRange (eval env l lo) (eval env l hi) := by
            rw [h1, h2]; exact (mem_intRange a b _).mpr ⟨i, hi1, hi2, rfl⟩
          intro hi; subst hi
          exact (hitems _ hmem).2 rfl
    · -- the body
      intro v hv pcb st mem its hc hP hl hg
      have ih := exec_all env henv code body { c with vars := c.vars ++ [.int] } { l with vars := l.vars ++ [v] } (hitems v hv).1
      exact body_runs ih (wf_typed env _ _ body (hitems v hv).1) (by simp) pcb st mem its hc (meminv_var hP .int v hg) hl
    · rcases tlo with h1 | ⟨a, h1, _⟩
      · rw [h1]; simp [intRange]
      · rcases thi with h2 | ⟨b, h2, _⟩
        · rw [h1, h2]; simp [intRange]
        · rw [h1, h2, intRange_length]
          have := (hrng a b h1 h2).2.2
          omega
  | .forEnum q qe items body, c, l, hw => by
    simp only [WF] at hw
    obtain ⟨hwq, hwl, hd, hn, hitems⟩ := hw
    obtain ⟨hq, hqok⟩ := runs_quant_wf env henv code c l q qe hwq
    have hl0 := runs_compileList env henv code c l items hwl
    apply RunsV.ofExact
    simp only [compile, eval]
    have hlen : ((evalList env l items).map toVm).length = items.length := by simp [evalList_length]
    apply runs_loop_spec env code c l q qe _ _
      (evalList env l items) toVm (fun v => eval env { l with vars := l.vars ++ [v] } body) hd hqok hq
    · intro pc st mem its hc hP hl
      refine ⟨.list ((evalList env l items).map toVm) 0, by simpa using yields_list ((evalList env l items).map toVm) 0, ?_⟩
      rw [← hlen] at hc ⊢
      by_cases hs : (enumTy c items == Ty.str) = true
      · simp only [hs, if_true] at hc ⊢
        exact init_list _ _ hl0 _ (step_iterStartTextSet env _) pc st mem its hc hP hl
      · simp only [hs, Bool.false_eq_true, if_false] at hc ⊢
        exact init_list _ _ hl0 _ (step_iterStartEnum env _) pc st mem its hc hP hl
    · intro v hv pcb st mem its hc hP hl hg
      have ih := exec_all env henv code body _ { l with vars := l.vars ++ [v] } (hitems v hv)
      exact body_runs ih (wf_typed env _ _ body (hitems v hv)) (by simp) pcb st mem its hc (meminv_var hP _ v hg) hl
    · rw [evalList_length]; exact hn
  | .forOf q qe set body, c, l, hw => by
    simp only [WF] at hw
    obtain ⟨hwq, hd, hn, hitems⟩ := hw
    obtain ⟨hq, hqok⟩ := runs_quant_wf env henv code c l q qe hwq
    apply RunsV.ofExact
    simp only [compile, eval]
    have hcount : countTrue (set.map fun n => eval env { vars := l.vars ++ [.undef], cur := some n } body) =
        countTrue (set.map fun n => eval env { vars := l.vars ++ [.undef], cur := some n } body) := rfl
    apply runs_loop_spec env code c l q qe _ _
      set encStr (fun n => eval env { vars := l.vars ++ [.undef], cur := some n } body) hd hqok hq
    · intro pc st mem its hc hP hl
      refine ⟨.list (set.map encStr) 0, by simpa using yields_list (set.map encStr) 0, ?_⟩
      have hpush : Runs env code ([Instr.pushU] ++ set.map fun n => Instr.push (encStr n)) c l true
          ((set.map encStr).reverse ++ [UNDEF]) :=
        Runs.seq (Runs.push1 _ _ (fun _ _ _ _ _ => rfl)) (runs_strset set)
      obtain ⟨m1, e1, s1, _, p1⟩ := hpush pc st mem its (by simpa using hc.left) hP hl
      obtain ⟨rfl, rfl⟩ := p1 rfl
      simp only [List.append_nil] at s1
      have hlen : (set.map encStr).length = set.length := by simp
      have s2 : Steps env code ⟨pc + ([Instr.pushU] ++ set.map fun n => Instr.push (encStr n)).length,
            (set.map encStr).reverse ++ [UNDEF] ++ st, m1, its⟩
          ⟨pc + ([Instr.pushU] ++ set.map fun n => Instr.push (encStr n)).length + 1,
            ((set.map encStr).length : Int) :: ((set.map encStr).reverse ++ ([UNDEF] ++ st)), m1, its⟩ := by
        apply Steps.one (i := Instr.push set.length) (by simpa using hc.right.head)
        simp [step, hlen]
      have s3 := Steps.one (s := ⟨pc + ([Instr.pushU] ++ set.map fun n => Instr.push (encStr n)).length + 1,
            ((set.map encStr).length : Int) :: ((set.map encStr).reverse ++ ([UNDEF] ++ st)), m1, its⟩)
          (i := Instr.iterStartStrSet) (by simpa [Nat.add_assoc] using hc.right.tail.head) (step_iterStartStrSet env _ _ _ _ _)
      have := Steps.trans s1 (Steps.trans s2 s3)
      simpa [Nat.add_assoc] using this
    · intro n hnm pcb st mem its hc hP hl hg
      have ih := exec_all env henv code body { c with vars := c.vars ++ [.bool], ofSlot := some (4 * c.vars.length + 3) }
        { vars := l.vars ++ [.undef], cur := some n } (hitems n hnm)
      exact body_runs ih (wf_typed env _ _ body (hitems n hnm)) (by simp) pcb st mem its hc (meminv_of hP n hg) hl
    · exact hn
  | .int v, c, l, hw => (exec_loopfree env henv code _ c l rfl hw).weaken
  | .flt f, c, l, hw => (exec_loopfree env henv code _ c l rfl hw).weaken
  | .str s, c, l, hw => (exec_loopfree env henv code _ c l rfl hw).weaken
  | .filesize, c, l, hw => (exec_loopfree env henv code _ c l rfl hw).weaken
  | .ext n, c, l, hw => (exec_loopfree env henv code _ c l rfl hw).weaken
  | .var k, c, l, hw => (exec_loopfree env henv code _ c l rfl hw).weaken
  | .undefOf t, c, l, hw => (exec_loopfree env henv code _ c l rfl hw).weaken
  | .count s, c, l, hw => (exec_loopfree env henv code _ c l rfl hw).weaken
  | .tt, c, l, hw => (exec_loopfree env henv code _ c l rfl hw).weaken
  | .ff, c, l, hw => (exec_loopfree env henv code _ c l rfl hw).weaken
  | .found s, c, l, hw => (exec_loopfree env henv code _ c l rfl hw).weaken
  | .ruleRef k, c, l, hw => (exec_loopfree env henv code _ c l rfl hw).weaken
  | .pctStr p set, c, l, hw => by
    have h := hw
    simp only [WF] at h
    exact (exec_loopfree env henv code _ c l
      (by simp only [loopFree]; exact nonbool_loopFree env p c l h.1 (by rw [h.2.1]; decide)) hw).weaken
  | .pctRules p set, c, l, hw => by
    have h := hw
    simp only [WF] at h
    exact (exec_loopfree env henv code _ c l
      (by simp only [loopFree]; exact nonbool_loopFree env p c l h.1 (by rw [h.2.1]; decide)) hw).weaken
  | .countIn s lo hi, c, l, hw =>
    (exec_loopfree env henv code _ c l (nonbool_loopFree env _ c l hw (by simp [tyOf])) hw).weaken
  | .offset s i, c, l, hw =>
    (exec_loopfree env henv code _ c l (nonbool_loopFree env _ c l hw (by simp [tyOf])) hw).weaken
  | .length s i, c, l, hw =>
    (exec_loopfree env henv code _ c l (nonbool_loopFree env _ c l hw (by simp [tyOf])) hw).weaken
  | .read k off, c, l, hw =>
    (exec_loopfree env henv code _ c l (nonbool_loopFree env _ c l hw (by simp [tyOf])) hw).weaken
  | .bnot e, c, l, hw =>
    (exec_loopfree env henv code _ c l (nonbool_loopFree env _ c l hw (by simp [tyOf])) hw).weaken
  | .neg e, c, l, hw => by
    have h := hw
    simp only [WF] at h
    exact (exec_loopfree env henv code _ c l
      (nonbool_loopFree env _ c l hw (by rcases h.2.1 with h' | h' <;> simp [tyOf, h'])) hw).weaken
  | .arith op a b, c, l, hw => by
    have h := hw
    simp only [WF] at h
    exact (exec_loopfree env henv code _ c l
      (nonbool_loopFree env _ c l hw (by cases op <;> simp only [tyOf] <;> (try split) <;> decide)) hw).weaken
  | .foundAt s pos, c, l, hw => by
    have h := hw
    simp only [WF] at h
    exact (exec_loopfree env henv code _ c l
      (by simp only [loopFree]; exact nonbool_loopFree env pos c l h.2.1 (by rw [h.2.2]; decide)) hw).weaken
  | .foundIn s lo hi, c, l, hw => by
    have h := hw
    simp only [WF] at h
    exact (exec_loopfree env henv code _ c l
      (by simp only [loopFree, Bool.and_eq_true]
          exact ⟨nonbool_loopFree env lo c l h.2.1 (by rw [h.2.2.2.1]; decide),
                 nonbool_loopFree env hi c l h.2.2.1 (by rw [h.2.2.2.2]; decide)⟩) hw).weaken
  | .cmp op a b, c, l, hw => by
    have h := hw
    simp only [WF] at h
    have hta : tyOf c a ≠ .bool := by rcases h.2.2.1 with ⟨h1 | h1, _⟩ | ⟨h1, _⟩ <;> rw [h1] <;> decide
    have htb : tyOf c b ≠ .bool := by rcases h.2.2.1 with ⟨_, h1 | h1⟩ | ⟨_, h1⟩ <;> rw [h1] <;> decide
    exact (exec_loopfree env henv code _ c l
      (by simp only [loopFree, Bool.and_eq_true]
          exact ⟨nonbool_loopFree env a c l h.1 hta, nonbool_loopFree env b c l h.2.1 htb⟩) hw).weaken
  | .strop op a b, c, l, hw => by
    have h := hw
    simp only [WF] at h
    exact (exec_loopfree env henv code _ c l
      (by simp only [loopFree, Bool.and_eq_true]
          exact ⟨nonbool_loopFree env a c l h.1 (by rw [h.2.2.1]; decide),
                 nonbool_loopFree env b c l h.2.1 (by rw [h.2.2.2]; decide)⟩) hw).weaken
  | .matches a re nc, c, l, hw => by
    have h := hw
    simp only [WF] at h
    exact (exec_loopfree env henv code _ c l
      (by simp only [loopFree]; exact nonbool_loopFree env a c l h.1 (by rw [h.2]; decide)) hw).weaken
  | .ofStr q qe set, c, l, hw => by
    have h := hw
    simp only [WF] at h
    exact (exec_loopfree env henv code _ c l
      (by simp only [loopFree, Bool.or_eq_true, bne_iff_ne, ne_eq]
          by_cases hq : q = .num
          · exact Or.inr (nonbool_loopFree env qe c l (h hq).1 (by rw [(h hq).2.1]; decide))
          · exact Or.inl hq) hw).weaken
  | .ofRules q qe set, c, l, hw => by
    have h := hw
    simp only [WF] at h
    exact (exec_loopfree env henv code _ c l
      (by simp only [loopFree, Bool.or_eq_true, bne_iff_ne, ne_eq]
          by_cases hq : q = .num
          · exact Or.inr (nonbool_loopFree env qe c l (h hq).1 (by rw [(h hq).2.1]; decide))
          · exact Or.inl hq) hw).weaken
  | .ofStrIn q qe set lo hi, c, l, hw => by
    have h := hw
    simp only [WF] at h
    exact (exec_loopfree env henv code _ c l
      (by simp only [loopFree, Bool.and_eq_true, Bool.or_eq_true, bne_iff_ne, ne_eq]
          refine ⟨⟨?_, nonbool_loopFree env lo c l h.2.1 (by rw [h.2.2.2.1]; decide)⟩,
                  nonbool_loopFree env hi c l h.2.2.1 (by rw [h.2.2.2.2]; decide)⟩
          by_cases hq : q = .num
          · exact Or.inr (nonbool_loopFree env qe c l (h.1 hq).1 (by rw [(h.1 hq).2.1]; decide))
          · exact Or.inl hq) hw).weaken
  | .ofStrAt q qe set pos, c, l, hw => by
    have h := hw
    simp only [WF] at h
    exact (exec_loopfree env henv code _ c l
      (by simp only [loopFree, Bool.and_eq_true, Bool.or_eq_true, bne_iff_ne, ne_eq]
          refine ⟨?_, nonbool_loopFree env pos c l h.2.1 (by rw [h.2.2]; decide)⟩
          by_cases hq : q = .num
          · exact Or.inr (nonbool_loopFree env qe c l (h.1 hq).1 (by rw [(h.1 hq).2.1]; decide))
          · exact Or.inl hq) hw).weaken

end YaraModel.CondCompile
