/-
  Helper lemmas for D11 (file queue): weighted sums over the consumer list, `filterMap` under `set`,
  modular index arithmetic of the ring.  Core Lean only.
-/
import YaraModel.Model.Queue
namespace YaraModel.Queue

/-! ### weighted sums over a list -/

def wsum {β : Type} (w : β → Nat) (l : List β) : Nat := (l.map w).sum

@[simp] theorem wsum_nil {β : Type} (w : β → Nat) : wsum w [] = 0 := rfl
@[simp] theorem wsum_cons {β : Type} (w : β → Nat) (x : β) (l : List β) : wsum w (x :: l) = w x + wsum w l := by
  simp [wsum]

theorem wsum_set {β : Type} (w : β → Nat) (l : List β) (i : Nat) (pc x : β) (h : l[i]? = some pc) :
    wsum w (l.set i x) + w pc = wsum w l + w x := by
  induction l generalizing i with
  | nil => simp at h
  | cons y ys ih =>
    cases i with
    | zero => simp at h; subst h; simp; omega
    | succ j =>
      simp at h
      have := ih j h
      simp; omega

theorem wsum_ge {β : Type} (w : β → Nat) (l : List β) (i : Nat) (pc : β) (h : l[i]? = some pc) : w pc ≤ wsum w l := by
  induction l generalizing i with
  | nil => simp at h
  | cons y ys ih =>
    cases i with
    | zero => simp at h; subst h; simp
    | succ j => simp at h; have := ih j h; simp; omega

theorem wsum_eq_zero {β : Type} (w : β → Nat) (l : List β) (h : ∀ x ∈ l, w x = 0) : wsum w l = 0 := by
  induction l with
  | nil => rfl
  | cons y ys ih =>
    have h1 := h y (by simp)
    have h2 := ih (fun x hx => h x (by simp [hx]))
    simp [h1, h2]

theorem wsum_le_length {β : Type} (w : β → Nat) (l : List β) (h : ∀ x, w x ≤ 1) : wsum w l ≤ l.length := by
  induction l with
  | nil => simp
  | cons y ys ih => have := h y; simp; omega

theorem wsum_lt_length {β : Type} (w : β → Nat) (l : List β) (h : ∀ x, w x ≤ 1) (i : Nat) (pc : β)
    (hi : l[i]? = some pc) (h0 : w pc = 0) : wsum w l < l.length := by
  induction l generalizing i with
  | nil => simp at hi
  | cons y ys ih =>
    cases i with
    | zero =>
      simp at hi; subst hi
      have := wsum_le_length w ys h
      simp; omega
    | succ j =>
      simp at hi
      have := ih j hi
      have := h y
      simp; omega

theorem wsum_eq_length {β : Type} (w : β → Nat) (l : List β) (h : ∀ x ∈ l, w x = 1) : wsum w l = l.length := by
  induction l with
  | nil => rfl
  | cons y ys ih =>
    have h1 := h y (by simp)
    have h2 := ih (fun x hx => h x (by simp [hx]))
    simp [h1, h2]; omega

/-! ### `filterMap` under `set` -/

theorem filterMap_set_same {β γ : Type} (f : β → Option γ) (l : List β) (i : Nat) (pc pc' : β)
    (h : l[i]? = some pc) (hf : f pc' = f pc) : (l.set i pc').filterMap f = l.filterMap f := by
  induction l generalizing i with
  | nil => simp at h
  | cons y ys ih =>
    cases i with
    | zero => simp at h; subst h; simp [List.filterMap_cons, hf]
    | succ j => simp at h; simp [List.filterMap_cons, ih j h]

theorem filterMap_set_gain {β γ : Type} (f : β → Option γ) (l : List β) (i : Nat) (pc pc' : β) (x : γ)
    (h : l[i]? = some pc) (h0 : f pc = none) (h1 : f pc' = some x) :
    ((l.set i pc').filterMap f).Perm (x :: l.filterMap f) := by
  induction l generalizing i with
  | nil => simp at h
  | cons y ys ih =>
    cases i with
    | zero => simp at h; subst h; simp [h0, h1]
    | succ j =>
      simp at h
      have := ih j h
      simp only [List.set_cons_succ, List.filterMap_cons]
      cases f y with
      | none => simpa using this
      | some z => exact (List.Perm.cons z this).trans (List.Perm.swap x z _)

theorem filterMap_set_lose {β γ : Type} (f : β → Option γ) (l : List β) (i : Nat) (pc pc' : β) (x : γ)
    (h : l[i]? = some pc) (h0 : f pc = some x) (h1 : f pc' = none) :
    (x :: (l.set i pc').filterMap f).Perm (l.filterMap f) := by
  induction l generalizing i with
  | nil => simp at h
  | cons y ys ih =>
    cases i with
    | zero => simp at h; subst h; simp [h0, h1]
    | succ j =>
      simp at h
      have := ih j h
      simp only [List.set_cons_succ, List.filterMap_cons]
      cases f y with
      | none => simpa using this
      | some z => exact (List.Perm.swap z x _).trans (List.Perm.cons z this)

/-! ### index arithmetic of the ring (variable modulus, so no `omega`) -/

theorem mod_add_eq_self {R h k : Nat} (hh : h < R) (hk : k < R) (e : (h + k) % R = h) : k = 0 := by
  by_cases hlt : h + k < R
  · rw [Nat.mod_eq_of_lt hlt] at e; omega
  · have h2 : h + k - R < R := by omega
    have : (h + k) % R = h + k - R := by
      rw [Nat.mod_eq_sub_mod (by omega), Nat.mod_eq_of_lt h2]
    omega

theorem mod_add_inj {R a i j : Nat} (hi : i < R) (hj : j < R) (e : (a + i) % R = (a + j) % R) : i = j := by
  have hR : 0 < R := by omega
  -- reduce to a % R < R
  have e' : (a % R + i) % R = (a % R + j) % R := by rw [Nat.mod_add_mod, Nat.mod_add_mod]; exact e
  have ha : a % R < R := Nat.mod_lt _ hR
  generalize a % R = b at e' ha
  have key : ∀ x : Nat, x < R → (b + x) % R = if b + x < R then b + x else b + x - R := by
    intro x hx
    split
    · next h => exact Nat.mod_eq_of_lt h
    · next h => rw [Nat.mod_eq_sub_mod (by omega), Nat.mod_eq_of_lt (by omega)]
  rw [key i hi, key j hj] at e'
  split at e' <;> split at e' <;> omega

theorem succ_mod_add {R h k : Nat} : ((h + 1) % R + k) % R = (h + (k + 1)) % R := by
  rw [Nat.mod_add_mod]; congr 1; omega

end YaraModel.Queue
