/- helper lemmas for Thm/C01.lean: atoms cover every encoded variant -/
import YaraModel.Lemmas.TextBasic
namespace YaraModel.Text

theorem occursAt_window {nocase : Bool} {pat buf : Bytes} {o : Nat} (h : occursAt nocase pat buf o = true) :
    ∃ e', window buf o pat.length = some e' ∧ eqBytes nocase e' pat = true := by
  unfold occursAt at h
  split at h
  · rename_i w hw; exact ⟨w, hw, h⟩
  · cases h

theorem map_xor_zero (bs : Bytes) : bs.map (· ^^^ (0 : UInt8)) = bs := by
  induction bs with
  | nil => rfl
  | cons c t ih => simp

theorem validWindow_le {w : Nat} {s : Bytes} (h : ValidWindow w s) : w ≤ s.length := by
  unfold ValidWindow at h; omega

/-- generic step: an occurrence of the encoded pattern `e` (as `e'` in the buffer) puts `sub4 e' i` at `o+i` -/
theorem atomAt_of_window {buf e e' : Bytes} {o i : Nat} (h : window buf o e.length = some e') (hi : i ≤ e.length) :
    atomAt ⟨sub4 e' i, i⟩ buf o := by
  unfold atomAt
  exact window_sub4 h i hi


def keyOK (m : Mods) (k : UInt8) : Prop :=
  match m.xor with
  | none => k = 0
  | some r => inRange r k = true

theorem sub4_lower {e e' : Bytes} (h : e'.map lower = e.map lower) (i : Nat) :
    (sub4 e' i).map lower = (sub4 e i).map lower := by
  rw [← sub4_map, ← sub4_map, h]

theorem cover_enc {w : Nat} {m : Mods} {s buf : Bytes} {o : Nat} (e e' : Bytes) (i : Nat)
    (h0 : (⟨sub4 e i, i⟩ : Atom) ∈ l0 w m s) (hi : i ≤ e.length)
    (hwin : window buf o e.length = some e')
    (hrel : (m.nocase = false ∧ ∃ k, e' = e.map (· ^^^ k) ∧ keyOK m k) ∨
            (m.nocase = true ∧ m.xor = none ∧ e'.map lower = e.map lower)) :
    ∃ a ∈ atomsOf w m s, atomAt a buf o := by
  refine ⟨⟨sub4 e' i, i⟩, ?_, atomAt_of_window hwin hi⟩
  rcases hrel with ⟨hn, k, rfl, hk⟩ | ⟨hn, hx, hl⟩
  · rw [sub4_map]
    unfold keyOK at hk
    cases hx : m.xor with
    | none =>
      rw [hx] at hk; subst hk
      rw [map_xor_zero]
      exact mem_atomsOf_plain h0 hn hx
    | some r =>
      obtain ⟨lo, hi'⟩ := r
      rw [hx] at hk
      exact mem_atomsOf_xor h0 lo hi' k hn hx (mem_keys hk)
  · exact mem_atomsOf_nocase h0 (sub4 e' i) (sub4_lower hl i) hn hx


theorem base_mem_l0 {w : Nat} {m : Mods} {s : Bytes} (ha : m.ascii = true) : baseAtom w s ∈ l0 w m s := by
  unfold l0; split <;> simp [ha]

theorem wide_mem_l0 {w : Nat} {m : Mods} {s : Bytes} (hw : m.wide = true) : wideOf (baseAtom w s) ∈ l0 w m s := by
  unfold l0; simp [hw]; split <;> simp

theorem wideOf_base (w : Nat) (s : Bytes) : wideOf (baseAtom w s) = ⟨sub4 (widen s) (2 * w), 2 * w⟩ := by
  have := sub4_widen s w
  unfold sub4 at this
  simp [wideOf, baseAtom, sub4, this]

theorem eqBytes_cases {nocase : Bool} {a b : Bytes} (h : eqBytes nocase a b = true) :
    (nocase = false ∧ a = b) ∨ (nocase = true ∧ a.map lower = b.map lower) := by
  unfold eqBytes at h
  cases nocase <;> simp_all

theorem legal_nocase_xor {m : Mods} (hleg : m.legal = true) (hn : m.nocase = true) : m.xor = none := by
  unfold Mods.legal at hleg
  cases hx : m.xor with
  | none => rfl
  | some r => simp [hn, hx] at hleg

theorem legal_xor_nocase {m : Mods} (hleg : m.legal = true) {r : UInt8 × UInt8} (hx : m.xor = some r) : m.nocase = false := by
  cases hn : m.nocase with
  | false => rfl
  | true => rw [legal_nocase_xor hleg hn] at hx; cases hx

theorem plain_rel {m : Mods} {e e' : Bytes} (hleg : m.legal = true) (heq : eqBytes m.nocase e' e = true)
    (hp : (match m.xor with | none => true | some r => inRange r 0) = true) :
    (m.nocase = false ∧ ∃ k, e' = e.map (· ^^^ k) ∧ keyOK m k) ∨
    (m.nocase = true ∧ m.xor = none ∧ e'.map lower = e.map lower) := by
  rcases eqBytes_cases heq with ⟨hn, rfl⟩ | ⟨hn, hl⟩
  · left
    refine ⟨hn, 0, (map_xor_zero _).symm, ?_⟩
    unfold keyOK
    cases hx : m.xor with
    | none => rfl
    | some r => rw [hx] at hp; exact hp
  · right
    exact ⟨hn, legal_nocase_xor hleg hn, hl⟩

theorem xor_rel {m : Mods} {e : Bytes} {k : UInt8} (hleg : m.legal = true) {r : UInt8 × UInt8} (hx : m.xor = some r)
    (hk : inRange r k = true) :
    (m.nocase = false ∧ ∃ k', e.map (· ^^^ k) = e.map (· ^^^ k') ∧ keyOK m k') ∨
    (m.nocase = true ∧ m.xor = none ∧ (e.map (· ^^^ k)).map lower = e.map lower) := by
  left
  refine ⟨legal_xor_nocase hleg hx, k, rfl, ?_⟩
  unfold keyOK; rw [hx]; exact hk


end YaraModel.Text
