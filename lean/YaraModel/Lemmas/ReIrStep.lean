/-
  One step of the abstract machine (Lemmas/ReVm.lean) inside a segment keeps the continuation invariant:
  the successor state is valid (or just behind the segment), the stack below the segment's depth is untouched, and whatever
  the successor still accepts, the predecessor accepts too (`StepOK`, `seg_step`).
-/
import YaraModel.Lemmas.ReIr
import YaraModel.Lemmas.ReVmSpecG
namespace YaraModel.ReEmit
open YaraModel.Re YaraModel.ReVm

def modeAfter (stop : Bool) : Mode := if stop then .wait else .run
def modeCons (code : Code) (f : Fiber) : Mode :=
  if u8 code f.ip = OP_REPEAT_ANY_GREEDY ∨ u8 code f.ip = OP_REPEAT_ANY_UNGREEDY then .post else .run

/-- how the run of `e` reads its input: `L r q t` — the single instruction of `r` takes the run from `q` matched bytes to `t`
    matched bytes; `ok bm` — `bm` matched bytes stay inside the data.  Instances (Lemmas/ReDir.lean): forwards / backwards,
    one-byte / two-byte (wide) characters. -/
structure Dir (e : Env) where
  L : Re → Nat → Nat → Prop
  ok : Nat → Prop
  cons : ∀ {r : Re} {a : Nat} {f : Fiber} {bm : Nat}, LeafCode e.code r a → f.ip = a → isConsuming (u8 e.code a) = true →
      ok bm → consumeOk e bm f = true → L r bm (bm + e.cs)
  any : ∀ {f : Fiber} {bm : Nat}, (u8 e.code f.ip = OP_REPEAT_ANY_GREEDY ∨ u8 e.code f.ip = OP_REPEAT_ANY_UNGREEDY) →
      ok bm → consumeOk e bm f = true → L .any bm (bm + e.cs)
  zw : ∀ {r : Re} {a : Nat} {bm : Nat}, LeafCode e.code r a → isConsuming (u8 e.code a) = false → ok bm →
      zeroWidthOk e bm (u8 e.code a) = true → L r bm bm
  ok0 : ok 0
  okScan : ∀ {bm : Nat}, e.fl.scan = true → bm ≤ e.maxBytes → ok bm
  okCons : ∀ {f : Fiber} {bm : Nat}, ok bm → consumeOk e bm f = true → ok (bm + e.cs)

/-- `lang` / `Valid` of a fiber -/
abbrev langF (L : Re → Nat → Nat → Prop) (r : Ir) (a B : Nat) (K : Lang) (f : Fiber) (m : Mode) : Lang :=
  lang L r a B K f.ip f.rc f.stack m
abbrev ValidF (r : Ir) (a B : Nat) (f : Fiber) (m : Mode) : Prop := Valid r a B f.ip f.rc f.stack m

def StepOK (e : Env) (D : Dir e) (r : Ir) (a b B : Nat) (K : Lang) (f : Fiber) (m : Mode) : Prop :=
  (∀ g, EStep e.code f g → m ≠ .wait → (ValidF r a B g .run ∨ AtEnd b B g .run) ∧ low g.stack B = low f.stack B ∧
      ∀ q q', langF D.L r a B K g .run q q' → langF D.L r a B K f m q q') ∧
  (∀ g stop, AStep e.code f g stop → m ≠ .wait → (ValidF r a B g (modeAfter stop) ∨ AtEnd b B g (modeAfter stop)) ∧ g.stack = f.stack ∧
      ∀ q q', langF D.L r a B K g (modeAfter stop) q q' → langF D.L r a B K f m q q') ∧
  (∀ bm, D.ok bm → isConsuming (u8 e.code f.ip) = true → consumeOk e bm f = true → (isAnyOp (u8 e.code f.ip) → m = .wait) → m ≠ .post →
      (ValidF r a B (advance e.code f) (modeCons e.code f) ∨ AtEnd b B (advance e.code f) (modeCons e.code f)) ∧
      ∀ q', langF D.L r a B K (advance e.code f) (modeCons e.code f) (bm + e.cs) q' → langF D.L r a B K f m bm q') ∧
  (u8 e.code f.ip ≠ OP_MATCH) ∧
  (∀ bm, D.ok bm → isConsuming (u8 e.code f.ip) = false → zeroWidthOk e bm (u8 e.code f.ip) = true →
      (ValidF r a B { f with ip := f.ip + 1 } .run ∨ AtEnd b B { f with ip := f.ip + 1 } .run) ∧
      ∀ q', langF D.L r a B K { f with ip := f.ip + 1 } .run bm q' → langF D.L r a B K f m bm q')

theorem advance_stack (code : Code) (f : Fiber) : (advance code f).stack = f.stack := by
  unfold advance; split <;> rfl

/-- the instruction of a leaf: not a control instruction, not REPEAT_ANY, not MATCH; consuming with the size the layout
    assumes, or zero-width -/
theorem leaf_facts {code : Code} {r : Re} {a : Nat} (h : LeafCode code r a) :
    ¬ isCtl (u8 code a) ∧ ¬ (u8 code a = OP_REPEAT_ANY_GREEDY ∨ u8 code a = OP_REPEAT_ANY_UNGREEDY) ∧ u8 code a ≠ OP_MATCH ∧
    ((isConsuming (u8 code a) = true ∧ sizeOfInstr (u8 code a) = leafLen r) ∨ (isConsuming (u8 code a) = false ∧ leafLen r = 1)) := by
  cases h with
  | lit h1 _ | notLit h1 _ | masked h1 _ _ | maskedNot h1 _ _ | any h1 | cls h1 _ _ | wordCh h1 | nonWordCh h1 | space h1 | nonSpace h1 | digit h1 | nonDigit h1 =>
    rw [h1]; exact ⟨by unfold isCtl; decide, by decide, by decide, .inl ⟨by decide, rfl⟩⟩
  | bol h1 | eol h1 | wordB h1 | nonWordB h1 =>
    rw [h1]; exact ⟨by unfold isCtl; decide, by decide, by decide, .inr ⟨by decide, rfl⟩⟩

theorem leaf_step (e : Env) (D : Dir e) (r : Re) (a B : Nat) (K : Lang) (f : Fiber) (m : Mode) (hc : LeafCode e.code r a)
    (hv : ValidF (.leaf r) a B f m) : StepOK e D (.leaf r) a (a + leafLen r) B K f m := by
  obtain ⟨hip, hrc, hmode, hlen⟩ := hv
  obtain ⟨hnctl, hnany, hnm, hkind⟩ := leaf_facts hc
  have hn := leafLen_pos r
  refine ⟨?_, ?_, ?_, ?_, ?_⟩
  · intro g hg
    exfalso
    apply hnctl
    rw [← hip]; exact estep_ctl hg
  · intro g st hg
    exfalso
    exact no_astep hg (by rw [hip]; exact hnany)
  · intro bm hokb hcons hc' _ _
    rw [hip] at hcons
    rcases hkind with ⟨_, hsz⟩ | ⟨hnc, _⟩
    · have hadv := advance_ip (f := f) (hip ▸ rfl : u8 e.code f.ip = u8 e.code a) hnany
      have hmc : modeCons e.code f = .run := by unfold modeCons; rw [hip, if_neg hnany]
      rw [hadv, hmc]
      refine ⟨.inr ⟨by simp only; rw [hip, hsz], hrc, rfl, hlen⟩, ?_⟩
      intro q' hq'
      simp only [langF, lang] at hq' ⊢
      have hne : ¬ (f.ip + sizeOfInstr (u8 e.code a) = a) := by omega
      rw [if_neg hne] at hq'
      rw [if_pos hip]
      exact ⟨_, D.cons hc hip hcons hokb hc', hq'⟩
    · rw [hnc] at hcons; simp at hcons
  · rw [hip]; exact hnm
  · intro bm hok hncons hz
    rw [hip] at hncons hz
    rcases hkind with ⟨hcs, _⟩ | ⟨_, hsz⟩
    · rw [hcs] at hncons; simp at hncons
    · refine ⟨.inr ⟨by simp only; rw [hip, hsz], hrc, rfl, hlen⟩, ?_⟩
      intro q' hq'
      simp only [langF, lang] at hq' ⊢
      have hne : ¬ (f.ip + 1 = a) := by omega
      rw [if_neg hne] at hq'
      rw [if_pos hip]
      exact ⟨_, D.zw hc hncons hok hz, hq'⟩

theorem jump_step (e : Env) (D : Dir e) (a B lo hi : Nat) (g : Bool) (K : Lang) (f : Fiber) (m : Mode)
    (hop : u8 e.code a = OP_REPEAT_ANY_GREEDY ∨ u8 e.code a = OP_REPEAT_ANY_UNGREEDY)
    (hlo : u16 e.code (a + 1) = lo) (hhi : u16 e.code (a + 3) = hi) (hlh : lo ≤ hi)
    (hv : ValidF (.jump lo hi g) a B f m) : StepOK e D (.jump lo hi g) a (a + 5) B K f m := by
  simp only [ValidF, Valid] at hv
  obtain ⟨hip, hlen, hst⟩ := hv
  have hopf : u8 e.code f.ip = OP_REPEAT_ANY_GREEDY ∨ u8 e.code f.ip = OP_REPEAT_ANY_UNGREEDY := by rw [hip]; exact hop
  -- the counter as a natural number
  have hrcc : ((if f.rc = -1 then (0 : Int) else f.rc) = (rc0 f.rc : Nat)) := by
    rcases hst with ⟨_, h1⟩ | ⟨_, h1, _⟩
    · rw [h1]; simp [rc0]
    · have : ¬ f.rc = -1 := by omega
      rw [if_neg this, rc0_pos h1]
  have hbound : rc0 f.rc ≤ hi := by
    rcases hst with ⟨_, h1⟩ | ⟨_, h1, h2⟩
    · rw [h1, rc0_neg]; omega
    · have := rc0_pos h1; omega
  refine ⟨?_, ?_, ?_, ?_, ?_⟩
  · intro g' hg
    exact absurd hg (fun hh => no_estep_any hh hopf)
  · intro g' stop hg hmw
    cases hg with
    | spin _ hcond =>
      rw [hip, hlo, hhi, hrcc] at hcond
      have hlt : rc0 f.rc < hi := by omega
      simp only [modeAfter, if_true]
      have hnew : ((if f.rc = -1 then (0 : Int) else f.rc) + 1) = ((rc0 f.rc + 1 : Nat) : Int) := by rw [hrcc]; omega
      refine ⟨.inl ?_, trivial, ?_⟩
      · simp only [ValidF, Valid]
        refine ⟨hip, hlen, .inr ⟨by simp, ?_, ?_⟩⟩
        · rw [hnew]; omega
        · rw [hnew]; omega
      · intro q q' hq
        simp only [langF, lang, hip, if_true] at hq ⊢
        rw [hnew] at hq
        have hr : rc0 ((rc0 f.rc + 1 : Nat) : Int) = rc0 f.rc + 1 := rc0_natCast _
        rw [hr] at hq
        obtain ⟨j, t, h1, h2, h3, hp, hk⟩ := hq
        have key : ∃ j t, lo ≤ rc0 f.rc + j ∧ rc0 f.rc + j ≤ hi ∧ Iter (D.L .any) j q t ∧ K t q' :=
          ⟨j, t, by omega, by omega, hp, hk⟩
        cases m with
        | run => exact key
        | wait => exact absurd rfl hmw
        | post => exact key
    | cont _ hcond =>
      rw [hip, hlo, hrcc] at hcond
      simp only [modeAfter]
      refine ⟨.inr ⟨by simp [hip], rfl, rfl, hlen⟩, trivial, ?_⟩
      intro q q' hq
      have hne : ¬ (a + 5 = a) := by omega
      simp only [langF, lang, hip, if_true] at hq ⊢
      rw [if_neg hne] at hq
      have key : ∃ j t, lo ≤ rc0 f.rc + j ∧ rc0 f.rc + j ≤ hi ∧ Iter (D.L .any) j q t ∧ K t q' :=
        ⟨0, q, by omega, by omega, .nil, hq⟩
      cases m with
      | run => exact key
      | wait => exact absurd rfl hmw
      | post => exact key
  · intro bm hokb _ hc hmw hmp
    have hwait : m = .wait := hmw hopf
    have hadv : advance e.code f = f := by unfold advance; rw [if_pos hopf]
    have hmc : modeCons e.code f = .post := by unfold modeCons; rw [if_pos hopf]
    rw [hadv, hmc]
    have hrc1 : 1 ≤ f.rc ∧ f.rc ≤ hi := by
      rcases hst with ⟨h1, _⟩ | ⟨_, h1, h2⟩
      · rw [hwait] at h1; simp at h1
      · exact ⟨h1, h2⟩
    refine ⟨.inl ?_, ?_⟩
    · simp only [ValidF, Valid]
      exact ⟨hip, hlen, .inr ⟨by simp, hrc1.1, hrc1.2⟩⟩
    · intro q' hq
      subst hwait
      simp only [langF, lang, hip, if_true] at hq ⊢
      obtain ⟨j, t, h1, h2, hp, hk⟩ := hq
      have hk1 : 1 ≤ rc0 f.rc := by have := rc0_pos hrc1.1; omega
      exact ⟨j + 1, t, by omega, by omega, by omega, Iter.cons (D.any hopf hokb hc) hp, hk⟩
  · rcases hopf with h1 | h1 <;> rw [h1] <;> simp [OP_REPEAT_ANY_GREEDY, OP_REPEAT_ANY_UNGREEDY, OP_MATCH]
  · intro bm _ hnc
    exfalso
    rcases hopf with h1 | h1 <;> rw [h1] at hnc <;> simp [isConsuming, OP_REPEAT_ANY_GREEDY, OP_REPEAT_ANY_UNGREEDY, OP_ANY] at hnc

/-! ### control instructions and sub-segments -/
theorem ctl_facts (e : Env) (bm : Nat) {op : Nat} (h : isCtl op) :
    ¬ (op = OP_REPEAT_ANY_GREEDY ∨ op = OP_REPEAT_ANY_UNGREEDY) ∧ isConsuming op = false ∧ op ≠ OP_MATCH ∧ zeroWidthOk e bm op = false := by
  unfold isCtl at h
  rcases h with h | h | h | h | h | h | h <;> subst h <;>
    simp [zeroWidthOk, isConsuming, OP_SPLIT_A, OP_SPLIT_B, OP_JUMP, OP_WORD_BOUNDARY, OP_NON_WORD_BOUNDARY, OP_MATCH_AT_START, OP_MATCH_AT_END,
      OP_REPEAT_START_GREEDY, OP_REPEAT_START_UNGREEDY, OP_REPEAT_END_GREEDY, OP_REPEAT_END_UNGREEDY, OP_REPEAT_ANY_GREEDY, OP_REPEAT_ANY_UNGREEDY,
      OP_MATCH, OP_ANY, OP_LITERAL, OP_NOT_LITERAL, OP_MASKED_LITERAL, OP_MASKED_NOT_LITERAL, OP_CLASS, OP_WORD_CHAR, OP_NON_WORD_CHAR, OP_SPACE,
      OP_NON_SPACE, OP_DIGIT, OP_NON_DIGIT]

/-- a control instruction: only the ε-steps matter -/
theorem ctl_step (e : Env) (D : Dir e) {r : Ir} {a b B : Nat} {K : Lang} {f : Fiber} {m : Mode} (hop : isCtl (u8 e.code f.ip))
    (h1 : ∀ g, EStep e.code f g → (ValidF r a B g .run ∨ AtEnd b B g .run) ∧ low g.stack B = low f.stack B ∧
      ∀ q q', langF D.L r a B K g .run q q' → langF D.L r a B K f m q q') : StepOK e D r a b B K f m := by
  refine ⟨fun g hg _ => h1 g hg, ?_, ?_, (ctl_facts e 0 hop).2.2.1, ?_⟩
  · intro g stop hg _
    exact absurd hg (fun hh => no_astep hh (ctl_facts e 0 hop).1)
  · intro bm _ hc
    rw [(ctl_facts e 0 hop).2.1] at hc; simp at hc
  · intro bm _ _ hz
    rw [(ctl_facts e bm hop).2.2.2] at hz; simp at hz

/-- a state inside a sub-segment `x` of `r`: the step property of `x` lifts to `r`.  `K'` is the continuation of `x` inside
    `r`; it may depend on the stack, but only on its lowest `B'` entries (the counters of the enclosing loops). -/
theorem step_lift (e : Env) (D : Dir e) {r x : Ir} {a b a' b' B B' : Nat} {K : Lang} (K' : List Nat → Lang) {f : Fiber} {md : Mode}
    (hK : ∀ s s', low s B' = low s' B' → K' s = K' s') (hB : B ≤ B')
    (lift : ∀ (g : Fiber) (md' : Mode), low g.stack B' = low f.stack B' → (ValidF x a' B' g md' ∨ AtEnd b' B' g md') →
        (ValidF r a B g md' ∨ AtEnd b B g md') ∧ langF D.L r a B K g md' = langF D.L x a' B' (K' g.stack) g md')
    (hf : langF D.L r a B K f md = langF D.L x a' B' (K' f.stack) f md)
    (sub : StepOK e D x a' b' B' (K' f.stack) f md) : StepOK e D r a b B K f md := by
  obtain ⟨e1, e2, e3, e4, e5⟩ := sub
  refine ⟨?_, ?_, ?_, e4, ?_⟩
  · intro g hg hmw
    obtain ⟨g1, gl, g2⟩ := e1 g hg hmw
    obtain ⟨l1, l2⟩ := lift g .run gl g1
    refine ⟨l1, low_mono gl hB, ?_⟩
    intro q q' hq
    rw [hf]; rw [l2, hK _ _ gl] at hq; exact g2 q q' hq
  · intro g stop hg hmw
    obtain ⟨g1, gl, g2⟩ := e2 g stop hg hmw
    obtain ⟨l1, l2⟩ := lift g _ (by rw [gl]) g1
    refine ⟨l1, gl, ?_⟩
    intro q q' hq
    rw [hf]; rw [l2, gl] at hq; exact g2 q q' hq
  · intro bm hc0 hc1 hc2 hc3 hc4
    obtain ⟨g1, g2⟩ := e3 bm hc0 hc1 hc2 hc3 hc4
    obtain ⟨l1, l2⟩ := lift _ _ (by rw [advance_stack]) g1
    refine ⟨l1, ?_⟩
    intro q' hq
    rw [hf]; rw [l2, advance_stack] at hq; exact g2 q' hq
  · intro bm hz0 hz1 hz2
    obtain ⟨g1, g2⟩ := e5 bm hz0 hz1 hz2
    obtain ⟨l1, l2⟩ := lift { f with ip := f.ip + 1 } .run rfl g1
    refine ⟨l1, ?_⟩
    intro q' hq
    rw [hf]; rw [l2] at hq; exact g2 q' hq

/-! ### the ε-steps of the loop instructions -/
theorem estep_start {code : Code} {f g : Fiber} (h : EStep code f g)
    (hop : u8 code f.ip = OP_REPEAT_START_GREEDY ∨ u8 code f.ip = OP_REPEAT_START_UNGREEDY) :
    g = { f with ip := f.ip + 9, stack := 0 :: f.stack } ∨
    (u16 code (f.ip + 1) = 0 ∧ g = { f with ip := addOff f.ip (i32 code (f.ip + 5)) }) := by
  cases h with
  | repStartEnter _ => exact .inl rfl
  | repStartSkip _ h0 => exact .inr ⟨h0, rfl⟩
  | _ => rename_i h1; simp only [OP_SPLIT_A, OP_SPLIT_B, OP_JUMP, OP_REPEAT_START_GREEDY, OP_REPEAT_START_UNGREEDY, OP_REPEAT_END_GREEDY,
      OP_REPEAT_END_UNGREEDY, OP_REPEAT_ANY_GREEDY, OP_REPEAT_ANY_UNGREEDY] at *; omega

theorem estep_end {code : Code} {f g : Fiber} (h : EStep code f g)
    (hop : u8 code f.ip = OP_REPEAT_END_GREEDY ∨ u8 code f.ip = OP_REPEAT_END_UNGREEDY) :
    ((f.stack.headD 0 + 1 < u16 code (f.ip + 1) ∨ f.stack.headD 0 + 1 < u16 code (f.ip + 3)) ∧
      g = { f with ip := addOff f.ip (i32 code (f.ip + 5)), stack := (f.stack.headD 0 + 1) :: f.stack.tail }) ∨
    (¬ (f.stack.headD 0 + 1 < u16 code (f.ip + 1)) ∧ g = { f with ip := f.ip + 9, stack := f.stack.tail }) := by
  cases h with
  | repEndLoop _ hc => exact .inl ⟨hc, rfl⟩
  | repEndExit _ hc => exact .inr ⟨hc, rfl⟩
  | _ => rename_i h1; simp only [OP_SPLIT_A, OP_SPLIT_B, OP_JUMP, OP_REPEAT_START_GREEDY, OP_REPEAT_START_UNGREEDY, OP_REPEAT_END_GREEDY,
      OP_REPEAT_END_UNGREEDY, OP_REPEAT_ANY_GREEDY, OP_REPEAT_ANY_UNGREEDY] at *; omega

theorem isCtl_split {op : Nat} (h : op = OP_SPLIT_A ∨ op = OP_SPLIT_B) : isCtl op := by
  unfold isCtl; rcases h with h | h <;> simp [h]
theorem isCtl_jump {op : Nat} (h : op = OP_JUMP) : isCtl op := by unfold isCtl; simp [h]
theorem isCtl_start {op : Nat} (h : op = OP_REPEAT_START_GREEDY ∨ op = OP_REPEAT_START_UNGREEDY) : isCtl op := by
  unfold isCtl; rcases h with h | h <;> simp [h]
theorem isCtl_end {op : Nat} (h : op = OP_REPEAT_END_GREEDY ∨ op = OP_REPEAT_END_UNGREEDY) : isCtl op := by
  unfold isCtl; rcases h with h | h <;> simp [h]

/-- the entry of a sub-segment: a valid state of it, or (empty sub-segment) the state just behind it -/
theorem entry_state {code : Code} {x : Ir} {a' b' : Nat} (hs : Seg code x a' b') (B' : Nat) (g : Fiber) (hip : g.ip = a') (hrc : g.rc = -1)
    (hlen : g.stack.length = B') : ValidF x a' B' g .run ∨ AtEnd b' B' g .run := by
  rcases entry_ok hs B' g.stack hlen with h1 | h1
  · left; simp only [ValidF]; rw [hip, hrc]; exact h1
  · right; exact ⟨by rw [hip, h1], hrc, rfl, hlen⟩

/-- what the entry state of a sub-segment accepts: a match of the sub-expression, then the continuation -/
theorem entry_lang (e : Env) (D : Dir e) {x : Ir} {a' b' : Nat} (hs : Seg e.code x a' b') (B' : Nat) (K' : Lang) (g : Fiber) (hip : g.ip = a') (hrc : g.rc = -1)
    (q q' : Nat) (hq : langF D.L x a' B' K' g .run q q') : ∃ t, IrM D.L x q t ∧ K' t q' := by
  simp only [langF] at hq
  rw [hip, hrc] at hq
  exact lang_entry _ hs B' K' _ q q' hq

theorem seg_step (e : Env) (D : Dir e) {r : Ir} {a b : Nat} (hs : Seg e.code r a b) :
    ∀ (B : Nat) (K : Lang) (f : Fiber) (md : Mode), ValidF r a B f md → StepOK e D r a b B K f md := by
  induction hs with
  | @leaf r a hc =>
    intro B K f md hst
    exact leaf_step e D r a B K f md hc hst
  | @jump a lo hi g h1 h2 h3 h4 =>
    intro B K f md hst
    exact jump_step e D a B lo hi g K f md h1 h2 h3 h4 hst
  | eps =>
    intro B K f md hst
    simp only [ValidF, Valid] at hst
  | @cat x y a m b s1 s2 ih1 ih2 =>
    intro B K f md hst
    have hm : m = a + clen x := s1.len
    have le2 := s2.le
    simp only [ValidF, Valid] at hst
    rw [← hm] at hst
    rcases hst with hst | hst
    · -- inside x: the continuation is the entry language of y (evaluated on the stack below the depth of the segment)
      have hr := valid_range s1 hst
      refine step_lift e D (fun s => lang D.L y m B K m (-1) (low s B) .run)
        (fun s s' hh => by simp only [hh]) (Nat.le_refl _) ?_ ?_ (ih1 B _ f md hst)
      · intro g md' _ hg
        rcases hg with hg | hg
        · have r2 := valid_range s1 hg
          refine ⟨.inl (.inl hg), ?_⟩
          simp only [langF, lang]
          rw [← hm, if_pos r2.2.1]
        · obtain ⟨g1, g2, g3, g4⟩ := hg
          subst g3
          refine ⟨?_, ?_⟩
          · rcases entry_state s2 B g g1 g2 g4 with h' | h'
            · exact .inl (.inr (by rw [← hm]; exact h'))
            · exact .inr h'
          · simp only [langF, lang]
            rw [← hm, g1, if_neg (Nat.lt_irrefl _), lang_end _ s1, ← g4, low_self, g2]
      · simp only [langF, lang]
        rw [← hm, if_pos hr.2.1]
    · have hr := valid_range s2 hst
      refine step_lift e D (fun _ => K) (fun _ _ _ => rfl) (Nat.le_refl _) ?_ ?_ (ih2 B K f md hst)
      · intro g md' _ hg
        rcases hg with hg | hg
        · have r2 := valid_range s2 hg
          refine ⟨.inl (.inr (by rw [← hm]; exact hg)), ?_⟩
          simp only [langF, lang]
          rw [← hm, if_neg (by omega)]
        · refine ⟨.inr hg, ?_⟩
          simp only [langF, lang]
          rw [← hm, if_neg (by rw [hg.1]; omega)]
      · simp only [langF, lang]
        rw [← hm, if_neg (by omega)]

  | @star x a m g o1 o2 s1 o3 o4 ih =>
    intro B K f md hst
    have hm : m = a + 4 + clen x := by have := s1.len; omega
    have p1 := s1.le
    simp only [ValidF, Valid] at hst
    rw [← hm] at hst
    obtain ⟨SK, hSK⟩ : ∃ SK : Lang, SK = fun q q' => ∃ t, IrM D.L (.star x g) q t ∧ K t q' := ⟨_, rfl⟩
    have hla : ∀ rc s md, lang D.L (.star x g) a B K a rc s md = SK := by
      intro rc s md; simp only [lang, if_true]; rw [hSK]
    have hlx : ∀ ip rc s md, a < ip → ip < m → lang D.L (.star x g) a B K ip rc s md = lang D.L x (a + 4) B SK ip rc s md := by
      intro ip rc s md h1 h2; simp only [lang]; rw [← hm, if_neg (by omega), if_pos h2, hSK]
    have hlm : ∀ rc s md, lang D.L (.star x g) a B K m rc s md = SK := by
      intro rc s md; simp only [lang]; rw [← hm, if_neg (by omega), if_neg (by omega), if_pos rfl, hSK]
    have hlb : ∀ rc s md, lang D.L (.star x g) a B K (m + 3) rc s md = K := fun rc s md =>
      lang_end _ (Seg.star (g := g) o1 o2 s1 o3 o4) B K rc s md
    have hxm : ∀ rc s md, lang D.L x (a + 4) B SK m rc s md = SK := fun rc s md => lang_end _ s1 _ _ rc s md
    have liftx : ∀ (g' : Fiber) (md' : Mode), (ValidF x (a + 4) B g' md' ∨ AtEnd m B g' md') →
        (ValidF (.star x g) a B g' md' ∨ AtEnd (m + 3) B g' md') ∧ langF D.L (.star x g) a B K g' md' = langF D.L x (a + 4) B SK g' md' := by
      intro g' md' hg
      rcases hg with h1 | h1
      · have r := valid_range s1 h1
        exact ⟨.inl (.inr (.inl h1)), hlx _ _ _ _ (by omega) r.2.1⟩
      · refine ⟨.inl (.inr (.inr (by rw [← hm]; exact h1))), ?_⟩
        simp only [langF]; rw [h1.1, hlm, hxm]
    rcases hst with hst | hst | hst
    · -- the split at the loop head
      obtain ⟨hip, hrc, hmd, hlen⟩ := hst
      have hop : u8 e.code f.ip = OP_SPLIT_A ∨ u8 e.code f.ip = OP_SPLIT_B := by rw [hip]; exact o1
      refine ctl_step e D (isCtl_split hop) ?_
      intro g' hg
      rcases estep_split hg hop with rfl | rfl
      · obtain ⟨l1, l2⟩ := liftx { f with ip := f.ip + 4 } .run (entry_state s1 B _ (by simp only; rw [hip]) hrc hlen)
        refine ⟨l1, rfl, ?_⟩
        intro q q' hq
        simp only [langF]; rw [hip, hla]
        rw [l2] at hq
        obtain ⟨t, ht, hk⟩ := entry_lang e D s1 B SK { f with ip := f.ip + 4 } (by simp only; rw [hip]) hrc q q' hq
        rw [hSK] at hk ⊢
        obtain ⟨t2, ht2, hk2⟩ := hk
        exact ⟨t2, .starStep ht ht2, hk2⟩
      · refine ⟨.inr ⟨by simp only; rw [hip, o2], hrc, rfl, hlen⟩, rfl, ?_⟩
        intro q q' hq
        simp only [langF] at hq ⊢
        rw [hip, o2, hlb] at hq
        rw [hip, hla, hSK]
        exact ⟨q, .starNil, hq⟩
    · have r := valid_range s1 hst
      refine step_lift e D (fun _ => SK) (fun _ _ _ => rfl) (Nat.le_refl _) (fun g' md' _ hg => liftx g' md' hg) ?_ (ih B SK f md hst)
      simp only [langF]; exact hlx _ _ _ _ (by omega) r.2.1
    · -- the jump back to the loop head
      obtain ⟨hip, hrc, hmd, hlen⟩ := hst
      have hop : u8 e.code f.ip = OP_JUMP := by rw [hip]; exact o3
      refine ctl_step e D (isCtl_jump hop) ?_
      intro g' hg
      rw [estep_jump hg hop]
      refine ⟨.inl (.inl ⟨by simp only; rw [hip, o4], hrc, rfl, hlen⟩), rfl, ?_⟩
      intro q q' hq
      simp only [langF] at hq ⊢
      rw [hip, o4, hla] at hq
      rw [hip, hlm]; exact hq
  | @plus x a m g s1 hlt o1 o2 ih =>
    intro B K f md hst
    have hm : m = a + clen x := s1.len
    have hne : ¬ clen x = 0 := by omega
    simp only [ValidF, Valid] at hst
    rw [← hm] at hst
    obtain ⟨PK, hPK⟩ : ∃ PK : Lang, PK = fun q q' => K q q' ∨ ∃ t, IrM D.L (.plus x g) q t ∧ K t q' := ⟨_, rfl⟩
    have hlx : ∀ ip rc s md, ip < m → lang D.L (.plus x g) a B K ip rc s md = lang D.L x a B PK ip rc s md := by
      intro ip rc s md h2; simp only [lang]; rw [← hm, if_neg hne, if_pos h2, hPK]
    have hlm : ∀ rc s md, lang D.L (.plus x g) a B K m rc s md = PK := by
      intro rc s md; simp only [lang]; rw [← hm, if_neg hne, if_neg (by omega), if_pos rfl, hPK]
    have hlb : ∀ rc s md, lang D.L (.plus x g) a B K (m + 4) rc s md = K := fun rc s md =>
      lang_end _ (Seg.plus (g := g) s1 hlt o1 o2) B K rc s md
    have hxm : ∀ rc s md, lang D.L x a B PK m rc s md = PK := fun rc s md => lang_end _ s1 _ _ rc s md
    have liftx : ∀ (g' : Fiber) (md' : Mode), (ValidF x a B g' md' ∨ AtEnd m B g' md') →
        (ValidF (.plus x g) a B g' md' ∨ AtEnd (m + 4) B g' md') ∧ langF D.L (.plus x g) a B K g' md' = langF D.L x a B PK g' md' := by
      intro g' md' hg
      rcases hg with h1 | h1
      · have r := valid_range s1 h1
        exact ⟨.inl (.inl h1), hlx _ _ _ _ r.2.1⟩
      · refine ⟨.inl (.inr ⟨by omega, by rw [← hm]; exact h1⟩), ?_⟩
        simp only [langF]; rw [h1.1, hlm, hxm]
    rcases hst with hst | ⟨_, hst⟩
    · have r := valid_range s1 hst
      refine step_lift e D (fun _ => PK) (fun _ _ _ => rfl) (Nat.le_refl _) (fun g' md' _ hg => liftx g' md' hg) ?_ (ih B PK f md hst)
      simp only [langF]; exact hlx _ _ _ _ r.2.1
    · obtain ⟨hip, hrc, hmd, hlen⟩ := hst
      have hop : u8 e.code f.ip = OP_SPLIT_A ∨ u8 e.code f.ip = OP_SPLIT_B := by rw [hip]; exact o1
      refine ctl_step e D (isCtl_split hop) ?_
      intro g' hg
      rcases estep_split hg hop with rfl | rfl
      · refine ⟨.inr ⟨by simp only; rw [hip], hrc, rfl, hlen⟩, rfl, ?_⟩
        intro q q' hq
        simp only [langF] at hq ⊢
        rw [hip, hlb] at hq
        rw [hip, hlm, hPK]
        exact .inl hq
      · obtain ⟨l1, l2⟩ := liftx { f with ip := addOff f.ip (i16 e.code (f.ip + 2)) } .run
          (entry_state s1 B _ (by simp only; rw [hip, o2]) hrc hlen)
        refine ⟨l1, rfl, ?_⟩
        intro q q' hq
        rw [l2] at hq
        obtain ⟨t, ht, hk⟩ := entry_lang e D s1 B PK { f with ip := addOff f.ip (i16 e.code (f.ip + 2)) } (by simp only; rw [hip, o2]) hrc q q' hq
        simp only [langF]
        rw [hip, hlm]
        rw [hPK] at hk ⊢
        rcases hk with hk | ⟨t2, ht2, hk2⟩
        · exact .inr ⟨t, .plusOne ht, hk⟩
        · exact .inr ⟨t2, .plusStep ht ht2, hk2⟩
  | @plusNil x a g s1 ih =>
    intro B K f md hst
    have h0 : clen x = 0 := by have := s1.len; omega
    simp only [ValidF, Valid] at hst
    rcases hst with hst | ⟨hp, _⟩
    · have := valid_range s1 hst; omega
    · omega
  | @opt x a m g o1 o2 s1 ih =>
    intro B K f md hst
    have p1 := s1.le
    simp only [ValidF, Valid] at hst
    obtain ⟨OK, hOK⟩ : ∃ OK : Lang, OK = fun q q' => ∃ t, IrM D.L (.opt x g) q t ∧ K t q' := ⟨_, rfl⟩
    have hla : ∀ rc s md, lang D.L (.opt x g) a B K a rc s md = OK := by
      intro rc s md; simp only [lang, if_true]; rw [hOK]
    have hlx : ∀ ip rc s md, a < ip → lang D.L (.opt x g) a B K ip rc s md = lang D.L x (a + 4) B K ip rc s md := by
      intro ip rc s md h1; simp only [lang]; rw [if_neg (by omega)]
    have liftx : ∀ (g' : Fiber) (md' : Mode), (ValidF x (a + 4) B g' md' ∨ AtEnd m B g' md') →
        (ValidF (.opt x g) a B g' md' ∨ AtEnd m B g' md') ∧ langF D.L (.opt x g) a B K g' md' = langF D.L x (a + 4) B K g' md' := by
      intro g' md' hg
      rcases hg with h1 | h1
      · have r := valid_range s1 h1
        exact ⟨.inl (.inr h1), hlx _ _ _ _ (by omega)⟩
      · exact ⟨.inr h1, hlx _ _ _ _ (by rw [h1.1]; omega)⟩
    rcases hst with hst | hst
    · obtain ⟨hip, hrc, hmd, hlen⟩ := hst
      have hop : u8 e.code f.ip = OP_SPLIT_A ∨ u8 e.code f.ip = OP_SPLIT_B := by rw [hip]; exact o1
      refine ctl_step e D (isCtl_split hop) ?_
      intro g' hg
      rcases estep_split hg hop with rfl | rfl
      · obtain ⟨l1, l2⟩ := liftx { f with ip := f.ip + 4 } .run (entry_state s1 B _ (by simp only; rw [hip]) hrc hlen)
        refine ⟨l1, rfl, ?_⟩
        intro q q' hq
        rw [l2] at hq
        obtain ⟨t, ht, hk⟩ := entry_lang e D s1 B K { f with ip := f.ip + 4 } (by simp only; rw [hip]) hrc q q' hq
        simp only [langF]; rw [hip, hla, hOK]
        exact ⟨t, .optTake ht, hk⟩
      · refine ⟨.inr ⟨by simp only; rw [hip, o2], hrc, rfl, hlen⟩, rfl, ?_⟩
        intro q q' hq
        simp only [langF] at hq ⊢
        rw [hip, o2, lang_end _ (Seg.opt (g := g) o1 o2 s1) B K] at hq
        rw [hip, hla, hOK]
        exact ⟨q, .optSkip, hq⟩
    · have r := valid_range s1 hst
      refine step_lift e D (fun _ => K) (fun _ _ _ => rfl) (Nat.le_refl _) (fun g' md' _ hg => liftx g' md' hg) ?_ (ih B K f md hst)
      simp only [langF]; exact hlx _ _ _ _ (by omega)

  | @alt x y a m b o1 o2 s1 o3 o4 s2 ih1 ih2 =>
    intro B K f md hst
    have hm : m = a + 4 + clen x := by have := s1.len; omega
    have p1 := s1.le
    have p2 := s2.le
    simp only [ValidF, Valid] at hst
    rw [← hm] at hst
    have hla : ∀ rc s md, lang D.L (.alt x y) a B K a rc s md = fun q q' =>
        lang D.L x (a + 4) B K (a + 4) (-1) s .run q q' ∨ lang D.L y (m + 3) B K (m + 3) (-1) s .run q q' := by
      intro rc s md; simp only [lang, if_true]; rw [← hm]
    have hlx : ∀ ip rc s md, a < ip → ip < m → lang D.L (.alt x y) a B K ip rc s md = lang D.L x (a + 4) B K ip rc s md := by
      intro ip rc s md h1 h2; simp only [lang]; rw [← hm, if_neg (by omega), if_pos h2]
    have hlm : ∀ rc s md, lang D.L (.alt x y) a B K m rc s md = K := by
      intro rc s md; simp only [lang]; rw [← hm, if_neg (by omega), if_neg (by omega), if_pos rfl]
    have hly : ∀ ip rc s md, m < ip → lang D.L (.alt x y) a B K ip rc s md = lang D.L y (m + 3) B K ip rc s md := by
      intro ip rc s md h1; simp only [lang]; rw [← hm, if_neg (by omega), if_neg (by omega), if_neg (by omega)]
    have hxm : ∀ rc s md, lang D.L x (a + 4) B K m rc s md = K := fun rc s md => lang_end _ s1 _ _ rc s md
    have liftx : ∀ (g : Fiber) (md' : Mode), (ValidF x (a + 4) B g md' ∨ AtEnd m B g md') →
        (ValidF (.alt x y) a B g md' ∨ AtEnd b B g md') ∧ langF D.L (.alt x y) a B K g md' = langF D.L x (a + 4) B K g md' := by
      intro g md' hg
      rcases hg with h1 | h1
      · have r := valid_range s1 h1
        exact ⟨.inl (.inr (.inl h1)), hlx _ _ _ _ (by omega) r.2.1⟩
      · refine ⟨.inl (.inr (.inr (.inl (by rw [← hm]; exact h1)))), ?_⟩
        simp only [langF]; rw [h1.1, hlm, hxm]
    have lifty : ∀ (g : Fiber) (md' : Mode), (ValidF y (m + 3) B g md' ∨ AtEnd b B g md') →
        (ValidF (.alt x y) a B g md' ∨ AtEnd b B g md') ∧ langF D.L (.alt x y) a B K g md' = langF D.L y (m + 3) B K g md' := by
      intro g md' hg
      rcases hg with h1 | h1
      · have r := valid_range s2 h1
        exact ⟨.inl (.inr (.inr (.inr (by rw [← hm]; exact h1)))), hly _ _ _ _ (by omega)⟩
      · exact ⟨.inr h1, hly _ _ _ _ (by rw [h1.1]; omega)⟩
    rcases hst with hst | hst | hst | hst
    · -- the split instruction
      obtain ⟨hip, hrc, hmd, hlen⟩ := hst
      have hop : u8 e.code f.ip = OP_SPLIT_A := by rw [hip]; exact o1
      refine ctl_step e D (isCtl_split (.inl hop)) ?_
      intro g hg
      rcases estep_split hg (.inl hop) with rfl | rfl
      · obtain ⟨l1, l2⟩ := liftx { f with ip := f.ip + 4 } .run (entry_state s1 B _ (by simp only; rw [hip]) hrc hlen)
        refine ⟨l1, rfl, ?_⟩
        intro q q' hq
        rw [l2] at hq
        simp only [langF] at hq ⊢
        rw [hip, hla]
        rw [hip, hrc] at hq
        exact .inl hq
      · obtain ⟨l1, l2⟩ := lifty { f with ip := addOff f.ip (i16 e.code (f.ip + 2)) } .run
          (entry_state s2 B _ (by simp only; rw [hip, o2]) hrc hlen)
        refine ⟨l1, rfl, ?_⟩
        intro q q' hq
        rw [l2] at hq
        simp only [langF] at hq ⊢
        rw [hip, hla]
        rw [hip, o2, hrc] at hq
        exact .inr hq
    · have r := valid_range s1 hst
      refine step_lift e D (fun _ => K) (fun _ _ _ => rfl) (Nat.le_refl _) (fun g' md' _ hg => liftx g' md' hg) ?_ (ih1 B K f md hst)
      simp only [langF]; exact hlx _ _ _ _ (by omega) r.2.1
    · -- the jump over the second branch
      obtain ⟨hip, hrc, hmd, hlen⟩ := hst
      have hop : u8 e.code f.ip = OP_JUMP := by rw [hip]; exact o3
      refine ctl_step e D (isCtl_jump hop) ?_
      intro g hg
      rw [estep_jump hg hop]
      refine ⟨.inr ⟨by simp only; rw [hip, o4], hrc, rfl, hlen⟩, rfl, ?_⟩
      intro q q' hq
      simp only [langF] at hq ⊢
      rw [hip, o4, lang_end _ (Seg.alt o1 o2 s1 o3 o4 s2) B K] at hq
      rw [hip, hlm]; exact hq
    · have r := valid_range s2 hst
      refine step_lift e D (fun _ => K) (fun _ _ _ => rfl) (Nat.le_refl _) (fun g' md' _ hg => lifty g' md' hg) ?_ (ih2 B K f md hst)
      simp only [langF]; exact hly _ _ _ _ (by omega)
  | @loop x a m lo hi g o1 o2 o3 s1 o4 o5 o6 o7 hlh hhi ih =>
    intro B K f md hst
    have hm : m = a + 9 + clen x := by have := s1.len; omega
    simp only [ValidF, Valid] at hst
    rw [← hm] at hst
    -- the language with `l .. u` iterations to go
    obtain ⟨RK, hRK⟩ : ∃ RK : Nat → Nat → Lang, RK = fun l u q q' => ∃ t, IrM D.L (.loop x l u g) q t ∧ K t q' := ⟨_, rfl⟩
    have hla : ∀ rc s md, lang D.L (.loop x lo hi g) a B K a rc s md = RK lo hi := by
      intro rc s md; simp only [lang, if_true]; rw [hRK]
    have hlx : ∀ ip rc s md, a < ip → ip < m → lang D.L (.loop x lo hi g) a B K ip rc s md =
        lang D.L x (a + 9) (B + 1) (RK (lo - (cntAt s B + 1)) (hi - (cntAt s B + 1))) ip rc s md := by
      intro ip rc s md h1 h2; simp only [lang]; rw [← hm, if_neg (by omega), if_pos h2, hRK]
    have hlm : ∀ rc s md, lang D.L (.loop x lo hi g) a B K m rc s md = RK (lo - (cntAt s B + 1)) (hi - (cntAt s B + 1)) := by
      intro rc s md; simp only [lang]; rw [← hm, if_neg (by omega), if_neg (by omega), if_pos rfl, hRK]
    have hlb : ∀ rc s md, lang D.L (.loop x lo hi g) a B K (m + 9) rc s md = K := fun rc s md =>
      lang_end _ (Seg.loop (g := g) o1 o2 o3 s1 o4 o5 o6 o7 hlh hhi) B K rc s md
    -- states of the body / at REPEAT_END, seen from the loop
    have liftx : ∀ (g' : Fiber) (md' : Mode), cntAt g'.stack B < hi → (ValidF x (a + 9) (B + 1) g' md' ∨ AtEnd m (B + 1) g' md') →
        (ValidF (.loop x lo hi g) a B g' md' ∨ AtEnd (m + 9) B g' md') ∧
        langF D.L (.loop x lo hi g) a B K g' md' = langF D.L x (a + 9) (B + 1) (RK (lo - (cntAt g'.stack B + 1)) (hi - (cntAt g'.stack B + 1))) g' md' := by
      intro g' md' hc hg
      rcases hg with h1 | h1
      · have r := valid_range s1 h1
        exact ⟨.inl (.inr (.inl ⟨h1, hc⟩)), hlx _ _ _ _ (by omega) r.2.1⟩
      · refine ⟨.inl (.inr (.inr ⟨by rw [← hm]; exact h1, hc⟩)), ?_⟩
        simp only [langF]; rw [h1.1, hlm, lang_end _ s1]
    -- entering the body with counter c: one more iteration, then lo-(c+1) .. hi-(c+1)
    have enter : ∀ (g' : Fiber) (c l u : Nat), g'.ip = a + 9 → g'.rc = -1 → g'.stack.length = B + 1 → cntAt g'.stack B = c → c < hi →
        l ≤ lo - (c + 1) + 1 → hi - (c + 1) + 1 ≤ u →
        (ValidF (.loop x lo hi g) a B g' .run ∨ AtEnd (m + 9) B g' .run) ∧
        ∀ q q', langF D.L (.loop x lo hi g) a B K g' .run q q' → RK l u q q' := by
      intro g' c l u g1 g2 g3 g4 hc hl hu
      obtain ⟨l1, l2⟩ := liftx g' .run (by rw [g4]; exact hc) (entry_state s1 (B + 1) g' g1 g2 g3)
      refine ⟨l1, ?_⟩
      intro q q' hq
      rw [l2, g4] at hq
      obtain ⟨t, ht, hk⟩ := entry_lang e D s1 (B + 1) _ g' g1 g2 q q' hq
      rw [hRK] at hk ⊢
      obtain ⟨t2, ht2, hk2⟩ := hk
      exact ⟨t2, loop_step ht ht2 hl hu, hk2⟩
    rcases hst with hst | ⟨hst, hcnt⟩ | ⟨hst, hcnt⟩
    · -- REPEAT_START
      obtain ⟨hip, hrc, hmd, hlen⟩ := hst
      have hop : u8 e.code f.ip = OP_REPEAT_START_GREEDY ∨ u8 e.code f.ip = OP_REPEAT_START_UNGREEDY := by rw [hip]; exact o1
      refine ctl_step e D (isCtl_start hop) ?_
      intro g' hg
      rcases estep_start hg hop with rfl | ⟨h0, rfl⟩
      · have hc0 : cntAt (0 :: f.stack) B = 0 := by rw [cntAt_top (by simp [hlen])]; rfl
        obtain ⟨l1, l2⟩ := enter { f with ip := f.ip + 9, stack := 0 :: f.stack } 0 lo hi (by simp only; rw [hip]) hrc (by simp [hlen]) hc0 hhi
          (by omega) (by omega)
        refine ⟨l1, low_cons 0 (by omega), ?_⟩
        intro q q' hq
        simp only [langF]; rw [hip, hla]
        exact l2 q q' hq
      · rw [hip, o2] at h0
        refine ⟨.inr ⟨by simp only; rw [hip, o3], hrc, rfl, hlen⟩, rfl, ?_⟩
        intro q q' hq
        simp only [langF] at hq ⊢
        rw [hip, o3, hlb] at hq
        rw [hip, hla, hRK]
        exact ⟨q, by rw [h0]; exact loop_nil _ _ _ _, hq⟩
    · -- inside the body
      have r := valid_range s1 hst
      refine step_lift e D (fun s => RK (lo - (cntAt s B + 1)) (hi - (cntAt s B + 1)))
        (fun s s' hh => by unfold cntAt; rw [hh]) (Nat.le_succ _) ?_ ?_ (ih (B + 1) _ f md hst)
      · intro g' md' hl hg
        have hc : cntAt g'.stack B = cntAt f.stack B := by unfold cntAt; rw [hl]
        exact liftx g' md' (by rw [hc]; exact hcnt) hg
      · simp only [langF]; exact hlx _ _ _ _ (by omega) r.2.1
    · -- REPEAT_END: the counter is on top of the stack
      obtain ⟨hip, hrc, hmd, hlen⟩ := hst
      have hop : u8 e.code f.ip = OP_REPEAT_END_GREEDY ∨ u8 e.code f.ip = OP_REPEAT_END_UNGREEDY := by rw [hip]; exact o4
      have htop : cntAt f.stack B = f.stack.headD 0 := cntAt_top hlen
      refine ctl_step e D (isCtl_end hop) ?_
      intro g' hg
      rcases estep_end hg hop with ⟨hc, rfl⟩ | ⟨hc, rfl⟩
      · rw [hip, o5, o6, ← htop] at hc
        have hlen' : ((cntAt f.stack B + 1) :: f.stack.tail).length = B + 1 := by simp; omega
        have hc1 : cntAt ((cntAt f.stack B + 1) :: f.stack.tail) B = cntAt f.stack B + 1 := by rw [cntAt_top hlen']; rfl
        rw [← htop]
        obtain ⟨l1, l2⟩ := enter { f with ip := addOff f.ip (i32 e.code (f.ip + 5)), stack := (cntAt f.stack B + 1) :: f.stack.tail }
          (cntAt f.stack B + 1) (lo - (cntAt f.stack B + 1)) (hi - (cntAt f.stack B + 1)) (by simp only; rw [hip, o7]) hrc hlen' hc1
          (by omega) (by omega) (by omega)
        refine ⟨l1, low_set_head _ (by omega), ?_⟩
        intro q q' hq
        simp only [langF]; rw [hip, hlm]
        exact l2 q q' hq
      · rw [hip, o5, ← htop] at hc
        refine ⟨.inr ⟨by simp only; rw [hip], hrc, rfl, by simp; omega⟩, low_tail (by omega), ?_⟩
        intro q q' hq
        simp only [langF] at hq ⊢
        rw [hip, hlb] at hq
        rw [hip, hlm, hRK]
        refine ⟨q, ?_, hq⟩
        have : lo - (cntAt f.stack B + 1) = 0 := by omega
        rw [this]; exact loop_nil _ _ _ _

end YaraModel.ReEmit
