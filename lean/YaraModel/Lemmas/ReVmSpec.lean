/-
  VM ↔ specification, instruction level (forward code, byte mode): what one consuming / zero-width instruction of the
  model of `yr_re_exec` accepts, in terms of the one-character tests of Spec/Re.lean; the shapes of the ε-steps; byte-level
  decoding helpers for emitted code.  Independent of the code layout (used by Lemmas/ReIr*.lean).
-/
import YaraModel.Lemmas.ReVm
import YaraModel.Model.ReEmit
import YaraModel.Lemmas.ReAlgebra
namespace YaraModel.ReEmit
open YaraModel.Re YaraModel.ReVm

abbrev Lang := Nat → Nat → Prop

/-- the repeat counter of a REPEAT_ANY fiber as a number of characters (`-1` = not spinning = 0) -/
def rc0 (rc : Int) : Nat := if rc = -1 then 0 else rc.toNat

/-- VM flags of a forward, non-scanning run in byte mode and the specification flags they correspond to -/
def specFlags (v : VmFlags) : Flags := { wide := false, nocase := v.nocase, dotall := v.dotall }

structure FwdByte (e : Env) : Prop where
  notWide : e.fl.wide = false
  notBack : e.fl.backwards = false
  startIn : e.start ≤ e.buf.size

theorem cs_one {e : Env} (h : FwdByte e) : e.cs = 1 := by simp [Env.cs, h.notWide]
theorem inp_fwd {e : Env} (h : FwdByte e) (bm : Nat) : e.inp bm = ((e.start + bm : Nat) : Int) := by
  simp [Env.inp, h.notBack]

/-- a successful consuming step reads a byte inside the buffer -/
theorem consume_in_buf {e : Env} (h : FwdByte e) {bm : Nat} {f : Fiber} (hc : consumeOk e bm f = true) :
    e.start + bm < e.buf.size := by
  unfold consumeOk at hc
  simp only [Bool.and_eq_true, Bool.not_eq_true', Bool.or_eq_false_iff, decide_eq_false_iff_not] at hc
  have h1 := hc.1.1
  unfold Env.maxBytes at h1
  simp only [h.notBack, Bool.false_eq_true, if_false, cs_one h, Nat.mod_one, Nat.sub_zero] at h1
  unfold Env.fwdSize at h1
  omega

theorem byteAt_eq {buf : Bytes} {i : Nat} (h : i < buf.size) : buf[i]? = some (byteAt buf (i : Int)) := by
  unfold byteAt
  have : ¬ ((i : Int) < 0) := by omega
  simp only [this, if_false, Int.toNat_natCast]
  rw [Array.getElem?_eq_getElem h]; simp

/-- spec-side acceptance of the byte at `q` -/
theorem charOk_of {fl : Flags} (hw : fl.wide = false) {buf : Bytes} {t : UInt8 → Bool} {q : Nat} (hq : q < buf.size)
    (ht : t (byteAt buf (q : Int)) = true) : charOk fl buf t q = true := by
  unfold charOk
  rw [byteAt_eq hq]
  simp [hw, ht]


/-! ### what the ε-steps can be for a known opcode -/
theorem no_estep {code : Code} {f g : Fiber} (h : EStep code f g)
    (hop : u8 code f.ip = OP_LITERAL ∨ u8 code f.ip = OP_NOT_LITERAL ∨ u8 code f.ip = OP_MASKED_LITERAL ∨
      u8 code f.ip = OP_MASKED_NOT_LITERAL ∨ u8 code f.ip = OP_ANY) : False := by
  cases h <;> rename_i h1 <;>
    simp only [OP_LITERAL, OP_NOT_LITERAL, OP_MASKED_LITERAL, OP_MASKED_NOT_LITERAL, OP_ANY, OP_SPLIT_A, OP_SPLIT_B, OP_JUMP,
      OP_REPEAT_START_GREEDY, OP_REPEAT_START_UNGREEDY, OP_REPEAT_END_GREEDY, OP_REPEAT_END_UNGREEDY, OP_REPEAT_ANY_GREEDY,
      OP_REPEAT_ANY_UNGREEDY] at * <;> omega

theorem estep_split {code : Code} {f g : Fiber} (h : EStep code f g) (hop : u8 code f.ip = OP_SPLIT_A ∨ u8 code f.ip = OP_SPLIT_B) :
    g = { f with ip := f.ip + 4 } ∨ g = { f with ip := addOff f.ip (i16 code (f.ip + 2)) } := by
  cases h with
  | splitNext _ => exact .inl rfl
  | splitJmp _ => exact .inr rfl
  | _ => rename_i h1; simp only [OP_SPLIT_A, OP_SPLIT_B, OP_JUMP, OP_REPEAT_START_GREEDY, OP_REPEAT_START_UNGREEDY, OP_REPEAT_END_GREEDY,
      OP_REPEAT_END_UNGREEDY, OP_REPEAT_ANY_GREEDY, OP_REPEAT_ANY_UNGREEDY] at *; omega

theorem estep_jump {code : Code} {f g : Fiber} (h : EStep code f g) (hop : u8 code f.ip = OP_JUMP) :
    g = { f with ip := addOff f.ip (i16 code (f.ip + 1)) } := by
  cases h with
  | jump _ => rfl
  | _ => rename_i h1; simp only [OP_SPLIT_A, OP_SPLIT_B, OP_JUMP, OP_REPEAT_START_GREEDY, OP_REPEAT_START_UNGREEDY, OP_REPEAT_END_GREEDY,
      OP_REPEAT_END_UNGREEDY, OP_REPEAT_ANY_GREEDY, OP_REPEAT_ANY_UNGREEDY] at *; omega


/-- ε-steps only happen at control instructions -/
def isCtl (op : Nat) : Prop :=
  op = OP_SPLIT_A ∨ op = OP_SPLIT_B ∨ op = OP_JUMP ∨ op = OP_REPEAT_START_GREEDY ∨ op = OP_REPEAT_START_UNGREEDY ∨
  op = OP_REPEAT_END_GREEDY ∨ op = OP_REPEAT_END_UNGREEDY

theorem estep_ctl {code : Code} {f g : Fiber} (h : EStep code f g) : isCtl (u8 code f.ip) := by
  unfold isCtl
  cases h with
  | splitNext h1 | splitJmp h1 | repStartEnter h1 | repStartSkip h1 _ | repEndLoop h1 _ | repEndExit h1 _ =>
    rcases h1 with h1 | h1 <;> rw [h1] <;> decide
  | jump h1 => rw [h1]; decide

theorem no_astep {code : Code} {f g : Fiber} {st : Bool} (h : AStep code f g st)
    (hop : ¬ (u8 code f.ip = OP_REPEAT_ANY_GREEDY ∨ u8 code f.ip = OP_REPEAT_ANY_UNGREEDY)) : False := by
  cases h <;> rename_i h1 _ <;> exact hop h1

theorem no_estep_any {code : Code} {f g : Fiber} (h : EStep code f g)
    (hop : u8 code f.ip = OP_REPEAT_ANY_GREEDY ∨ u8 code f.ip = OP_REPEAT_ANY_UNGREEDY) : False := by
  cases h <;> rename_i h1 <;>
    simp only [OP_SPLIT_A, OP_SPLIT_B, OP_JUMP, OP_REPEAT_START_GREEDY, OP_REPEAT_START_UNGREEDY, OP_REPEAT_END_GREEDY,
      OP_REPEAT_END_UNGREEDY, OP_REPEAT_ANY_GREEDY, OP_REPEAT_ANY_UNGREEDY] at * <;> omega

/-! ### consuming instructions against the specification's one-character tests -/
theorem specFlags_cs (v : VmFlags) : (specFlags v).cs = 1 := rfl

theorem consumeTest_of {e : Env} (h : FwdByte e) {bm : Nat} {f : Fiber} (hc : consumeOk e bm f = true) :
    consumeTest e.code e.fl f.ip e.buf 1 ((e.start + bm : Nat) : Int) = true := by
  unfold consumeOk at hc
  simp only [Bool.and_eq_true] at hc
  have := hc.2
  rwa [cs_one h, inp_fwd h] at this

theorem toNat_beq (c b : UInt8) : (c.toNat == b.toNat) = (c == b) := by
  rw [Bool.eq_iff_iff]; simp [UInt8.toNat_inj]

theorem consume_lit {e : Env} (h : FwdByte e) {bm : Nat} {f : Fiber} {b : UInt8} (hop : u8 e.code f.ip = OP_LITERAL)
    (harg : u8 e.code (f.ip + 1) = b.toNat) (hc : consumeOk e bm f = true) :
    Re.Matches (specFlags e.fl) e.buf (.lit b) (e.start + bm) (e.start + bm + 1) := by
  have hq := consume_in_buf h hc
  have ht := consumeTest_of h hc
  have : Re.Matches (specFlags e.fl) e.buf (.lit b) (e.start + bm) (e.start + bm + (specFlags e.fl).cs) := by
    apply Re.Matches.lit
    apply charOk_of rfl hq
    unfold consumeTest at ht
    simp only [hop, harg, OP_LITERAL, OP_ANY, OP_REPEAT_ANY_GREEDY, OP_REPEAT_ANY_UNGREEDY] at ht
    simp only [Nat.reduceEqDiff, or_self, if_false, if_true] at ht
    unfold testLit specFlags
    simp only
    split at ht
    · rename_i hn; simp only [hn, if_true]; rwa [UInt8.ofNat_toNat] at ht
    · rename_i hn; simp only [hn]; rwa [toNat_beq] at ht
  rwa [specFlags_cs] at this

theorem consume_notLit {e : Env} (h : FwdByte e) {bm : Nat} {f : Fiber} {b : UInt8} (hop : u8 e.code f.ip = OP_NOT_LITERAL)
    (harg : u8 e.code (f.ip + 1) = b.toNat) (hc : consumeOk e bm f = true) :
    Re.Matches (specFlags e.fl) e.buf (.notLit b) (e.start + bm) (e.start + bm + 1) := by
  have hq := consume_in_buf h hc
  have ht := consumeTest_of h hc
  have : Re.Matches (specFlags e.fl) e.buf (.notLit b) (e.start + bm) (e.start + bm + (specFlags e.fl).cs) := by
    apply Re.Matches.notLit
    apply charOk_of rfl hq
    unfold consumeTest at ht
    simp only [hop, harg, OP_NOT_LITERAL, OP_LITERAL, OP_ANY, OP_REPEAT_ANY_GREEDY, OP_REPEAT_ANY_UNGREEDY] at ht
    simp only [Nat.reduceEqDiff, or_self, if_false, if_true] at ht
    simp only [bne_iff_ne, ne_eq] at ht ⊢
    intro heq; apply ht; rw [heq]
  rwa [specFlags_cs] at this

theorem toNat_and_beq (c m v : UInt8) : ((c.toNat &&& m.toNat) == v.toNat) = ((c &&& m) == v) := by
  rw [← UInt8.toNat_and, toNat_beq]

theorem consume_masked {e : Env} (h : FwdByte e) {bm : Nat} {f : Fiber} {v m : UInt8} (hop : u8 e.code f.ip = OP_MASKED_LITERAL)
    (h1 : u8 e.code (f.ip + 1) = v.toNat) (h2 : u8 e.code (f.ip + 2) = m.toNat) (hc : consumeOk e bm f = true) :
    Re.Matches (specFlags e.fl) e.buf (.masked v m) (e.start + bm) (e.start + bm + 1) := by
  have hq := consume_in_buf h hc
  have ht := consumeTest_of h hc
  have : Re.Matches (specFlags e.fl) e.buf (.masked v m) (e.start + bm) (e.start + bm + (specFlags e.fl).cs) := by
    apply Re.Matches.masked
    apply charOk_of rfl hq
    unfold consumeTest at ht
    simp only [hop, h1, h2, OP_MASKED_LITERAL, OP_NOT_LITERAL, OP_LITERAL, OP_ANY, OP_REPEAT_ANY_GREEDY, OP_REPEAT_ANY_UNGREEDY] at ht
    simp only [Nat.reduceEqDiff, or_self, if_false, if_true] at ht
    unfold testMasked
    rwa [toNat_and_beq] at ht
  rwa [specFlags_cs] at this

theorem consume_maskedNot {e : Env} (h : FwdByte e) {bm : Nat} {f : Fiber} {v m : UInt8} (hop : u8 e.code f.ip = OP_MASKED_NOT_LITERAL)
    (h1 : u8 e.code (f.ip + 1) = v.toNat) (h2 : u8 e.code (f.ip + 2) = m.toNat) (hc : consumeOk e bm f = true) :
    Re.Matches (specFlags e.fl) e.buf (.maskedNot v m) (e.start + bm) (e.start + bm + 1) := by
  have hq := consume_in_buf h hc
  have ht := consumeTest_of h hc
  have : Re.Matches (specFlags e.fl) e.buf (.maskedNot v m) (e.start + bm) (e.start + bm + (specFlags e.fl).cs) := by
    apply Re.Matches.maskedNot
    apply charOk_of rfl hq
    unfold consumeTest at ht
    simp only [hop, h1, h2, OP_MASKED_NOT_LITERAL, OP_MASKED_LITERAL, OP_NOT_LITERAL, OP_LITERAL, OP_ANY, OP_REPEAT_ANY_GREEDY,
      OP_REPEAT_ANY_UNGREEDY] at ht
    simp only [Nat.reduceEqDiff, or_self, if_false, if_true] at ht
    unfold testMasked
    simp only [bne_iff_ne, ne_eq, Bool.not_eq_true', beq_eq_false_iff_ne] at ht ⊢
    intro heq; apply ht
    rw [← UInt8.toNat_and, heq]
  rwa [specFlags_cs] at this

theorem consume_any {e : Env} (h : FwdByte e) {bm : Nat} {f : Fiber} (hop : u8 e.code f.ip = OP_ANY) (hc : consumeOk e bm f = true) :
    Re.Matches (specFlags e.fl) e.buf .any (e.start + bm) (e.start + bm + 1) := by
  have hq := consume_in_buf h hc
  have ht := consumeTest_of h hc
  have : Re.Matches (specFlags e.fl) e.buf .any (e.start + bm) (e.start + bm + (specFlags e.fl).cs) := by
    apply Re.Matches.any
    apply charOk_of rfl hq
    unfold consumeTest at ht
    simp only [hop, OP_ANY, true_or, if_true] at ht
    unfold testAny specFlags
    exact ht
  rwa [specFlags_cs] at this


theorem consume_wordCh {e : Env} (h : FwdByte e) {bm : Nat} {f : Fiber} (hop : u8 e.code f.ip = OP_WORD_CHAR) (hc : consumeOk e bm f = true) :
    Re.Matches (specFlags e.fl) e.buf .wordCh (e.start + bm) (e.start + bm + 1) := by
  have hq := consume_in_buf h hc
  have ht := consumeTest_of h hc
  have : Re.Matches (specFlags e.fl) e.buf .wordCh (e.start + bm) (e.start + bm + (specFlags e.fl).cs) := by
    apply Re.Matches.wordCh
    apply charOk_of rfl hq
    unfold consumeTest at ht
    simp only [hop, OP_ANY, OP_REPEAT_ANY_GREEDY, OP_REPEAT_ANY_UNGREEDY, OP_LITERAL, OP_NOT_LITERAL, OP_MASKED_LITERAL, OP_MASKED_NOT_LITERAL, OP_CLASS, OP_WORD_CHAR, OP_NON_WORD_CHAR, OP_SPACE, OP_NON_SPACE, OP_DIGIT, OP_NON_DIGIT] at ht
    simp only [Nat.reduceEqDiff, or_self, if_false, if_true] at ht
    simpa [isWordCharAt] using ht
  rwa [specFlags_cs] at this

theorem consume_nonWordCh {e : Env} (h : FwdByte e) {bm : Nat} {f : Fiber} (hop : u8 e.code f.ip = OP_NON_WORD_CHAR) (hc : consumeOk e bm f = true) :
    Re.Matches (specFlags e.fl) e.buf .nonWordCh (e.start + bm) (e.start + bm + 1) := by
  have hq := consume_in_buf h hc
  have ht := consumeTest_of h hc
  have : Re.Matches (specFlags e.fl) e.buf .nonWordCh (e.start + bm) (e.start + bm + (specFlags e.fl).cs) := by
    apply Re.Matches.nonWordCh
    apply charOk_of rfl hq
    unfold consumeTest at ht
    simp only [hop, OP_ANY, OP_REPEAT_ANY_GREEDY, OP_REPEAT_ANY_UNGREEDY, OP_LITERAL, OP_NOT_LITERAL, OP_MASKED_LITERAL, OP_MASKED_NOT_LITERAL, OP_CLASS, OP_WORD_CHAR, OP_NON_WORD_CHAR, OP_SPACE, OP_NON_SPACE, OP_DIGIT, OP_NON_DIGIT] at ht
    simp only [Nat.reduceEqDiff, or_self, if_false, if_true] at ht
    simpa [isWordCharAt] using ht
  rwa [specFlags_cs] at this

theorem consume_space {e : Env} (h : FwdByte e) {bm : Nat} {f : Fiber} (hop : u8 e.code f.ip = OP_SPACE) (hc : consumeOk e bm f = true) :
    Re.Matches (specFlags e.fl) e.buf .space (e.start + bm) (e.start + bm + 1) := by
  have hq := consume_in_buf h hc
  have ht := consumeTest_of h hc
  have : Re.Matches (specFlags e.fl) e.buf .space (e.start + bm) (e.start + bm + (specFlags e.fl).cs) := by
    apply Re.Matches.space
    apply charOk_of rfl hq
    unfold consumeTest at ht
    simp only [hop, OP_ANY, OP_REPEAT_ANY_GREEDY, OP_REPEAT_ANY_UNGREEDY, OP_LITERAL, OP_NOT_LITERAL, OP_MASKED_LITERAL, OP_MASKED_NOT_LITERAL, OP_CLASS, OP_WORD_CHAR, OP_NON_WORD_CHAR, OP_SPACE, OP_NON_SPACE, OP_DIGIT, OP_NON_DIGIT] at ht
    simp only [Nat.reduceEqDiff, or_self, if_false, if_true] at ht
    simpa [isWordCharAt] using ht
  rwa [specFlags_cs] at this

theorem consume_nonSpace {e : Env} (h : FwdByte e) {bm : Nat} {f : Fiber} (hop : u8 e.code f.ip = OP_NON_SPACE) (hc : consumeOk e bm f = true) :
    Re.Matches (specFlags e.fl) e.buf .nonSpace (e.start + bm) (e.start + bm + 1) := by
  have hq := consume_in_buf h hc
  have ht := consumeTest_of h hc
  have : Re.Matches (specFlags e.fl) e.buf .nonSpace (e.start + bm) (e.start + bm + (specFlags e.fl).cs) := by
    apply Re.Matches.nonSpace
    apply charOk_of rfl hq
    unfold consumeTest at ht
    simp only [hop, OP_ANY, OP_REPEAT_ANY_GREEDY, OP_REPEAT_ANY_UNGREEDY, OP_LITERAL, OP_NOT_LITERAL, OP_MASKED_LITERAL, OP_MASKED_NOT_LITERAL, OP_CLASS, OP_WORD_CHAR, OP_NON_WORD_CHAR, OP_SPACE, OP_NON_SPACE, OP_DIGIT, OP_NON_DIGIT] at ht
    simp only [Nat.reduceEqDiff, or_self, if_false, if_true] at ht
    simpa [isWordCharAt] using ht
  rwa [specFlags_cs] at this

theorem consume_digit {e : Env} (h : FwdByte e) {bm : Nat} {f : Fiber} (hop : u8 e.code f.ip = OP_DIGIT) (hc : consumeOk e bm f = true) :
    Re.Matches (specFlags e.fl) e.buf .digit (e.start + bm) (e.start + bm + 1) := by
  have hq := consume_in_buf h hc
  have ht := consumeTest_of h hc
  have : Re.Matches (specFlags e.fl) e.buf .digit (e.start + bm) (e.start + bm + (specFlags e.fl).cs) := by
    apply Re.Matches.digit
    apply charOk_of rfl hq
    unfold consumeTest at ht
    simp only [hop, OP_ANY, OP_REPEAT_ANY_GREEDY, OP_REPEAT_ANY_UNGREEDY, OP_LITERAL, OP_NOT_LITERAL, OP_MASKED_LITERAL, OP_MASKED_NOT_LITERAL, OP_CLASS, OP_WORD_CHAR, OP_NON_WORD_CHAR, OP_SPACE, OP_NON_SPACE, OP_DIGIT, OP_NON_DIGIT] at ht
    simp only [Nat.reduceEqDiff, or_self, if_false, if_true] at ht
    simpa [isWordCharAt] using ht
  rwa [specFlags_cs] at this

theorem consume_nonDigit {e : Env} (h : FwdByte e) {bm : Nat} {f : Fiber} (hop : u8 e.code f.ip = OP_NON_DIGIT) (hc : consumeOk e bm f = true) :
    Re.Matches (specFlags e.fl) e.buf .nonDigit (e.start + bm) (e.start + bm + 1) := by
  have hq := consume_in_buf h hc
  have ht := consumeTest_of h hc
  have : Re.Matches (specFlags e.fl) e.buf .nonDigit (e.start + bm) (e.start + bm + (specFlags e.fl).cs) := by
    apply Re.Matches.nonDigit
    apply charOk_of rfl hq
    unfold consumeTest at ht
    simp only [hop, OP_ANY, OP_REPEAT_ANY_GREEDY, OP_REPEAT_ANY_UNGREEDY, OP_LITERAL, OP_NOT_LITERAL, OP_MASKED_LITERAL, OP_MASKED_NOT_LITERAL, OP_CLASS, OP_WORD_CHAR, OP_NON_WORD_CHAR, OP_SPACE, OP_NON_SPACE, OP_DIGIT, OP_NON_DIGIT] at ht
    simp only [Nat.reduceEqDiff, or_self, if_false, if_true] at ht
    simpa [isWordCharAt] using ht
  rwa [specFlags_cs] at this

theorem consume_cls {e : Env} (h : FwdByte e) {bm : Nat} {f : Fiber} {cb : Nat} {neg : Bool} (hop : u8 e.code f.ip = OP_CLASS)
    (hneg : u8 e.code (f.ip + 1) = (if neg then 1 else 0)) (hbits : ∀ c : UInt8, classBit e.code f.ip c = inBitmap cb c)
    (hc : consumeOk e bm f = true) :
    Re.Matches (specFlags e.fl) e.buf (.cls cb neg) (e.start + bm) (e.start + bm + 1) := by
  have hq := consume_in_buf h hc
  have ht := consumeTest_of h hc
  have : Re.Matches (specFlags e.fl) e.buf (.cls cb neg) (e.start + bm) (e.start + bm + (specFlags e.fl).cs) := by
    apply Re.Matches.cls
    apply charOk_of rfl hq
    unfold consumeTest at ht
    simp only [hop, OP_ANY, OP_REPEAT_ANY_GREEDY, OP_REPEAT_ANY_UNGREEDY, OP_LITERAL, OP_NOT_LITERAL, OP_MASKED_LITERAL, OP_MASKED_NOT_LITERAL, OP_CLASS] at ht
    simp only [Nat.reduceEqDiff, or_self, if_false, if_true] at ht
    rw [hneg, hbits, hbits] at ht
    unfold testCls specFlags
    simp only
    cases neg
    · simpa using ht
    · simpa using ht
  rwa [specFlags_cs] at this

/-! ### zero-width instructions against the specification (forwards, byte mode) -/
theorem charOk_narrow {fl : Flags} (hw : fl.wide = false) (buf : Bytes) (t : UInt8 → Bool) (p : Nat) :
    charOk fl buf t p = (decide (p < buf.size) && t (byteAt buf (p : Int))) := by
  by_cases hp : p < buf.size
  · unfold charOk
    rw [byteAt_eq hp]
    simp [hw, hp]
  · unfold charOk
    have : buf[p]? = none := Array.getElem?_eq_none (by omega)
    rw [this]
    simp [hp]

theorem zw_bol {e : Env} (h : FwdByte e) {bm : Nat} (hz : zeroWidthOk e bm OP_MATCH_AT_START = true) : e.start + bm = 0 := by
  unfold zeroWidthOk at hz
  simp [OP_MATCH_AT_START, OP_WORD_BOUNDARY, OP_NON_WORD_BOUNDARY, h.notBack, Env.bwdSize] at hz
  omega

theorem zw_eol {e : Env} (h : FwdByte e) {bm : Nat} (hb : e.start + bm ≤ e.buf.size) (hz : zeroWidthOk e bm OP_MATCH_AT_END = true) :
    e.start + bm = e.buf.size := by
  unfold zeroWidthOk at hz
  simp [OP_MATCH_AT_END, OP_MATCH_AT_START, OP_WORD_BOUNDARY, OP_NON_WORD_BOUNDARY, h.notBack, Env.fwdSize] at hz
  omega

theorem zw_boundary {e : Env} (h : FwdByte e) {bm : Nat} (hbb : e.start + bm ≤ e.buf.size) :
    zeroWidthOk e bm OP_WORD_BOUNDARY = isBoundary (specFlags e.fl) e.buf (e.start + bm) := by
  have hcs : e.cs = 1 := cs_one h
  have hinp : e.inp bm = ((e.start + bm : Nat) : Int) := inp_fwd h bm
  have hb := h.notBack
  unfold zeroWidthOk isBoundary wordBefore wordAt
  simp only [OP_WORD_BOUNDARY, OP_NON_WORD_BOUNDARY, Nat.reduceEqDiff, true_or, if_true, if_false, hb, Bool.false_eq_true]
  rw [charOk_narrow rfl, charOk_narrow rfl, hinp, hcs]
  have hsf : (specFlags e.fl).cs = 1 := rfl
  rw [hsf]
  unfold isWordCharAt
  generalize hq : e.start + bm = q at hbb
  by_cases h0 : q = 0
  · subst h0
    have c1 : decide (((0:Nat):Int) - ((1:Nat):Int) ≥ 0) = false := by simp
    have c4 : decide (1 ≤ 0) = false := by simp
    rw [c1, c4]
    simp
    congr 1
    apply decide_eq_decide.2
    omega
  · have h1 : 1 ≤ q := by omega
    have e1 : ((q : Int) - ((1:Nat):Int)) = ((q - 1 : Nat) : Int) := by omega
    simp only [e1]
    have c1 : decide ((((q - 1 : Nat) : Int)) + ((1:Nat):Int) ≤ (e.buf.size : Int)) = true := by simp; omega
    have c2 : decide ((((q - 1 : Nat) : Int)) ≥ 0) = true := by simp
    have c3 : decide (q - 1 < e.buf.size) = true := by simp; omega
    have c4 : decide (1 ≤ q) = true := by simp; omega
    rw [c1, c2, c3, c4]
    by_cases h2 : q < e.buf.size
    · have d1 : decide ((q : Int) + ((1:Nat):Int) ≤ (e.buf.size : Int)) = true := by simp; omega
      have d2 : decide ((q : Int) ≥ 0) = true := by simp
      have d3 : decide (q < e.buf.size) = true := by simp; omega
      rw [d1, d2, d3]
      simp
    · have d1 : decide ((q : Int) + ((1:Nat):Int) ≤ (e.buf.size : Int)) = false := by simp; omega
      have d3 : decide (q < e.buf.size) = false := by simp; omega
      rw [d1, d3]
      simp

theorem zw_nonboundary (e : Env) (bm : Nat) : zeroWidthOk e bm OP_NON_WORD_BOUNDARY = !zeroWidthOk e bm OP_WORD_BOUNDARY := by
  unfold zeroWidthOk
  simp [OP_WORD_BOUNDARY, OP_NON_WORD_BOUNDARY]

theorem zw_split_false (e : Env) (bm : Nat) {op : Nat} (h : op = OP_SPLIT_A ∨ op = OP_SPLIT_B ∨ op = OP_JUMP) : zeroWidthOk e bm op = false := by
  rcases h with h | h | h <;> subst h <;>
    simp [zeroWidthOk, OP_SPLIT_A, OP_SPLIT_B, OP_JUMP, OP_WORD_BOUNDARY, OP_NON_WORD_BOUNDARY, OP_MATCH_AT_START, OP_MATCH_AT_END]

theorem advance_ip {code : Code} {f : Fiber} {op : Nat} (hop : u8 code f.ip = op)
    (hn : ¬ (op = OP_REPEAT_ANY_GREEDY ∨ op = OP_REPEAT_ANY_UNGREEDY)) : advance code f = { f with ip := f.ip + sizeOfInstr op } := by
  unfold advance
  rw [hop, if_neg hn]

theorem consume_anyrep {e : Env} (h : FwdByte e) {bm : Nat} {f : Fiber}
    (hop : u8 e.code f.ip = OP_REPEAT_ANY_GREEDY ∨ u8 e.code f.ip = OP_REPEAT_ANY_UNGREEDY) (hc : consumeOk e bm f = true) :
    e.start + bm + 1 ∈ step (specFlags e.fl) e.buf (testAny (specFlags e.fl)) (e.start + bm) := by
  have hq := consume_in_buf h hc
  have ht := consumeTest_of h hc
  rw [mem_step]
  refine ⟨?_, by rw [specFlags_cs]⟩
  apply charOk_of rfl hq
  unfold consumeTest at ht
  have : (u8 e.code f.ip = OP_ANY ∨ u8 e.code f.ip = OP_REPEAT_ANY_GREEDY ∨ u8 e.code f.ip = OP_REPEAT_ANY_UNGREEDY) := .inr hop
  simp only [this, if_true] at ht
  unfold testAny specFlags
  exact ht

theorem rc0_neg : rc0 (-1) = 0 := by simp [rc0]
theorem rc0_natCast (n : Nat) : rc0 ((n : Nat) : Int) = n := by
  unfold rc0
  have : ¬ ((n : Int) = -1) := by omega
  rw [if_neg this]; omega
theorem rc0_pos {k : Int} (h : 1 ≤ k) : ((rc0 k : Nat) : Int) = k := by
  unfold rc0
  have : ¬ k = -1 := by omega
  rw [if_neg this]; omega

theorem no_estep_match {code : Code} {f g : Fiber} (h : EStep code f g) (hop : u8 code f.ip = OP_MATCH) : False := by
  cases h <;> rename_i h1 <;>
    simp only [OP_MATCH, OP_SPLIT_A, OP_SPLIT_B, OP_JUMP, OP_REPEAT_START_GREEDY, OP_REPEAT_START_UNGREEDY, OP_REPEAT_END_GREEDY,
      OP_REPEAT_END_UNGREEDY, OP_REPEAT_ANY_GREEDY, OP_REPEAT_ANY_UNGREEDY] at * <;> omega

theorem match_not_any {op : Nat} (h : op = OP_MATCH) : ¬ (op = OP_REPEAT_ANY_GREEDY ∨ op = OP_REPEAT_ANY_UNGREEDY) := by
  subst h; simp [OP_MATCH, OP_REPEAT_ANY_GREEDY, OP_REPEAT_ANY_UNGREEDY]

/-- a valid state at an instruction that is not a REPEAT_ANY is in `run` mode -/
theorem maxBytes_le {e : Env} (h : FwdByte e) : e.start + e.maxBytes ≤ e.buf.size := by
  have hs := h.startIn
  unfold Env.maxBytes
  simp only [h.notBack, Bool.false_eq_true, if_false, cs_one h, Nat.mod_one, Nat.sub_zero]
  unfold Env.fwdSize
  omega

/-! ### the emitted bytes decode to a segment -/
/-- `code` contains the byte list `bs` at address `a` -/
def Sub (code : Code) (a : Nat) (bs : List UInt8) : Prop := ∀ i, i < bs.length → u8 code (a + i) = (bs[i]?.getD 0).toNat

theorem sub_append {code : Code} {a : Nat} {x y : List UInt8} (h : Sub code a (x ++ y)) : Sub code a x ∧ Sub code (a + x.length) y := by
  constructor
  · intro i hi
    have := h i (by simp; omega)
    rwa [List.getElem?_append_left hi] at this
  · intro i hi
    have := h (x.length + i) (by simp; omega)
    rw [List.getElem?_append_right (by omega)] at this
    have e1 : x.length + i - x.length = i := by omega
    rw [e1, ← Nat.add_assoc] at this
    exact this

theorem sub_whole (bs : List UInt8) : Sub bs.toArray 0 bs := by
  intro i _
  simp [u8]

theorem leI16_length (i : Int) : (leI16 i).length = 2 := by simp [leI16, le16]

theorem i16_of_bytes {code : Code} {a n : Nat} (hn : n < 32768) (h0 : u8 code a = n % 256) (h1 : u8 code (a + 1) = n / 256 % 256) :
    i16 code a = (n : Int) := by
  unfold i16 u16
  rw [h0, h1]
  have : n % 256 + 256 * (n / 256 % 256) = n := by omega
  simp only [this]
  have : ¬ n ≥ 32768 := by omega
  simp [this]

theorem sub_leI16 {code : Code} {a n : Nat} (hn : n < 32768) (h : Sub code a (leI16 (n : Int))) : i16 code a = (n : Int) := by
  have e : leI16 (n : Int) = [UInt8.ofNat (n % 256), UInt8.ofNat (n / 256 % 256)] := by
    unfold leI16 le16
    have : ((n : Int) % 65536).toNat = n := by omega
    rw [this]
  rw [e] at h
  have h0 := h 0 (by simp)
  have h1 := h 1 (by simp)
  simp only [Nat.add_zero, List.getElem?_cons_zero, Option.getD_some, List.getElem?_cons_succ] at h0 h1
  apply i16_of_bytes hn
  · rw [h0]; simp
  · rw [h1]; simp

theorem sub_leI16_neg {code : Code} {a n : Nat} (hn : 0 < n) (hn2 : n ≤ 32768) (h : Sub code a (leI16 (-(n : Int)))) :
    i16 code a = -(n : Int) := by
  have e : leI16 (-(n : Int)) = [UInt8.ofNat ((65536 - n) % 256), UInt8.ofNat ((65536 - n) / 256 % 256)] := by
    unfold leI16 le16
    have : ((-(n : Int)) % 65536).toNat = 65536 - n := by omega
    rw [this]
  rw [e] at h
  have h0 := h 0 (by simp)
  have h1 := h 1 (by simp)
  simp only [Nat.add_zero, List.getElem?_cons_zero, Option.getD_some, List.getElem?_cons_succ] at h0 h1
  have t0 : (UInt8.ofNat ((65536 - n) % 256)).toNat = (65536 - n) % 256 := by simp
  have t1 : (UInt8.ofNat ((65536 - n) / 256 % 256)).toNat = (65536 - n) / 256 % 256 := by simp
  unfold i16 u16
  rw [h0, h1, t0, t1]
  have e3 : (65536 - n) % 256 + 256 * ((65536 - n) / 256 % 256) = 65536 - n := by omega
  rw [e3]
  have : 65536 - n ≥ 32768 := by omega
  simp only [this, if_true]
  omega


end YaraModel.ReEmit
