/-
  Invariant of the output-mutex model (Model/CliOutput.lean): while every print happens inside a block,
  the chunks of each block are adjacent in the stream.
-/
import YaraModel.Model.CliOutput
import YaraModel.Lemmas.QueueStep
namespace YaraModel.CliOut
open YaraModel.Queue (getElem?_set_cases)
variable {χ : Type}

structure Inv (s : St χ) : Prop where
  L : ∀ (i : Nat) (th : Th χ), s.ths[i]? = some th → (th.inside.isSome = true ↔ s.lock = some i)
  B : ∀ e ∈ s.out, ∃ k, e.blk = some k ∧ ∀ (th : Th χ), s.ths[e.tid]? = some th → k < th.next
  D : ∀ (i : Nat) (th : Th χ) (k : Nat) (r : List χ), s.ths[i]? = some th → th.inside = some (k, r) →
        k + 1 = th.next ∧ ∃ l1 seg, s.out = l1 ++ seg ∧ (∀ e ∈ seg, tagIs i k e) ∧ (∀ e ∈ l1, ¬ tagIs i k e)
  C : ∀ (i k : Nat), Contig i k s.out
  N : ∀ th ∈ s.ths, ∀ it ∈ th.prog, ∃ cs, it = Item.block cs

theorem inv_init (progs : List (List (Item χ))) (hn : NoLoose progs) : Inv (init progs) := by
  constructor
  · intro i th h
    simp only [init, List.getElem?_map] at h
    cases hp : progs[i]? with
    | none => simp [hp] at h
    | some p => simp [hp] at h; subst h; simp [init]
  · intro e he; simp [init] at he
  · intro i th k r h hin
    simp only [init, List.getElem?_map] at h
    cases hp : progs[i]? with
    | none => simp [hp] at h
    | some p => simp [hp] at h; subst h; simp at hin
  · intro i k; exact ⟨[], [], [], by simp [init], by simp, by simp, by simp⟩
  · intro th hth it hit
    simp only [init, List.mem_map] at hth
    obtain ⟨p, hp, rfl⟩ := hth
    exact hn p hp it hit

theorem inv_step {s s' : St χ} (h : Inv s) (a : Act) (hs : step s a = some s') : Inv s' := by
  cases a with
  | lock i =>
    simp only [step] at hs
    split at hs
    · next k cs rest hi hl =>
      cases hs
      constructor
      · intro j th hj; dsimp only at hj ⊢
        rcases getElem?_set_cases hj with ⟨e1, e2⟩ | ⟨hne, hj'⟩
        · subst e1 e2; simp
        · have := h.L j th hj'; rw [hl] at this
          have hf : th.inside.isSome = false := by simpa using this
          simp [hf, hne.symm]
      · intro e he; dsimp only at he ⊢
        obtain ⟨ke, hke, hlt⟩ := h.B e he
        refine ⟨ke, hke, ?_⟩
        intro th hth
        rcases getElem?_set_cases hth with ⟨e1, e2⟩ | ⟨hne, hj'⟩
        · subst e2; have := hlt _ (e1 ▸ hi); simp at this ⊢; omega
        · exact hlt th hj'
      · intro j th k' r hj hin; dsimp only at hj ⊢
        rcases getElem?_set_cases hj with ⟨e1, e2⟩ | ⟨hne, hj'⟩
        · subst e1 e2
          simp only [Option.some.injEq, Prod.mk.injEq] at hin
          obtain ⟨rfl, rfl⟩ := hin
          refine ⟨rfl, s.out, [], by simp, by simp, ?_⟩
          intro e he ht
          obtain ⟨ke, hke, hlt⟩ := h.B e he
          have := hlt _ (ht.1 ▸ hi)
          rw [ht.2] at hke; cases hke
          simp at this
        · have := (h.L j th hj').1 (by rw [hin]; rfl)
          rw [hl] at this; cases this
      · exact h.C
      · intro th hth it hit; dsimp only at hth
        rcases List.mem_or_eq_of_mem_set hth with hm | rfl
        · exact h.N th hm it hit
        · exact h.N _ (List.mem_of_getElem? hi) it (by simp [hit])
    · simp at hs
  | print i =>
    simp only [step] at hs
    split at hs
    · next k ch r n p hi =>
      cases hs
      have hD := h.D i _ k (ch :: r) hi rfl
      have hLi : s.lock = some i := (h.L i _ hi).1 rfl
      constructor
      · intro j th hj; dsimp only at hj ⊢
        rcases getElem?_set_cases hj with ⟨e1, e2⟩ | ⟨hne, hj'⟩
        · subst e1 e2; simp [hLi]
        · exact h.L j th hj'
      · intro e he; dsimp only at he ⊢
        rw [List.mem_append] at he
        rcases he with he | he
        · obtain ⟨ke, hke, hlt⟩ := h.B e he
          refine ⟨ke, hke, ?_⟩
          intro th hth
          rcases getElem?_set_cases hth with ⟨e1, e2⟩ | ⟨hne, hj'⟩
          · subst e2; have := hlt _ (e1 ▸ hi); simpa using this
          · exact hlt th hj'
        · simp only [List.mem_singleton] at he; subst he
          refine ⟨k, rfl, ?_⟩
          intro th hth; dsimp only at hth
          rcases getElem?_set_cases hth with ⟨_, e2⟩ | ⟨hne, _⟩
          · subst e2; have := hD.1; simp at this ⊢; omega
          · exact absurd rfl hne
      · intro j th k' r' hj hin; dsimp only at hj ⊢
        rcases getElem?_set_cases hj with ⟨e1, e2⟩ | ⟨hne, hj'⟩
        · subst e1 e2
          simp only [Option.some.injEq, Prod.mk.injEq] at hin
          obtain ⟨rfl, rfl⟩ := hin
          obtain ⟨hk, l1, seg, ho, hseg, hl1⟩ := hD
          refine ⟨hk, l1, seg ++ [⟨j, some k, ch⟩], by rw [ho]; simp, ?_, hl1⟩
          intro e he
          rw [List.mem_append] at he
          rcases he with he | he
          · exact hseg e he
          · simp only [List.mem_singleton] at he; subst he; exact ⟨rfl, rfl⟩
        · have := (h.L j th hj').1 (by rw [hin]; rfl)
          rw [hLi] at this; simp at this; exact absurd this.symm hne
      · intro i' k'; dsimp only
        by_cases hik : i' = i ∧ k' = k
        · obtain ⟨rfl, rfl⟩ := hik
          obtain ⟨_, l1, seg, ho, hseg, hl1⟩ := hD
          refine ⟨l1, seg ++ [⟨i', some k', ch⟩], [], by rw [ho]; simp, ?_, hl1, by simp⟩
          intro e he
          rw [List.mem_append] at he
          rcases he with he | he
          · exact hseg e he
          · simp only [List.mem_singleton] at he; subst he; exact ⟨rfl, rfl⟩
        · obtain ⟨l1, seg, l2, ho, hseg, hl1, hl2⟩ := h.C i' k'
          refine ⟨l1, seg, l2 ++ [⟨i, some k, ch⟩], by rw [ho]; simp, hseg, hl1, ?_⟩
          intro e he
          rw [List.mem_append] at he
          rcases he with he | he
          · exact hl2 e he
          · simp only [List.mem_singleton] at he; subst he
            intro ht; apply hik
            exact ⟨ht.1.symm, by have := ht.2; simp at this; exact this.symm⟩
      · intro th hth it hit; dsimp only at hth
        rcases List.mem_or_eq_of_mem_set hth with hm | rfl
        · exact h.N th hm it hit
        · exact h.N _ (List.mem_of_getElem? hi) it hit
    · simp at hs
  | unlock i =>
    simp only [step] at hs
    split at hs
    · next k n p hi =>
      cases hs
      have hLi : s.lock = some i := (h.L i _ hi).1 rfl
      constructor
      · intro j th hj; dsimp only at hj ⊢
        rcases getElem?_set_cases hj with ⟨e1, e2⟩ | ⟨hne, hj'⟩
        · subst e1 e2; simp
        · have := h.L j th hj'; rw [hLi] at this
          simp only [Option.some.injEq, hne.symm, iff_false] at this
          simp [this]
      · intro e he; dsimp only at he ⊢
        obtain ⟨ke, hke, hlt⟩ := h.B e he
        refine ⟨ke, hke, ?_⟩
        intro th hth
        rcases getElem?_set_cases hth with ⟨e1, e2⟩ | ⟨hne, hj'⟩
        · subst e2; have := hlt _ (e1 ▸ hi); simpa using this
        · exact hlt th hj'
      · intro j th k' r' hj hin; dsimp only at hj ⊢
        rcases getElem?_set_cases hj with ⟨e1, e2⟩ | ⟨hne, hj'⟩
        · subst e2; simp at hin
        · have := (h.L j th hj').1 (by rw [hin]; rfl)
          rw [hLi] at this; simp at this; exact absurd this.symm hne
      · exact h.C
      · intro th hth it hit; dsimp only at hth
        rcases List.mem_or_eq_of_mem_set hth with hm | rfl
        · exact h.N th hm it hit
        · exact h.N _ (List.mem_of_getElem? hi) it hit
    · simp at hs
  | loose i =>
    simp only [step] at hs
    split at hs
    · next n ch rest hi =>
      exfalso
      obtain ⟨cs, hcs⟩ := h.N _ (List.mem_of_getElem? hi) (.loose ch) (by simp)
      cases hcs
    · simp at hs

theorem inv_reachable {progs : List (List (Item χ))} {s : St χ} (hn : NoLoose progs) (hr : Reachable progs s) : Inv s := by
  induction hr with
  | init => exact inv_init progs hn
  | step a _ hs ih => exact inv_step ih a hs

end YaraModel.CliOut
