/-
  Progress of the file-queue model (D11): deadlock freedom and a measure that every step decreases.
-/
import YaraModel.Lemmas.QueueStep
namespace YaraModel.Queue
variable {α : Type}

/-! ### who is blocked in a state without enabled action -/

theorem prod_blocked {c : Cfg} {s : State α} (hne : ¬ Enabled c s) :
    (s.ppc = .idle ∧ s.todo ≠ [] ∧ s.unused = 0) ∨ (∃ x, s.ppc = .wantLock x ∧ s.lock ≠ none) ∨ s.ppc = .done := by
  cases hp : s.ppc with
  | idle =>
    cases ht : s.todo with
    | nil => exact absurd ⟨.pFinishBegin, by simp [step, hp, ht]⟩ hne
    | cons x rest =>
      by_cases hu : 0 < s.unused
      · exact absurd ⟨.pWait, by simp [step, hp, ht, hu]⟩ hne
      · exact Or.inl ⟨rfl, by simp, by omega⟩
  | wantLock x =>
    cases hl : s.lock with
    | none => exact absurd ⟨.pLock, by simp [step, hp, hl]⟩ hne
    | some t => exact Or.inr (Or.inl ⟨x, rfl, by simp⟩)
  | locked x => exact absurd ⟨.pWrite, by simp [step, hp]⟩ hne
  | wrote x => exact absurd ⟨.pAdvTail, by simp [step, hp]⟩ hne
  | advanced => exact absurd ⟨.pUnlock, by simp [step, hp]⟩ hne
  | unlocked => exact absurd ⟨.pPost, by simp [step, hp]⟩ hne
  | finishing k =>
    cases k with
    | zero => exact absurd ⟨.pFinishEnd, by simp [step, hp]⟩ hne
    | succ k => exact absurd ⟨.pFinishPost, by simp [step, hp]⟩ hne
  | done => exact Or.inr (Or.inr rfl)

theorem cons_blocked {c : Cfg} {s : State α} (hne : ¬ Enabled c s) (i : Nat) (pc : CPc α) (hi : s.cs[i]? = some pc) :
    (pc = .idle ∧ s.used = 0) ∨ (pc = .wantLock ∧ s.lock ≠ none) ∨ pc = .exited := by
  cases pc with
  | idle =>
    by_cases hu : 0 < s.used
    · exact absurd ⟨.cWait i, by simp [step, hi, hu]⟩ hne
    · exact Or.inl ⟨rfl, by omega⟩
  | wantLock =>
    cases hl : s.lock with
    | none => exact absurd ⟨.cLock i, by simp [step, hi, hl]⟩ hne
    | some t => exact Or.inr (Or.inl ⟨rfl, by simp⟩)
  | locked =>
    by_cases he : s.head = s.tail
    · exact absurd ⟨.cTest i, by simp [step, hi, he]⟩ hne
    · exact absurd ⟨.cTest i, by simp [step, hi, he]⟩ hne
  | reading => exact absurd ⟨.cRead i, by simp [step, hi]⟩ hne
  | haveRead r => exact absurd ⟨.cAdvHead i, by simp [step, hi]⟩ hne
  | advanced r => exact absurd ⟨.cUnlock i, by simp [step, hi]⟩ hne
  | unlocked r => exact absurd ⟨.cPost i, by simp [step, hi]⟩ hne
  | returned r =>
    cases r with
    | none => exact absurd ⟨.cReturn i, by simp [step, hi]⟩ hne
    | some x => exact absurd ⟨.cReturn i, by simp [step, hi]⟩ hne
  | exited => exact Or.inr (Or.inr rfl)

theorem au_le_one (pc : CPc α) : au pc ≤ 1 := by
  cases pc with
  | advanced r => cases r <;> simp [au]
  | unlocked r => cases r <;> simp [au]
  | returned r => cases r <;> simp [au]
  | _ => simp [au]

/-- Deadlock freedom, from the invariant. -/
theorem enabled_of_inv {c : Cfg} {n : Nat} {input : List α} {s : State α} (hc : c.WF) (hn : 1 ≤ n) (hnl : n ≤ c.threadLimit)
    (h : Inv c n input s) (hf : ¬ Final s) : Enabled c s := by
  apply Classical.byContradiction
  intro hne
  have hP := prod_blocked hne
  have hC := cons_blocked hne
  -- nobody holds the mutex
  have hlock : s.lock = none := by
    cases hl : s.lock with
    | none => rfl
    | some t =>
      exfalso
      cases t with
      | prod =>
        have hcrit := h.lockP.2 hl
        rcases hP with ⟨hp, _, _⟩ | ⟨x, hp, _⟩ | hp <;> simp [hp, pCrit] at hcrit
      | cons i =>
        have hi := h.lockR i hl
        have hi' : s.cs[i]? = some s.cs[i] := List.getElem?_eq_getElem hi
        have hcrit := (h.lockC i _ hi').2 hl
        rcases hC i _ hi' with ⟨hp, _⟩ | ⟨hp, _⟩ | hp <;> simp [hp, cCrit] at hcrit
  have hC' : ∀ (i : Nat) (pc : CPc α), s.cs[i]? = some pc → (pc = .idle ∧ s.used = 0) ∨ pc = .exited := by
    intro i pc hi
    rcases hC i pc hi with h1 | ⟨_, h2⟩ | h3
    · exact Or.inl h1
    · exact absurd hlock h2
    · exact Or.inr h3
  rcases hP with ⟨hp, ht, hu⟩ | ⟨x, _, h2⟩ | hp
  · -- producer waits for a free slot: the queue is full, so a consumer can take a token
    have hfin : pFin s.ppc = false := by rw [hp]; rfl
    have hex := ex_zero_of_notFin h hfin
    have hidle : ∀ x ∈ s.cs, x = CPc.idle := by
      intro x hx
      obtain ⟨i, hi, rfl⟩ := List.getElem_of_mem hx
      have hi' : s.cs[i]? = some s.cs[i] := List.getElem?_eq_getElem hi
      rcases hC' i _ hi' with ⟨h1, _⟩ | h3
      · exact h1
      · have := (h.seenEmpty i _ hi' (by rw [h3]; rfl)).2
        rw [hfin] at this; cases this
    have ho : wsum owes s.cs = 0 := wsum_eq_zero _ _ (fun x hx => by rw [hidle x hx]; rfl)
    have ha : wsum au s.cs = 0 := wsum_eq_zero _ _ (fun x hx => by rw [hidle x hx]; rfl)
    have h0 : 0 < s.cs.length := by rw [h.len]; omega
    have hi0 : s.cs[0]? = some s.cs[0] := List.getElem?_eq_getElem h0
    have hused : s.used = 0 := by
      rcases hC' 0 _ hi0 with ⟨_, h1⟩ | h3
      · exact h1
      · have := hidle _ (List.getElem_mem h0); rw [this] at h3; cases h3
    have e1 := h.unusedEq; have e2 := h.usedEq; have := hc.cap_pos
    simp only [hp, pHold, pPend, posted] at e1 e2
    omega
  · exact h2 hlock
  · -- producer is done: a consumer that has not exited finds a finish token
    have hex : ∃ pc ∈ s.cs, pc ≠ CPc.exited := by
      apply Classical.byContradiction
      intro hno
      apply hf
      refine ⟨hp, fun pc hpc => ?_⟩
      apply Classical.byContradiction
      intro hx
      exact hno ⟨pc, hpc, hx⟩
    obtain ⟨pc, hpc, hx⟩ := hex
    obtain ⟨i, hi, rfl⟩ := List.getElem_of_mem hpc
    have hi' : s.cs[i]? = some s.cs[i] := List.getElem?_eq_getElem hi
    rcases hC' i _ hi' with ⟨h1, hu⟩ | h3
    · have hlt := wsum_lt_length au s.cs au_le_one i _ hi' (by rw [h1]; rfl)
      have e2 := h.usedEq; have := hc.limit_le; have := h.len
      simp only [hp, pPend, posted] at e2
      omega
    · exact hx h3

/-! ### a measure that every step decreases -/

/-- exact number of steps the producer still has to do, apart from `6 * |todo|` -/
def pbase (c : Cfg) : PPc α → Nat
  | .idle => c.finishPosts + 2
  | .wantLock _ => c.finishPosts + 7
  | .locked _ => c.finishPosts + 6
  | .wrote _ => c.finishPosts + 5
  | .advanced => c.finishPosts + 4
  | .unlocked => c.finishPosts + 3
  | .finishing k => k + 1
  | .done => 0

/-- rank of a consumer inside one iteration of its loop -/
def crank : CPc α → Nat
  | .idle => 8 | .wantLock => 7 | .locked => 6 | .reading => 5 | .haveRead _ => 4
  | .advanced (some _) => 12 | .unlocked (some _) => 11 | .returned (some _) => 10
  | .advanced none => 3 | .unlocked none => 2 | .returned none => 1 | .exited => 0

/-- The termination measure: remaining producer steps + 10 × (paths not yet dequeued) + consumer ranks. -/
def mu (c : Cfg) (s : State α) : Nat :=
  6 * s.todo.length + pbase c s.ppc + 10 * (s.todo.length + (cur s.ppc).length + s.q.length) + wsum crank s.cs

theorem mu_decreases {c : Cfg} {n : Nat} {input : List α} {s s' : State α} (h : Inv c n input s) (a : Act)
    (hs : step c s a = some s') : mu c s' < mu c s := by
  cases a with
  | pWait =>
    simp only [step] at hs; split at hs
    · next x rest hp ht => split at hs
                           · cases hs; simp [mu, hp, ht, pbase, cur]; omega
                           · simp at hs
    · simp at hs
  | pLock =>
    simp only [step] at hs; split at hs
    · next x hp hl => cases hs; simp [mu, hp, pbase, cur]
    · simp at hs
  | pWrite =>
    simp only [step] at hs; split at hs
    · next x hp => cases hs; simp [mu, hp, pbase, cur]
    · simp at hs
  | pAdvTail =>
    simp only [step] at hs; split at hs
    · next x hp => cases hs; simp [mu, hp, pbase, cur]; omega
    · simp at hs
  | pUnlock =>
    simp only [step] at hs; split at hs
    · next hp => cases hs; simp [mu, hp, pbase, cur]
    · simp at hs
  | pPost =>
    simp only [step] at hs; split at hs
    · next hp => cases hs; simp [mu, hp, pbase, cur]
    · simp at hs
  | pFinishBegin =>
    simp only [step] at hs; split at hs
    · next hp ht => cases hs; simp [mu, hp, pbase, cur]
    · simp at hs
  | pFinishPost =>
    simp only [step] at hs; split at hs
    · next k hp => cases hs; simp [mu, hp, pbase, cur]
    · simp at hs
  | pFinishEnd =>
    simp only [step] at hs; split at hs
    · next hp => cases hs; simp [mu, hp, pbase, cur]
    · simp at hs
  | cWait i =>
    simp only [step] at hs; split at hs
    · next hi => split at hs
                 · cases hs; have := wsum_set crank s.cs i _ .wantLock hi; simp only [crank] at this; simp only [mu]; omega
                 · simp at hs
    · simp at hs
  | cLock i =>
    simp only [step] at hs; split at hs
    · next hi hl => cases hs; have := wsum_set crank s.cs i _ .locked hi; simp only [crank] at this; simp only [mu]; omega
    · simp at hs
  | cTest i =>
    simp only [step] at hs; split at hs
    · next hi => split at hs
                 · cases hs; have := wsum_set crank s.cs i _ (.advanced none) hi; simp only [crank] at this; simp only [mu]; omega
                 · cases hs; have := wsum_set crank s.cs i _ .reading hi; simp only [crank] at this; simp only [mu]; omega
    · simp at hs
  | cRead i =>
    simp only [step] at hs; split at hs
    · next hi => cases hs; have := wsum_set crank s.cs i _ (.haveRead (s.ring s.head)) hi; simp only [crank] at this; simp only [mu]; omega
    · simp at hs
  | cAdvHead i =>
    simp only [step] at hs; split at hs
    · next r hi =>
      cases hs
      obtain ⟨x, rest, hq, hr⟩ := h.haveRead i r hi
      subst hr
      have := wsum_set crank s.cs i _ (.advanced (some x)) hi
      simp only [crank] at this
      simp only [mu, hq, List.drop_one, List.tail_cons, List.length_cons]; omega
    · simp at hs
  | cUnlock i =>
    simp only [step] at hs; split at hs
    · next r hi =>
      cases hs
      rcases r with _ | x
      · have := wsum_set crank s.cs i _ (.unlocked none) hi; simp only [crank] at this; simp only [mu]; omega
      · have := wsum_set crank s.cs i _ (.unlocked (some x)) hi; simp only [crank] at this; simp only [mu]; omega
    · simp at hs
  | cPost i =>
    simp only [step] at hs; split at hs
    · next r hi =>
      cases hs
      rcases r with _ | x
      · have := wsum_set crank s.cs i _ (.returned none) hi; simp only [crank] at this; simp only [mu]; omega
      · have := wsum_set crank s.cs i _ (.returned (some x)) hi; simp only [crank] at this; simp only [mu]; omega
    · simp at hs
  | cReturn i =>
    simp only [step] at hs; split at hs
    · next x hi => cases hs; have := wsum_set crank s.cs i _ .idle hi; simp only [crank] at this; simp only [mu]; omega
    · next hi => cases hs; have := wsum_set crank s.cs i _ .exited hi; simp only [crank] at this; simp only [mu]; omega
    · simp at hs

/-- `k` consecutive steps. -/
inductive StepsN (c : Cfg) : Nat → State α → State α → Prop where
  | refl (s : State α) : StepsN c 0 s s
  | cons {k : Nat} {s s' s'' : State α} : Step c s s' → StepsN c k s' s'' → StepsN c (k + 1) s s''

theorem reachable_stepsN {c : Cfg} {n : Nat} {input : List α} {k : Nat} {s s' : State α}
    (hr : Reachable c n input s) (hs : StepsN c k s s') : Reachable c n input s' := by
  induction hs with
  | refl => exact hr
  | cons h1 _ ih => exact ih (Reachable.step hr h1)

theorem stepsN_measure {c : Cfg} {n : Nat} {input : List α} {k : Nat} {s s' : State α} (hc : c.WF)
    (hr : Reachable c n input s) (hs : StepsN c k s s') : k + mu c s' ≤ mu c s := by
  induction hs with
  | refl => omega
  | cons h1 _ ih =>
    obtain ⟨a, ha⟩ := h1
    have := mu_decreases (inv_reachable hc hr) a ha
    have := ih (Reachable.step hr ⟨a, ha⟩)
    omega

theorem reaches_final_aux {c : Cfg} {n : Nat} {input : List α} (hc : c.WF) (hn : 1 ≤ n) (hnl : n ≤ c.threadLimit) :
    ∀ (m : Nat) (s : State α), Reachable c n input s → mu c s ≤ m → ∃ k s', StepsN c k s s' ∧ Final s' := by
  intro m
  induction m with
  | zero =>
    intro s hr hm
    by_cases hf : Final s
    · exact ⟨0, s, .refl s, hf⟩
    · obtain ⟨a, s', ha⟩ := enabled_of_inv hc hn hnl (inv_reachable hc hr) hf
      have := mu_decreases (inv_reachable hc hr) a ha
      omega
  | succ m ih =>
    intro s hr hm
    by_cases hf : Final s
    · exact ⟨0, s, .refl s, hf⟩
    · obtain ⟨a, s', ha⟩ := enabled_of_inv hc hn hnl (inv_reachable hc hr) hf
      have := mu_decreases (inv_reachable hc hr) a ha
      obtain ⟨k, s'', hk, hf''⟩ := ih s' (Reachable.step hr ⟨a, ha⟩) (by omega)
      exact ⟨k + 1, s'', .cons ⟨a, ha⟩ hk, hf''⟩

theorem runActs_reachable {c : Cfg} {n : Nat} {input : List α} (acts : List Act) {s s' : State α}
    (hr : Reachable c n input s) (h : runActs c s acts = some s') : Reachable c n input s' := by
  induction acts generalizing s with
  | nil => simp [runActs] at h; subst h; exact hr
  | cons a as ih =>
    simp only [runActs] at h
    split at h
    · next s1 h1 => exact ih (Reachable.step hr ⟨a, h1⟩) h
    · cases h

/-- one producer, one consumer, one path: a complete schedule (used in the examples) -/
def demoSched (c : Cfg) : List Act :=
  [.pWait, .pLock, .pWrite, .pAdvTail, .pUnlock, .pPost,
   .cWait 0, .cLock 0, .cTest 0, .cRead 0, .cAdvHead 0, .cUnlock 0, .cPost 0, .cReturn 0, .pFinishBegin] ++
  List.replicate c.finishPosts .pFinishPost ++
  [.pFinishEnd, .cWait 0, .cLock 0, .cTest 0, .cUnlock 0, .cPost 0, .cReturn 0]

end YaraModel.Queue
