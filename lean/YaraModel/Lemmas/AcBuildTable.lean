/- Aho-Corasick construction, helper lemmas 12: the whole `_yr_ac_build_transition_table` pass -/
import YaraModel.Lemmas.AcBuildStep
import YaraModel.Lemmas.AcBuildSlots
namespace YaraModel.AC.Build
open YaraModel.Text YaraModel.AC

theorem getD_replicate_zero (n i : Nat) : (Array.replicate n (0 : UInt32)).getD i 0 = 0 := by
  simp only [Array.getD_eq_getD_getElem?, Array.getElem?_replicate]
  split <;> rfl

theorem initRoot_I4 {A0 : Auto} {atoms : List (Nat × Atom)} (hT : Trie A0) (h3 : I3 A0 atoms) (hz0 : (A0.st 0).slot = 0) :
    I4 A0 (initRoot A0) [] := by
  unfold initRoot
  simp only
  generalize hP0 : ({ A := A0, t := Array.replicate 512 0, m := (Array.replicate 512 0).setIfInBounds 0 (UInt32.ofNat (A0.st 0).matchesRef), used := (Array.replicate 512 false).setIfInBounds 0 true, cand := 1, ok := true } : Pack) = P0
  have hA : P0.A = A0 := by rw [← hP0]
  have ht : ∀ i, P0.t.getD i 0 = 0 := by intro i; rw [← hP0]; exact getD_replicate_zero 512 i
  have hts : P0.t.size = 512 := by rw [← hP0]; simp
  have hms : P0.m.size = 512 := by rw [← hP0]; simp
  have hus : P0.used.size = 512 := by rw [← hP0]; simp
  have hm0 : P0.m.getD 0 0 = UInt32.ofNat (A0.st 0).matchesRef := by
    rw [← hP0]; simp only; rw [getD_set]; simp
  have hu : ∀ i, isUsed P0.used i = true ↔ i = 0 := by
    intro i
    rw [← hP0]
    unfold isUsed
    simp only
    rw [getD_set]
    by_cases e : i = 0
    · simp [e]
    · simp [e, Array.getD_eq_getD_getElem?, Array.getElem?_replicate]
      split <;> rfl
  have hok : P0.ok = true := by rw [← hP0]
  obtain ⟨q1, q2, q3, q4, q5, q6, q7, q8, q9, q10⟩ := placeFold_spec 0 (A0.st 0).children P0
  generalize hP' : (A0.st 0).children.foldl (placeChild 0) P0 = P' at q1 q2 q3 q4 q5 q6 q7 q8 q9 q10
  rw [hA] at q5 q6 q7 q8 q9 q10
  simp only [Nat.zero_add, Nat.sub_zero] at q8 q9 q10
  have hK := hT.child_lt 0 hT.size_pos
  have h0K : 0 ∉ (A0.st 0).children := fun hh => by have := hK 0 hh; omega
  have hslot0 : (P'.A.st 0).slot = 0 := by
    rw [q8]
    have : ¬ (0 ∈ (A0.st 0).children ∧ 0 < A0.states.size) := fun hh => h0K hh.1
    rw [if_neg this, hz0]
  have hnopos0 : ¬ (∃ y ∈ (A0.st 0).children, (A0.st y).input.toNat + 1 = 0) := by rintro ⟨y, _, hy⟩; omega
  have hused0 : isUsed P'.used 0 = true := by
    rw [q10]
    have : ¬ ((∃ y ∈ (A0.st 0).children, (A0.st y).input.toNat + 1 = 0) ∧ 0 < P0.used.size) := fun hh => hnopos0 hh.1
    rw [if_neg this]
    exact (hu 0).mpr rfl
  constructor
  · exact ⟨by rw [q1, q3, hms, hts], by rw [q4, q3, hus, hts], by rw [q3, hts]; omega⟩
  · exact q5
  · exact q6
  · exact q7
  · intro x hx hxs
    have hx0 : x = 0 := by rcases hx with hx | hx; exact hx; cases hx
    subst hx0
    rw [hslot0, h3.root_fail, hslot0]
    refine ⟨by rw [q3, hts]; omega, hused0, ?_, ?_, fun hh => absurd rfl hh, fun _ => by omega, Or.inl rfl⟩
    · rw [q9]
      have : ¬ ((∃ y ∈ (A0.st 0).children, (A0.st y).input.toNat + 1 = 0) ∧ 0 < P0.t.size) := fun hh => hnopos0 hh.1
      rw [if_neg this, ht, mk_zero]
    · rw [q1, hm0]
  · exact hslot0
  · intro x y hx hy _ _ _
    have hx0 : x = 0 := by rcases hx with hx | hx; exact hx; cases hx
    have hy0 : y = 0 := by rcases hy with hy | hy; exact hy; cases hy
    rw [hx0, hy0]
  · intro p hp hps y hy
    have hp0 : p = 0 := by rcases hp with hp | hp; exact hp; cases hp
    subst hp0
    rw [hslot0]
    simp only [Nat.zero_add]
    have hlt : (A0.st y).input.toNat + 1 < 512 := by have := u8_lt (A0.st y).input; omega
    refine ⟨?_, ?_, fun _ => ?_⟩
    · rw [q10, if_pos ⟨⟨y, hy, rfl⟩, by rw [hus]; exact hlt⟩]
    · rw [q9, if_pos ⟨⟨y, hy, rfl⟩, by rw [hts]; exact hlt⟩]
      simp
    · rw [q8, if_pos ⟨hy, (hK y hy).2⟩]
  · intro p hp hps c hno
    have hp0 : p = 0 := by rcases hp with hp | hp; exact hp; cases hp
    subst hp0
    rw [hslot0, q9]
    simp only [Nat.zero_add]
    have : ¬ ((∃ y ∈ (A0.st 0).children, (A0.st y).input.toNat + 1 = c.toNat + 1) ∧ c.toNat + 1 < P0.t.size) := by
      rintro ⟨⟨y, hy, hyi⟩, _⟩
      exact hno y hy (toNat_inj_u8 (by omega))
    rw [if_neg this, ht, low9_zero]
    omega
  · intro i hi
    rw [q9]
    split
    · rename_i hc
      rw [q10, hus, ← hts, if_pos hc] at hi
      cases hi
    · exact ht i
  · intro i hi
    rw [q9] at hi ⊢
    split at hi
    · rename_i hc
      rw [if_pos hc]
      obtain ⟨⟨y, hy, hyi⟩, hlt⟩ := hc
      rw [hts] at hlt
      rw [low9_mkT _ _ hlt]
      refine ⟨Nat.le_refl _, ?_⟩
      rw [Nat.sub_self]; exact hused0
    · rw [ht, low9_zero] at hi; omega

theorem packStep_noslot (P : Pack) (s : Nat) : ∀ j, noslot ((packStep P s).A.st j) = noslot (P.A.st j) := by
  intro j
  unfold packStep
  simp only
  have hfs : (findSlot P s).1.A = P.A := by
    unfold findSlot; simp only; split <;> rfl
  obtain ⟨_, _, _, _, _, _, q7, _⟩ := placeFold_spec (findSlot P s).2
    ((({ (findSlot P s).1 with
      t := ((findSlot P s).1.t.setIfInBounds ((findSlot P s).1.A.st s).slot
              ((findSlot P s).1.t.getD ((findSlot P s).1.A.st s).slot 0 ||| (UInt32.ofNat (findSlot P s).2 <<< 9))).setIfInBounds (findSlot P s).2
             (mkTransition ((findSlot P s).1.A.st ((findSlot P s).1.A.st s).failure).slot 0),
      m := (findSlot P s).1.m.setIfInBounds (findSlot P s).2 (UInt32.ofNat ((findSlot P s).1.A.st s).matchesRef),
      A := (findSlot P s).1.A.modify s fun x => { x with slot := (findSlot P s).2 },
      used := (findSlot P s).1.used.setIfInBounds (findSlot P s).2 true } : Pack).A.st s).children)
    ({ (findSlot P s).1 with
      t := ((findSlot P s).1.t.setIfInBounds ((findSlot P s).1.A.st s).slot
              ((findSlot P s).1.t.getD ((findSlot P s).1.A.st s).slot 0 ||| (UInt32.ofNat (findSlot P s).2 <<< 9))).setIfInBounds (findSlot P s).2
             (mkTransition ((findSlot P s).1.A.st ((findSlot P s).1.A.st s).failure).slot 0),
      m := (findSlot P s).1.m.setIfInBounds (findSlot P s).2 (UInt32.ofNat ((findSlot P s).1.A.st s).matchesRef),
      A := (findSlot P s).1.A.modify s fun x => { x with slot := (findSlot P s).2 },
      used := (findSlot P s).1.used.setIfInBounds (findSlot P s).2 true } : Pack)
  rw [q7 j]
  simp only
  rw [hfs, st_modify]
  split
  · rename_i e; rw [e.1]; rfl
  · rfl

/-- **`_yr_ac_build_transition_table`**: the packing invariant holds with every state popped -/
theorem buildTransitionTable_I4 {A0 : Auto} {atoms : List (Nat × Atom)} (hT : Trie A0) (h3 : I3 A0 atoms) (hz0 : (A0.st 0).slot = 0) :
    ∃ ord, OrderOK A0 ord ∧ I4 A0 (buildTransitionTable A0) ord := by
  have hinit := initRoot_I4 hT h3 hz0
  unfold buildTransitionTable
  simp only
  rw [bfs_eq_foldl (fun (P : Pack) s => kids P.A s) packStep
    (fun P s t => noslot_children (packStep_noslot P s t))]
  have hk : (fun s => kids (initRoot A0).A s) = kids A0 := by
    funext s
    exact noslot_children (hinit.frame s)
  rw [hk]
  have ho := order_ok hT
  have hq : (A0.st 0).children = kids A0 0 := rfl
  rw [hq]
  generalize order (kids A0) A0.states.size (kids A0 0) = ord at ho
  refine ⟨ord, ho, ?_⟩
  apply foldl_inv_prefix packStep (fun pre P => I4 A0 P pre) ord ord [] (initRoot A0) rfl hinit
  intro pre cur post P hl hP
  have hcm : cur ∈ ord := by rw [hl]; simp
  have hcr := ho.range cur hcm
  have hnd := ho.nodup
  rw [hl, List.nodup_append] at hnd
  have hsn : cur ∉ pre := fun hh => hnd.2.2 cur hh cur List.mem_cons_self rfl
  -- the parent
  have hpar := parent_before hT ho hl cur hcr.1 hcr.2 (Nat.le_refl _)
  obtain ⟨f1, f2, _⟩ := h3.fail cur hcr.1 hcr.2
  have hfs : (A0.st cur).failure = 0 ∨ (A0.st cur).failure ∈ pre := by
    by_cases e : (A0.st cur).failure = 0
    · exact Or.inl e
    · exact Or.inr (before_of_depth_lt ho hl _ (by omega) f1 f2)
  have hkn : ∀ y ∈ (A0.st cur).children, y ∉ pre := by
    intro y hy hyp
    have hs := ho.sorted
    rw [hl, List.pairwise_append] at hs
    have := hs.2.2 y hyp cur List.mem_cons_self
    rw [hT.depth_child hcr.2 hy] at this
    omega
  rcases hpar with hpar | ⟨p, hp, hpar⟩
  · exact packStep_I4 hT hP hcr hsn ⟨Or.inl rfl, hT.size_pos⟩ hpar hfs f1 hkn
  · have hpr := ho.range p (by rw [hl]; exact List.mem_append_left _ hp)
    exact packStep_I4 hT hP hcr hsn ⟨Or.inr hp, hpr.2⟩ hpar hfs f1 hkn

end YaraModel.AC.Build
