/- load (save a): the loader rebuilds the buffers, converts every reference back to a pointer and
   registers it; the result has the same abstract content. -/
import YaraModel.Lemmas.ArenaSave
namespace YaraModel.Arena
open YaraModel.Gen.ArenaLayout

/-- the buffers the loader builds from the bodies `ds` of an image (buffer `i + k` at `alloc (i + k)`) -/
def loadedBufs (alloc : Nat → Nat) : Nat → List Bytes → List Buf
  | _, [] => []
  | i, d :: t =>
    (if d.length = 0 then {} else { data := d, cap := newCap loadInitialSize 0 0 d.length, base := alloc i, dirty := true })
      :: loadedBufs alloc (i + 1) t

theorem readBodies_full (alloc : Nat → Nat) (ds : List Bytes) (hs : ∀ d ∈ ds, d.length ≤ 2 ^ 31) (tail : Bytes) (i : Nat) :
    readBodies alloc i (ds.map (·.length)) (ds.flatten ++ tail) = .ok (loadedBufs alloc i ds, tail) := by
  induction ds generalizing i with
  | nil => simp [readBodies, loadedBufs]
  | cons d t ih =>
    have hst : ∀ d ∈ t, d.length ≤ 2 ^ 31 := fun x hx => hs x (List.mem_cons_of_mem _ hx)
    simp only [List.map_cons, readBodies, loadedBufs]
    by_cases hz : d.length = 0
    · have hd : d = [] := List.eq_nil_of_length_eq_zero hz
      subst hd
      simp only [List.length_nil, if_true, List.flatten_cons, List.nil_append]
      rw [ih hst]; rfl
    · rw [if_neg hz, if_neg (newCap_load_ok (hs d (List.mem_cons_self ..))), if_neg hz]
      simp only [List.flatten_cons, List.append_assoc]
      have hlen : ¬ (d ++ (t.flatten ++ tail)).length < d.length := by rw [List.length_append]; omega
      rw [if_neg hlen, drop_append_len rfl, take_append_len rfl, ih hst]; rfl

theorem loadedBufs_length (alloc : Nat → Nat) (i : Nat) (ds : List Bytes) : (loadedBufs alloc i ds).length = ds.length := by
  induction ds generalizing i with
  | nil => rfl
  | cons d t ih => simp [loadedBufs, ih]

theorem loadedBufs_getD (alloc : Nat → Nat) (i : Nat) (ds : List Bytes) (j : Nat) (hj : j < ds.length) :
    (loadedBufs alloc i ds).getD j {} =
      if (ds.getD j []).length = 0 then {} else
        { data := ds.getD j [], cap := newCap loadInitialSize 0 0 (ds.getD j []).length, base := alloc (i + j), dirty := true } := by
  induction ds generalizing i j with
  | nil => cases hj
  | cons d t ih =>
    cases j with
    | zero => simp [loadedBufs]
    | succ j =>
      have hj' : j < t.length := by simpa using hj
      simp only [loadedBufs, List.getD_cons_succ]
      rw [ih (i + 1) j hj']
      have : i + 1 + j = i + (j + 1) := by omega
      rw [this]

theorem loadedBufs_data (alloc : Nat → Nat) (i : Nat) (ds : List Bytes) : (loadedBufs alloc i ds).map (·.data) = ds := by
  induction ds generalizing i with
  | nil => rfl
  | cons d t ih =>
    simp only [loadedBufs, List.map_cons, ih]
    by_cases hz : d.length = 0
    · have : d = [] := List.eq_nil_of_length_eq_zero hz
      subst this; simp
    · simp [hz]

/-! ### the relocation loop on a complete, valid relocation section -/

/-- a reference as the saver writes it: null, or (buffer, offset) of a used byte, both encodable -/
def GoodRef (bufs : List Buf) (x : Option Ref) : Prop :=
  x = none ∨ ∃ t, x = some t ∧ t.buf < bufs.length ∧ t.buf < 2 ^ 32 - 1 ∧ t.off < (bufs.getD t.buf {}).data.length ∧ t.off < 2 ^ 32

theorem applyRelocs_step (cfg : LoaderCfg) (a : Arena) (b0 b1 b2 b3 b4 b5 b6 b7 : UInt8) (rest : Bytes) (r : Ref) (p : Nat)
    (hd : decRef (leVal [b0, b1, b2, b3, b4, b5, b6, b7]) = some r)
    (hr : relocRejected cfg a r = false) (hi : InB a r)
    (hf : refRefused cfg a (decRef (getSlot a r)) = false)
    (hp : refToPtr a.bufs (decRef (getSlot a r)) = .ok p) :
    applyRelocs cfg a (b0 :: b1 :: b2 :: b3 :: b4 :: b5 :: b6 :: b7 :: rest) =
      applyRelocs cfg { setSlot a r p with relocs := a.relocs ++ [r] } rest := by
  rw [applyRelocs, hd]
  simp only [hr, hi, hf, hp, Bool.and_false, Bool.false_eq_true, if_false, not_true_eq_false]

theorem withRelocs_setSlot (a : Arena) (R : List Ref) (r : Ref) (v : Nat) :
    setSlot { a with relocs := R } r v = { setSlot a r v with relocs := R } := rfl

theorem getSlot_withRelocs (a : Arena) (R : List Ref) (r : Ref) : getSlot { a with relocs := R } r = getSlot a r := rfl

theorem mapSlots_withRelocs (φ : Nat → Nat) (rs : List Ref) (a : Arena) (R : List Ref) :
    mapSlots φ rs { a with relocs := R } = { mapSlots φ rs a with relocs := R } := by
  induction rs generalizing a with
  | nil => simp only [mapSlots_nil]
  | cons r t ih => simp only [mapSlots_cons, getSlot_withRelocs, withRelocs_setSlot, ih]

theorem goodRef_ok {bufs : List Buf} {x : Option Ref} (h : GoodRef bufs x) :
    decRef (encRef x) = x ∧ ∃ p, refToPtr bufs x = .ok p := by
  rcases h with rfl | ⟨t, rfl, hb, hb2, ho, ho2⟩
  · exact ⟨decRef_encRef_none, 0, rfl⟩
  · exact ⟨decRef_encRef_some hb2 ho2, _, refToPtr_some hb (Nat.le_of_lt ho)⟩

theorem goodRef_not_refused (cfg : LoaderCfg) {a : Arena} {x : Option Ref} (h : GoodRef a.bufs x) : refRefused cfg a x = false := by
  rcases h with rfl | ⟨t, rfl, hb, _, ho, _⟩
  · rfl
  · have h1 : decide (t.buf ≥ a.bufs.length) = false := decide_eq_false (by omega)
    have ho' : t.off < (a.bufAt t.buf).data.length := ho
    have h2 : decide (t.off ≥ (a.bufAt t.buf).data.length) = false := decide_eq_false (by omega)
    have h3 : decide (t.off > (a.bufAt t.buf).data.length) = false := decide_eq_false (by omega)
    dsimp only [refRefused]
    rw [h1, h2, h3]
    cases cfg.refStrict <;> rfl

theorem GoodRef.congr {l l' : List Buf} (h : l.map key = l'.map key) {x : Option Ref} (g : GoodRef l x) : GoodRef l' x := by
  have hl : l.length = l'.length := by simpa using congrArg List.length h
  rcases g with rfl | ⟨t, rfl, hb, hb2, ho, ho2⟩
  · exact Or.inl rfl
  · refine Or.inr ⟨t, rfl, by omega, hb2, ?_, ho2⟩
    rw [← (getD_of_keys h t.buf).2]; exact ho

theorem applyRelocs_ok (cfg : LoaderCfg) (rs : List Ref) (A : Arena) (tail : Bytes)
    (hs : SlotsOk A rs)
    (henc : ∀ r ∈ rs, r.buf < 2 ^ 32 - 1 ∧ r.off < 2 ^ 32)
    (hbase : ∀ r ∈ rs, (A.bufAt r.buf).base ≠ 0)
    (hsz : ∀ r ∈ rs, (A.bufAt r.buf).data.length < 2 ^ 64)
    (hv : ∀ r ∈ rs, ∃ x, getSlot A r = encRef x ∧ GoodRef A.bufs x)
    (htail : tail = []) :
    applyRelocs cfg A (relocBytes rs ++ tail) =
      .ok { mapSlots (backVal A.bufs) rs A with relocs := A.relocs ++ rs } := by
  subst htail
  induction rs generalizing A with
  | nil => simp [relocBytes, applyRelocs]
  | cons r t ih =>
    have ⟨hno, hin⟩ := hs.head
    obtain ⟨x, hx, hg⟩ := hv r (List.mem_cons_self ..)
    obtain ⟨hdx, p, hp⟩ := goodRef_ok hg
    have henr := henc r (List.mem_cons_self ..)
    have hb := hbase r (List.mem_cons_self ..)
    -- the entry bytes
    have hbytes : relocBytes (r :: t) ++ [] =
        byteAt (encRef (some r)) 0 :: byteAt (encRef (some r)) 1 :: byteAt (encRef (some r)) 2 :: byteAt (encRef (some r)) 3 ::
        byteAt (encRef (some r)) 4 :: byteAt (encRef (some r)) 5 :: byteAt (encRef (some r)) 6 :: byteAt (encRef (some r)) 7 ::
        (relocBytes t ++ []) := by
      simp [relocBytes, refBytes, leBytes8]
    have hdec : decRef (leVal [byteAt (encRef (some r)) 0, byteAt (encRef (some r)) 1, byteAt (encRef (some r)) 2,
        byteAt (encRef (some r)) 3, byteAt (encRef (some r)) 4, byteAt (encRef (some r)) 5, byteAt (encRef (some r)) 6,
        byteAt (encRef (some r)) 7]) = some r := by
      rw [← leBytes8, leVal_leBytes8, Nat.mod_eq_of_lt (encRef_lt _), decRef_encRef_some henr.1 henr.2]
    -- the entry passes the loader's tests
    have hrej : relocRejected cfg A r = false := by
      unfold relocRejected
      have h1 := hin.1; have h2 := hin.2
      have h3 := hsz r (List.mem_cons_self ..)
      have : ¬ r.buf ≥ A.bufs.length := by omega
      simp only [this, decide_false, Bool.false_or, hb, Bool.or_false]
      split
      · simp; omega
      · simp; omega
    rw [hbytes, applyRelocs_step cfg A _ _ _ _ _ _ _ _ _ r p hdec hrej hin (by rw [hx, hdx]; exact goodRef_not_refused cfg hg)
      (by rw [hx, hdx]; exact hp)]
    -- the rest of the list, on the updated arena
    have hk : ({ setSlot A r p with relocs := A.relocs ++ [r] } : Arena).bufs.map key = A.bufs.map key := keys_setSlot A r p
    have hs' : SlotsOk ({ setSlot A r p with relocs := A.relocs ++ [r] } : Arena) t :=
      ⟨hs.tail.1, fun s hs2 => (InB_setSlot A r p s).2 (hs.tail.2 s hs2)⟩
    rw [ih _ hs' (fun s hs2 => henc s (List.mem_cons_of_mem _ hs2))
      (fun s hs2 => by
        show (Arena.bufAt (setSlot A r p) s.buf).base ≠ 0
        rw [bufAt_setSlot_base]; exact hbase s (List.mem_cons_of_mem _ hs2))
      (fun s hs2 => by
        show (Arena.bufAt (setSlot A r p) s.buf).data.length < 2 ^ 64
        rw [bufAt_setSlot_len]; exact hsz s (List.mem_cons_of_mem _ hs2))
      (fun s hs2 => by
        obtain ⟨y, hy, hgy⟩ := hv s (List.mem_cons_of_mem _ hs2)
        refine ⟨y, ?_, hgy.congr hk.symm⟩
        show getSlot (setSlot A r p) s = encRef y
        rw [getSlot_setSlot_other _ (hno s hs2)]; exact hy)]
    refine congrArg Except.ok ?_
    have hbv : backVal ({ setSlot A r p with relocs := A.relocs ++ [r] } : Arena).bufs = backVal A.bufs := by
      funext v; unfold backVal; rw [refToPtr_congr hk]
    rw [hbv, mapSlots_withRelocs, mapSlots_cons]
    have hbr : backVal A.bufs (getSlot A r) = p := by unfold backVal; rw [hx, hdx, hp]
    rw [hbr]
    have happ : A.relocs ++ [r] ++ t = A.relocs ++ r :: t := by simp
    rw [happ]

/-! ### assembling load (save a) -/

theorem goodRef_back {bufs : List Buf} (hr : RangesOk bufs)
    (hb : ∀ j, j < bufs.length → (bufs.getD j {}).data.length ≠ 0 → (bufs.getD j {}).base ≠ 0)
    {x : Option Ref} (hg : GoodRef bufs x) :
    ∃ p, refToPtr bufs x = .ok p ∧ p < 2 ^ 64 ∧ (ptrToRef bufs p).2 = x := by
  rcases hg with rfl | ⟨t, rfl, hl, _, ho, _⟩
  · exact ⟨0, rfl, by decide, by rw [ptrToRef_zero]⟩
  · have hbase := hb t.buf hl (by omega)
    have hfit := hr.fits _ (mem_iff_getD.2 ⟨t.buf, hl, rfl⟩)
    refine ⟨(bufs.getD t.buf {}).base + t.off, ?_, by omega, ?_⟩
    · rw [refToPtr_some hl (Nat.le_of_lt ho), if_neg hbase]
    · have hh : Hits (bufs.getD t.buf {}) ((bufs.getD t.buf {}).base + t.off) := ⟨hbase, by omega, by omega⟩
      rw [ptrToRef_hit hr hl hh]
      simp only [Nat.add_sub_cancel_left]

theorem loadedBufs_getD_data (alloc : Nat → Nat) (i : Nat) (ds : List Bytes) (j : Nat) :
    ((loadedBufs alloc i ds).getD j {}).data = ds.getD j [] := by
  induction ds generalizing i j with
  | nil => simp [loadedBufs]
  | cons d t ih =>
    cases j with
    | zero =>
      simp only [loadedBufs, List.getD_cons_zero]
      split
      · rename_i hz; exact (List.eq_nil_of_length_eq_zero hz).symm
      · rfl
    | succ j => simp only [loadedBufs, List.getD_cons_succ, ih]

/-- the arena the loader returns for the image of `a` -/
def loadedArena (alloc : Nat → Nat) (a : Arena) : Arena :=
  let A0 : Arena := { bufs := loadedBufs alloc 0 (bodies (toRefs a)), relocs := [], init := loadInitialSize }
  { mapSlots (backVal A0.bufs) a.relocs A0 with relocs := [] ++ a.relocs }

theorem bodies_getD (a : Arena) (j : Nat) : (bodies a).getD j [] = (a.bufAt j).data := by
  simp only [bodies, Arena.bufAt, List.getD_eq_getElem?_getD, List.getElem?_map]
  cases a.bufs[j]? <;> rfl

/-- the image of `a` with the relocation section replaced by the entries `rs` -/
def imageWith (a : Arena) (rs : List Ref) : Bytes :=
  header a.bufs.length ++ (table (headerSize + tableEntrySize * a.bufs.length) ((bodies a).map (·.length))
    ++ ((bodies (toRefs a)).flatten ++ relocBytes rs))

/-- the arena the loader returns for `imageWith a rs` -/
def loadedWith (alloc : Nat → Nat) (a : Arena) (rs : List Ref) : Arena :=
  let A0 : Arena := { bufs := loadedBufs alloc 0 (bodies (toRefs a)), relocs := [], init := loadInitialSize }
  { mapSlots (backVal A0.bufs) rs A0 with relocs := [] ++ rs }

theorem load_save_core (cfg : LoaderCfg) {a : Arena} (h : WF a) (hs2 : ∀ b ∈ a.bufs, b.data.length ≤ 2 ^ 31)
    (alloc : Nat → Nat) (hA : RangesOk (loadedBufs alloc 0 (bodies (toRefs a)))) (hnz : ∀ i, alloc i ≠ 0) :
    (∀ rs : List Ref, rs.Pairwise NoOverlap → (∀ r ∈ rs, r ∈ a.relocs) →
        load cfg alloc (imageWith a rs) = .ok (loadedWith alloc a rs))
    ∧ abs (loadedArena alloc a) = abs a := by
  -- facts about the freshly read buffers
  let A0 : Arena := { bufs := loadedBufs alloc 0 (bodies (toRefs a)), relocs := [], init := loadInitialSize }
  have hlenB : (bodies (toRefs a)).length = a.bufs.length := by rw [toRefs_eq]; simp [bodies]
  have hA0len : A0.bufs.length = a.bufs.length := by
    show (loadedBufs alloc 0 (bodies (toRefs a))).length = _
    rw [loadedBufs_length, hlenB]
  have hA0data : ∀ j, (A0.bufAt j).data = ((toRefs a).bufAt j).data := by
    intro j
    show ((loadedBufs alloc 0 (bodies (toRefs a))).getD j {}).data = _
    rw [loadedBufs_getD_data, bodies_getD]
  have hA0used : ∀ j, (A0.bufAt j).data.length = (a.bufAt j).data.length := by
    intro j; rw [hA0data, toRefs_eq, bufAt_mapSlots_len]
  have hA0base : ∀ j, j < A0.bufs.length → (A0.bufs.getD j {}).data.length ≠ 0 → (A0.bufs.getD j {}).base ≠ 0 := by
    intro j hj hne
    have hj' : j < (bodies (toRefs a)).length := by rw [hlenB, ← hA0len]; exact hj
    have hd : ((loadedBufs alloc 0 (bodies (toRefs a))).getD j {}).data.length ≠ 0 := hne
    rw [loadedBufs_getD_data] at hd
    show ((loadedBufs alloc 0 (bodies (toRefs a))).getD j {}).base ≠ 0
    rw [loadedBufs_getD _ _ _ _ hj', if_neg hd]
    exact hnz _
  have hslot : ∀ r, getSlot A0 r = getSlot (toRefs a) r := by
    intro r; unfold getSlot; rw [hA0data]
  have hslots : SlotsOk A0 a.relocs :=
    ⟨h.slots.1, fun r hr => ⟨by rw [hA0used]; exact (h.slots.2 r hr).1, by rw [hA0len]; exact (h.slots.2 r hr).2⟩⟩
  have hmemB : ∀ j, j < a.bufs.length → a.bufAt j ∈ a.bufs := fun j hj => mem_iff_getD.2 ⟨j, hj, rfl⟩
  -- every slot of the image holds the encoding of a good reference
  have hgood : ∀ r ∈ a.relocs, ∃ x, getSlot A0 r = encRef x ∧ GoodRef A0.bufs x := by
    intro r hr
    refine ⟨(ptrToRef a.bufs (getSlot a r)).2, ?_, ?_⟩
    · rw [hslot, toRefs_eq, getSlot_mapSlots _ h.slots hr, Nat.mod_eq_of_lt (encRef_lt _)]
    · rcases h.valid r hr with h0 | ⟨j, hj, hh⟩
      · rw [h0, ptrToRef_zero]; exact Or.inl rfl
      · rw [ptrToRef_hit h.ranges hj hh]
        have hsz := h.sizes _ (hmemB j hj)
        have hc := h.count
        simp only [maxBuffers] at hc
        unfold Hits at hh
        refine Or.inr ⟨_, rfl, by rw [hA0len]; exact hj, by show j < 2 ^ 32 - 1; omega, ?_, ?_⟩
        · show getSlot a r - (a.bufs.getD j {}).base < (A0.bufAt j).data.length
          rw [hA0used]; unfold Arena.bufAt; omega
        · show getSlot a r - (a.bufs.getD j {}).base < 2 ^ 32
          unfold Arena.bufAt at hsz; omega
  constructor
  · -- the loader accepts the image
    intro rs hpw hsub
    have hslots' : SlotsOk A0 rs := ⟨hpw, fun r hr => hslots.2 r (hsub r hr)⟩
    have hn := h.count
    have hlen : ((bodies a).map (·.length)).length = a.bufs.length := by simp [bodies]
    have hmod : ((bodies a).map (·.length)).map (· % 2 ^ 32) = (bodies (toRefs a)).map (·.length) := by
      rw [bodies_toRefs_lengths]
      conv => rhs; rw [← List.map_id ((bodies a).map (·.length))]
      apply List.map_congr_left
      intro u hu
      simp only [bodies, List.mem_map] at hu
      obtain ⟨d, ⟨b, hb, rfl⟩, rfl⟩ := hu
      have := hs2 b hb
      exact Nat.mod_eq_of_lt (by omega)
    have hpt := parseTable_table (headerSize + tableEntrySize * a.bufs.length) ((bodies a).map (·.length))
      ((bodies (toRefs a)).flatten ++ relocBytes rs)
    rw [hlen, hmod] at hpt
    have hoff : offsetsOk
        (table (headerSize + tableEntrySize * a.bufs.length) ((bodies a).map (·.length)) ++
          ((bodies (toRefs a)).flatten ++ relocBytes rs))
        0 (headerSize + tableEntrySize * a.bufs.length) ((bodies (toRefs a)).map (·.length)) = true := by
      have := offsetsOk_table (headerSize + tableEntrySize * a.bufs.length) ((bodies a).map (·.length))
        ((bodies (toRefs a)).flatten ++ relocBytes rs) 0 [] ((bodies a).map (·.length)) rfl rfl
      rw [hmod] at this
      simpa using this
    have hrb := readBodies_full alloc (bodies (toRefs a))
      (by
        intro d hd
        have : d.length ∈ (bodies (toRefs a)).map (·.length) := List.mem_map.2 ⟨d, hd, rfl⟩
        rw [bodies_toRefs_lengths] at this
        simp only [bodies, List.mem_map] at this
        obtain ⟨d', ⟨b, hb, rfl⟩, he⟩ := this
        rw [← he]; exact hs2 b hb)
      (relocBytes rs) 0
    unfold imageWith
    rw [load_eq, parseHeader_header _ hn]
    simp only
    rw [hpt]
    simp only
    rw [hoff]
    simp only [Bool.not_true, Bool.and_false, Bool.false_eq_true, if_false]
    rw [hrb]
    simp only
    have := applyRelocs_ok cfg rs A0 [] hslots'
      (fun r hr0 => by
        have hr := hsub r hr0
        have ⟨h1a, h1b⟩ := (h.slots.2 r hr)
        have hsz := h.sizes _ (hmemB r.buf h1b)
        have hc := h.count
        simp only [maxBuffers] at hc
        constructor <;> omega)
      (fun r hr0 => by
        have hr := hsub r hr0
        have ⟨h1a, h1b⟩ := (h.slots.2 r hr)
        apply hA0base r.buf (by rw [hA0len]; exact h1b)
        show (A0.bufAt r.buf).data.length ≠ 0
        rw [hA0used]; omega)
      (fun r hr0 => by
        have hr := hsub r hr0
        have ⟨h1a, h1b⟩ := (h.slots.2 r hr)
        have hsz := h.sizes _ (hmemB r.buf h1b)
        rw [hA0used]; omega)
      (fun r hr0 => hgood r (hsub r hr0)) rfl
    rw [List.append_nil] at this
    exact this
  · -- … and the result has the same abstract content
    unfold abs
    have hrel : (loadedArena alloc a).relocs = a.relocs := by simp [loadedArena]
    rw [hrel]
    congr 1
    rw [toRefs_eq, hrel]
    show bodies (mapSlots (fun v => encRef (ptrToRef (loadedArena alloc a).bufs v).2) a.relocs
      ({ mapSlots (backVal A0.bufs) a.relocs A0 with relocs := [] ++ a.relocs })) = bodies (toRefs a)
    have hk : (loadedArena alloc a).bufs.map key = A0.bufs.map key := keys_mapSlots _ _ _
    have hψ : (fun v => encRef (ptrToRef (loadedArena alloc a).bufs v).2) = (fun v => encRef (ptrToRef A0.bufs v).2) := by
      funext v; rw [ptrToRef_congr hk]
    rw [hψ, mapSlots_withRelocs]
    show bodies (mapSlots (fun v => encRef (ptrToRef A0.bufs v).2) a.relocs (mapSlots (backVal A0.bufs) a.relocs A0)) = _
    have hpoint : ∀ r ∈ a.relocs, backVal A0.bufs (getSlot A0 r) < 2 ^ 64 ∧
        encRef (ptrToRef A0.bufs (backVal A0.bufs (getSlot A0 r))).2 = getSlot A0 r := by
      intro r hr
      obtain ⟨x, hx, hg⟩ := hgood r hr
      obtain ⟨p, hp, hlt, hback⟩ := goodRef_back hA hA0base hg
      have hbv : backVal A0.bufs (getSlot A0 r) = p := by
        unfold backVal; rw [hx, (goodRef_ok hg).1, hp]
      rw [hbv, hback, hx]; exact ⟨hlt, rfl⟩
    rw [mapSlots_comp _ _ hslots (fun r hr => (hpoint r hr).1)]
    rw [mapSlots_id hslots (fun r hr => (hpoint r hr).2)]
    show (loadedBufs alloc 0 (bodies (toRefs a))).map (·.data) = _
    rw [loadedBufs_data]

theorem take_relocBytes (rs : List Ref) (k : Nat) : (relocBytes rs).take (8 * k) = relocBytes (rs.take k) := by
  induction rs generalizing k with
  | nil => simp [relocBytes]
  | cons r t ih =>
    cases k with
    | zero => simp [relocBytes]
    | succ k =>
      have hl : (refBytes r).length = 8 := length_leBytes 8 _
      have : 8 * (k + 1) = (refBytes r).length + 8 * k := by rw [hl]; omega
      simp only [relocBytes, List.flatMap_cons, List.take_succ_cons] at ih ⊢
      rw [this, List.take_length_add_append, ih]

end YaraModel.Arena
