/-
  Soundness of the hex-string scan model (Model/ReScan.lean) for one block: whatever candidates the automaton reports —
  any list whose entries point to the code positions of atom nodes of the pattern, or the zero-length atom — every
  (offset, length) that reaches the match list is a match of the pattern.
-/
import YaraModel.Model.ReScan
import YaraModel.Lemmas.ReAtomEntry
import YaraModel.Lemmas.ReChain
namespace YaraModel.ReScan
open YaraModel.Re YaraModel.ReVm YaraModel.ReEmit

/-- the automaton entry belongs to the pattern: the zero-length atom, or the code positions of a byte / masked byte / `??`
    node of the pattern -/
def CandOK (r : Re) (c : Cand) : Prop :=
  (c.fwd = 0 ∧ c.bwd = none) ∨ ∃ ctx y, AtomLeaf y ∧ HexCtx ctx ∧ ctx.fill y = r ∧ c.fwd = holePos ctx 0 ∧ c.bwd = some (bwdPos y ctx 0)

theorem specFlagsG_fwd (fl : VmFlags) : specFlagsG (fwdFlags fl) = specFlagsG fl := rfl
theorem specFlagsG_bwd (fl : VmFlags) : specFlagsG (bwdFlags fl) = specFlagsG fl := rfl

theorem verifyOne_sound (r : Re) (hwf : WF r) (hszf : (emit false r 0).1.length < 32000) (hszb : (emit true r 0).1.length < 32000)
    (buf : Bytes) (fl : VmFlags) (fuel : Nat) (c : Cand) (hc : CandOK r c) (ho : c.off ≤ buf.size) :
    ∀ x ∈ verifyOne r buf fl fuel c, Re.Matches (specFlagsG fl) buf r x.1 (x.1 + x.2) := by
  intro x hx
  unfold verifyOne at hx
  split at hx
  · rename_i m cl hfw
    split at hx
    · cases hx
    · rename_i hm
      have hm0 : 0 ≤ m := by omega
      rcases hc with ⟨h1, h2⟩ | ⟨ctx, y, hy, hctx, hfill, h1, h2⟩
      · rw [h2] at hx
        simp only [List.mem_singleton] at hx
        subst hx
        rw [h1] at hfw
        obtain ⟨_, g2⟩ := vm_sound_fwd r hwf hszf buf c.off ho (fwdFlags fl) rfl (fun hh => by simp [fwdFlags] at hh) fuel m cl hfw
        obtain ⟨s0, _, _, k3, k4⟩ := g2 hm0
        rw [k3 rfl, specFlagsG_fwd] at k4
        simpa using k4
      · rw [h2] at hx
        simp only at hx
        split at hx
        · rename_i m2 calls hbw
          simp only [List.mem_map] at hx
          obtain ⟨lb, hlb, rfl⟩ := hx
          subst hfill
          rw [h1] at hfw
          obtain ⟨e, k1, k2⟩ := (vm_sound_from_atom_fwd ctx hctx y hy hszf buf c.off ho (fwdFlags fl) rfl rfl fuel m cl hfw).2 hm0
          obtain ⟨k3, k4⟩ := (vm_sound_from_atom_bwd ctx hctx y hy hszb buf c.off ho (bwdFlags fl) rfl rfl fuel m2 calls hbw).1 lb hlb
          rw [specFlagsG_fwd] at k1 k2
          rw [specFlagsG_bwd] at k4
          have := through_sound ctx y _ _ ⟨c.off, c.off + e, k4, k1, k2⟩
          have e1 : c.off - lb + (lb + m.toNat) = c.off + m.toNat := by omega
          simp only
          rw [e1]; exact this
        · cases hx
  · cases hx

theorem foldl_addConfirmed_sound {P : Nat × Nat → Prop} : ∀ (ms : List (Nat × Nat)) (acc : List (Nat × Nat)), (∀ x ∈ acc, P x) → (∀ x ∈ ms, P x) →
    ∀ x ∈ ms.foldl (fun acc2 m => YaraModel.ReChain.addConfirmed m.1 m.2 acc2) acc, P x
  | [], acc, ha, _ => by simpa using ha
  | m :: t, acc, ha, hm => by
    simp only [List.foldl_cons]
    refine foldl_addConfirmed_sound (P := P) t _ ?_ ?_
    · intro x hx
      rcases YaraModel.ReChain.mem_addConfirmed hx with h | h
      · exact ha x h
      · rw [h]; exact hm m (by simp)
    · intro x hx; exact hm x (List.mem_cons_of_mem _ hx)

/-- **The scan of a hex string in one block is sound**: every entry of the match list is a match of the pattern. -/
theorem scanHex_sound (r : Re) (hwf : WF r) (hszf : (emit false r 0).1.length < 32000) (hszb : (emit true r 0).1.length < 32000)
    (buf : Bytes) (fl : VmFlags) (fuel : Nat) (cands : List Cand) (hc : ∀ c ∈ cands, CandOK r c ∧ c.off ≤ buf.size) :
    ∀ x ∈ scanHex r buf fl fuel cands, Re.Matches (specFlagsG fl) buf r x.1 (x.1 + x.2) := by
  unfold scanHex
  have gen : ∀ (cs : List Cand) (acc : List (Nat × Nat)), (∀ c ∈ cs, CandOK r c ∧ c.off ≤ buf.size) →
      (∀ x ∈ acc, Re.Matches (specFlagsG fl) buf r x.1 (x.1 + x.2)) →
      ∀ x ∈ cs.foldl (fun acc c => (verifyOne r buf fl fuel c).foldl (fun acc2 m => YaraModel.ReChain.addConfirmed m.1 m.2 acc2) acc) acc,
        Re.Matches (specFlagsG fl) buf r x.1 (x.1 + x.2) := by
    intro cs
    induction cs with
    | nil => intro acc _ ha; simpa using ha
    | cons c t ih =>
      intro acc hcs ha
      simp only [List.foldl_cons]
      apply ih
      · intro c' hc'; exact hcs c' (List.mem_cons_of_mem _ hc')
      · exact foldl_addConfirmed_sound _ acc ha (verifyOne_sound r hwf hszf hszb buf fl fuel c (hcs c (by simp)).1 (hcs c (by simp)).2)
  exact gen cands [] hc (by simp)

end YaraModel.ReScan
