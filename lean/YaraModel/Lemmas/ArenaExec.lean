/- Every client operation of the arena model simulates the corresponding step of the address-free
   abstract machine (Spec/Arena.lean) under the protocol invariant `WF`, for every configuration
   (initial size, capacity, base addresses, always-move hook, allocator answer). -/
import YaraModel.Lemmas.ArenaOps
namespace YaraModel.Arena
open YaraModel.Gen.ArenaLayout

/-- the concrete result `res` of an operation on `a` realises the abstract result `(x', o)`: it succeeds
    with the same observation, keeps the protocol and has abstract content `x'` — or the only failure a
    protocol-obeying client can see: the buffer would exceed its maximum size (ERROR_INSUFFICIENT_MEMORY) -/
def Sim (a : Arena) (res : Except Err (Arena × Out)) (x' : AArena) (o : Out) : Prop :=
  (∃ a', res = .ok (a', o) ∧ WF a' ∧ a'.init = a.init ∧ abs a' = x') ∨ res = .error .insufficientMemory

/-! ### allocation -/

theorem bufAt_setBuf_ne (a : Arena) {b j : Nat} (x : Buf) (h : j ≠ b) : (a.setBuf b x).bufAt j = a.bufAt j := by
  unfold Arena.setBuf Arena.bufAt
  simp only [List.getD_eq_getElem?_getD, List.getElem?_set]
  rw [if_neg (by omega)]

theorem growBuf_frame (a : Arena) (b nb nc : Nat) (z : Bool) {j : Nat} (h : j ≠ b) :
    ((growBuf a b nb nc z).bufAt j).base = (a.bufAt j).base ∧ ((growBuf a b nb nc z).bufAt j).data.length = (a.bufAt j).data.length := by
  unfold growBuf
  simp only
  rw [bufAt_setBuf_ne _ _ h]
  split
  · rw [fixups_eq, bufAt_mapSlots_base, bufAt_mapSlots_len]; exact ⟨rfl, rfl⟩
  · exact ⟨rfl, rfl⟩

/-- an allocation in buffer `b` leaves address and length of every other buffer alone -/
theorem allocMem_frame {cfg : Cfg} {nb : Nat} {a : Arena} {b : Nat} {zero : Bool} {fill : Bytes} {a' : Arena} {r : Ref}
    (hres : allocMem cfg nb a b zero fill = .ok (a', r)) {j : Nat} (h : j ≠ b) :
    (a'.bufAt j).base = (a.bufAt j).base ∧ (a'.bufAt j).data.length = (a.bufAt j).data.length := by
  unfold allocMem at hres
  by_cases hb : b < a.bufs.length
  · rw [if_pos hb] at hres
    simp only at hres
    have hcapdef : (if cfg.alwaysMove = true ∧ (a.bufAt b).base ≠ 0 ∧ fill.length > 0 then (a.bufAt b).data.length else (a.bufAt b).cap)
        = effCap cfg a b fill.length := rfl
    rw [hcapdef] at hres
    by_cases hg : effCap cfg a b fill.length - (a.bufAt b).data.length < fill.length
    · rw [if_pos hg] at hres
      split at hres
      · cases hres
      · simp only [Except.ok.injEq, Prod.mk.injEq] at hres
        rw [← hres.1, bufAt_setBuf_ne _ _ h]
        exact growBuf_frame a b nb _ zero h
    · rw [if_neg hg] at hres
      simp only [Except.ok.injEq, Prod.mk.injEq] at hres
      rw [← hres.1, bufAt_setBuf_ne _ _ h]
      exact ⟨rfl, rfl⟩
  · rw [if_neg hb] at hres; cases hres

theorem allocMem_total (cfg : Cfg) (nb : Nat) (a : Arena) {b : Nat} (zero : Bool) (fill : Bytes) (hb : b < a.bufs.length) :
    (∃ p, allocMem cfg nb a b zero fill = .ok p) ∨ allocMem cfg nb a b zero fill = .error .insufficientMemory := by
  unfold allocMem
  rw [if_pos hb]
  simp only
  have hcapdef : (if cfg.alwaysMove = true ∧ (a.bufAt b).base ≠ 0 ∧ fill.length > 0 then (a.bufAt b).data.length else (a.bufAt b).cap)
      = effCap cfg a b fill.length := rfl
  rw [hcapdef]
  by_cases hg : effCap cfg a b fill.length - (a.bufAt b).data.length < fill.length
  · rw [if_pos hg]
    split
    · exact Or.inr rfl
    · exact Or.inl ⟨_, rfl⟩
  · rw [if_neg hg]; exact Or.inl ⟨_, rfl⟩

theorem aAlloc_abs {a : Arena} {b : Nat} {fill : Bytes} {x1 : AArena} {r : Ref} (h : aAlloc (abs a) b fill = some (x1, r)) :
    b < a.bufs.length ∧ (a.bufAt b).data.length + fill.length < 2 ^ 32 ∧ x1 = absAppend (abs a) b fill ∧ r = ⟨b, (a.bufAt b).data.length⟩ := by
  unfold aAlloc at h
  rw [abs_fst_length, aBody_abs_length] at h
  split at h
  · rename_i hc
    simp only [Option.some.injEq, Prod.mk.injEq] at h
    exact ⟨hc.1, hc.2, h.1.symm, h.2.symm⟩
  · cases h

/-- one allocation, total form: it succeeds as the abstract machine says, or the buffer is too big -/
theorem allocMem_sim (cfg : Cfg) (nb : Nat) {a : Arena} (h : WF a) (hinit : 0 < a.init) {b : Nat} (zero : Bool) {fill : Bytes}
    {x1 : AArena} {r : Ref} (hspec : aAlloc (abs a) b fill = some (x1, r)) (hfresh : AllocFresh cfg nb a b fill.length) :
    (∃ a1, allocMem cfg nb a b zero fill = .ok (a1, r) ∧ WF a1 ∧ a1.init = a.init ∧ abs a1 = x1) ∨
      allocMem cfg nb a b zero fill = .error .insufficientMemory := by
  obtain ⟨hb, hsz, rfl, rfl⟩ := aAlloc_abs hspec
  rcases allocMem_total cfg nb a zero fill hb with ⟨⟨a1, r1⟩, hres⟩ | herr
  · have ⟨h1, h2, h3, h4⟩ := allocMem_spec cfg nb h hinit hres hfresh hsz
    subst h3
    exact Or.inl ⟨a1, hres, h1, h4, h2⟩
  · exact Or.inr herr

/-! ### registration of NULL slots (make_ptr_relocatable, the offsets of allocate_struct) -/

theorem bufAt_mem {a : Arena} {j : Nat} (hj : j < a.bufs.length) : a.bufAt j ∈ a.bufs := mem_iff_getD.2 ⟨j, hj, rfl⟩

theorem reloc_sim {a : Arena} (h : WF a) {b o : Nat} {x1 : AArena} (hspec : aReloc (abs a) b o = some x1) :
    WF (regSlot a ⟨b, o % 2 ^ 32⟩) ∧ abs (regSlot a ⟨b, o % 2 ^ 32⟩) = x1 := by
  unfold aReloc at hspec
  split at hspec
  · rename_i hc
    obtain ⟨hb, ho, hfree, hz⟩ := hc
    rw [abs_fst_length] at hb
    rw [aBody_abs_length] at ho
    have hsz := h.sizes _ (bufAt_mem hb)
    rw [Nat.mod_eq_of_lt (by omega)]
    have hno : ∀ r ∈ a.relocs, NoOverlap r ⟨b, o⟩ := fun r hr => ((aFree_iff _ _ _ _).1 hfree r hr).noOverlap
    have h0 : getSlot a ⟨b, o⟩ = 0 := by
      have := rd64_aBody_abs a ⟨b, o⟩
      simp only at this
      rw [hz, toRefs_eq, getSlot_mapSlots_other _ _ hno] at this
      exact this.symm
    simp only [Option.some.injEq] at hspec
    refine ⟨wf_regSlot h ⟨ho, hb⟩ hno (by rw [h0]; exact Or.inl rfl), ?_⟩
    rw [abs_regSlot _ hno, h0, ptrToRef_zero, ← hspec]
    rfl
  · cases hspec

theorem regSlot_init (a : Arena) (s : Ref) : (regSlot a s).init = a.init := rfl

theorem makeRelocs_init (a : Arena) (b base : Nat) (offs : List Nat) : (makeRelocs a b base offs).init = a.init := rfl

theorem relocs_sim {b base : Nat} (offs : List Nat) : ∀ {a : Arena} (_ : WF a) {x2 : AArena}
    (_ : aRelocs b base (abs a) offs = some x2), WF (makeRelocs a b base offs) ∧ abs (makeRelocs a b base offs) = x2 := by
  induction offs with
  | nil =>
    intro a h x2 hspec
    simp only [aRelocs, Option.some.injEq] at hspec
    rw [makeRelocs_nil]; exact ⟨h, hspec⟩
  | cons o os ih =>
    intro a h x2 hspec
    simp only [aRelocs] at hspec
    cases h1 : aReloc (abs a) b (base + o) with
    | none => rw [h1] at hspec; cases hspec
    | some x1 =>
      rw [h1] at hspec
      simp only at hspec
      have ⟨hw, ha⟩ := reloc_sim h h1
      rw [makeRelocs_cons]
      rw [← ha] at hspec
      exact ih hw hspec

/-! ### references a client may turn into pointers -/

theorem target_some {a : Arena} (h : WF a) {t : Ref} (ht : ATarget (abs a) (some t) = true) :
    t.buf < a.bufs.length ∧ t.off < (a.bufAt t.buf).data.length ∧ (a.bufAt t.buf).base ≠ 0 ∧
      refToPtr a.bufs (some t) = .ok ((a.bufAt t.buf).base + t.off) := by
  simp only [ATarget, Bool.and_eq_true, decide_eq_true_eq] at ht
  rw [abs_fst_length, aBody_abs_length] at ht
  obtain ⟨hb, ho⟩ := ht
  have hnull := h.ranges.null _ (bufAt_mem hb)
  have hfit := h.ranges.fits _ (bufAt_mem hb)
  have hbase : (a.bufAt t.buf).base ≠ 0 := by
    intro h0; have := hnull h0; omega
  refine ⟨hb, ho, hbase, ?_⟩
  have := refToPtr_some (bufs := a.bufs) (i := t.buf) (o := t.off) hb (Nat.le_of_lt ho)
  have hbase' : (a.bufs.getD t.buf {}).base ≠ 0 := hbase
  rw [if_neg hbase'] at this
  exact this

theorem target_ptr {a : Arena} (h : WF a) {target : Option Ref} (ht : ATarget (abs a) target = true) :
    ∃ p, refToPtr a.bufs target = .ok p ∧ ValidPtr a.bufs p ∧ p < 2 ^ 64 ∧ ptrToRef a.bufs p = (true, target) := by
  cases target with
  | none => exact ⟨0, rfl, Or.inl rfl, by decide, ptrToRef_zero _⟩
  | some t =>
    obtain ⟨hb, ho, hbase, hp⟩ := target_some h ht
    have hfit := h.ranges.fits _ (bufAt_mem hb)
    have hh : Hits (a.bufs.getD t.buf {}) ((a.bufAt t.buf).base + t.off) := by
      show Hits (a.bufAt t.buf) _
      exact ⟨hbase, by omega, by omega⟩
    refine ⟨_, hp, Or.inr ⟨t.buf, hb, hh⟩, by omega, ?_⟩
    rw [ptrToRef_hit h.ranges hb hh]
    show (true, some (Ref.mk t.buf ((a.bufAt t.buf).base + t.off - (a.bufAt t.buf).base))) = _
    rw [Nat.add_sub_cancel_left]

/-! ### a pointer written and registered in one step -/

theorem aBody_absAppend_same (x : AArena) {b : Nat} (f : Bytes) (hb : b < x.1.length) : aBody (absAppend x b f) b = aBody x b ++ f := by
  unfold aBody absAppend
  simp [List.getD_eq_getElem?_getD, List.getElem?_eq_getElem hb]

theorem aSet_absAppend_slot (x : AArena) {b : Nat} (p v : Nat) (hb : b < x.1.length) :
    aSet (absAppend x b (leBytes 8 p)) ⟨b, (aBody x b).length⟩ v = absAppend x b (leBytes 8 v) := by
  unfold aSet absAppend aBody
  simp only [List.modify_modify_eq, List.getD_eq_getElem?_getD, List.getElem?_eq_getElem hb, Option.getD_some]
  congr 1
  apply List.ext_getElem?
  intro j
  simp only [List.getElem?_modify]
  by_cases hj : b = j
  · subst hj
    simp [List.getElem?_eq_getElem hb, wr64_append_slot]
  · simp [hj]

theorem ptr_sim (cfg : Cfg) (nb : Nat) {a : Arena} (h : WF a) (hinit : 0 < a.init) {b : Nat} {target : Option Ref}
    (ht : ATarget (abs a) target = true) (hne : ∀ t, target = some t → t.buf ≠ b)
    {x1 : AArena} {r : Ref} (hspec : aAlloc (abs a) b (leBytes 8 (encRef target)) = some (x1, r))
    (hfresh : AllocFresh cfg nb a b 8) :
    Sim a (exec cfg nb a (.ptr b target)) (aReg x1 r) (.ref r) := by
  obtain ⟨p, hp, hvp, hlt, hback⟩ := target_ptr h ht
  obtain ⟨hb, hsz, hx1, hr⟩ := aAlloc_abs hspec
  have hl8 : ∀ v, (leBytes 8 v).length = 8 := fun v => length_leBytes 8 v
  rw [hl8] at hsz
  -- the same allocation with the concrete pointer as content
  have hspec' : aAlloc (abs a) b (leBytes 8 p) = some (absAppend (abs a) b (leBytes 8 p), r) := by
    unfold aAlloc
    rw [abs_fst_length, aBody_abs_length, hl8, if_pos ⟨hb, hsz⟩, hr]
  unfold Sim; simp only [exec]
  simp only [hp]
  rcases allocMem_sim cfg nb h hinit false hspec' (by rw [hl8]; exact hfresh) with ⟨a1, hres, hw1, hi1, ha1⟩ | herr
  · rw [hres]
    simp only
    left
    subst hr
    simp only
    rw [makeRelocs_cons, makeRelocs_nil, Nat.zero_add, Nat.mod_eq_of_lt (by omega)]
    obtain ⟨s, hs⟩ : ∃ s : Ref, s = ⟨b, (a.bufAt b).data.length⟩ := ⟨_, rfl⟩
    rw [← hs]
    have hrel1 : a1.relocs = a.relocs := by
      have := congrArg Prod.snd ha1; exact this
    have hlen1 : a1.bufs.length = a.bufs.length := by
      rw [← abs_fst_length a1, ha1]; simp [absAppend, abs_fst_length]
    have hbody1 : aBody (abs a1) b = aBody (abs a) b ++ leBytes 8 p := by
      rw [ha1, aBody_absAppend_same _ _ (by rw [abs_fst_length]; exact hb)]
    have hdl1 : (a1.bufAt b).data.length = (a.bufAt b).data.length + 8 := by
      rw [← aBody_abs_length a1, hbody1, List.length_append, aBody_abs_length, hl8]
    have hin : InB a1 s := by rw [hs]; exact ⟨by simp only; omega, by rw [hlen1]; exact hb⟩
    have hno : ∀ q ∈ a1.relocs, NoOverlap q s := by
      intro q hq
      rw [hrel1] at hq
      have := (h.slots.2 q hq).1
      rw [hs]; unfold NoOverlap; simp only
      by_cases hqb : q.buf = b
      · rw [hqb] at this; omega
      · exact Or.inl hqb
    have hget : getSlot a1 s = p := by
      have h1 := rd64_aBody_abs a1 s
      rw [toRefs_eq, getSlot_mapSlots_other _ _ hno] at h1
      rw [← h1, hs]
      simp only
      rw [hbody1, ← aBody_abs_length a b, rd64_append_slot, Nat.mod_eq_of_lt hlt]
    -- the pointer is still valid after the allocation: its target lives in another buffer
    have hvalid1 : ValidPtr a1.bufs p ∧ ptrToRef a1.bufs p = (true, target) := by
      cases target with
      | none =>
        simp only [refToPtr, Except.ok.injEq] at hp
        subst hp; exact ⟨Or.inl rfl, ptrToRef_zero _⟩
      | some t =>
        obtain ⟨htb, hto, hbase, hp'⟩ := target_some h ht
        rw [hp'] at hp
        simp only [Except.ok.injEq] at hp
        have hfr := allocMem_frame hres (hne t rfl)
        have hh : Hits (a1.bufs.getD t.buf {}) p := by
          show Hits (a1.bufAt t.buf) p
          unfold Hits
          rw [hfr.1, hfr.2, ← hp]
          exact ⟨hbase, by omega, by omega⟩
        refine ⟨Or.inr ⟨t.buf, by rw [hlen1]; exact htb, hh⟩, ?_⟩
        rw [ptrToRef_hit hw1.ranges (by rw [hlen1]; exact htb) hh]
        show (true, some (Ref.mk t.buf (p - (a1.bufAt t.buf).base))) = _
        rw [hfr.1, ← hp, Nat.add_sub_cancel_left]
    refine ⟨_, rfl, wf_regSlot hw1 hin hno (by rw [hget]; exact hvalid1.1), by rw [regSlot_init]; exact hi1, ?_⟩
    rw [abs_regSlot _ hno, hget, hvalid1.2, ha1, hx1, hs, ← aBody_abs_length a b,
      aSet_absAppend_slot _ _ _ (by rw [abs_fst_length]; exact hb)]
  · rw [herr]; exact Or.inr rfl

/-! ### every operation -/

theorem write_like_sim (cfg : Cfg) (nb : Nat) {a : Arena} (h : WF a) (hinit : 0 < a.init) {b : Nat} (zero : Bool) {fill : Bytes}
    {x1 : AArena} {r : Ref} (hspec : aAlloc (abs a) b fill = some (x1, r)) (hfresh : AllocFresh cfg nb a b fill.length) :
    Sim a (match allocMem cfg nb a b zero fill with
           | .ok (a1, r) => .ok (a1, Out.ref r)
           | .error e => .error e) x1 (.ref r) := by
  rcases allocMem_sim cfg nb h hinit zero hspec hfresh with ⟨a1, hres, hw1, hi1, ha1⟩ | herr
  · rw [hres]; exact Or.inl ⟨a1, rfl, hw1, hi1, ha1⟩
  · rw [herr]; exact Or.inr rfl

theorem length_zeros (n : Nat) : (zeros n).length = n := by simp [zeros]

/-- **one step of the real arena simulates one step of the abstract machine**, whatever the configuration -/
theorem exec_sim (cfg : Cfg) (nb : Nat) {a : Arena} (h : WF a) (hinit : 0 < a.init) {op : Op} {x' : AArena} {o : Out}
    (hspec : astep (abs a) op = some (x', o)) (hfresh : StepFresh cfg nb a op) : Sim a (exec cfg nb a op) x' o := by
  cases op with
  | write b bytes =>
    simp only [astep] at hspec
    cases h1 : aAlloc (abs a) b bytes with
    | none => rw [h1] at hspec; cases hspec
    | some p =>
      obtain ⟨x1, r⟩ := p
      rw [h1] at hspec
      simp only [Option.some.injEq, Prod.mk.injEq] at hspec
      rw [← hspec.1, ← hspec.2]
      exact write_like_sim cfg nb h hinit false h1 hfresh
  | zalloc b size =>
    simp only [astep] at hspec
    cases h1 : aAlloc (abs a) b (zeros size) with
    | none => rw [h1] at hspec; cases hspec
    | some p =>
      obtain ⟨x1, r⟩ := p
      rw [h1] at hspec
      simp only [Option.some.injEq, Prod.mk.injEq] at hspec
      rw [← hspec.1, ← hspec.2]
      exact write_like_sim cfg nb h hinit true h1 (by rw [length_zeros]; exact hfresh)
  | struct b size offs =>
    simp only [astep] at hspec
    cases h1 : aAlloc (abs a) b (zeros size) with
    | none => rw [h1] at hspec; cases hspec
    | some p =>
      obtain ⟨x1, r⟩ := p
      rw [h1] at hspec
      simp only at hspec
      cases h2 : aRelocs b r.off x1 offs with
      | none => rw [h2] at hspec; cases hspec
      | some x2 =>
        rw [h2] at hspec
        simp only [Option.some.injEq, Prod.mk.injEq] at hspec
        rw [← hspec.1, ← hspec.2]
        unfold Sim; simp only [exec]
        rcases allocMem_sim cfg nb h hinit true h1 (by rw [length_zeros]; exact hfresh) with ⟨a1, hres, hw1, hi1, ha1⟩ | herr
        · rw [hres]
          simp only
          rw [← ha1] at h2
          have ⟨hw2, ha2⟩ := relocs_sim offs hw1 h2
          exact Or.inl ⟨_, rfl, hw2, by rw [makeRelocs_init]; exact hi1, ha2⟩
        · rw [herr]; exact Or.inr rfl
  | reloc b off =>
    simp only [astep] at hspec
    cases h1 : aReloc (abs a) b off with
    | none => rw [h1] at hspec; cases hspec
    | some x1 =>
      rw [h1] at hspec
      simp only [Option.some.injEq, Prod.mk.injEq] at hspec
      rw [← hspec.1, ← hspec.2]
      have ⟨hw, ha⟩ := reloc_sim h h1
      unfold Sim; simp only [exec]
      rw [makeRelocs_cons, makeRelocs_nil, Nat.zero_add]
      exact Or.inl ⟨_, rfl, hw, rfl, ha⟩
  | setPtr slot target =>
    simp only [astep] at hspec
    split at hspec
    · rename_i hc
      obtain ⟨hs, ht⟩ := hc
      simp only [Option.some.injEq, Prod.mk.injEq] at hspec
      rw [← hspec.1, ← hspec.2]
      have hs' : slot ∈ a.relocs := hs
      obtain ⟨p, hp, hvp, hlt, hback⟩ := target_ptr h ht
      unfold Sim; simp only [exec]
      simp only [hp]
      rw [if_pos (h.slots.2 slot hs')]
      refine Or.inl ⟨_, rfl, wf_setSlot_reg h hs' hvp hlt, rfl, ?_⟩
      rw [abs_setSlot_reg h hs' hlt, hback]
    · cases hspec
  | ptr b target =>
    simp only [astep] at hspec
    split at hspec
    · rename_i hc
      obtain ⟨ht, hne⟩ := hc
      cases h1 : aAlloc (abs a) b (leBytes 8 (encRef target)) with
      | none => rw [h1] at hspec; cases hspec
      | some p =>
        obtain ⟨x1, r⟩ := p
        rw [h1] at hspec
        simp only [Option.some.injEq, Prod.mk.injEq] at hspec
        rw [← hspec.1, ← hspec.2]
        exact ptr_sim cfg nb h hinit ht hne h1 hfresh
    · cases hspec
  | poke at_ bytes =>
    simp only [astep] at hspec
    split at hspec
    · rename_i hc
      obtain ⟨hb, hl, hfree⟩ := hc
      rw [abs_fst_length] at hb
      rw [aBody_abs_length] at hl
      simp only [Option.some.injEq, Prod.mk.injEq] at hspec
      rw [← hspec.1, ← hspec.2]
      have hclear : ∀ r ∈ a.relocs, Clear r at_.buf at_.off bytes.length := (aFree_iff _ _ _ _).1 hfree
      unfold Sim; simp only [exec]
      rw [if_pos ⟨hb, hl⟩, setBuf_poke_eq]
      exact Or.inl ⟨_, rfl, wf_pokeA h hclear, rfl, abs_pokeA hclear⟩
    · cases hspec
  | ref slot =>
    simp only [astep] at hspec
    split at hspec
    · rename_i hs
      have hs' : slot ∈ a.relocs := hs
      simp only [Option.some.injEq, Prod.mk.injEq] at hspec
      rw [← hspec.1, ← hspec.2]
      have ⟨hfound, hdec⟩ := decRef_encRef_valid h (h.valid slot hs')
      unfold Sim; simp only [exec]
      rw [if_pos (h.slots.2 slot hs')]
      refine Or.inl ⟨a, ?_, h, rfl, rfl⟩
      congr 2
      unfold queryOut
      rw [hfound, if_pos rfl, rd64_aBody_abs, toRefs_eq, getSlot_mapSlots _ h.slots hs', Nat.mod_eq_of_lt (encRef_lt _), hdec]
    · cases hspec
  | rt target =>
    simp only [astep] at hspec
    split at hspec
    · rename_i ht
      simp only [Option.some.injEq, Prod.mk.injEq] at hspec
      rw [← hspec.1, ← hspec.2]
      obtain ⟨p, hp, hvp, hlt, hback⟩ := target_ptr h ht
      unfold Sim; simp only [exec]
      simp only [hp]
      refine Or.inl ⟨a, ?_, h, rfl, rfl⟩
      rw [hback]; rfl
    · cases hspec
  | regPtr slot target =>
    simp only [astep] at hspec
    split at hspec
    · rename_i hc
      obtain ⟨hb, ho, hfree, ht⟩ := hc
      rw [abs_fst_length] at hb
      rw [aBody_abs_length] at ho
      simp only [Option.some.injEq, Prod.mk.injEq] at hspec
      rw [← hspec.1, ← hspec.2]
      obtain ⟨p, hp, hvp, hlt, hback⟩ := target_ptr h ht
      have hsz := h.sizes _ (bufAt_mem hb)
      have hclear : ∀ r ∈ a.relocs, Clear r slot.buf slot.off 8 := (aFree_iff _ _ _ _).1 hfree
      have ⟨hw, ha⟩ := regSet_spec h ⟨ho, hb⟩ hclear hvp hlt
      unfold Sim; simp only [exec]
      simp only [hp]
      rw [if_pos ⟨ho, hb⟩, makeRelocs_cons, makeRelocs_nil, Nat.zero_add, Nat.mod_eq_of_lt (by omega)]
      refine Or.inl ⟨_, rfl, hw, rfl, ?_⟩
      rw [hback] at ha
      exact ha
    · cases hspec

/-! ### sequences -/

/-- the concrete run realises the abstract run -/
def SimRun (res : Except Err (Arena × List Out)) (x' : AArena) (outs : List Out) : Prop :=
  (∃ a', res = .ok (a', outs) ∧ WF a' ∧ abs a' = x') ∨ res = .error .insufficientMemory

theorem runOut_sim (cfg : Cfg) (ops : List Op) : ∀ (bases : List Nat) (a : Arena) (x' : AArena) (outs : List Out),
    WF a → 0 < a.init → arun (abs a) ops = some (x', outs) → AdmRun cfg bases a ops →
    SimRun (runOut cfg bases a ops) x' outs := by
  induction ops with
  | nil =>
    intro bases a x' outs h _ hspec _
    simp only [arun, Option.some.injEq, Prod.mk.injEq] at hspec
    unfold runOut
    exact Or.inl ⟨a, by rw [← hspec.2], h, hspec.1⟩
  | cons op ops ih =>
    intro bases a x' outs h hinit hspec hadm
    simp only [arun] at hspec
    cases h1 : astep (abs a) op with
    | none => rw [h1] at hspec; cases hspec
    | some p =>
      obtain ⟨x1, o⟩ := p
      rw [h1] at hspec
      simp only at hspec
      cases h2 : arun x1 ops with
      | none => rw [h2] at hspec; cases hspec
      | some q =>
        obtain ⟨x2, os⟩ := q
        rw [h2] at hspec
        simp only [Option.some.injEq, Prod.mk.injEq] at hspec
        rw [← hspec.1, ← hspec.2]
        obtain ⟨hf, hnext⟩ := hadm
        unfold runOut
        rcases exec_sim cfg (bases.headD 0) h hinit h1 hf with ⟨a1, hres, hw1, hi1, ha1⟩ | herr
        · rw [hres]
          simp only
          rw [← ha1] at h2
          rcases ih bases.tail a1 x2 os hw1 (by rw [hi1]; exact hinit) h2 (hnext a1 o hres) with ⟨a2, hres2, hw2, ha2⟩ | herr2
          · rw [hres2]; exact Or.inl ⟨a2, rfl, hw2, ha2⟩
          · rw [herr2]; exact Or.inr rfl
        · rw [herr]; exact Or.inr rfl

theorem admRun_of_check (cfg : Cfg) (ops : List Op) : ∀ (nbs : List Nat) (a : Arena),
    admCheck cfg nbs a ops = true → AdmRun cfg nbs a ops := by
  induction ops with
  | nil => intro _ _ _; trivial
  | cons op ops ih =>
    intro nbs a h
    simp only [admCheck, Bool.and_eq_true, decide_eq_true_eq] at h
    refine ⟨h.1, ?_⟩
    intro a1 o he
    have h2 := h.2
    rw [he] at h2
    exact ih _ _ h2

/-! ### a freshly created arena -/

theorem wf_create {n : Nat} (init : Nat) (hn : n ≤ maxBuffers) : WF (create n init) := by
  have hmem : ∀ b ∈ (create n init).bufs, b = ({} : Buf) := by
    intro b hb; exact List.eq_of_mem_replicate hb
  constructor
  · exact ⟨List.Pairwise.nil, fun r hr => by cases hr⟩
  · constructor
    · intro b hb; rw [hmem b hb]; exact ⟨by decide, by decide⟩
    · intro b hb _; rw [hmem b hb]
    · show (List.replicate n ({} : Buf)).Pairwise Apart
      rw [List.pairwise_replicate]
      exact Or.inr (Or.inl rfl)
  · intro r hr; cases hr
  · show (List.replicate n ({} : Buf)).length ≤ maxBuffers
    rw [List.length_replicate]; exact hn
  · intro b hb; rw [hmem b hb]; decide

theorem abs_create (n init : Nat) : abs (create n init) = aCreate n := by
  unfold abs aCreate
  rw [toRefs_eq]
  simp [create, bodies]

end YaraModel.Arena
