/- C09 helper lemmas: frame property of `step`, the handler invariant, sequential prefix lemma. -/
import YaraModel.Model.Concurrent
namespace YaraModel.Concurrent

variable {ρ σ : Type}

theorem step_rules (prog : Nat → List (Act ρ σ)) (g : G ρ σ) (t : Nat) : (step prog g t).rules = g.rules := by
  unfold step; split
  · rfl
  · rfl
  · rfl
  · split <;> rfl

/-- frame: a step of `t` leaves every other thread's scanner state and program counter alone -/
theorem step_frame (prog : Nat → List (Act ρ σ)) (g : G ρ σ) (t u : Nat) (h : u ≠ t) :
    (step prog g t).st u = g.st u ∧ (step prog g t).pc u = g.pc u := by
  unfold step; split
  · exact ⟨rfl, rfl⟩
  · simp [upd, h]
  · simp [upd, h]
  · split <;> simp [upd, h]

/-- `seqRun` one action further -/
theorem seqRun_succ (rules : ρ) (l : List (Act ρ σ)) (k : Nat) (s : σ) :
    seqRun rules l (k + 1) s =
      match l[k]? with
      | some (.work f) => f rules (seqRun rules l k s)
      | _ => seqRun rules l k s := by
  induction l generalizing k s with
  | nil => simp [seqRun]
  | cons a rest ih =>
    cases k with
    | zero =>
      cases a <;> cases rest <;> simp [seqRun]
    | succ k =>
      have := ih k
      cases a with
      | work f => simp only [seqRun, List.getElem?_cons_succ]; exact ih k (f rules s)
      | enter => simp only [seqRun, List.getElem?_cons_succ]; exact ih k s
      | leave => simp only [seqRun, List.getElem?_cons_succ]; exact ih k s

/-- the per-thread invariant carried through any schedule -/
def Local (prog : Nat → List (Act ρ σ)) (st0 : Nat → σ) (g : G ρ σ) : Prop :=
  ∀ t, g.st t = seqRun g.rules (prog t) (g.pc t) (st0 t)

theorem step_local (prog : Nat → List (Act ρ σ)) (st0 : Nat → σ) (g : G ρ σ) (t : Nat)
    (h : Local prog st0 g) : Local prog st0 (step prog g t) := by
  intro u
  rw [step_rules]
  by_cases hu : u = t
  · subst hu
    have hs := seqRun_succ g.rules (prog u) (g.pc u) (st0 u)
    unfold step
    split
    · rename_i hn; exact h u
    · rename_i f hf
      simp only [upd, ite_true]
      rw [hs, hf]; simp only; rw [← h u]
    · rename_i hf
      simp only [upd, ite_true]
      rw [hs, hf]; exact h u
    · rename_i hf
      split <;> (simp only [upd, ite_true]; rw [hs, hf]; exact h u)
  · have := step_frame prog g t u hu
    rw [this.1, this.2]; exact h u

/-- the handler invariant (everything is relative to the handler `h0` that was installed before any scan) -/
structure HInv (h0 : Handler) (g : G ρ σ) : Prop where
  cnt : g.count = g.inside.length
  pos : 0 < g.count → g.cur = .yara ∧ g.saved = h0
  zero : g.count = 0 → g.cur = h0

theorem step_hinv (prog : Nat → List (Act ρ σ)) (h0 : Handler) (g : G ρ σ) (t : Nat)
    (h : HInv h0 g) : HInv h0 (step prog g t) := by
  unfold step
  split
  · exact h
  · exact ⟨h.cnt, h.pos, h.zero⟩
  · refine ⟨by simp [h.cnt], ?_, ?_⟩
    · intro _
      by_cases hc : g.count = 0
      · simp [hc, h.zero hc]
      · have := h.pos (Nat.pos_of_ne_zero hc); simp [hc, this.1, this.2]
    · intro hz; simp at hz
  · split
    · rename_i hmem
      have hlen : 0 < g.inside.length := List.length_pos_of_mem hmem
      have hpos : 0 < g.count := by have := h.cnt; omega
      have hp := h.pos hpos
      refine ⟨?_, ?_, ?_⟩
      · simp only [List.length_erase_of_mem hmem, h.cnt]
      · intro hgt
        simp only at hgt
        have : ¬ g.count - 1 = 0 := by omega
        simp only [this, ite_false]
        exact hp
      · intro hz
        simp only at hz
        simp only [hz, ite_true]
        exact hp.2
    · exact ⟨h.cnt, h.pos, h.zero⟩

theorem run_inv (prog : Nat → List (Act ρ σ)) (P : G ρ σ → Prop) (hstep : ∀ g t, P g → P (step prog g t))
    (g : G ρ σ) (sched : List Nat) (h : P g) : P (run prog g sched) := by
  unfold run
  induction sched generalizing g with
  | nil => exact h
  | cons t ts ih => exact ih (step prog g t) (hstep g t h)

theorem run_rules (prog : Nat → List (Act ρ σ)) (g : G ρ σ) (sched : List Nat) : (run prog g sched).rules = g.rules := by
  unfold run
  induction sched generalizing g with
  | nil => rfl
  | cons t ts ih => simp only [List.foldl_cons]; rw [ih, step_rules]

end YaraModel.Concurrent

namespace YaraModel.Concurrent

structure LInv (s : Lib) : Prop where
  cnt : s.count = s.users.length
  alive : s.alive = true ↔ 0 < s.count

theorem lstep_inv (s : Lib) (e : LibEv) (h : LInv s) : LInv (lstep s e) := by
  cases e with
  | init u => exact ⟨by simp [lstep, h.cnt], by simp [lstep]⟩
  | fin u =>
    by_cases hm : u ∈ s.users
    · have hl : 0 < s.users.length := List.length_pos_of_mem hm
      have hc : 0 < s.count := by have := h.cnt; omega
      have e1 : lstep s (.fin u) = { s with count := s.count - 1, alive := if s.count - 1 = 0 then false else s.alive, users := s.users.erase u } := by
        simp [lstep, hm]
      rw [e1]
      refine ⟨by simp only [List.length_erase_of_mem hm, h.cnt], ?_⟩
      simp only
      by_cases hz : s.count - 1 = 0
      · simp [hz]
      · simp only [hz, ite_false]
        constructor
        · intro _; omega
        · intro _; exact h.alive.mpr hc
    · have e2 : lstep s (.fin u) = { s with finErrors := s.finErrors + 1 } := by simp [lstep, hm]
      rw [e2]; exact ⟨h.cnt, h.alive⟩

theorem lrun_inv (evs : List LibEv) (s : Lib) (h : LInv s) : LInv (evs.foldl lstep s) := by
  induction evs generalizing s with
  | nil => exact h
  | cons e es ih => exact ih (lstep s e) (lstep_inv s e h)

end YaraModel.Concurrent
