/- C11 helper lemmas: the matching phase with `CALLBACK_MSG_TOO_MANY_MATCHES` (Model/Callback.lean
   `matchPhase` / `fullScan`) refines the warning protocol of Spec/Callback.lean. -/
import YaraModel.Lemmas.CallbackProps
namespace YaraModel.Cb

theorem verdict_tooMany (s : Nat) (a : Ret) :
    verdict (.tooManyMatches s) a = match a with | .cont => none | _ => some .tooManyMatches := by
  cases a <;> simp [verdict, Msg.isRule, Msg.isModule, Msg.isTooMany]

/-- what the code's state records after the occurrences `seen` -/
def MInv (limit : Nat) (seen : List Nat) (st : MatchSt) : Prop :=
  ∀ s, st.count s = min (seen.count s) limit ∧ (st.disabled.contains s = true ↔ limit < seen.count s)

theorem MInv_init (limit : Nat) : MInv limit [] .init := by
  intro s; simp [MatchSt.init]

theorem count_snoc (seen : List Nat) (s x : Nat) :
    (seen ++ [s]).count x = seen.count x + (if s = x then 1 else 0) := by
  simp [List.count_append, List.count_singleton]

theorem matchPhase_eq_play (limit : Nat) (es seen : List Nat) (st : MatchSt) (sc : List Ret)
    (h : MInv limit seen st) :
    (matchPhase limit es st sc).trace = (play (tooManyMsgsFrom limit seen es) sc).trace ∧
    (matchPhase limit es st sc).rest = (play (tooManyMsgsFrom limit seen es) sc).rest ∧
    (matchPhase limit es st sc).ok = (play (tooManyMsgsFrom limit seen es) sc).stopped.isNone ∧
    ((play (tooManyMsgsFrom limit seen es) sc).stopped = none ∨
      (play (tooManyMsgsFrom limit seen es) sc).stopped = some .tooManyMatches) ∧
    ((play (tooManyMsgsFrom limit seen es) sc).stopped = none →
      MInv limit (seen ++ es) (matchPhase limit es st sc).st) := by
  induction es generalizing seen st sc with
  | nil => simp [matchPhase, tooManyMsgsFrom, play, h]
  | cons s es ih =>
    have hs := h s
    rw [show seen ++ s :: es = (seen ++ [s]) ++ es by simp]
    simp only [matchPhase, tooManyMsgsFrom]
    cases hd : st.disabled.contains s with
    | true =>
      have hgt : limit < seen.count s := hs.2.1 hd
      have hne : seen.count s ≠ limit := by omega
      simp only [if_true, hne, if_false, List.nil_append]
      apply ih
      intro x
      rw [count_snoc]
      by_cases hx : s = x
      · subst hx; simp only [if_true]
        exact ⟨by rw [hs.1]; omega, ⟨fun _ => by omega, fun _ => hd⟩⟩
      · simp only [hx, if_false, Nat.add_zero]; exact h x
    | false =>
      have hle : ¬ limit < seen.count s := fun hc => by
        have := hs.2.2 hc; rw [hd] at this; cases this
      simp only [Bool.false_eq_true, if_false]
      by_cases hc : st.count s = limit
      · have hseen : seen.count s = limit := by rw [hs.1] at hc; omega
        simp only [hc, hseen, if_true, List.cons_append, List.nil_append]
        cases ha : (call sc).1 with
        | cont =>
          have hv : verdict (.tooManyMatches s) (call sc).1 = none := by rw [verdict_tooMany, ha]
          rw [play_cons_go _ hv]
          have hcs : call sc = (.cont, (call sc).2) := by rw [← ha]
          rw [hcs]
          simp only
          have hinv : MInv limit (seen ++ [s]) ⟨st.count, s :: st.disabled⟩ := by
            intro x
            rw [count_snoc]
            by_cases hx : s = x
            · subst hx; simp only [if_true]
              exact ⟨by rw [hs.1]; omega, by simp; omega⟩
            · have hx' : (x == s) = false := by simp [Ne.symm hx]
              simp only [hx, if_false, Nat.add_zero, List.contains_cons, hx', Bool.false_or]
              exact h x
          have := ih (seen ++ [s]) _ (call sc).2 hinv
          exact ⟨by rw [this.1], this.2.1, this.2.2.1, this.2.2.2.1, this.2.2.2.2⟩
        | abort =>
          have hv : verdict (.tooManyMatches s) (call sc).1 = some .tooManyMatches := by rw [verdict_tooMany, ha]
          rw [play_cons_stop _ hv]
          have hcs : call sc = (.abort, (call sc).2) := by rw [← ha]
          rw [hcs]
          simp
        | error =>
          have hv : verdict (.tooManyMatches s) (call sc).1 = some .tooManyMatches := by rw [verdict_tooMany, ha]
          rw [play_cons_stop _ hv]
          have hcs : call sc = (.error, (call sc).2) := by rw [← ha]
          rw [hcs]
          simp
      · have hlt : seen.count s < limit := by rw [hs.1] at hc; omega
        have hne : seen.count s ≠ limit := by omega
        simp only [hc, hne, if_false, List.nil_append]
        apply ih
        intro x
        rw [count_snoc]
        by_cases hx : s = x
        · subst hx; simp only [if_true]
          exact ⟨by rw [hs.1]; omega, by rw [hd]; simp; omega⟩
        · have hx' : ¬ x = s := fun e => hx e.symm
          simp only [hx, hx', if_false, Nat.add_zero]; exact h x

theorem matchPhase_count (limit : Nat) (events : List Nat) (sc : List Ret)
    (h : (play (tooManyMsgs limit events) sc).stopped = none) :
    (matchPhase limit events .init sc).st.count = specCount limit events := by
  funext s
  have := (matchPhase_eq_play limit events [] .init sc (MInv_init limit)).2.2.2.2 h s
  simpa [specCount] using this.1

/-- **Refinement** of the whole scan, matching phase included. -/
theorem fullScan_eq_specFullScan (limit : Nat) (events : List Nat) (rs : List SRule) (imports : List String)
    (fl : Flags) (script : List Ret) :
    fullScan limit events rs imports fl script = specFullScan limit events rs imports fl script := by
  obtain ⟨h1, h2, h3, h4, _⟩ := matchPhase_eq_play limit events [] .init script (MInv_init limit)
  simp only [fullScan, specFullScan, fullProtocol]
  rw [play_append]
  have htm : tooManyMsgsFrom limit [] events = tooManyMsgs limit events := rfl
  rw [htm] at h1 h2 h3 h4
  cases hs : (play (tooManyMsgs limit events) script).stopped with
  | some rc =>
    rcases h4 with h | h
    · rw [hs] at h; cases h
    · rw [hs] at h; cases h
      simp [h3, hs, h1]
  | none =>
    have hc := matchPhase_count limit events script hs
    simp only [h3, hs, Option.isNone_none, Bool.not_true, Bool.false_eq_true, if_false, h1, h2, hc,
      scan_eq_specScan, specScan]

/-! ### facts about the warning list -/

theorem tooManyMsgsFrom_isTooMany (limit : Nat) (seen es : List Nat) (m : Msg)
    (h : m ∈ tooManyMsgsFrom limit seen es) : m.isTooMany = true := by
  induction es generalizing seen with
  | nil => simp [tooManyMsgsFrom] at h
  | cons s es ih =>
    simp only [tooManyMsgsFrom, List.mem_append] at h
    rcases h with h | h
    · split at h <;> simp at h; subst h; rfl
    · exact ih _ h

/-- a string's warning is in the list exactly once if it overflows later on, not at all otherwise -/
theorem count_tooManyMsgsFrom (limit : Nat) (seen es : List Nat) (s : Nat) :
    (tooManyMsgsFrom limit seen es).count (.tooManyMatches s) =
      if seen.count s ≤ limit ∧ limit < (seen ++ es).count s then 1 else 0 := by
  induction es generalizing seen with
  | nil => simp [tooManyMsgsFrom]
  | cons x es ih =>
    have h1 : (seen ++ [x]).count s = seen.count s + (if x = s then 1 else 0) := count_snoc seen x s
    have h2 : ((seen ++ [x]) ++ es).count s = seen.count s + (if x = s then 1 else 0) + es.count s := by
      rw [List.count_append, h1]
    have h3 : (seen ++ x :: es).count s = seen.count s + (if x = s then 1 else 0) + es.count s := by
      rw [show seen ++ x :: es = (seen ++ [x]) ++ es by simp]; exact h2
    simp only [tooManyMsgsFrom]
    rw [List.count_append, ih (seen ++ [x]), h1, h2, h3]
    by_cases hx : x = s
    · subst hx
      simp only [if_true]
      by_cases hl : seen.count x = limit
      · rw [if_pos hl, if_neg (by omega), if_pos (by omega)]; simp
      · rw [if_neg hl]
        simp only [List.count_nil, Nat.zero_add]
        split <;> split <;> omega
    · have hc : (if seen.count x = limit then [Msg.tooManyMatches x] else []).count (.tooManyMatches s) = 0 := by
        split
        · simp [hx]
        · simp
      rw [hc]
      simp only [hx, if_false, Nat.add_zero, Nat.zero_add]

theorem count_tooManyMsgs (limit : Nat) (events : List Nat) (s : Nat) :
    (tooManyMsgs limit events).count (.tooManyMatches s) = if limit < events.count s then 1 else 0 := by
  simp [tooManyMsgs, count_tooManyMsgsFrom]

/-! ### rules that do not depend on an overflowing string -/

/-- no count comparison of the condition can tell `min occ limit` from `occ` -/
def SCond.limitFree (limit : Nat) (occ : Nat → Nat) : SCond → Prop
  | .lit _ => True
  | .str _ => True
  | .cnt s n => occ s ≤ limit ∨ n < limit
  | .rule _ => True
  | .not c => c.limitFree limit occ
  | .and a b => a.limitFree limit occ ∧ b.limitFree limit occ
  | .or a b => a.limitFree limit occ ∧ b.limitFree limit occ

theorem resolve_limitFree (limit : Nat) (hl : 0 < limit) (occ : Nat → Nat) (c : SCond)
    (h : c.limitFree limit occ) : c.resolve (fun s => min (occ s) limit) = c.resolve occ := by
  induction c with
  | lit b => rfl
  | str s => simp only [SCond.resolve]; congr 1; simp; omega
  | cnt s n =>
    simp only [SCond.limitFree] at h
    simp only [SCond.resolve]
    congr 1
    · simp; omega
    · simp; omega
  | rule j => rfl
  | not c ih => simp only [SCond.resolve]; rw [ih h]
  | and a b iha ihb => simp only [SCond.resolve]; rw [iha h.1, ihb h.2]
  | or a b iha ihb => simp only [SCond.resolve]; rw [iha h.1, ihb h.2]

/-! ### the whole scan through the refinement -/

theorem play_all_none (ms : List Msg) (s : List Ret)
    (h : ∀ (k : Nat) (m : Msg), ms[k]? = some m → verdict m (answer s k) = none) :
    play ms s = ⟨ms, none, s.drop ms.length⟩ := by
  induction ms generalizing s with
  | nil => simp [play]
  | cons m ms ih =>
    have h0 : verdict m (call s).1 = none := by rw [call_fst]; exact h 0 m rfl
    rw [play_cons_go _ h0]
    have hrest : (call s).2 = s.drop 1 := by cases s <;> rfl
    have := ih (call s).2 (fun k m' hk => by rw [answer_call_snd]; exact h (k + 1) m' (by simpa using hk))
    rw [this, hrest]
    simp

theorem fullScan_trace (limit : Nat) (events : List Nat) (rs : List SRule) (imports : List String)
    (fl : Flags) (script : List Ret) :
    (fullScan limit events rs imports fl script).1 =
      (play (fullProtocol limit events rs imports fl) script).trace := by
  rw [fullScan_eq_specFullScan]; rfl

theorem fullScan_rc (limit : Nat) (events : List Nat) (rs : List SRule) (imports : List String)
    (fl : Flags) (script : List Ret) :
    (fullScan limit events rs imports fl script).2 =
      (play (fullProtocol limit events rs imports fl) script).stopped.getD .success := by
  rw [fullScan_eq_specFullScan]; rfl

theorem fullScan_stop (limit : Nat) (events : List Nat) (rs : List SRule) (imports : List String)
    (fl : Flags) (script : List Ret) (k : Nat) (m : Msg) (rc : Rc)
    (hm : (fullScan limit events rs imports fl script).1[k]? = some m)
    (hv : verdict m (answer script k) = some rc) :
    (fullScan limit events rs imports fl script).1.length = k + 1 ∧
    (fullScan limit events rs imports fl script).2 = rc := by
  rw [fullScan_trace] at hm ⊢
  rw [fullScan_rc]
  have h := play_verdict _ _ k m hm
  rw [hv] at h
  by_cases hk : k + 1 = (play (fullProtocol limit events rs imports fl) script).trace.length
  · rw [if_pos hk] at h
    exact ⟨hk.symm, by rw [← h]; rfl⟩
  · rw [if_neg hk] at h; cases h

theorem isTooMany_eq {m : Msg} (h : m.isTooMany = true) : ∃ s, m = .tooManyMatches s := by
  cases m <;> simp_all [Msg.isTooMany]

theorem protocol_not_tooMany {rs : List Rule} {imports : List String} {fl : Flags} {m : Msg}
    (h : m ∈ protocol rs imports fl) : m.isTooMany = false := by
  simp only [protocol, List.mem_append, List.mem_singleton] at h
  rcases h with (h | h) | h
  · have := moduleMsgs_isModule h; cases m <;> simp_all [Msg.isModule, Msg.isTooMany]
  · have := ruleMsgs_isRule h; cases m <;> simp_all [Msg.isRule, Msg.isTooMany]
  · subst h; rfl

theorem fullProtocol_filter_tooMany (limit : Nat) (events : List Nat) (rs : List SRule) (imports : List String)
    (fl : Flags) : (fullProtocol limit events rs imports fl).filter Msg.isTooMany = tooManyMsgs limit events := by
  simp only [fullProtocol, List.filter_append]
  have h1 : (tooManyMsgs limit events).filter Msg.isTooMany = tooManyMsgs limit events := by
    rw [List.filter_eq_self]; intro a ha; exact tooManyMsgsFrom_isTooMany limit [] events a ha
  have h2 : (protocol (rs.map (SRule.resolve (specCount limit events))) imports fl).filter Msg.isTooMany = [] := by
    rw [List.filter_eq_nil_iff]; intro a ha; simp [protocol_not_tooMany ha]
  rw [h1, h2, List.append_nil]

theorem tooManyMsgs_eq_nil_iff (limit : Nat) (events : List Nat) :
    tooManyMsgs limit events = [] ↔ ∀ s, events.count s ≤ limit := by
  constructor
  · intro h s
    have := count_tooManyMsgs limit events s
    rw [h] at this
    by_cases hl : limit < events.count s
    · rw [if_pos hl] at this; simp at this
    · omega
  · intro h
    cases hm : tooManyMsgs limit events with
    | nil => rfl
    | cons m t =>
      exfalso
      have hmem : m ∈ tooManyMsgs limit events := by rw [hm]; simp
      obtain ⟨s, hs⟩ := isTooMany_eq (tooManyMsgsFrom_isTooMany limit [] events m hmem)
      subst hs
      have hc := count_tooManyMsgs limit events s
      have hpos : 0 < (tooManyMsgs limit events).count (.tooManyMatches s) := List.count_pos_iff.2 hmem
      rw [hc] at hpos
      have := h s
      split at hpos <;> omega

/-- all warnings answered with CONTINUE: they are all delivered, then an ordinary scan follows in
    which string `s` has `specCount … s` matches; the callback's later answers are unaffected -/
theorem fullScan_of_continue (limit : Nat) (events : List Nat) (rs : List SRule) (imports : List String)
    (fl : Flags) (script : List Ret)
    (hcont : ∀ k, k < (tooManyMsgs limit events).length → answer script k = .cont) :
    fullScan limit events rs imports fl script =
      (tooManyMsgs limit events ++
         (scan (rs.map (SRule.resolve (specCount limit events))) imports fl
            (script.drop (tooManyMsgs limit events).length)).1,
       (scan (rs.map (SRule.resolve (specCount limit events))) imports fl
            (script.drop (tooManyMsgs limit events).length)).2) := by
  have hp : play (tooManyMsgs limit events) script =
      ⟨tooManyMsgs limit events, none, script.drop (tooManyMsgs limit events).length⟩ := by
    apply play_all_none
    intro k m hk
    have hlt : k < (tooManyMsgs limit events).length := (List.getElem?_eq_some_iff.1 hk).1
    obtain ⟨s, hs⟩ := isTooMany_eq (tooManyMsgsFrom_isTooMany limit [] events m (List.mem_iff_getElem?.2 ⟨k, hk⟩))
    rw [hs, verdict_tooMany, hcont k hlt]
  rw [fullScan_eq_specFullScan]
  simp only [specFullScan, fullProtocol]
  rw [play_append, hp]
  simp only [scan_eq_specScan, specScan]

end YaraModel.Cb
