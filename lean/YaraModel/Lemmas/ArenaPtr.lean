/- Pointer <-> reference conversions of the arena model under the heap picture `RangesOk`,
   and save's passes as instances of `mapSlots`. -/
import YaraModel.Lemmas.ArenaSlots
namespace YaraModel.Arena
open YaraModel.Gen.ArenaLayout

theorem findBuf_test (b : Buf) (p : Nat) :
    (b.base ≠ 0 ∧ geLo ptrToRefLowerInclusive b.base p = true ∧ ltHi ptrToRefUpperExclusive p (b.base + b.data.length) = true)
      ↔ Hits b p := by
  simp [geLo, ltHi, ptrToRefLowerInclusive, ptrToRefUpperExclusive, Hits]

theorem findBuf_cons (p : Nat) (b : Buf) (t : List Buf) (k : Nat) :
    findBuf p (b :: t) k = if Hits b p then some ⟨k, p - b.base⟩ else findBuf p t (k + 1) := by
  simp only [findBuf, findBuf_test]

theorem Hits.not_of_apart {b c : Buf} {p : Nat} (hb : b.data.length ≤ b.cap) (hc : c.data.length ≤ c.cap)
    (ha : Apart b c) (h : Hits c p) : ¬ Hits b p := by
  unfold Hits Apart at *; omega

theorem findBuf_hit {l : List Buf} (hp : l.Pairwise Apart) (hf : ∀ b ∈ l, b.data.length ≤ b.cap)
    {j : Nat} (hj : j < l.length) {p : Nat} (h : Hits (l.getD j {}) p) (k : Nat) :
    findBuf p l k = some ⟨k + j, p - (l.getD j {}).base⟩ := by
  induction l generalizing j k with
  | nil => cases hj
  | cons b t ih =>
    rw [findBuf_cons]
    cases j with
    | zero => simp at h; simp [h]
    | succ j =>
      simp only [List.getD_cons_succ] at h ⊢
      have hj' : j < t.length := by simpa using hj
      have hmem : t.getD j {} ∈ t := by
        rw [List.getD_eq_getElem?_getD, List.getElem?_eq_getElem hj']; exact List.getElem_mem hj'
      have hnb : ¬ Hits b p :=
        Hits.not_of_apart (hf b (List.mem_cons_self ..)) (hf _ (List.mem_cons_of_mem _ hmem))
          ((List.pairwise_cons.1 hp).1 _ hmem) h
      simp only [hnb, if_false]
      rw [ih (List.pairwise_cons.1 hp).2 (fun c hc => hf c (List.mem_cons_of_mem _ hc)) hj' h]
      congr 2; omega

theorem ptrToRef_zero (bufs : List Buf) : ptrToRef bufs 0 = (true, none) := by simp [ptrToRef]

theorem ptrToRef_hit {bufs : List Buf} (hr : RangesOk bufs) {i : Nat} (hi : i < bufs.length) {p : Nat}
    (h : Hits (bufs.getD i {}) p) : ptrToRef bufs p = (true, some ⟨i, p - (bufs.getD i {}).base⟩) := by
  have hp : p ≠ 0 := by unfold Hits at h; omega
  unfold ptrToRef
  rw [if_neg hp, findBuf_hit hr.apart (fun b hb => (hr.fits b hb).1) hi h 0]
  simp

theorem refToPtr_some {bufs : List Buf} {i o : Nat} (hi : i < bufs.length) (ho : o ≤ (bufs.getD i {}).data.length) :
    refToPtr bufs (some ⟨i, o⟩) = .ok (if (bufs.getD i {}).base = 0 then 0 else (bufs.getD i {}).base + o) := by
  have e : bufs.getD i {} = bufs[i] := by simp [List.getD_eq_getElem?_getD, hi]
  rw [e] at ho ⊢
  simp [refToPtr, hi, ho]

theorem refToPtr_none (bufs : List Buf) : refToPtr bufs none = .ok 0 := rfl

/-! ### reference encoding -/

theorem encRef_lt (x : Option Ref) : encRef x < 2 ^ 64 := by
  cases x with
  | none => simp [encRef, nullRefVal]
  | some r =>
    simp only [encRef, refBufOff, refOffOff]
    have h1 := Nat.mod_lt r.buf (show 0 < 2 ^ 32 by decide)
    have h2 := Nat.mod_lt r.off (show 0 < 2 ^ 32 by decide)
    omega

theorem decRef_encRef_none : decRef (encRef none) = none := by
  simp [decRef, encRef, nullRefVal]

theorem decRef_encRef_some {r : Ref} (hb : r.buf < 2 ^ 32 - 1) (ho : r.off < 2 ^ 32) : decRef (encRef (some r)) = some r := by
  obtain ⟨b, o⟩ := r
  simp only at hb ho
  have hv : encRef (some ⟨b, o⟩) = b + o * 4294967296 := by
    simp only [encRef, refBufOff, refOffOff]
    rw [Nat.mod_eq_of_lt (by omega), Nat.mod_eq_of_lt ho]
    simp
  rw [hv]
  unfold decRef
  have hne : ¬ (b + o * 4294967296) % 2 ^ 64 = nullRefVal := by unfold nullRefVal; omega
  rw [if_neg hne]
  simp only [refBufOff, refOffOff, Option.some.injEq, Ref.mk.injEq]
  constructor <;> omega

/-! ### save's passes are in-place maps -/

theorem foldl_toRefsStep_fst (bufs : List Buf) (rs : List Ref) (x : Arena) (ok : Bool) :
    (rs.foldl (toRefsStep bufs) (x, ok)).1 = mapSlots (fun v => encRef (ptrToRef bufs v).2) rs x := by
  induction rs generalizing x ok with
  | nil => simp only [List.foldl_nil, mapSlots_nil]
  | cons r t ih => simp only [List.foldl_cons, mapSlots_cons, toRefsStep, ih]

theorem toRefs_eq (a : Arena) : toRefs a = mapSlots (fun v => encRef (ptrToRef a.bufs v).2) a.relocs a :=
  foldl_toRefsStep_fst ..

theorem foldl_toRefsStep_snd (bufs : List Buf) {rs : List Ref} {x : Arena} (h : SlotsOk x rs)
    (hv : ∀ r ∈ rs, (ptrToRef bufs (getSlot x r)).1 = true) :
    (rs.foldl (toRefsStep bufs) (x, true)).2 = true := by
  induction rs generalizing x with
  | nil => rfl
  | cons r t ih =>
    have ⟨hno, _⟩ := h.head
    simp only [List.foldl_cons, toRefsStep, hv r (List.mem_cons_self ..), Bool.and_self]
    apply ih (h.tail.setSlot r _)
    intro s hs
    rw [getSlot_setSlot_other _ (hno s hs)]
    exact hv s (List.mem_cons_of_mem _ hs)

/-! ### changing a buffer's capacity / address / dirtiness does not interact with slot writes -/

def setMeta (a : Arena) (i cap base : Nat) (dirty : Bool) : Arena :=
  { a with bufs := a.bufs.modify i (fun b => { b with cap := cap, base := base, dirty := dirty }) }

theorem setSlot_setMeta (a : Arena) (i cap base : Nat) (dirty : Bool) (r : Ref) (v : Nat) :
    setSlot (setMeta a i cap base dirty) r v = setMeta (setSlot a r v) i cap base dirty := by
  refine Arena.ext' ?_ (by rfl) (by rfl) (by rfl)
  simp only [setSlot, setMeta]
  by_cases h : i = r.buf
  · subst h
    rw [List.modify_modify_eq, List.modify_modify_eq]
    congr 1
  · rw [List.modify_modify_ne _ _ _ h]

theorem bufAt_setMeta_data (a : Arena) (i cap base : Nat) (dirty : Bool) (j : Nat) :
    ((setMeta a i cap base dirty).bufAt j).data = (a.bufAt j).data := by
  simp only [bufAt_eq, setMeta, List.getElem?_modify]
  by_cases h : i = j
  · subst h
    cases hh : a.bufs[i]? <;> simp
  · simp [h]

theorem getSlot_setMeta (a : Arena) (i cap base : Nat) (dirty : Bool) (r : Ref) :
    getSlot (setMeta a i cap base dirty) r = getSlot a r := by
  simp only [getSlot, bufAt_setMeta_data]

theorem mapSlots_setMeta (φ : Nat → Nat) (rs : List Ref) (a : Arena) (i cap base : Nat) (dirty : Bool) :
    mapSlots φ rs (setMeta a i cap base dirty) = setMeta (mapSlots φ rs a) i cap base dirty := by
  induction rs generalizing a with
  | nil => simp only [mapSlots_nil]
  | cons r t ih => simp only [mapSlots_cons, getSlot_setMeta, setSlot_setMeta, ih]

theorem bodies_setMeta (a : Arena) (i cap base : Nat) (dirty : Bool) : bodies (setMeta a i cap base dirty) = bodies a := by
  unfold bodies setMeta
  apply List.ext_getElem?
  intro j
  simp only [List.getElem?_map, List.getElem?_modify]
  by_cases h : i = j
  · subst h; cases a.bufs[i]? <;> simp
  · simp [h]

end YaraModel.Arena
