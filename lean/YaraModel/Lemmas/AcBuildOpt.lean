/- Aho-Corasick construction, helper lemmas 7: `_yr_ac_optimize_failure_links` keeps the transition function -/
import YaraModel.Lemmas.AcBuildLinks
namespace YaraModel.AC.Build
open YaraModel.Text YaraModel.AC

/-- what the scanner needs from a (possibly shortened) failure link: it leads to a strictly shallower state from which every
    byte `x` has no transition on reaches the same longest path-suffix -/
def FailInv (A : Auto) (x : Nat) : Prop :=
  (A.st x).failure < A.states.size ∧ (A.st (A.st x).failure).depth < (A.st x).depth ∧
  ∀ c : UInt8, (∀ n ∈ (A.st x).children, (A.st n).input ≠ c) →
    lsuf (pathsOf A) ((A.st (A.st x).failure).path ++ [c]) = lsuf (pathsOf A) ((A.st x).path ++ [c])

def allLk (A : Auto) : Nat → Prop := fun x => 0 < x ∧ x < A.states.size

/-- the final match lists: the list of every state is the entries of the atoms that are suffixes of its path, longest
    first, among equal atoms the newest first (`specList`) -/
structure MF (A : Auto) (atoms : List (Nat × Atom)) : Prop where
  trie : Trie A
  pool_size : A.pool.size = atoms.length
  pool_info : ∀ (e : Nat) (a : Nat × Atom), atoms[e]? = some a →
    ∃ nx, A.pool[e]? = some (a.1, a.2.bytes.length + a.2.backtrack, nx)
  atoms_in : ∀ a ∈ atoms, ∃ s, s < A.states.size ∧ (A.st s).path = a.2.bytes
  chain : ∀ x, x < A.states.size → ChainSeg A.pool (A.st x).matchesRef (specList atoms (A.st x).path) 0

structure I3 (A : Auto) (atoms : List (Nat × Atom)) : Prop where
  mf : MF A atoms
  root_fail : (A.st 0).failure = 0
  fail : ∀ x, 0 < x → x < A.states.size → FailInv A x

theorem MF.congr {A B : Auto} {atoms : List (Nat × Atom)} (h : MF A atoms) (hs : Same A B)
    (hp : B.pool = A.pool) (hr : ∀ j, (B.st j).matchesRef = (A.st j).matchesRef) : MF B atoms := by
  refine ⟨h.trie.congr hs.1 hs.2, by rw [hp]; exact h.pool_size, by rw [hp]; exact h.pool_info, ?_, ?_⟩
  · intro a ha
    obtain ⟨s, h1, h2⟩ := h.atoms_in a ha
    exact ⟨s, by rw [hs.1]; exact h1, by rw [shape_path (hs.2 s)]; exact h2⟩
  · intro x hx
    rw [hs.1] at hx
    rw [hp, hr, shape_path (hs.2 x)]; exact h.chain x hx

theorem MF_of_I2 {A : Auto} {atoms : List (Nat × Atom)} (h : I2 A atoms (allLk A) (allLk A)) : MF A atoms := by
  refine ⟨h.ms.trie, h.ms.pool_size, h.ms.pool_info, h.ms.atoms_in, ?_⟩
  intro x hx
  apply h.ms.complete_chain _ x rfl ?_ hx (fun g h0 hg _ => ⟨h0, hg⟩)
  rcases Nat.eq_zero_or_pos x with e | e
  · exact Or.inl e
  · exact Or.inr ⟨e, hx⟩

theorem I3_of_I2 {A : Auto} {atoms : List (Nat × Atom)} (h : I2 A atoms (allLk A) (allLk A)) : I3 A atoms := by
  have hT := h.ms.trie
  refine ⟨MF_of_I2 h, h.root_fail, ?_⟩
  intro x h0 hx
  obtain ⟨h1, h2⟩ := h.fail x ⟨h0, hx⟩
  have hne := hT.path_ne_nil hx h0
  refine ⟨h1, ?_, ?_⟩
  · rw [hT.depth_eq _ h1, hT.depth_eq x hx, h2]
    have := lsuf_length_le (pathsOf A) (A.st x).path.tail
    cases hp : (A.st x).path with
    | nil => exact absurd hp hne
    | cons a t => rw [hp] at this; simp at this ⊢; omega
  · intro c hno
    have hnp := hT.not_path_of_no_child hx hno
    rw [lsuf_fail_step _ hT.nil_mem hT.prefixClosed _ c hne hnp, h2]

theorem transitionsSubset_spec {A : Auto} {s1 s2 : Nat} (h : transitionsSubset A s1 s2 = true) (c : UInt8)
    (hno : ∀ n ∈ (A.st s1).children, (A.st n).input ≠ c) : ∀ n ∈ (A.st s2).children, (A.st n).input ≠ c := by
  unfold transitionsSubset at h
  rw [List.all_eq_true] at h
  intro n hn e
  have := h n hn
  rw [List.any_eq_true] at this
  obtain ⟨m, hm, he⟩ := this
  have he' : (A.st m).input = (A.st n).input := by simpa using he
  exact hno m hm (he'.trans e)

theorem optStep_I3 {A : Auto} {atoms : List (Nat × Atom)} (h : I3 A atoms) (cur : Nat) :
    Same A (optStep A cur) ∧ I3 (optStep A cur) atoms := by
  unfold optStep
  simp only
  split
  · rename_i hc
    simp only [Bool.and_eq_true, decide_eq_true_eq] at hc
    obtain ⟨hf0, hsub⟩ := hc
    have hf0' : (A.st cur).failure ≠ 0 := by simpa using hf0
    -- `cur` is a real non-root state
    have hcs : cur < A.states.size := by
      apply Nat.lt_of_not_le
      intro hle
      rw [st_default A cur hle] at hf0'
      exact hf0' rfl
    have hc0 : 0 < cur := by
      rcases Nat.eq_zero_or_pos cur with e | e
      · subst e; exact absurd h.root_fail hf0'
      · exact e
    obtain ⟨c1, c2, c3⟩ := h.fail cur hc0 hcs
    obtain ⟨f1, f2, f3⟩ := h.fail (A.st cur).failure (by omega) c1
    have hs : Same A (A.modify cur fun x => { x with failure := (A.st (A.st cur).failure).failure }) :=
      same_modify A cur (fun x => { x with failure := (A.st (A.st cur).failure).failure }) (fun _ => ⟨rfl, rfl, rfl, rfl⟩)
    refine ⟨hs, ?_⟩
    generalize hB : (A.modify cur fun x => { x with failure := (A.st (A.st cur).failure).failure }) = B at hs
    have hst : ∀ j, B.st j = if j = cur then { A.st cur with failure := (A.st (A.st cur).failure).failure } else A.st j := by
      intro j
      rw [← hB, st_modify]
      by_cases e : j = cur
      · subst e; simp [hcs]
      · simp [e]
    have hP : pathsOf B = pathsOf A := pathsOf_congr hs.1 hs.2
    refine ⟨?_, ?_, ?_⟩
    · apply h.mf.congr hs (by rw [← hB]; rfl)
      intro j; rw [hst]; split
      · rename_i e; rw [e]
      · rfl
    · rw [hst, if_neg (by omega)]; exact h.root_fail
    · intro x h0 hx
      rw [hs.1] at hx
      unfold FailInv
      rw [hP, hs.1, shape_path (hs.2 x), shape_depth (hs.2 x), shape_children (hs.2 x)]
      by_cases e : x = cur
      · subst e
        have hfx : (B.st x).failure = (A.st (A.st x).failure).failure := by rw [hst, if_pos rfl]
        rw [hfx, shape_path (hs.2 _), shape_depth (hs.2 _)]
        refine ⟨f1, by omega, ?_⟩
        intro c hno
        have hno' : ∀ n ∈ (A.st x).children, (A.st n).input ≠ c := by
          intro n hn; have := hno n hn; rwa [shape_input (hs.2 n)] at this
        rw [f3 c (transitionsSubset_spec hsub c hno'), c3 c hno']
      · have hfx : (B.st x).failure = (A.st x).failure := by rw [hst, if_neg e]
        rw [hfx, shape_path (hs.2 _), shape_depth (hs.2 _)]
        obtain ⟨x1, x2, x3⟩ := h.fail x h0 hx
        refine ⟨x1, x2, ?_⟩
        intro c hno
        apply x3 c
        intro n hn; have := hno n hn; rwa [shape_input (hs.2 n)] at this
  · exact ⟨Same.refl A, h⟩

/-- **`_yr_ac_optimize_failure_links`** -/
theorem optimizeFailureLinks_I3 {A : Auto} {atoms : List (Nat × Atom)} (h : I3 A atoms) :
    Same A (optimizeFailureLinks A) ∧ I3 (optimizeFailureLinks A) atoms := by
  unfold optimizeFailureLinks
  apply bfs_invariant kids optStep (fun B => Same A B ∧ I3 B atoms)
  · intro B s hB
    have := optStep_I3 hB.2 s
    exact ⟨hB.1.trans this.1, this.2⟩
  · exact ⟨Same.refl A, h⟩

end YaraModel.AC.Build
