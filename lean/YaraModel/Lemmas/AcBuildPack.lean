/- Aho-Corasick construction, helper lemmas 8: transition encoding, first-fit slot search, placing a state's children -/
import YaraModel.Lemmas.AcBuildOpt
namespace YaraModel.AC.Build
open YaraModel.Text YaraModel.AC

/-! ### `YR_AC_MAKE_TRANSITION` / `YR_AC_NEXT_STATE` / `YR_AC_INVALID_TRANSITION` -/

theorem mk_toNat (a b : Nat) (ha : a < 2 ^ 23) (hb : b < 512) : (mkTransition a b).toNat = a * 512 + b := by
  unfold mkTransition
  rw [UInt32.toNat_or, UInt32.toNat_shiftLeft]
  simp only [UInt32.toNat_ofNat']
  have h1 : a % 2 ^ 32 = a := Nat.mod_eq_of_lt (by omega)
  have h2 : b % 2 ^ 32 = b := Nat.mod_eq_of_lt (by omega)
  rw [h1, h2]
  have h3 : (9 : UInt32).toNat % 32 = 9 := by decide
  rw [h3, Nat.shiftLeft_eq]
  have h4 : a * 2 ^ 9 % 2 ^ 32 = a * 2 ^ 9 := Nat.mod_eq_of_lt (by omega)
  rw [h4]
  have := Nat.shiftLeft_add_eq_or_of_lt (i := 9) (b := b) (by omega) a
  rw [Nat.shiftLeft_eq] at this
  rw [← this]

/-- the owner-offset field of an entry, whatever the target -/
theorem low9_mk (a b : Nat) (hb : b < 512) : ((mkTransition a b) &&& 0x1FF).toNat = b := by
  unfold mkTransition
  rw [UInt32.toNat_and, UInt32.toNat_or, UInt32.toNat_shiftLeft]
  simp only [UInt32.toNat_ofNat']
  have h3 : (9 : UInt32).toNat % 32 = 9 := by decide
  have h5 : (0x1FF : UInt32).toNat = 2 ^ 9 - 1 := by decide
  rw [h3, h5, Nat.and_two_pow_sub_one_eq_mod, Nat.or_mod_two_pow, Nat.shiftLeft_eq]
  have h6 : (a % 2 ^ 32 * 2 ^ 9 % 2 ^ 32) % 2 ^ 9 = 0 := by
    rw [Nat.mod_mod_of_dvd _ (by decide : 2 ^ 9 ∣ 2 ^ 32)]
    exact Nat.mul_mod_left _ _
  have h7 : b % 2 ^ 32 % 2 ^ 9 = b := by omega
  rw [h6, h7]; simp

theorem nextOf_mk (a b : Nat) (ha : a < 2 ^ 23) (hb : b < 512) : nextOf (mkTransition a b) = a := by
  unfold nextOf
  rw [UInt32.toNat_shiftRight, mk_toNat a b ha hb]
  have h3 : (9 : UInt32).toNat % 32 = 9 := by decide
  rw [h3, Nat.shiftRight_eq_div_pow]
  omega

theorem mk_or (c s : Nat) : mkTransition 0 c ||| (UInt32.ofNat s <<< 9) = mkTransition s c := by
  unfold mkTransition
  have : (UInt32.ofNat 0 <<< 9) = 0 := by decide
  rw [this, UInt32.zero_or, UInt32.or_comm]

theorem mk_zero : mkTransition 0 0 = 0 := by decide

def low9 (tr : UInt32) : Nat := (tr &&& 0x1FF).toNat

theorem low9_zero : low9 0 = 0 := by decide

theorem invalid_iff (tr : UInt32) (index : Nat) : invalid tr index = true ↔ low9 tr ≠ index := by
  unfold invalid low9; simp

theorem invalid_false_iff (tr : UInt32) (index : Nat) : invalid tr index = false ↔ low9 tr = index := by
  unfold invalid low9; simp

/-! ### arrays -/

theorem getD_set {α : Type} (a : Array α) (i j : Nat) (v d : α) :
    (a.setIfInBounds i v).getD j d = if j = i ∧ i < a.size then v else a.getD j d := by
  simp only [Array.getD_eq_getD_getElem?, Array.getElem?_setIfInBounds]
  by_cases h : i = j
  · subst h
    by_cases h2 : i < a.size
    · simp [h2]
    · simp [h2]
  · have : ¬ (j = i ∧ i < a.size) := fun hh => h hh.1.symm
    simp [h, this]

theorem getD_growBy {α : Type} (a : Array α) (n j : Nat) (d : α) : (growBy a n d).getD j d = a.getD j d := by
  unfold growBy
  simp only [Array.getD_eq_getD_getElem?, Array.getElem?_append, Array.getElem?_replicate]
  by_cases h : j < a.size
  · simp [h]
  · simp only [h, if_false]
    rw [Array.getElem?_eq_none (by omega)]
    split <;> rfl

@[simp] theorem size_growBy {α : Type} (a : Array α) (n : Nat) (v : α) : (growBy a n v).size = a.size + n := by
  simp [growBy]

/-! ### first fit -/

theorem fits_iff (used : Array Bool) (inputs : List UInt8) (p : Nat) :
    fits used inputs p = true ↔ isUsed used p = false ∧ ∀ c ∈ inputs, isUsed used (p + c.toNat + 1) = false := by
  unfold fits
  simp [List.all_eq_true]

theorem isUsed_oob (used : Array Bool) (p : Nat) (h : used.size ≤ p) : isUsed used p = false := by
  unfold isUsed
  simp [Array.getD_eq_getD_getElem?, Array.getElem?_eq_none h]

theorem fits_oob (used : Array Bool) (inputs : List UInt8) (p : Nat) (h : used.size ≤ p) : fits used inputs p = true := by
  rw [fits_iff]
  exact ⟨isUsed_oob used p h, fun c _ => isUsed_oob used _ (by omega)⟩

theorem firstFit_spec (used : Array Bool) (inputs : List UInt8) (lenA : Nat) : ∀ (fuel p : Nat),
    firstFit used inputs lenA fuel p ≤ lenA ∧
    (firstFit used inputs lenA fuel p < lenA → fits used inputs (firstFit used inputs lenA fuel p) = true) := by
  intro fuel
  induction fuel with
  | zero => intro p; simp [firstFit]
  | succ f ih =>
    intro p
    simp only [firstFit]
    split
    · simp
    · split
      · rename_i h1 h2; exact ⟨by omega, fun _ => h2⟩
      · exact ih (p + 1)

theorem findOffset_spec (used : Array Bool) (inputs : List UInt8) (cand : Nat) :
    (findOffset used inputs used.size cand).1 ≤ used.size ∧ fits used inputs (findOffset used inputs used.size cand).1 = true := by
  unfold findOffset
  simp only
  have := firstFit_spec used inputs used.size (used.size + 1) (skipFull used used.size (used.size / 64 + 2) (cand / 64) * 64)
  refine ⟨this.1, ?_⟩
  rcases Nat.lt_or_ge (firstFit used inputs used.size (used.size + 1) (skipFull used used.size (used.size / 64 + 2) (cand / 64) * 64)) used.size with h | h
  · exact this.2 h
  · exact fits_oob used inputs _ h

/-- the table part of a `Pack` is well-formed: the three arrays have the same size -/
def Sized (P : Pack) : Prop := P.m.size = P.t.size ∧ P.used.size = P.t.size ∧ 512 ≤ P.t.size

def inputsOf (A : Auto) (s : Nat) : List UInt8 := (A.st s).children.map fun ch => (A.st ch).input

/-- `_yr_ac_find_suitable_transition_table_slot`: a free slot with room for a whole row; the tables only gain zero entries -/
theorem findSlot_spec (P : Pack) (s : Nat) (hz : Sized P) :
    (findSlot P s).1.A = P.A ∧ Sized (findSlot P s).1 ∧ P.t.size ≤ (findSlot P s).1.t.size ∧
    (∀ i, (findSlot P s).1.t.getD i 0 = P.t.getD i 0) ∧ (∀ i, (findSlot P s).1.m.getD i 0 = P.m.getD i 0) ∧
    (∀ i, isUsed (findSlot P s).1.used i = isUsed P.used i) ∧
    (findSlot P s).2 + 256 < (findSlot P s).1.t.size ∧ fits P.used (inputsOf P.A s) (findSlot P s).2 = true ∧
    ((findSlot P s).1.ok = true → P.ok = true ∧ (findSlot P s).2 < 2 ^ 23) := by
  obtain ⟨z1, z2, z3⟩ := hz
  have hsz : P.size = P.used.size := by unfold Pack.size; omega
  have hfo := findOffset_spec P.used (inputsOf P.A s) P.cand
  unfold findSlot
  simp only
  rw [hsz]
  change _ ∧ _ ∧ _ ∧ _ ∧ _ ∧ _ ∧ _ ∧ fits P.used (inputsOf P.A s) _ = true ∧ _
  generalize hr : findOffset P.used (inputsOf P.A s) P.used.size P.cand = r at hfo
  have hr' : findOffset P.used (List.map (fun ch => (P.A.st ch).input) (P.A.st s).children) P.used.size P.cand = r := hr
  rw [hr']
  have hok : ∀ (b : Bool), (b && decide (r.1 + 257 < 0x800000)) = true → b = true ∧ r.1 < 2 ^ 23 := by
    intro b hb
    simp only [Bool.and_eq_true, decide_eq_true_eq] at hb
    exact ⟨hb.1, by omega⟩
  split
  · rename_i hgt
    simp only [Pack.size] at hgt
    refine ⟨rfl, ⟨by simp; omega, by simp; omega, by simp; omega⟩, by simp, ?_, ?_, ?_, ?_, hfo.2, hok _⟩
    · intro i; exact getD_growBy P.t 257 i 0
    · intro i; exact getD_growBy P.m 257 i 0
    · intro i; unfold isUsed; exact getD_growBy P.used 257 i false
    · simp; omega
  · rename_i hgt
    simp only [Pack.size] at hgt
    refine ⟨rfl, ⟨z1, z2, z3⟩, Nat.le_refl _, fun _ => rfl, fun _ => rfl, fun _ => rfl, ?_, hfo.2, hok _⟩
    simp only
    omega

end YaraModel.AC.Build
