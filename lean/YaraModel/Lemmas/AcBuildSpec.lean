/- Aho-Corasick construction, helper lemmas 4b: the ordered specification list `specList` -/
import YaraModel.Lemmas.AcBuildPool
namespace YaraModel.AC.Build
open YaraModel.Text YaraModel.AC

/-- the 1-based reference of the head of a list of entries (0 = empty) -/
def headRef : List Nat → Nat
  | [] => 0
  | e :: _ => e + 1

theorem headRef_append (l1 l2 : List Nat) : headRef (l1 ++ l2) = if l1 = [] then headRef l2 else headRef l1 := by
  cases l1 <;> simp [headRef]

theorem ChainSeg.head_eq {pool : Array (Nat × Nat × Nat)} {r tl : Nat} {l : List Nat} (h : ChainSeg pool r l tl) :
    r = if l = [] then tl else headRef l := by
  cases l with
  | nil => simpa [ChainSeg] using h
  | cons e l => simp only [ChainSeg] at h; simp [headRef, h.1]

theorem mem_specList {atoms : List (Nat × Atom)} {e : Nat} : ∀ (w : Bytes),
    e ∈ specList atoms w ↔ ∃ a, atoms[e]? = some a ∧ a.2.bytes <:+ w := by
  intro w
  induction w with
  | nil =>
    simp only [specList, mem_ownIdx]
    constructor
    · rintro ⟨a, h1, h2⟩; exact ⟨a, h1, by rw [h2]; exact List.suffix_refl _⟩
    · rintro ⟨a, h1, h2⟩; exact ⟨a, h1, List.eq_nil_of_suffix_nil h2⟩
  | cons c t ih =>
    simp only [specList, List.mem_append, mem_ownIdx, ih]
    constructor
    · rintro (⟨a, h1, h2⟩ | ⟨a, h1, h2⟩)
      · exact ⟨a, h1, by rw [h2]; exact List.suffix_refl _⟩
      · exact ⟨a, h1, h2.trans (List.suffix_cons c t)⟩
    · rintro ⟨a, h1, h2⟩
      rcases List.suffix_cons_iff.mp h2 with h | h
      · exact Or.inl ⟨a, h1, h⟩
      · exact Or.inr ⟨a, h1, h⟩

theorem specList_nodup (atoms : List (Nat × Atom)) : ∀ (w : Bytes), (specList atoms w).Nodup := by
  intro w
  induction w with
  | nil => exact ownIdx_nodup _ _
  | cons c t ih =>
    simp only [specList]
    rw [List.nodup_append]
    refine ⟨ownIdx_nodup _ _, ih, ?_⟩
    intro a ha b hb e
    subst e
    obtain ⟨a1, h1, h2⟩ := mem_ownIdx.mp ha
    obtain ⟨a2, h3, h4⟩ := (mem_specList t).mp hb
    rw [h1] at h3; cases h3
    have := h4.length_le
    rw [h2] at this
    simp at this
    omega

theorem specList_length_le (atoms : List (Nat × Atom)) (w : Bytes) : (specList atoms w).length ≤ atoms.length := by
  apply nodup_length_le _ _ (specList_nodup atoms w)
  intro e he
  obtain ⟨a, ha, _⟩ := (mem_specList w).mp he
  exact (List.getElem?_eq_some_iff.mp ha).1

/-- only paths carry entries, so the list of `w` is the list of its longest path-suffix -/
theorem specList_lsuf {atoms : List (Nat × Atom)} {P : List Bytes} (hin : ∀ (e : Nat) (a : Nat × Atom), atoms[e]? = some a → a.2.bytes ∈ P) :
    ∀ (w : Bytes), specList atoms w = specList atoms (lsuf P w) := by
  intro w
  induction w with
  | nil => rfl
  | cons c t ih =>
    by_cases h : c :: t ∈ P
    · rw [lsuf_of_mem P _ h]
    · rw [lsuf_of_not_mem P c t h, ← ih]
      simp only [specList]
      have : ownIdx atoms (c :: t) = [] := by
        apply List.eq_nil_iff_forall_not_mem.mpr
        intro e he
        obtain ⟨a, ha, hp⟩ := mem_ownIdx.mp he
        exact h (hp ▸ hin e a ha)
      rw [this, List.nil_append]

theorem specList_of_ne_nil (atoms : List (Nat × Atom)) (w : Bytes) (h : w ≠ []) :
    specList atoms w = ownIdx atoms w ++ specList atoms w.tail := by
  cases w with
  | nil => exact absurd rfl h
  | cons c t => rfl

end YaraModel.AC.Build
