/- C12 flags: a condition that needs some string (`needsMatch`) is false when no string of the rule matched -/
import YaraModel.Lemmas.CondFlags
namespace YaraModel.Cond

theorem matchesOf_nil (env : Env) (h0 : ∀ n, env.strs.getD n [] = []) (l : LEnv) (s : SRef) : env.matchesOf l s = [] := by
  cases s with
  | id m => exact h0 m
  | cur =>
    simp only [Env.matchesOf]
    cases l.cur with
    | none => rfl
    | some m => exact h0 m

theorem asBool_undef : asBool .undef = false := by decide
theorem asBool_false : asBool (.bool false) = false := by decide

theorem countP_strFound_nil (env : Env) (h0 : ∀ n, env.strs.getD n [] = []) (set : List Nat) :
    set.countP (strFound env) = 0 := by
  rw [List.countP_eq_zero]
  intro m _
  unfold strFound
  rw [h0 m]
  decide

theorem countP_any_nil (env : Env) (h0 : ∀ n, env.strs.getD n [] = []) (set : List Nat) (p : Int × Int → Bool) :
    set.countP (fun m => (env.strs.getD m []).any p) = 0 := by
  rw [List.countP_eq_zero]
  intro m _
  rw [h0 m]
  simp

/-- with nothing found, a quantifier that asks for at least one string of a non-empty set fails -/
theorem quant_needs (q : QKind) (qe : Expr) (v : Val) (n : Nat) (hn : n ≠ 0)
    (hq : (match q, qe with
        | .all, _ => true
        | .any, _ => true
        | .num, .int k => decide (k > 0)
        | _, _ => false) = true)
    (hv : ∀ k, qe = .int k → v = .int k) :
    asBool (quantHolds (quantOf q v) 0 n) = false := by
  cases q with
  | all =>
    have : (0 == n) = false := by simp; omega
    simp [quantOf, quantHolds, this, asBool_false]
  | any => simp [quantOf, quantHolds, asBool, truthy]
  | none => simp at hq
  | num =>
    cases qe with
    | int k =>
      have hk : k > 0 := by simpa using hq
      rw [hv k rfl]
      have h0 : (k == 0) = false := by simp; omega
      have h1 : ¬ (k ≤ 0) := by omega
      simp [quantOf, quantHolds, h0, h1, asBool, truthy]
    | _ => simp at hq

theorem needsMatch_false (env : Env) (h0 : ∀ n, env.strs.getD n [] = []) :
    ∀ (e : Expr) (l : LEnv), needsMatch e = true → asBool (eval env l e) = false
  | .found s, l, _ => by simp [eval, matchesOf_nil env h0, asBool, truthy]
  | .foundAt s pos, l, _ => by
    simp only [eval, matchesOf_nil env h0, vFoundAt]
    split <;> simp [asBool, truthy]
  | .foundIn s lo hi, l, _ => by
    simp only [eval, matchesOf_nil env h0, vFoundIn]
    split <;> simp [asBool, truthy]
  | .ofStr q qe set, l, h => by
    simp only [needsMatch, Bool.and_eq_true, Bool.not_eq_true', List.isEmpty_eq_false_iff] at h
    simp only [eval, countP_strFound_nil env h0]
    exact quant_needs q qe _ _ (by simpa using h.1) h.2 (fun k hk => by subst hk; simp [eval])
  | .ofStrIn q qe set lo hi, l, h => by
    simp only [needsMatch, Bool.and_eq_true, Bool.not_eq_true', List.isEmpty_eq_false_iff] at h
    simp only [eval]
    split
    · simp only [countP_any_nil env h0]
      exact quant_needs q qe _ _ (by simpa using h.1) h.2 (fun k hk => by subst hk; simp [eval])
    · exact asBool_undef
  | .ofStrAt q qe set pos, l, h => by
    simp only [needsMatch, Bool.and_eq_true, Bool.not_eq_true', List.isEmpty_eq_false_iff] at h
    simp only [eval]
    split
    · simp only [countP_any_nil env h0]
      exact quant_needs q qe _ _ (by simpa using h.1) h.2 (fun k hk => by subst hk; simp [eval])
    · exact asBool_undef
  | .pctStr (.int p) set, l, h => by
    simp only [needsMatch, Bool.and_eq_true, Bool.not_eq_true', List.isEmpty_eq_false_iff, decide_eq_true_eq] at h
    have hn : (0 : Int) < (set.length : Int) := by
      have : set.length ≠ 0 := by simpa using h.1
      omega
    have hp : 0 < p * (set.length : Int) := Int.mul_pos (by omega) hn
    have : ¬ ((0 : Int) * 100 ≥ p * (set.length : Int)) := by omega
    simp [eval, countP_strFound_nil env h0, pctHolds, asBool, truthy, hp]
  | .and a b, l, h => by
    simp only [needsMatch, Bool.or_eq_true] at h
    simp only [eval, vAnd]
    rcases h with h | h
    · simp only [needsMatch_false env h0 a l h, Bool.false_and, asBool_false]
    · simp only [needsMatch_false env h0 b l h, Bool.and_false, asBool_false]
  | .or a b, l, h => by
    simp only [needsMatch, Bool.and_eq_true] at h
    simp only [eval, vOr]
    simp only [needsMatch_false env h0 a l h.1, needsMatch_false env h0 b l h.2, Bool.or_self, asBool_false]
  | .int _, _, h | .flt _, _, h | .str _, _, h | .filesize, _, h | .ext _, _, h | .var _, _, h | .undefOf _, _, h
  | .count _, _, h | .countIn .., _, h | .offset .., _, h | .length .., _, h | .read .., _, h | .neg _, _, h
  | .bnot _, _, h | .arith .., _, h | .tt, _, h | .ff, _, h | .cmp .., _, h | .strop .., _, h | .matches .., _, h
  | .not _, _, h | .defined _, _, h | .ruleRef _, _, h | .ofRules .., _, h | .pctRules .., _, h
  | .forRange .., _, h | .forEnum .., _, h | .forOf .., _, h => by simp [needsMatch] at h
  | .pctStr (.flt _) _, _, h | .pctStr (.str _) _, _, h | .pctStr .filesize _, _, h | .pctStr (.ext _) _, _, h
  | .pctStr (.var _) _, _, h | .pctStr (.undefOf _) _, _, h | .pctStr (.count _) _, _, h | .pctStr (.countIn ..) _, _, h
  | .pctStr (.offset ..) _, _, h | .pctStr (.length ..) _, _, h | .pctStr (.read ..) _, _, h | .pctStr (.neg _) _, _, h
  | .pctStr (.bnot _) _, _, h | .pctStr (.arith ..) _, _, h | .pctStr .tt _, _, h | .pctStr .ff _, _, h
  | .pctStr (.found _) _, _, h | .pctStr (.foundAt ..) _, _, h | .pctStr (.foundIn ..) _, _, h | .pctStr (.cmp ..) _, _, h
  | .pctStr (.strop ..) _, _, h | .pctStr (.matches ..) _, _, h | .pctStr (.not _) _, _, h | .pctStr (.defined _) _, _, h
  | .pctStr (.and ..) _, _, h | .pctStr (.or ..) _, _, h | .pctStr (.ruleRef _) _, _, h | .pctStr (.ofStr ..) _, _, h
  | .pctStr (.ofStrIn ..) _, _, h | .pctStr (.ofStrAt ..) _, _, h | .pctStr (.pctStr ..) _, _, h
  | .pctStr (.ofRules ..) _, _, h | .pctStr (.pctRules ..) _, _, h | .pctStr (.forRange ..) _, _, h
  | .pctStr (.forEnum ..) _, _, h | .pctStr (.forOf ..) _, _, h => by simp [needsMatch] at h

end YaraModel.Cond
