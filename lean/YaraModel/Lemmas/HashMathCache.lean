/- C14 helper lemmas: the per-scan digest cache is transparent. -/
import YaraModel.Model.HashMath
namespace YaraModel.HM

/-- What a call computes without any cache. -/
def fresh {D : Type} (H : Alg → Bytes → D) (blocks : List Block) (a : Alg) (off len : Int) : Option D :=
  (rangeWalk blocks off len).map (H a)

theorem Alg.ns_inj (a b : Alg) (h : a.ns = b.ns) : a = b := by
  cases a <;> cases b <;> first | rfl | (simp [Alg.ns] at h)

/-- Every cached digest is the digest a fresh computation for its key returns. -/
def CacheOk {D : Type} (H : Alg → Bytes → D) (blocks : List Block) (c : Cache D) : Prop :=
  ∀ e ∈ c, ∀ a : Alg, e.ns = a.ns → fresh H blocks a e.off e.len = some e.digest

theorem lookup_add_same {D : Type} (c : Cache D) (ns : String) (off len : Int) (d : D) :
    (c.add ns off len d).lookup ns off len = some d := by
  simp [Cache.add, Cache.lookup]

theorem lookup_add_other {D : Type} (c : Cache D) (ns ns' : String) (off len off' len' : Int) (d : D)
    (h : ¬ (ns = ns' ∧ off = off' ∧ len = len')) :
    (c.add ns off len d).lookup ns' off' len' = c.lookup ns' off' len' := by
  have : (ns == ns' && off == off' && len == len') = false := by
    simp only [Bool.and_eq_false_iff, beq_eq_false_iff_ne, ne_eq]
    by_cases h1 : ns = ns'
    · by_cases h2 : off = off'
      · right; intro h3; exact h ⟨h1, h2, h3⟩
      · left; right; exact h2
    · left; left; exact h1
  simp [Cache.add, Cache.lookup, this]

theorem lookup_sound {D : Type} (H : Alg → Bytes → D) (blocks : List Block) (c : Cache D)
    (hc : CacheOk H blocks c) (a : Alg) (off len : Int) (d : D)
    (h : c.lookup a.ns off len = some d) : fresh H blocks a off len = some d := by
  unfold Cache.lookup at h
  cases hf : c.find? (fun e => e.ns == a.ns && e.off == off && e.len == len) with
  | none => rw [hf] at h; cases h
  | some e =>
    rw [hf] at h
    simp only [Option.map_some, Option.some.injEq] at h
    have hm := List.mem_of_find?_eq_some hf
    have hp := List.find?_some hf
    simp only [Bool.and_eq_true, beq_iff_eq] at hp
    have := hc e hm a hp.1.1
    rw [hp.1.2, hp.2, h] at this
    exact this

theorem fresh_of_not_argsOk {D : Type} (H : Alg → Bytes → D) (blocks : List Block) (a : Alg) (off len : Int)
    (h : argsOk blocks off len = false) : fresh H blocks a off len = none := by
  simp [fresh, rangeWalk, chunksWalk, h]

theorem fresh_of_argsOk {D : Type} (H : Alg → Bytes → D) (blocks : List Block) (a : Alg) (off len : Int)
    (h : argsOk blocks off len = true) :
    fresh H blocks a off len = (walkLoop blocks off.toNat len.toNat false).map (fun cs => H a cs.flatten) := by
  simp [fresh, rangeWalk, chunksWalk, h, Option.map_map, Function.comp_def]

/-- One call: the result is the fresh value and the cache invariant is kept. -/
theorem dataDigest_sound {D : Type} (H : Alg → Bytes → D) (blocks : List Block) (c : Cache D)
    (hc : CacheOk H blocks c) (a : Alg) (off len : Int) :
    (dataDigest H blocks c a off len).2 = fresh H blocks a off len ∧
    CacheOk H blocks (dataDigest H blocks c a off len).1 := by
  unfold dataDigest
  cases hok : argsOk blocks off len with
  | false => simp [fresh_of_not_argsOk H blocks a off len hok]; exact hc
  | true =>
    simp only [if_true]
    cases hl : c.lookup a.ns off len with
    | some d => exact ⟨(lookup_sound H blocks c hc a off len d hl).symm, hc⟩
    | none =>
      have hf := fresh_of_argsOk H blocks a off len hok
      cases hw : walkLoop blocks off.toNat len.toNat false with
      | none => rw [hw] at hf; exact ⟨hf.symm, hc⟩
      | some cs =>
        rw [hw] at hf
        refine ⟨hf.symm, ?_⟩
        intro e he a' hns
        simp only [Cache.add, List.mem_cons] at he
        rcases he with rfl | he
        · have : a' = a := (Alg.ns_inj _ _ hns).symm
          subst this; exact hf
        · exact hc e he a' hns

theorem runDigests_sound {D : Type} (H : Alg → Bytes → D) (blocks : List Block) (c : Cache D)
    (hc : CacheOk H blocks c) (calls : List (Alg × Int × Int)) :
    runDigests H blocks c calls = calls.map fun x => fresh H blocks x.1 x.2.1 x.2.2 := by
  induction calls generalizing c with
  | nil => rfl
  | cons x rest ih =>
    obtain ⟨a, off, len⟩ := x
    have h := dataDigest_sound H blocks c hc a off len
    simp only [runDigests, List.map_cons, h.1, ih _ h.2]

end YaraModel.HM
