/- C16 — cover lemmas: after each ported function the live blocks are covered by what the
   function's result owns plus what was live before (helpers of Thm/C16.lean). -/
import YaraModel.Lemmas.AllocM
set_option linter.unusedVariables false
set_option linter.unusedSimpArgs false
namespace YaraModel.AllocM

variable (fail : Nat → Bool)

/-- closes `A ⊆ B` goals from subset hypotheses by unfolding to membership -/
macro "subset_tac" : tactic =>
  `(tactic| (simp only [List.subset_def, List.mem_append, List.mem_cons, List.not_mem_nil, or_false, false_or] at *; grind))

theorem hashAdd_cover (withNs : Bool) (h : Heap) :
    match hashAdd fail withNs h with
    | (none, h') => h'.live ⊆ h.live
    | (some owned, h') => h'.live ⊆ owned ++ h.live := by
  unfold hashAdd
  cases e1 : alloc fail h with
  | mk o1 h1 =>
    cases o1 with
    | none => simp only; rw [(alloc_none fail e1).1]; exact fun _ x => x
    | some e =>
      have a1 := alloc_some fail e1
      simp only
      cases e2 : alloc fail h1 with
      | mk o2 h2 =>
        cases o2 with
        | none =>
          simp only
          have := free_cover e [] h.live h2 (by rw [(alloc_none fail e2).1, a1.1]; simp)
          simpa using this
        | some k =>
          have a2 := alloc_some fail e2
          simp only
          cases withNs with
          | false =>
            simp only [Bool.false_eq_true, ↓reduceIte]
            rw [a2.1, a1.1]
            intro x hx; simp at hx ⊢; rcases hx with hx | hx | hx <;> simp [hx]
          | true =>
            simp only [↓reduceIte]
            cases e3 : alloc fail h2 with
            | mk o3 h3 =>
              cases o3 with
              | none =>
                simp only
                have c1 := free_cover k [e] h.live h3 (by rw [(alloc_none fail e3).1, a2.1, a1.1]; simp)
                have c2 := free_cover e [] h.live _ (by simpa using c1)
                simpa using c2
              | some ns =>
                simp only
                rw [(alloc_some fail e3).1, a2.1, a1.1]
                intro x hx; simp at hx ⊢; rcases hx with hx | hx | hx | hx <;> simp [hx]


theorem addExternal_cover (isStr : Bool) (s : Scanner) (base : List Nat) (h : Heap) (hc : h.live ⊆ s.owned ++ base) :
    match addExternal fail isStr s h with
    | (none, h') => h'.live ⊆ base
    | (some s', h') => h'.live ⊆ s'.owned ++ base := by
  unfold addExternal
  cases e1 : alloc fail h with
  | mk o1 h1 =>
    cases o1 with
    | none =>
      simp only
      exact scannerDestroy_cover s base h1 (by rw [(alloc_none fail e1).1]; exact hc)
    | some o =>
      have a1 := (alloc_some fail e1).1
      simp only
      cases e2 : alloc fail h1 with
      | mk o2 h2 =>
        cases o2 with
        | none =>
          simp only
          apply scannerDestroy_cover
          have l2 := (alloc_none fail e2).1
          exact free_cover o s.owned base h2 (by rw [l2, a1]; subset_tac)
        | some idn =>
          have a2 := (alloc_some fail e2).1
          simp only
          -- the optional value copy
          have hv : ∀ (val : List Nat) (h3 : Heap), h3.live ⊆ val ++ (idn :: o :: (s.owned ++ base)) →
              match (match hashAdd fail false h3 with
                | (none, h4) => ((none : Option Scanner), (scannerDestroy s (freeAll val (free idn (free o h4).2).2).2).2)
                | (some ent, h4) => (some { s with table := s.table ++ [o, idn] ++ val ++ ent }, h4)) with
              | (none, h') => h'.live ⊆ base
              | (some s', h') => h'.live ⊆ s'.owned ++ base := by
            intro val h3 hc3
            have hh := hashAdd_cover fail false h3
            cases e3 : hashAdd fail false h3 with
            | mk r h4 =>
              rw [e3] at hh
              cases r with
              | none =>
                simp only at hh ⊢
                apply scannerDestroy_cover
                have c1 : (free o h4).2.live ⊆ idn :: (val ++ s.owned) ++ base :=
                  free_cover o (idn :: (val ++ s.owned)) base h4 (by subset_tac)
                have c2 : (free idn (free o h4).2).2.live ⊆ val ++ (s.owned ++ base) := by
                  have := free_cover idn (val ++ s.owned) base _ c1
                  simpa [List.append_assoc] using this
                exact freeAll_cover val (s.owned ++ base) _ c2
              | some ent =>
                simp only at hh ⊢
                show h4.live ⊆ (Scanner.mk s.self (s.table ++ [o, idn] ++ val ++ ent) s.arrays).owned ++ base
                simp only [Scanner.owned] at hc hc3 ⊢
                subset_tac
          cases isStr with
          | false =>
            simp only [Bool.false_eq_true, ↓reduceIte]
            exact hv [] h2 (by rw [a2, a1]; subset_tac)
          | true =>
            simp only [↓reduceIte]
            cases e3 : alloc fail h2 with
            | mk o3 h3 =>
              cases o3 with
              | none =>
                simp only
                apply scannerDestroy_cover
                have l3 := (alloc_none fail e3).1
                have c1 : (free o h3).2.live ⊆ idn :: s.owned ++ base :=
                  free_cover o (idn :: s.owned) base h3 (by rw [l3, a2, a1]; subset_tac)
                exact free_cover idn s.owned base _ c1
              | some v =>
                simp only
                exact hv [v] h3 (by rw [(alloc_some fail e3).1, a2, a1]; subset_tac)

theorem addExternals_cover (es : List Bool) (s : Scanner) (base : List Nat) (h : Heap) (hc : h.live ⊆ s.owned ++ base) :
    match addExternals fail es s h with
    | (none, h') => h'.live ⊆ base
    | (some s', h') => h'.live ⊆ s'.owned ++ base := by
  induction es generalizing s h with
  | nil => exact hc
  | cons e es ih =>
    simp only [addExternals]
    have := addExternal_cover fail e s base h hc
    cases e1 : addExternal fail e s h with
    | mk r h1 =>
      rw [e1] at this
      cases r with
      | none => exact this
      | some s' => exact ih s' h1 this

theorem arenaLoad_cover (n : Nat) (acc base : List Nat) (h : Heap) (hc : h.live ⊆ acc ++ base) :
    match arenaLoad fail n acc h with
    | (none, h') => h'.live ⊆ base
    | (some a, h') => h'.live ⊆ a ++ base := by
  induction n generalizing acc h with
  | zero => exact hc
  | succ n ih =>
    simp only [arenaLoad]
    cases e : alloc fail h with
    | mk o h1 =>
      cases o with
      | none => simp only; exact freeAll_cover acc base h1 (by rw [(alloc_none fail e).1]; exact hc)
      | some b =>
        simp only
        apply ih
        rw [(alloc_some fail e).1]
        intro x hx; simp only [List.mem_cons] at hx; simp only [List.cons_append, List.mem_cons]
        rcases hx with hx | hx
        · exact Or.inl hx
        · exact Or.inr (hc hx)

theorem rulesFromArena_cover (base : List Nat) (h : Heap) (hc : h.live ⊆ base) :
    match rulesFromArena fail h with
    | (none, h') => h'.live ⊆ base
    | (some rs, h') => h'.live ⊆ rs ++ base := by
  unfold rulesFromArena
  cases e1 : alloc fail h with
  | mk o1 h1 =>
    cases o1 with
    | none => simp only; rw [(alloc_none fail e1).1]; exact hc
    | some r =>
      simp only
      cases e2 : alloc fail h1 with
      | mk o2 h2 =>
        cases o2 with
        | none =>
          simp only
          have := free_cover r [] base h2 (by
            rw [(alloc_none fail e2).1, (alloc_some fail e1).1]
            intro x hx; simp only [List.mem_cons] at hx; simp only [List.cons_append, List.nil_append, List.mem_cons]
            rcases hx with hx | hx
            · exact Or.inl hx
            · exact Or.inr (hc hx))
          simpa using this
        | some m =>
          simp only
          rw [(alloc_some fail e2).1, (alloc_some fail e1).1]
          intro x hx; simp only [List.mem_cons] at hx; simp only [List.cons_append, List.nil_append, List.mem_cons]
          rcases hx with hx | hx | hx
          · exact Or.inr (Or.inl hx)
          · exact Or.inl hx
          · exact Or.inr (Or.inr (hc hx))


/-- unfolding lemmas generated here so that Thm/C16.lean contains property theorems only -/
theorem notebookUse_nil (nb : Notebook) (h : Heap) : notebookUse fail nb [] h = ((true, nb), h) := by
  simp only [notebookUse]

end YaraModel.AllocM
