/-
  The VM model only visits configurations of an abstract machine: `Reach e f bm` — fiber state `f` is reachable after
  `bm` matched bytes by ε-steps (what `_yr_re_fiber_sync` does), zero-width steps and consuming steps.  Everything
  `exec` reports (callbacks, *matches) comes from a reachable fiber standing at RE_OPCODE_MATCH.  Generic: any code.
-/
import YaraModel.Model.ReVm
namespace YaraModel.ReVm
open YaraModel.Re

/-- one branch `_yr_re_fiber_sync` may take from a fiber (the executed-split set only removes branches) -/
inductive EStep (code : Code) : Fiber → Fiber → Prop
  | splitNext {f : Fiber} : (u8 code f.ip = OP_SPLIT_A ∨ u8 code f.ip = OP_SPLIT_B) → EStep code f { f with ip := f.ip + 4 }
  | splitJmp {f : Fiber} : (u8 code f.ip = OP_SPLIT_A ∨ u8 code f.ip = OP_SPLIT_B) →
      EStep code f { f with ip := addOff f.ip (i16 code (f.ip + 2)) }
  | repStartEnter {f : Fiber} : (u8 code f.ip = OP_REPEAT_START_GREEDY ∨ u8 code f.ip = OP_REPEAT_START_UNGREEDY) →
      EStep code f { f with ip := f.ip + 9, stack := 0 :: f.stack }
  | repStartSkip {f : Fiber} : (u8 code f.ip = OP_REPEAT_START_GREEDY ∨ u8 code f.ip = OP_REPEAT_START_UNGREEDY) →
      u16 code (f.ip + 1) = 0 → EStep code f { f with ip := addOff f.ip (i32 code (f.ip + 5)) }
  | repEndLoop {f : Fiber} : (u8 code f.ip = OP_REPEAT_END_GREEDY ∨ u8 code f.ip = OP_REPEAT_END_UNGREEDY) →
      (f.stack.headD 0 + 1 < u16 code (f.ip + 1) ∨ f.stack.headD 0 + 1 < u16 code (f.ip + 3)) →
      EStep code f { f with ip := addOff f.ip (i32 code (f.ip + 5)), stack := (f.stack.headD 0 + 1) :: f.stack.tail }
  | repEndExit {f : Fiber} : (u8 code f.ip = OP_REPEAT_END_GREEDY ∨ u8 code f.ip = OP_REPEAT_END_UNGREEDY) →
      ¬ (f.stack.headD 0 + 1 < u16 code (f.ip + 1)) → EStep code f { f with ip := f.ip + 9, stack := f.stack.tail }
  | anySpin {f : Fiber} : (u8 code f.ip = OP_REPEAT_ANY_GREEDY ∨ u8 code f.ip = OP_REPEAT_ANY_UNGREEDY) →
      (if f.rc = -1 then 0 else f.rc) < u16 code (f.ip + 3) ∨ (if f.rc = -1 then 0 else f.rc) < u16 code (f.ip + 1) →
      EStep code f { f with rc := (if f.rc = -1 then 0 else f.rc) + 1 }
  | anyCont {f : Fiber} : (u8 code f.ip = OP_REPEAT_ANY_GREEDY ∨ u8 code f.ip = OP_REPEAT_ANY_UNGREEDY) →
      ¬ ((if f.rc = -1 then 0 else f.rc) < u16 code (f.ip + 1)) → EStep code f { f with ip := f.ip + 5, rc := -1 }
  | jump {f : Fiber} : u8 code f.ip = OP_JUMP → EStep code f { f with ip := addOff f.ip (i16 code (f.ip + 1)) }

inductive EStar (code : Code) : Fiber → Fiber → Prop
  | refl {f} : EStar code f f
  | step {f g h} : EStep code f g → EStar code g h → EStar code f h

theorem EStar.trans {code : Code} {f g h : Fiber} (h1 : EStar code f g) (h2 : EStar code g h) : EStar code f h := by
  induction h1 with
  | refl => exact h2
  | step s _ ih => exact .step s (ih h2)

/-- every fiber produced by `sync` is an ε-successor of the synced one -/
theorem sync_sound (code : Code) : ∀ (fuel : Nat) (ex : List Nat) (f : Fiber) (l : List Fiber) (a : Bool) (ex' : List Nat),
    sync code fuel ex f = some (l, a, ex') → ∀ f', f' ∈ l → EStar code f f'
  | 0, _, _, _, _, _, h => by simp [sync] at h
  | fuel+1, ex, f, l, a, ex', h => by
    intro f' hf'
    unfold sync at h
    simp only at h
    split at h
    · -- split
      rename_i hop
      split at h
      · simp at h; obtain ⟨rfl, _, _⟩ := h; simp at hf'
      · -- two recursive calls
        generalize ho : (if u8 code f.ip = OP_SPLIT_A then ({ f with ip := f.ip + 4 } : Fiber) else { f with ip := addOff f.ip (i16 code (f.ip + 2)) }) = o at h
        generalize hc : (if u8 code f.ip = OP_SPLIT_A then ({ f with ip := addOff f.ip (i16 code (f.ip + 2)) } : Fiber) else { f with ip := f.ip + 4 }) = c at h
        have so : EStep code f o := by
          rw [← ho]; split
          · exact .splitNext hop
          · exact .splitJmp hop
        have sc : EStep code f c := by
          rw [← hc]; split
          · exact .splitJmp hop
          · exact .splitNext hop
        split at h
        · simp at h
        · rename_i l1 a1 ex2 h1
          split at h
          · simp at h
          · rename_i l2 a2 ex3 h2
            simp at h; obtain ⟨rfl, _, _⟩ := h
            rcases List.mem_append.1 hf' with hm | hm
            · exact .step so (sync_sound code fuel _ _ _ _ _ h1 f' hm)
            · exact .step sc (sync_sound code fuel _ _ _ _ _ h2 f' hm)
    · split at h
      · -- repeat start
        rename_i _ hop
        split at h
        · rename_i hmn
          generalize ho : (if u8 code f.ip = OP_REPEAT_START_GREEDY then ({ f with ip := f.ip + 9, stack := 0 :: f.stack } : Fiber) else { f with ip := addOff f.ip (i32 code (f.ip + 5)) }) = o at h
          generalize hc : (if u8 code f.ip = OP_REPEAT_START_GREEDY then ({ f with ip := addOff f.ip (i32 code (f.ip + 5)) } : Fiber) else { f with ip := f.ip + 9, stack := 0 :: f.stack }) = c at h
          have so : EStep code f o := by
            rw [← ho]; split
            · exact .repStartEnter hop
            · exact .repStartSkip hop hmn
          have sc : EStep code f c := by
            rw [← hc]; split
            · exact .repStartSkip hop hmn
            · exact .repStartEnter hop
          split at h
          · simp at h
          · rename_i l1 a1 ex2 h1
            split at h
            · simp at h
            · rename_i l2 a2 ex3 h2
              simp at h; obtain ⟨rfl, _, _⟩ := h
              rcases List.mem_append.1 hf' with hm | hm
              · exact .step so (sync_sound code fuel _ _ _ _ _ h1 f' hm)
              · exact .step sc (sync_sound code fuel _ _ _ _ _ h2 f' hm)
        · exact .step (.repStartEnter hop) (sync_sound code fuel _ _ _ _ _ h f' hf')
      · split at h
        · -- repeat end
          rename_i _ _ hop
          split at h
          · rename_i hlt
            exact .step (.repEndLoop hop (.inl hlt)) (sync_sound code fuel _ _ _ _ _ h f' hf')
          · rename_i hnlt
            split at h
            · rename_i hmx
              generalize ho : (if u8 code f.ip = OP_REPEAT_END_GREEDY then ({ f with ip := addOff f.ip (i32 code (f.ip + 5)), stack := (f.stack.headD 0 + 1) :: f.stack.tail } : Fiber) else { f with ip := f.ip + 9, stack := f.stack.tail }) = o at h
              generalize hc : (if u8 code f.ip = OP_REPEAT_END_GREEDY then ({ f with ip := f.ip + 9, stack := f.stack.tail } : Fiber) else { f with ip := addOff f.ip (i32 code (f.ip + 5)), stack := (f.stack.headD 0 + 1) :: f.stack.tail }) = c at h
              have so : EStep code f o := by
                rw [← ho]; split
                · exact .repEndLoop hop (.inr hmx)
                · exact .repEndExit hop hnlt
              have sc : EStep code f c := by
                rw [← hc]; split
                · exact .repEndExit hop hnlt
                · exact .repEndLoop hop (.inr hmx)
              split at h
              · simp at h
              · rename_i l1 a1 ex2 h1
                split at h
                · simp at h
                · rename_i l2 a2 ex3 h2
                  simp at h; obtain ⟨rfl, _, _⟩ := h
                  rcases List.mem_append.1 hf' with hm | hm
                  · exact .step so (sync_sound code fuel _ _ _ _ _ h1 f' hm)
                  · exact .step sc (sync_sound code fuel _ _ _ _ _ h2 f' hm)
            · exact .step (.repEndExit hop hnlt) (sync_sound code fuel _ _ _ _ _ h f' hf')
        · split at h
          · -- repeat any
            rename_i _ _ _ hop
            generalize hrc : (if f.rc = -1 then (0 : Int) else f.rc) = rc0 at h
            have hspinStep : (rc0 < u16 code (f.ip + 3) ∨ rc0 < u16 code (f.ip + 1)) → EStep code f { f with rc := rc0 + 1 } := by
              intro hh; rw [← hrc]; exact .anySpin hop (by rw [hrc]; exact hh)
            have hcontStep : ¬ (rc0 < u16 code (f.ip + 1)) → EStep code f { f with ip := f.ip + 5, rc := -1 } := by
              intro hh; exact .anyCont hop (by rw [hrc]; exact hh)
            split at h
            · rename_i hlt
              simp at h; obtain ⟨rfl, _, _⟩ := h
              simp at hf'; subst hf'
              exact .step (hspinStep (.inr hlt)) .refl
            · rename_i hnlt
              split at h
              · rename_i hmx
                split at h
                · simp at h
                · rename_i l1 a1 ex2 h1
                  have hcont : ∀ x, x ∈ l1 → EStar code f x := fun x hx =>
                    .step (hcontStep hnlt) (sync_sound code fuel _ _ _ _ _ h1 x hx)
                  have hspin : EStar code f { f with rc := rc0 + 1 } := .step (hspinStep (.inl hmx)) .refl
                  split at h
                  · simp at h; obtain ⟨rfl, _, _⟩ := h
                    rcases List.mem_cons.1 hf' with rfl | hm
                    · exact hspin
                    · exact hcont _ hm
                  · simp at h; obtain ⟨rfl, _, _⟩ := h
                    rcases List.mem_append.1 hf' with hm | hm
                    · exact hcont _ hm
                    · simp at hm; subst hm; exact hspin
              · exact .step (hcontStep hnlt) (sync_sound code fuel _ _ _ _ _ h f' hf')
          · split at h
            · rename_i _ _ _ _ hop
              exact .step (.jump hop) (sync_sound code fuel _ _ _ _ _ h f' hf')
            · simp at h; obtain ⟨rfl, _, _⟩ := h
              simp at hf'; subst hf'; exact .refl


/-- configurations the abstract machine can be in: fiber state after `bm` matched bytes -/
inductive Reach (e : Env) : Fiber → Nat → Prop
  | start : Reach e { ip := e.entry } 0
  | scanStart (bm : Nat) : e.fl.scan = true → Reach e { ip := e.entry } bm
  | eps {f g bm} : Reach e f bm → EStep e.code f g → Reach e g bm
  | zw {f bm} : Reach e f bm → isConsuming (u8 e.code f.ip) = false → u8 e.code f.ip ≠ OP_MATCH →
      zeroWidthOk e bm (u8 e.code f.ip) = true → Reach e { f with ip := f.ip + 1 } bm
  | cons {f bm} : Reach e f bm → isConsuming (u8 e.code f.ip) = true → consumeOk e bm f = true →
      Reach e (advance e.code f) (bm + e.cs)

theorem Reach.estar {e : Env} {f g : Fiber} {bm : Nat} (h : Reach e f bm) (hs : EStar e.code f g) : Reach e g bm := by
  induction hs with
  | refl => exact h
  | step s _ ih => exact ih (.eps h s)

/-- what has been reported so far comes from reachable fibers standing at RE_OPCODE_MATCH -/
def Good (e : Env) (mval : Int) (calls : List Nat) : Prop :=
  (∀ L, L ∈ calls → ∃ f, Reach e f L ∧ u8 e.code f.ip = OP_MATCH) ∧
  (0 ≤ mval → ∃ f, Reach e f mval.toNat ∧ u8 e.code f.ip = OP_MATCH)

theorem pass_sound (e : Env) (bm : Nat) : ∀ (fuel : Nat) (todo : List Fiber) (st res : PassSt) (ub : Bool),
    pass e bm fuel todo st = some (res, ub) → (∀ f, f ∈ todo → Reach e f bm) → (∀ f, f ∈ st.kept → Reach e f (bm + e.cs)) →
    Good e st.mval st.calls → (∀ f, f ∈ res.kept → Reach e f (bm + e.cs)) ∧ Good e res.mval res.calls
  | 0, _, _, _, _, h, _, _, _ => by simp [pass] at h
  | fuel+1, [], st, res, ub, h, _, hk, hg => by
    simp [pass] at h; obtain ⟨rfl, _⟩ := h; exact ⟨hk, hg⟩
  | fuel+1, f :: rest, st, res, ub, h, ht, hk, hg => by
    have hf : Reach e f bm := ht f List.mem_cons_self
    have hrest : ∀ x, x ∈ rest → Reach e x bm := fun x hx => ht x (List.mem_cons_of_mem _ hx)
    unfold pass at h
    simp only at h
    split at h
    · rename_i hcons
      split at h
      · rename_i hok
        split at h
        · simp at h
        · rename_i l a ex hs
          apply pass_sound e bm fuel rest _ res ub h hrest _ hg
          intro x hx
          rcases List.mem_append.1 hx with h1 | h1
          · exact hk x h1
          · exact (Reach.cons hf hcons hok).estar (sync_sound e.code _ _ _ _ _ _ hs x h1)
      · exact pass_sound e bm fuel rest st res ub h hrest hk hg
    · rename_i hncons
      split at h
      · rename_i hm
        have hgood : Good e (bm : Int) (st.calls ++ [bm]) := by
          constructor
          · intro L hL
            rcases List.mem_append.1 hL with h1 | h1
            · exact hg.1 L h1
            · simp at h1; subst h1; exact ⟨f, hf, hm⟩
          · intro _; exact ⟨f, by simpa using hf, hm⟩
        split at h
        · exact pass_sound e bm fuel rest _ res ub h hrest hk hgood
        · simp at h; obtain ⟨rfl, _⟩ := h
          refine ⟨hk, ?_⟩
          constructor
          · exact hg.1
          · intro _; exact ⟨f, by simpa using hf, hm⟩
      · rename_i hnm
        split at h
        · rename_i hz
          split at h
          · simp at h
          · rename_i l alive ex hs
            split at h
            · apply pass_sound e bm fuel (l ++ rest) st res ub h _ hk hg
              intro x hx
              rcases List.mem_append.1 hx with h1 | h1
              · exact (Reach.zw hf (by simpa using hncons) hnm hz).estar (sync_sound e.code _ _ _ _ _ _ hs x h1)
              · exact hrest x h1
            · simp at h; obtain ⟨rfl, _⟩ := h; exact ⟨hk, hg⟩
        · exact pass_sound e bm fuel rest st res ub h hrest hk hg

theorem mem_dedup {x : Fiber} : ∀ (l acc : List Fiber), x ∈ dedup l acc → x ∈ l ∨ x ∈ acc
  | [], acc, h => by simp [dedup] at h; exact .inr h
  | f :: t, acc, h => by
    simp only [dedup] at h
    split at h
    · rcases mem_dedup t acc h with h1 | h1
      · exact .inl (List.mem_cons_of_mem _ h1)
      · exact .inr h1
    · rcases mem_dedup t (f :: acc) h with h1 | h1
      · exact .inl (List.mem_cons_of_mem _ h1)
      · rcases List.mem_cons.1 h1 with rfl | h2
        · exact .inl List.mem_cons_self
        · exact .inr h2

theorem loop_sound (e : Env) : ∀ (fuel : Nat) (fibers : List Fiber) (bm : Nat) (mval : Int) (calls : List Nat) (m : Int) (c : List Nat),
    loop e fuel fibers bm mval calls = .done m c → (∀ f, f ∈ fibers → Reach e f bm) → Good e mval calls → Good e m c
  | 0, _, _, _, _, _, _, h, _, _ => by simp [loop] at h
  | fuel+1, fibers, bm, mval, calls, m, c, h, hr, hg => by
    unfold loop at h
    split at h
    · simp at h; obtain ⟨rfl, rfl⟩ := h; exact hg
    · split at h
      · simp at h
      · simp at h
      · rename_i st hp
        have hded : ∀ f, f ∈ dedup fibers [] → Reach e f bm := by
          intro f hf
          rcases mem_dedup fibers [] hf with h1 | h1
          · exact hr f h1
          · simp at h1
        obtain ⟨hk, hg'⟩ := pass_sound e bm 4000 (dedup fibers []) _ st false hp hded (by simp) hg
        simp only at h
        by_cases hscan : (e.fl.scan && decide (bm + e.cs < e.maxBytes)) = true
        · rw [if_pos hscan] at h
          split at h
          · simp at h
          · rename_i l a ex hs
            apply loop_sound e fuel _ _ _ _ m c h _ hg'
            intro f hf
            rcases List.mem_append.1 hf with h1 | h1
            · exact hk f h1
            · simp only [Bool.and_eq_true] at hscan
              exact (Reach.scanStart (bm + e.cs) hscan.1).estar (sync_sound e.code _ _ _ _ _ _ hs f h1)
        · rw [if_neg hscan] at h
          exact loop_sound e fuel _ _ _ _ m c h hk hg'

/-- Everything `yr_re_exec` reports — the lengths handed to the callback in exhaustive mode and the value left in
    `*matches` — is the number of matched bytes of a REACHABLE fiber standing at RE_OPCODE_MATCH.  Any code, any flags. -/
theorem exec_sound (e : Env) (m : Int) (c : List Nat) (h : exec e = .done m c) : Good e m c := by
  unfold exec at h
  split at h
  · simp at h
  · rename_i l a ex hs
    apply loop_sound e _ l 0 (-1) [] m c h
    · intro f hf
      exact Reach.start.estar (sync_sound e.code _ _ _ _ _ _ hs f hf)
    · exact ⟨by simp, by intro h0; omega⟩

end YaraModel.ReVm
