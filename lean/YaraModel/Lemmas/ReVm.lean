/-
  The VM model only visits configurations of an abstract machine: `Reach e f bm` — fiber state `f` is reachable after
  `bm` matched bytes by ε-steps (what `_yr_re_fiber_sync` does), zero-width steps and consuming steps.  Everything
  `exec` reports (callbacks, *matches) comes from a reachable fiber standing at RE_OPCODE_MATCH.  Generic: any code.
-/
import YaraModel.Model.ReVm
namespace YaraModel.ReVm
open YaraModel.Re

/-- one branch `_yr_re_fiber_sync` may take from a fiber (the executed-split set only removes branches) -/
inductive EStep (code : Code) : Fiber → Fiber → Prop
  | splitNext {f : Fiber} : (u8 code f.ip = OP_SPLIT_A ∨ u8 code f.ip = OP_SPLIT_B) → EStep code f { f with ip := f.ip + 4 }
  | splitJmp {f : Fiber} : (u8 code f.ip = OP_SPLIT_A ∨ u8 code f.ip = OP_SPLIT_B) →
      EStep code f { f with ip := addOff f.ip (i16 code (f.ip + 2)) }
  | repStartEnter {f : Fiber} : (u8 code f.ip = OP_REPEAT_START_GREEDY ∨ u8 code f.ip = OP_REPEAT_START_UNGREEDY) →
      EStep code f { f with ip := f.ip + 9, stack := 0 :: f.stack }
  | repStartSkip {f : Fiber} : (u8 code f.ip = OP_REPEAT_START_GREEDY ∨ u8 code f.ip = OP_REPEAT_START_UNGREEDY) →
      u16 code (f.ip + 1) = 0 → EStep code f { f with ip := addOff f.ip (i32 code (f.ip + 5)) }
  | repEndLoop {f : Fiber} : (u8 code f.ip = OP_REPEAT_END_GREEDY ∨ u8 code f.ip = OP_REPEAT_END_UNGREEDY) →
      (f.stack.headD 0 + 1 < u16 code (f.ip + 1) ∨ f.stack.headD 0 + 1 < u16 code (f.ip + 3)) →
      EStep code f { f with ip := addOff f.ip (i32 code (f.ip + 5)), stack := (f.stack.headD 0 + 1) :: f.stack.tail }
  | repEndExit {f : Fiber} : (u8 code f.ip = OP_REPEAT_END_GREEDY ∨ u8 code f.ip = OP_REPEAT_END_UNGREEDY) →
      ¬ (f.stack.headD 0 + 1 < u16 code (f.ip + 1)) → EStep code f { f with ip := f.ip + 9, stack := f.stack.tail }
  | jump {f : Fiber} : u8 code f.ip = OP_JUMP → EStep code f { f with ip := addOff f.ip (i16 code (f.ip + 1)) }

/-- the two transitions of a REPEAT_ANY instruction: keep spinning (the fiber then WAITS for a character) or go on -/
inductive AStep (code : Code) : Fiber → Fiber → Bool → Prop
  | spin {f : Fiber} : (u8 code f.ip = OP_REPEAT_ANY_GREEDY ∨ u8 code f.ip = OP_REPEAT_ANY_UNGREEDY) →
      ((if f.rc = -1 then 0 else f.rc) < u16 code (f.ip + 3) ∨ (if f.rc = -1 then 0 else f.rc) < u16 code (f.ip + 1)) →
      AStep code f { f with rc := (if f.rc = -1 then 0 else f.rc) + 1 } true
  | cont {f : Fiber} : (u8 code f.ip = OP_REPEAT_ANY_GREEDY ∨ u8 code f.ip = OP_REPEAT_ANY_UNGREEDY) →
      ¬ ((if f.rc = -1 then 0 else f.rc) < u16 code (f.ip + 1)) → AStep code f { f with ip := f.ip + 5, rc := -1 } false

/-- `run`: being synced / standing at an ordinary instruction; `wait`: a spinning REPEAT_ANY fiber that must consume a
    character next; `post`: a REPEAT_ANY fiber that has just consumed one and must be synced before anything else -/
inductive Mode where
  | run | wait | post
  deriving DecidableEq, Repr

/-- one call of `_yr_re_fiber_sync`, seen from one resulting fiber: ε-steps until the fiber stops — at an ordinary
    instruction (`run`) or as a spinning REPEAT_ANY (`wait`) -/
inductive SStar (code : Code) : Fiber → Fiber → Mode → Prop
  | refl {f} : ¬ (u8 code f.ip = OP_REPEAT_ANY_GREEDY ∨ u8 code f.ip = OP_REPEAT_ANY_UNGREEDY) → SStar code f f .run
  | eps {f g h m} : EStep code f g → SStar code g h m → SStar code f h m
  | cont {f g h m} : AStep code f g false → SStar code g h m → SStar code f h m
  | spin {f g} : AStep code f g true → SStar code f g .wait

def isAnyOp (op : Nat) : Prop := op = OP_REPEAT_ANY_GREEDY ∨ op = OP_REPEAT_ANY_UNGREEDY

/-- a stopped fiber waits exactly when it stands at a REPEAT_ANY instruction -/
def ModeOK (code : Code) (f : Fiber) (m : Mode) : Prop := (m = .wait ↔ isAnyOp (u8 code f.ip)) ∧ m ≠ .post

theorem lift_eps {code : Code} {f g x : Fiber} (s : EStep code f g) (h : ∃ m, SStar code g x m ∧ ModeOK code x m) :
    ∃ m, SStar code f x m ∧ ModeOK code x m := by
  obtain ⟨m, h1, h2⟩ := h; exact ⟨m, .eps s h1, h2⟩

theorem lift_cont {code : Code} {f g x : Fiber} (s : AStep code f g false) (h : ∃ m, SStar code g x m ∧ ModeOK code x m) :
    ∃ m, SStar code f x m ∧ ModeOK code x m := by
  obtain ⟨m, h1, h2⟩ := h; exact ⟨m, .cont s h1, h2⟩

/-- every fiber produced by `sync` is reached from the synced one by ε-steps and stops in a proper mode -/
theorem sync_sound (code : Code) : ∀ (fuel : Nat) (ex : List Nat) (f : Fiber) (l : List Fiber) (a : Bool) (ex' : List Nat),
    sync code fuel ex f = some (l, a, ex') → ∀ f', f' ∈ l → ∃ m, SStar code f f' m ∧ ModeOK code f' m
  | 0, _, _, _, _, _, h => by simp [sync] at h
  | fuel+1, ex, f, l, a, ex', h => by
    intro f' hf'
    unfold sync at h
    simp only at h
    split at h
    · -- split
      rename_i hop
      split at h
      · simp at h; obtain ⟨rfl, _, _⟩ := h; simp at hf'
      · -- two recursive calls
        generalize ho : (if u8 code f.ip = OP_SPLIT_A then ({ f with ip := f.ip + 4 } : Fiber) else { f with ip := addOff f.ip (i16 code (f.ip + 2)) }) = o at h
        generalize hc : (if u8 code f.ip = OP_SPLIT_A then ({ f with ip := addOff f.ip (i16 code (f.ip + 2)) } : Fiber) else { f with ip := f.ip + 4 }) = c at h
        have so : EStep code f o := by
          rw [← ho]; split
          · exact .splitNext hop
          · exact .splitJmp hop
        have sc : EStep code f c := by
          rw [← hc]; split
          · exact .splitJmp hop
          · exact .splitNext hop
        split at h
        · simp at h
        · rename_i l1 a1 ex2 h1
          split at h
          · simp at h
          · rename_i l2 a2 ex3 h2
            simp at h; obtain ⟨rfl, _, _⟩ := h
            rcases List.mem_append.1 hf' with hm | hm
            · exact lift_eps so (sync_sound code fuel _ _ _ _ _ h1 f' hm)
            · exact lift_eps sc (sync_sound code fuel _ _ _ _ _ h2 f' hm)
    · split at h
      · -- repeat start
        rename_i _ hop
        split at h
        · rename_i hmn
          generalize ho : (if u8 code f.ip = OP_REPEAT_START_GREEDY then ({ f with ip := f.ip + 9, stack := 0 :: f.stack } : Fiber) else { f with ip := addOff f.ip (i32 code (f.ip + 5)) }) = o at h
          generalize hc : (if u8 code f.ip = OP_REPEAT_START_GREEDY then ({ f with ip := addOff f.ip (i32 code (f.ip + 5)) } : Fiber) else { f with ip := f.ip + 9, stack := 0 :: f.stack }) = c at h
          have so : EStep code f o := by
            rw [← ho]; split
            · exact .repStartEnter hop
            · exact .repStartSkip hop hmn
          have sc : EStep code f c := by
            rw [← hc]; split
            · exact .repStartSkip hop hmn
            · exact .repStartEnter hop
          split at h
          · simp at h
          · rename_i l1 a1 ex2 h1
            split at h
            · simp at h
            · rename_i l2 a2 ex3 h2
              simp at h; obtain ⟨rfl, _, _⟩ := h
              rcases List.mem_append.1 hf' with hm | hm
              · exact lift_eps so (sync_sound code fuel _ _ _ _ _ h1 f' hm)
              · exact lift_eps sc (sync_sound code fuel _ _ _ _ _ h2 f' hm)
        · exact lift_eps (.repStartEnter hop) (sync_sound code fuel _ _ _ _ _ h f' hf')
      · split at h
        · -- repeat end
          rename_i _ _ hop
          split at h
          · rename_i hlt
            exact lift_eps (.repEndLoop hop (.inl hlt)) (sync_sound code fuel _ _ _ _ _ h f' hf')
          · rename_i hnlt
            split at h
            · rename_i hmx
              generalize ho : (if u8 code f.ip = OP_REPEAT_END_GREEDY then ({ f with ip := addOff f.ip (i32 code (f.ip + 5)), stack := (f.stack.headD 0 + 1) :: f.stack.tail } : Fiber) else { f with ip := f.ip + 9, stack := f.stack.tail }) = o at h
              generalize hc : (if u8 code f.ip = OP_REPEAT_END_GREEDY then ({ f with ip := f.ip + 9, stack := f.stack.tail } : Fiber) else { f with ip := addOff f.ip (i32 code (f.ip + 5)), stack := (f.stack.headD 0 + 1) :: f.stack.tail }) = c at h
              have so : EStep code f o := by
                rw [← ho]; split
                · exact .repEndLoop hop (.inr hmx)
                · exact .repEndExit hop hnlt
              have sc : EStep code f c := by
                rw [← hc]; split
                · exact .repEndExit hop hnlt
                · exact .repEndLoop hop (.inr hmx)
              split at h
              · simp at h
              · rename_i l1 a1 ex2 h1
                split at h
                · simp at h
                · rename_i l2 a2 ex3 h2
                  simp at h; obtain ⟨rfl, _, _⟩ := h
                  rcases List.mem_append.1 hf' with hm | hm
                  · exact lift_eps so (sync_sound code fuel _ _ _ _ _ h1 f' hm)
                  · exact lift_eps sc (sync_sound code fuel _ _ _ _ _ h2 f' hm)
            · exact lift_eps (.repEndExit hop hnlt) (sync_sound code fuel _ _ _ _ _ h f' hf')
        · split at h
          · -- repeat any
            rename_i _ _ _ hop
            generalize hrc : (if f.rc = -1 then (0 : Int) else f.rc) = rc0 at h
            have hspinStep : (rc0 < u16 code (f.ip + 3) ∨ rc0 < u16 code (f.ip + 1)) → AStep code f { f with rc := rc0 + 1 } true := by
              intro hh; rw [← hrc]; exact .spin hop (by rw [hrc]; exact hh)
            have hcontStep : ¬ (rc0 < u16 code (f.ip + 1)) → AStep code f { f with ip := f.ip + 5, rc := -1 } false := by
              intro hh; exact .cont hop (by rw [hrc]; exact hh)
            have hspinOK : ∀ hh : (rc0 < u16 code (f.ip + 3) ∨ rc0 < u16 code (f.ip + 1)),
                ∃ m, SStar code f { f with rc := rc0 + 1 } m ∧ ModeOK code { f with rc := rc0 + 1 } m :=
              fun hh => ⟨.wait, .spin (hspinStep hh), ⟨fun _ => hop, fun _ => rfl⟩, by simp⟩
            split at h
            · rename_i hlt
              simp at h; obtain ⟨rfl, _, _⟩ := h
              simp at hf'; subst hf'
              exact hspinOK (.inr hlt)
            · rename_i hnlt
              split at h
              · rename_i hmx
                split at h
                · simp at h
                · rename_i l1 a1 ex2 h1
                  have hcont : ∀ x, x ∈ l1 → ∃ m, SStar code f x m ∧ ModeOK code x m := fun x hx =>
                    lift_cont (hcontStep hnlt) (sync_sound code fuel _ _ _ _ _ h1 x hx)
                  split at h
                  · simp at h; obtain ⟨rfl, _, _⟩ := h
                    rcases List.mem_cons.1 hf' with rfl | hm
                    · exact hspinOK (.inl hmx)
                    · exact hcont _ hm
                  · simp at h; obtain ⟨rfl, _, _⟩ := h
                    rcases List.mem_append.1 hf' with hm | hm
                    · exact hcont _ hm
                    · simp at hm; subst hm; exact hspinOK (.inl hmx)
              · exact lift_cont (hcontStep hnlt) (sync_sound code fuel _ _ _ _ _ h f' hf')
          · split at h
            · rename_i _ _ _ _ hop
              exact lift_eps (.jump hop) (sync_sound code fuel _ _ _ _ _ h f' hf')
            · rename_i _ _ _ hnany _
              simp at h; obtain ⟨rfl, _, _⟩ := h
              simp at hf'; subst hf'
              exact ⟨.run, .refl hnany, ⟨fun hh => by simp at hh, fun hh => absurd hh hnany⟩, by simp⟩


/-- configurations the abstract machine can be in: fiber state and mode after `bm` matched bytes -/
inductive Reach (e : Env) : Fiber → Mode → Nat → Prop
  | start : Reach e { ip := e.entry } .run 0
  | scanStart (bm : Nat) : e.fl.scan = true → bm ≤ e.maxBytes → Reach e { ip := e.entry } .run bm
  | sync {f g m m' bm} : Reach e f m bm → m ≠ .wait → SStar e.code f g m' → Reach e g m' bm
  | zw {f bm} : Reach e f .run bm → isConsuming (u8 e.code f.ip) = false → u8 e.code f.ip ≠ OP_MATCH →
      zeroWidthOk e bm (u8 e.code f.ip) = true → Reach e { f with ip := f.ip + 1 } .run bm
  | cons {f m bm} : Reach e f m bm → isConsuming (u8 e.code f.ip) = true → consumeOk e bm f = true →
      (isAnyOp (u8 e.code f.ip) → m = .wait) → m ≠ .post →
      Reach e (advance e.code f) (if u8 e.code f.ip = OP_REPEAT_ANY_GREEDY ∨ u8 e.code f.ip = OP_REPEAT_ANY_UNGREEDY then .post else .run) (bm + e.cs)

/-- what has been reported so far comes from reachable fibers standing at RE_OPCODE_MATCH -/
def Good (e : Env) (mval : Int) (calls : List Nat) : Prop :=
  (∀ L, L ∈ calls → ∃ f m, Reach e f m L ∧ u8 e.code f.ip = OP_MATCH) ∧
  (0 ≤ mval → ∃ f m, Reach e f m mval.toNat ∧ u8 e.code f.ip = OP_MATCH)

/-- the fibers of a list are stopped reachable fibers -/
def Stopped (e : Env) (bm : Nat) (l : List Fiber) : Prop := ∀ f, f ∈ l → ∃ m, Reach e f m bm ∧ ModeOK e.code f m

theorem stopped_of_sync {e : Env} {f : Fiber} {m : Mode} {bm : Nat} (hr : Reach e f m bm) (hm : m ≠ .wait)
    {fuel : Nat} {ex : List Nat} {l : List Fiber} {a : Bool} {ex' : List Nat} (hs : sync e.code fuel ex f = some (l, a, ex')) :
    Stopped e bm l := by
  intro x hx
  obtain ⟨m', h1, h2⟩ := sync_sound e.code _ _ _ _ _ _ hs x hx
  exact ⟨m', .sync hr hm h1, h2⟩

theorem stopped_append {e : Env} {bm : Nat} {l1 l2 : List Fiber} (h1 : Stopped e bm l1) (h2 : Stopped e bm l2) : Stopped e bm (l1 ++ l2) := by
  intro x hx
  rcases List.mem_append.1 hx with h | h
  · exact h1 x h
  · exact h2 x h

theorem pass_sound (e : Env) (bm : Nat) : ∀ (fuel : Nat) (todo : List Fiber) (st res : PassSt),
    pass e bm fuel todo st = some res → Stopped e bm todo → Stopped e (bm + e.cs) st.kept →
    Good e st.mval st.calls → Stopped e (bm + e.cs) res.kept ∧ Good e res.mval res.calls
  | 0, _, _, _, h, _, _, _ => by simp [pass] at h
  | fuel+1, [], st, res, h, _, hk, hg => by
    simp [pass] at h; subst h; exact ⟨hk, hg⟩
  | fuel+1, f :: rest, st, res, h, ht, hk, hg => by
    obtain ⟨m, hf, hmode⟩ := ht f List.mem_cons_self
    have hrest : Stopped e bm rest := fun x hx => ht x (List.mem_cons_of_mem _ hx)
    unfold pass at h
    simp only at h
    split at h
    · rename_i hcons
      split at h
      · rename_i hok
        split at h
        · simp at h
        · rename_i l a ex hs
          apply pass_sound e bm fuel rest _ res h hrest _ hg
          have hc := Reach.cons hf hcons hok (fun ha => hmode.1.2 ha) hmode.2
          have hne : (if u8 e.code f.ip = OP_REPEAT_ANY_GREEDY ∨ u8 e.code f.ip = OP_REPEAT_ANY_UNGREEDY then Mode.post else Mode.run) ≠ Mode.wait := by
            split <;> simp
          exact stopped_append hk (stopped_of_sync hc hne hs)
      · exact pass_sound e bm fuel rest st res h hrest hk hg
    · rename_i hncons
      split at h
      · rename_i hm
        have hgood : Good e (bm : Int) (st.calls ++ [bm]) := by
          constructor
          · intro L hL
            rcases List.mem_append.1 hL with h1 | h1
            · exact hg.1 L h1
            · simp at h1; subst h1; exact ⟨f, m, hf, hm⟩
          · intro _; exact ⟨f, m, by simpa using hf, hm⟩
        split at h
        · exact pass_sound e bm fuel rest _ res h hrest hk hgood
        · simp at h; subst h
          refine ⟨hk, ?_⟩
          constructor
          · exact hg.1
          · intro _; exact ⟨f, m, by simpa using hf, hm⟩
      · rename_i hnm
        split at h
        · rename_i hz
          split at h
          · simp at h
          · rename_i l alive ex hs
            -- a zero-width instruction is not a REPEAT_ANY, so the fiber is in `run` mode
            have hnany : ¬ isAnyOp (u8 e.code f.ip) := by
              intro ha
              have : isConsuming (u8 e.code f.ip) = true := by
                rcases ha with ha | ha <;> rw [ha] <;> simp [isConsuming, OP_REPEAT_ANY_GREEDY, OP_REPEAT_ANY_UNGREEDY, OP_ANY]
              rw [this] at hncons; simp at hncons
            have hrun : m = .run := by
              cases m with
              | run => rfl
              | wait => exact absurd (hmode.1.1 rfl) hnany
              | post => exact absurd rfl hmode.2
            subst hrun
            apply pass_sound e bm fuel (l ++ rest) st res h _ hk hg
            exact stopped_append (stopped_of_sync (Reach.zw hf (by simpa using hncons) hnm hz) (by simp) hs) hrest
        · exact pass_sound e bm fuel rest st res h hrest hk hg

theorem mem_dedup {x : Fiber} : ∀ (l acc : List Fiber), x ∈ dedup l acc → x ∈ l ∨ x ∈ acc
  | [], acc, h => by simp [dedup] at h; exact .inr h
  | f :: t, acc, h => by
    simp only [dedup] at h
    split at h
    · rcases mem_dedup t acc h with h1 | h1
      · exact .inl (List.mem_cons_of_mem _ h1)
      · exact .inr h1
    · rcases mem_dedup t (f :: acc) h with h1 | h1
      · exact .inl (List.mem_cons_of_mem _ h1)
      · rcases List.mem_cons.1 h1 with rfl | h2
        · exact .inl List.mem_cons_self
        · exact .inr h2

theorem loop_sound (e : Env) : ∀ (fuel : Nat) (fibers : List Fiber) (bm : Nat) (mval : Int) (calls : List Nat) (m : Int) (c : List Nat),
    loop e fuel fibers bm mval calls = .done m c → Stopped e bm fibers → Good e mval calls → Good e m c
  | 0, _, _, _, _, _, _, h, _, _ => by simp [loop] at h
  | fuel+1, fibers, bm, mval, calls, m, c, h, hr, hg => by
    unfold loop at h
    split at h
    · simp at h; obtain ⟨rfl, rfl⟩ := h; exact hg
    · split at h
      · simp at h
      split at h
      · simp at h
      · rename_i st hp
        have hded : Stopped e bm (dedup fibers []) := by
          intro f hf
          rcases mem_dedup fibers [] hf with h1 | h1
          · exact hr f h1
          · simp at h1
        obtain ⟨hk, hg'⟩ := pass_sound e bm 4000 (dedup fibers []) _ st hp hded (by intro x hx; simp at hx) hg
        simp only at h
        by_cases hscan : (e.fl.scan && decide (bm + e.cs ≤ e.maxBytes)) = true
        · rw [if_pos hscan] at h
          split at h
          · simp at h
          · rename_i l a ex hs
            apply loop_sound e fuel _ _ _ _ m c h _ hg'
            simp only [Bool.and_eq_true, decide_eq_true_eq] at hscan
            exact stopped_append hk (stopped_of_sync (Reach.scanStart (bm + e.cs) hscan.1 hscan.2) (by simp) hs)
        · rw [if_neg hscan] at h
          exact loop_sound e fuel _ _ _ _ m c h hk hg'

/-- Everything `yr_re_exec` reports — the lengths handed to the callback in exhaustive mode and the value left in
    `*matches` — is the number of matched bytes of a REACHABLE fiber standing at RE_OPCODE_MATCH.  Any code, any flags. -/
theorem exec_sound (e : Env) (m : Int) (c : List Nat) (h : exec e = .done m c) : Good e m c := by
  unfold exec at h
  split at h
  · simp at h
  · rename_i l a ex hs
    apply loop_sound e _ l 0 (-1) [] m c h
    · exact stopped_of_sync Reach.start (by simp) hs
    · exact ⟨by simp, by intro h0; omega⟩

end YaraModel.ReVm
