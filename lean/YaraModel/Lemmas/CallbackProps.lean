/- C11 helper lemmas: shape of played traces, facts about the protocol's message list, meaning of `specMatching`. -/
import YaraModel.Lemmas.CallbackRefine
namespace YaraModel.Cb

/-! ### shape of a played trace -/

theorem play_stopped_trace_ne_nil {ms : List Msg} {s : List Ret} {rc : Rc} (h : (play ms s).stopped = some rc) :
    (play ms s).trace ≠ [] := by
  cases ms with
  | nil => simp [play] at h
  | cons m ms => exact play_trace_ne_nil m ms s

theorem notStopped_iff (ms : List Msg) (s : List Ret) :
    NotStopped (play ms s).trace s ↔ (play ms s).stopped = none := by
  constructor
  · intro h
    cases hs : (play ms s).stopped with
    | none => rfl
    | some rc =>
      have hne := play_stopped_trace_ne_nil hs
      obtain ⟨k, hk⟩ : ∃ k, (play ms s).trace.length = k + 1 := by
        cases ht : (play ms s).trace with
        | nil => exact absurd ht hne
        | cons a t => exact ⟨t.length, rfl⟩
      have hlt : k < (play ms s).trace.length := by omega
      have hm : (play ms s).trace[k]? = some (play ms s).trace[k] := List.getElem?_eq_getElem hlt
      have h1 := play_verdict ms s k _ hm
      rw [if_pos hk.symm, hs, h k _ hm] at h1
      cases h1
  · intro h k m hm
    rw [play_verdict ms s k m hm, h]; simp

/-- a scan either runs through the whole protocol, or the answer to its last message ended it -/
theorem play_shape (ms : List Msg) (s : List Ret) :
    ((play ms s).stopped = none ∧ (play ms s).trace = ms) ∨
    (∃ k m rc, (play ms s).stopped = some rc ∧ (play ms s).trace.length = k + 1 ∧
       (play ms s).trace[k]? = some m ∧ verdict m (answer s k) = some rc) := by
  cases hs : (play ms s).stopped with
  | none => exact Or.inl ⟨rfl, play_complete ms s hs⟩
  | some rc =>
    right
    have hne := play_stopped_trace_ne_nil hs
    obtain ⟨k, hk⟩ : ∃ k, (play ms s).trace.length = k + 1 := by
      cases ht : (play ms s).trace with
      | nil => exact absurd ht hne
      | cons a t => exact ⟨t.length, rfl⟩
    have hlt : k < (play ms s).trace.length := by omega
    have hm : (play ms s).trace[k]? = some (play ms s).trace[k] := List.getElem?_eq_getElem hlt
    have h1 := play_verdict ms s k _ hm
    rw [if_pos hk.symm, hs] at h1
    exact ⟨k, _, rc, rfl, hk, hm, h1⟩

/-! ### the protocol's message list -/

theorem ruleMsg_some {rs : List Rule} {fl : Flags} {ri : Rule × Nat} {m : Msg} (h : ruleMsg rs fl ri = some m) :
    ri.1.isPrivate = false ∧ m.ruleIdx = ri.2 ∧
    ((m = .ruleMatching ri.2 ∧ fl.matching = true ∧ specMatching rs ri.2 ri.1 = true) ∨
     (m = .ruleNotMatching ri.2 ∧ fl.notMatching = true ∧ specMatching rs ri.2 ri.1 = false)) := by
  simp only [ruleMsg] at h
  cases hp : ri.1.isPrivate <;> simp only [hp, if_true, Bool.false_eq_true, if_false] at h
  · cases hs : specMatching rs ri.2 ri.1 <;> simp only [hs, if_true, Bool.false_eq_true, if_false] at h
    · cases hf : fl.notMatching <;> simp [hf] at h
      subst h; simp [Msg.ruleIdx]
    · cases hf : fl.matching <;> simp [hf] at h
      subst h; simp [Msg.ruleIdx]
  · cases h

theorem mem_ruleMsgs {rs : List Rule} {fl : Flags} {m : Msg} :
    m ∈ ruleMsgs rs fl ↔ ∃ r i, rs[i]? = some r ∧ ruleMsg rs fl (r, i) = some m := by
  simp only [ruleMsgs, List.mem_filterMap, List.mem_zipIdx_iff_getElem?]
  constructor
  · rintro ⟨⟨r, i⟩, h1, h2⟩; exact ⟨r, i, h1, h2⟩
  · rintro ⟨r, i, h1, h2⟩; exact ⟨(r, i), h1, h2⟩

theorem ruleMsgs_isRule {rs : List Rule} {fl : Flags} {m : Msg} (h : m ∈ ruleMsgs rs fl) : m.isRule = true := by
  obtain ⟨r, i, _, h2⟩ := mem_ruleMsgs.1 h
  rcases (ruleMsg_some h2).2.2 with ⟨hm, _⟩ | ⟨hm, _⟩ <;> subst hm <;> rfl

theorem moduleMsgs_isModule {imports : List String} {m : Msg} (h : m ∈ moduleMsgs imports) : m.isModule = true := by
  simp only [moduleMsgs, List.mem_flatMap] at h
  obtain ⟨x, _, hx⟩ := h
  simp at hx
  rcases hx with hx | hx <;> subst hx <;> rfl

theorem isRule_not_isModule {m : Msg} (h : m.isRule = true) : m.isModule = false := by
  cases m <;> simp_all [Msg.isRule, Msg.isModule]

theorem protocol_filter_rule (rs : List Rule) (imports : List String) (fl : Flags) :
    (protocol rs imports fl).filter Msg.isRule = ruleMsgs rs fl := by
  simp only [protocol, List.filter_append]
  have h1 : (moduleMsgs imports).filter Msg.isRule = [] := by
    rw [List.filter_eq_nil_iff]; intro a ha
    have := moduleMsgs_isModule ha
    cases a <;> simp_all [Msg.isRule, Msg.isModule]
  have h2 : (ruleMsgs rs fl).filter Msg.isRule = ruleMsgs rs fl := by
    rw [List.filter_eq_self]; intro a ha; exact ruleMsgs_isRule ha
  simp [h1, h2, Msg.isRule]

theorem protocol_filter_module (rs : List Rule) (imports : List String) (fl : Flags) :
    (protocol rs imports fl).filter Msg.isModule = moduleMsgs imports := by
  simp only [protocol, List.filter_append]
  have h1 : (moduleMsgs imports).filter Msg.isModule = moduleMsgs imports := by
    rw [List.filter_eq_self]; intro a ha; exact moduleMsgs_isModule ha
  have h2 : (ruleMsgs rs fl).filter Msg.isModule = [] := by
    rw [List.filter_eq_nil_iff]; intro a ha
    simp [isRule_not_isModule (ruleMsgs_isRule ha)]
  simp [h1, h2, Msg.isModule]

theorem finished_not_mem_body (rs : List Rule) (imports : List String) (fl : Flags) :
    Msg.scanFinished ∉ moduleMsgs imports ++ ruleMsgs rs fl := by
  intro h
  rcases List.mem_append.1 h with h | h
  · have := moduleMsgs_isModule h; simp [Msg.isModule] at this
  · have := ruleMsgs_isRule h; simp [Msg.isRule] at this


/-! ### definition order -/

theorem map_filterMap_sublist {α β γ : Type} (f : α → Option β) (g : β → γ) (h : α → γ)
    (hfg : ∀ a b, f a = some b → g b = h a) (l : List α) :
    ((l.filterMap f).map g).Sublist (l.map h) := by
  induction l with
  | nil => simp
  | cons a l ih =>
    simp only [List.filterMap_cons, List.map_cons]
    cases hfa : f a with
    | none => exact List.Sublist.cons _ ih
    | some b =>
      simp only [List.map_cons, hfg a b hfa]
      exact List.Sublist.cons_cons _ ih

theorem ruleMsgs_idx_sublist (rs : List Rule) (fl : Flags) :
    ((ruleMsgs rs fl).map Msg.ruleIdx).Sublist (List.range' 0 rs.length) := by
  rw [← List.zipIdx_map_snd 0 rs]
  exact map_filterMap_sublist _ _ _ (fun a b h => (ruleMsg_some h).2.1) _

/-! ### modules -/

theorem mem_distinctModules (ms : List String) (m : String) : m ∈ distinctModules ms ↔ m ∈ ms := by
  induction ms with
  | nil => simp [distinctModules]
  | cons x xs ih =>
    simp only [distinctModules, List.mem_cons, List.mem_filter, ih, bne_iff_ne, ne_eq]
    by_cases h : m = x <;> simp [h]

theorem count_distinctModules (ms : List String) (m : String) :
    (distinctModules ms).count m = if m ∈ ms then 1 else 0 := by
  induction ms with
  | nil => simp [distinctModules]
  | cons x xs ih =>
    simp only [distinctModules, List.count_cons, List.mem_cons]
    by_cases h : m = x
    · subst h
      have : ((distinctModules xs).filter (· != m)).count m = 0 := by
        rw [List.count_eq_zero]; simp [List.mem_filter]
      simp [this]
    · have hx : (x == m) = false := by simp [Ne.symm h]
      rw [List.count_filter (by simp [h]), ih]
      simp [h, hx]

theorem count_import_pairs (l : List String) (m : String) :
    (l.flatMap fun x => [Msg.importModule x, Msg.moduleImported x]).count (.importModule m) = l.count m ∧
    (l.flatMap fun x => [Msg.importModule x, Msg.moduleImported x]).count (.moduleImported m) = l.count m := by
  induction l with
  | nil => simp
  | cons x xs ih =>
    simp only [List.flatMap_cons, List.count_append, ih.1, ih.2, List.count_cons, List.count_nil]
    by_cases h : x = m <;> simp [h] <;> omega

/-! ### meaning of `specMatching` -/

theorem truthTable_getD_snoc_lt (rs : List Rule) (r : Rule) (j : Nat) (h : j < rs.length) :
    (truthTable (rs ++ [r])).getD j false = (truthTable rs).getD j false := by
  rw [truthTable_snoc]
  simp [List.getD_eq_getElem?_getD, List.getElem?_append_left, truthTable_length, h]

/-- every identifier in the condition denotes an earlier rule -/
def Cond.refsBelow (n : Nat) : Cond → Prop
  | .lit _ => True
  | .str _ => True
  | .cnt _ _ => True
  | .rule j => j < n
  | .not c => c.refsBelow n
  | .and a b => a.refsBelow n ∧ b.refsBelow n
  | .or a b => a.refsBelow n ∧ b.refsBelow n

theorem holds_congr (c : Cond) (n : Nat) (e1 e2 : Nat → Bool) (hc : c.refsBelow n) (he : ∀ j, j < n → e1 j = e2 j) :
    c.holds e1 = c.holds e2 := by
  induction c with
  | lit b => rfl
  | str f => rfl
  | cnt f g => rfl
  | rule j => exact he j hc
  | not c ih => simp [Cond.holds, ih hc]
  | and a b iha ihb => simp [Cond.holds, iha hc.1, ihb hc.2]
  | or a b iha ihb => simp [Cond.holds, iha hc.1, ihb hc.2]


/-- identifiers denote earlier rules (the compiler rejects anything else) -/
def BackRefs (rs : List Rule) : Prop := ∀ (i : Nat) (r : Rule), rs[i]? = some r → r.cond.refsBelow i

theorem condHolds_snoc_lt (rs : List Rule) (a : Rule) (j : Nat) (h : j < rs.length) :
    condHolds (rs ++ [a]) j = condHolds rs j := truthTable_getD_snoc_lt rs a j h

theorem condHolds_snoc_last (rs : List Rule) (a : Rule) :
    condHolds (rs ++ [a]) rs.length = a.cond.holds (condHolds rs) := by
  have hf : (fun j => (truthTable rs).getD j false) = condHolds rs := rfl
  simp only [condHolds, truthTable_snoc, ruleTruth]
  rw [hf]
  simp [List.getD_eq_getElem?_getD, truthTable_length]

theorem condHolds_fixpoint_aux (rs : List Rule) (h : BackRefs rs) (i : Nat) (r : Rule) (hr : rs[i]? = some r) :
    condHolds rs i = r.cond.holds (condHolds rs) := by
  induction rs using snoc_induction generalizing i r with
  | nil => simp at hr
  | snoc l a ih =>
    have hl : BackRefs l := by
      intro j g hg
      apply h j g
      rw [List.getElem?_append_left]
      · exact hg
      · exact (List.getElem?_eq_some_iff.1 hg).1
    have hi : i < (l ++ [a]).length := (List.getElem?_eq_some_iff.1 hr).1
    simp only [List.length_append, List.length_cons, List.length_nil] at hi
    by_cases hlt : i < l.length
    · have hr' : l[i]? = some r := by rwa [List.getElem?_append_left hlt] at hr
      rw [condHolds_snoc_lt l a i hlt, ih hl i r hr']
      exact holds_congr r.cond i _ _ (hl i r hr') (fun j hj => (condHolds_snoc_lt l a j (by omega)).symm)
    · have hie : i = l.length := by omega
      subst hie
      have hra : r = a := by
        rw [List.getElem?_append_right (Nat.le_refl _)] at hr
        simpa using hr.symm
      subst hra
      rw [condHolds_snoc_last]
      exact holds_congr r.cond l.length _ _ (h l.length r hr) (fun j hj => (condHolds_snoc_lt l r j hj).symm)

theorem condHolds_unique_aux (rs : List Rule) (h : BackRefs rs) (t : Nat → Bool)
    (ht : ∀ (i : Nat) (r : Rule), rs[i]? = some r → t i = r.cond.holds t) (i : Nat) (hi : i < rs.length) :
    t i = condHolds rs i := by
  induction i using Nat.strongRecOn with
  | _ i ih =>
    have hr : rs[i]? = some rs[i] := List.getElem?_eq_getElem hi
    rw [ht i _ hr, condHolds_fixpoint_aux rs h i _ hr]
    exact holds_congr _ i _ _ (h i _ hr) (fun j hj => ih j hj (by omega))

theorem globalsHold_iff (rs : List Rule) (ns : Nat) :
    globalsHold rs ns = true ↔
      ∀ (j : Nat) (g : Rule), rs[j]? = some g → g.isGlobal = true → g.ns = ns → condHolds rs j = true := by
  simp only [globalsHold, List.all_eq_true]
  constructor
  · intro h j g hg hgl hns
    have hj : j < rs.length := (List.getElem?_eq_some_iff.1 hg).1
    have hv : (truthTable rs)[j]? = some ((truthTable rs)[j]'(by rw [truthTable_length]; exact hj)) :=
      List.getElem?_eq_getElem _
    have hz : (rs.zip (truthTable rs))[j]? = some (g, (truthTable rs)[j]'(by rw [truthTable_length]; exact hj)) :=
      List.getElem?_zip_eq_some.2 ⟨hg, hv⟩
    have := h _ (List.mem_iff_getElem?.2 ⟨j, hz⟩)
    simp only [hgl, hns, beq_self_eq_true, Bool.and_self, Bool.not_true, Bool.false_or] at this
    simp [condHolds, List.getD_eq_getElem?_getD, hv, this]
  · intro h gv hgv
    obtain ⟨j, hj⟩ := List.mem_iff_getElem?.1 hgv
    obtain ⟨h1, h2⟩ := List.getElem?_zip_eq_some.1 hj
    cases hgl : gv.1.isGlobal with
    | false => simp
    | true =>
      by_cases hns : gv.1.ns = ns
      · have := h j gv.1 h1 hgl hns
        simp only [condHolds, List.getD_eq_getElem?_getD, h2, Option.getD_some] at this
        simp [this]
      · simp [hns]

/-! ### the model's scan through the refinement -/

theorem scan_trace (rs : List Rule) (imports : List String) (fl : Flags) (script : List Ret) :
    (scan rs imports fl script).1 = (play (protocol rs imports fl) script).trace := by
  rw [scan_eq_specScan]; rfl

theorem scan_rc (rs : List Rule) (imports : List String) (fl : Flags) (script : List Ret) :
    (scan rs imports fl script).2 = (play (protocol rs imports fl) script).stopped.getD .success := by
  rw [scan_eq_specScan]; rfl

/-- an answer with a verdict ends the scan right there, with that return code -/
theorem scan_stop (rs : List Rule) (imports : List String) (fl : Flags) (script : List Ret)
    (k : Nat) (m : Msg) (rc : Rc) (hm : (scan rs imports fl script).1[k]? = some m)
    (hv : verdict m (answer script k) = some rc) :
    (scan rs imports fl script).1.length = k + 1 ∧ (scan rs imports fl script).2 = rc := by
  rw [scan_trace] at hm ⊢
  rw [scan_rc]
  have h := play_verdict _ _ k m hm
  rw [hv] at h
  by_cases hk : k + 1 = (play (protocol rs imports fl) script).trace.length
  · rw [if_pos hk] at h
    exact ⟨hk.symm, by rw [← h]; rfl⟩
  · rw [if_neg hk] at h; cases h

theorem scan_notStopped_iff (rs : List Rule) (imports : List String) (fl : Flags) (script : List Ret) :
    NotStopped (scan rs imports fl script).1 script ↔ (play (protocol rs imports fl) script).stopped = none := by
  rw [scan_trace]; exact notStopped_iff _ _

theorem scan_complete (rs : List Rule) (imports : List String) (fl : Flags) (script : List Ret)
    (h : NotStopped (scan rs imports fl script).1 script) :
    (scan rs imports fl script).1 = protocol rs imports fl ∧ (scan rs imports fl script).2 = .success := by
  have hs := (scan_notStopped_iff rs imports fl script).1 h
  rw [scan_trace, scan_rc, hs]
  exact ⟨play_complete _ _ hs, rfl⟩

theorem scan_prefix (rs : List Rule) (imports : List String) (fl : Flags) (script : List Ret) :
    (scan rs imports fl script).1 <+: protocol rs imports fl := by
  rw [scan_trace]; exact play_prefix _ _

theorem finished_mem_iff (rs : List Rule) (imports : List String) (fl : Flags) (script : List Ret) :
    Msg.scanFinished ∈ (scan rs imports fl script).1 ↔ NotStopped (scan rs imports fl script).1 script := by
  constructor
  · intro h
    rw [scan_notStopped_iff]
    have hp := scan_prefix rs imports fl script
    have hp' : (scan rs imports fl script).1 <+: (moduleMsgs imports ++ ruleMsgs rs fl) ++ [.scanFinished] := by
      simpa [protocol] using hp
    rcases List.prefix_concat_iff.1 hp' with he | hpre
    · -- the whole protocol was delivered; the answer to the finished message has no verdict
      have hlen : (play (protocol rs imports fl) script).trace.length =
          (moduleMsgs imports ++ ruleMsgs rs fl).length + 1 := by
        rw [← scan_trace, he]; simp; omega
      have hlast : (play (protocol rs imports fl) script).trace[(moduleMsgs imports ++ ruleMsgs rs fl).length]? =
          some .scanFinished := by
        rw [← scan_trace, he]; simp
      have hv := play_verdict _ _ _ _ hlast
      rw [if_pos hlen.symm] at hv
      rw [← hv]; simp [verdict, Msg.isRule, Msg.isModule, Msg.isTooMany]
    · exact absurd (hpre.subset h) (finished_not_mem_body rs imports fl)
  · intro h
    rw [(scan_complete rs imports fl script h).1]
    simp [protocol]

theorem mem_scan_rule (rs : List Rule) (imports : List String) (fl : Flags) (script : List Ret) (m : Msg)
    (hm : m ∈ (scan rs imports fl script).1) (hr : m.isRule = true) : m ∈ ruleMsgs rs fl := by
  have h := (scan_prefix rs imports fl script).subset hm
  simp only [protocol, List.mem_append, List.mem_singleton] at h
  rcases h with (h | h) | h
  · have := moduleMsgs_isModule h
    rw [isRule_not_isModule hr] at this; cases this
  · exact h
  · subst h; simp [Msg.isRule] at hr

end YaraModel.Cb
